(** C01 — Benchmark records survive a write/read round trip.
    Statements only; proofs are in Proofs/WriterMap.v, Proofs/WriterLines.v, Proofs/Writer.v,
    Proofs/ReaderFields.v, Proofs/WriterText.v (on top of the reader theorems of C02).

    Quantified library behaviour: [is_space is_lower is_upper] (unicode classes;
    the only fact used is [colon_ok]: ':' is neither white space nor upper
    case), [atoi] / [parse_float] (bytesconv, property C03) and [fmt_g] (fmt's
    %v of a float64).  What is assumed of them is part of [WFres]
    ([bench_ok]): the printed iteration count and every printed measurement
    are single fields that the number parsers read back exactly.  [is_space 10 = true]
    (LF is white space) is used to derive that keys contain no LF. *)
From Perf Require Import Base.Bytes Base.B64 Base.Utf8 Base.Unicode
  Model.Name Model.Extract Model.Units Model.Reader Model.Files Model.Writer
  Proofs.ReaderSlots Proofs.Reader Proofs.WriterMap Proofs.WriterLines Proofs.WriterClean Proofs.Writer
  Proofs.ReaderFields Proofs.WriterText Model.RoundTripSpec Proofs.RoundTripSpec.
Local Open Scope N_scope.

Definition colon_ok (is_space is_upper : N -> bool) : Prop := is_space 58 = false /\ is_upper 58 = false.

(** the writer's running belief (fileConfig/order): whatever it believed
    before (distinct keys) and whatever the reader of its output held
    accordingly ([Inv]: exactly the file part of the belief), after the
    configuration lines of one writeResult the belief IS the result's
    configuration and the reader again holds exactly its file part.  Covers the
    change test, the walk with deletions, the new-key loop and its length guard. *)
Theorem C01_writer_belief_invariant : forall w R m,
  NoDup (keys (w_have w)) -> NoDup (keys R) -> file_vals_ok R -> Inv m (w_have w) ->
  NoDup (keys (snd (cfg_part w R))) /\
  (forall k, vlook (snd (cfg_part w R)) k = vlook R k) /\
  Inv (apply_ops m (fst (cfg_part w R))) (snd (cfg_part w R)).
Proof. exact cfg_part_ok. Qed.
Print Assumptions C01_writer_belief_invariant.

(** [WFhist prev seen recs]: a stream of results and unit-metadata records the
    format can carry.  Per result ([WFres]): distinct keys; every FILE entry has
    a key recognised by parseKeyValueLine and a value that is non-empty, does
    not start with a blank, has no LF and does not end in CR (internal entries -
    tool labels such as ".file" - are unconstrained: the writer never prints
    them); name without white space; >= 1 measurement; the printed iteration
    count and measurements are single fields that atoi / atof read back exactly;
    each line it can cause stays under the scanner's 64 KiB limit.  From one
    result to the next ([stays], [prev] = configuration of the previous result,
    [] at the start): a key that could not stand on a line of its own does not
    disappear (the writer prints "key:" for every key that disappears).  Per
    metadata record ([WFunit]): unit = Tidy of the written unit, written unit
    and key=value are fields, key non-empty without '='; its (unit, key) is new
    with respect to [seen] and to the earlier records of the stream.
    All conditions are on the records, none on the output.

    What WFhist excludes is NOT silently out of scope: the property quantifies
    over every API-built stream, so each excluded class that the real writer
    and reader mishandle is a recorded known finding with its own refutation
    below and its own narrow relaxed judge (Corr/RunC01.v [known_ok]): a file
    value ending in CR (C01_cr_refuted), starting with a blank
    (C01_leading_blank_refuted), containing LF (C01_lf_refuted), empty
    (C01_empty_value_refuted); a file key that is no key
    (C01_bad_key_refuted); no measurements (C01_no_measurements_refuted); white
    space in the name (C01_name_space_refuted); a repeated (unit, key)
    (C01_repeated_unit_refuted); on the text route a re-printed line over the
    scanner's limit (C01_long_line_refuted).  The harness generates every one
    of these classes and the strict judge fails on them.  Not generated (outside
    both): keys containing ':' or LF, names containing LF, units that are not
    fields, configuration lines over 64 KiB. *)

(** every such stream (hence every history of configuration additions, changes,
    deletions, re-additions and file<->internal flips between consecutive
    results), written by the writer and read back by the reader from ANY earlier
    reader state whose unit table has the keys [seen]: the same results and
    unit metadata in order - name, iteration count, measurements as written,
    exactly the file configuration as a map; metadata records equal. *)
Theorem C01_roundtrip_history :
  forall is_space is_lower is_upper atoi parse_float fmt_g,
  colon_ok is_space is_upper -> is_space 10 = true ->
  forall (recs : list record) (st : rstate) (fname : bytes),
  WFhist is_space is_lower is_upper atoi parse_float fmt_g [] (ukeys (rs_units st)) recs ->
  exists out st',
    read_file is_space is_lower is_upper atoi parse_float st fname [] (emit fmt_g recs) = (out, None, st') /\
    Forall2 rt_equiv out recs.
Proof. exact roundtrip_history. Qed.
Print Assumptions C01_roundtrip_history.

(** internal configuration is never read back as file configuration *)
Theorem C01_internal_never_reappears :
  forall is_space is_lower is_upper atoi parse_float fmt_g,
  colon_ok is_space is_upper -> is_space 10 = true ->
  forall (recs : list record) (st : rstate) (fname : bytes),
  WFhist is_space is_lower is_upper atoi parse_float fmt_g [] (ukeys (rs_units st)) recs ->
  exists out st',
    read_file is_space is_lower is_upper atoi parse_float st fname [] (emit fmt_g recs) = (out, None, st') /\
    Forall2 (fun o w => match o, w with
                        | RRes r', RRes r => forall c, In c (r_cfg r) -> c_file c = false ->
                                                       cfg_lookup (r_cfg r') (c_key c) = None
                        | RUnit _, RUnit _ => True
                        | _, _ => False end) out recs.
Proof. exact internal_never_reappears. Qed.
Print Assumptions C01_internal_never_reappears.

(** the lines written for a well-formed stream contain no LF, do not end in CR
    and are short: derived from the records *)
Theorem C01_written_lines_clean :
  forall is_space is_lower is_upper atoi parse_float fmt_g,
  colon_ok is_space is_upper -> is_space 10 = true ->
  forall recs prev seen w,
  WFhist is_space is_lower is_upper atoi parse_float fmt_g prev seen recs ->
  NoDup (keys (w_have w)) -> (forall k, vlook (w_have w) k = vlook prev k) ->
  Forall line_clean (map (render fmt_g) (fst (write_all w recs))).
Proof. exact written_lines_clean. Qed.
Print Assumptions C01_written_lines_clean.

(** the writer's bytes split back into exactly the lines it wrote *)
Theorem C01_split_join_lines : forall ls, Forall line_clean ls -> split_lines (join_lines ls) = map Line ls.
Proof. exact split_join_lines. Qed.
Print Assumptions C01_split_join_lines.

(** ** the text route: text -> reader -> writer -> reader *)

Definition lower_ok (is_lower : N -> bool) : Prop := is_lower 66 = false /\ is_lower 85 = false.

(** whatever the reader delivers from a text (from any earlier reader state,
    with any labels, up to an I/O error if a line exceeds the scanner's limit),
    minus the syntax-error records the writer skips, is a stream the format can
    carry - under two exclusions, both boolean functions of the text and the
    oracles: no configuration value ends in CR ([no_value_ends_cr], the known
    finding); the numbers of every result re-print ([recs_reprint]: printed
    iteration count read back by atoi, every printed measurement one field that
    atof reads back to the same float, the re-printed benchmark line under
    64 KiB). *)
Theorem C01_reader_output_WF :
  forall is_space is_lower is_upper atoi parse_float fmt_g,
  lower_ok is_lower ->
  forall (t : bytes) (st : rstate) (fname : bytes) (labels : list (bytes * bytes)) recs e st1,
  no_value_ends_cr is_space is_lower is_upper atoi parse_float t = true ->
  read_file is_space is_lower is_upper atoi parse_float st fname labels t = (recs, e, st1) ->
  recs_reprint is_space atoi parse_float fmt_g recs = true ->
  WFhist is_space is_lower is_upper atoi parse_float fmt_g [] (ukeys (rs_units st)) (data recs).
Proof. exact reader_output_WF. Qed.
Print Assumptions C01_reader_output_WF.

(** read a text, write what was read, read the output: the same results and
    unit-metadata records in order - name, iteration count, (written value,
    written unit) pairs, exactly the FILE configuration as a map (labels and
    other internal configuration do not come back); metadata records equal; no
    error on the way back.  The second reader may be any reader whose
    unit-metadata table has the keys the first one started with. *)
Theorem C01_roundtrip_text :
  forall is_space is_lower is_upper atoi parse_float fmt_g,
  lower_ok is_lower -> colon_ok is_space is_upper -> is_space 10 = true ->
  forall (t : bytes) (st : rstate) (fname : bytes) (labels : list (bytes * bytes))
         (st2 : rstate) (fname2 : bytes) recs e st1,
  no_value_ends_cr is_space is_lower is_upper atoi parse_float t = true ->
  read_file is_space is_lower is_upper atoi parse_float st fname labels t = (recs, e, st1) ->
  recs_reprint is_space atoi parse_float fmt_g recs = true ->
  ukeys (rs_units st2) = ukeys (rs_units st) ->
  exists out st',
    read_file is_space is_lower is_upper atoi parse_float st2 fname2 [] (emit fmt_g recs) = (out, None, st') /\
    Forall2 rt_equiv out (data recs).
Proof. exact roundtrip_text. Qed.
Print Assumptions C01_roundtrip_text.

(** ** concrete oracles for the examples *)
Definition ex_atoi (f : bytes) : option Z := if beq f (bs "1") then Some 1%Z else None.
Definition ex_pf (f : bytes) : option b64 := None.
Definition ex_fmt (x : b64) : bytes := bs "1".
Definition ex_val : value := mkValue (b64_of_bits 0x3E112E0BE826D695) (bs "sec/op") b64_one (bs "ns/op").
Definition ex_res (cfgs : list cfg) : result := mkResult cfgs (bs "X") 1 [ex_val] [] 0.

Example C01_colon_ok : colon_ok go_is_space go_is_upper.
Proof. split; reflexivity. Qed.

Example C01_lower_ok : lower_ok go_is_lower.
Proof. split; reflexivity. Qed.

Definition ex_unit : umetap := mkUmetap (mkUmeta (bs "sec/op") (bs "better") (bs "ns/op") (bs "lower")) [] 0.

(** non-vacuity: a file key, an internal key the reader would not recognise on a
    line (".file"), a rescaled measurement, a unit-metadata record *)
Example C01_WFhist_example :
  WFhist go_is_space go_is_lower go_is_upper ex_atoi ex_pf ex_fmt [] []
    [RRes (ex_res [mkCfg (bs "goos") (bs "linux") true; mkCfg (bs ".file") (bs "x") false]); RUnit ex_unit].
Proof.
  assert (Hs : forall l : bytes, (N.of_nat (length l) <? max_token) = true -> short l)
    by (intros l H; now apply N.ltb_lt).
  assert (Hf : forall f, fieldb go_is_space f = true -> field_ok go_is_space f) by apply fieldb_ok.
  apply WFh_res; [| |apply WFh_unit; [| |apply WFh_nil]].
  - split; [|split].
    + split.
      * repeat constructor; cbn; intuition discriminate.
      * constructor; [|constructor; [|constructor]]; cbn [c_file c_key c_val]; [intros _|discriminate].
        split; [split; [cbn; repeat split; try discriminate; vm_compute; reflexivity|apply Hs; reflexivity]|].
        split; [cbn; split; discriminate|].
        split; [|apply Hs; reflexivity].
        split; [intros H; cbn in H; intuition discriminate|].
        apply (no_cr_end_app [] (bs "linux")); [discriminate|cbn; intuition discriminate].
    + split; [|split; [|split; [|split]]].
      * apply (Hf (bs "X")). vm_compute. reflexivity.
      * change (Forall (field_ok go_is_space) [bs "1"; bs "1"; bs "ns/op"]).
        repeat constructor; apply Hf; vm_compute; reflexivity.
      * reflexivity.
      * repeat constructor.
      * discriminate.
    + apply Hs. reflexivity.
  - constructor.
  - split.
    + split; [reflexivity|]. split; [apply (Hf (bs "ns/op")); vm_compute; reflexivity|].
      split; [discriminate|]. split; [cbn; intuition discriminate|].
      apply (Hf (bs "better=lower")). vm_compute. reflexivity.
    + apply Hs. reflexivity.
  - cbn. tauto.
Qed.

(** the writer before commit 4949ccf: a written file key that turned internal
    printed nothing and so reappeared as file configuration on reading *)
Theorem C01_flip_refuted :
  exists r1 r2 c,
    In c (r_cfg r2) /\ c_file c = false /\
    let '(out, _, _) := read_file go_is_space go_is_lower go_is_upper ex_atoi ex_pf rs_empty (bs "f") []
                          (emit_old ex_fmt [r1; r2]) in
    match out with
    | [_; RRes r'] => cfg_lookup (r_cfg r') (c_key c) <> None
    | _ => False
    end.
Proof.
  exists (ex_res [mkCfg (bs "k") (bs "v") true]), (ex_res [mkCfg (bs "k") (bs "v") false]), (mkCfg (bs "k") (bs "v") false).
  split; [now left|]. split; [reflexivity|]. vm_compute. discriminate.
Qed.
Print Assumptions C01_flip_refuted.

(** the expressiveness limit of the format (known finding C01_value_ends_with_CR):
    a file value ending in CR comes back without it *)
Theorem C01_cr_refuted :
  exists r,
    let '(out, _, _) := read_file go_is_space go_is_lower go_is_upper ex_atoi ex_pf rs_empty (bs "f") []
                          (emit ex_fmt [RRes r]) in
    match out with
    | [RRes r'] => cfg_lookup (r_cfg r') (bs "k") <> cfg_lookup (r_cfg r) (bs "k")
    | _ => False
    end.
Proof. exists (ex_res [mkCfg (bs "k") (hx "760d") true]). vm_compute. discriminate. Qed.
Print Assumptions C01_cr_refuted.

(** ** further records the line format cannot express (all reachable only
    through the API; each a recorded known finding, judged narrowly by
    Corr/RunC01.v [known_ok] with the declarative Model/RoundTripSpec.v) *)
Definition ex_read (recs : list record) : list record :=
  fst (fst (read_file go_is_space go_is_lower go_is_upper ex_atoi ex_pf rs_empty (bs "f") [] (emit ex_fmt recs))).
Definition ex_file_cfg (recs : list record) : list (list (bytes * bytes)) :=
  map (fun rec => match rec with
                  | RRes r => map (fun c => (c_key c, c_val c)) (filter c_file (r_cfg r))
                  | _ => [] end) recs.

(** C01_value_starts_with_blank: " v" comes back as "v" *)
Theorem C01_leading_blank_refuted :
  ex_file_cfg (ex_read [RRes (ex_res [mkCfg (bs "k") (bs " v") true])]) = [[(bs "k", bs "v")]].
Proof. vm_compute. reflexivity. Qed.
Print Assumptions C01_leading_blank_refuted.

(** C01_value_contains_LF: the value is cut at the LF and the rest is read as a
    line of its own - here it sets file key j, which the record never had *)
Theorem C01_lf_refuted :
  ex_file_cfg (ex_read [RRes (ex_res [mkCfg (bs "k") (bs "a" ++ [x0a] ++ bs "j: injected") true])])
  = [[(bs "k", bs "a"); (bs "j", bs "injected")]].
Proof. vm_compute. reflexivity. Qed.
Print Assumptions C01_lf_refuted.

(** C01_empty_file_value: a present file key with an empty value is absent on reading back *)
Theorem C01_empty_value_refuted :
  ex_file_cfg (ex_read [RRes (ex_res [mkCfg (bs "k") (bs "v") true]); RRes (ex_res [mkCfg (bs "k") [] true])])
  = [[(bs "k", bs "v")]; []].
Proof. vm_compute. reflexivity. Qed.
Print Assumptions C01_empty_value_refuted.

(** C01_file_key_not_a_key: "Key: v" is no configuration line *)
Theorem C01_bad_key_refuted :
  ex_file_cfg (ex_read [RRes (ex_res [mkCfg (bs "Key") (bs "v") true])]) = [[]].
Proof. vm_compute. reflexivity. Qed.
Print Assumptions C01_bad_key_refuted.

(** C01_result_without_measurements: "BenchmarkX 1" is a syntax error *)
Theorem C01_no_measurements_refuted :
  ex_read [RRes (mkResult [] (bs "X") 1 [] [] 0)] = [RErr (bs "f") 1 EMissingMeas].
Proof. vm_compute. reflexivity. Qed.
Print Assumptions C01_no_measurements_refuted.

(** C01_name_with_white_space: "Benchmarka b 1 1 ns/op" is a syntax error *)
Theorem C01_name_space_refuted :
  ex_read [RRes (mkResult [] (bs "a b") 1 [ex_val] [] 0)] = [RErr (bs "f") 1 EBadIters].
Proof. vm_compute. reflexivity. Qed.
Print Assumptions C01_name_space_refuted.

(** C01_repeated_unit_metadata: the same record written twice is read once *)
Theorem C01_repeated_unit_refuted :
  length (ex_read [RUnit ex_unit; RUnit ex_unit]) = 1%nat.
Proof. vm_compute. reflexivity. Qed.
Print Assumptions C01_repeated_unit_refuted.

(** the relaxed judge changes nothing for a value the format can carry
    (non-empty, no leading blank/tab, no LF, no final CR): [carried_value] is
    the identity there, so known_ok differs from prop_ok on inexpressible
    records only *)
Theorem C01_carried_value_id : forall v,
  v <> [] -> (forall c r, v = c :: r -> c <> x20 /\ c <> x09) -> ~ In x0a v -> (forall p, v <> p ++ [x0d]) ->
  carried_value v = v.
Proof. exact carried_value_id. Qed.
Print Assumptions C01_carried_value_id.

(** a two-step history: file key flips to internal, another key is deleted *)
Example C01_example :
  emit ex_fmt [RRes (ex_res [mkCfg (bs "a") (bs "1") true; mkCfg (bs "b") (bs "2") true]);
               RRes (ex_res [mkCfg (bs "a") (bs "1") false])]
  = bs "a: 1" ++ [x0a] ++ bs "b: 2" ++ [x0a] ++ [x0a] ++ bs "BenchmarkX 1 1 ns/op" ++ [x0a] ++ [x0a]
    ++ bs "a:" ++ [x0a] ++ bs "b:" ++ [x0a] ++ [x0a] ++ bs "BenchmarkX 1 1 ns/op" ++ [x0a].
Proof. vm_compute. reflexivity. Qed.

(** the hypotheses of the text route are satisfiable: a text with configuration
    (set, changed, deleted), a unit-metadata line, a malformed line (its error
    record is skipped by the writer), a rescaled unit, read with a ".file" label *)
Definition ex_text : bytes :=
  bs "goos: linux" ++ [x0a] ++ bs "note:   a b" ++ [x0d; x0a] ++ bs "Unit ns/op better=lower" ++ [x0a]
  ++ bs "BenchmarkX 1 1 ns/op" ++ [x0a] ++ bs "goos: plan9" ++ [x0a] ++ bs "note:" ++ [x0a]
  ++ bs "BenchmarkBad x" ++ [x0a] ++ bs "BenchmarkY-8   1   1 ns/op   1 B/op" ++ [x0a].

Example C01_text_example :
  no_value_ends_cr go_is_space go_is_lower go_is_upper ex_atoi ex_pf ex_text = true /\
  let '(recs, e, _) := read_file go_is_space go_is_lower go_is_upper ex_atoi ex_pf rs_empty (bs "f")
                         [(bs ".file", bs "f")] ex_text in
  recs_reprint go_is_space ex_atoi ex_pf ex_fmt recs = true /\ e = None /\ length recs = 4%nat /\
  emit ex_fmt recs =
    bs "Unit ns/op better=lower" ++ [x0a] ++ bs "goos: linux" ++ [x0a] ++ bs "note: a b" ++ [x0a] ++ [x0a]
    ++ bs "BenchmarkX 1 1 ns/op" ++ [x0a] ++ [x0a] ++ bs "goos: plan9" ++ [x0a] ++ bs "note:" ++ [x0a] ++ [x0a]
    ++ bs "BenchmarkY-8 1 1 ns/op 1 B/op" ++ [x0a].
Proof. vm_compute. repeat split. Qed.

(** why [recs_reprint] has a size clause: %v may print a number longer than it
    was written ("1e9" -> "1e+09").  A text with one benchmark line of 65532
    bytes is read without error (one result, 10920 measurements, each number
    re-printed by %v reads back to the same float); the line the writer prints
    for it has 87372 bytes and the
    reader stops on it with the scanner's "token too long" - no record comes
    back.  (Confirmed on the real reader and writer.) *)
Definition long_pf (f : bytes) : option b64 :=
  if beq f (bs "1e9") || beq f (bs "1e+09") then Some (b64_of_Z 1000000000) else None.
Definition long_fmt (x : b64) : bytes := bs "1e+09".
Definition long_text : bytes := bs "BenchmarkX 1" ++ concat (repeat (bs " 1e9 u") (N.to_nat 10920)) ++ [x0a].

Definition long_read (t : bytes) : list record * option Z * rstate :=
  read_file go_is_space go_is_lower go_is_upper ex_atoi long_pf rs_empty (bs "f") [] t.

Theorem C01_long_line_refuted :
  no_value_ends_cr go_is_space go_is_lower go_is_upper ex_atoi long_pf long_text = true /\
  (let recs := fst (fst (long_read long_text)) in
   (length recs, snd (fst (long_read long_text)), fst (long_read (emit long_fmt recs))))
  = (1%nat, None, ([], Some 0%Z)).
Proof. vm_compute. split; reflexivity. Qed.
Print Assumptions C01_long_line_refuted.
