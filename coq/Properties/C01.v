(** C01 — Benchmark records survive a write/read round trip.
    Statements only; proofs are in Proofs/WriterMap.v, Proofs/WriterLines.v, Proofs/Writer.v
    (on top of the reader theorems of C02).

    Quantified library behaviour: [is_space is_lower is_upper] (unicode classes;
    the only fact used is [colon_ok]: ':' is neither white space nor upper
    case), [atoi] / [parse_float] (bytesconv, property C03) and [fmt_g] (fmt's
    %v of a float64).  What is assumed of them is part of [WFres]
    ([bench_ok]): the printed iteration count and every printed measurement
    are single fields that the number parsers read back exactly. *)
From Perf Require Import Base.Bytes Base.B64 Base.Utf8 Base.Unicode
  Model.Name Model.Extract Model.Units Model.Reader Model.Files Model.Writer
  Proofs.ReaderSlots Proofs.Reader Proofs.WriterMap Proofs.WriterLines Proofs.Writer.
Local Open Scope N_scope.

Definition colon_ok (is_space is_upper : N -> bool) : Prop := is_space 58 = false /\ is_upper 58 = false.

(** the writer's running belief (fileConfig/order): whatever it believed
    before (distinct keys) and whatever the reader of its output held
    accordingly ([Inv]: exactly the file part of the belief), after the
    configuration lines of one writeResult the belief IS the result's
    configuration and the reader again holds exactly its file part.  Covers the
    change test, the walk with deletions, the new-key loop and its length guard. *)
Theorem C01_writer_belief_invariant : forall w R m,
  NoDup (keys (w_have w)) -> NoDup (keys R) -> file_vals_ok R -> Inv m (w_have w) ->
  NoDup (keys (snd (cfg_part w R))) /\
  (forall k, vlook (snd (cfg_part w R)) k = vlook R k) /\
  Inv (apply_ops m (fst (cfg_part w R))) (snd (cfg_part w R)).
Proof. exact cfg_part_ok. Qed.
Print Assumptions C01_writer_belief_invariant.

(** every finite sequence of well-formed results (any configurations, so any
    history of additions, changes, deletions, re-additions and file<->internal
    flips between consecutive results), written by the writer and read back by
    the reader from ANY earlier reader state: the same results in order, with
    the same name, iteration count, measurements as written, and exactly the
    file configuration as a map.
    Premise on the output: its lines contain no LF, do not end in CR and stay
    under the scanner's 64 KiB limit ([line_clean]; see C01_cr_refuted). *)
Theorem C01_roundtrip_history :
  forall is_space is_lower is_upper atoi parse_float fmt_g, colon_ok is_space is_upper ->
  forall (rs : list result) (st : rstate) (fname : bytes),
  Forall (WFres is_space is_lower is_upper atoi parse_float fmt_g) rs ->
  Forall line_clean (map (render fmt_g) (fst (write_all w_init (map RRes rs)))) ->
  exists out st',
    read_file is_space is_lower is_upper atoi parse_float st fname [] (emit fmt_g (map RRes rs)) = (out, None, st') /\
    Forall2 rt_equiv out rs.
Proof. exact roundtrip_history. Qed.
Print Assumptions C01_roundtrip_history.

(** internal configuration is never read back as file configuration *)
Theorem C01_internal_never_reappears :
  forall is_space is_lower is_upper atoi parse_float fmt_g, colon_ok is_space is_upper ->
  forall (rs : list result) (st : rstate) (fname : bytes),
  Forall (WFres is_space is_lower is_upper atoi parse_float fmt_g) rs ->
  Forall line_clean (map (render fmt_g) (fst (write_all w_init (map RRes rs)))) ->
  exists out st',
    read_file is_space is_lower is_upper atoi parse_float st fname [] (emit fmt_g (map RRes rs)) = (out, None, st') /\
    Forall2 (fun o r => match o with
                        | RRes r' => forall c, In c (r_cfg r) -> c_file c = false ->
                                               cfg_lookup (r_cfg r') (c_key c) = None
                        | _ => False end) out rs.
Proof. exact internal_never_reappears. Qed.
Print Assumptions C01_internal_never_reappears.

(** the writer's bytes split back into exactly the lines it wrote *)
Theorem C01_split_join_lines : forall ls, Forall line_clean ls -> split_lines (join_lines ls) = map Line ls.
Proof. exact split_join_lines. Qed.
Print Assumptions C01_split_join_lines.

(** ** concrete oracles for the examples *)
Definition ex_atoi (f : bytes) : option Z := if beq f (bs "1") then Some 1%Z else None.
Definition ex_pf (f : bytes) : option b64 := None.
Definition ex_fmt (x : b64) : bytes := bs "1".
Definition ex_val : value := mkValue (b64_of_bits 0x3E112E0BE826D695) (bs "sec/op") b64_one (bs "ns/op").
Definition ex_res (cfgs : list cfg) : result := mkResult cfgs (bs "X") 1 [ex_val] [] 0.

Example C01_colon_ok : colon_ok go_is_space go_is_upper.
Proof. split; reflexivity. Qed.

(** non-vacuity: a file key, an internal key, a rescaled measurement *)
Example C01_WFres_example :
  WFres go_is_space go_is_lower go_is_upper ex_atoi ex_pf ex_fmt
        (ex_res [mkCfg (bs "goos") (bs "linux") true; mkCfg (bs "note") (bs "x") false]).
Proof.
  split.
  - split; [|split].
    + repeat constructor; cbn; intuition discriminate.
    + repeat constructor; cbn; repeat split; try discriminate; reflexivity.
    + repeat constructor; cbn; intros; try discriminate; split; discriminate.
  - split; [|split; [|split; [|split]]].
    + vm_compute. repeat constructor.
    + vm_compute. repeat constructor; try discriminate.
    + reflexivity.
    + repeat constructor.
    + discriminate.
Qed.

(** the expressiveness limit of the format (known finding C01_value_ends_with_CR):
    a file value ending in CR comes back without it *)
Theorem C01_cr_refuted :
  exists r,
    let '(out, _, _) := read_file go_is_space go_is_lower go_is_upper ex_atoi ex_pf rs_empty (bs "f") []
                          (emit ex_fmt [RRes r]) in
    match out with
    | [RRes r'] => cfg_lookup (r_cfg r') (bs "k") <> cfg_lookup (r_cfg r) (bs "k")
    | _ => False
    end.
Proof. exists (ex_res [mkCfg (bs "k") (hx "760d") true]). vm_compute. discriminate. Qed.
Print Assumptions C01_cr_refuted.

(** a two-step history: file key flips to internal, another key is deleted *)
Example C01_example :
  emit ex_fmt [RRes (ex_res [mkCfg (bs "a") (bs "1") true; mkCfg (bs "b") (bs "2") true]);
               RRes (ex_res [mkCfg (bs "a") (bs "1") false])]
  = bs "a: 1" ++ [x0a] ++ bs "b: 2" ++ [x0a] ++ [x0a] ++ bs "BenchmarkX 1 1 ns/op" ++ [x0a] ++ [x0a]
    ++ bs "a:" ++ [x0a] ++ bs "b:" ++ [x0a] ++ [x0a] ++ bs "BenchmarkX 1 1 ns/op" ++ [x0a].
Proof. vm_compute. reflexivity. Qed.
