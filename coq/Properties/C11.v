(** C11 — Mann-Whitney U statistics and p-values are exact for small samples.
    Statements only; proofs are in Proofs/UStat.v, Proofs/UDistSpec.v,
    Proofs/UDistImpl.v, Proofs/UTest.v, Proofs/UDistSum.v, Proofs/UDistPrune.v,
    Proofs/UTestExact.v, Proofs/UDistUntied.v, Proofs/UDistRev.v (reversal symmetry),
    Proofs/UDistDP.v (loop invariant of UDist.p), Proofs/UTestUntied.v,
    Proofs/UDistUntiedEval.v (evaluators of the untied specification, all sizes),
    Proofs/B64Arith.v + Proofs/UTestSigma.v (binary64 sigma_U, classical reals),
    Proofs/UDistSpecFull.v (the three evaluators of the specification agree, unbounded),
    Proofs/UDistSpecJudge.v (what Corr/RunC11.v judges against is the declarative tail),
    Proofs/UTestHist.v, Proofs/UTestHistJudge.v (histories over the caller's memory, concurrent calls).

    Model = golang/perf's internal/stats after hooks/fix_c11_udist_k2.diff,
    fix_c11_utest_greater.diff, fix_c11_utest_twosided_cap.diff and
    fix_c11_utest_samples_equal_large.diff.
    Recorded finding (not repaired, the repair needs an edit of a pinned test
    value): C11_twosided_asymmetric_ties, see C11_twosided_asymmetric_refuted;
    confined to NON-palindromic tie vectors by C11_two_sided_palindrome_is_spec.
    Repaired finding (hooks/fix_c11_utest_samples_equal_large.diff): the code before it,
    [mwu_old], C11_err_samples_equal_large_refuted (330284 equal values: no ErrSamplesEqual). *)
From Coq Require Import ZArith List Bool Lia.
From Perf Require Import Base.B64 Model.UStat Model.UDistSpec Model.UDistImpl Model.UTest Model.UDistUntiedEval.
From Perf Require Import Proofs.UStat Proofs.UDistSpec Proofs.UDistImpl Proofs.UTest.
From Perf Require Import Proofs.UDistSum Proofs.UDistPrune Proofs.UTestExact Proofs.UDistUntied.
From Perf Require Import Proofs.UDistRev Proofs.UDistDP Proofs.UTestUntied Proofs.UTestSigmaSweep Proofs.UTestSigma.
From Perf Require Import Proofs.UDistUntiedEval.
From Perf Require Import Proofs.UDistSpecFull Proofs.UDistSpecJudge.
From Perf Require Import Model.UTestHist Proofs.UTestHist Proofs.UTestHistJudge.
From Perf Require Import Model.UApproxSpec Proofs.UApproxSpec.
From Coq Require Import Sorting.Permutation.
From Perf Require Corr.RunC11.
Import ListNotations.
Local Open Scope Z_scope.

(** the reported U (sort, labeled merge, average ranks, rank sum - n1(n1+1)/2) is
    the number of pairs with x > y plus half the number of tied pairs; as 2U, for
    ALL integer samples *)
Theorem C11_u_counts_pairs : forall x1 x2 : list Z,
  us_twoU1 (ustat_of x1 x2) = twoU_pairs x1 x2.
Proof. exact u_counts_pairs. Qed.
Print Assumptions C11_u_counts_pairs.

(** the same statistic from the tie vector and the per-run counts: the form whose
    null distribution Model/UDistSpec.v counts *)
Theorem C11_u_is_vector_statistic : forall x1 x2,
  us_twoU1 (ustat_of x1 x2) = twoU_vec 0 (combine (us_T (ustat_of x1 x2)) (us_r (ustat_of x1 x2))).
Proof. exact ustat_vec. Qed.
Print Assumptions C11_u_is_vector_statistic.

(** the tie vector the code builds is the run-length vector of the sorted pooled values *)
Theorem C11_tie_vector_is_pooled_runs : forall x1 x2, us_T (ustat_of x1 x2) = pool_T x1 x2.
Proof. exact us_T_pool. Qed.
Print Assumptions C11_tie_vector_is_pooled_runs.

(** two-sided p-value of the property = min 1 (2 min (P(U<=u), P(U>=u))):
    it lies in [0,1] ... *)
Theorem C11_two_sided_in_unit_interval : forall t n u,
  0 <= n <= zsum t -> 0 <= p_two_num t n u <= total t n.
Proof. exact p_two_bounds. Qed.
Print Assumptions C11_two_sided_in_unit_interval.

(** ... and does not change when the two samples are swapped (complement bijection
    r |-> t - r on count vectors): same tie vector, n2 = N - n1, U2 = n1 n2 - U1 *)
Theorem C11_two_sided_symmetric_capped : forall x1 x2 : list Z,
  let n1 := zlen x1 in let n2 := zlen x2 in
  pool_T x2 x1 = pool_T x1 x2 /\
  twoU_pairs x2 x1 = 2 * (n1 * n2) - twoU_pairs x1 x2 /\
  forall t, Forall (fun x => 0 <= x) t -> zsum t = n1 + n2 ->
    p_two_num t n2 (twoU_pairs x2 x1) = p_two_num t n1 (twoU_pairs x1 x2) /\
    total t n2 = total t n1 /\
    0 <= p_two_num t n1 (twoU_pairs x1 x2) <= total t n1.
Proof.
  intros x1 x2 n1 n2. split; [apply pool_T_swap|]. split; [apply twoU_pairs_swap|].
  intros t Ht Hs. rewrite twoU_pairs_swap. fold n1 n2.
  assert (Hn : 0 <= n1 <= zsum t) by (unfold n1, n2, zlen in *; lia).
  replace n2 with (zsum t - n1) by lia.
  destruct (p_two_swap t n1 (twoU_pairs x1 x2) Ht Hn) as [E1 E2].
  split; [exact E1|]. split; [exact E2|]. now apply p_two_bounds.
Qed.
Print Assumptions C11_two_sided_symmetric_capped.

(** the one-sided counts of the second sample are the mirrored counts of the first *)
Theorem C11_tails_mirror : forall t n u, Forall (fun x => 0 <= x) t ->
  count_le t (zsum t - n) u = count_ge t n (2 * (n * (zsum t - n)) - u) /\
  count_ge t (zsum t - n) u = count_le t n (2 * (n * (zsum t - n)) - u).
Proof. intros t n u Ht. split; [now apply count_le_compl | now apply count_ge_compl]. Qed.
Print Assumptions C11_tails_mirror.

(** peel_top_group: the specification's count obeys the recurrence that makeUmemo
    unwinds (a_K = 2 (t_1+..+t_{K-1}) + t_K) *)
Theorem C11_peel_top_group : forall t tK n u, Forall (fun x => 0 <= x) t -> 0 <= tK ->
  count_le (t ++ [tK]) n u
  = sumf (fun rK => choose tK rK * count_le t (n - rK) (u - rK * (2 * zsum t + tK - 2 * n + rK))) (zrange 0 tK).
Proof. exact count_le_snoc. Qed.
Print Assumptions C11_peel_top_group.

(** the repaired K == 2 base case counts exactly (floor, not truncation) *)
Theorem C11_k2_base_case_correct : forall t1 t2 n u, 0 <= t1 -> 0 <= t2 -> 0 < t1 + t2 ->
  base2 t1 t2 n u = count_le [t1; t2] n u.
Proof. exact base2_correct. Qed.
Print Assumptions C11_k2_base_case_correct.

(** the recurrence with the code's coefficients, r_k ranges and base case, without
    the pruning of table keys (intermediate step, kept) *)
Theorem C11_tied_recurrence_unpruned : forall t,
  Forall (fun x => 1 <= x) t -> (2 <= length t)%nat ->
  forall n u, umemo_unpruned t n u = count_le t n u.
Proof. exact tied_recurrence_unpruned. Qed.
Print Assumptions C11_tied_recurrence_unpruned.

(** the pruning lemma: every count vector has twoUmin <= 2U <= twoUmax (the greedy
    fillings are extremal because a_k increases with k) *)
Theorem C11_pruning_lemma : forall t n r, Forall (fun x => 0 <= x) t -> In r (vecs t n) ->
  twoUmin n (levels t) <= twoU_of t r <= twoUmax n (levels t).
Proof. exact twoU_between. Qed.
Print Assumptions C11_pruning_lemma.

(** tied_recurrence_correct: makeUmemo's table entry (keys pruned by twoUmin/twoUmax,
    "beyond max => C(tsum, n1)" and "below min => 0" for absent keys, repaired K == 2
    base case) is the number of choices with 2U <= u: every tie vector with K >= 2
    positive runs, every n1, every u *)
Theorem C11_tied_recurrence_correct : forall t,
  Forall (fun x => 1 <= x) t -> (2 <= length t)%nat ->
  forall n u, umemo t n u = count_le t n u.
Proof. exact tied_recurrence_correct. Qed.
Print Assumptions C11_tied_recurrence_correct.

(** Vandermonde: the choices counted by the specification are all C(N, n1) of them *)
Theorem C11_all_choices_counted : forall t, Forall (fun x => 0 <= x) t -> forall n, count_all t n = total t n.
Proof. exact count_all_total. Qed.
Print Assumptions C11_all_choices_counted.

(** the distribution function is 1 from U = n1 n2 on, and 0 below U = 0 *)
Theorem C11_cdf_reaches_one : forall t n u, Forall (fun x => 0 <= x) t ->
  2 * (n * (zsum t - n)) <= u -> count_le t n u = total t n.
Proof. exact count_le_top. Qed.
Print Assumptions C11_cdf_reaches_one.
Theorem C11_cdf_zero_below : forall t n u, Forall (fun x => 0 <= x) t -> u < 0 -> count_le t n u = 0.
Proof. exact count_le_below. Qed.
Print Assumptions C11_cdf_zero_below.

(** pmf_sums_to_one: the masses at 2U = 0, 1, .., 2 n1 n2 add up to all choices *)
Theorem C11_pmf_sums_to_one : forall t n, Forall (fun x => 0 <= x) t -> 0 <= n <= zsum t ->
  sumf (fun u => count_eq t n u) (zrange 0 (2 * (n * (zsum t - n)))) = total t n.
Proof. exact pmf_sums_to_one. Qed.
Print Assumptions C11_pmf_sums_to_one.

(** UDist.CDF / UDist.PMF on a tied distribution (model of the wrappers, all range
    checks included) are the exact fractions count / C(N, n1); q = 4U *)
Theorem C11_cdf_tied_exact : forall t n1 n2 q,
  Forall (fun x => 1 <= x) t -> (2 <= length t)%nat -> has_ties t = true ->
  zsum t = n1 + n2 -> 0 <= n1 -> 0 <= n2 ->
  frac_eq (cdf n1 n2 t q) (count_le t n1 (q / 2)) (total t n1).
Proof. exact cdf_tied_exact. Qed.
Print Assumptions C11_cdf_tied_exact.
Theorem C11_pmf_tied_exact : forall t n1 n2 q,
  Forall (fun x => 1 <= x) t -> (2 <= length t)%nat -> has_ties t = true ->
  zsum t = n1 + n2 -> 0 <= n1 -> 0 <= n2 -> 0 <= q -> q < 4 * (n1 * n2) + 2 ->
  frac_eq (pmf n1 n2 t q) (count_eq t n1 (q / 2)) (total t n1).
Proof. exact pmf_tied_exact. Qed.
Print Assumptions C11_pmf_tied_exact.

(** one_sided_exact, tied exact path: for all samples with ties and at least two
    distinct values the model's Less / Greater p-values are P(U <= u) / P(U >= u) *)
Theorem C11_one_sided_exact_tied : forall x1 x2,
  let s := ustat_of x1 x2 in
  us_hasTies s = true -> (2 <= length (us_T s))%nat ->
  pfrac_eq (exact_p s Less) (count_le (us_T s) (us_n1 s) (us_twoU1 s)) (total (us_T s) (us_n1 s))
  /\ pfrac_eq (exact_p s Greater) (count_ge (us_T s) (us_n1 s) (us_twoU1 s)) (total (us_T s) (us_n1 s)).
Proof. exact one_sided_exact_tied. Qed.
Print Assumptions C11_one_sided_exact_tied.

(** untied distribution: the Mann-Whitney recurrence that UDist.p runs is a counting
    identity of the specification (c_{n,m}(u) = [cuntied n m u] = choices of n out of
    n+m untied values with U = u). *)
Theorem C11_mann_whitney_recurrence : forall n m u, 1 <= n -> 1 <= m ->
  cuntied n m u = cuntied (n - 1) m (u - m) + cuntied n (m - 1) u.
Proof. exact mann_whitney_recurrence. Qed.
Print Assumptions C11_mann_whitney_recurrence.

(** reversal symmetry: for a palindromic tie vector (in particular without ties) the
    null distribution is symmetric about n1 n2 / 2 (2U |-> 2 n1 n2 - 2U) *)
Theorem C11_palindrome_distribution_symmetric : forall t n u,
  Forall (fun x => 0 <= x) t -> rev t = t ->
  count_eq t n u = count_eq t n (2 * (n * (zsum t - n)) - u) /\
  count_ge t n u = count_le t n (2 * (n * (zsum t - n)) - u).
Proof. exact palindrome_distribution_symmetric. Qed.
Print Assumptions C11_palindrome_distribution_symmetric.

(** c_{n,m}(u) = c_{n,m}(nm - u) and c_{n,m} = c_{m,n} (the mirrored table cell) *)
Theorem C11_untied_symmetric : forall n m u, 0 <= n -> 0 <= m -> cuntied n m u = cuntied n m (n * m - u).
Proof. exact cuntied_sym. Qed.
Print Assumptions C11_untied_symmetric.
Theorem C11_untied_swap : forall n m u, 0 <= n -> 0 <= m -> cuntied n m u = cuntied m n u.
Proof. exact cuntied_swap. Qed.
Print Assumptions C11_untied_swap.

(** untied_dp_correct: the model's table organisation of UDist.p ([p_counts]: memo rolled
    over m, cells n = 1..min(N,m) updated in place from the already updated cell n-1
    and the old cell n, the mirrored cell memo[m-1] on the diagonal, truncation at
    ulim = min(U, n m) with the old contents kept above) computes exactly the
    Mann-Whitney counts: every entry, ALL sample sizes, every bound U (loop invariant
    in Proofs/UDistDP.v; replaces the bounded sweep p_counts_agree_bounded) *)
Theorem C11_untied_dp_correct : forall n1 n2 U u, 0 <= n1 -> 0 <= n2 -> 0 <= u <= U ->
  nth (Z.to_nat u) (p_counts n1 n2 U) 0 = cuntied n1 n2 u.
Proof. exact untied_dp_correct. Qed.
Print Assumptions C11_untied_dp_correct.
Theorem C11_untied_dp_slice : forall n1 n2 U, 0 <= n1 -> 0 <= n2 -> 0 <= U ->
  p_counts n1 n2 U = map (cuntied n1 n2) (zrange 0 U).
Proof. exact p_counts_spec. Qed.
Print Assumptions C11_untied_dp_slice.

(** UDist.CDF / UDist.PMF with T == nil (model of the wrappers: range checks, int(2U),
    floor(U), "sum the smaller tail and flip" included) are the exact fractions
    count / C(n1+n2, n1) of the untied specification; q = 4U, PMF at an integral U = u *)
Theorem C11_cdf_untied_exact : forall t n1 n2 q, has_ties t = false -> 0 <= n1 -> 0 <= n2 ->
  frac_eq (cdf n1 n2 t q) (count_le (ones (n1 + n2)) n1 (q / 2)) (total (ones (n1 + n2)) n1).
Proof. exact cdf_untied_exact. Qed.
Print Assumptions C11_cdf_untied_exact.
Theorem C11_pmf_untied_exact : forall t n1 n2 u, has_ties t = false -> 0 <= n1 -> 0 <= n2 ->
  frac_eq (pmf n1 n2 t (4 * u)) (count_eq (ones (n1 + n2)) n1 (2 * u)) (total (ones (n1 + n2)) n1).
Proof. exact pmf_untied_exact. Qed.
Print Assumptions C11_pmf_untied_exact.
(** a tie vector without ties is the all-ones vector the wrappers' theorems speak about *)
Theorem C11_untied_tie_vector : forall t, Forall (fun x => 1 <= x) t -> has_ties t = false -> t = ones (zsum t).
Proof. exact untied_is_ones. Qed.
Print Assumptions C11_untied_tie_vector.

(** the evaluators with which Corr/RunC11.v computes the SPECIFICATION's counts on untied
    samples beyond the enumeration budget (in particular both sizes in 30..50, where
    C(n1+n2, n1) exceeds 2^64): unbounded-integer table fills of the Mann-Whitney
    recurrence, equal to the declarative counts for ALL sizes and all 2U = w — lower tail,
    upper tail, and the whole distribution at once (for UDist.CDF / UDist.PMF) *)
Theorem C11_untied_evaluator_le : forall n1 n2 w, 0 <= n1 -> 0 <= n2 ->
  untied_le n1 n2 w = count_le (ones (n1 + n2)) n1 w.
Proof. exact untied_le_correct. Qed.
Print Assumptions C11_untied_evaluator_le.
Theorem C11_untied_evaluator_ge : forall n1 n2 w, 0 <= n1 -> 0 <= n2 ->
  untied_ge n1 n2 w = count_ge (ones (n1 + n2)) n1 w.
Proof. exact untied_ge_correct. Qed.
Print Assumptions C11_untied_evaluator_ge.
Theorem C11_untied_evaluator_table_le : forall n1 n2 w, 0 <= n1 -> 0 <= n2 ->
  tab_le (untied_table n1 n2) w = count_le (ones (n1 + n2)) n1 w.
Proof. exact tab_le_correct. Qed.
Print Assumptions C11_untied_evaluator_table_le.
Theorem C11_untied_evaluator_table_eq : forall n1 n2 w, 0 <= n1 -> 0 <= n2 ->
  tab_eq (untied_table n1 n2) w = count_eq (ones (n1 + n2)) n1 w.
Proof. exact tab_eq_correct. Qed.
Print Assumptions C11_untied_evaluator_table_eq.
(** instances: small ones against the enumeration, and 40 x 40 (C(80,40) > 2^64) *)
Example C11_example_untied_evaluator :
  untied_le 3 4 6 = 7 /\ count_le (ones 7) 3 6 = 7 /\ untied_ge 3 4 6 = 31 /\ count_ge (ones 7) 3 6 = 31 /\
  tab_eq (untied_table 3 4) 6 = 3 /\ count_eq (ones 7) 3 6 = 3 /\ tab_le (untied_table 3 4) 7 = 7 /\
  2 ^ 64 < choose 80 40 /\ untied_le 40 40 (2 * 800) + untied_le 40 40 (2 * 799) = choose 80 40.
Proof. vm_compute. repeat split. Qed.

(** exactness range of the integer form: for n1 + n2 <= 56 every count, every partial
    sum and the denominator C(n1+n2, n1) are integers below 2^53, i.e. binary64 numbers,
    and count / C is one correctly rounded division of exact integers (C(58,29) > 2^53:
    C11_example_untied). The Go code keeps p = c / C in float64 through the whole
    recurrence; ITS rounding is compared by tolerance, not proved. *)
Theorem C11_untied_counts_below_2p53 : forall n m, 0 <= n -> 0 <= m -> n + m <= 56 ->
  forall u, 0 <= cuntied n m u < 2 ^ 53 /\ 0 <= sumf (cuntied n m) (zrange 0 u) < 2 ^ 53.
Proof. exact untied_counts_below_2p53. Qed.
Print Assumptions C11_untied_counts_below_2p53.
Theorem C11_untied_denominator_below_2p53 : forall n m, 0 <= n -> 0 <= m -> n + m <= 56 -> choose (n + m) n < 2 ^ 53.
Proof. exact choose_below_2p53. Qed.
Print Assumptions C11_untied_denominator_below_2p53.

(** one_sided_exact, untied exact path: for all samples without ties the model's
    Less / Greater p-values are P(U <= u) / P(U >= u) *)
Theorem C11_one_sided_exact_untied : forall x1 x2,
  let s := ustat_of x1 x2 in
  us_hasTies s = false ->
  pfrac_eq (exact_p s Less) (count_le (us_T s) (us_n1 s) (us_twoU1 s)) (total (us_T s) (us_n1 s))
  /\ pfrac_eq (exact_p s Greater) (count_ge (us_T s) (us_n1 s) (us_twoU1 s)) (total (us_T s) (us_n1 s)).
Proof. exact one_sided_exact_untied. Qed.
Print Assumptions C11_one_sided_exact_untied.

(** two-sided: the code's rule  U1 == U2 ? 1 : min(1, 2 CDF(min(U1, U2)))  EQUALS the
    property's "twice the smaller one-sided value, capped at 1" whenever the null
    distribution is symmetric: without ties ... *)
Theorem C11_two_sided_untied_is_spec : forall x1 x2,
  let s := ustat_of x1 x2 in
  us_hasTies s = false ->
  pfrac_eq (exact_p s Differs) (p_two_num (us_T s) (us_n1 s) (us_twoU1 s)) (total (us_T s) (us_n1 s)).
Proof. exact two_sided_untied_is_spec. Qed.
Print Assumptions C11_two_sided_untied_is_spec.
(** ... and with ties when the tie vector is a palindrome: the recorded finding
    C11_twosided_asymmetric_ties needs a tie vector that differs from its reverse *)
Theorem C11_two_sided_palindrome_is_spec : forall x1 x2,
  let s := ustat_of x1 x2 in
  us_hasTies s = true -> (2 <= length (us_T s))%nat -> rev (us_T s) = us_T s ->
  pfrac_eq (exact_p s Differs) (p_two_num (us_T s) (us_n1 s) (us_twoU1 s)) (total (us_T s) (us_n1 s)).
Proof. exact two_sided_palindrome_is_spec. Qed.
Print Assumptions C11_two_sided_palindrome_is_spec.

(** the distribution function accumulates the mass function (half-integer steps: u is 2U) *)
Theorem C11_cdf_accumulates_pmf : forall t n u,
  count_le t n u = count_le t n (u - 1) + count_eq t n u.
Proof. exact count_le_step. Qed.
Print Assumptions C11_cdf_accumulates_pmf.

(** upper and lower tails partition all choices (so 1 - CDF(U - 1/2) is the upper tail,
    given total = count_all: C11_all_choices_counted) *)
Theorem C11_upper_tail_complement : forall t n u,
  count_ge t n u + count_le t n (u - 1) = count_all t n.
Proof. exact count_ge_le. Qed.
Print Assumptions C11_upper_tail_complement.

(** the multiplicative binomial used to run the specification is Pascal's *)
Theorem C11_choose_is_binomial : forall n k, 0 <= k <= n ->
  choose n k = binom (Z.to_nat n) (Z.to_nat k).
Proof. exact choose_binom. Qed.
Print Assumptions C11_choose_is_binomial.

(** ** the evaluators of the specification agree, for ALL tie vectors, sizes, thresholds.
    Well-formedness: the runs are non-negative (positive tie vectors are an instance) and
    the first-sample size is non-negative (for the fast evaluator a negative size is also
    fine as soon as there is one run). Both hypotheses are needed: C11_example_evaluators.
    Supersede the bounded sweeps fast_evaluator_agrees_bounded (N <= 8), subsets_agree_bounded
    (N <= 7), total_is_count_all_bounded (N <= 8) of Proofs/UTest.v; pruning_agrees_bounded
    was superseded by C11_tied_recurrence_correct already. *)

(** peel_top_group for an arbitrary predicate on the statistic (count_le: C11_peel_top_group) *)
Theorem C11_peel_top_group_any_predicate : forall P t tK n, Forall (fun x => 0 <= x) t -> 0 <= tK ->
  count_if P (t ++ [tK]) n
  = sumf (fun rK => choose tK rK
                    * count_if (fun w => P (w + rK * (2 * (zsum t - (n - rK)) + (tK - rK)))) t (n - rK))
         (zrange 0 tK).
Proof. exact count_if_snoc. Qed.
Print Assumptions C11_peel_top_group_any_predicate.

(** the generating-function evaluator: entry w of the histogram truncated at degree L is the
    number of choices with 2U = w (loop invariant of hist_loop over the runs) *)
Theorem C11_histogram_is_mass_function : forall L t n1 w, Forall (fun x => 0 <= x) t -> 0 <= n1 ->
  (w < L)%nat -> nth w (hist L t n1) 0 = count_eq t n1 (Z.of_nat w).
Proof. exact hist_coefficient. Qed.
Print Assumptions C11_histogram_is_mass_function.

(** fast_evaluator_agrees: the polynomial-time evaluator computes the specification's tails *)
Theorem C11_fast_evaluator_agrees : forall t n1 u, Forall (fun x => 0 <= x) t -> (0 <= n1 \/ t <> []) ->
  fast_count_le t n1 u = count_le t n1 u /\ fast_count_ge t n1 u = count_ge t n1 u.
Proof. exact fast_evaluator_correct. Qed.
Print Assumptions C11_fast_evaluator_agrees.

(** total_is_count_all: the denominator C(N, n1) is the weight of all count vectors, and
    Pascal's binomial *)
Theorem C11_total_is_count_all : forall t n1, Forall (fun x => 0 <= x) t ->
  total t n1 = count_all t n1 /\
  (0 <= n1 <= zsum t -> total t n1 = binom (Z.to_nat (zsum t)) (Z.to_nat n1)).
Proof. exact total_counts_all_choices. Qed.
Print Assumptions C11_total_is_count_all.

(** [splits l n] lists every way to choose n POSITIONS of l once: C(|l|, n) entries, each a
    pair (chosen, rest) of complementary subsequences *)
Theorem C11_splits_enumerates_subsets : forall (l : list Z) (n : nat),
  Z.of_nat (length (splits l n)) = binom (length l) n /\
  forall c r, In (c, r) (splits l n) -> length c = n /\ Permutation.Permutation (c ++ r) l.
Proof. exact splits_enumerates_subsets. Qed.
Print Assumptions C11_splits_enumerates_subsets.

(** subsets_agree: summing any predicate of the PAIR-COUNT statistic over the n1-subsets of
    positions of the pooled sample = the count-vector specification (weight t r subsets share
    the count vector r and the statistic twoU_of t r), for every predicate P *)
Theorem C11_subsets_agree : forall (P : Z -> bool) t n1, Forall (fun x => 0 <= x) t -> 0 <= n1 ->
  subsets_count_if P t n1 = count_if P t n1.
Proof. exact subsets_agree. Qed.
Print Assumptions C11_subsets_agree.

(** hence the declarative reading of the exact tails: number of n1-subsets of the pooled
    items with U <= u (U >= u), over the number C(N, n1) of all n1-subsets *)
Theorem C11_tails_count_subsets : forall t n1 u, Forall (fun x => 0 <= x) t -> 0 <= n1 ->
  count_le t n1 u = subsets_count_if (fun w => w <=? u) t n1 /\
  count_ge t n1 u = subsets_count_if (fun w => u <=? w) t n1 /\
  total t n1 = Z.of_nat (length (splits (pooled t) (Z.to_nat n1))).
Proof. exact tails_count_subsets. Qed.
Print Assumptions C11_tails_count_subsets.

(** ** what prop_ok (Corr/RunC11.v) judges the implementation against. The counts it uses
    ([spec_le], [spec_ge], [spec_eq]: enumeration within the budget; beyond it the
    Mann-Whitney table evaluator [untied_le]/[untied_ge] when the tie vector is all ones,
    the generating-function evaluator otherwise) are the declarative counts, whichever
    branch is taken *)
Theorem C11_judged_counts_are_spec : forall t n1 u, Forall (fun x => 0 <= x) t -> (0 <= n1 \/ t <> []) ->
  Perf.Corr.RunC11.spec_le t n1 u = count_le t n1 u /\
  Perf.Corr.RunC11.spec_ge t n1 u = count_ge t n1 u /\
  Perf.Corr.RunC11.spec_eq t n1 u = count_eq t n1 u.
Proof. exact judged_counts_correct. Qed.
Print Assumptions C11_judged_counts_are_spec.

(** on samples nothing is assumed: the fraction prop_ok_u compares the reported p-value
    with is (P(U <= u) | P(U >= u) | min 1 (2 min ..)) over C(N, n1) of the specification *)
Theorem C11_judged_p_is_exact_tail : forall x1 x2 a,
  let t := pool_T x1 x2 in let n1 := zlen x1 in let u := twoU_pairs x1 x2 in
  fst (Perf.Corr.RunC11.spec_p t n1 u a) = (tail_num a t n1 u, total t n1).
Proof. exact judged_p_is_exact_tail. Qed.
Print Assumptions C11_judged_p_is_exact_tail.

(** ... so an accepted numeric outcome in the exact regime HAS been found close to the
    declarative exact tail (tolerance: Corr/RunC11.v [close], slack as documented there) *)
Theorem C11_prop_ok_judges_exact_tail : forall (c : Perf.Corr.RunC11.ucase) o1 o2 U P ae,
  let x1 := Perf.Corr.RunC11.u_x1 c in let x2 := Perf.Corr.RunC11.u_x2 c in
  let t := pool_T x1 x2 in let n1 := zlen x1 in let n2 := zlen x2 in let u := twoU_pairs x1 x2 in
  Perf.Corr.RunC11.u_out c = Perf.Corr.RunC11.ONum o1 o2 U P ae ->
  Perf.Corr.RunC11.exact_regime t n1 n2 = true -> Perf.Corr.RunC11.prop_ok_u c = true ->
  Perf.Corr.RunC11.close P (tail_num (Perf.Corr.RunC11.u_alt c) t n1 u) (total t n1)
                         (snd (Perf.Corr.RunC11.spec_p t n1 u (Perf.Corr.RunC11.u_alt c))) = true.
Proof. exact prop_ok_u_judges_exact_tail. Qed.
Print Assumptions C11_prop_ok_judges_exact_tail.

(** the per-case closures [le], [eq] of prop_ok_d (UDist.CDF/PMF cases), on every branch:
    enumeration within the budget, the Mann-Whitney table [untied_table] without ties, the
    generating-function histogram with ties *)
Theorem C11_judged_histogram_is_spec : forall t n1 n2 u,
  Forall (fun x => 0 <= x) t -> 0 <= n1 -> 0 <= n2 -> zsum t = n1 + n2 ->
  let small := Perf.Corr.RunC11.vec_budget t <=? Perf.Corr.RunC11.enum_budget in
  let untied := Perf.Corr.RunC11.is_ones t in
  let h := if small then [] else if untied then untied_table n1 n2
           else hist (Z.to_nat (2 * (n1 * n2) + 2)) t n1 in
  (if small then count_le t n1 u else if untied then tab_le h u else Perf.Corr.RunC11.hist_le h u) = count_le t n1 u /\
  (if small then count_eq t n1 u else if untied then tab_eq h u else Perf.Corr.RunC11.hist_eq h u) = count_eq t n1 u.
Proof. exact dist_closures_correct. Qed.
Print Assumptions C11_judged_histogram_is_spec.

(** errors_iff: an empty sample, and only that, is ErrSampleSize; in the exact regime
    all-equal pooled values, and only that, are ErrSamplesEqual. *)
Theorem C11_err_sample_size_iff : forall erfc x1 x2 a,
  mwu erfc x1 x2 a = RErrSampleSize <-> (x1 = [] \/ x2 = []).
Proof. exact err_sample_size_iff. Qed.
Print Assumptions C11_err_sample_size_iff.

Theorem C11_err_samples_equal_iff_exact : forall erfc x1 x2 a,
  x1 <> [] -> x2 <> [] -> use_exact (ustat_of x1 x2) = true ->
  (mwu erfc x1 x2 a = RErrSamplesEqual <-> exists v, Forall (fun x => x = v) (x1 ++ x2)).
Proof. exact err_samples_equal_iff_exact. Qed.
Print Assumptions C11_err_samples_equal_iff_exact.

(** errors_iff for ErrSamplesEqual. The model follows the repaired code
    (hooks/fix_c11_utest_samples_equal_large.diff, committed): len(T) == 1 is tested
    before the exact/approximate switch.
    <= : all pooled values equal => ErrSamplesEqual, for ALL sizes, both regimes *)
Theorem C11_err_samples_equal_if_equal : forall erfc x1 x2 a,
  x1 <> [] -> x2 <> [] -> (exists v, Forall (fun x => x = v) (x1 ++ x2)) ->
  mwu erfc x1 x2 a = RErrSamplesEqual.
Proof. exact err_samples_equal_if_equal. Qed.
Print Assumptions C11_err_samples_equal_if_equal.

(** behind the single-run test the approximate path still tests sigma == 0 in binary64
    (kept under its old name; the old statement is C11_err_samples_equal_approx_old) *)
Theorem C11_err_samples_equal_approx_partial : forall erfc x1 x2 a,
  x1 <> [] -> x2 <> [] -> use_exact (ustat_of x1 x2) = false ->
  (mwu erfc x1 x2 a = RErrSamplesEqual <->
   (exists c, us_T (ustat_of x1 x2) = [c]) \/ b64_eq (sigma_U (ustat_of x1 x2)) b64_zero = true).
Proof. exact err_samples_equal_approx. Qed.
Print Assumptions C11_err_samples_equal_approx_partial.

(** sigma_U in binary64, as coded: sqrt(n1 n2 ((N+1) - t/(N(N-1))) / 12).
    Two or more runs: t <= (N-2)(N-1)N, float64(t) / float64(N(N-1)) rounds to at most
    N - 1, the factor is at least 2 and sigma >= 1/4, for every N <= 2^52 (monotonicity of
    rounding, one relative error 2^-53 each for float64(t) and float64(N(N-1))) *)
Theorem C11_sigma_pos_two_runs : forall n1 n2 T, 1 <= n1 -> 1 <= n2 ->
  Forall (fun x => 1 <= x) T -> (2 <= length T)%nat -> zsum T = n1 + n2 -> n1 + n2 <= 2 ^ 52 ->
  b64_eq (sigma_of n1 n2 T) b64_zero = false.
Proof. exact sigma_pos_two_runs. Qed.
Print Assumptions C11_sigma_pos_two_runs.

(** errors_iff, both regimes: ErrSamplesEqual iff all pooled values are equal. Size
    hypothesis N <= 2^52: only for =>, only in the approximate regime, only because the
    code still consults sigma == 0 there (float64(N), N-1, N+1 are exact up to 2^52; no
    slice holds that many values). The model computes sum t_k^3 and n1 n2 in unbounded
    integers; Go's int does so while they stay below 2^63. *)
Theorem C11_err_samples_equal_iff : forall erfc x1 x2 a,
  x1 <> [] -> x2 <> [] -> zlen x1 + zlen x2 <= 2 ^ 52 ->
  (mwu erfc x1 x2 a = RErrSamplesEqual <-> exists v, Forall (fun x => x = v) (x1 ++ x2)).
Proof. exact err_samples_equal_iff. Qed.
Print Assumptions C11_err_samples_equal_iff.

(** the repair changes only the error decision for a single run *)
Theorem C11_repair_changes_single_run_only : forall erfc x1 x2 a,
  (forall c, us_T (ustat_of x1 x2) <> [c]) -> mwu erfc x1 x2 a = mwu_old erfc x1 x2 a.
Proof. exact mwu_old_agrees. Qed.
Print Assumptions C11_repair_changes_single_run_only.

(** ** the code BEFORE the repair ([mwu_old]): the sigma == 0 test alone decides in the
    approximate regime *)
Theorem C11_err_samples_equal_approx_old : forall erfc x1 x2 a,
  x1 <> [] -> x2 <> [] -> use_exact (ustat_of x1 x2) = false ->
  (mwu_old erfc x1 x2 a = RErrSamplesEqual <-> b64_eq (sigma_U (ustat_of x1 x2)) b64_zero = true).
Proof. exact err_samples_equal_approx_old. Qed.
Print Assumptions C11_err_samples_equal_approx_old.
(** one run (t = N^3 - N): while N^3 - N < 2^53 every operand is an exact integer, the
    quotient is exactly N + 1, the factor exactly 0, sigma = 0 *)
Theorem C11_sigma_zero_all_equal : forall n1 n2, 1 <= n1 -> 1 <= n2 ->
  let N := n1 + n2 in N * N * N - N < 2 ^ 53 ->
  b64_eq (sigma_of n1 n2 [N]) b64_zero = true.
Proof. exact sigma_zero_all_equal. Qed.
Print Assumptions C11_sigma_zero_all_equal.
(** ... and, by exhaustive evaluation of N = 208064..330283 (Proofs/UTestSigmaSweep.v), up
    to the last N before the first failure *)
Theorem C11_sigma_zero_all_equal_to_330283 : forall n1 n2, 1 <= n1 -> 1 <= n2 -> n1 + n2 <= 330283 ->
  b64_eq (sigma_of n1 n2 [n1 + n2]) b64_zero = true.
Proof. exact sigma_zero_all_equal_to_330283. Qed.
Print Assumptions C11_sigma_zero_all_equal_to_330283.
(** so the old code met the clause up to a pooled size of 330283 ... *)
Theorem C11_err_samples_equal_iff_approx_old : forall erfc x1 x2 a,
  x1 <> [] -> x2 <> [] -> use_exact (ustat_of x1 x2) = false ->
  zlen x1 + zlen x2 <= 330283 ->
  (mwu_old erfc x1 x2 a = RErrSamplesEqual <-> exists v, Forall (fun x => x = v) (x1 ++ x2)).
Proof. exact err_samples_equal_iff_approx_old. Qed.
Print Assumptions C11_err_samples_equal_iff_approx_old.
(** ... and no further: beyond N^3 - N >= 2^53 float64(t) is rounded and the cancellation
    is not exact any more. 330284 equal values (165142 + 165142): sigma = 0.3637.., no
    error, a p-value came back; 330292 equal values: the factor is negative, sigma = NaN,
    p = NaN with a nil error. Was confirmed on /repo before commit 3beed41. *)
Theorem C11_sigma_all_equal_refuted :
  b64_eq (sigma_of 165142 165142 [330284]) b64_zero = false /\
  sigma_of 165142 165142 [330284] = b64_of_bits 0x3FD7470C73522596 /\
  is_nan_b64 (sigma_of 165146 165146 [330292]) = true.
Proof. exact sigma_all_equal_refuted. Qed.
Theorem C11_err_samples_equal_large_refuted :
  exists x1 x2, x1 <> [] /\ x2 <> [] /\ (exists v, Forall (fun x => x = v) (x1 ++ x2)) /\
    forall erfc a, mwu_old erfc x1 x2 a <> RErrSamplesEqual.
Proof. exact err_samples_equal_large_refuted. Qed.
Print Assumptions C11_err_samples_equal_large_refuted.
(** the repaired code on the witness *)
Theorem C11_err_samples_equal_large_repaired : forall erfc a,
  mwu erfc (repeat 7 (Z.to_nat 165142)) (repeat 7 (Z.to_nat 165142)) a = RErrSamplesEqual.
Proof. exact err_samples_equal_large_repaired. Qed.
Print Assumptions C11_err_samples_equal_large_repaired.

(** ** refuted for the code before the repairs (witnesses of DESIGN section 10) *)
Theorem C11_k2_refuted : exists t n1 u, umemo_old t n1 u <> count_le t n1 u.
Proof. exact k2_base_old_refuted. Qed.
Theorem C11_twosided_gt1_refuted :
  exists x1 x2, fst (exact_p_old_frac (ustat_of x1 x2) Differs) > snd (exact_p_old_frac (ustat_of x1 x2) Differs).
Proof. exact twosided_gt1_old_refuted. Qed.
Theorem C11_greater_ties_refuted :
  exists x1 x2,
    let s := ustat_of x1 x2 in
    exact_p_old_frac s Greater <> (count_ge (us_T s) (us_n1 s) (us_twoU1 s), total (us_T s) (us_n1 s)).
Proof. exact greater_ties_old_refuted. Qed.

(** ** refuted for the repaired code: the recorded finding *)
Theorem C11_twosided_asymmetric_refuted :
  exists x1 x2,
    let s := ustat_of x1 x2 in
    pexact_frac (exact_p s Differs)
    <> Some (p_two_num (us_T s) (us_n1 s) (us_twoU1 s), total (us_T s) (us_n1 s)).
Proof. exact twosided_asymmetric_refuted. Qed.
Theorem C11_twosided_swap_refuted :
  exists x1 x2,
    pexact_frac (exact_p (ustat_of x1 x2) Differs) <> pexact_frac (exact_p (ustat_of x2 x1) Differs).
Proof. exact twosided_swap_refuted. Qed.

(** ** histories over memory of the caller, concurrent calls (Model/UTestHist.v) *)

(** a history of calls whose arguments are windows of ONE backing array (adjacent,
    overlapping, nested, identical): after every call the array is what it was, and
    every call returns the test of the values its windows held before the first call *)
Theorem C11_history_inputs_unchanged : forall erfc mem ops,
  run_hist erfc mem ops = map (fun o => (mwu erfc (arg1 mem o) (arg2 mem o) (h_alt o), mem)) ops.
Proof. exact run_hist_spec. Qed.
Print Assumptions C11_history_inputs_unchanged.

(** no call depends on the calls made before it *)
Theorem C11_history_calls_independent : forall erfc mem ops1 ops2,
  run_hist erfc mem (ops1 ++ ops2) = run_hist erfc mem ops1 ++ run_hist erfc mem ops2.
Proof. exact run_hist_app. Qed.
Print Assumptions C11_history_calls_independent.

(** series[:k] and series[k:] are the two samples of the split at k *)
Theorem C11_split_windows : forall mem k, 0 <= k <= Z.of_nat (length mem) ->
  window mem 0 k ++ window mem k (Z.of_nat (length mem)) = mem.
Proof. exact window_split. Qed.
Print Assumptions C11_split_windows.

(** concurrent calls: whatever the order in which the calls of a batch take effect,
    the slot of job i holds the sequential result of job i *)
Theorem C11_concurrent_slot_is_sequential : forall erfc jobs order i, In i order ->
  run_batch erfc jobs order i = Some (job_task erfc jobs i).
Proof. exact run_batch_slot. Qed.
Print Assumptions C11_concurrent_slot_is_sequential.

Theorem C11_concurrent_schedule_independent : forall erfc jobs order order',
  Permutation order order' -> forall i, run_batch erfc jobs order i = run_batch erfc jobs order' i.
Proof. exact run_batch_schedule_independent. Qed.
Print Assumptions C11_concurrent_schedule_independent.

(** what the check accepts on a history case: NO call changed the caller's array and
    every outcome satisfies the property's predicate for the ORIGINAL values of its windows *)
Theorem C11_prop_ok_history_judges_original : forall c,
  Perf.Corr.RunC11.prop_ok_h c = true ->
  forall op, In op (Perf.Corr.RunC11.hc_ops c) ->
    let o := Perf.Corr.RunC11.ho_op op in let s := Perf.Corr.RunC11.hc_series c in
    Perf.Corr.RunC11.ho_mut op = []
    /\ valid_window s (h_lo1 o) (h_hi1 o) = true /\ valid_window s (h_lo2 o) (h_hi2 o) = true
    /\ Perf.Corr.RunC11.prop_ok_u
         (Perf.Corr.RunC11.mkU (window s (h_lo1 o) (h_hi1 o)) (window s (h_lo2 o) (h_hi2 o)) (h_alt o)
            (Perf.Corr.RunC11.hc_lims c) (Perf.Corr.RunC11.ho_out op) Perf.Corr.RunC11.LNone
            (Perf.Corr.RunC11.hc_oracle c)) = true.
Proof. exact prop_ok_h_judges_original. Qed.
Print Assumptions C11_prop_ok_history_judges_original.

(** ... and on a concurrent batch: >= 8 goroutines on >= 4 processors, race detector
    silent, inputs unchanged, the sequential outcome of every job satisfies the
    property's predicate and every concurrent outcome of that job equals it bit for bit *)
Theorem C11_prop_ok_concurrent_judges : forall c,
  Perf.Corr.RunC11.prop_ok_c c = true ->
  4 <= Perf.Corr.RunC11.cc_procs c /\ 8 <= Perf.Corr.RunC11.cc_gor c /\
  Perf.Corr.RunC11.cc_race_ok c = true /\ Perf.Corr.RunC11.cc_unchanged c = true /\
  forall j, In j (Perf.Corr.RunC11.cc_jobs c) ->
    Perf.Corr.RunC11.prop_ok_u (Perf.Corr.RunC11.j_case j) = true /\ Perf.Corr.RunC11.j_conc j <> [] /\
    forall o, In o (Perf.Corr.RunC11.j_conc j) ->
      Perf.Corr.RunC11.outcome_same (Perf.Corr.RunC11.u_out (Perf.Corr.RunC11.j_case j)) o = true.
Proof. exact prop_ok_c_judges. Qed.
Print Assumptions C11_prop_ok_concurrent_judges.

(** non-vacuity: x[:4] vs x[2:] on x = 9 2 7 4 1 8, then the split at 3 *)
Example C11_example_history :
  let x := [9; 2; 7; 4; 1; 8] in
  let ops := [mkHop 0 4 2 6 Differs; mkHop 0 3 3 6 Less] in
  arg1 x (mkHop 0 4 2 6 Differs) = [9; 2; 7; 4] /\ arg2 x (mkHop 0 4 2 6 Differs) = [7; 4; 1; 8] /\
  valid_window x 0 4 = true /\ valid_window x 2 6 = true /\ valid_window x 2 7 = false /\
  map snd (run_hist (fun _ => None) x ops) = [x; x] /\
  map fst (run_hist (fun _ => None) x ops)
    = [mwu (fun _ => None) [9; 2; 7; 4] [7; 4; 1; 8] Differs; mwu (fun _ => None) [9; 2; 7] [4; 1; 8] Less] /\
  us_twoU1 (ustat_of [9; 2; 7; 4] [7; 4; 1; 8]) = 18 /\
  run_batch (fun _ => None) [([9; 2; 7], [4; 1; 8], Less); ([1], [2; 3], Greater)] [1; 0]%nat 1%nat
    = Some (Some (mwu (fun _ => None) [1] [2; 3] Greater)).
Proof. vm_compute. repeat split. Qed.

(** non-vacuity: concrete instances of the hypotheses and of the statements *)
Example C11_example :
  us_twoU1 (ustat_of [1; 2] [1; 3; 0]) = 7 /\ twoU_pairs [1; 2] [1; 3; 0] = 7 /\
  pool_T [1; 2] [1; 3; 0] = [1; 2; 1; 1] /\
  Forall (fun x => 1 <= x) [1; 2; 1; 1] /\ (2 <= length [1; 2; 1; 1])%nat /\
  umemo_unpruned [1; 2; 1; 1] 2 7 = 7 /\ count_le [1; 2; 1; 1] 2 7 = 7 /\ count_ge [1; 2; 1; 1] 2 7 = 5 /\
  p_two_num [1; 2; 1; 1] 2 7 = 10 /\ total [1; 2; 1; 1] 2 = 10 /\
  p_two_num [1; 2; 1; 1] 3 (twoU_pairs [1; 3; 0] [1; 2]) = 10 /\
  use_exact (ustat_of [1; 2] [1; 3; 0]) = true.
Proof.
  repeat split.
  all: try (vm_compute; reflexivity).
  - repeat constructor; lia.
  - cbn [length]. lia.
Qed.

(** non-vacuity of the untied / palindromic / approximate-regime hypotheses *)
Example C11_example_untied :
  us_hasTies (ustat_of [1; 2; 6] [3; 4; 5; 7]) = false /\ us_twoU1 (ustat_of [1; 2; 6] [3; 4; 5; 7]) = 6 /\
  pexact_frac (exact_p (ustat_of [1; 2; 6] [3; 4; 5; 7]) Differs) = Some (14, 35) /\
  p_two_num (ones 7) 3 6 = 14 /\ total (ones 7) 3 = 35 /\
  p_counts 3 4 5 = [1; 1; 2; 3; 4; 4] /\ cuntied 3 4 5 = 4 /\ cuntied 3 4 7 = 4 /\ cuntied 4 3 5 = 4 /\
  has_ties [] = false /\ cdf 3 4 [] (4 * 8) = DOneMinus 7 35 /\ count_le (ones 7) 3 16 = 28 /\
  pmf 3 4 [] (4 * 5) = DFrac 4 35 /\
  2 ^ 53 < choose 58 29 /\ choose 56 28 < 2 ^ 53 /\
  (* palindromic ties *)
  us_hasTies (ustat_of [1; 2] [2; 3]) = true /\ us_T (ustat_of [1; 2] [2; 3]) = [1; 2; 1] /\
  rev [1; 2; 1] = [1; 2; 1] /\ pexact_frac (exact_p (ustat_of [1; 2] [2; 3]) Differs) = Some (4, 6) /\
  p_two_num [1; 2; 1] 2 1 = 4 /\ total [1; 2; 1] 2 = 6 /\
  (* approximate regime *)
  use_exact (ustat_of (repeat 0 51) [1]) = false /\ zlen (repeat 0 51) + zlen [1] = 52 /\
  b64_eq (sigma_of 51 1 [51; 1]) b64_zero = false /\ b64_eq (sigma_of 26 26 [52]) b64_zero = true /\
  2 * 2 * 2 - 2 < 2 ^ 53.
Proof. vm_compute. repeat split. Qed.

(** non-vacuity of the hypotheses of the evaluator theorems, and their necessity: a tie vector
    beyond the enumeration budget (4^8 count vectors: prop_ok takes the fast branch; and an untied
    one, 2^16 count vectors: the table branch) on which
    all evaluators are run; with no run at all and a negative size the fast evaluator and the
    enumeration by [splits] (whose size is a natural number) differ from the specification *)
Example C11_example_evaluators :
  Forall (fun x => 0 <= x) [3; 3; 3; 3; 3; 3; 3; 3] /\ (0 <= 12 \/ [3; 3; 3; 3; 3; 3; 3; 3] <> []) /\
  (Perf.Corr.RunC11.vec_budget [3; 3; 3; 3; 3; 3; 3; 3] <=? Perf.Corr.RunC11.enum_budget) = false /\
  Perf.Corr.RunC11.spec_le [3; 3; 3; 3; 3; 3; 3; 3] 12 130 = 903163 /\ count_le [3; 3; 3; 3; 3; 3; 3; 3] 12 130 = 903163 /\
  Perf.Corr.RunC11.spec_ge [3; 3; 3; 3; 3; 3; 3; 3] 12 130 = 1800993 /\ count_ge [3; 3; 3; 3; 3; 3; 3; 3] 12 130 = 1800993 /\
  total [3; 3; 3; 3; 3; 3; 3; 3] 12 = 2704156 /\ binom 24 12 = 2704156 /\
  (* the untied branch beyond the budget (2^16 count vectors): the Mann-Whitney table evaluator *)
  (Perf.Corr.RunC11.vec_budget (repeat 1 16) <=? Perf.Corr.RunC11.enum_budget) = false /\
  Perf.Corr.RunC11.is_ones (repeat 1 16) = true /\ Perf.Corr.RunC11.is_ones [3; 3; 3; 3; 3; 3; 3; 3] = false /\
  Perf.Corr.RunC11.spec_le (repeat 1 16) 8 60 = 5653 /\ count_le (repeat 1 16) 8 60 = 5653 /\
  Perf.Corr.RunC11.spec_ge (repeat 1 16) 8 60 = 7732 /\ count_ge (repeat 1 16) 8 60 = 7732 /\
  Forall (fun x => 0 <= x) [2; 3; 1; 4; 2; 3] /\ 0 <= 7 /\
  subsets_count_if (fun w => w <=? 50) [2; 3; 1; 4; 2; 3] 7 = 2377 /\ count_le [2; 3; 1; 4; 2; 3] 7 50 = 2377 /\
  Z.of_nat (length (splits (pooled [2; 3; 1; 4; 2; 3]) 7)) = 6435 /\ total [2; 3; 1; 4; 2; 3] 7 = 6435 /\
  tail_num Differs (pool_T [1; 2] [1; 3; 0]) (zlen [1; 2]) (twoU_pairs [1; 2] [1; 3; 0]) = 10 /\
  (* the hypotheses on n1 are needed *)
  fast_count_le [] (-1) 0 = 1 /\ count_le [] (-1) 0 = 0 /\
  subsets_count_if (fun _ => true) [1] (-1) = 1 /\ count_if (fun _ => true) [1] (-1) = 0.
Proof.
  repeat split.
  all: try (vm_compute; reflexivity).
  - repeat constructor; lia.
  - left; lia.
  - repeat constructor; lia.
  - lia.
Qed.

(** ** audit round (f11) *)

(** UDist.PMF without ties (after hooks/fix_c11_udist_pmf_untied_grid.diff) at EVERY argument
    x = q/4: the mass at x rounded down to the grid of half-integers (0 at a half-integer) *)
Theorem C11_pmf_untied_exact_grid : forall t n1 n2 q, has_ties t = false -> 0 <= n1 -> 0 <= n2 ->
  frac_eq (pmf n1 n2 t q) (count_eq (ones (n1 + n2)) n1 (q / 2)) (total (ones (n1 + n2)) n1).
Proof. exact pmf_untied_exact_grid. Qed.
Print Assumptions C11_pmf_untied_exact_grid.

(** the upper tail is the lower tail of the mirrored distribution (tie vector reversed):
    what the repaired Greater branch (hooks/fix_c11_utest_greater_mirror.diff) sums *)
Theorem C11_upper_tail_is_mirrored_lower_tail : forall t n u, Forall (fun x => 0 <= x) t ->
  count_le (rev t) n (2 * (n * (zsum t - n)) - u) = count_ge t n u.
Proof. exact count_le_rev. Qed.
Print Assumptions C11_upper_tail_is_mirrored_lower_tail.

(** the old Greater value 1 - CDF(U1 - 1/2) and the repaired one are the same FRACTION; the
    repair only changes how the floats are formed *)
Example C11_greater_mirror_example :
  pexact_frac (exact_p (ustat_of [1; 2] [1; 3; 0]) Greater) = Some (5, 10) /\
  us_twoU1 (ustat_of [1; 2] [1; 3; 0]) = 7 /\ count_ge [1; 2; 1; 1] 2 7 = 5 /\ total [1; 2; 1; 1] 2 = 10.
Proof. vm_compute. repeat split. Qed.

(** known finding C11_twosided_asymmetric_ties: the relaxed judge [known_ok_u] accepts
    whatever [prop_ok_u] accepts, and is EQUAL to it outside the finding's input class *)
Theorem C11_known_ok_weaker : forall c, Perf.Corr.RunC11.prop_ok_u c = true -> Perf.Corr.RunC11.known_ok_u c = true.
Proof. exact known_ok_u_weaker. Qed.
Print Assumptions C11_known_ok_weaker.
Theorem C11_known_ok_same_outside_finding : forall c,
  let t := pool_T (Perf.Corr.RunC11.u_x1 c) (Perf.Corr.RunC11.u_x2 c) in
  (Perf.Corr.RunC11.u_alt c <> Differs /\ Perf.Corr.RunC11.u_legacy c = Perf.Corr.RunC11.LNone)
  \/ has_ties t = false \/ Perf.Corr.RunC11.palindrome t = true
  \/ Perf.Corr.RunC11.exact_regime t (zlen (Perf.Corr.RunC11.u_x1 c)) (zlen (Perf.Corr.RunC11.u_x2 c)) = false ->
  Perf.Corr.RunC11.known_ok_u c = Perf.Corr.RunC11.prop_ok_u c.
Proof. exact known_ok_u_same. Qed.
Print Assumptions C11_known_ok_same_outside_finding.

(** the finding on its witness, through the judges: {1,2} vs {0,1,3}, two-sided; the code
    returns 0.8 (exact value 1): refused by [prop_ok_u], accepted by [known_ok_u]; any other
    value (0.7) and a wrong statistic are refused by both *)
Example C11_known_ok_on_witness :
  let mk U P := Perf.Corr.RunC11.mkU [1; 2] [0; 1; 3] Differs (50, 25)
                  (Perf.Corr.RunC11.ONum 2 3 (Perf.Base.B64.b64_of_bits U) (Perf.Base.B64.b64_of_bits P) 0)
                  Perf.Corr.RunC11.LNone [] in
  let u35 := 4615063718147915776 in     (* 3.5 *)
  let p08 := 4605380978949069210 in     (* 0.8 *)
  let p07 := 4604480259023595110 in     (* 0.7 *)
  let one := 4607182418800017408 in     (* 1.0 *)
  Perf.Corr.RunC11.prop_ok_u (mk u35 p08) = false /\ Perf.Corr.RunC11.known_ok_u (mk u35 p08) = true /\
  Perf.Corr.RunC11.prop_ok_u (mk u35 one) = true /\
  Perf.Corr.RunC11.known_ok_u (mk u35 p07) = false /\
  Perf.Corr.RunC11.known_ok_u (mk one p08) = false.
Proof. vm_compute. repeat split. Qed.

(** ** the normal approximation, declaratively (Model/UApproxSpec.v) *)
Theorem C11_approx_variance_positive : forall n1 n2 t,
  Forall (fun x => 1 <= x) t -> (2 <= length t)%nat -> zsum t = n1 + n2 -> 1 <= n1 -> 1 <= n2 ->
  0 < var_num n1 n2 t /\ 0 < var_den n1 n2.
Proof. exact approx_variance_positive. Qed.
Print Assumptions C11_approx_variance_positive.
Theorem C11_approx_p_in_unit : forall a en ed, 0 < ed -> 0 <= en <= 2 * ed ->
  let '(num, den) := approx_spec_p a en ed in 0 <= num <= den /\ 0 < den.
Proof. exact approx_spec_p_in_unit. Qed.
Theorem C11_approx_two_sided_swap_argument : forall n1 n2 t twoU xn xd,
  arg_ok n2 n1 t (2 * (n1 * n2) - twoU) Differs (- xn) xd = arg_ok n1 n2 t twoU Differs xn xd.
Proof. exact approx_arg_swap. Qed.
Theorem C11_approx_two_sided_swap_value : forall en ed,
  approx_spec_p Differs (2 * ed - en) ed = approx_spec_p Differs en ed.
Proof. exact approx_two_sided_swap. Qed.
Print Assumptions C11_approx_two_sided_swap_argument.

(** a recorded case of the approximate regime (26 + 25 values, two runs, Less): the observed
    p-value is accepted for its own alternative and refused for the other one-sided one *)
Example C11_approx_judge_example :
  let x1 := [0;10;10;10;0;10;10;10;10;10;0;10;0;0;10;10;10;0;0;0;0;0;0;10;10;10] in
  let x2 := [10;0;0;10;0;10;10;10;10;10;0;0;10;0;10;0;10;10;10;0;10;0;0;10;10] in
  let orc := [(4592546682259934216, 4606075064875024567)] in
  let P := Perf.Base.B64.b64_of_bits 4601571465247654071 in
  Perf.Corr.RunC11.approx_p_ok orc (pool_T x1 x2) 26 25 (twoU_pairs x1 x2) Less P = true /\
  Perf.Corr.RunC11.approx_p_ok orc (pool_T x1 x2) 26 25 (twoU_pairs x1 x2) Greater P = false /\
  Perf.Corr.RunC11.approx_p_ok [] (pool_T x1 x2) 26 25 (twoU_pairs x1 x2) Less P = false.
Proof. vm_compute. repeat split. Qed.
