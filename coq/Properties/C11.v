(** C11 — Mann-Whitney U statistics and p-values are exact for small samples.
    Statements only; proofs are in Proofs/UStat.v, Proofs/UDistSpec.v,
    Proofs/UDistImpl.v, Proofs/UTest.v.

    Model = golang/perf's internal/stats after hooks/fix_c11_udist_k2.diff,
    fix_c11_utest_greater.diff and fix_c11_utest_twosided_cap.diff.
    Recorded finding (not repaired, the repair needs an edit of a pinned test
    value): C11_twosided_asymmetric_ties, see C11_twosided_asymmetric_refuted. *)
From Coq Require Import ZArith List Bool Lia.
From Perf Require Import Base.B64 Model.UStat Model.UDistSpec Model.UDistImpl Model.UTest.
From Perf Require Import Proofs.UStat Proofs.UDistSpec Proofs.UDistImpl Proofs.UTest.
From Perf Require Import Proofs.UDistSum Proofs.UDistPrune Proofs.UTestExact Proofs.UDistUntied.
Import ListNotations.
Local Open Scope Z_scope.

(** the reported U (sort, labeled merge, average ranks, rank sum - n1(n1+1)/2) is
    the number of pairs with x > y plus half the number of tied pairs; as 2U, for
    ALL integer samples *)
Theorem C11_u_counts_pairs : forall x1 x2 : list Z,
  us_twoU1 (ustat_of x1 x2) = twoU_pairs x1 x2.
Proof. exact u_counts_pairs. Qed.
Print Assumptions C11_u_counts_pairs.

(** the same statistic from the tie vector and the per-run counts: the form whose
    null distribution Model/UDistSpec.v counts *)
Theorem C11_u_is_vector_statistic : forall x1 x2,
  us_twoU1 (ustat_of x1 x2) = twoU_vec 0 (combine (us_T (ustat_of x1 x2)) (us_r (ustat_of x1 x2))).
Proof. exact ustat_vec. Qed.
Print Assumptions C11_u_is_vector_statistic.

(** the tie vector the code builds is the run-length vector of the sorted pooled values *)
Theorem C11_tie_vector_is_pooled_runs : forall x1 x2, us_T (ustat_of x1 x2) = pool_T x1 x2.
Proof. exact us_T_pool. Qed.
Print Assumptions C11_tie_vector_is_pooled_runs.

(** two-sided p-value of the property = min 1 (2 min (P(U<=u), P(U>=u))):
    it lies in [0,1] ... *)
Theorem C11_two_sided_in_unit_interval : forall t n u,
  0 <= n <= zsum t -> 0 <= p_two_num t n u <= total t n.
Proof. exact p_two_bounds. Qed.
Print Assumptions C11_two_sided_in_unit_interval.

(** ... and does not change when the two samples are swapped (complement bijection
    r |-> t - r on count vectors): same tie vector, n2 = N - n1, U2 = n1 n2 - U1 *)
Theorem C11_two_sided_symmetric_capped : forall x1 x2 : list Z,
  let n1 := zlen x1 in let n2 := zlen x2 in
  pool_T x2 x1 = pool_T x1 x2 /\
  twoU_pairs x2 x1 = 2 * (n1 * n2) - twoU_pairs x1 x2 /\
  forall t, Forall (fun x => 0 <= x) t -> zsum t = n1 + n2 ->
    p_two_num t n2 (twoU_pairs x2 x1) = p_two_num t n1 (twoU_pairs x1 x2) /\
    total t n2 = total t n1 /\
    0 <= p_two_num t n1 (twoU_pairs x1 x2) <= total t n1.
Proof.
  intros x1 x2 n1 n2. split; [apply pool_T_swap|]. split; [apply twoU_pairs_swap|].
  intros t Ht Hs. rewrite twoU_pairs_swap. fold n1 n2.
  assert (Hn : 0 <= n1 <= zsum t) by (unfold n1, n2, zlen in *; lia).
  replace n2 with (zsum t - n1) by lia.
  destruct (p_two_swap t n1 (twoU_pairs x1 x2) Ht Hn) as [E1 E2].
  split; [exact E1|]. split; [exact E2|]. now apply p_two_bounds.
Qed.
Print Assumptions C11_two_sided_symmetric_capped.

(** the one-sided counts of the second sample are the mirrored counts of the first *)
Theorem C11_tails_mirror : forall t n u, Forall (fun x => 0 <= x) t ->
  count_le t (zsum t - n) u = count_ge t n (2 * (n * (zsum t - n)) - u) /\
  count_ge t (zsum t - n) u = count_le t n (2 * (n * (zsum t - n)) - u).
Proof. intros t n u Ht. split; [now apply count_le_compl | now apply count_ge_compl]. Qed.
Print Assumptions C11_tails_mirror.

(** peel_top_group: the specification's count obeys the recurrence that makeUmemo
    unwinds (a_K = 2 (t_1+..+t_{K-1}) + t_K) *)
Theorem C11_peel_top_group : forall t tK n u, Forall (fun x => 0 <= x) t -> 0 <= tK ->
  count_le (t ++ [tK]) n u
  = sumf (fun rK => choose tK rK * count_le t (n - rK) (u - rK * (2 * zsum t + tK - 2 * n + rK))) (zrange 0 tK).
Proof. exact count_le_snoc. Qed.
Print Assumptions C11_peel_top_group.

(** the repaired K == 2 base case counts exactly (floor, not truncation) *)
Theorem C11_k2_base_case_correct : forall t1 t2 n u, 0 <= t1 -> 0 <= t2 -> 0 < t1 + t2 ->
  base2 t1 t2 n u = count_le [t1; t2] n u.
Proof. exact base2_correct. Qed.
Print Assumptions C11_k2_base_case_correct.

(** the recurrence with the code's coefficients, r_k ranges and base case, without
    the pruning of table keys (intermediate step, kept) *)
Theorem C11_tied_recurrence_unpruned : forall t,
  Forall (fun x => 1 <= x) t -> (2 <= length t)%nat ->
  forall n u, umemo_unpruned t n u = count_le t n u.
Proof. exact tied_recurrence_unpruned. Qed.
Print Assumptions C11_tied_recurrence_unpruned.

(** the pruning lemma: every count vector has twoUmin <= 2U <= twoUmax (the greedy
    fillings are extremal because a_k increases with k) *)
Theorem C11_pruning_lemma : forall t n r, Forall (fun x => 0 <= x) t -> In r (vecs t n) ->
  twoUmin n (levels t) <= twoU_of t r <= twoUmax n (levels t).
Proof. exact twoU_between. Qed.
Print Assumptions C11_pruning_lemma.

(** tied_recurrence_correct: makeUmemo's table entry (keys pruned by twoUmin/twoUmax,
    "beyond max => C(tsum, n1)" and "below min => 0" for absent keys, repaired K == 2
    base case) is the number of choices with 2U <= u: every tie vector with K >= 2
    positive runs, every n1, every u *)
Theorem C11_tied_recurrence_correct : forall t,
  Forall (fun x => 1 <= x) t -> (2 <= length t)%nat ->
  forall n u, umemo t n u = count_le t n u.
Proof. exact tied_recurrence_correct. Qed.
Print Assumptions C11_tied_recurrence_correct.

(** Vandermonde: the choices counted by the specification are all C(N, n1) of them *)
Theorem C11_all_choices_counted : forall t, Forall (fun x => 0 <= x) t -> forall n, count_all t n = total t n.
Proof. exact count_all_total. Qed.
Print Assumptions C11_all_choices_counted.

(** the distribution function is 1 from U = n1 n2 on, and 0 below U = 0 *)
Theorem C11_cdf_reaches_one : forall t n u, Forall (fun x => 0 <= x) t ->
  2 * (n * (zsum t - n)) <= u -> count_le t n u = total t n.
Proof. exact count_le_top. Qed.
Print Assumptions C11_cdf_reaches_one.
Theorem C11_cdf_zero_below : forall t n u, Forall (fun x => 0 <= x) t -> u < 0 -> count_le t n u = 0.
Proof. exact count_le_below. Qed.
Print Assumptions C11_cdf_zero_below.

(** pmf_sums_to_one: the masses at 2U = 0, 1, .., 2 n1 n2 add up to all choices *)
Theorem C11_pmf_sums_to_one : forall t n, Forall (fun x => 0 <= x) t -> 0 <= n <= zsum t ->
  sumf (fun u => count_eq t n u) (zrange 0 (2 * (n * (zsum t - n)))) = total t n.
Proof. exact pmf_sums_to_one. Qed.
Print Assumptions C11_pmf_sums_to_one.

(** UDist.CDF / UDist.PMF on a tied distribution (model of the wrappers, all range
    checks included) are the exact fractions count / C(N, n1); q = 4U *)
Theorem C11_cdf_tied_exact : forall t n1 n2 q,
  Forall (fun x => 1 <= x) t -> (2 <= length t)%nat -> has_ties t = true ->
  zsum t = n1 + n2 -> 0 <= n1 -> 0 <= n2 ->
  frac_eq (cdf n1 n2 t q) (count_le t n1 (q / 2)) (total t n1).
Proof. exact cdf_tied_exact. Qed.
Print Assumptions C11_cdf_tied_exact.
Theorem C11_pmf_tied_exact : forall t n1 n2 q,
  Forall (fun x => 1 <= x) t -> (2 <= length t)%nat -> has_ties t = true ->
  zsum t = n1 + n2 -> 0 <= n1 -> 0 <= n2 -> 0 <= q -> q < 4 * (n1 * n2) + 2 ->
  frac_eq (pmf n1 n2 t q) (count_eq t n1 (q / 2)) (total t n1).
Proof. exact pmf_tied_exact. Qed.
Print Assumptions C11_pmf_tied_exact.

(** one_sided_exact, tied exact path: for all samples with ties and at least two
    distinct values the model's Less / Greater p-values are P(U <= u) / P(U >= u) *)
Theorem C11_one_sided_exact_tied : forall x1 x2,
  let s := ustat_of x1 x2 in
  us_hasTies s = true -> (2 <= length (us_T s))%nat ->
  pfrac_eq (exact_p s Less) (count_le (us_T s) (us_n1 s) (us_twoU1 s)) (total (us_T s) (us_n1 s))
  /\ pfrac_eq (exact_p s Greater) (count_ge (us_T s) (us_n1 s) (us_twoU1 s)) (total (us_T s) (us_n1 s)).
Proof. exact one_sided_exact_tied. Qed.
Print Assumptions C11_one_sided_exact_tied.

(** untied distribution: the Mann-Whitney recurrence that UDist.p runs is a counting
    identity of the specification (c_{n,m}(u) = choices of n out of n+m untied values
    with U = u). untied_dp_correct _partial: that the model's table organisation
    ([p_counts]) computes c is a bounded sweep n, m <= 6 (p_counts_agree_bounded) plus the
    correspondence run; the float64 rounding of the code's scaled form is compared by
    tolerance only. *)
Theorem C11_mann_whitney_recurrence : forall n m u, 1 <= n -> 1 <= m ->
  cuntied n m u = cuntied (n - 1) m (u - m) + cuntied n (m - 1) u.
Proof. exact mann_whitney_recurrence. Qed.
Print Assumptions C11_mann_whitney_recurrence.

(** the distribution function accumulates the mass function (half-integer steps: u is 2U) *)
Theorem C11_cdf_accumulates_pmf : forall t n u,
  count_le t n u = count_le t n (u - 1) + count_eq t n u.
Proof. exact count_le_step. Qed.
Print Assumptions C11_cdf_accumulates_pmf.

(** upper and lower tails partition all choices (so 1 - CDF(U - 1/2) is the upper tail,
    given total = count_all: C11_all_choices_counted) *)
Theorem C11_upper_tail_complement : forall t n u,
  count_ge t n u + count_le t n (u - 1) = count_all t n.
Proof. exact count_ge_le. Qed.
Print Assumptions C11_upper_tail_complement.

(** the multiplicative binomial used to run the specification is Pascal's *)
Theorem C11_choose_is_binomial : forall n k, 0 <= k <= n ->
  choose n k = binom (Z.to_nat n) (Z.to_nat k).
Proof. exact choose_binom. Qed.
Print Assumptions C11_choose_is_binomial.

(** errors_iff: an empty sample, and only that, is ErrSampleSize; in the exact regime
    all-equal pooled values, and only that, are ErrSamplesEqual. *)
Theorem C11_err_sample_size_iff : forall erfc x1 x2 a,
  mwu erfc x1 x2 a = RErrSampleSize <-> (x1 = [] \/ x2 = []).
Proof. exact err_sample_size_iff. Qed.
Print Assumptions C11_err_sample_size_iff.

Theorem C11_err_samples_equal_iff_exact : forall erfc x1 x2 a,
  x1 <> [] -> x2 <> [] -> use_exact (ustat_of x1 x2) = true ->
  (mwu erfc x1 x2 a = RErrSamplesEqual <-> exists v, Forall (fun x => x = v) (x1 ++ x2)).
Proof. exact err_samples_equal_iff_exact. Qed.
Print Assumptions C11_err_samples_equal_iff_exact.

(** _partial: in the approximate regime the code returns ErrSamplesEqual iff the
    binary64 sigma is zero; that this happens exactly for all-equal values is a
    statement about float rounding, checked for N <= 400 (sigma_zero_single_bounded)
    and by prop_ok on generated large samples, not proved for all N. *)
Theorem C11_err_samples_equal_approx_partial : forall erfc x1 x2 a,
  x1 <> [] -> x2 <> [] -> use_exact (ustat_of x1 x2) = false ->
  (mwu erfc x1 x2 a = RErrSamplesEqual <-> b64_eq (sigma_U (ustat_of x1 x2)) b64_zero = true).
Proof. exact err_samples_equal_approx. Qed.
Print Assumptions C11_err_samples_equal_approx_partial.

(** ** refuted for the code before the repairs (witnesses of DESIGN section 10) *)
Theorem C11_k2_refuted : exists t n1 u, umemo_old t n1 u <> count_le t n1 u.
Proof. exact k2_base_old_refuted. Qed.
Theorem C11_twosided_gt1_refuted :
  exists x1 x2, fst (exact_p_old_frac (ustat_of x1 x2) Differs) > snd (exact_p_old_frac (ustat_of x1 x2) Differs).
Proof. exact twosided_gt1_old_refuted. Qed.
Theorem C11_greater_ties_refuted :
  exists x1 x2,
    let s := ustat_of x1 x2 in
    exact_p_old_frac s Greater <> (count_ge (us_T s) (us_n1 s) (us_twoU1 s), total (us_T s) (us_n1 s)).
Proof. exact greater_ties_old_refuted. Qed.

(** ** refuted for the repaired code: the recorded finding *)
Theorem C11_twosided_asymmetric_refuted :
  exists x1 x2,
    let s := ustat_of x1 x2 in
    pexact_frac (exact_p s Differs)
    <> Some (p_two_num (us_T s) (us_n1 s) (us_twoU1 s), total (us_T s) (us_n1 s)).
Proof. exact twosided_asymmetric_refuted. Qed.
Theorem C11_twosided_swap_refuted :
  exists x1 x2,
    pexact_frac (exact_p (ustat_of x1 x2) Differs) <> pexact_frac (exact_p (ustat_of x2 x1) Differs).
Proof. exact twosided_swap_refuted. Qed.

(** non-vacuity: concrete instances of the hypotheses and of the statements *)
Example C11_example :
  us_twoU1 (ustat_of [1; 2] [1; 3; 0]) = 7 /\ twoU_pairs [1; 2] [1; 3; 0] = 7 /\
  pool_T [1; 2] [1; 3; 0] = [1; 2; 1; 1] /\
  Forall (fun x => 1 <= x) [1; 2; 1; 1] /\ (2 <= length [1; 2; 1; 1])%nat /\
  umemo_unpruned [1; 2; 1; 1] 2 7 = 7 /\ count_le [1; 2; 1; 1] 2 7 = 7 /\ count_ge [1; 2; 1; 1] 2 7 = 5 /\
  p_two_num [1; 2; 1; 1] 2 7 = 10 /\ total [1; 2; 1; 1] 2 = 10 /\
  p_two_num [1; 2; 1; 1] 3 (twoU_pairs [1; 3; 0] [1; 2]) = 10 /\
  use_exact (ustat_of [1; 2] [1; 3; 0]) = true.
Proof.
  repeat split.
  all: try (vm_compute; reflexivity).
  - repeat constructor; lia.
  - cbn [length]. lia.
Qed.
