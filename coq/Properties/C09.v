(** C09 — Keys sort by the documented per-field orders, totally and reproducibly.
    Statements only; proofs are in Proofs/Sort.v and Proofs/Reach.v. Model:
    Model/Sort.v on top of the projection model of C08. Library behaviour:
    strconv.ParseFloat and math.Pow are the Section variables [parse_float],
    [pow] (replayed from tables when the model is evaluated); the regexp of
    parseNum is modelled ([num_match]); sort.Slice is "returns a sorted
    permutation". *)
From Coq Require Import Permutation Sorting.Sorted.
From Perf Require Import Base.Bytes Base.B64 Model.Name Model.Extract Model.Key Model.Projection
  Model.Sort Proofs.Key Proofs.Projection Proofs.Sort Proofs.Reach Proofs.NumSpec Proofs.FirstObs.

Section C09.
Variable parse_float : bytes -> option b64.
Variable pow : bool -> nat -> b64.

(** What is assumed of the oracle values: on the numbers parseNum can return,
    binary64 [<] is irreflexive and transitive, and among non-NaNs "neither is
    smaller" is transitive (IEEE comparison is a strict weak order on non-NaN
    values). Nothing is assumed about NaN: [b64_lt] with a NaN operand is false by
    computation (Proofs/Sort.b64_lt_nan_l/r). Nothing is assumed about WHICH
    numbers ParseFloat and Pow return. RunC09.float_order_ok re-checks these
    three facts on the values of every generated case. *)
Hypothesis lt_irrefl : forall x, numval parse_float pow x -> b64_lt x x = false.
Hypothesis lt_trans : forall x y z,
  numval parse_float pow x -> numval parse_float pow y -> numval parse_float pow z ->
  b64_lt x y = true -> b64_lt y z = true -> b64_lt x z = true.
Hypothesis incomp_trans : forall x y z,
  numval parse_float pow x -> numval parse_float pow y -> numval parse_float pow z ->
  b64_is_nan x = false -> b64_is_nan y = false -> b64_is_nan z = false ->
  b64_lt x y = false -> b64_lt y x = false -> b64_lt y z = false -> b64_lt z y = false ->
  b64_lt x z = false /\ b64_lt z x = false.

(** field_rel_total: for each of the four kinds of order (first with any order
    map, alpha, num, fixed with any list), "a before b" := cmp < 0, or cmp = 0
    and a bytewise before b, is a strict total order on all strings *)
Theorem C09_field_rel_total : forall o obs,
  let R := prec (ord_cmp parse_float pow o obs) in
  (forall a, ~ R a a) /\ (forall a b c, R a b -> R b c -> R a c) /\
  (forall a b, a <> b -> R a b \/ R b a).
Proof. exact (field_rel_total parse_float pow lt_irrefl lt_trans incomp_trans). Qed.

(** that relation is what [less] evaluates on one field *)
Theorem C09_val_less_is_prec : forall cmp a b, val_less cmp a b = true <-> prec cmp a b.
Proof. exact val_less_prec. Qed.

(** less_strict_total: after ANY stream of API calls, Key.Less on the Keys of any
    projection is irreflexive, transitive, asymmetric, and total on distinct Keys *)
Theorem C09_less_strict_total : forall ops w xs p,
  run_ops new_world ops = (w, xs) -> In p (w_projs w) ->
  let L := key_less parse_float pow p in
  let n := length (p_keys p) in
  (forall k, L k k = false) /\
  (forall k1 k2 k3, L k1 k2 = true -> L k2 k3 = true -> L k1 k3 = true) /\
  (forall k1 k2, L k1 k2 = true -> L k2 k1 = false) /\
  (forall k1 k2, k1 < n -> k2 < n -> k1 <> k2 -> L k1 k2 = true \/ L k2 k1 = true).
Proof.
  intros ops w xs p H Hp. destruct (reachable_inv ops w xs p H Hp) as [K C].
  exact (less_strict_total parse_float pow lt_irrefl lt_trans incomp_trans p K C).
Qed.

(** sorted_perm_unique: under a strict total order, two sorted arrangements of the
    same distinct keys are the same list ... *)
Theorem C09_sorted_perm_unique : forall (lt : nat -> nat -> bool) (dom : nat -> Prop),
  (forall x y, dom x -> dom y -> x <> y -> lt x y = true \/ lt y x = true) ->
  forall l1 l2, NoDup l1 -> Forall dom l1 -> Permutation l1 l2 ->
    sorted lt l1 -> sorted lt l2 -> l1 = l2.
Proof. exact sorted_perm_unique. Qed.

(** ... hence SortKeys does not depend on the initial arrangement, given only that
    sort.Slice returns a sorted permutation of its input (for reachable
    projections and valid Keys) *)
Theorem C09_sortkeys_arrangement_independent : forall ops w xs p,
  run_ops new_world ops = (w, xs) -> In p (w_projs w) ->
  forall sort_slice : list nat -> list nat,
  (forall l, Permutation (sort_slice l) l) ->
  (forall l, sorted (key_less parse_float pow p) (sort_slice l)) ->
  forall l1 l2, NoDup l1 -> Forall (fun k => k < length (p_keys p)) l1 -> Permutation l1 l2 ->
    sort_slice l1 = sort_slice l2.
Proof.
  intros ops w xs p H Hp ss Hperm Hsorted l1 l2.
  destruct (C09_less_strict_total ops w xs p H Hp) as [_ [_ [_ Htot]]].
  exact (sort_keys_arrangement_independent (key_less parse_float pow p)
           (fun k => k < length (p_keys p)) Htot ss Hperm Hsorted l1 l2).
Qed.

End C09.

(** first_is_first_observation: after ANY stream of calls, for every field ordered
    "first" of every projection — a top-level field, .unit, or a sub-field of
    .config — and any two values a, b carried by Keys: a sorts before b in that
    field iff the first Key carrying a was interned before the first Key carrying
    b ([first_key]: position, in interning order, among ALL Keys of the
    projection). For a sub-field of .config, which comes into existence when its
    file key is first seen, the missing value "" of Keys is not an observation, so
    there the statement is about non-empty values. (An unobserved "" reads rank 0
    from Go's map and ties with the first observed value; [less] then falls back
    to string order — C09_field_rel_total covers that case.) *)
Theorem C09_first_is_first_observation : forall ops w xs p idx f,
  run_ops new_world ops = (w, xs) -> In p (w_projs w) ->
  nth_error (p_fields p) idx = Some f -> fi_ord f = OFirst ->
  forall a b ia ib,
    first_key p idx a = Some ia -> first_key p idx b = Some ib ->
    (fi_src f = SCfg -> a <> [] /\ b <> []) ->
    (Z.lt (cmp_first (fi_obs f) a b) 0 <-> ia < ib).
Proof. exact first_is_first_observation. Qed.

(** the steps behind it: flattened fields cover the index space; interning a new
    row shows its value to the order map of EVERY field (the repaired loop of
    internRow), an old row changes nothing; ranks never change and a new value
    gets the next rank *)
Theorem C09_observation_steps :
  (forall ops w xs p, run_ops new_world ops = (w, xs) -> In p (w_projs w) -> KInv p /\ covers p) /\
  (forall p, covers p ->
     let rw := trim (p_row p) in
     let '(p', k) := intern_row p in
     (k < length (p_keys p) -> p' = p) /\
     (k = length (p_keys p) ->
      forall idx f, nth_error (p_fields p) idx = Some f ->
        nth_error (p_fields p') idx = Some (observe (vals_get rw idx) f))) /\
  (forall v f, tracks (fi_ord f) = true ->
     let obs := fi_obs f in
     let obs' := fi_obs (observe v f) in
     (forall a, mem a obs = true -> mem a obs' = true /\ obs_rank obs' a = obs_rank obs a) /\
     mem v obs' = true /\
     (mem v obs = false ->
        obs_rank obs' v = length obs /\ forall a, mem a obs = true -> obs_rank obs a < length obs)).
Proof.
  split; [exact reachable_inv|]. split; [exact intern_observes|exact observe_ranks].
Qed.

(** num_spec. The specification ([num_denote], [num_order], [num_before] in
    Model/Sort.v) says: a string denotes the float ParseFloat reads from it, or
    else v x RN(1000^e) / v x RN(1024^e) for the leftmost maximal run of [0-9.]
    (ParseFloat's value v of that run) followed by one of k K M G T P E Z Y
    (e = 1 1 2 3 4 5 6 7 8), with 'i' selecting 1024; the powers are the EXACT
    integers rounded once to binary64 (exact for all but 1000^8) and the product is
    one IEEE multiplication; numbers sort before non-numbers, NaN after all other
    numbers, otherwise by < on the values, ties by string order.
    The only fact used about math.Pow is that it returns those rounded powers for
    the exponents 0..8 ([pow_rounded]; checked on every case's recorded table). *)
Theorem C09_leftmost_run_spec : forall x,
  let s := drop_while (fun c => negb (is_numch c)) x in
  let pre := take_while (fun c => negb (is_numch c)) x in
  let run := take_while is_numch s in
  let rest := drop_while is_numch s in
  x = pre ++ run ++ rest /\
  forallb (fun c => negb (is_numch c)) pre = true /\
  forallb is_numch run = true /\
  (run = [] -> rest = []) /\
  match rest with c :: _ => is_numch c = false | [] => True end.
Proof. exact leftmost_run_spec. Qed.

Theorem C09_num_spec : forall (parse_float : bytes -> option b64) (pow : bool -> nat -> b64),
  (forall (iec : bool) (e : nat), e <= 8 ->
     pow iec e = b64_of_Z ((if iec then 1024 else 1000) ^ Z.of_nat e)%Z) ->
  forall x, parse_num parse_float pow x = num_denote parse_float x.
Proof. exact num_spec. Qed.

(** ... and what [less] decides on a num field is exactly the specified order *)
Theorem C09_num_order_spec : forall (parse_float : bytes -> option b64) (pow : bool -> nat -> b64),
  (forall (iec : bool) (e : nat), e <= 8 ->
     pow iec e = b64_of_Z ((if iec then 1024 else 1000) ^ Z.of_nat e)%Z) ->
  forall a b, val_less (cmp_num parse_float pow) a b = num_before parse_float a b.
Proof. exact val_less_num. Qed.

(** fixed_spec: a listed word ranks at the LAST position where it is listed, an
    unlisted word at 0; in a list without repetitions listed words compare by
    their positions *)
Theorem C09_fixed_spec : forall l v,
  (In v l -> last_listed_at l v (fixed_rank l v)) /\ (~ In v l -> fixed_rank l v = 0).
Proof. exact fixed_spec. Qed.

Theorem C09_fixed_spec_nodup : forall l i j a b,
  NoDup l -> nth_error l i = Some a -> nth_error l j = Some b ->
  cmp_fixed l a b = (Z.of_nat i - Z.of_nat j)%Z.
Proof. exact fixed_spec_nodup. Qed.

Print Assumptions C09_field_rel_total.
Print Assumptions C09_val_less_is_prec.
Print Assumptions C09_less_strict_total.
Print Assumptions C09_sorted_perm_unique.
Print Assumptions C09_sortkeys_arrangement_independent.
Print Assumptions C09_first_is_first_observation.
Print Assumptions C09_observation_steps.
Print Assumptions C09_leftmost_run_spec.
Print Assumptions C09_num_spec.
Print Assumptions C09_num_order_spec.
Print Assumptions C09_fixed_spec.
Print Assumptions C09_fixed_spec_nodup.

(** non-vacuity. The hypotheses hold for a concrete oracle: ParseFloat knowing
    "1", "1.0", "2", "NaN" (and rejecting everything else), exact powers; every
    value parseNum can then return is one of 1, 2, NaN times a power, and the
    three order facts are checked on a sample of them by computation. And the
    headline cases: 1 and 1.0 tie numerically and fall back to string order; NaN
    sorts after numbers; words after NaN. *)
Definition ex_pf (x : bytes) : option b64 :=
  if beq x (bs "1") || beq x (bs "1.0") then Some (b64_of_Z 1)
  else if beq x (bs "2") then Some (b64_of_Z 2)
  else if beq x (bs "NaN") then Some S754_nan else None.
Definition ex_pow (iec : bool) (e : nat) : b64 := b64_of_Z ((if iec then 1024 else 1000) ^ Z.of_nat e).

Example C09_pow_rounded_example : forall (iec : bool) (e : nat), e <= 8 ->
  ex_pow iec e = b64_of_Z ((if iec then 1024 else 1000) ^ Z.of_nat e)%Z.
Proof. reflexivity. Qed.

Example C09_example :
  val_less (cmp_num ex_pf ex_pow) (bs "1") (bs "1.0") = true /\
  val_less (cmp_num ex_pf ex_pow) (bs "1.0") (bs "1") = false /\
  val_less (cmp_num ex_pf ex_pow) (bs "1.0") (bs "2") = true /\
  val_less (cmp_num ex_pf ex_pow) (bs "1k") (bs "2") = false /\
  val_less (cmp_num ex_pf ex_pow) (bs "2") (bs "NaN") = true /\
  val_less (cmp_num ex_pf ex_pow) (bs "NaN") (bs "foo") = true /\
  val_less (cmp_num ex_pf ex_pow) (bs "bar") (bs "foo") = true /\
  parse_num ex_pf ex_pow (bs "x1Ki") = Some (b64_of_Z 1024) /\
  num_match (bs "abc12.5MiB") = Some (bs "12.5", bs "Mi") /\
  cmp_fixed [bs "a"; bs "b"; bs "a"] (bs "b") (bs "a") = (-1)%Z /\
  num_denote ex_pf (bs "x1Yi") = Some (b64_of_Z (2 ^ 80)) /\
  num_before ex_pf (bs "1Zi") (bs "2") = false /\
  (let vs := [b64_of_Z 1; b64_of_Z 2; b64_of_Z 1000; b64_of_Z 1024; S754_nan; S754_zero true; S754_zero false] in
   forallb (fun x => negb (b64_lt x x)) vs
   && forallb (fun x => forallb (fun y => forallb (fun z =>
        negb (b64_lt x y && b64_lt y z) || b64_lt x z) vs) vs) vs = true).
Proof. vm_compute. repeat split; reflexivity. Qed.
