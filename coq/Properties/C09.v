(** C09 — Keys sort by the documented per-field orders, totally and reproducibly.
    Statements only; proofs are in Proofs/Sort.v and Proofs/Reach.v. Model:
    Model/Sort.v on top of the projection model of C08. Library behaviour:
    strconv.ParseFloat and math.Pow are the Section variables [parse_float],
    [pow] (replayed from tables when the model is evaluated); the regexp of
    parseNum is modelled ([num_match]); sort.Slice is "returns a sorted
    permutation". *)
From Coq Require Import Permutation Sorting.Sorted.
From Perf Require Import Base.Bytes Base.B64 Model.Name Model.Extract Model.Key Model.Projection
  Model.Sort Proofs.Key Proofs.Projection Proofs.Sort Proofs.Reach.

Section C09.
Variable parse_float : bytes -> option b64.
Variable pow : bool -> nat -> b64.

(** What is assumed of the oracle values: on the numbers parseNum can return,
    binary64 [<] is irreflexive and transitive, and among non-NaNs "neither is
    smaller" is transitive (IEEE comparison is a strict weak order on non-NaN
    values). Nothing is assumed about NaN: [b64_lt] with a NaN operand is false by
    computation (Proofs/Sort.b64_lt_nan_l/r). Nothing is assumed about WHICH
    numbers ParseFloat and Pow return. RunC09.float_order_ok re-checks these
    three facts on the values of every generated case. *)
Hypothesis lt_irrefl : forall x, numval parse_float pow x -> b64_lt x x = false.
Hypothesis lt_trans : forall x y z,
  numval parse_float pow x -> numval parse_float pow y -> numval parse_float pow z ->
  b64_lt x y = true -> b64_lt y z = true -> b64_lt x z = true.
Hypothesis incomp_trans : forall x y z,
  numval parse_float pow x -> numval parse_float pow y -> numval parse_float pow z ->
  b64_is_nan x = false -> b64_is_nan y = false -> b64_is_nan z = false ->
  b64_lt x y = false -> b64_lt y x = false -> b64_lt y z = false -> b64_lt z y = false ->
  b64_lt x z = false /\ b64_lt z x = false.

(** field_rel_total: for each of the four kinds of order (first with any order
    map, alpha, num, fixed with any list), "a before b" := cmp < 0, or cmp = 0
    and a bytewise before b, is a strict total order on all strings *)
Theorem C09_field_rel_total : forall o obs,
  let R := prec (ord_cmp parse_float pow o obs) in
  (forall a, ~ R a a) /\ (forall a b c, R a b -> R b c -> R a c) /\
  (forall a b, a <> b -> R a b \/ R b a).
Proof. exact (field_rel_total parse_float pow lt_irrefl lt_trans incomp_trans). Qed.

(** that relation is what [less] evaluates on one field *)
Theorem C09_val_less_is_prec : forall cmp a b, val_less cmp a b = true <-> prec cmp a b.
Proof. exact val_less_prec. Qed.

(** less_strict_total: after ANY stream of API calls, Key.Less on the Keys of any
    projection is irreflexive, transitive, asymmetric, and total on distinct Keys *)
Theorem C09_less_strict_total : forall ops w xs p,
  run_ops new_world ops = (w, xs) -> In p (w_projs w) ->
  let L := key_less parse_float pow p in
  let n := length (p_keys p) in
  (forall k, L k k = false) /\
  (forall k1 k2 k3, L k1 k2 = true -> L k2 k3 = true -> L k1 k3 = true) /\
  (forall k1 k2, L k1 k2 = true -> L k2 k1 = false) /\
  (forall k1 k2, k1 < n -> k2 < n -> k1 <> k2 -> L k1 k2 = true \/ L k2 k1 = true).
Proof.
  intros ops w xs p H Hp. destruct (reachable_inv ops w xs p H Hp) as [K C].
  exact (less_strict_total parse_float pow lt_irrefl lt_trans incomp_trans p K C).
Qed.

(** sorted_perm_unique: under a strict total order, two sorted arrangements of the
    same distinct keys are the same list ... *)
Theorem C09_sorted_perm_unique : forall (lt : nat -> nat -> bool) (dom : nat -> Prop),
  (forall x y, dom x -> dom y -> x <> y -> lt x y = true \/ lt y x = true) ->
  forall l1 l2, NoDup l1 -> Forall dom l1 -> Permutation l1 l2 ->
    sorted lt l1 -> sorted lt l2 -> l1 = l2.
Proof. exact sorted_perm_unique. Qed.

(** ... hence SortKeys does not depend on the initial arrangement, given only that
    sort.Slice returns a sorted permutation of its input (for reachable
    projections and valid Keys) *)
Theorem C09_sortkeys_arrangement_independent : forall ops w xs p,
  run_ops new_world ops = (w, xs) -> In p (w_projs w) ->
  forall sort_slice : list nat -> list nat,
  (forall l, Permutation (sort_slice l) l) ->
  (forall l, sorted (key_less parse_float pow p) (sort_slice l)) ->
  forall l1 l2, NoDup l1 -> Forall (fun k => k < length (p_keys p)) l1 -> Permutation l1 l2 ->
    sort_slice l1 = sort_slice l2.
Proof.
  intros ops w xs p H Hp ss Hperm Hsorted l1 l2.
  destruct (C09_less_strict_total ops w xs p H Hp) as [_ [_ [_ Htot]]].
  exact (sort_keys_arrangement_independent (key_less parse_float pow p)
           (fun k => k < length (p_keys p)) Htot ss Hperm Hsorted l1 l2).
Qed.

End C09.

(** first_is_first_observation, proved part ("_partial"): (1) in every reachable
    projection the flattened fields cover the whole field index space, sub-fields
    of .config included; (2) interning a row that is not yet a Key shows its value
    to the order map of EVERY field (this is the repaired loop of internRow: it
    used to range over the top-level fields only), and a row that already is a Key
    changes nothing; (3) observing keeps every rank already handed out and gives an
    unseen value the next, largest rank. Not proved: the induction over streams
    that turns (1)-(3) into "for values a, b observed in Keys of a first-ordered
    field, cmp_first a b < 0 iff the first Key carrying a was interned before the
    first Key carrying b (counting Keys interned since the field exists)". *)
Theorem C09_first_is_first_observation_partial :
  (forall ops w xs p, run_ops new_world ops = (w, xs) -> In p (w_projs w) -> KInv p /\ covers p) /\
  (forall p, covers p ->
     let rw := trim (p_row p) in
     let '(p', k) := intern_row p in
     (k < length (p_keys p) -> p' = p) /\
     (k = length (p_keys p) ->
      forall idx f, nth_error (p_fields p) idx = Some f ->
        nth_error (p_fields p') idx = Some (observe (vals_get rw idx) f))) /\
  (forall v f, tracks (fi_ord f) = true ->
     let obs := fi_obs f in
     let obs' := fi_obs (observe v f) in
     (forall a, mem a obs = true -> mem a obs' = true /\ obs_rank obs' a = obs_rank obs a) /\
     mem v obs' = true /\
     (mem v obs = false ->
        obs_rank obs' v = length obs /\ forall a, mem a obs = true -> obs_rank obs a < length obs)).
Proof.
  split; [exact reachable_inv|]. split; [exact intern_observes|exact observe_ranks].
Qed.

Print Assumptions C09_field_rel_total.
Print Assumptions C09_val_less_is_prec.
Print Assumptions C09_less_strict_total.
Print Assumptions C09_sorted_perm_unique.
Print Assumptions C09_sortkeys_arrangement_independent.
Print Assumptions C09_first_is_first_observation_partial.

(** non-vacuity. The hypotheses hold for a concrete oracle: ParseFloat knowing
    "1", "1.0", "2", "NaN" (and rejecting everything else), exact powers; every
    value parseNum can then return is one of 1, 2, NaN times a power, and the
    three order facts are checked on a sample of them by computation. And the
    headline cases: 1 and 1.0 tie numerically and fall back to string order; NaN
    sorts after numbers; words after NaN. *)
Definition ex_pf (x : bytes) : option b64 :=
  if beq x (bs "1") || beq x (bs "1.0") then Some (b64_of_Z 1)
  else if beq x (bs "2") then Some (b64_of_Z 2)
  else if beq x (bs "NaN") then Some S754_nan else None.
Definition ex_pow (iec : bool) (e : nat) : b64 := b64_of_Z ((if iec then 1024 else 1000) ^ Z.of_nat e).

Example C09_example :
  val_less (cmp_num ex_pf ex_pow) (bs "1") (bs "1.0") = true /\
  val_less (cmp_num ex_pf ex_pow) (bs "1.0") (bs "1") = false /\
  val_less (cmp_num ex_pf ex_pow) (bs "1.0") (bs "2") = true /\
  val_less (cmp_num ex_pf ex_pow) (bs "1k") (bs "2") = false /\
  val_less (cmp_num ex_pf ex_pow) (bs "2") (bs "NaN") = true /\
  val_less (cmp_num ex_pf ex_pow) (bs "NaN") (bs "foo") = true /\
  val_less (cmp_num ex_pf ex_pow) (bs "bar") (bs "foo") = true /\
  parse_num ex_pf ex_pow (bs "x1Ki") = Some (b64_of_Z 1024) /\
  num_match (bs "abc12.5MiB") = Some (bs "12.5", bs "Mi") /\
  cmp_fixed [bs "a"; bs "b"; bs "a"] (bs "b") (bs "a") = (-1)%Z /\
  (let vs := [b64_of_Z 1; b64_of_Z 2; b64_of_Z 1000; b64_of_Z 1024; S754_nan; S754_zero true; S754_zero false] in
   forallb (fun x => negb (b64_lt x x)) vs
   && forallb (fun x => forallb (fun y => forallb (fun z =>
        negb (b64_lt x y && b64_lt y z) || b64_lt x z) vs) vs) vs = true).
Proof. vm_compute. repeat split; reflexivity. Qed.
