(** C09 — Keys sort by the documented per-field orders, totally and reproducibly.
    Statements only; proofs are in Proofs/Sort.v, Proofs/SortR.v, Proofs/Reach.v,
    Proofs/FirstObs.v, Proofs/NumSpec.v.

    Model: Model/SortR.v - benchproc/sort.go and the order maps of
    projection.go WITH the two repairs proposed for this property
    (hooks/fix_c09_num_leading_sign.diff: a leading sign belongs to the numeral
    of a suffixed number, "-1k" is -1000 and not +1000;
    hooks/fix_c09_config_subfield_missing_first.diff: the order map of a .config
    sub-field created when Keys already exist starts at {"": 0}) - on top of the
    projection model of C08. What the code does WITHOUT the repairs is kept as
    the two [_refuted] statements at the end (Model/Sort.v, the shared model of
    the code as it was).

    Library behaviour: strconv.ParseFloat and math.Pow are the Section variables
    [parse_float], [pow] (replayed from tables when the model is evaluated); the
    regexp of parseNum is modelled ([num_match_r]); sort.Slice is "returns a
    sorted permutation". *)
From Coq Require Import Permutation Sorting.Sorted.
From Perf Require Import Base.Bytes Base.B64 Model.Name Model.Extract Model.Key Model.Projection
  Model.Sort Model.SortR Proofs.Key Proofs.Projection Proofs.Sort Proofs.Reach Proofs.NumSpec
  Proofs.FirstObs Proofs.SortR.

Section C09.
Variable parse_float : bytes -> option b64.
Variable pow : bool -> nat -> b64.

(** What is assumed of the oracle values: on the numbers parseNum can return,
    binary64 [<] is irreflexive and transitive, and among non-NaNs "neither is
    smaller" is transitive (IEEE comparison is a strict weak order on non-NaN
    values). Nothing is assumed about NaN: [b64_lt] with a NaN operand is false by
    computation (Proofs/Sort.b64_lt_nan_l/r). Nothing is assumed about WHICH
    numbers ParseFloat and Pow return. RunC09.float_order_ok re-checks these
    three facts on the values of every generated case. *)
Hypothesis lt_irrefl : forall x, numval_r parse_float pow x -> b64_lt x x = false.
Hypothesis lt_trans : forall x y z,
  numval_r parse_float pow x -> numval_r parse_float pow y -> numval_r parse_float pow z ->
  b64_lt x y = true -> b64_lt y z = true -> b64_lt x z = true.
Hypothesis incomp_trans : forall x y z,
  numval_r parse_float pow x -> numval_r parse_float pow y -> numval_r parse_float pow z ->
  b64_is_nan x = false -> b64_is_nan y = false -> b64_is_nan z = false ->
  b64_lt x y = false -> b64_lt y x = false -> b64_lt y z = false -> b64_lt z y = false ->
  b64_lt x z = false /\ b64_lt z x = false.

(** field_rel_total: for each of the four kinds of order (first with any order
    map, alpha, num, fixed with any list), "a before b" := cmp < 0, or cmp = 0
    and a bytewise before b, is a strict total order on all strings *)
Theorem C09_field_rel_total : forall o obs,
  let R := prec (ord_cmp_r parse_float pow o obs) in
  (forall a, ~ R a a) /\ (forall a b c, R a b -> R b c -> R a c) /\
  (forall a b, a <> b -> R a b \/ R b a).
Proof. exact (field_rel_total_r parse_float pow lt_irrefl lt_trans incomp_trans). Qed.

(** that relation is what [less] evaluates on one field *)
Theorem C09_val_less_is_prec : forall cmp a b, val_less cmp a b = true <-> prec cmp a b.
Proof. exact val_less_prec. Qed.

(** less_strict_total: after ANY stream of API calls, Key.Less on the Keys of any
    projection is irreflexive, transitive, asymmetric, and total on distinct Keys *)
Theorem C09_less_strict_total : forall ops w xs p,
  run_ops new_world ops = (w, xs) -> In p (w_projs w) ->
  let L := key_less_r parse_float pow p in
  let n := length (p_keys p) in
  (forall k, L k k = false) /\
  (forall k1 k2 k3, L k1 k2 = true -> L k2 k3 = true -> L k1 k3 = true) /\
  (forall k1 k2, L k1 k2 = true -> L k2 k1 = false) /\
  (forall k1 k2, k1 < n -> k2 < n -> k1 <> k2 -> L k1 k2 = true \/ L k2 k1 = true).
Proof. exact (less_strict_total_reach_r parse_float pow lt_irrefl lt_trans incomp_trans). Qed.

(** sorted_perm_unique: under a strict total order, two sorted arrangements of the
    same distinct keys are the same list ... *)
Theorem C09_sorted_perm_unique : forall (lt : nat -> nat -> bool) (dom : nat -> Prop),
  (forall x y, dom x -> dom y -> x <> y -> lt x y = true \/ lt y x = true) ->
  forall l1 l2, NoDup l1 -> Forall dom l1 -> Permutation l1 l2 ->
    sorted lt l1 -> sorted lt l2 -> l1 = l2.
Proof. exact sorted_perm_unique. Qed.

(** ... hence SortKeys does not depend on the initial arrangement, given only that
    sort.Slice returns a sorted permutation of its input (for reachable
    projections and valid Keys) *)
Theorem C09_sortkeys_arrangement_independent : forall ops w xs p,
  run_ops new_world ops = (w, xs) -> In p (w_projs w) ->
  forall sort_slice : list nat -> list nat,
  (forall l, Permutation (sort_slice l) l) ->
  (forall l, sorted (key_less_r parse_float pow p) (sort_slice l)) ->
  forall l1 l2, NoDup l1 -> Forall (fun k => k < length (p_keys p)) l1 -> Permutation l1 l2 ->
    sort_slice l1 = sort_slice l2.
Proof. exact (sortkeys_arrangement_independent_r parse_float pow lt_irrefl lt_trans incomp_trans). Qed.

(** the comparison Key.Less applies to a field ordered "first" is the rank
    difference in the repaired order map [first_vals] *)
Theorem C09_first_field_cmp : forall p idx f,
  nth_error (p_fields p) idx = Some f -> fi_ord f = OFirst -> idx < nfields p ->
  field_cmp_r parse_float pow (p_fields p) (obs_table p) idx = cmp_first (first_vals p idx).
Proof. exact (key_less_r_first_field parse_float pow). Qed.

End C09.

(** first_is_first_observation: for every field of every projection - a top-level
    field, .unit, or a sub-field of .config that came into existence late - and
    ANY two values a, b carried by Keys, the missing value "" of a Key that
    lacks the field included: a sorts before b in that field iff the first Key
    carrying a was interned before the first Key carrying b ([first_key]:
    position, in interning order, among ALL Keys of the projection). No
    hypothesis on the values (the earlier statement excluded "" for sub-fields
    of .config: that was the defect, see C09_first_missing_refuted). *)
Theorem C09_first_is_first_observation : forall p idx a b ia ib,
  first_key p idx a = Some ia -> first_key p idx b = Some ib ->
  (Z.lt (cmp_first (first_vals p idx) a b) 0 <-> ia < ib).
Proof. exact first_is_first_observation_r. Qed.

(** order_map_closed_form: how the repaired order map [first_vals] relates to
    the order map [fi_obs] of the step-by-step model of the code as it was
    (Model/Projection.v: internRow registers the values of each new Key with the
    order map of every flattened field; a sub-field of .config created late
    starts with the empty map). After ANY stream of calls, for every field with
    an order map: [c] Keys existed when the field was created (c = 0 unless it
    is a sub-field of .config), they all lack the field, the old map is the
    registrations of the later Keys started from the empty map, and the
    repaired map is THE SAME registrations started from {"": 0} when c > 0 -
    which is literally what the repair adds to makeProjection. For c = 0 the
    two maps are equal. *)
Theorem C09_order_map_closed_form : forall ops w xs p idx f,
  run_ops new_world ops = (w, xs) -> In p (w_projs w) ->
  nth_error (p_fields p) idx = Some f -> tracks (fi_ord f) = true ->
  exists c, c <= length (p_keys p) /\ (fi_src f <> SCfg -> c = 0) /\
    (forall j, j < c -> vals_get (nth j (p_keys p) []) idx = []) /\
    fi_obs f = register [] (column p idx c) /\
    first_vals p idx = register (if c =? 0 then [] else [[]]) (column p idx c).
Proof. exact order_map_closed_form. Qed.

(** the steps behind the old map: flattened fields cover the index space;
    interning a new row shows its value to the order map of EVERY field, an old
    row changes nothing; ranks never change and a new value gets the next rank *)
Theorem C09_observation_steps :
  (forall ops w xs p, run_ops new_world ops = (w, xs) -> In p (w_projs w) -> KInv p /\ covers p) /\
  (forall p, covers p ->
     let rw := trim (p_row p) in
     let '(p', k) := intern_row p in
     (k < length (p_keys p) -> p' = p) /\
     (k = length (p_keys p) ->
      forall idx f, nth_error (p_fields p) idx = Some f ->
        nth_error (p_fields p') idx = Some (observe (vals_get rw idx) f))) /\
  (forall v f, tracks (fi_ord f) = true ->
     let obs := fi_obs f in
     let obs' := fi_obs (observe v f) in
     (forall a, mem a obs = true -> mem a obs' = true /\ obs_rank obs' a = obs_rank obs a) /\
     mem v obs' = true /\
     (mem v obs = false ->
        obs_rank obs' v = length obs /\ forall a, mem a obs = true -> obs_rank obs a < length obs)).
Proof. exact (conj reachable_inv (conj intern_observes observe_ranks)). Qed.

(** num_spec. The specification ([numeral_of], [num_denote_r], [num_before_r] in
    Model/SortR.v; [num_order], [suffix_multiplier] in Model/Sort.v) says: a
    string denotes the float ParseFloat reads from it, or else v x RN(1000^e) /
    v x RN(1024^e) where v is ParseFloat's value of the string's numeral - a
    leading sign directly followed by the maximal run of [0-9.], or else the
    leftmost maximal run of [0-9.] - and the numeral is followed by one of
    k K M G T P E Z Y (e = 1 1 2 3 4 5 6 7 8), with 'i' selecting 1024; the powers
    are the EXACT integers rounded once to binary64 (exact for all but 1000^8) and
    the product is one IEEE multiplication; numbers sort before non-numbers, NaN
    after all other numbers, otherwise by < on the values, ties by string order.
    The only fact used about math.Pow is that it returns those rounded powers for
    the exponents 0..8 ([pow_rounded]; checked on every case's recorded table). *)
Theorem C09_numeral_signed : forall s run rest,
  is_sign s = true -> run <> [] -> forallb is_numch run = true ->
  match rest with c :: _ => is_numch c = false | [] => True end ->
  numeral_of (s :: run ++ rest) = (s :: run, rest).
Proof. exact numeral_signed. Qed.

Theorem C09_numeral_unsigned : forall run rest,
  run <> [] -> forallb is_numch run = true ->
  match rest with c :: _ => is_numch c = false | [] => True end ->
  numeral_of (run ++ rest) = (run, rest).
Proof. exact numeral_unsigned. Qed.

Theorem C09_leftmost_run_spec : forall x,
  let s := drop_while (fun c => negb (is_numch c)) x in
  let pre := take_while (fun c => negb (is_numch c)) x in
  let run := take_while is_numch s in
  let rest := drop_while is_numch s in
  x = pre ++ run ++ rest /\
  forallb (fun c => negb (is_numch c)) pre = true /\
  forallb is_numch run = true /\
  (run = [] -> rest = []) /\
  match rest with c :: _ => is_numch c = false | [] => True end.
Proof. exact leftmost_run_spec. Qed.

Theorem C09_num_spec : forall (parse_float : bytes -> option b64) (pow : bool -> nat -> b64),
  (forall (iec : bool) (e : nat), e <= 8 ->
     pow iec e = b64_of_Z ((if iec then 1024 else 1000) ^ Z.of_nat e)%Z) ->
  forall x, parse_num_r parse_float pow x = num_denote_r parse_float x.
Proof. exact num_spec_r. Qed.

(** ... and what [less] decides on a num field is exactly the specified order *)
Theorem C09_num_order_spec : forall (parse_float : bytes -> option b64) (pow : bool -> nat -> b64),
  (forall (iec : bool) (e : nat), e <= 8 ->
     pow iec e = b64_of_Z ((if iec then 1024 else 1000) ^ Z.of_nat e)%Z) ->
  forall a b, val_less (cmp_num_r parse_float pow) a b = num_before_r parse_float a b.
Proof. exact val_less_num_r. Qed.

(** fixed_spec: a listed word ranks at the LAST position where it is listed, an
    unlisted word at 0; in a list without repetitions listed words compare by
    their positions; and in any list, when every listing of a precedes every
    listing of b, a sorts before b ("the listed order") *)
Theorem C09_fixed_spec : forall l v,
  (In v l -> last_listed_at l v (fixed_rank l v)) /\ (~ In v l -> fixed_rank l v = 0).
Proof. exact fixed_spec. Qed.

Theorem C09_fixed_spec_nodup : forall l i j a b,
  NoDup l -> nth_error l i = Some a -> nth_error l j = Some b ->
  cmp_fixed l a b = (Z.of_nat i - Z.of_nat j)%Z.
Proof. exact fixed_spec_nodup. Qed.

Theorem C09_fixed_listed_before : forall l a b,
  listed_before l a b = true -> (cmp_fixed l a b < 0)%Z.
Proof. exact fixed_listed_before. Qed.

Print Assumptions C09_field_rel_total.
Print Assumptions C09_val_less_is_prec.
Print Assumptions C09_less_strict_total.
Print Assumptions C09_sorted_perm_unique.
Print Assumptions C09_sortkeys_arrangement_independent.
Print Assumptions C09_first_field_cmp.
Print Assumptions C09_first_is_first_observation.
Print Assumptions C09_order_map_closed_form.
Print Assumptions C09_observation_steps.
Print Assumptions C09_numeral_signed.
Print Assumptions C09_numeral_unsigned.
Print Assumptions C09_leftmost_run_spec.
Print Assumptions C09_num_spec.
Print Assumptions C09_num_order_spec.
Print Assumptions C09_fixed_spec.
Print Assumptions C09_fixed_spec_nodup.
Print Assumptions C09_fixed_listed_before.

(** non-vacuity. The hypotheses hold for a concrete oracle: ParseFloat knowing
    "1", "1.0", "2", "-1", "-2", "NaN" (and rejecting everything else), exact
    powers; and the headline cases: 1 and 1.0 tie numerically and fall back to
    string order; NaN sorts after numbers; words after NaN; -2k < -1500 is not
    listed here because -1500 is not in this toy ParseFloat, but -2k < -1k < -1 < 2 < 1k. *)
Definition ex_pf (x : bytes) : option b64 :=
  if beq x (bs "1") || beq x (bs "1.0") then Some (b64_of_Z 1)
  else if beq x (bs "2") then Some (b64_of_Z 2)
  else if beq x (bs "-1") then Some (b64_of_Z (-1))
  else if beq x (bs "-2") then Some (b64_of_Z (-2))
  else if beq x (bs "NaN") then Some S754_nan else None.
Definition ex_pow (iec : bool) (e : nat) : b64 := b64_of_Z ((if iec then 1024 else 1000) ^ Z.of_nat e).

Example C09_pow_rounded_example : forall (iec : bool) (e : nat), e <= 8 ->
  ex_pow iec e = b64_of_Z ((if iec then 1024 else 1000) ^ Z.of_nat e)%Z.
Proof. reflexivity. Qed.

Example C09_example :
  val_less (cmp_num_r ex_pf ex_pow) (bs "1") (bs "1.0") = true /\
  val_less (cmp_num_r ex_pf ex_pow) (bs "1.0") (bs "1") = false /\
  val_less (cmp_num_r ex_pf ex_pow) (bs "1.0") (bs "2") = true /\
  val_less (cmp_num_r ex_pf ex_pow) (bs "1k") (bs "2") = false /\
  val_less (cmp_num_r ex_pf ex_pow) (bs "2") (bs "NaN") = true /\
  val_less (cmp_num_r ex_pf ex_pow) (bs "NaN") (bs "foo") = true /\
  val_less (cmp_num_r ex_pf ex_pow) (bs "bar") (bs "foo") = true /\
  parse_num_r ex_pf ex_pow (bs "x1Ki") = Some (b64_of_Z 1024) /\
  parse_num_r ex_pf ex_pow (bs "-1k") = Some (b64_of_Z (-1000)) /\
  parse_num_r ex_pf ex_pow (bs "-2Ki") = Some (b64_of_Z (-2048)) /\
  parse_num_r ex_pf ex_pow (bs "x-1k") = Some (b64_of_Z 1000) /\
  map (fun '(a, b) => val_less (cmp_num_r ex_pf ex_pow) a b)
      [(bs "-2k", bs "-1k"); (bs "-1k", bs "-1"); (bs "-1", bs "2"); (bs "2", bs "1k"); (bs "1k", bs "-2k")]
    = [true; true; true; true; false] /\
  num_match_r (bs "-12.5MiB") = Some (bs "-12.5", bs "Mi") /\
  num_match (bs "abc12.5MiB") = Some (bs "12.5", bs "Mi") /\
  cmp_fixed [bs "a"; bs "b"; bs "a"] (bs "b") (bs "a") = (-1)%Z /\
  listed_before [bs "a"; bs "b"; bs "a"] (bs "b") (bs "a") = false /\
  listed_before [bs "c"; bs "c"; bs "b"; bs "a"] (bs "c") (bs "a") = true /\
  num_denote_r ex_pf (bs "x1Yi") = Some (b64_of_Z (2 ^ 80)) /\
  num_before_r ex_pf (bs "1Zi") (bs "2") = false /\
  (let vs := [b64_of_Z 1; b64_of_Z 2; b64_of_Z 1000; b64_of_Z (-1000); b64_of_Z 1024; S754_nan;
              S754_zero true; S754_zero false] in
   forallb (fun x => negb (b64_lt x x)) vs
   && forallb (fun x => forallb (fun y => forallb (fun z =>
        negb (b64_lt x y && b64_lt y z) || b64_lt x z) vs) vs) vs = true).
Proof. vm_compute. repeat split; reflexivity. Qed.

(** ** what the code does without the repairs (Model/Sort.v, Model/Projection.v:
    the shared model of the code as it was) *)

(** the unanchored regexp drops the sign of a suffixed number: -1k sorted as
    +1000, after 2 and level with 1k (then string order) *)
Example C09_num_sign_refuted :
  parse_num ex_pf ex_pow (bs "-1k") = Some (b64_of_Z 1000) /\
  val_less (cmp_num ex_pf ex_pow) (bs "2") (bs "-1k") = true /\
  val_less (cmp_num ex_pf ex_pow) (bs "-1k") (bs "-1") = false.
Proof. vm_compute. repeat split; reflexivity. Qed.

(** the order of two existing Keys flips when an unrelated Key is interned:
    projection .config; k0 = {goos:a}, k1 = {goos:a, pkg:p}: the sub-field pkg is
    created for k1 with an empty order map, "" reads rank 0 like p and string
    order puts k0 first; after {goos:b} (no pkg) is interned, "" is registered at
    rank 1 and k1 comes first. With the repaired map k0 stays first. *)
Definition ex_cfg (kvs : list (bytes * bytes)) : result :=
  mkR (bs "X") (map (fun '(k, v) => mkCfg k v true) kvs) [bs "ns/op"].
Definition ex_ops1 : list op :=
  [OpParse false [mkPS (bs ".config") (bs "first") []];
   OpProject 0 (ex_cfg [(bs "goos", bs "a")]);
   OpProject 0 (ex_cfg [(bs "goos", bs "a"); (bs "pkg", bs "p")])].
Definition ex_ops2 : list op := ex_ops1 ++ [OpProject 0 (ex_cfg [(bs "goos", bs "b")])].
Definition ex_less (f : projection -> nat -> nat -> bool) (ops : list op) : list bool :=
  match w_projs (fst (run_ops new_world ops)) with
  | p :: _ => [f p 0 1; f p 1 0]
  | [] => []
  end.

Example C09_first_missing_refuted :
  ex_less (key_less ex_pf ex_pow) ex_ops1 = [true; false] /\
  ex_less (key_less ex_pf ex_pow) ex_ops2 = [false; true] /\
  ex_less (key_less_r ex_pf ex_pow) ex_ops1 = [true; false] /\
  ex_less (key_less_r ex_pf ex_pow) ex_ops2 = [true; false].
Proof. vm_compute. repeat split; reflexivity. Qed.
