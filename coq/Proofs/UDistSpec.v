(** Proofs about the specification Model/UDistSpec.v: finite sums, count
    vectors, the complement bijection r |-> t - r (two-sided symmetry), the
    snoc decomposition that the tied recurrence peels (peel_top_group). *)
From Coq Require Import ZArith List Bool Lia Permutation.
From Perf Require Import Model.UStat Model.UDistSpec Proofs.UStat.
Import ListNotations.
Local Open Scope Z_scope.

(** ** finite sums *)
Lemma sumf_cons {A} (f : A -> Z) a l : sumf f (a :: l) = f a + sumf f l.
Proof. reflexivity. Qed.

Lemma sumf_app {A} (f : A -> Z) l1 l2 : sumf f (l1 ++ l2) = sumf f l1 + sumf f l2.
Proof. induction l1 as [|a l1 IH]; [reflexivity|]. rewrite <- app_comm_cons, !sumf_cons, IH. lia. Qed.

Lemma sumf_ext_in {A} (f g : A -> Z) l : (forall x, In x l -> f x = g x) -> sumf f l = sumf g l.
Proof.
  induction l as [|a l IH]; intros H; [reflexivity|]. rewrite !sumf_cons.
  rewrite (H a (or_introl eq_refl)), IH; [reflexivity|]. intros x Hx; apply H; now right.
Qed.

Lemma sumf_ext {A} (f g : A -> Z) l : (forall x, f x = g x) -> sumf f l = sumf g l.
Proof. intros H; apply sumf_ext_in; auto. Qed.

Lemma sumf_map {A B} (f : B -> Z) (g : A -> B) l : sumf f (map g l) = sumf (fun a => f (g a)) l.
Proof. induction l as [|a l IH]; [reflexivity|]. cbn [map]. rewrite !sumf_cons, IH. reflexivity. Qed.

Lemma sumf_flat_map {A B} (f : B -> Z) (g : A -> list B) l :
  sumf f (flat_map g l) = sumf (fun a => sumf f (g a)) l.
Proof. induction l as [|a l IH]; [reflexivity|]. cbn [flat_map]. rewrite sumf_app, sumf_cons, IH. reflexivity. Qed.

Lemma sumf_zero {A} (l : list A) : sumf (fun _ => 0) l = 0.
Proof. induction l as [|a l IH]; [reflexivity|]. rewrite sumf_cons, IH. reflexivity. Qed.

Lemma sumf_plus {A} (f g : A -> Z) l : sumf (fun a => f a + g a) l = sumf f l + sumf g l.
Proof. induction l as [|a l IH]; [reflexivity|]. rewrite !sumf_cons, IH. lia. Qed.

Lemma sumf_scale {A} c (f : A -> Z) l : sumf (fun a => c * f a) l = c * sumf f l.
Proof. induction l as [|a l IH]; [cbn; lia|]. rewrite !sumf_cons, IH. lia. Qed.

Lemma sumf_swap {A B} (f : A -> B -> Z) la lb :
  sumf (fun a => sumf (fun b => f a b) lb) la = sumf (fun b => sumf (fun a => f a b) la) lb.
Proof.
  induction la as [|a la IH].
  - cbn [sumf fold_right]. symmetry. apply sumf_zero.
  - rewrite sumf_cons, IH. rewrite <- sumf_plus. apply sumf_ext. intros b. now rewrite sumf_cons.
Qed.

Lemma sumf_nonneg {A} (f : A -> Z) l : (forall x, In x l -> 0 <= f x) -> 0 <= sumf f l.
Proof.
  induction l as [|a l IH]; intros H; [cbn; lia|]. rewrite sumf_cons.
  pose proof (H a (or_introl eq_refl)). assert (0 <= sumf f l) by (apply IH; intros; apply H; now right). lia.
Qed.

Lemma sumf_rev {A} (f : A -> Z) l : sumf f (rev l) = sumf f l.
Proof. induction l as [|a l IH]; [reflexivity|]. cbn [rev]. rewrite sumf_app, IH, !sumf_cons. cbn. lia. Qed.

(** ** integer ranges *)
Lemma zrange_aux_in lo n x : In x (zrange_aux lo n) <-> lo <= x < lo + Z.of_nat n.
Proof.
  revert lo; induction n as [|n IH]; intros lo; cbn [zrange_aux In].
  - split; [intros [] | lia].
  - rewrite IH. split; [intros [H|H] | intros H]; lia.
Qed.

Lemma zrange_in lo hi x : In x (zrange lo hi) <-> lo <= x <= hi.
Proof. unfold zrange. rewrite zrange_aux_in. lia. Qed.

Lemma zrange_aux_snoc lo n : zrange_aux lo (S n) = zrange_aux lo n ++ [lo + Z.of_nat n].
Proof.
  revert lo; induction n as [|n IH]; intros lo.
  - cbn. f_equal. lia.
  - change (zrange_aux lo (S (S n))) with (lo :: zrange_aux (lo + 1) (S n)).
    rewrite IH. cbn [zrange_aux app].
    replace (lo + 1 + Z.of_nat n) with (lo + Z.of_nat (S n)) by lia. reflexivity.
Qed.

(** reversal of a sum over [0..n] *)
Lemma sumf_zrange_aux_shift (f : Z -> Z) lo n :
  sumf f (zrange_aux (lo + 1) n) = sumf (fun x => f (x + 1)) (zrange_aux lo n).
Proof.
  revert lo; induction n as [|n IH]; intros lo; [reflexivity|].
  cbn [zrange_aux]. rewrite !sumf_cons, IH. reflexivity.
Qed.

Lemma sumf_zrange_rev_nat (f : Z -> Z) n :
  sumf f (zrange_aux 0 n) = sumf (fun s => f (Z.of_nat n - 1 - s)) (zrange_aux 0 n).
Proof.
  induction n as [|n IH]; [reflexivity|].
  rewrite zrange_aux_snoc at 1. rewrite sumf_app, sumf_cons. cbn [sumf fold_right].
  cbn [zrange_aux]. rewrite sumf_cons. rewrite (sumf_zrange_aux_shift _ 0 n).
  rewrite IH. replace (Z.of_nat (S n) - 1 - 0) with (0 + Z.of_nat n) by lia.
  assert (E : sumf (fun s => f (Z.of_nat n - 1 - s)) (zrange_aux 0 n) =
              sumf (fun x => f (Z.of_nat (S n) - 1 - (x + 1))) (zrange_aux 0 n)).
  { apply sumf_ext. intros x. f_equal. lia. }
  rewrite E. lia.
Qed.

Lemma sumf_zrange_rev (f : Z -> Z) n : 0 <= n ->
  sumf f (zrange 0 n) = sumf (fun s => f (n - s)) (zrange 0 n).
Proof.
  intros Hn. unfold zrange. rewrite sumf_zrange_rev_nat. apply sumf_ext. intros s. f_equal.
  rewrite Z2Nat.id; lia.
Qed.

(** a sum over a range may be restricted to where the summand is non-zero *)
Lemma sumf_guard (f : Z -> Z) (P : Z -> bool) l :
  (forall x, In x l -> P x = false -> f x = 0) ->
  sumf f l = sumf f (filter P l).
Proof.
  induction l as [|a l IH]; intros H; [reflexivity|]. cbn [filter].
  assert (IH' : sumf f l = sumf f (filter P l)) by (apply IH; intros; apply H; [now right | assumption]).
  destruct (P a) eqn:E; rewrite !sumf_cons.
  - now rewrite IH'.
  - rewrite (H a (or_introl eq_refl) E), IH'. lia.
Qed.

Lemma filter_zrange_aux lo n a b :
  filter (fun x => (a <=? x) && (x <=? b)) (zrange_aux lo n)
  = zrange (Z.max lo a) (Z.min (lo + Z.of_nat n - 1) b).
Proof.
  revert lo; induction n as [|n IH]; intros lo.
  - cbn [zrange_aux filter]. unfold zrange. replace (Z.to_nat _) with O by lia. reflexivity.
  - cbn [zrange_aux filter]. rewrite IH.
    destruct (a <=? lo) eqn:E1; [apply Z.leb_le in E1 | apply Z.leb_gt in E1];
    (destruct (lo <=? b) eqn:E2; [apply Z.leb_le in E2 | apply Z.leb_gt in E2]); cbn [andb].
    + unfold zrange.
      replace (Z.to_nat (Z.min (lo + Z.of_nat (S n) - 1) b - Z.max lo a + 1))
        with (S (Z.to_nat (Z.min (lo + 1 + Z.of_nat n - 1) b - Z.max (lo + 1) a + 1))) by lia.
      cbn [zrange_aux]. f_equal; [lia|]. f_equal. lia.
    + unfold zrange. replace (Z.to_nat (Z.min (lo + 1 + Z.of_nat n - 1) b - Z.max (lo + 1) a + 1)) with O by lia.
      replace (Z.to_nat (Z.min (lo + Z.of_nat (S n) - 1) b - Z.max lo a + 1)) with O by lia. reflexivity.
    + f_equal; lia.
    + f_equal; lia.
Qed.

Lemma filter_zrange lo hi a b :
  filter (fun x => (a <=? x) && (x <=? b)) (zrange lo hi) = zrange (Z.max lo a) (Z.min hi b).
Proof.
  unfold zrange at 1. rewrite filter_zrange_aux.
  destruct (Z.le_gt_cases lo hi) as [H|H].
  - f_equal. lia.
  - unfold zrange. replace (Z.to_nat _) with O by lia. symmetry. replace (Z.to_nat _) with O by lia. reflexivity.
Qed.

(** sum over [lo..hi] = sum over [a..b] when the summand vanishes outside [a..b] and [a..b] is inside *)
Lemma sumf_zrange_restrict (f : Z -> Z) lo hi a b :
  lo <= a -> b <= hi ->
  (forall x, lo <= x <= hi -> ~ (a <= x <= b) -> f x = 0) ->
  sumf f (zrange lo hi) = sumf f (zrange a b).
Proof.
  intros Ha Hb H.
  rewrite (sumf_guard f (fun x => (a <=? x) && (x <=? b))).
  - rewrite filter_zrange. f_equal. f_equal; lia.
  - intros x Hx HP. apply H; [now apply zrange_in|].
    intros [H1 H2]. apply Z.leb_le in H1, H2. rewrite H1, H2 in HP. discriminate.
Qed.

(** ** binomials: only what the symmetry and recurrence proofs need *)
Fixpoint zfact (n : nat) : Z := match n with O => 1 | S n' => Z.of_nat n * zfact n' end.

Lemma zfact_pos n : 0 < zfact n.
Proof. induction n as [|n IH]; cbn [zfact]; [lia|]. nia. Qed.

Lemma binom_gt n : forall k, (n < k)%nat -> binom n k = 0.
Proof.
  induction n as [|n IH]; intros k Hk; destruct k as [|k]; try lia; cbn [binom]; [reflexivity|].
  rewrite !IH by lia. reflexivity.
Qed.

Lemma binom_nn n : binom n n = 1.
Proof. induction n as [|n IH]; cbn [binom]; [reflexivity|]. rewrite IH, binom_gt by lia. lia. Qed.

Lemma binom_fact n : forall k, (k <= n)%nat -> binom n k * zfact k * zfact (n - k) = zfact n.
Proof.
  induction n as [|n IH]; intros k Hk.
  - assert (k = O) by lia. subst. reflexivity.
  - destruct k as [|k].
    + cbn [binom Nat.sub]. cbn [zfact]. lia.
    + cbn [binom]. destruct (Nat.eq_dec k n) as [->|Hne].
      * rewrite binom_nn, binom_gt by lia. rewrite Nat.sub_diag. cbn [zfact]. lia.
      * pose proof (IH k ltac:(lia)) as H1. pose proof (IH (S k) ltac:(lia)) as H2.
        replace (S n - S k)%nat with (n - k)%nat by lia.
        replace (n - k)%nat with (S (n - S k)) in * by lia.
        change (zfact (S n)) with (Z.of_nat (S n) * zfact n).
        change (zfact (S k)) with (Z.of_nat (S k) * zfact k) in *.
        change (zfact (S (n - S k))) with (Z.of_nat (S (n - S k)) * zfact (n - S k)) in *.
        replace (Z.of_nat (S n)) with (Z.of_nat (S k) + Z.of_nat (S (n - S k))) by lia.
        nia.
Qed.

Lemma binom_nonneg n : forall k, 0 <= binom n k.
Proof. induction n as [|n IH]; intros [|k]; cbn [binom]; try lia. pose proof (IH k); pose proof (IH (S k)); lia. Qed.

Lemma binom_sym n k : (k <= n)%nat -> binom n k = binom n (n - k).
Proof.
  intros Hk. pose proof (binom_fact n k Hk) as H1. pose proof (binom_fact n (n - k) ltac:(lia)) as H2.
  replace (n - (n - k))%nat with k in H2 by lia.
  pose proof (zfact_pos k). pose proof (zfact_pos (n - k)).
  assert (E : binom n k * (zfact k * zfact (n - k)) = binom n (n - k) * (zfact k * zfact (n - k))) by lia.
  apply Z.mul_reg_r in E; [exact E | nia].
Qed.

(** absorption: (k+1) C(n+1,k+1) = (n+1) C(n,k) *)
Lemma binom_absorb n k : Z.of_nat (S k) * binom (S n) (S k) = Z.of_nat (S n) * binom n k.
Proof.
  destruct (le_lt_dec k n) as [Hk|Hk].
  - pose proof (binom_fact (S n) (S k) ltac:(lia)) as H1. pose proof (binom_fact n k Hk) as H2.
    replace (S n - S k)%nat with (n - k)%nat in H1 by lia.
    change (zfact (S n)) with (Z.of_nat (S n) * zfact n) in H1.
    change (zfact (S k)) with (Z.of_nat (S k) * zfact k) in H1.
    pose proof (zfact_pos k). pose proof (zfact_pos (n - k)).
    assert (E : (Z.of_nat (S k) * binom (S n) (S k)) * (zfact k * zfact (n - k))
                = (Z.of_nat (S n) * binom n k) * (zfact k * zfact (n - k))) by nia.
    apply Z.mul_reg_r in E; [exact E | nia].
  - rewrite !binom_gt by lia. lia.
Qed.

Lemma choose_loop_binom b : forall fuel i acc,
  acc = binom (b + i - 1) (i - 1) -> (1 <= i)%nat ->
  choose_loop (Z.of_nat b) (Z.of_nat i) fuel acc = binom (b + i - 1 + fuel) (i - 1 + fuel).
Proof.
  induction fuel as [|fuel IH]; intros i acc Hacc Hi; cbn [choose_loop].
  - rewrite !Nat.add_0_r. exact Hacc.
  - replace (Z.of_nat i + 1) with (Z.of_nat (S i)) by lia. rewrite IH; [f_equal; lia| |lia].
    replace (b + S i - 1)%nat with (S (b + i - 1)) by lia. replace (S i - 1)%nat with (S (i - 1)) by lia.
    pose proof (binom_absorb (b + i - 1) (i - 1)) as Ha.
    replace (S (i - 1)) with i in * by lia.
    subst acc. replace (Z.of_nat b + Z.of_nat i) with (Z.of_nat (S (b + i - 1))) by lia.
    rewrite Z.mul_comm, <- Ha, Z.mul_comm. apply Z.div_mul. lia.
Qed.

Theorem choose_binom n k : 0 <= k <= n -> choose n k = binom (Z.to_nat n) (Z.to_nat k).
Proof.
  intros H. unfold choose.
  destruct (k <? 0) eqn:E1; [apply Z.ltb_lt in E1; lia|].
  destruct (n <? k) eqn:E2; [apply Z.ltb_lt in E2; lia|]. cbn [orb].
  replace (n - k) with (Z.of_nat (Z.to_nat (n - k))) by lia.
  change 1 with (Z.of_nat 1) at 1.
  rewrite (choose_loop_binom (Z.to_nat (n - k)) (Z.to_nat k) 1 1); [f_equal; lia | | lia].
  rewrite Nat.add_sub, Nat.sub_diag. destruct (Z.to_nat (n - k)); reflexivity.
Qed.

Lemma choose_out n k : k < 0 \/ n < k -> choose n k = 0.
Proof.
  intros H. unfold choose.
  destruct (k <? 0) eqn:E1; [reflexivity|]. destruct (n <? k) eqn:E2; [reflexivity|].
  apply Z.ltb_ge in E1, E2. lia.
Qed.

Lemma choose_nonneg n k : 0 <= choose n k.
Proof.
  destruct (Z_lt_dec k 0); [rewrite choose_out; lia|]. destruct (Z_lt_dec n k); [rewrite choose_out; lia|].
  rewrite choose_binom by lia. apply binom_nonneg.
Qed.

Lemma choose_sym n k : 0 <= k <= n -> choose n k = choose n (n - k).
Proof.
  intros H. rewrite !choose_binom by lia. rewrite binom_sym by lia. f_equal. lia.
Qed.

(** ** count vectors *)
Lemma vecs_neg t n : n < 0 -> vecs t n = [].
Proof.
  destruct t as [|tk t]; intros H; cbn [vecs].
  - destruct (n =? 0) eqn:E; [apply Z.eqb_eq in E; lia | reflexivity].
  - unfold zrange. replace (Z.to_nat _) with O by lia. reflexivity.
Qed.

(** membership: shape of a count vector *)
Lemma vecs_in t : forall n r, In r (vecs t n) ->
  length r = length t /\ zsum r = n /\ Forall (fun tr => 0 <= snd tr <= fst tr) (combine t r).
Proof.
  induction t as [|tk t IH]; intros n r Hr; cbn [vecs] in Hr.
  - destruct (n =? 0) eqn:E; [|contradiction]. apply Z.eqb_eq in E. destruct Hr as [<-|[]]. cbn. repeat split; [lia | constructor].
  - apply in_flat_map in Hr. destruct Hr as (rk & Hrk & Hr). apply in_map_iff in Hr.
    destruct Hr as (r' & <- & Hr'). apply zrange_in in Hrk.
    destruct (IH _ _ Hr') as (Hl & Hs & Hf). cbn [length zsum fold_right combine]. fold (zsum r').
    repeat split; [lia | lia |]. constructor; [cbn; lia | exact Hf].
Qed.

(** full-range unfolding of a sum over count vectors *)
Lemma sumf_vecs_cons (F : list Z -> Z) tk t n : 0 <= tk ->
  sumf F (vecs (tk :: t) n) = sumf (fun r => sumf (fun r' => F (r :: r')) (vecs t (n - r))) (zrange 0 tk).
Proof.
  intros Htk. cbn [vecs]. rewrite sumf_flat_map.
  rewrite (sumf_zrange_restrict (fun r => sumf (fun r' => F (r :: r')) (vecs t (n - r))) 0 tk 0 (Z.min tk n)); [| lia | lia |].
  - apply sumf_ext. intros r. now rewrite sumf_map.
  - intros x Hx Hn. rewrite vecs_neg by lia. reflexivity.
Qed.

Lemma vecs_big t : Forall (fun x => 0 <= x) t -> forall n, zsum t < n -> vecs t n = [].
Proof.
  induction 1 as [|tk t Htk Ht IH]; intros n Hn; cbn [vecs zsum fold_right] in *.
  - destruct (n =? 0) eqn:E; [apply Z.eqb_eq in E; lia | reflexivity].
  - fold (zsum t) in Hn.
    assert (E : forall l, Forall (fun r => r <= tk) l -> flat_map (fun r => map (cons r) (vecs t (n - r))) l = []).
    { induction 1 as [|r l Hr Hl IHl]; [reflexivity|]. cbn [flat_map]. rewrite IH by lia. exact IHl. }
    apply E. apply Forall_forall. intros r Hr. apply zrange_in in Hr. lia.
Qed.

(** ** complement r |-> t - r *)
Definition compl (t r : list Z) : list Z := map (fun tr => fst tr - snd tr) (combine t r).

Lemma sumf_vecs_compl t : Forall (fun x => 0 <= x) t -> forall (F : list Z -> Z) n,
  sumf F (vecs t (zsum t - n)) = sumf (fun r => F (compl t r)) (vecs t n).
Proof.
  induction 1 as [|tk t Htk Ht IH]; intros F n.
  - cbn [vecs zsum fold_right]. replace (0 - n =? 0) with (n =? 0) by (destruct (Z.eqb_spec n 0), (Z.eqb_spec (0 - n) 0); lia).
    destruct (n =? 0); reflexivity.
  - rewrite !sumf_vecs_cons by assumption. cbn [zsum fold_right]. fold (zsum t).
    rewrite sumf_zrange_rev by assumption.
    apply sumf_ext. intros s.
    replace (tk + zsum t - n - (tk - s)) with (zsum t - (n - s)) by lia.
    rewrite IH. apply sumf_ext. intros r'. unfold compl. cbn [combine map fst snd]. reflexivity.
Qed.

(** algebra of the statistic under complement *)
Definition sumv (tr : list (Z * Z)) : Z := fold_right (fun p s => fst p - snd p + s) 0 tr.
Definition cpl (tr : list (Z * Z)) : list (Z * Z) := map (fun p => (fst p, fst p - snd p)) tr.

Lemma twoU_vec_compl tr : forall V V',
  twoU_vec V tr + twoU_vec V' (cpl tr) = 2 * sumr tr * sumv tr + 2 * V * sumr tr + 2 * V' * sumv tr.
Proof.
  induction tr as [|[t r] tr IH]; intros V V'; cbn [twoU_vec cpl map sumr sumv fold_right fst snd]; [lia|].
  fold (cpl tr). fold (sumr tr). fold (sumv tr).
  replace (V' + (t - (t - r))) with (V' + r) by lia.
  pose proof (IH (V + (t - r)) (V' + r)) as H. nia.
Qed.

Lemma cpl_combine t r : length r = length t -> cpl (combine t r) = combine t (compl t r).
Proof.
  revert r; induction t as [|tk t IH]; intros [|rk r] Hl; try discriminate; [reflexivity|].
  cbn [combine cpl map compl fst snd]. f_equal. apply IH. cbn in Hl. lia.
Qed.

Lemma sumr_combine t r : length r = length t -> sumr (combine t r) = zsum r.
Proof.
  revert r; induction t as [|tk t IH]; intros [|rk r] Hl; try discriminate; [reflexivity|].
  cbn [combine sumr fold_right snd zsum]. fold (sumr (combine t r)). fold (zsum r). rewrite IH; [reflexivity|]. cbn in Hl; lia.
Qed.
Lemma sumv_combine t r : length r = length t -> sumv (combine t r) = zsum t - zsum r.
Proof.
  revert r; induction t as [|tk t IH]; intros [|rk r] Hl; try discriminate; [reflexivity|].
  cbn [combine sumv fold_right fst snd zsum]. fold (sumv (combine t r)). fold (zsum r). fold (zsum t).
  rewrite IH; [lia|]. cbn in Hl; lia.
Qed.

Lemma twoU_of_compl t r n : In r (vecs t n) ->
  twoU_of t (compl t r) = 2 * (n * (zsum t - n)) - twoU_of t r.
Proof.
  intros Hr. destruct (vecs_in _ _ _ Hr) as (Hl & Hs & _). unfold twoU_of.
  pose proof (twoU_vec_compl (combine t r) 0 0) as H.
  rewrite cpl_combine, sumr_combine, sumv_combine in H by assumption. rewrite Hs in H. lia.
Qed.

Lemma weight_compl t r n : In r (vecs t n) -> weight t (compl t r) = weight t r.
Proof.
  intros Hr. destruct (vecs_in _ _ _ Hr) as (Hl & _ & Hf). unfold weight, compl.
  clear Hr. revert r Hl Hf. induction t as [|tk t IH]; intros [|rk r] Hl Hf; try discriminate; [reflexivity|].
  cbn [combine map fold_right fst snd] in *. inversion Hf as [|? ? Hhd Htl]; subst. cbn [fst snd] in Hhd.
  rewrite IH; [|cbn in Hl; lia | exact Htl]. f_equal. symmetry. apply choose_sym. exact Hhd.
Qed.

Lemma weight_nonneg t r : 0 <= weight t r.
Proof.
  unfold weight. generalize (combine t r) as l. induction l as [|p l IH]; cbn [map fold_right]; [lia|].
  pose proof (choose_nonneg (fst p) (snd p)). nia.
Qed.

Lemma count_if_nonneg P t n : 0 <= count_if P t n.
Proof. unfold count_if. apply sumf_nonneg. intros r _. destruct (P _); [apply weight_nonneg | lia]. Qed.

(** the count of the second sample's statistic is the mirrored count of the first's *)
Theorem count_if_compl P t n : Forall (fun x => 0 <= x) t ->
  count_if P t (zsum t - n) = count_if (fun w => P (2 * (n * (zsum t - n)) - w)) t n.
Proof.
  intros Ht. unfold count_if. rewrite (sumf_vecs_compl t Ht). apply sumf_ext_in. intros r Hr.
  rewrite (twoU_of_compl t r n Hr), (weight_compl t r n Hr). reflexivity.
Qed.

Corollary count_le_compl t n u : Forall (fun x => 0 <= x) t ->
  count_le t (zsum t - n) u = count_ge t n (2 * (n * (zsum t - n)) - u).
Proof.
  intros Ht. unfold count_le, count_ge. rewrite count_if_compl by assumption.
  unfold count_if. apply sumf_ext. intros r.
  replace (2 * (n * (zsum t - n)) - twoU_of t r <=? u) with (2 * (n * (zsum t - n)) - u <=? twoU_of t r); [reflexivity|].
  destruct (Z.leb_spec (2 * (n * (zsum t - n)) - u) (twoU_of t r)), (Z.leb_spec (2 * (n * (zsum t - n)) - twoU_of t r) u); lia.
Qed.

Corollary count_ge_compl t n u : Forall (fun x => 0 <= x) t ->
  count_ge t (zsum t - n) u = count_le t n (2 * (n * (zsum t - n)) - u).
Proof.
  intros Ht. unfold count_le, count_ge. rewrite count_if_compl by assumption.
  unfold count_if. apply sumf_ext. intros r.
  replace (u <=? 2 * (n * (zsum t - n)) - twoU_of t r) with (twoU_of t r <=? 2 * (n * (zsum t - n)) - u); [reflexivity|].
  destruct (Z.leb_spec u (2 * (n * (zsum t - n)) - twoU_of t r)), (Z.leb_spec (twoU_of t r) (2 * (n * (zsum t - n)) - u)); lia.
Qed.

(** ** two-sided p-value: in [0,1] and invariant under swapping the samples (tie-vector level) *)
Theorem p_two_bounds t n u : 0 <= n <= zsum t -> 0 <= p_two_num t n u <= total t n.
Proof.
  intros Hn. unfold p_two_num, total.
  pose proof (count_if_nonneg (fun w => w <=? u) t n). pose proof (count_if_nonneg (fun w => u <=? w) t n).
  pose proof (choose_nonneg (zsum t) n). unfold count_le, count_ge. lia.
Qed.

Theorem p_two_swap t n u : Forall (fun x => 0 <= x) t -> 0 <= n <= zsum t ->
  p_two_num t (zsum t - n) (2 * (n * (zsum t - n)) - u) = p_two_num t n u
  /\ total t (zsum t - n) = total t n.
Proof.
  intros Ht Hn. unfold p_two_num, total. rewrite count_le_compl, count_ge_compl by assumption.
  replace (2 * (n * (zsum t - n)) - (2 * (n * (zsum t - n)) - u)) with u by lia.
  rewrite <- (choose_sym (zsum t) n) by lia. split; [|reflexivity].
  rewrite (Z.min_comm (count_ge t n u)). reflexivity.
Qed.
