(** C08: key_get_extracted — every field of the Key returned by Project holds the
    value that field's extractor yields on the result. *)
From Perf Require Import Base.Bytes Model.Name Model.Extract Model.Key Model.Projection Model.Sort
  Proofs.Key Proofs.Projection Proofs.Sort Proofs.Reach Proofs.FirstObs.

(** ** what each field is supposed to hold *)

(** the value of file-configuration key [k] ("" when absent or not from a file) *)
Definition cfg_file_val (c : list cfg) (k : bytes) : bytes :=
  match cfg_lookup c k with
  | Some x => if c_file x then c_val x else []
  | None => []
  end.

(** the exclude list the parser's full-name extractor is (or will be) built from *)
Definition ext_of (pp : parser) : list bytes :=
  match pp_fullext pp with Some e => e | None => pp_full pp end.

Definition want (E : list bytes) (r : result) (f : finfo) : bytes :=
  match fi_src f with
  | SKey k => extract k (r_name r) (r_cfg r)
  | SFull => extractor_fullname E (r_name r)
  | SCfg => cfg_file_val (r_cfg r) (fi_name f)
  | SUnit => []
  end.

(** ** structure: items, tree and field tags agree *)
Definition gsubs (top : list tnode) (g : nat) : list nat :=
  match nth_error top g with Some (TGroup _ s) => s | _ => [] end.

Lemma group_subs_gsubs p g : group_subs p g = gsubs (p_top p) g.
Proof. reflexivity. Qed.

Definition fname (fs : list finfo) (idx : nat) : bytes :=
  match nth_error fs idx with Some f => fi_name f | None => [] end.

Record TInv (p : projection) : Prop := mkTInv {
  t_key : forall k idx, In (PKey k idx) (p_items p) ->
            exists f, nth_error (p_fields p) idx = Some f /\ fi_src f = SKey k;
  t_full : forall idx, In (PFull idx) (p_items p) ->
            exists f, nth_error (p_fields p) idx = Some f /\ fi_src f = SFull;
  t_sub : forall g idx, In idx (gsubs (p_top p) g) ->
            exists f, nth_error (p_fields p) idx = Some f /\ fi_src f = SCfg;
  t_names : forall g, NoDup (map (fname (p_fields p)) (gsubs (p_top p) g));
  t_name : forall idx f k, nth_error (p_fields p) idx = Some f -> fi_src f = SKey k -> fi_name f = k;
  cv_key : forall idx f k, nth_error (p_fields p) idx = Some f -> fi_src f = SKey k ->
            In (PKey k idx) (p_items p);
  cv_full : forall idx f, nth_error (p_fields p) idx = Some f -> fi_src f = SFull ->
            In (PFull idx) (p_items p);
  cv_cfg : forall idx f, nth_error (p_fields p) idx = Some f -> fi_src f = SCfg ->
            exists g o, In idx (gsubs (p_top p) g) /\ In (PConfig g o) (p_items p)
}.

(** *** tree lemmas *)
Lemma gsubs_app_leaf top i g : gsubs (top ++ [TLeaf i]) g = gsubs top g.
Proof.
  unfold gsubs. destruct (Nat.lt_ge_cases g (length top)) as [H|H].
  - now rewrite nth_error_app1.
  - rewrite nth_error_app2 by auto. rewrite (proj2 (nth_error_None top g)) by auto.
    destruct (g - length top) as [|[|m]]; reflexivity.
Qed.

Lemma gsubs_app_group top n g : gsubs (top ++ [TGroup n []]) g = gsubs top g.
Proof.
  unfold gsubs. destruct (Nat.lt_ge_cases g (length top)) as [H|H].
  - now rewrite nth_error_app1.
  - rewrite nth_error_app2 by auto. rewrite (proj2 (nth_error_None top g)) by auto.
    destruct (g - length top) as [|[|m]]; reflexivity.
Qed.

Lemma gsubs_add_sub top : forall g idx g',
  is_group top g ->
  gsubs (top_add_sub top g idx) g' = if Nat.eqb g' g then gsubs top g ++ [idx] else gsubs top g'.
Proof.
  induction top as [|t top IH]; intros g idx g' [n [s H]]; [destruct g; discriminate|].
  destruct g as [|g].
  - cbn in H. injection H as ->. destruct g' as [|g']; reflexivity.
  - rewrite top_add_sub_S. destruct g' as [|g'].
    + reflexivity.
    + unfold gsubs in *. cbn [nth_error]. change (Nat.eqb (S g') (S g)) with (Nat.eqb g' g).
      apply IH. exists n, s. exact H.
Qed.

Lemma fname_app fs ext idx : idx < length fs -> fname (fs ++ ext) idx = fname fs idx.
Proof. intros H. unfold fname. now rewrite nth_error_app1. Qed.

Lemma nth_error_app_old {A} (l ext : list A) i x :
  nth_error l i = Some x -> nth_error (l ++ ext) i = Some x.
Proof. intros H. rewrite nth_error_app1; auto. apply nth_error_Some. congruence. Qed.

Lemma nth_error_snoc_inv {A} (l : list A) y i x :
  nth_error (l ++ [y]) i = Some x -> nth_error l i = Some x \/ (i = length l /\ x = y).
Proof.
  intros H. destruct (Nat.lt_ge_cases i (length l)) as [Hl|Hl].
  - rewrite nth_error_app1 in H by auto. auto.
  - rewrite nth_error_app2 in H by auto. destruct (i - length l) as [|m] eqn:E.
    + cbn in H. injection H as <-. right. split; auto. lia.
    + cbn in H. destruct m; discriminate.
Qed.

Lemma sub_lt p g idx : TInv p -> In idx (gsubs (p_top p) g) -> idx < length (p_fields p).
Proof. intros T H. destruct (t_sub p T g idx H) as [f [Hf _]]. apply nth_error_Some. congruence. Qed.

(** *** new top-level field with its item (or the .unit field without one) *)
Lemma TInv_add_top p n o src (it : option pitem) :
  TInv p ->
  (match src with
   | SKey k => n = k /\ it = Some (PKey k (nfields p))
   | SFull => it = Some (PFull (nfields p))
   | SUnit => it = None
   | SCfg => False
   end) ->
  TInv (let p1 := fst (add_top_field p n o src) in
        match it with Some i => add_item p1 i | None => p1 end).
Proof.
  intros T Hsrc. cbv zeta.
  set (p1 := fst (add_top_field p n o src)).
  assert (Hitems : forall x, In x (p_items (match it with Some i => add_item p1 i | None => p1 end)) ->
            In x (p_items p) \/ it = Some x).
  { intros x. destruct it as [i|]; cbn; [|auto]. intros H. apply in_app_or in H as [H|[H|[]]]; auto.
    right. congruence. }
  assert (Htop : p_top (match it with Some i => add_item p1 i | None => p1 end)
                 = p_top p ++ [TLeaf (nfields p)]) by (destruct it; reflexivity).
  assert (Hfs : p_fields (match it with Some i => add_item p1 i | None => p1 end)
                = p_fields p ++ [mkF n o [] src]) by (destruct it; reflexivity).
  constructor; rewrite ?Htop, ?Hfs.
  - intros k idx Hin. apply Hitems in Hin as [Hin|Hin].
    + destruct (t_key p T k idx Hin) as [f [Hf Hs]]. exists f. split; auto using nth_error_app_old.
    + subst it. destruct src as [k'| | |]; try (destruct Hsrc; discriminate); try discriminate.
      destruct Hsrc as [-> Hi]. injection Hi as E1 E2. subst k' idx.
      exists (mkF k o [] (SKey k)). split; auto.
      unfold nfields. rewrite nth_error_app2 by lia. now rewrite Nat.sub_diag.
  - intros idx Hin. apply Hitems in Hin as [Hin|Hin].
    + destruct (t_full p T idx Hin) as [f [Hf Hs]]. exists f. split; auto using nth_error_app_old.
    + subst it. destruct src as [k'| | |]; try (destruct Hsrc; discriminate); try discriminate.
      injection Hsrc as E1. subst idx. exists (mkF n o [] SFull). split; auto.
      unfold nfields. rewrite nth_error_app2 by lia. now rewrite Nat.sub_diag.
  - intros g idx. rewrite gsubs_app_leaf. intros Hin.
    destruct (t_sub p T g idx Hin) as [f [Hf Hs]]. exists f. split; auto using nth_error_app_old.
  - intros g. rewrite gsubs_app_leaf.
    rewrite (map_ext_in _ (fname (p_fields p))); [apply (t_names p T)|].
    intros idx Hin. apply fname_app. eapply sub_lt; eauto.
  - intros idx f k Hn Hs. apply nth_error_snoc_inv in Hn as [Hn|[_ ->]].
    + eapply (t_name p T); eauto.
    + cbn in Hs. subst src. destruct Hsrc as [-> _]. reflexivity.
  - intros idx f k Hn Hs. apply nth_error_snoc_inv in Hn as [Hn|[-> ->]].
    + pose proof (cv_key p T idx f k Hn Hs) as Hin. destruct it; cbn; auto. apply in_or_app. auto.
    + cbn in Hs. subst src. destruct Hsrc as [-> ->]. cbn. apply in_or_app. right. now left.
  - intros idx f Hn Hs. apply nth_error_snoc_inv in Hn as [Hn|[-> ->]].
    + pose proof (cv_full p T idx f Hn Hs) as Hin. destruct it; cbn; auto. apply in_or_app. auto.
    + cbn in Hs. subst src. subst it. cbn. apply in_or_app. right. now left.
  - intros idx f Hn Hs. apply nth_error_snoc_inv in Hn as [Hn|[-> ->]].
    + destruct (cv_cfg p T idx f Hn Hs) as [g [o' [H1 H2]]]. exists g, o'. rewrite gsubs_app_leaf.
      split; auto. destruct it; cbn; auto. apply in_or_app. auto.
    + cbn in Hs. subst src. contradiction.
Qed.

(** *** new .config group with its item *)
Lemma TInv_add_group p o :
  TInv p -> TInv (add_item (fst (add_group p key_config)) (PConfig (length (p_top p)) o)).
Proof.
  intros T. constructor; cbn [add_item add_group fst p_items p_top p_fields].
  - intros k idx Hin. apply in_app_or in Hin as [Hin|[Hin|[]]]; [|discriminate].
    apply (t_key p T); auto.
  - intros idx Hin. apply in_app_or in Hin as [Hin|[Hin|[]]]; [|discriminate].
    apply (t_full p T); auto.
  - intros g idx. rewrite gsubs_app_group. apply (t_sub p T).
  - intros g. rewrite gsubs_app_group. apply (t_names p T).
  - apply (t_name p T).
  - intros idx f k Hn Hs. apply in_or_app. left. eapply (cv_key p T); eauto.
  - intros idx f Hn Hs. apply in_or_app. left. eapply (cv_full p T); eauto.
  - intros idx f Hn Hs. destruct (cv_cfg p T idx f Hn Hs) as [g [o' [H1 H2]]].
    exists g, o'. rewrite gsubs_app_group. split; auto. apply in_or_app. auto.
Qed.

Lemma TInv_new : TInv new_projection.
Proof.
  constructor; cbn; try tauto.
  - intros g idx. unfold gsubs. destruct g; cbn; tauto.
  - intros g. unfold gsubs. destruct g; cbn; constructor.
  - intros idx f k H. destruct idx; discriminate.
  - intros idx f k H. destruct idx; discriminate.
  - intros idx f H. destruct idx; discriminate.
  - intros idx f H. destruct idx; discriminate.
Qed.

Lemma TInv_mp_proj p s p' : mp_proj p s = Some p' -> TInv p -> TInv p'.
Proof.
  unfold mp_proj. destruct (order_of_spec s) as [o|]; [|discriminate].
  destruct (beq (ps_key s) key_config).
  { destruct (is_fixed o); [discriminate|]. cbn. intros [= <-] T. now apply TInv_add_group. }
  destruct (beq (ps_key s) key_fullname).
  { intros H T. pose proof (TInv_add_top p key_fullname o SFull (Some (PFull (nfields p))) T eq_refl) as H1.
    unfold add_top_field in *. cbn in *. injection H as <-. exact H1. }
  destruct (beq (ps_key s) key_unit); [discriminate|].
  destruct (is_nil (ps_key s)); [discriminate|].
  intros H T.
  pose proof (TInv_add_top p (ps_key s) o (SKey (ps_key s)) (Some (PKey (ps_key s) (nfields p))) T
                (conj eq_refl eq_refl)) as H1.
  unfold add_top_field in *. cbn in *. injection H as <-. exact H1.
Qed.

Lemma TInv_make_all fs : forall pp p pp' p',
  make_all pp p fs = (pp', Some p') -> TInv p -> TInv p'.
Proof.
  induction fs as [|s fs IH]; intros pp p pp' p'; cbn [make_all].
  - intros [= _ <-]. auto.
  - unfold make_projection. destruct (mp_proj p s) as [p1|] eqn:E; [|discriminate].
    intros H HF. eapply IH; eauto. eapply TInv_mp_proj; eauto.
Qed.

Lemma TInv_same p p' :
  p_top p' = p_top p -> p_items p' = p_items p -> p_fields p' = p_fields p -> TInv p -> TInv p'.
Proof.
  intros Ht Hi Hf T. constructor; rewrite ?Ht, ?Hi, ?Hf; apply T.
Qed.

Lemma TInv_parse pp fs pp' p : parse pp fs = (pp', Some p) -> TInv p.
Proof. intros H. eapply TInv_make_all; [exact H|apply TInv_new]. Qed.

Lemma TInv_parse_with_unit pp fs pp' p : parse_with_unit pp fs = (pp', Some p) -> TInv p.
Proof.
  unfold parse_with_unit. destruct (parse pp fs) as [pp1 [p1|]] eqn:E; [|discriminate].
  pose proof (TInv_add_top p1 key_unit OFirst SUnit None (TInv_parse _ _ _ _ E) eq_refl) as H.
  unfold add_top_field in *. cbn in *. intros [= _ <-].
  eapply TInv_same; [| | |exact H]; reflexivity.
Qed.

Lemma TInv_residue_add st k : TInv (snd st) -> TInv (snd (residue_add st k)).
Proof.
  intros H. unfold residue_add, make_projection.
  destruct (mp_proj (snd st) (spec_first k)) as [s1|] eqn:E; cbn; auto.
  eapply TInv_mp_proj; eauto.
Qed.

Lemma TInv_residue pp : TInv (snd (residue pp)).
Proof.
  unfold residue.
  set (st1 := if pp_havecfg pp then (pp, new_projection)
              else residue_add (pp, new_projection) key_config).
  assert (TInv (snd st1)) as H1.
  { unfold st1. destruct (pp_havecfg pp); [apply TInv_new|]. apply TInv_residue_add, TInv_new. }
  destruct (pp_havefull (fst st1)); auto. now apply TInv_residue_add.
Qed.

(** ** populateRow *)
Definition P (p : projection) : Prop := KInv p /\ FInv p /\ TInv p.
Definition row_at (p : projection) (idx : nat) : bytes := nth idx (p_row p) [].

Lemma field_name_fname p idx : field_name p idx = fname (p_fields p) idx.
Proof. reflexivity. Qed.

(** *** a new sub-field of a .config group *)
Lemma TInv_add_sub p g n o :
  TInv p -> is_group (p_top p) g -> In (PConfig g o) (p_items p) ->
  (forall i, In i (gsubs (p_top p) g) -> fname (p_fields p) i <> n) ->
  TInv (fst (add_sub_field p g n o)).
Proof.
  intros T G Hit Hfresh. unfold add_sub_field. cbn [fst].
  set (idx := nfields p).
  assert (Hold : forall g' i, In i (gsubs (p_top p) g') -> i < length (p_fields p)).
  { intros g' i Hi. eapply sub_lt; eauto. }
  constructor; cbn [p_items p_top p_fields].
  - intros k i Hin. destruct (t_key p T k i Hin) as [f [Hf Hs]]. exists f. split; auto using nth_error_app_old.
  - intros i Hin. destruct (t_full p T i Hin) as [f [Hf Hs]]. exists f. split; auto using nth_error_app_old.
  - intros g' i. rewrite gsubs_add_sub by auto. destruct (Nat.eqb g' g).
    + intros Hin. apply in_app_or in Hin as [Hin|[<-|[]]].
      * destruct (t_sub p T g i Hin) as [f [Hf Hs]]. exists f. split; auto using nth_error_app_old.
      * exists (mkF n o [] SCfg). split; auto. unfold idx, nfields.
        rewrite nth_error_app2 by lia. now rewrite Nat.sub_diag.
    + intros Hin. destruct (t_sub p T g' i Hin) as [f [Hf Hs]]. exists f. split; auto using nth_error_app_old.
  - intros g'. rewrite gsubs_add_sub by auto. destruct (Nat.eqb_spec g' g) as [->|Hne].
    + rewrite map_app. cbn [map].
      assert (Hm : map (fname (p_fields p ++ [mkF n o [] SCfg])) (gsubs (p_top p) g)
                   = map (fname (p_fields p)) (gsubs (p_top p) g)).
      { apply map_ext_in. intros i Hi. apply fname_app. eauto. }
      rewrite Hm.
      assert (Hn : fname (p_fields p ++ [mkF n o [] SCfg]) idx = n).
      { unfold fname, idx, nfields. rewrite nth_error_app2 by lia. now rewrite Nat.sub_diag. }
      rewrite Hn. pose proof (t_names p T g) as Hnd.
      clear -Hnd Hfresh. induction (gsubs (p_top p) g) as [|x l IH]; cbn.
      * constructor; auto; constructor.
      * inversion Hnd; subst. constructor.
        -- intros Hin. apply in_app_or in Hin as [Hin|[Hin|[]]]; auto.
           apply (Hfresh x); [now left|auto].
        -- apply IH; auto. intros i Hi. apply Hfresh. now right.
    + rewrite (map_ext_in _ (fname (p_fields p))); [apply (t_names p T)|].
      intros i Hi. apply fname_app. eauto.
  - intros i f k Hn Hs. apply nth_error_snoc_inv in Hn as [Hn|[_ ->]]; [|discriminate].
    eapply (t_name p T); eauto.
  - intros i f k Hn Hs. apply nth_error_snoc_inv in Hn as [Hn|[_ ->]]; [|discriminate].
    eapply (cv_key p T); eauto.
  - intros i f Hn Hs. apply nth_error_snoc_inv in Hn as [Hn|[_ ->]]; [|discriminate].
    eapply (cv_full p T); eauto.
  - intros i f Hn Hs. apply nth_error_snoc_inv in Hn as [Hn|[-> ->]].
    + destruct (cv_cfg p T i f Hn Hs) as [g' [o' [H1 H2]]]. exists g', o'. split; auto.
      rewrite gsubs_add_sub by auto. destruct (Nat.eqb_spec g' g) as [->|]; auto. apply in_or_app. auto.
    + exists g, o. split; auto. rewrite gsubs_add_sub, Nat.eqb_refl by auto.
      apply in_or_app. right. now left.
Qed.

Lemma P_set_row p i v : P p -> P (set_row p i v).
Proof.
  intros [K [F T]]. split; [now apply KInv_set_row|]. split; [now apply FInv_set_row|].
  eapply TInv_same; [| | |exact T]; reflexivity.
Qed.

Lemma row_at_set_same p i v : i < length (p_row p) -> row_at (set_row p i v) i = v.
Proof. intros H. unfold row_at. cbn. now apply set_nth_same. Qed.

Lemma row_at_set_other p i j v : i <> j -> row_at (set_row p i v) j = row_at p j.
Proof. intros H. unfold row_at. cbn. now apply set_nth_other. Qed.

(** what one step of the .config closure does *)
Record cstep_facts (g : nat) (c : cfg) (p p' : projection) : Prop := mkCF {
  cf_P : P p';
  cf_items : p_items p' = p_items p;
  cf_mono : forall g' i, In i (gsubs (p_top p) g') -> In i (gsubs (p_top p') g');
  cf_newsub : forall g' i, In i (gsubs (p_top p') g') -> In i (gsubs (p_top p) g') \/ nfields p <= i;
  cf_fields : forall i, i < nfields p -> nth_error (p_fields p') i = nth_error (p_fields p) i;
  cf_grow : nfields p <= nfields p';
  cf_write :
    ((forall i, row_at p' i = row_at p i) /\ nfields p' = nfields p /\
     (c_file c = true -> forall i, In i (gsubs (p_top p') g) -> fname (p_fields p') i <> c_key c))
    \/
    (exists w, c_file c = true /\ w < nfields p' /\ In w (gsubs (p_top p') g) /\
               fname (p_fields p') w = c_key c /\ row_at p' w = c_val c /\
               (forall i, i <> w -> row_at p' i = row_at p i) /\
               (forall i, nfields p <= i -> i < nfields p' -> i = w))
}.

Lemma find_sub_some p g k idx :
  find_sub p g k = Some idx -> In idx (gsubs (p_top p) g) /\ fname (p_fields p) idx = k.
Proof.
  unfold find_sub. intros H. apply find_some in H as [H1 H2]. split; auto. now apply beq_eq in H2.
Qed.

Lemma find_sub_none p g k :
  find_sub p g k = None -> forall i, In i (gsubs (p_top p) g) -> fname (p_fields p) i <> k.
Proof.
  unfold find_sub. intros H i Hi He. pose proof (find_none _ _ H i Hi) as Hn. cbn in Hn.
  rewrite field_name_fname, He, beq_refl in Hn. discriminate.
Qed.

Lemma config_step_facts ck g o p c :
  P p -> In (PConfig g o) (p_items p) -> cstep_facts g c p (config_step ck g o p c).
Proof.
  intros HP Hit. destruct HP as [K [F T]].
  assert (G : is_group (p_top p) g) by (destruct F as [_ Fg]; eauto).
  assert (Hrow : length (p_row p) = nfields p) by apply K.
  assert (Hnothing : (c_file c = true -> forall i, In i (gsubs (p_top p) g) -> fname (p_fields p) i <> c_key c) ->
                     cstep_facts g c p p).
  { intros Hn. constructor; auto; try (split; [exact K|split; [exact F|exact T]]). }
  unfold config_step. destruct (c_file c) eqn:Ef; cbn [negb].
  2:{ apply Hnothing. discriminate. }
  destruct (find_sub p g (c_key c)) as [idx|] eqn:Efs.
  - destruct (find_sub_some _ _ _ _ Efs) as [Hin Hnm].
    assert (idx < nfields p) as Hlt by (unfold nfields; eapply sub_lt; eauto).
    constructor; auto.
    + apply P_set_row. split; [exact K|split; [exact F|exact T]].
    + right. exists idx. repeat split; auto.
      * apply row_at_set_same. lia.
      * intros i Hi. apply row_at_set_other. auto.
      * intros i H1 H2. cbn in H2. unfold nfields in *. cbn in H2. lia.
  - destruct (mem (c_key c) ck).
    { apply Hnothing. intros _. now apply find_sub_none. }
    pose proof (find_sub_none _ _ _ Efs) as Hfresh.
    pose proof (TInv_add_sub p g (c_key c) o T G Hit Hfresh) as T1.
    pose proof (kstep_add_sub p g (c_key c) o) as K1.
    pose proof (FInv_add_sub p g (c_key c) o G F) as F1.
    unfold add_sub_field in *. cbn [fst] in *.
    set (p1 := mkP (top_add_sub (p_top p) g (nfields p)) (p_fields p ++ [mkF (c_key c) o [] SCfg])
                   (p_unit p) (p_items p) (p_row p ++ [[]]) (p_keys p)) in *.
    assert (Hn1 : nfields p1 = S (nfields p)) by (unfold nfields; cbn; rewrite app_length; cbn; lia).
    constructor.
    + apply P_set_row. split; [eapply kstep_KInv; eauto|split; auto].
    + reflexivity.
    + intros g' i Hi. cbn. rewrite gsubs_add_sub by auto. destruct (Nat.eqb_spec g' g) as [->|]; auto.
      apply in_or_app. auto.
    + intros g' i. cbn. rewrite gsubs_add_sub by auto. destruct (Nat.eqb_spec g' g) as [->|]; auto.
      intros Hi. apply in_app_or in Hi as [Hi|[<-|[]]]; auto.
    + intros i Hi. cbn. unfold nfields in Hi. now rewrite nth_error_app1.
    + cbn. unfold nfields in *. cbn in *. lia.
    + right. exists (nfields p). split; [exact Ef|].
      split; [unfold nfields in *; cbn in *; lia|].
      split; [cbn; rewrite gsubs_add_sub, Nat.eqb_refl by auto; apply in_or_app; right; now left|].
      split; [cbn; unfold fname, nfields; rewrite nth_error_app2 by lia; now rewrite Nat.sub_diag|].
      split; [apply row_at_set_same; cbn; rewrite app_length; cbn; lia|].
      split.
      * intros i Hi. rewrite row_at_set_other by auto. unfold row_at. cbn.
        destruct (Nat.lt_ge_cases i (length (p_row p))) as [Hl|Hl].
        -- now rewrite app_nth1.
        -- rewrite (nth_overflow (p_row p)) by auto. rewrite app_nth2 by auto.
           destruct (i - length (p_row p)) as [|[|m]]; reflexivity.
      * intros i H1 H2. cbn in H2. unfold nfields in *. cbn in *. rewrite app_length in H2. cbn in H2. lia.
Qed.

(** the whole loop over r.Config of one .config closure *)
Record cfold_facts (g : nat) (cs : list cfg) (p0 pF : projection) : Prop := mkFF {
  ff_P : P pF;
  ff_items : p_items pF = p_items p0;
  ff_mono : forall g' i, In i (gsubs (p_top p0) g') -> In i (gsubs (p_top pF) g');
  ff_newsub : forall g' i, In i (gsubs (p_top pF) g') -> In i (gsubs (p_top p0) g') \/ nfields p0 <= i;
  ff_fields : forall i, i < nfields p0 -> nth_error (p_fields pF) i = nth_error (p_fields p0) i;
  ff_grow : nfields p0 <= nfields pF;
  ff_a : forall i, i < nfields pF ->
           (i < nfields p0 /\ row_at pF i = row_at p0 i) \/
           (exists c, In c cs /\ c_file c = true /\ In i (gsubs (p_top pF) g) /\
                      fname (p_fields pF) i = c_key c /\ row_at pF i = c_val c);
  ff_b : forall c, In c cs -> c_file c = true ->
           forall i, In i (gsubs (p_top pF) g) -> fname (p_fields pF) i = c_key c ->
             row_at pF i = c_val c
}.

Lemma fname_stable fs fs' i :
  nth_error fs' i = nth_error fs i -> fname fs' i = fname fs i.
Proof. unfold fname. now intros ->. Qed.

Lemma sub_lt_n p g i : P p -> In i (gsubs (p_top p) g) -> i < nfields p.
Proof. intros [_ [_ T]] H. unfold nfields. eapply sub_lt; eauto. Qed.

Lemma config_fold_facts ck g o cs : forall p0,
  NoDup (map c_key cs) -> P p0 -> In (PConfig g o) (p_items p0) ->
  cfold_facts g cs p0 (fold_left (config_step ck g o) cs p0).
Proof.
  induction cs as [|c cs IH]; intros p0 Hnd HP Hit; cbn [fold_left].
  - constructor; auto; try tauto. intros c [].
  - inversion Hnd as [|? ? Hc Hnd']; subst.
    pose proof (config_step_facts ck g o p0 c HP Hit) as S.
    set (p1 := config_step ck g o p0 c) in *.
    destruct S as [S_P S_items S_mono S_newsub S_fields S_grow S_write].
    assert (Hit1 : In (PConfig g o) (p_items p1)) by now rewrite S_items.
    specialize (IH p1 Hnd' S_P Hit1).
    set (pF := fold_left (config_step ck g o) cs p1) in *.
    destruct IH as [I_P I_items I_mono I_newsub I_fields I_grow I_a I_b].
    assert (Hfn : forall i, i < nfields p1 -> fname (p_fields pF) i = fname (p_fields p1) i).
    { intros i Hi. apply fname_stable. auto. }
    constructor; auto.
    + congruence.
    + intros g' i Hi. destruct (I_newsub g' i Hi) as [H|H].
      * destruct (S_newsub g' i H); auto.
      * right. lia.
    + intros i Hi. rewrite I_fields by lia. auto.
    + lia.
    + (* a *)
      intros i Hi. destruct (I_a i Hi) as [[Hi1 Hr]|[c' [Hc' R]]].
      * destruct S_write as [[Wr [Wn _]]|[w [Wf [Wlt [Win [Wnm [Wv [Wo Wnew]]]]]]]].
        -- left. split; [lia|]. now rewrite Hr, Wr.
        -- destruct (Nat.eq_dec i w) as [->|Hne].
           ++ right. exists c. split; [now left|]. split; auto. split; [now apply I_mono|].
              split; [now rewrite Hfn|]. congruence.
           ++ left. split.
              ** destruct (Nat.lt_ge_cases i (nfields p0)) as [|Hge]; auto.
                 exfalso. apply Hne. apply Wnew; auto.
              ** rewrite Hr. auto.
      * right. exists c'. split; [now right|auto].
    + (* b *)
      intros c0 [<-|Hc0] Hf0 i Hi Hnm.
      * assert (i < nfields pF) as HiF by (eapply sub_lt_n; eauto).
        destruct (I_a i HiF) as [[Hi1 Hr]|[c' [Hc' [_ [_ [Hnm' _]]]]]].
        -- assert (In i (gsubs (p_top p1) g)) as Hi1g.
           { destruct (I_newsub g i Hi); auto. lia. }
           rewrite Hfn in Hnm by auto.
           destruct S_write as [[_ [_ Wno]]|[w [Wf [Wlt [Win [Wnm [Wv [Wo Wnew]]]]]]]].
           ++ exfalso. eapply Wno; eauto.
           ++ assert (i = w) as ->.
              { destruct S_P as [_ [_ T1]]. pose proof (t_names p1 T1 g) as Hnn.
                clear -Hnn Hi1g Win Hnm Wnm.
                assert (fname (p_fields p1) i = fname (p_fields p1) w) as He by congruence.
                revert Hi1g Win He. generalize (gsubs (p_top p1) g) Hnn.
                induction l as [|x l IHl]; intros Hnd Hi Hw He; [destruct Hi|].
                cbn in Hnd. inversion Hnd as [|? ? H1 H2]; subst.
                destruct Hi as [->|Hi], Hw as [->|Hw]; auto.
                - exfalso. apply H1. rewrite He. now apply in_map.
                - exfalso. apply H1. rewrite <- He. now apply in_map. }
              congruence.
        -- exfalso. apply Hc. rewrite <- Hnm, Hnm'. now apply in_map.
      * eapply I_b; eauto.
Qed.

(** *** configuration lookups *)
Lemma cfg_lookup_some l k x : cfg_lookup l k = Some x -> In x l /\ c_key x = k.
Proof.
  induction l as [|y l IH]; cbn; [discriminate|].
  destruct (beq_spec (c_key y) k) as [E|N].
  - intros [= <-]. auto.
  - intros H. destruct (IH H). auto.
Qed.

Lemma cfg_lookup_in l c : NoDup (map c_key l) -> In c l -> cfg_lookup l (c_key c) = Some c.
Proof.
  induction l as [|y l IH]; cbn; [tauto|]. intros Hnd [->|Hin].
  - now rewrite beq_refl.
  - inversion Hnd as [|? ? Hy Hnd']; subst.
    destruct (beq_spec (c_key y) (c_key c)) as [E|N]; auto.
    exfalso. apply Hy. rewrite E. now apply in_map.
Qed.

Section Populate.
Variable r : result.
Hypothesis cfg_nodup : NoDup (map c_key (r_cfg r)).
Variable E : list bytes.

(** every write goes to a field and stores that field's value; fields that come
    into existence are written at once *)
Definition wdp (p p' : projection) : Prop :=
  forall i f, nth_error (p_fields p') i = Some f ->
    (i < nfields p /\ row_at p' i = row_at p i) \/ row_at p' i = want E r f.

Definition A (p : projection) : Prop :=
  forall i f, nth_error (p_fields p) i = Some f -> row_at p i = [] \/ row_at p i = want E r f.

Definition owns (p : projection) (it : pitem) (i : nat) (f : finfo) : Prop :=
  match it with
  | PKey k j => i = j /\ fi_src f = SKey k
  | PFull j => i = j /\ fi_src f = SFull
  | PConfig g _ => In i (gsubs (p_top p) g)
  end.

Definition done (it : pitem) (p : projection) : Prop :=
  forall i f, nth_error (p_fields p) i = Some f -> owns p it i f -> row_at p i = want E r f.

Record istep (it : pitem) (p p' : projection) : Prop := mkIS {
  is_P : P p';
  is_items : p_items p' = p_items p;
  is_fields : forall i, i < nfields p -> nth_error (p_fields p') i = nth_error (p_fields p) i;
  is_newsub : forall g i, In i (gsubs (p_top p') g) -> In i (gsubs (p_top p) g) \/ nfields p <= i;
  is_wd : wdp p p';
  is_done : A p -> done it p'
}.

Lemma nth_lt {X} (l : list X) i x : nth_error l i = Some x -> i < length l.
Proof. intros H. apply nth_error_Some. congruence. Qed.

Lemma istep_set_row it p idx v :
  P p -> idx < nfields p ->
  (forall f, nth_error (p_fields p) idx = Some f -> v = want E r f) ->
  (forall i f, nth_error (p_fields p) i = Some f -> owns p it i f -> i = idx) ->
  (forall p', p_top p' = p_top p -> forall i f, owns p' it i f -> owns p it i f) ->
  istep it p (set_row p idx v).
Proof.
  intros HP Hlt Hv Hown Hownt.
  assert (Hrow : length (p_row p) = nfields p) by apply HP.
  constructor; auto.
  - now apply P_set_row.
  - intros i f Hf. cbn in Hf. destruct (Nat.eq_dec idx i) as [<-|Hne].
    + right. rewrite row_at_set_same by lia. auto.
    + left. split; [unfold nfields; eapply nth_lt; eauto|]. now apply row_at_set_other.
  - intros _ i f Hf Ho. cbn in Hf.
    assert (i = idx) as -> by (eapply Hown; eauto; eapply Hownt; eauto).
    rewrite row_at_set_same by lia. auto.
Qed.

Lemma run_item_istep pp p it :
  P p -> In it (p_items p) -> ext_of pp = E ->
  istep it p (snd (run_item r (pp, p) it)) /\ ext_of (fst (run_item r (pp, p) it)) = E.
Proof.
  intros HP Hit HE. destruct HP as [K [F T]].
  destruct it as [g o|idx|k idx]; cbn [run_item fst snd].
  - (* .config *)
    split; auto.
    pose proof (config_fold_facts (pp_cfg pp) g o (r_cfg r) p cfg_nodup (conj K (conj F T)) Hit) as FF.
    set (pF := fold_left (config_step (pp_cfg pp) g o) (r_cfg r) p) in *.
    destruct FF as [F_P F_items F_mono F_newsub F_fields F_grow F_a F_b].
    assert (TF : TInv pF) by apply F_P.
    assert (Hwant : forall i f c, nth_error (p_fields pF) i = Some f -> In i (gsubs (p_top pF) g) ->
              In c (r_cfg r) -> c_file c = true -> fname (p_fields pF) i = c_key c ->
              want E r f = c_val c).
    { intros i f c Hf Hi Hc Hfile Hnm. destruct (t_sub pF TF g i Hi) as [f' [Hf' Hs]].
      assert (f' = f) by congruence. subst f'. unfold want. rewrite Hs.
      unfold fname in Hnm. rewrite Hf in Hnm. rewrite Hnm. unfold cfg_file_val.
      rewrite (cfg_lookup_in _ _ cfg_nodup Hc), Hfile. reflexivity. }
    constructor; auto.
    + intros i f Hf. destruct (F_a i) as [H|[c [Hc [Hfile [Hi [Hnm Hv]]]]]].
      * unfold nfields. eapply nth_lt; eauto.
      * left. exact H.
      * right. rewrite Hv. symmetry. eapply Hwant; eauto.
    + intros HA i f Hf Hi. cbn in Hi.
      destruct (t_sub pF TF g i Hi) as [f' [Hf' Hs]]. assert (f' = f) by congruence. subst f'.
      assert (Hnm : fname (p_fields pF) i = fi_name f) by (unfold fname; now rewrite Hf).
      destruct (cfg_lookup (r_cfg r) (fi_name f)) as [x|] eqn:El.
      * destruct (cfg_lookup_some _ _ _ El) as [Hx Hk]. destruct (c_file x) eqn:Efx.
        -- rewrite (F_b x Hx Efx i Hi) by congruence. symmetry. eapply Hwant; eauto. congruence.
        -- assert (want E r f = []) as Hw by (unfold want, cfg_file_val; now rewrite Hs, El, Efx).
           rewrite Hw. destruct (F_a i) as [[Hlt Hr]|[c [Hc [Hfile [_ [Hnm' _]]]]]].
           ++ unfold nfields. eapply nth_lt; eauto.
           ++ rewrite Hr. rewrite F_fields in Hf by auto. destruct (HA i f Hf); congruence.
           ++ exfalso. assert (c_key c = fi_name f) as Hck by congruence.
              rewrite <- Hck, (cfg_lookup_in _ _ cfg_nodup Hc) in El. congruence.
      * assert (want E r f = []) as Hw by (unfold want, cfg_file_val; now rewrite Hs, El).
        rewrite Hw. destruct (F_a i) as [[Hlt Hr]|[c [Hc [Hfile [_ [Hnm' _]]]]]].
        -- unfold nfields. eapply nth_lt; eauto.
        -- rewrite Hr. rewrite F_fields in Hf by auto. destruct (HA i f Hf); congruence.
        -- exfalso. assert (c_key c = fi_name f) as Hck by congruence.
           rewrite <- Hck, (cfg_lookup_in _ _ cfg_nodup Hc) in El. congruence.
  - (* .fullname *)
    destruct (t_full p T idx Hit) as [f0 [Hf0 Hs0]].
    assert (Hv : snd (full_extract pp (r_name r)) = extractor_fullname E (r_name r) /\
                 ext_of (fst (full_extract pp (r_name r))) = E).
    { unfold full_extract, ext_of in *. destruct (pp_fullext pp) as [e|] eqn:Ee; cbn; rewrite ?Ee;
        split; congruence. }
    destruct (full_extract pp (r_name r)) as [pp' v]. cbn in Hv. destruct Hv as [-> Hext].
    cbn [fst snd]. split; auto. apply istep_set_row.
    + split; [exact K|split; [exact F|exact T]].
    + unfold nfields. eapply nth_lt; eauto.
    + intros f Hf. assert (f = f0) by congruence. subst. unfold want. now rewrite Hs0.
    + intros i f _ [-> _]. reflexivity.
    + intros p' _ i f H. exact H.
  - (* specific key *)
    destruct (t_key p T k idx Hit) as [f0 [Hf0 Hs0]].
    split; auto. apply istep_set_row.
    + split; [exact K|split; [exact F|exact T]].
    + unfold nfields. eapply nth_lt; eauto.
    + intros f Hf. assert (f = f0) by congruence. subst. unfold want. now rewrite Hs0.
    + intros i f _ [-> _]. reflexivity.
    + intros p' _ i f H. exact H.
Qed.

Lemma A_step p p' :
  (forall i, i < nfields p -> nth_error (p_fields p') i = nth_error (p_fields p) i) ->
  wdp p p' -> A p -> A p'.
Proof.
  intros Hf Hw HA i f Hi. destruct (Hw i f Hi) as [[Hlt Hr]|Hr]; auto.
  rewrite Hr. apply HA. now rewrite <- Hf.
Qed.

Lemma done_step it0 it p p' : istep it p p' -> done it0 p -> done it0 p'.
Proof.
  intros S Hd i f Hi Ho. destruct (is_wd _ _ _ S i f Hi) as [[Hlt Hr]|Hr]; auto.
  rewrite Hr. apply Hd.
  - now rewrite <- (is_fields _ _ _ S).
  - destruct it0 as [g o|j|k j]; cbn in *; auto.
    destruct (is_newsub _ _ _ S g i Ho); auto. lia.
Qed.

Lemma fold_items_spec items : forall dn pp p,
  P p -> (forall it, In it items -> In it (p_items p)) -> ext_of pp = E -> A p ->
  (forall it, In it dn -> done it p) ->
  let st := fold_left (run_item r) items (pp, p) in
  P (snd st) /\ p_items (snd st) = p_items p /\ ext_of (fst st) = E /\ A (snd st) /\
  (forall it, In it (dn ++ items) -> done it (snd st)).
Proof.
  induction items as [|it items IH]; intros dn pp p HP Hsub HE HA Hdn; cbn [fold_left].
  - cbn. rewrite app_nil_r. split; [exact HP|]. auto.
  - destruct (run_item_istep pp p it HP (Hsub it (or_introl eq_refl)) HE) as [S HE1].
    destruct (run_item r (pp, p) it) as [pp1 p1]. cbn [fst snd] in *.
    specialize (IH (dn ++ [it]) pp1 p1 (is_P _ _ _ S)).
    assert (Hsub1 : forall it', In it' items -> In it' (p_items p1)).
    { intros it' Hin. rewrite (is_items _ _ _ S). apply Hsub. now right. }
    assert (HA1 : A p1) by (eapply A_step; [apply (is_fields _ _ _ S)|apply (is_wd _ _ _ S)|auto]).
    assert (Hdn1 : forall it', In it' (dn ++ [it]) -> done it' p1).
    { intros it' Hin. apply in_app_or in Hin as [Hin|[<-|[]]].
      - eapply done_step; eauto.
      - apply (is_done _ _ _ S). auto. }
    specialize (IH Hsub1 HE1 HA1 Hdn1). cbn zeta in IH.
    destruct IH as [I1 [I2 [I3 [I4 I5]]]].
    split; [exact I1|]. split; [rewrite I2; apply (is_items _ _ _ S)|].
    split; [exact I3|]. split; [exact I4|].
    intros it' Hin. apply I5. rewrite <- app_assoc. exact Hin.
Qed.

Lemma nth_map_const {X} (l : list X) i : nth i (map (fun _ => @nil byte) l) [] = [].
Proof. revert i; induction l as [|x l IH]; intros [|i]; cbn; auto. Qed.

Theorem populate_spec pp p :
  P p -> ext_of pp = E ->
  let st := populate pp p r in
  P (snd st) /\ ext_of (fst st) = E /\
  forall i f, nth_error (p_fields (snd st)) i = Some f -> row_at (snd st) i = want E r f.
Proof.
  intros HP HE. unfold populate.
  assert (HPc : P (clear_row p)).
  { destruct HP as [K [F T]]. split; [eapply kstep_KInv; [apply kstep_clear_row|auto]|].
    split; [now apply FInv_clear_row|]. eapply TInv_same; [| | |exact T]; reflexivity. }
  assert (HAc : A (clear_row p)).
  { intros i f _. left. unfold row_at. cbn. apply nth_map_const. }
  pose proof (fold_items_spec (p_items p) [] pp (clear_row p) HPc (fun it H => H) HE HAc
                (fun it (H : In it []) => match H with end)) as H.
  cbn zeta in H. destruct H as [H1 [H2 [H3 [H4 H5]]]].
  set (st := fold_left (run_item r) (p_items p) (pp, clear_row p)) in *.
  split; [exact H1|]. split; [exact H3|].
  intros i f Hf. destruct H1 as [_ [_ T1]].
  assert (Hall : forall it, In it (p_items (snd st)) -> done it (snd st)).
  { intros it Hin. apply H5. cbn. rewrite H2 in Hin. exact Hin. }
  destruct (fi_src f) as [k| | |] eqn:Es.
  - apply (Hall (PKey k i)); [eapply (cv_key _ T1); eauto|auto|cbn; auto].
  - apply (Hall (PFull i)); [eapply (cv_full _ T1); eauto|auto|cbn; auto].
  - destruct (cv_cfg _ T1 i f Hf Es) as [g [o [Hi Hit]]]. apply (Hall (PConfig g o)); auto.
  - destruct (H4 i f Hf) as [Hr|Hr]; auto. rewrite Hr. unfold want. now rewrite Es.
Qed.

End Populate.

(** ** internRow only rewrites order maps: names and tags stay *)
Definition static (f : finfo) : bytes * fsrc := (fi_name f, fi_src f).
Definition static_eq (fs fs' : list finfo) : Prop :=
  forall i, option_map static (nth_error fs' i) = option_map static (nth_error fs i).

Lemma static_eq_fwd fs fs' i f :
  static_eq fs fs' -> nth_error fs i = Some f ->
  exists f', nth_error fs' i = Some f' /\ fi_name f' = fi_name f /\ fi_src f' = fi_src f.
Proof.
  intros H Hf. specialize (H i). rewrite Hf in H. destruct (nth_error fs' i) as [f'|]; [|discriminate].
  cbn in H. unfold static in H. injection H as H1 H2. eauto.
Qed.

Lemma static_eq_bwd fs fs' i f' :
  static_eq fs fs' -> nth_error fs' i = Some f' ->
  exists f, nth_error fs i = Some f /\ fi_name f' = fi_name f /\ fi_src f' = fi_src f.
Proof.
  intros H Hf. specialize (H i). rewrite Hf in H. destruct (nth_error fs i) as [f|]; [|discriminate].
  cbn in H. unfold static in H. injection H as H1 H2. eauto.
Qed.

Lemma static_eq_fname fs fs' i : static_eq fs fs' -> fname fs' i = fname fs i.
Proof.
  intros H. specialize (H i). unfold fname.
  destruct (nth_error fs' i), (nth_error fs i); cbn in H; try discriminate; auto.
  unfold static in H. now injection H.
Qed.

Lemma TInv_static p p' :
  p_top p' = p_top p -> p_items p' = p_items p -> static_eq (p_fields p) (p_fields p') ->
  TInv p -> TInv p'.
Proof.
  intros Ht Hi Hs T. constructor; rewrite ?Ht, ?Hi.
  - intros k idx Hin. destruct (t_key p T k idx Hin) as [f [Hf Hsrc]].
    destruct (static_eq_fwd _ _ _ _ Hs Hf) as [f' [Hf' [_ Hs']]]. exists f'. split; congruence.
  - intros idx Hin. destruct (t_full p T idx Hin) as [f [Hf Hsrc]].
    destruct (static_eq_fwd _ _ _ _ Hs Hf) as [f' [Hf' [_ Hs']]]. exists f'. split; congruence.
  - intros g idx Hin. destruct (t_sub p T g idx Hin) as [f [Hf Hsrc]].
    destruct (static_eq_fwd _ _ _ _ Hs Hf) as [f' [Hf' [_ Hs']]]. exists f'. split; congruence.
  - intros g. rewrite (map_ext _ (fname (p_fields p))); [apply (t_names p T)|].
    intros i. now apply static_eq_fname.
  - intros idx f' k Hf' Hsrc. destruct (static_eq_bwd _ _ _ _ Hs Hf') as [f [Hf [Hn Hs']]].
    rewrite Hn. eapply (t_name p T); eauto. congruence.
  - intros idx f' k Hf' Hsrc. destruct (static_eq_bwd _ _ _ _ Hs Hf') as [f [Hf [Hn Hs']]].
    eapply (cv_key p T); eauto. congruence.
  - intros idx f' Hf' Hsrc. destruct (static_eq_bwd _ _ _ _ Hs Hf') as [f [Hf [Hn Hs']]].
    eapply (cv_full p T); eauto. congruence.
  - intros idx f' Hf' Hsrc. destruct (static_eq_bwd _ _ _ _ Hs Hf') as [f [Hf [Hn Hs']]].
    eapply (cv_cfg p T); eauto. congruence.
Qed.

Lemma observe_static_eq v f : static (observe v f) = static f.
Proof. unfold static, observe. destruct (_ && _); reflexivity. Qed.

Lemma static_eq_update_obs fs fl rw : static_eq fs (update_obs fs fl rw).
Proof.
  intros i. rewrite update_obs_nth. destruct (nth_error fs i) as [f|]; cbn; auto.
  destruct (existsb (Nat.eqb i) fl); auto. now rewrite observe_static_eq.
Qed.

Lemma intern_row_static p : static_eq (p_fields p) (p_fields (fst (intern_row p))).
Proof.
  unfold intern_row. destruct (find_index _ _); cbn.
  - intros i. reflexivity.
  - apply static_eq_update_obs.
Qed.

Lemma P_intern_row p : P p -> P (fst (intern_row p)).
Proof.
  intros [K [F T]]. pose proof (intern_row_spec p K) as H. pose proof (FInv_intern_row p K F) as H2.
  pose proof (intern_row_static p) as H3.
  destruct (intern_row p) as [p' k]. destruct H as [K' [_ [_ [_ [_ [Ht [Hi _]]]]]]]. cbn in *.
  split; [exact K'|]. split; [exact H2|]. eapply TInv_static; eauto.
Qed.

Lemma P_intern_units u units : forall p, P p -> P (fst (intern_units p u units)).
Proof.
  induction units as [|un units IH]; intros p HP; cbn; auto.
  pose proof (P_intern_row (set_row p u un) (P_set_row _ _ _ HP)) as H1.
  destruct (intern_row (set_row p u un)) as [p1 k]. cbn in H1.
  specialize (IH p1 H1). destruct (intern_units p1 u units) as [p2 ks]. exact IH.
Qed.

Lemma P_populate pp p r : NoDup (map c_key (r_cfg r)) -> P p -> P (snd (populate pp p r)).
Proof. intros Hnd HP. now destruct (populate_spec r Hnd (ext_of pp) pp p HP eq_refl). Qed.

(** ** key_get_extracted *)
Theorem key_get_extracted pp p r :
  P p -> NoDup (map c_key (r_cfg r)) ->
  let '(pp', p', k) := project pp p r in
  P p' /\ ext_of pp' = ext_of pp /\
  forall idx f, nth_error (p_fields p') idx = Some f ->
    key_get p' k idx = want (ext_of pp) r f.
Proof.
  intros HP Hnd. unfold project.
  destruct (populate_spec r Hnd (ext_of pp) pp p HP eq_refl) as [P1 [E1 W1]].
  destruct (populate pp p r) as [pp1 p1]. cbn [fst snd] in *.
  pose proof (intern_row_spec p1 (proj1 P1)) as H. pose proof (P_intern_row p1 P1) as P2.
  pose proof (intern_row_static p1) as S.
  destruct (intern_row p1) as [p2 k]. cbn [fst] in *.
  destruct H as [_ [_ [_ [V _]]]]. split; [exact P2|]. split; [exact E1|].
  intros idx f' Hf'. destruct (static_eq_bwd _ _ _ _ S Hf') as [f [Hf [Hn Hs]]].
  unfold key_get, vals_get. rewrite V, trim_nth. fold (row_at p1 idx). rewrite (W1 idx f Hf).
  unfold want. now rewrite Hn, Hs.
Qed.

(** ** reachable projections satisfy [P] (results with distinct config keys) *)
Definition op_wf (o : op) : Prop :=
  match o with
  | OpProject _ r | OpProjectValues _ r => NoDup (map c_key (r_cfg r))
  | _ => True
  end.

Lemma P_project_values pp p r :
  NoDup (map c_key (r_cfg r)) -> P p -> let '(_, p', _) := project_values pp p r in P p'.
Proof.
  intros Hnd HP. unfold project_values. pose proof (P_populate pp p r Hnd HP) as H1.
  destruct (populate pp p r) as [pp1 p1]. cbn in H1.
  destruct (p_unit p1) as [u|].
  - pose proof (P_intern_units u (r_units r) p1 H1) as H2.
    destruct (intern_units p1 u (r_units r)). exact H2.
  - pose proof (P_intern_row p1 H1) as H2. destruct (intern_row p1). exact H2.
Qed.

Definition WP (w : world) : Prop := Forall P (w_projs w).

Lemma step_WP w o : op_wf o -> WP w -> WP (fst (step w o)).
Proof.
  intros Hwf HW. destruct w as [pp projs]. unfold WP in *; cbn in HW.
  destruct o as [wu fs| |pi r|pi r]; cbn.
  - destruct wu.
    + destruct (parse_with_unit pp fs) as [pp' [p|]] eqn:E; cbn; auto.
      apply Forall_app. split; auto. constructor; auto. split; [|split].
      * eapply KInv_parse_with_unit; eauto.
      * eapply FInv_parse_with_unit; eauto.
      * eapply TInv_parse_with_unit; eauto.
    + destruct (parse pp fs) as [pp' [p|]] eqn:E; cbn; auto.
      apply Forall_app. split; auto. constructor; auto. split; [|split].
      * eapply KInv_parse; eauto.
      * eapply FInv_parse; eauto.
      * eapply TInv_parse; eauto.
  - pose proof (KInv_residue pp) as H1. pose proof (FInv_residue pp) as H2.
    pose proof (TInv_residue pp) as H3.
    destruct (residue pp) as [pp' p]. cbn in *. apply Forall_app. split; auto.
    constructor; auto. split; auto.
  - destruct (nth_error projs pi) as [p|] eqn:E; cbn; auto.
    assert (P p) as HP by (rewrite Forall_forall in HW; apply HW; eapply nth_error_In; eauto).
    pose proof (key_get_extracted pp p r HP Hwf) as H.
    destruct (project pp p r) as [[pp' p'] k]. cbn. apply Forall_set_nth; auto. apply H.
  - destruct (nth_error projs pi) as [p|] eqn:E; cbn; auto.
    assert (P p) as HP by (rewrite Forall_forall in HW; apply HW; eapply nth_error_In; eauto).
    pose proof (P_project_values pp p r Hwf HP) as H.
    destruct (project_values pp p r) as [[pp' p'] ks]. cbn. apply Forall_set_nth; auto.
Qed.

Lemma run_ops_WP ops : forall w, Forall op_wf ops -> WP w -> WP (fst (run_ops w ops)).
Proof.
  induction ops as [|o ops IH]; intros w Hwf HW; cbn; auto.
  inversion Hwf as [|? ? Ho Hops]; subst.
  pose proof (step_WP w o Ho HW) as H1. destruct (step w o) as [w1 x]. cbn in H1.
  specialize (IH w1 Hops H1). destruct (run_ops w1 ops) as [w2 xs]. exact IH.
Qed.

Theorem reachable_P ops w xs :
  Forall op_wf ops -> run_ops new_world ops = (w, xs) -> Forall P (w_projs w).
Proof.
  intros Hwf H. pose proof (run_ops_WP ops new_world Hwf (Forall_nil _)) as R. now rewrite H in R.
Qed.

(** the readable form: by the field's tag *)
Theorem key_get_extracted_reachable ops w xs pi p r :
  Forall op_wf ops -> run_ops new_world ops = (w, xs) -> nth_error (w_projs w) pi = Some p ->
  NoDup (map c_key (r_cfg r)) ->
  let '(pp', p', k) := project (w_pp w) p r in
  forall idx f, nth_error (p_fields p') idx = Some f ->
    match fi_src f with
    | SKey key => fi_name f = key /\ key_get p' k idx = extract key (r_name r) (r_cfg r)
    | SFull => key_get p' k idx = extractor_fullname (ext_of (w_pp w)) (r_name r)
    | SCfg => key_get p' k idx = cfg_file_val (r_cfg r) (fi_name f)
    | SUnit => key_get p' k idx = []
    end.
Proof.
  intros Hwf H Hp Hnd. pose proof (reachable_P ops w xs Hwf H) as R. rewrite Forall_forall in R.
  assert (P p) as HP by (apply R; eapply nth_error_In; eauto).
  pose proof (key_get_extracted (w_pp w) p r HP Hnd) as G.
  destruct (project (w_pp w) p r) as [[pp' p'] k]. destruct G as [[_ [_ T']] [_ G]].
  intros idx f Hf. specialize (G idx f Hf). unfold want in G.
  destruct (fi_src f) eqn:Es; auto. split; auto. eapply (t_name p' T'); eauto.
Qed.
