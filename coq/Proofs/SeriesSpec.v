(** series_meets_spec: for every well-formed result set, both duplicate policies
    and every valid enumeration of the Go maps, the model of
    Builder.Add + AllComparisonSeries (Model/Series.v) returns exactly the
    series that the declarative specification Model/SeriesSpec.v describes.

    Why it is true.  The tables enumerated are the (unit, table) pairs of the
    results (ve_tables, trial_of).  In one table the (trial, test) visits are
    the keys (benchmark, experiment, numerator hash) of its numerators, each
    once (tkeys_in, tkeys_nodup); the visit of key k is [mkc k]: its series
    point is the normalised stamp of ANY numerator with that hash (h2o_of and
    wf_hash_stamp), its samples are the values of the numerators at k and of
    the denominators of the trial (adds_num, adds_den), its baseline hash is
    bh_of.  The cell at (b, s) is the fold of cstep over the visits whose key
    has benchmark b and series point s (fold_cells); by wf_pair these keys share
    one hash, so there is one per experiment, and the numerators at those keys
    are exactly the numerators N of the table with benchmark b and series
    point s.  DUPE_COMBINE concatenates (combine_concat): a partition of N by
    key, and of the denominators by experiment.  DUPE_REPLACE keeps the visit
    with the latest date (replace_latest_wins); by wf_dates the numerators of N
    with that date are exactly those at the winning key.  The hash pair of a
    series point is that of its first visit (fold_hp); by wf_pair every
    numerator at the point gives the same pair.  The outcome is the error iff
    some trial's experiment stamp or some test's series stamp fails to
    normalise; every result creates a trial, every numerator a test. *)
From Coq Require Import Permutation.
From Perf Require Import Base.Bytes Base.Usort Model.Dates Model.Series Model.SeriesSpec
     Proofs.Series Proofs.SeriesPerm.
Local Open Scope Z_scope.

(** * lists *)
Lemma filter_filter {A} (f g : A -> bool) l :
  filter f (filter g l) = filter (fun x => g x && f x) l.
Proof.
  induction l as [|x l IH]; cbn [filter]; auto.
  destruct (g x); cbn [filter andb]; [destruct (f x)|]; now rewrite IH.
Qed.

Lemma filter_map_comm {A B} (f : B -> bool) (g : A -> B) l :
  filter f (map g l) = map g (filter (fun x => f (g x)) l).
Proof.
  induction l as [|x l IH]; cbn [filter map]; auto.
  destruct (f (g x)); cbn [map]; now rewrite IH.
Qed.

Lemma filter_false {A} (l : list A) : filter (fun _ => false) l = [].
Proof. induction l; cbn; auto. Qed.

Lemma flat_map_ext_in {A B} (f g : A -> list B) l :
  (forall x, In x l -> f x = g x) -> flat_map f l = flat_map g l.
Proof.
  induction l as [|x l IH]; intros H; cbn [flat_map]; auto.
  rewrite (H x (or_introl eq_refl)), IH; auto. intros y Hy. apply H. now right.
Qed.

Lemma flat_map_map {A B C} (f : B -> list C) (g : A -> B) l :
  flat_map f (map g l) = flat_map (fun x => f (g x)) l.
Proof. induction l as [|x l IH]; cbn [flat_map map]; auto. now rewrite IH. Qed.

Lemma filter_disj_perm {A} (p q : A -> bool) l :
  (forall x, In x l -> p x = true -> q x = true -> False) ->
  Permutation (filter p l ++ filter q l) (filter (fun x => p x || q x) l).
Proof.
  induction l as [|a l IH]; intros H; cbn [filter app]; [constructor|].
  assert (IH' : Permutation (filter p l ++ filter q l) (filter (fun x => p x || q x) l)).
  { apply IH. intros x Hx. apply H. now right. }
  destruct (p a) eqn:Ep, (q a) eqn:Eq; cbn [orb app].
  - exfalso. apply (H a); auto. now left.
  - now constructor.
  - apply Permutation_sym, Permutation_cons_app, Permutation_sym, IH'.
  - exact IH'.
Qed.

(** a list split by a key: the parts of distinct keys, put together, are the
    elements that have one of the keys *)
Lemma partition_perm {A K} (sel : K -> A -> bool) (Ks : list K) (L : list A) :
  NoDup Ks ->
  (forall x k k', In x L -> In k Ks -> In k' Ks -> sel k x = true -> sel k' x = true -> k = k') ->
  Permutation (flat_map (fun k => filter (sel k) L) Ks)
              (filter (fun x => existsb (fun k => sel k x) Ks) L).
Proof.
  induction Ks as [|k Ks IH]; intros Hnd Hdis; cbn [flat_map existsb].
  - rewrite filter_false. constructor.
  - inversion Hnd as [|? ? Hk Hnd']; subst.
    eapply perm_trans.
    + apply Permutation_app_head, IH; auto.
      intros x k1 k2 Hx H1 H2. apply Hdis; auto; now right.
    + apply filter_disj_perm. intros x Hx Hp Hq.
      apply existsb_exists in Hq as (k' & Hk' & Hs).
      assert (E : k = k') by (apply (Hdis x); auto; [now left | now right]).
      subst k'. contradiction.
Qed.

Lemma NoDup_app_intro {A} (l l' : list A) :
  NoDup l -> NoDup l' -> (forall x, In x l -> In x l' -> False) -> NoDup (l ++ l').
Proof.
  induction l as [|a l IH]; cbn [app]; intros H1 H2 Hd; auto.
  inversion H1 as [|? ? Ha H1']; subst. constructor.
  - rewrite in_app_iff. intros [Hin|Hin]; [auto|]. apply (Hd a); auto. now left.
  - apply IH; auto. intros x Hx. apply Hd. now right.
Qed.

Lemma NoDup_flat_map {A B} (f : A -> list B) l :
  NoDup l -> (forall x, In x l -> NoDup (f x)) ->
  (forall x x' y, In x l -> In x' l -> In y (f x) -> In y (f x') -> x = x') ->
  NoDup (flat_map f l).
Proof.
  induction l as [|a l IH]; intros Hnd Hf Hd; cbn [flat_map]; [constructor|].
  inversion Hnd as [|? ? Ha Hnd']; subst. apply NoDup_app_intro.
  - apply Hf. now left.
  - apply IH; auto.
    + intros x Hx. apply Hf. now right.
    + intros x x' y Hx Hx'. apply Hd; now right.
  - intros y Hy Hy'. apply in_flat_map in Hy' as (x & Hx & Hyx).
    assert (E : a = x) by (apply (Hd a x y); auto; [now left | now right]).
    subst x. contradiction.
Qed.

Lemma NoDup_map_inj_in {A B} (f : A -> B) l :
  (forall x y, In x l -> In y l -> f x = f y -> x = y) -> NoDup l -> NoDup (map f l).
Proof.
  induction l as [|a l IH]; intros Hinj Hnd; cbn [map]; [constructor|].
  inversion Hnd as [|? ? Ha Hnd']; subst. constructor.
  - rewrite in_map_iff. intros (x & E & Hx).
    assert (x = a) by (apply Hinj; auto; [now right | now left]). subst x. contradiction.
  - apply IH; auto. intros x y Hx Hy. apply Hinj; now right.
Qed.

Lemma in_omap_filter {A B} (f : A -> option B) l y :
  In y (omap_filter f l) <-> exists x, In x l /\ f x = Some y.
Proof.
  unfold omap_filter. rewrite in_flat_map. split; intros (x & Hx & H); exists x; split; auto.
  - destruct (f x) as [z|]; [|destruct H]. destruct H as [<-|[]]. reflexivity.
  - rewrite H. now left.
Qed.

Lemma omapM_total {A B} (f : A -> option B) (g : A -> B) l :
  (forall x, In x l -> f x = Some (g x)) -> omapM f l = Some (map g l).
Proof.
  induction l as [|x l IH]; intros H; cbn [omapM map]; auto.
  rewrite (H x (or_introl eq_refl)), IH; auto. intros y Hy. apply H. now right.
Qed.

Lemma omapM_none {A B} (f : A -> option B) l x :
  In x l -> f x = None -> omapM f l = None.
Proof.
  induction l as [|y l IH]; intros Hin Hx; [destruct Hin|]. cbn [omapM].
  destruct Hin as [->|Hin].
  - now rewrite Hx.
  - destruct (f y); auto. now rewrite IH.
Qed.

Lemma omapM_canon_total {A B} (f : A -> option B) (c : B -> B) (g : A -> B) l :
  (forall x, In x l -> option_map c (f x) = Some (g x)) ->
  option_map (map c) (omapM f l) = Some (map g l).
Proof.
  induction l as [|x l IH]; intros H; cbn [omapM map option_map]; auto.
  pose proof (H x (or_introl eq_refl)) as Hx.
  destruct (f x) as [y|]; [|discriminate]. cbn [option_map] in Hx. injection Hx as Hx.
  assert (IH' : option_map (map c) (omapM f l) = Some (map g l)).
  { apply IH. intros z Hz. apply H. now right. }
  destruct (omapM f l) as [ys|]; [|discriminate]. cbn [option_map map] in *.
  injection IH' as IH'. now rewrite Hx, IH'.
Qed.

(** * the latest date *)
Lemma bltb_nil_r a : bltb a [] = false.
Proof. destruct a; reflexivity. Qed.

Lemma bmax_later l : bmax l = fold_left later l [].
Proof. reflexivity. Qed.

Lemma fold_later_ext l l' d :
  (forall x, In x l <-> In x l') -> fold_left later l d = fold_left later l' d.
Proof.
  intros HE. pose proof (later_max l d) as (H1 & H2 & H3). pose proof (later_max l' d) as (H1' & H2' & H3').
  set (m := fold_left later l d) in *. set (m' := fold_left later l' d) in *.
  apply bltb_total.
  - destruct H1' as [->|H1']; auto. apply H3. now apply HE.
  - destruct H1 as [->|H1]; auto. apply H3'. now apply HE.
Qed.

(** the maximum is characterised by: it is a member and nothing is later *)
Lemma bmax_char l m :
  In m l -> (forall x, In x l -> bltb m x = false) -> bmax l = m.
Proof.
  intros Hm Hmax. rewrite bmax_later.
  pose proof (later_max l []) as (H1 & H2 & H3).
  apply bltb_total.
  - now apply H3.
  - destruct H1 as [->|H1]; [apply bltb_nil_r | now apply Hmax].
Qed.

Lemma later_nil_l x : later [] x = x.
Proof. destruct x; reflexivity. Qed.

Lemma combine_fold l : l <> [] ->
  fold_left (cstep true) l None =
  Some (mkC (concat (map k_num l)) (concat (map k_den l)) (fold_left later (map k_date l) [])).
Proof.
  destruct l as [|c l]; [congruence|]. intros _. rewrite combine_concat.
  cbn [map fold_left]. now rewrite later_nil_l.
Qed.

Lemma osome_eqb_true o s : osome_eqb o s = true <-> o = Some s.
Proof.
  destruct o as [x|]; cbn [osome_eqb]; [rewrite beq_eq|]; split; try congruence; discriminate.
Qed.

(** * the specification of a cell, by cases *)
Definition predN (b s : bytes) (r : res) : bool :=
  is_num r && beq (r_bench r) b && osome_eqb (nser r) s.
Definition densR (R : list res) (b e : bytes) : list Z :=
  map r_val (filter (fun r => is_den r && beq (r_bench r) b && beq (r_exp r) e) R).

Lemma spec_cell_nil combine R b s :
  filter (predN b s) R = [] -> spec_cell combine R b s = [].
Proof. unfold spec_cell, predN. now intros ->. Qed.

Lemma spec_cell_combine R b s :
  filter (predN b s) R <> [] ->
  spec_cell true R b s =
  [mkO b s (bmax (omap_filter ndate (filter (predN b s) R)))
       (vsort (map r_val (filter (predN b s) R)))
       (vsort (flat_map (densR R b) (dedup beq [] (map r_exp (filter (predN b s) R)))))].
Proof.
  unfold spec_cell, predN, densR. destruct (filter _ R); [congruence|reflexivity].
Qed.

Lemma spec_cell_replace R b s :
  filter (predN b s) R <> [] ->
  spec_cell false R b s =
  match filter (fun r => osome_eqb (ndate r) (bmax (omap_filter ndate (filter (predN b s) R))))
               (filter (predN b s) R) with
  | [] => []
  | w :: _ =>
      [mkO b s (bmax (omap_filter ndate (filter (predN b s) R)))
           (vsort (map r_val (filter (fun r => osome_eqb (ndate r) (bmax (omap_filter ndate (filter (predN b s) R))))
                                     (filter (predN b s) R))))
           (vsort (densR R b (r_exp w)))]
  end.
Proof.
  unfold spec_cell, predN, densR. destruct (filter _ R); [congruence|reflexivity].
Qed.

(** * one (unit, table) of a result set *)
Definition kof (r : res) : tk3 := (r_bench r, r_exp r, r_nh r).
Definition nd (x : bytes) : bytes := match normalize_date x with Some y => y | None => [] end.

Section Table.
  Variables (rs : list res) (en : enum) (u t : bytes).
  Hypothesis Hwf : WFset rs.
  Hypothesis Hv : valid_enum (adds rs) en.

  Definition inT (r : res) : bool := beq (r_unit r) u && beq (r_table r) t.
  Definition key4 (k : tk3) : key := [u; t; fst (fst k); snd (fst k)].
  Definition key5 (k : tk3) : key := [u; t; fst (fst k); snd (fst k); snd k].

  Lemma inT_true r : inT r = true <-> r_unit r = u /\ r_table r = t.
  Proof. unfold inT. now rewrite andb_true_iff, !beq_eq. Qed.

  Lemma num_at_key5 k r :
    num_at (key5 k) r = true <-> is_num r = true /\ inT r = true /\ kof r = k.
  Proof.
    unfold num_at. rewrite andb_true_iff, keqb_eq, inT_true.
    destruct k as [[b e] h]. unfold nkey, key5, kof. cbn [fst snd]. split.
    - intros [Hn E]. injection E as E1 E2 E3 E4 E5. repeat split; auto. congruence.
    - intros (Hn & [E1 E2] & E). injection E as E3 E4 E5. split; auto. congruence.
  Qed.

  Lemma den_at_key4 k x :
    den_at (key4 k) x =
    inT x && (is_den x && beq (r_bench x) (fst (fst k)) && beq (r_exp x) (snd (fst k))).
  Proof.
    apply eq_iff_eq_true. unfold den_at, inT.
    rewrite !andb_true_iff, keqb_eq, !beq_eq. unfold tkey, key4. split.
    - intros [Hd E]. injection E as E1 E2 E3 E4. auto.
    - intros [[E1 E2] [[Hd E3] E4]]. split; auto. congruence.
  Qed.

  (** ** the (trial, test) visits are the keys of the numerators of the table, each once *)
  Lemma cells_in be :
    In be (e_cells en u t) <-> exists r, In r rs /\ inT r = true /\ (r_bench r, r_exp r) = be.
  Proof.
    destruct be as [b e]. rewrite (ve_cells _ _ Hv), trial_of, existsb_exists. split.
    - intros (r & Hin & Hk). apply keqb_eq in Hk. unfold tkey in Hk. injection Hk as E1 E2 E3 E4.
      exists r. split; auto. split; [apply inT_true; auto | congruence].
    - intros (r & Hin & HT & E). apply inT_true in HT as [E1 E2]. injection E as E3 E4.
      exists r. split; auto. apply keqb_eq. unfold tkey. congruence.
  Qed.

  Lemma num_nonempty k : b_num (adds rs) (key5 k) <> [] <-> exists r, In r rs /\ num_at (key5 k) r = true.
  Proof.
    unfold adds. rewrite adds_num. cbn [b_empty b_num app]. split.
    - intros Hne. destruct (filter (num_at (key5 k)) rs) as [|r l] eqn:Ef; [now elim Hne|].
      exists r. apply filter_In. rewrite Ef. now left.
    - intros (r & Hin & Hn) E. apply map_eq_nil in E.
      assert (Hr : In r (filter (num_at (key5 k)) rs)) by (apply filter_In; auto).
      rewrite E in Hr. destruct Hr.
  Qed.

  Lemma tkeys_in k : In k (tkeys en u t) <-> exists r, In r rs /\ num_at (key5 k) r = true.
  Proof.
    rewrite <- num_nonempty. unfold tkeys. rewrite in_flat_map. destruct k as [[b e] h]. split.
    - intros (be & Hbe & Hin). apply in_map_iff in Hin as (h' & E & Hh). injection E as E1 E2 E3. subst.
      now apply (ve_tests _ _ Hv) in Hh.
    - intros Hne. exists (b, e). cbn [fst snd]. split.
      + apply num_nonempty in Hne as (r & Hin & Hn). apply num_at_key5 in Hn as (Hn & HT & E).
        apply cells_in. exists r. repeat split; auto. unfold kof in E. congruence.
      + apply in_map_iff. exists h. split; auto. now apply (ve_tests _ _ Hv).
  Qed.

  Lemma tkeys_nodup : NoDup (tkeys en u t).
  Proof.
    unfold tkeys. apply NoDup_flat_map.
    - apply (ve_cells_nodup _ _ Hv).
    - intros be _. apply NoDup_map_inj_in; [|apply (ve_tests_nodup _ _ Hv)].
      intros x y _ _ E. now injection E.
    - intros [b e] [b' e'] y _ _ Hy Hy'. cbn [fst snd] in *.
      apply in_map_iff in Hy as (h & <- & _). apply in_map_iff in Hy' as (h' & E & _).
      injection E as E1 E2 E3. congruence.
  Qed.

  Lemma key_witness k : In k (tkeys en u t) ->
    exists r, In r rs /\ is_num r = true /\ inT r = true /\ kof r = k.
  Proof. intros Hk. apply tkeys_in in Hk as (r & Hin & Hn). apply num_at_key5 in Hn. eauto. Qed.

  Lemma key_of_num r : In r rs -> is_num r = true -> inT r = true -> In (kof r) (tkeys en u t).
  Proof. intros Hin Hn HT. apply tkeys_in. exists r. split; auto. now apply num_at_key5. Qed.

  (** ** the visit of a key *)
  Definition ser_of (h : bytes) : bytes :=
    match find (numh h) rs with Some r => r_ser r | None => [] end.

  Definition mkc (k : tk3) : contrib :=
    mkK (fst (fst k)) (nd (ser_of (snd k))) (snd k)
        (b_num (adds rs) (key5 k)) (b_den (adds rs) (key4 k)) (b_bh (adds rs) (key4 k))
        (nd (snd (fst k))).

  Lemma find_numh r : In r rs -> is_num r = true ->
    exists r0, find (numh (r_nh r)) rs = Some r0 /\ r_ser r0 = r_ser r.
  Proof.
    intros Hin Hn. destruct (find (numh (r_nh r)) rs) as [r0|] eqn:E.
    - exists r0. split; auto. apply find_some in E as [Hin0 Hn0]. unfold numh in Hn0.
      apply andb_true_iff in Hn0 as [Hn0 Hh]. apply beq_eq in Hh.
      now apply (wf_hash_stamp _ Hwf).
    - exfalso. eapply find_none in E; eauto. unfold numh in E. now rewrite Hn, beq_refl in E.
  Qed.

  Lemma ser_of_num r : In r rs -> is_num r = true -> ser_of (r_nh r) = r_ser r.
  Proof. intros Hin Hn. unfold ser_of. now destruct (find_numh r Hin Hn) as (r0 & -> & E). Qed.

  Lemma h2o_num r : In r rs -> is_num r = true -> b_h2o (adds rs) [r_nh r] = Some (r_ser r).
  Proof.
    intros Hin Hn. rewrite (h2o_of rs (r_nh r) (wf_hash_stamp _ Hwf)).
    destruct (find_numh r Hin Hn) as (r0 & -> & E). cbn [option_map]. now rewrite E.
  Qed.

  Lemma kc_key k r : In r rs -> num_at (key5 k) r = true ->
    kc (adds rs) u t k =
    match ndate r with
    | Some _ => match nser r with Some _ => Some (mkc k) | None => None end
    | None => None
    end.
  Proof.
    intros Hin Hn. apply num_at_key5 in Hn as (Hnum & HT & <-).
    unfold kc, kof, ndate, nser. cbn [fst snd].
    destruct (normalize_date (r_exp r)) as [d|] eqn:Ed; auto.
    unfold test_contrib. rewrite (h2o_num r Hin Hnum).
    destruct (normalize_date (r_ser r)) as [s|] eqn:Es; auto.
    f_equal. unfold mkc, nd, key5, key4. cbn [fst snd].
    now rewrite (ser_of_num r Hin Hnum), Es, Ed.
  Qed.

  Lemma bh_of_R r : inT r = true -> bh_of (filter inT rs) (tkey r) = bh_of rs (tkey r).
  Proof.
    intros HT. unfold bh_of. rewrite filter_filter.
    rewrite (filter_ext_in (fun x => inT x && (is_den x && keqb (tkey x) (tkey r)))
                           (fun x => is_den x && keqb (tkey x) (tkey r))); auto.
    intros x _. destruct (keqb (tkey x) (tkey r)) eqn:E; [|now rewrite !andb_false_r].
    apply keqb_eq in E. unfold tkey in E. injection E as E1 E2 _ _.
    unfold inT in *. now rewrite E1, E2, HT.
  Qed.

  (** ** no stamp fails to normalise *)
  Section NoErr.
    Hypothesis Hnd : forall r, In r rs -> ndate r <> None.
    Hypothesis Hns : forall r, In r rs -> is_num r = true -> nser r <> None.

    Definition C : list contrib := map mkc (tkeys en u t).
    Definition R : list res := filter inT rs.

    Lemma contribs_ok : table_contribs (adds rs) en u t = Some C.
    Proof.
      rewrite table_contribs_flat.
      assert (Hd : forallb date_ok (e_cells en u t) = true).
      { apply forallb_forall. intros be Hbe. apply cells_in in Hbe as (r & Hin & _ & <-).
        unfold date_ok. cbn [snd]. specialize (Hnd r Hin). unfold ndate in Hnd.
        now destruct (normalize_date (r_exp r)). }
      rewrite Hd. apply omapM_total. intros k Hk.
      apply tkeys_in in Hk as (r & Hin & Hn). rewrite (kc_key k r Hin Hn).
      apply num_at_key5 in Hn as (Hnum & _ & _).
      specialize (Hnd r Hin). specialize (Hns r Hin Hnum).
      destruct (ndate r); [|congruence]. destruct (nser r); [|congruence]. reflexivity.
    Qed.

    Lemma mkc_ser r : In r rs -> is_num r = true -> nser r = Some (k_ser (mkc (kof r))).
    Proof.
      intros Hin Hn. unfold mkc, kof. cbn [k_ser fst snd]. rewrite (ser_of_num r Hin Hn).
      specialize (Hns r Hin Hn). unfold nd, nser in *. now destruct (normalize_date (r_ser r)).
    Qed.

    Lemma mkc_date r : In r rs -> ndate r = Some (k_date (mkc (kof r))).
    Proof.
      intros Hin. unfold mkc, kof. cbn [k_date fst snd].
      specialize (Hnd r Hin). unfold nd, ndate in *. now destruct (normalize_date (r_exp r)).
    Qed.

    Lemma in_C c : In c C <-> exists r, In r rs /\ is_num r = true /\ inT r = true /\ c = mkc (kof r).
    Proof.
      unfold C. rewrite in_map_iff. split.
      - intros (k & <- & Hk). apply key_witness in Hk as (r & Hin & Hn & HT & <-). eauto.
      - intros (r & Hin & Hn & HT & ->). exists (kof r). split; auto. now apply key_of_num.
    Qed.

    Lemma in_R r : In r R <-> In r rs /\ inT r = true.
    Proof. apply filter_In. Qed.

    (** ** axes *)
    Lemma bench_eq : usort bcmp (map fst (e_cells en u t)) = usort bcmp (map r_bench R).
    Proof.
      apply usortb_ext. intros x. rewrite !in_map_iff. split.
      - intros (be & <- & Hbe). apply cells_in in Hbe as (r & Hin & HT & <-).
        exists r. split; auto. now apply in_R.
      - intros (r & <- & Hr). apply in_R in Hr as [Hin HT]. exists (r_bench r, r_exp r). split; auto.
        apply cells_in. eauto.
    Qed.

    Lemma series_eq : usort bcmp (map k_ser C) = usort bcmp (omap_filter nser (filter is_num R)).
    Proof.
      apply usortb_ext. intros s. rewrite in_map_iff, in_omap_filter. split.
      - intros (c & <- & Hc). apply in_C in Hc as (r & Hin & Hn & HT & ->).
        exists r. split; [|now apply mkc_ser]. apply filter_In. split; auto. now apply in_R.
      - intros (r & Hr & Hs). apply filter_In in Hr as [Hr Hn]. apply in_R in Hr as [Hin HT].
        exists (mkc (kof r)). split.
        + rewrite (mkc_ser r Hin Hn) in Hs. congruence.
        + apply in_C. eauto.
    Qed.

    (** ** hash pairs *)
    Lemma hp_eq combine s : out_hp (fold_left (step combine) C st_empty) s = spec_hp R s.
    Proof.
      unfold out_hp. rewrite fold_hp by apply hp_inv_empty. cbn [st_empty s_hp]. unfold spec_hp.
      destruct (find (fun c => beq (k_ser c) s) C) as [c|] eqn:Ef; cbn [option_map].
      - apply find_some in Ef as [Hc Hs]. apply beq_eq in Hs.
        apply in_C in Hc as (r & Hin & Hn & HT & ->).
        assert (Hr : In r (filter (fun r => is_num r && osome_eqb (nser r) s) R)).
        { apply filter_In. split; [now apply in_R|]. rewrite Hn. cbn [andb].
          apply osome_eqb_true. rewrite (mkc_ser r Hin Hn). now rewrite Hs. }
        destruct (filter (fun r => is_num r && osome_eqb (nser r) s) R) as [|r0 l] eqn:EF; [destruct Hr|].
        assert (Hr0 : In r0 (filter (fun r => is_num r && osome_eqb (nser r) s) R)) by (rewrite EF; now left).
        apply filter_In in Hr0 as [Hr0 Hp]. apply in_R in Hr0 as [Hin0 HT0].
        apply andb_true_iff in Hp as [Hn0 Hs0]. apply osome_eqb_true in Hs0.
        assert (Hsr : nser r = Some s) by (rewrite (mkc_ser r Hin Hn); now rewrite Hs).
        apply inT_true in HT as HT'. apply inT_true in HT0 as HT0'.
        destruct (wf_pair _ Hwf r0 r s Hin0 Hin Hn0 Hn) as [E1 E2]; auto; try (destruct HT', HT0'; congruence).
        rewrite (bh_of_R r0 HT0 : bh_of R (tkey r0) = _), E1, E2. unfold pair_of, mkc, kof. cbn [k_hash k_bh fst snd].
        rewrite bh_of_adds. unfold key4, tkey. cbn [fst snd]. destruct HT' as [-> ->]. reflexivity.
      - destruct (filter (fun r => is_num r && osome_eqb (nser r) s) R) as [|r0 l] eqn:EF; auto.
        exfalso.
        assert (Hr0 : In r0 (filter (fun r => is_num r && osome_eqb (nser r) s) R)) by (rewrite EF; now left).
        apply filter_In in Hr0 as [Hr0 Hp]. apply in_R in Hr0 as [Hin0 HT0].
        apply andb_true_iff in Hp as [Hn0 Hs0]. apply osome_eqb_true in Hs0.
        assert (Hc : In (mkc (kof r0)) C) by (apply in_C; eauto).
        apply (find_none _ _ Ef) in Hc. cbn beta in Hc.
        rewrite (mkc_ser r0 Hin0 Hn0) in Hs0.
        assert (Ht : beq (k_ser (mkc (kof r0))) s = true) by (apply beq_eq; congruence). congruence.
    Qed.

    (** ** the cell at (b, s) *)
    Section Cell.
      Variables (b s : bytes).

      Definition K : list tk3 := filter (fun k => at_sk b s (mkc k)) (tkeys en u t).
      Definition N : list res := filter (predN b s) R.

      Lemma K_nodup : NoDup K.
      Proof. apply NoDup_filter, tkeys_nodup. Qed.

      Lemma at_sk_mkc r : In r rs -> is_num r = true ->
        at_sk b s (mkc (kof r)) = beq (r_bench r) b && osome_eqb (nser r) s.
      Proof.
        intros Hin Hn. unfold at_sk. rewrite (mkc_ser r Hin Hn). reflexivity.
      Qed.

      Lemma in_N r : In r N <-> In r rs /\ inT r = true /\ predN b s r = true.
      Proof. unfold N. rewrite filter_In, in_R. tauto. Qed.

      Lemma N_eq : N = filter (fun r => inT r && predN b s r) rs.
      Proof. unfold N, R. apply filter_filter. Qed.

      Lemma predN_true r : predN b s r = true <-> is_num r = true /\ r_bench r = b /\ nser r = Some s.
      Proof. unfold predN. rewrite !andb_true_iff, beq_eq, osome_eqb_true. tauto. Qed.

      Lemma in_K k : In k K <-> exists r, In r N /\ kof r = k.
      Proof.
        unfold K. rewrite filter_In. split.
        - intros [Hk Ha]. apply key_witness in Hk as (r & Hin & Hn & HT & <-).
          exists r. split; auto. apply in_N. repeat split; auto.
          rewrite (at_sk_mkc r Hin Hn) in Ha. unfold predN. now rewrite Hn.
        - intros (r & Hr & <-). apply in_N in Hr as (Hin & HT & Hp).
          pose proof Hp as Hp'. apply predN_true in Hp' as (Hn & _).
          split; [now apply key_of_num|]. rewrite (at_sk_mkc r Hin Hn).
          unfold predN in Hp. now rewrite Hn in Hp.
      Qed.

      Lemma sel_K r : In r rs -> existsb (fun k => num_at (key5 k) r) K = inT r && predN b s r.
      Proof.
        intros Hin. apply eq_iff_eq_true. rewrite existsb_exists, andb_true_iff. split.
        - intros (k & Hk & Hn). apply num_at_key5 in Hn as (Hn & HT & <-).
          apply in_K in Hk as (r' & Hr' & E). apply in_N in Hr' as (Hin' & HT' & Hp').
          split; auto. apply predN_true in Hp' as (Hn' & Hb' & Hs'). apply predN_true.
          unfold kof in E. injection E as E1 E2 E3. repeat split; auto; [congruence|].
          unfold nser in *. rewrite <- Hs'. f_equal.
          apply (wf_hash_stamp _ Hwf); auto.
        - intros [HT Hp]. exists (kof r). pose proof Hp as Hp'. apply predN_true in Hp' as (Hn & _). split.
          + apply in_K. exists r. split; auto. now apply in_N.
          + now apply num_at_key5.
      Qed.

      (** the keys of one cell have one hash, so one key per experiment *)
      Lemma K_hash k k' : In k K -> In k' K -> snd k = snd k'.
      Proof.
        intros Hk Hk'. apply in_K in Hk as (r & Hr & <-), Hk' as (r' & Hr' & <-).
        apply in_N in Hr as (Hin & HT & Hp), Hr' as (Hin' & HT' & Hp').
        apply predN_true in Hp as (Hn & Hb & Hs), Hp' as (Hn' & Hb' & Hs').
        apply inT_true in HT as [E1 E2], HT' as [E1' E2']. cbn [kof snd].
        destruct (wf_pair _ Hwf r r' s Hin Hin' Hn Hn') as [E _]; auto; congruence.
      Qed.

      Lemma K_bench k : In k K -> fst (fst k) = b.
      Proof.
        intros Hk. apply in_K in Hk as (r & Hr & <-). apply in_N in Hr as (_ & _ & Hp).
        apply predN_true in Hp as (_ & Hb & _). exact Hb.
      Qed.

      Lemma K_exp_inj k k' : In k K -> In k' K -> snd (fst k) = snd (fst k') -> k = k'.
      Proof.
        intros Hk Hk' E. pose proof (K_hash k k' Hk Hk') as Eh.
        pose proof (K_bench k Hk) as Eb. pose proof (K_bench k' Hk') as Eb'.
        destruct k as [[b1 e1] h1], k' as [[b2 e2] h2]. cbn [fst snd] in *. congruence.
      Qed.

      (** ** samples *)
      Lemma concat_num (L : list tk3) :
        concat (map k_num (map mkc L)) = map r_val (flat_map (fun k => filter (num_at (key5 k)) rs) L).
      Proof.
        induction L as [|k L IH]; cbn [map concat flat_map]; auto. rewrite map_app, IH. f_equal.
        unfold mkc. cbn [k_num]. unfold adds. now rewrite adds_num.
      Qed.

      Lemma concat_den (L : list tk3) :
        concat (map k_den (map mkc L)) = flat_map (fun k => map r_val (filter (den_at (key4 k)) rs)) L.
      Proof.
        induction L as [|k L IH]; cbn [map concat flat_map]; auto. rewrite IH. f_equal.
        unfold mkc. cbn [k_den]. unfold adds. now rewrite adds_den.
      Qed.

      Lemma dens_key k : fst (fst k) = b ->
        map r_val (filter (den_at (key4 k)) rs) = densR R b (snd (fst k)).
      Proof.
        intros Hb. unfold densR, R. rewrite filter_filter. f_equal. apply filter_ext.
        intros x. now rewrite den_at_key4, Hb.
      Qed.

      Lemma num_perm : Permutation (concat (map k_num (map mkc K))) (map r_val N).
      Proof.
        rewrite concat_num. apply Permutation_map. rewrite N_eq.
        rewrite <- (filter_ext_in _ _ rs sel_K).
        apply partition_perm; [apply K_nodup|].
        intros x k k' _ _ _ H1 H2. apply num_at_key5 in H1 as (_ & _ & <-), H2 as (_ & _ & <-). reflexivity.
      Qed.

      Lemma exps_perm : Permutation (map (fun k : tk3 => snd (fst k)) K) (dedup beq [] (map r_exp N)).
      Proof.
        apply NoDup_Permutation.
        - apply NoDup_map_inj_in; [|apply K_nodup]. intros k k'. apply K_exp_inj.
        - apply (dedup_nodup beq beq_eq).
        - intros e. rewrite (dedup_in beq beq_eq), !in_map_iff. split.
          + intros (k & <- & Hk). apply in_K in Hk as (r & Hr & <-). split; [|intros []]. exists r. auto.
          + intros [(r & <- & Hr) _]. exists (kof r). split; auto. apply in_K. eauto.
      Qed.

      Lemma den_perm :
        Permutation (concat (map k_den (map mkc K)))
                    (flat_map (densR R b) (dedup beq [] (map r_exp N))).
      Proof.
        rewrite concat_den.
        rewrite (flat_map_ext_in _ (fun k : tk3 => densR R b (snd (fst k)))).
        2:{ intros k Hk. apply dens_key, K_bench, Hk. }
        rewrite <- (flat_map_map (densR R b) (fun k : tk3 => snd (fst k))).
        apply Permutation_flat_map, exps_perm.
      Qed.

      Lemma dates_iff d : In d (map k_date (map mkc K)) <-> In d (omap_filter ndate N).
      Proof.
        rewrite map_map, in_map_iff, in_omap_filter. split.
        - intros (k & <- & Hk). apply in_K in Hk as (r & Hr & <-). exists r. split; auto.
          apply mkc_date. now apply in_N in Hr as (Hin & _).
        - intros (r & Hr & Hd). exists (kof r). split; [|apply in_K; eauto].
          apply in_N in Hr as (Hin & _). rewrite (mkc_date r Hin) in Hd. congruence.
      Qed.

      Lemma K_nil_iff : K = [] <-> N = [].
      Proof.
        split; intros E.
        - destruct N as [|r l] eqn:EN; auto. exfalso.
          assert (Hk : In (kof r) K) by (apply in_K; exists r; split; auto; rewrite EN; now left).
          rewrite E in Hk. destruct Hk.
        - destruct K as [|k l] eqn:EK; auto. exfalso.
          assert (Hk : In k K) by (rewrite EK; now left).
          apply in_K in Hk as (r & Hr & _). rewrite E in Hr. destruct Hr.
      Qed.

      Lemma map_mkc_nil_iff : map mkc K = [] <-> N = [].
      Proof. rewrite <- K_nil_iff. split; [apply map_eq_nil | now intros ->]. Qed.

      (** DUPE_REPLACE: the numerators with the latest date are those at the winning key *)
      Lemma winner_nums kw : In kw K ->
        filter (fun r => osome_eqb (ndate r) (k_date (mkc kw))) N = filter (num_at (key5 kw)) rs.
      Proof.
        intros Hkw. rewrite N_eq, filter_filter. apply filter_ext_in. intros r Hin.
        apply eq_iff_eq_true. rewrite !andb_true_iff, osome_eqb_true, num_at_key5.
        pose proof Hkw as Hw. apply in_K in Hw as (r' & Hr' & Ek).
        apply in_N in Hr' as (Hin' & HT' & Hp'). apply predN_true in Hp' as (Hn' & Hb' & Hs').
        pose proof (mkc_date r' Hin') as Hd'. rewrite Ek in Hd'. split.
        - intros [[HT Hp] Hd]. apply predN_true in Hp as (Hn & Hb & Hs). repeat split; auto.
          apply inT_true in HT as [E1 E2], HT' as [E1' E2'].
          destruct (wf_pair _ Hwf r r' s Hin Hin' Hn Hn') as [Eh _]; auto; try congruence.
          assert (Ee : r_exp r = r_exp r').
          { apply (wf_dates _ Hwf r r' s (k_date (mkc kw))); auto; congruence. }
          rewrite <- Ek. unfold kof. congruence.
        - intros (Hn & HT & E). rewrite <- Ek in E. unfold kof in E. injection E as E1 E2 E3.
          assert (Hser : r_ser r = r_ser r') by (apply (wf_hash_stamp _ Hwf); auto).
          repeat split; auto.
          + apply predN_true. repeat split; auto; [congruence|]. unfold nser in *. now rewrite Hser.
          + unfold ndate in *. now rewrite E2.
      Qed.

      Lemma cell_eq combine :
        map canon_cell (out_cell (fold_left (step combine) C st_empty) b s) = spec_cell combine R b s.
      Proof.
        rewrite out_cell_canon, fold_cells. cbn [st_empty s_cells].
        unfold C. rewrite filter_map_comm. fold K.
        destruct N as [|n0 N'] eqn:EN.
        - rewrite spec_cell_nil by exact EN.
          assert (E : map mkc K = []) by (apply map_mkc_nil_iff; exact EN). now rewrite E.
        - assert (HN : N <> []) by (rewrite EN; discriminate). clear EN n0 N'.
          assert (HK : map mkc K <> []) by (intros E; apply map_mkc_nil_iff in E; contradiction).
          destruct combine.
          + rewrite (spec_cell_combine R b s HN). fold N. rewrite (combine_fold _ HK).
            cbn [comp_canon option_map c_num c_den c_date]. f_equal. f_equal.
            * rewrite bmax_later. apply fold_later_ext, dates_iff.
            * apply vsort_perm, num_perm.
            * apply vsort_perm, den_perm.
          + rewrite (spec_cell_replace R b s HN). fold N.
            destruct (replace_latest_wins (map mkc K) HK) as (w & Hw & Hf & Hmax). rewrite Hf.
            apply in_map_iff in Hw as (kw & <- & Hkw).
            cbn [comp_canon option_map new_comp c_num c_den c_date].
            assert (Hd : bmax (omap_filter ndate N) = k_date (mkc kw)).
            { apply bmax_char.
              - apply dates_iff. apply in_map. apply in_map. exact Hkw.
              - intros x Hx. apply dates_iff in Hx. apply in_map_iff in Hx as (c & <- & Hc). now apply Hmax. }
            rewrite Hd, (winner_nums kw Hkw).
            pose proof Hkw as Hr. apply in_K in Hr as (r & Hr & Ek). apply in_N in Hr as (Hin & HT & Hp).
            apply predN_true in Hp as (Hn & _).
            assert (Hrf : In r (filter (num_at (key5 kw)) rs)).
            { apply filter_In. split; auto. now apply num_at_key5. }
            destruct (filter (num_at (key5 kw)) rs) as [|w0 l] eqn:EF; [destruct Hrf|].
            assert (Hw0 : In w0 (filter (num_at (key5 kw)) rs)) by (rewrite EF; now left).
            apply filter_In in Hw0 as [_ Hw0]. apply num_at_key5 in Hw0 as (_ & _ & Ew).
            rewrite <- EF. f_equal. f_equal.
            * unfold mkc. cbn [k_num]. unfold adds. now rewrite adds_num.
            * f_equal. unfold mkc. cbn [k_den]. unfold adds. rewrite adds_den. cbn [b_empty b_den app].
              rewrite (dens_key kw (K_bench kw Hkw)). f_equal. rewrite <- Ew. reflexivity.
      Qed.
    End Cell.

    (** ** the table *)
    Lemma table_meets combine :
      option_map canon_series (table_series combine (adds rs) en (u, t)) = Some (spec_table combine rs (u, t)).
    Proof.
      unfold table_series. rewrite contribs_ok. cbn [option_map]. f_equal.
      unfold finish, canon_series, spec_table. cbn [se_unit se_benchmarks se_series se_hp se_cells fst snd].
      change (filter (fun r => beq (r_unit r) u && beq (r_table r) t) rs) with R.
      rewrite bench_eq, series_eq. f_equal.
      - apply flat_map_ext. intros s. apply hp_eq.
      - rewrite map_flat_map. apply flat_map_ext. intros b.
        rewrite map_flat_map. apply flat_map_ext. intros s. apply cell_eq.
    Qed.
  End NoErr.

  (** ** a stamp that does not normalise makes the table fail *)
  Lemma table_err_date combine r :
    In r rs -> inT r = true -> ndate r = None -> table_series combine (adds rs) en (u, t) = None.
  Proof.
    intros Hin HT Hd. unfold table_series. rewrite table_contribs_flat.
    assert (E : forallb date_ok (e_cells en u t) = false).
    { destruct (forallb date_ok (e_cells en u t)) eqn:E; auto. rewrite forallb_forall in E.
      assert (Hbe : In (r_bench r, r_exp r) (e_cells en u t)) by (apply cells_in; eauto).
      apply E in Hbe. unfold date_ok in Hbe. cbn [snd] in Hbe. unfold ndate in Hd. now rewrite Hd in Hbe. }
    now rewrite E.
  Qed.

  Lemma table_err_ser combine r :
    In r rs -> inT r = true -> is_num r = true -> nser r = None ->
    table_series combine (adds rs) en (u, t) = None.
  Proof.
    intros Hin HT Hn Hs. unfold table_series. rewrite table_contribs_flat.
    destruct (forallb date_ok (e_cells en u t)); auto.
    rewrite (omapM_none _ _ (kof r)); auto.
    - now apply key_of_num.
    - rewrite (kc_key (kof r) r Hin); [|now apply num_at_key5]. rewrite Hs. now destruct (ndate r).
  Qed.
End Table.

(** * the whole result *)
Lemma spec_err_false rs : spec_err rs = false ->
  (forall r, In r rs -> ndate r <> None) /\ (forall r, In r rs -> is_num r = true -> nser r <> None).
Proof.
  unfold spec_err. intros H. apply orb_false_iff in H as [H1 H2]. split.
  - intros r Hin E. assert (Ht : existsb (fun r => match ndate r with None => true | Some _ => false end) rs = true).
    { apply existsb_exists. exists r. split; auto. now rewrite E. }
    congruence.
  - intros r Hin Hn E.
    assert (Ht : existsb (fun r => is_num r && match nser r with None => true | Some _ => false end) rs = true).
    { apply existsb_exists. exists r. split; auto. now rewrite Hn, E. }
    congruence.
Qed.

Lemma spec_err_true rs : spec_err rs = true ->
  exists r, In r rs /\ (ndate r = None \/ (is_num r = true /\ nser r = None)).
Proof.
  unfold spec_err. intros H. apply orb_true_iff in H as [H|H]; apply existsb_exists in H as (r & Hin & Hr); exists r; split; auto.
  - left. now destruct (ndate r).
  - right. apply andb_true_iff in Hr as [Hn Hs]. split; auto. now destruct (nser r).
Qed.

(** the tables enumerated are the (unit, table) pairs of the results *)
Lemma tables_eq rs en : valid_enum (adds rs) en ->
  usort cmp2 (e_tables en) = usort cmp2 (map (fun r => (r_unit r, r_table r)) rs).
Proof.
  intros Hv. apply usort2_ext. intros [u t]. rewrite (ve_tables _ _ Hv), in_map_iff. split.
  - intros (bench & exp & H). rewrite trial_of in H. apply existsb_exists in H as (r & Hin & Hk).
    apply keqb_eq in Hk. unfold tkey in Hk. injection Hk as E1 E2 _ _. exists r. split; auto. congruence.
  - intros (r & E & Hin). injection E as E1 E2. exists (r_bench r), (r_exp r).
    rewrite trial_of. apply existsb_exists. exists r. split; auto. apply keqb_eq. unfold tkey. congruence.
Qed.

Lemma in_tables rs r : In r rs ->
  In (r_unit r, r_table r) (usort cmp2 (map (fun r => (r_unit r, r_table r)) rs)).
Proof. intros Hin. apply (usort_in cmp2 cmp2_eq). apply in_map_iff. eauto. Qed.

Lemma inT_self r : inT (r_unit r) (r_table r) r = true.
Proof. unfold inT. now rewrite !beq_refl. Qed.

(** MAIN THEOREM: for all well-formed result sets, both policies and every
    valid enumeration of the maps, the model returns the specified series *)
Theorem series_meets_spec combine rs en :
  WFset rs -> valid_enum (adds rs) en ->
  canon (all_comparison_series combine (adds rs) en) = spec_series combine rs.
Proof.
  intros Hwf Hv. unfold all_comparison_series, canon, spec_series. rewrite (tables_eq rs en Hv).
  destruct (spec_err rs) eqn:E.
  - apply spec_err_true in E as (r & Hin & Hr).
    assert (Hn : table_series combine (adds rs) en (r_unit r, r_table r) = None).
    { destruct Hr as [Hd|[Hn Hs]].
      - eapply table_err_date; eauto using inT_self.
      - eapply table_err_ser; eauto using inT_self. }
    now rewrite (omapM_none _ _ _ (in_tables rs r Hin) Hn).
  - apply spec_err_false in E as [Hnd Hns].
    apply omapM_canon_total. intros [u t] _. now apply table_meets.
Qed.

(** * which measurements a cell consists of *)
Lemma vsort_perm_id l : Permutation (vsort l) l.
Proof. apply Permutation_sym, isort_perm. Qed.

Section Members.
  Variables (rs : list res) (u t b s : bytes).
  Hypothesis Hwf : WFset rs.
  Local Notation RR := (filter (inT u t) rs).
  Local Notation NN := (filter (predN b s) RR).

  Lemma num_matches_combine cell r : oc_bench cell = b -> oc_ser cell = s ->
    num_matches true u t cell r = inT u t r && predN b s r.
  Proof.
    intros Hb Hs. unfold num_matches, inT, predN. rewrite Hb, Hs.
    destruct (is_num r), (beq (r_unit r) u), (beq (r_table r) t), (beq (r_bench r) b),
             (osome_eqb (nser r) s); reflexivity.
  Qed.

  Lemma num_matches_replace cell r : oc_bench cell = b -> oc_ser cell = s ->
    num_matches false u t cell r = inT u t r && predN b s r && osome_eqb (ndate r) (oc_date cell).
  Proof.
    intros Hb Hs. unfold num_matches, inT, predN. rewrite Hb, Hs.
    destruct (is_num r), (beq (r_unit r) u), (beq (r_table r) t), (beq (r_bench r) b),
             (osome_eqb (nser r) s), (osome_eqb (ndate r) (oc_date cell)); reflexivity.
  Qed.

  Lemma NN_eq : NN = filter (fun r => inT u t r && predN b s r) rs.
  Proof. apply filter_filter. Qed.

  Lemma spec_cell_members combine cell :
    In cell (spec_cell combine RR b s) ->
    Permutation (oc_num cell) (map r_val (filter (num_matches combine u t cell) rs)) /\
    Permutation (oc_den cell) (map r_val (filter (den_matches combine u t cell rs) rs)).
  Proof.
    intros Hc.
    assert (HN : NN <> []).
    { intros E. now rewrite (spec_cell_nil combine RR b s E) in Hc. }
    destruct combine.
    - (* DUPE_COMBINE *)
      rewrite (spec_cell_combine RR b s HN) in Hc. destruct Hc as [<-|[]].
      cbn [oc_num oc_den].
      set (cell := mkO b s _ _ _).
      assert (HNm : NN = filter (num_matches true u t cell) rs).
      { rewrite NN_eq. apply filter_ext. intros r. symmetry. now apply num_matches_combine. }
      split.
      + eapply perm_trans; [apply vsort_perm_id|]. now rewrite HNm.
      + eapply perm_trans; [apply vsort_perm_id|].
        set (sel := fun (e : bytes) (x : res) => is_den x && beq (r_bench x) b && beq (r_exp x) e).
        set (E := dedup beq [] (map r_exp NN)).
        assert (HE : forall e, In e E <-> exists n, In n rs /\ num_matches true u t cell n = true /\ r_exp n = e).
        { intros e. unfold E. rewrite (dedup_in beq beq_eq), in_map_iff. rewrite HNm. split.
          - intros [(n & <- & Hn) _]. apply filter_In in Hn as [Hin Hm]. eauto.
          - intros (n & Hin & Hm & <-). split; [|intros []]. exists n. split; auto. now apply filter_In. }
        change (flat_map (densR RR b) E) with (flat_map (fun e => map r_val (filter (sel e) RR)) E).
        rewrite <- map_flat_map. apply Permutation_map.
        eapply perm_trans.
        { apply partition_perm; [apply (dedup_nodup beq beq_eq)|].
          intros x e e' _ _ _ H1 H2. unfold sel in H1, H2.
          apply andb_true_iff in H1 as [_ H1], H2 as [_ H2]. apply beq_eq in H1, H2. congruence. }
        rewrite filter_filter.
        rewrite (filter_ext_in _ (den_matches true u t cell rs)); [reflexivity|].
        intros x Hx. apply eq_iff_eq_true. unfold den_matches, inT, sel. cbn [oc_bench cell].
        rewrite !andb_true_iff, !existsb_exists, !beq_eq. split.
        * intros [[Hu Ht] (e & He & Hs)]. rewrite !andb_true_iff, !beq_eq in Hs. destruct Hs as [[Hd Hb] Hex].
          apply HE in He as (n & Hin & Hm & Hen). repeat split; auto.
          exists n. split; auto. apply andb_true_iff. split; auto. apply beq_eq. congruence.
        * intros [[[[Hd Hu] Ht] Hb] (n & Hin & Hm)]. apply andb_true_iff in Hm as [Hm Hen]. apply beq_eq in Hen.
          split; auto. exists (r_exp x). split; [apply HE; eauto|].
          rewrite Hd, Hb, !beq_refl. reflexivity.
    - (* DUPE_REPLACE *)
      rewrite (spec_cell_replace RR b s HN) in Hc.
      set (dmax := bmax (omap_filter ndate NN)) in *.
      destruct (filter (fun r => osome_eqb (ndate r) dmax) NN) as [|w l] eqn:EF; [destruct Hc|].
      destruct Hc as [<-|[]]. cbn [oc_num oc_den].
      set (cell := mkO b s dmax _ _).
      assert (HNm : w :: l = filter (num_matches false u t cell) rs).
      { rewrite <- EF, NN_eq, filter_filter. apply filter_ext. intros r. symmetry.
        now apply num_matches_replace. }
      split.
      + eapply perm_trans; [apply vsort_perm_id|]. now rewrite HNm.
      + eapply perm_trans; [apply vsort_perm_id|]. unfold densR. rewrite filter_filter.
        rewrite (filter_ext_in _ (den_matches false u t cell rs)); [reflexivity|].
        intros x Hx. apply eq_iff_eq_true. unfold den_matches, inT. cbn [oc_bench cell].
        assert (Hw : In w rs /\ num_matches false u t cell w = true).
        { apply filter_In. rewrite <- HNm. now left. }
        destruct Hw as [Hwin Hwm].
        rewrite !andb_true_iff, !existsb_exists, !beq_eq. split.
        * intros [[Hu Ht] [[Hd Hb] Hex]]. repeat split; auto.
          exists w. split; auto. apply andb_true_iff. split; auto. apply beq_eq. congruence.
        * intros [[[[Hd Hu] Ht] Hb] (n & Hin & Hm)]. apply andb_true_iff in Hm as [Hm Hen]. apply beq_eq in Hen.
          repeat split; auto. rewrite <- Hen.
          (* all matching numerators belong to one experiment: wf_dates *)
          rewrite (num_matches_replace cell n eq_refl eq_refl) in Hm.
          rewrite (num_matches_replace cell w eq_refl eq_refl) in Hwm.
          apply andb_true_iff in Hm as [Hm Hdn], Hwm as [Hwm Hdw].
          apply andb_true_iff in Hm as [HTn Hpn], Hwm as [HTw Hpw].
          apply inT_true in HTn as [E1 E2], HTw as [E1' E2'].
          unfold predN in Hpn, Hpw. rewrite !andb_true_iff, beq_eq, osome_eqb_true in Hpn, Hpw.
          destruct Hpn as [[Hnn Hbn] Hsn], Hpw as [[Hnw Hbw] Hsw].
          apply osome_eqb_true in Hdn, Hdw. cbn [oc_date cell] in Hdn, Hdw.
          apply (wf_dates _ Hwf n w s dmax); auto; congruence.
  Qed.
End Members.

Lemma spec_series_some combine rs l : spec_series combine rs = Some l ->
  l = map (spec_table combine rs) (usort cmp2 (map (fun r => (r_unit r, r_table r)) rs)).
Proof. unfold spec_series. destruct (spec_err rs); [discriminate | now intros [= <-]]. Qed.

Lemma spec_table_cell combine rs u t cell :
  In cell (se_cells (spec_table combine rs (u, t))) ->
  exists b s, In cell (spec_cell combine (filter (inT u t) rs) b s).
Proof.
  unfold spec_table. cbn [se_cells fst snd]. intros H.
  apply in_flat_map in H as (b & _ & H). apply in_flat_map in H as (s & _ & H). exists b, s. exact H.
Qed.

(** the i-th series of the result belongs to the i-th (unit, table) pair of the
    result set in sorted order, and is labelled with its unit string *)
Theorem series_units combine rs en l :
  WFset rs -> valid_enum (adds rs) en ->
  canon (all_comparison_series combine (adds rs) en) = Some l ->
  map se_unit l = map (fun ut => ustring (fst ut) (snd ut))
                      (usort cmp2 (map (fun r => (r_unit r, r_table r)) rs)).
Proof.
  intros Hwf Hv Hl. rewrite (series_meets_spec _ _ _ Hwf Hv) in Hl. apply spec_series_some in Hl.
  subst l. rewrite map_map. reflexivity.
Qed.

(** SAMPLE MEMBERSHIP.  Every cell of the output consists of EXACTLY the
    measurements of the result set that match it, with multiplicities: its
    numerator samples are the values of the numerators of the table with the
    cell's benchmark and series point (and, under DUPE_REPLACE, the cell's
    date), its denominator samples are the values of the denominators of the
    table and benchmark whose experiment is that of a matching numerator.

    The table of a series is identified by its POSITION: [ustring u t] does not
    determine (u, t) (a unit "a b" without table and the unit "a" with table
    "b" give the same string), so "the series whose unit string is ustring u t"
    may be another table's; the i-th series is that of the i-th (unit, table)
    pair in sorted order (series_units gives the lengths and the labels). *)
Theorem sample_membership combine rs en l i ser u t cell :
  WFset rs -> valid_enum (adds rs) en ->
  canon (all_comparison_series combine (adds rs) en) = Some l ->
  nth_error l i = Some ser ->
  nth_error (usort cmp2 (map (fun r => (r_unit r, r_table r)) rs)) i = Some (u, t) ->
  In cell (se_cells ser) ->
  Permutation (oc_num cell) (map r_val (filter (num_matches combine u t cell) rs)) /\
  Permutation (oc_den cell) (map r_val (filter (den_matches combine u t cell rs) rs)).
Proof.
  intros Hwf Hv Hl Hi Ht Hc. rewrite (series_meets_spec _ _ _ Hwf Hv) in Hl. apply spec_series_some in Hl.
  subst l. rewrite (map_nth_error _ _ _ Ht) in Hi. injection Hi as <-.
  apply spec_table_cell in Hc as (b & s & Hc). eapply spec_cell_members; eauto.
Qed.

(** the same without positions: every series of the result is that of SOME
    (unit, table) pair of the result set with that unit string *)
Corollary sample_membership_in combine rs en l ser :
  WFset rs -> valid_enum (adds rs) en ->
  canon (all_comparison_series combine (adds rs) en) = Some l ->
  In ser l ->
  exists u t, In (u, t) (map (fun r => (r_unit r, r_table r)) rs) /\ se_unit ser = ustring u t /\
    forall cell, In cell (se_cells ser) ->
      Permutation (oc_num cell) (map r_val (filter (num_matches combine u t cell) rs)) /\
      Permutation (oc_den cell) (map r_val (filter (den_matches combine u t cell rs) rs)).
Proof.
  intros Hwf Hv Hl Hs. apply In_nth_error in Hs as (i & Hi).
  pose proof (series_units combine rs en l Hwf Hv Hl) as Hu.
  assert (Hiu : nth_error (map se_unit l) i = Some (se_unit ser)) by now apply map_nth_error.
  rewrite Hu in Hiu.
  destruct (nth_error (usort cmp2 (map (fun r => (r_unit r, r_table r)) rs)) i) as [[u t]|] eqn:Et.
  - rewrite (map_nth_error _ _ _ Et) in Hiu. injection Hiu as Hiu. cbn [fst snd] in Hiu.
    exists u, t. split; [|split; [now symmetry|]].
    + apply nth_error_In in Et. exact (proj1 (usort_in cmp2 cmp2_eq _ _) Et).
    + intros cell Hc. eapply sample_membership; eauto.
  - exfalso. apply nth_error_None in Et. rewrite <- (map_length (fun ut => ustring (fst ut) (snd ut))) in Et.
    apply nth_error_None in Et. congruence.
Qed.

(** * the executable well-formedness test is sound *)
Lemma forallb2 (P : res -> res -> bool) rs :
  forallb (fun r => forallb (fun r' => P r r') rs) rs = true ->
  forall r r', In r rs -> In r' rs -> P r r' = true.
Proof.
  intros H r r' Hr Hr'. rewrite forallb_forall in H. specialize (H r Hr).
  rewrite forallb_forall in H. auto.
Qed.

Lemma same_table_true r r' : r_unit r = r_unit r' -> r_table r = r_table r' -> same_table r r' = true.
Proof. intros E1 E2. unfold same_table. now rewrite E1, E2, !beq_refl. Qed.

Theorem wfset_b_sound rs : wf_a rs && wf_b rs && wf_c rs && wf_d rs = true -> WFset rs.
Proof.
  rewrite !andb_true_iff. intros [[[Ha Hb] Hc] Hd]. split.
  - intros r r' Hr Hr' Hn Hn' E. unfold wf_a in Ha.
    pose proof (forallb2 _ rs Ha r r' Hr Hr') as H. cbn beta in H.
    rewrite Hn, Hn', E, beq_refl in H. cbn [andb negb orb] in H. now apply beq_eq.
  - intros r r' Hr Hr' Hn Hn' E. unfold wf_c in Hc.
    pose proof (forallb2 _ rs Hc r r' Hr Hr') as H. cbn beta in H.
    rewrite Hn, Hn', E, keqb_refl in H. cbn [andb negb orb] in H. now apply beq_eq.
  - intros r r' s Hr Hr' Hn Hn' E1 E2 Hs Hs'. unfold wf_b in Hb.
    pose proof (forallb2 _ rs Hb r r' Hr Hr') as H. cbn beta in H.
    unfold nser in H. rewrite Hn, Hn', (same_table_true r r' E1 E2), Hs, Hs', beq_refl in H.
    cbn [andb negb orb] in H. apply andb_true_iff in H as [H1 H2]. now apply beq_eq in H1, H2.
  - intros r r' s d Hr Hr' Hn Hn' E1 E2 E3 Hs Hs' Hdt Hdt'. unfold wf_d in Hd.
    pose proof (forallb2 _ rs Hd r r' Hr Hr') as H. cbn beta in H.
    unfold nser, ndate in H.
    rewrite Hn, Hn', (same_table_true r r' E1 E2), E3, Hs, Hs', Hdt, Hdt', !beq_refl in H.
    cbn [andb negb orb] in H. now apply beq_eq.
Qed.

(** * non-vacuity: a concrete well-formed result set *)
From Coq Require Strings.String.

Module Ex.
  Import Strings.String.
  Definition e1 := bs "20220101T000000".
  Definition e2 := bs "2022-01-02T00:00:00Z".
  Definition s1 := bs "20211201T000000".
  Definition s2 := bs "20211202T000000".
  Definition E1 := bs "2022-01-01T00:00:00+00:00".
  Definition E2 := bs "2022-01-02T00:00:00+00:00".
  Definition S1 := bs "2021-12-01T00:00:00+00:00".
  Definition S2 := bs "2021-12-02T00:00:00+00:00".
  Definition mk (unit bench : string) (exp ser : bytes) (ro : role) (nh dh : string) (v : Z) : res :=
    mkRes (bs unit) [] (bs bench) exp ser ro (bs nh) (bs dh) v.

  (** two tables; in "sec/op": benchmark A measured in two experiments at the
      series point of commit h1 and once at that of h2, benchmark B once, a
      result C that is neither numerator nor denominator; "B/op": a numerator
      without baseline.  Results are interleaved. *)
  Definition rs : list res :=
    [ mk "sec/op" "A" e2 s1 RNum "h1" "d" 22;
      mk "sec/op" "A" e1 s1 RDen "h1" "d" 11;
      mk "sec/op" "A" e1 s1 RNum "h1" "d" 21;
      mk "B/op"   "A" e1 s1 RNum "h1" "d" 100;
      mk "sec/op" "B" e1 s1 RNum "h1" "d" 5;
      mk "sec/op" "A" e1 s1 RNum "h1" "d" 20;
      mk "sec/op" "C" e1 s1 ROther "" "" 99;
      mk "sec/op" "A" e2 s2 RNum "h2" "d" 30;
      mk "sec/op" "A" e1 s1 RDen "h1" "d" 10;
      mk "sec/op" "B" e1 s1 RDen "h1" "d" 7;
      mk "sec/op" "A" e2 s1 RDen "h1" "d" 12 ].
End Ex.

Example ex_wf : WFset Ex.rs.
Proof. apply wfset_b_sound. vm_compute. reflexivity. Qed.

Definition ex_replace : list series :=
  [ mkSeries (bs "B/op") [bs "A"] [Ex.S1] [(Ex.S1, (bs "h1", []))]
      [mkO (bs "A") Ex.S1 Ex.E1 [100] []];
    mkSeries (bs "sec/op") [bs "A"; bs "B"; bs "C"] [Ex.S1; Ex.S2]
      [(Ex.S1, (bs "h1", bs "d")); (Ex.S2, (bs "h2", bs "d"))]
      [mkO (bs "A") Ex.S1 Ex.E2 [22] [12];
       mkO (bs "A") Ex.S2 Ex.E2 [30] [12];
       mkO (bs "B") Ex.S1 Ex.E1 [5] [7]] ].

Definition ex_combine : list series :=
  [ mkSeries (bs "B/op") [bs "A"] [Ex.S1] [(Ex.S1, (bs "h1", []))]
      [mkO (bs "A") Ex.S1 Ex.E1 [100] []];
    mkSeries (bs "sec/op") [bs "A"; bs "B"; bs "C"] [Ex.S1; Ex.S2]
      [(Ex.S1, (bs "h1", bs "d")); (Ex.S2, (bs "h2", bs "d"))]
      [mkO (bs "A") Ex.S1 Ex.E2 [20; 21; 22] [10; 11; 12];
       mkO (bs "A") Ex.S2 Ex.E2 [30] [12];
       mkO (bs "B") Ex.S1 Ex.E1 [5] [7]] ].

(** the specification and the model, computed *)
Example ex_spec : spec_series false Ex.rs = Some ex_replace /\ spec_series true Ex.rs = Some ex_combine.
Proof. split; vm_compute; reflexivity. Qed.

Example ex_model :
  canon (all_comparison_series false (adds Ex.rs) (first_enum Ex.rs)) = Some ex_replace /\
  canon (all_comparison_series true (adds (rev Ex.rs)) (first_enum (rev Ex.rs))) = Some ex_combine.
Proof. split; vm_compute; reflexivity. Qed.

(** the theorem applied to it (any policy, any valid enumeration) *)
Example ex_meets combine en : valid_enum (adds Ex.rs) en ->
  canon (all_comparison_series combine (adds Ex.rs) en) = Some (if combine then ex_combine else ex_replace).
Proof.
  intros Hv. rewrite (series_meets_spec combine Ex.rs en ex_wf Hv).
  destruct combine; [apply ex_spec | apply ex_spec].
Qed.

(** the error outcome is reachable within WFset: a numerator whose series stamp
    does not normalise *)
Example ex_err :
  let rs := [Ex.mk "sec/op" "A" Ex.e1 (bs "yesterday") RNum "h" "d" 1] in
  WFset rs /\ spec_series false rs = None /\
  canon (all_comparison_series false (adds rs) (first_enum rs)) = None.
Proof. split; [apply wfset_b_sound|split]; vm_compute; reflexivity. Qed.

(** the matchers on it: the combined cell (A, S1) of the second table consists
    of the three numerators and the three denominators of benchmark A in the
    two experiments, in the order they occur in the result set *)
Example ex_members :
  let cell := mkO (bs "A") Ex.S1 Ex.E2 [20; 21; 22] [10; 11; 12] in
  map r_val (filter (num_matches true (bs "sec/op") [] cell) Ex.rs) = [22; 21; 20] /\
  map r_val (filter (den_matches true (bs "sec/op") [] cell Ex.rs) Ex.rs) = [11; 10; 12] /\
  map r_val (filter (num_matches false (bs "sec/op") [] (mkO (bs "A") Ex.S1 Ex.E2 [22] [12])) Ex.rs) = [22] /\
  map r_val (filter (den_matches false (bs "sec/op") [] (mkO (bs "A") Ex.S1 Ex.E2 [22] [12]) Ex.rs) Ex.rs) = [12].
Proof. vm_compute. repeat split. Qed.

(** the unit string does not determine the (unit, table) pair *)
Example ustring_not_injective :
  ustring (bs "a b") [] = ustring (bs "a") (bs "b") /\ (bs "a b", @nil byte) <> (bs "a", bs "b").
Proof. split; [reflexivity | discriminate]. Qed.

Print Assumptions series_meets_spec.
Print Assumptions sample_membership.
Print Assumptions sample_membership_in.
Print Assumptions series_units.
Print Assumptions wfset_b_sound.

