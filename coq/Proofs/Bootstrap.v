(** Proofs about Model/Bootstrap.v: the repaired summary is ordered. *)
From Coq Require Import ZArith List Bool Lia.
From Perf Require Import Base.B64 Model.Bootstrap.
Import ListNotations.
Local Open Scope Z_scope.

Lemma SFcompare_total x y :
  b64_is_nan x = false -> b64_is_nan y = false -> exists c, SFcompare x y = Some c.
Proof.
  destruct x, y; cbn; try discriminate; eauto.
Qed.

Lemma SFcompare_antisym x y c :
  SFcompare x y = Some c -> SFcompare y x = Some (CompOpp c).
Proof.
  destruct x as [sx|sx| |sx mx ex], y as [sy|sy| |sy my ey]; cbn; try discriminate;
    try (intros [= <-]; try destruct sx; try destruct sy; reflexivity).
  intros [= <-]. f_equal.
  destruct sx, sy; cbn; try reflexivity.
  - rewrite (Z.compare_antisym ex ey). destruct (ex ?= ey); cbn; try reflexivity.
    rewrite (Pos.compare_cont_antisym mx my Eq). cbn.
    destruct (Pos.compare_cont Eq mx my); reflexivity.
  - rewrite (Z.compare_antisym ex ey). destruct (ex ?= ey); cbn; try reflexivity.
    rewrite (Pos.compare_cont_antisym mx my Eq). reflexivity.
Qed.

Lemma SFcompare_refl x : b64_is_nan x = false -> SFcompare x x = Some Eq.
Proof.
  destruct x as [s|s| |s m e]; cbn; try discriminate; try (destruct s; reflexivity).
  intros _. destruct s; rewrite Z.compare_refl; change (Pos.compare_cont Eq m m) with (Pos.compare m m); rewrite Pos.compare_refl; reflexivity.
Qed.

Lemma b64_le_refl x : b64_is_nan x = false -> b64_le x x = true.
Proof. intros H. unfold b64_le, SFleb. now rewrite SFcompare_refl. Qed.

Lemma not_lt_le x y :
  b64_is_nan x = false -> b64_is_nan y = false -> b64_lt y x = false -> b64_le x y = true.
Proof.
  intros Hx Hy. unfold b64_lt, b64_le, SFltb, SFleb.
  destruct (SFcompare_total x y Hx Hy) as [c Hc].
  rewrite Hc, (SFcompare_antisym _ _ _ Hc). destruct c; cbn; congruence.
Qed.

(** the interval of the repaired summary contains its centre *)
Theorem clamp_ordered s :
  b64_is_nan (s_center s) = false -> b64_is_nan (s_low s) = false -> b64_is_nan (s_high s) = false ->
  b64_le (s_low (clamp_summary s)) (s_center (clamp_summary s)) = true /\
  b64_le (s_center (clamp_summary s)) (s_high (clamp_summary s)) = true.
Proof.
  intros Hc Hl Hh. unfold clamp_summary; cbn [s_low s_center s_high]. split.
  - destruct (b64_gt (s_low s) (s_center s)) eqn:E.
    + now apply b64_le_refl.
    + apply not_lt_le; auto.
  - destruct (b64_lt (s_high s) (s_center s)) eqn:E.
    + now apply b64_le_refl.
    + apply not_lt_le; auto.
Qed.

Definition summary_no_nan (s : summary) : Prop :=
  b64_is_nan (s_center s) = false /\ b64_is_nan (s_low s) = false /\ b64_is_nan (s_high s) = false.

(** bootstrap_ordered: whatever the samples, the confidence, the resample count
    and the random stream, a NaN-free summary of the repaired [ratio] satisfies
    low <= centre <= high *)
Theorem bootstrap_ordered nu de conf n stream sorted s0 :
  ratio_asis nu de conf n stream = Some (sorted, Some s0) -> summary_no_nan s0 ->
  exists s, ratio nu de conf n stream = Some (sorted, Some s) /\
            s_center s = s_center s0 /\
            b64_le (s_low s) (s_center s) = true /\ b64_le (s_center s) (s_high s) = true.
Proof.
  unfold ratio, ratio_asis, ratio_gen, summarize. intros H (Hc & Hl & Hh).
  destruct (ratios_loop n nu de stream) as [rs|]; [|discriminate].
  injection H as <- H. rewrite H. cbn [option_map].
  eexists; split; [reflexivity|]. split; [reflexivity|]. now apply clamp_ordered.
Qed.

(** the seed and hence the summary are functions of the two samples alone
    (given the library's stream for that seed) *)
Theorem bootstrap_reproducible nu de nu' de' :
  nu = nu' -> de = de' -> bootstrap_seed nu de = bootstrap_seed nu' de'.
Proof. now intros -> ->. Qed.

(** the unrepaired summary violates low <= centre (tiny confidence, N = 2) *)
Definition f (z : Z) : b64 := b64_of_Z z.
Theorem ordered_refuted_asis :
  exists conf sorted s, summarize_asis conf sorted = Some s /\ b64_le (s_low s) (s_center s) = false.
Proof.
  exists (b64_div (f 1) (f 1000)), [f 1; f 2]. eexists. split; [vm_compute; reflexivity|]. vm_compute. reflexivity.
Qed.

(** percentile leaves the hull of a constant vector by one ulp: a[i]*(1-x) + a[i+1]*x *)
Theorem percentile_in_hull_refuted :
  exists a p r, percentile a p = Some r /\ Forall (fun x => x = hd S754_nan a) a /\ b64_same r (hd S754_nan a) = false.
Proof.
  (* two copies of 3/7, confidence 0.9: the result is one ulp BELOW 3/7 *)
  exists (repeat (b64_div (f 3) (f 7)) 2), (b64_div (b64_sub (f 1) (b64_div (f 9) (f 10))) (f 2)).
  eexists. split; [vm_compute; reflexivity|]. split.
  - repeat constructor.
  - vm_compute. reflexivity.
Qed.
