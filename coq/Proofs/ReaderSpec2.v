(** The specification of Model/ReaderSpec.v section 5 (file configuration and
    tool labels as two maps, no limit on the length of a line) against the
    map specification [linespec] of Model/Reader.v and against the reader:

      - with [relax] it IS [spec_lines] (the labels inside the one map);
      - without [relax] it is [spec_lines], too, on every input none of whose
        key/value lines names a tool label (the two differ exactly on the
        inputs of the known finding C02_file_line_overrides_tool_label);
      - the reader without the scanner's limit refines it, never reports an
        I/O error on lines, and is the reader of Model/Reader.v on texts whose
        lines are short;
      - the same for a caller that stops early and for a sequence of files. *)
From Perf Require Import Base.Bytes Base.B64 Base.Utf8 Base.Unicode Model.Name Model.Extract Model.Units
  Model.Reader Model.Files Model.ReaderSpec Proofs.ReaderSlots Proofs.Reader.
Local Open Scope N_scope.

(** ** appending behind labels that are not touched *)
Definition untouched (lab : cmap) (k : bytes) : Prop := cfg_lookup lab k = None.

Lemma untouched_cons c lab k : untouched (c :: lab) k -> beq (c_key c) k = false /\ untouched lab k.
Proof. unfold untouched. cbn [cfg_lookup]. destruct (beq (c_key c) k); [discriminate|auto]. Qed.

Lemma cm_del_behind lab fm k : untouched lab k -> cm_del (lab ++ fm) k = lab ++ cm_del fm k.
Proof.
  induction lab as [|c lab IH]; intros H; [reflexivity|].
  apply untouched_cons in H as [Hc H]. unfold cm_del in *. cbn [app filter]. rewrite Hc. cbn [negb].
  f_equal. now apply IH.
Qed.

Lemma cm_put_behind lab fm k v f : untouched lab k -> cm_put (lab ++ fm) k v f = lab ++ cm_put fm k v f.
Proof.
  induction lab as [|c lab IH]; intros H; [reflexivity|].
  apply untouched_cons in H as [Hc H]. cbn [app cm_put]. rewrite Hc. f_equal. now apply IH.
Qed.

Lemma cm_set_behind lab fm k v f : untouched lab k -> cm_set (lab ++ fm) k v f = lab ++ cm_set fm k v f.
Proof. intros H. unfold cm_set. destruct (is_nil v); [now apply cm_del_behind|now apply cm_put_behind]. Qed.

Section Spec2.
Variables is_space is_lower is_upper : N -> bool.
Variable atoi : bytes -> option Z.
Variable parse_float : bytes -> option b64.

Notation classify := (classify is_space is_lower is_upper atoi parse_float).
Notation spec_step := (spec_step is_space is_lower is_upper atoi parse_float).
Notation spec_lines := (spec_lines is_space is_lower is_upper atoi parse_float).
Notation spec_lines_take := (spec_lines_take is_space is_lower is_upper atoi parse_float).
Notation spec_step2 := (spec_step2 is_space is_lower is_upper atoi parse_float).
Notation spec_lines2 := (spec_lines2 is_space is_lower is_upper atoi parse_float).
Notation spec_lines_take2 := (spec_lines_take2 is_space is_lower is_upper atoi parse_float).
Notation kv_keys := (kv_keys is_space is_lower is_upper atoi parse_float).
Notation read_lines := (read_lines is_space is_lower is_upper atoi parse_float).
Notation scan_n := (scan_n is_space is_lower is_upper atoi parse_float).
Notation read_file := (read_file is_space is_lower is_upper atoi parse_float).
Notation read_file_take := (read_file_take is_space is_lower is_upper atoi parse_float).
Notation read_file_nl := (read_file_nl is_space is_lower is_upper atoi parse_float).
Notation read_file_take_nl := (read_file_take_nl is_space is_lower is_upper atoi parse_float).
Notation linespec := (linespec is_space is_lower is_upper atoi parse_float).
Notation linespec2 := (linespec2 is_space is_lower is_upper atoi parse_float).
Notation linespec2_on := (linespec2_on is_space is_lower is_upper atoi parse_float).
Notation linespec_take2 := (linespec_take2 is_space is_lower is_upper atoi parse_float).
Notation no_label_collision := (no_label_collision is_space is_lower is_upper atoi parse_float).
Notation files_loop_nl := (files_loop_nl is_space is_lower is_upper atoi parse_float).
Notation files_spec_loop2 := (files_spec_loop2 is_space is_lower is_upper atoi parse_float).

(** one line: the two-map step is the one-map step on [lab ++ fm], as long as
    the line is not a key/value line naming a label *)
Lemma spec_step2_step fname n fm lab um line :
  (forall k v, classify line = LKV k v -> untouched lab k) ->
  spec_step fname n (lab ++ fm) um line =
  (let '(rs, fm1, um1) := spec_step2 fname n fm lab um line in (rs, lab ++ fm1, um1)).
Proof.
  intros H. unfold Reader.spec_step, ReaderSpec.spec_step2.
  destruct (classify line) as [[|k|name it vals]|fs|k v|]; try reflexivity.
  - destruct (unit_line is_space fname n fs um) as [rs um']. reflexivity.
  - rewrite cm_set_behind by (eapply H; reflexivity). reflexivity.
Qed.

Lemma kv_keys_cons b ls k : In k (kv_keys ls) -> In k (kv_keys (Line b :: ls)).
Proof. intros H. unfold ReaderSpec.kv_keys. cbn [flat_map]. apply in_or_app. now right. Qed.

Lemma kv_keys_head b ls k v : classify b = LKV k v -> In k (kv_keys (Line b :: ls)).
Proof. intros H. unfold ReaderSpec.kv_keys. cbn [flat_map]. rewrite H. cbn. now left. Qed.

Lemma spec_lines2_lines fname lab ls : forall n fm um,
  (forall k, In k (kv_keys ls) -> untouched lab k) ->
  spec_lines2 fname n fm lab um ls = spec_lines fname n (lab ++ fm) um ls.
Proof.
  induction ls as [|[b|] ls IH]; intros n fm um H; cbn [ReaderSpec.spec_lines2 Reader.spec_lines]; try reflexivity.
  rewrite (spec_step2_step fname (n + 1) fm lab um b)
    by (intros k v Hc; apply H; eapply kv_keys_head; eauto).
  destruct (spec_step2 fname (n + 1) fm lab um b) as [[rs fm1] um1].
  rewrite IH by (intros k Hk; apply H; now apply kv_keys_cons). reflexivity.
Qed.

Lemma spec_lines_take2_lines fname lab ls : forall k n fm um,
  (forall k, In k (kv_keys ls) -> untouched lab k) ->
  spec_lines_take2 fname n fm lab um ls k = spec_lines_take fname n (lab ++ fm) um ls k.
Proof.
  induction ls as [|[b|] ls IH]; intros k n fm um H; destruct k;
    cbn [ReaderSpec.spec_lines_take2 Reader.spec_lines_take]; try reflexivity.
  rewrite (spec_step2_step fname (n + 1) fm lab um b)
    by (intros k' v Hc; apply H; eapply kv_keys_head; eauto).
  destruct (spec_step2 fname (n + 1) fm lab um b) as [[rs fm1] um1].
  destruct (S k <=? length rs)%nat; [reflexivity|].
  rewrite IH by (intros k' Hk; apply H; now apply kv_keys_cons). reflexivity.
Qed.

(** with [relax] the two-map specification is the one-map specification *)
Theorem linespec2_relax ls um fname labels :
  linespec2_on true ls um fname labels = spec_lines (file_name fname) 0 (cm_labels labels) um ls.
Proof.
  unfold ReaderSpec.linespec2_on, init_fm, init_lab.
  rewrite spec_lines2_lines by (intros; reflexivity). reflexivity.
Qed.

(** without [relax] it is the same specification on every input none of whose
    key/value lines names a label of the tool *)
Theorem linespec2_strict ls um fname labels :
  no_label_collision labels ls ->
  linespec2_on false ls um fname labels = spec_lines (file_name fname) 0 (cm_labels labels) um ls.
Proof.
  intros H. unfold ReaderSpec.linespec2_on, init_fm, init_lab.
  rewrite spec_lines2_lines by exact H. now rewrite app_nil_r.
Qed.

Corollary linespec2_strict_relax ls um fname labels :
  no_label_collision labels ls -> linespec2_on false ls um fname labels = linespec2_on true ls um fname labels.
Proof. intros H. now rewrite linespec2_strict, linespec2_relax. Qed.

(** on texts whose lines are all under the scanner's limit, given that the two
    line splitters agree there (Proofs/ReaderSpecKV.v [split_lines_short]) *)
Corollary linespec2_linespec um fname labels content :
  split_lines content = lines_nl content ->
  no_label_collision labels (lines_nl content) ->
  linespec2 false um fname labels content = linespec um fname labels content.
Proof.
  intros Hs H. unfold ReaderSpec.linespec2, Reader.linespec. rewrite Hs. now apply linespec2_strict.
Qed.

(** ** the reader without the limit *)
Lemma read_lines_nl_no_error fname ls : forall n st rs e st',
  read_lines fname n st (map Line ls) = (rs, e, st') -> e = None.
Proof.
  induction ls as [|b ls IH]; intros n st rs e st'; cbn [map Reader.read_lines].
  - now intros [= _ <- _].
  - destruct (step _ _ _ _ _ fname (n + 1) st b) as [rs1 st1].
    destruct (read_lines fname (n + 1) st1 (map Line ls)) as [[rs' e'] st2] eqn:E. intros [= _ <- _]. eauto.
Qed.

(** no line is too long for the repaired reader: reading never fails on lines *)
Theorem reader_nl_no_io_error st fname labels content rs e st' :
  read_file_nl st fname labels content = (rs, e, st') -> e = None.
Proof. unfold ReaderSpec.read_file_nl, lines_nl. apply read_lines_nl_no_error. Qed.

(** the repaired reader, from ANY earlier state, delivers record for record
    what the specification with the recorded deviation allowed prescribes ... *)
Theorem reader_nl_refines_relaxed st fname labels content rs e st' :
  read_file_nl st fname labels content = (rs, e, st') ->
  exists rs2, linespec2 true (rs_units st) fname labels content = (rs2, e, rs_units st') /\
              Forall2 rec_equiv rs rs2.
Proof.
  intros H. unfold ReaderSpec.linespec2. rewrite linespec2_relax.
  unfold ReaderSpec.read_file_nl in H.
  eapply read_lines_refines in H; [exact H|]. cbn [rs_cfg]. apply sim_reset_config.
Qed.

(** ... and what the property itself prescribes (labels that no line of the
    file can change) on every input none of whose key/value lines names a
    label of the tool *)
Theorem reader_nl_refines_spec st fname labels content rs e st' :
  no_label_collision labels (lines_nl content) ->
  read_file_nl st fname labels content = (rs, e, st') ->
  exists rs2, linespec2 false (rs_units st) fname labels content = (rs2, e, rs_units st') /\
              Forall2 rec_equiv rs rs2.
Proof.
  intros Hc H. unfold ReaderSpec.linespec2. rewrite linespec2_strict_relax by exact Hc.
  now apply reader_nl_refines_relaxed.
Qed.

(** the caller stops after [k] Scans *)
Theorem reader_take_nl_refines_spec k st fname labels content rs e st' :
  no_label_collision labels (lines_nl content) ->
  read_file_take_nl k st fname labels content = (rs, e, st') ->
  exists rs2, linespec_take2 false k (rs_units st) fname labels content = (rs2, e, rs_units st') /\
              Forall2 rec_equiv rs rs2.
Proof.
  intros Hc H. unfold ReaderSpec.linespec_take2, init_fm, init_lab.
  rewrite spec_lines_take2_lines by exact Hc. rewrite app_nil_r.
  unfold ReaderSpec.read_file_take_nl in H.
  eapply scan_n_refines in H; [exact H| |reflexivity]. apply sim_reset_config.
Qed.

(** on texts whose lines are short the repaired reader is the reader of
    Model/Reader.v (the model shared with C01 and C14) *)
Theorem read_file_nl_short st fname labels content :
  split_lines content = lines_nl content ->
  read_file_nl st fname labels content = read_file st fname labels content.
Proof. intros H. unfold ReaderSpec.read_file_nl, Reader.read_file. now rewrite H. Qed.

(** ** several files: no configuration leaks, unit metadata carries across.
    The label of Files is ".file"; [Hfile]: no key/value line can spell it
    (its first rune '.' is not a lower-case letter) *)
Definition no_file_key_line (fs : list (bytes * bytes)) : Prop :=
  forall p content i, In (p, content) fs -> no_label_collision [(key_file, fi_label i)] (lines_nl content).

Lemma fs_find_in fs p content : fs_find fs p = Some content -> exists p', In (p', content) fs.
Proof.
  unfold fs_find. destruct (find _ fs) as [[p' c]|] eqn:E; [|discriminate]. intros [= <-].
  apply find_some in E as [Hin _]. eauto.
Qed.

Theorem files_nl_no_leak fs ins : no_file_key_line fs -> forall st rs e st',
  files_loop_nl fs ins st = (rs, e, st') ->
  exists rs2, files_spec_loop2 false fs ins (rs_units st) = (rs2, e, rs_units st') /\ Forall2 rec_equiv rs rs2.
Proof.
  intros Hk. induction ins as [|i ins IH]; intros st rs e st'; cbn [ReaderSpec.files_loop_nl ReaderSpec.files_spec_loop2].
  - intros [= <- <- <-]. exists []. auto.
  - destruct (fs_find fs (fi_path i)) as [content|] eqn:Ef; [|intros [= <- <- <-]; exists []; auto].
    destruct (fs_find_in _ _ _ Ef) as [p' Hin].
    destruct (read_file_nl st (fi_path i) [(key_file, fi_label i)] content) as [[rs1 e1] st1] eqn:E1.
    destruct (reader_nl_refines_spec _ _ _ _ _ _ _ (Hk _ _ i Hin) E1) as (rs2 & Hs & Hf). rewrite Hs.
    destruct e1 as [n|].
    + intros [= <- <- <-]. exists rs2. auto.
    + destruct (files_loop_nl fs ins st1) as [[rs' e'] st2] eqn:E2. intros [= <- <- <-].
      destruct (IH _ _ _ _ E2) as (rs3 & Hs3 & Hf3). rewrite Hs3.
      exists (rs2 ++ rs3). split; auto. now apply Forall2_app.
Qed.

End Spec2.

(** the known finding, on the model of the code: the tool supplies the label
    goos=L; the line "goos:" deletes it, the line "goos: x" replaces it by file
    configuration - the results do not carry the tool's label, and the
    specification (labels apart) differs from what the code does *)
Definition label_witness (line2 : bytes) : bytes := line2 ++ x0a :: bs "BenchmarkX 1 1 ns/op" ++ [x0a].

Theorem label_deleted_by_file_line_refuted :
  let atoi (f : bytes) := if beq f (bs "1") then Some 1%Z else None in
  let pf (f : bytes) := @None b64 in
  let cfgs (x : list record * option Z * rstate) :=
    match x with ([RRes r], None, _) => Some (map (fun c => (c_key c, c_val c, c_file c)) (r_cfg r)) | _ => None end in
  let specs (x : list record * option Z * list umetap) :=
    match x with ([RRes r], None, _) => Some (map (fun c => (c_key c, c_val c, c_file c)) (r_cfg r)) | _ => None end in
  let lab := [(bs "goos", bs "L")] in
  (* the code *)
  cfgs (read_file_nl go_is_space go_is_lower go_is_upper atoi pf rs_empty (bs "f") lab (label_witness (bs "goos:"))) = Some [] /\
  cfgs (read_file_nl go_is_space go_is_lower go_is_upper atoi pf rs_empty (bs "f") lab (label_witness (bs "goos: x")))
    = Some [(bs "goos", bs "x", true)] /\
  (* the property: the label stays *)
  specs (linespec2 go_is_space go_is_lower go_is_upper atoi pf false [] (bs "f") lab (label_witness (bs "goos:")))
    = Some [(bs "goos", bs "L", false)] /\
  specs (linespec2 go_is_space go_is_lower go_is_upper atoi pf false [] (bs "f") lab (label_witness (bs "goos: x")))
    = Some [(bs "goos", bs "L", false); (bs "goos", bs "x", true)].
Proof. vm_compute. repeat split. Qed.
