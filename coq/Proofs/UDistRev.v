(** Reversal symmetry of the specification: reading the pooled ranks from the top
    turns every pair x > y into x < y and keeps ties, so for the reversed tie
    vector the statistic is mirrored, 2U |-> 2 n1 n2 - 2U. For a PALINDROMIC tie
    vector (in particular without ties) the null distribution is therefore
    symmetric about n1 n2 / 2:
      count_eq t n u = count_eq t n (2 n1 n2 - u),  count_ge t n u = count_le t n (2 n1 n2 - u).
    Consequences for the untied counts c_{n,m}(u) = [cuntied n m u]: symmetry in u,
    symmetry under exchanging n and m, the statistic is even (U integral), the
    boundary values, and the lower tail as a sum of c. *)
From Coq Require Import ZArith List Bool Lia Permutation.
From Perf Require Import Model.UStat Model.UDistSpec Model.UDistImpl.
From Perf Require Import Proofs.UStat Proofs.UDistSpec Proofs.UDistImpl Proofs.UDistSum Proofs.UDistUntied.
Import ListNotations.
Local Open Scope Z_scope.

Lemma count_if_ext P Q t n : (forall w, P w = Q w) -> count_if P t n = count_if Q t n.
Proof. intros H. unfold count_if. apply sumf_ext. intros r. now rewrite H. Qed.

(** peel the LOWEST run (the mirror image of count_if_snoc) *)
Theorem count_if_cons P tk t n : 0 <= tk ->
  count_if P (tk :: t) n
  = sumf (fun r => choose tk r * count_if (fun w => P (w + r * (tk - r) + 2 * (tk - r) * (n - r))) t (n - r)) (zrange 0 tk).
Proof.
  intros Htk. unfold count_if. rewrite sumf_vecs_cons by assumption.
  apply sumf_ext. intros r. rewrite <- sumf_scale. apply sumf_ext_in. intros r' Hr'.
  destruct (vecs_in _ _ _ Hr') as (Hl & Hs & _).
  unfold twoU_of. cbn [combine twoU_vec]. rewrite weight_cons.
  rewrite (twoU_vec_shift (tk - r) (combine t r') 0), sumr_combine by exact Hl. rewrite Hs.
  replace (r * (2 * 0 + (tk - r)) + (twoU_vec 0 (combine t r') + 2 * (tk - r) * (n - r)))
    with (twoU_vec 0 (combine t r') + r * (tk - r) + 2 * (tk - r) * (n - r)) by ring.
  destruct (P _); lia.
Qed.

Lemma zsum_rev t : zsum (rev t) = zsum t.
Proof.
  induction t as [|x t IH]; [reflexivity|]. cbn [rev]. rewrite zsum_app, IH.
  change (zsum [x]) with (x + 0). change (zsum (x :: t)) with (x + zsum t). lia.
Qed.

(** the reversed tie vector has the mirrored distribution *)
Theorem count_if_rev t : Forall (fun x => 0 <= x) t -> forall P n,
  count_if P (rev t) n = count_if (fun w => P (2 * (n * (zsum t - n)) - w)) t n.
Proof.
  induction 1 as [|tk t Htk Ht IH]; intros P n.
  - cbn [rev]. unfold count_if. cbn [vecs]. destruct (Z.eqb_spec n 0) as [->|Hn]; [|reflexivity].
    cbn [sumf fold_right]. unfold twoU_of. cbn [combine twoU_vec zsum fold_right]. reflexivity.
  - cbn [rev]. rewrite count_if_snoc by (try apply Forall_rev; assumption).
    rewrite count_if_cons by assumption. apply sumf_ext. intros r. f_equal.
    rewrite IH. apply count_if_ext. intros w. f_equal. rewrite zsum_rev.
    change (zsum (tk :: t)) with (tk + zsum t). ring.
Qed.

(** the upper tail is the lower tail of the mirrored distribution *)
Corollary count_le_rev t n u : Forall (fun x => 0 <= x) t ->
  count_le (rev t) n (2 * (n * (zsum t - n)) - u) = count_ge t n u.
Proof.
  intros Ht. unfold count_le, count_ge. rewrite (count_if_rev t Ht). apply count_if_ext.
  intros w. destruct (Z.leb_spec (2 * (n * (zsum t - n)) - w) (2 * (n * (zsum t - n)) - u)), (Z.leb_spec u w); lia.
Qed.

Lemma total_rev t n : total (rev t) n = total t n.
Proof. unfold total. now rewrite zsum_rev. Qed.

(** ** palindromic tie vectors: the distribution is symmetric *)
Theorem count_if_palindrome t P n : Forall (fun x => 0 <= x) t -> rev t = t ->
  count_if P t n = count_if (fun w => P (2 * (n * (zsum t - n)) - w)) t n.
Proof. intros Ht Hp. rewrite <- Hp at 1. now apply count_if_rev. Qed.

Corollary count_eq_palindrome t n u : Forall (fun x => 0 <= x) t -> rev t = t ->
  count_eq t n u = count_eq t n (2 * (n * (zsum t - n)) - u).
Proof.
  intros Ht Hp. unfold count_eq. rewrite (count_if_palindrome t _ n Ht Hp). apply count_if_ext.
  intros w. destruct (Z.eqb_spec (2 * (n * (zsum t - n)) - w) u), (Z.eqb_spec w (2 * (n * (zsum t - n)) - u)); lia.
Qed.

Corollary count_ge_palindrome t n u : Forall (fun x => 0 <= x) t -> rev t = t ->
  count_ge t n u = count_le t n (2 * (n * (zsum t - n)) - u).
Proof.
  intros Ht Hp. unfold count_ge, count_le. rewrite (count_if_palindrome t _ n Ht Hp). apply count_if_ext.
  intros w. destruct (Z.leb_spec u (2 * (n * (zsum t - n)) - w)), (Z.leb_spec w (2 * (n * (zsum t - n)) - u)); lia.
Qed.

Theorem palindrome_distribution_symmetric t n u : Forall (fun x => 0 <= x) t -> rev t = t ->
  count_eq t n u = count_eq t n (2 * (n * (zsum t - n)) - u) /\
  count_ge t n u = count_le t n (2 * (n * (zsum t - n)) - u).
Proof. intros Ht Hp. split; [now apply count_eq_palindrome | now apply count_ge_palindrome]. Qed.

(** ** range of the statistic, for the mass function *)
Lemma count_eq_out t n u : Forall (fun x => 0 <= x) t -> u < 0 \/ 2 * (n * (zsum t - n)) < u ->
  count_eq t n u = 0.
Proof.
  intros Ht Hu. unfold count_eq, count_if.
  transitivity (sumf (fun _ : list Z => 0) (vecs t n)); [|apply sumf_zero].
  apply sumf_ext_in. intros r Hr. pose proof (twoU_of_range t n r Ht Hr).
  destruct (Z.eqb_spec (twoU_of t r) u); [lia | reflexivity].
Qed.

Lemma count_if_le_all P t n : count_if P t n <= count_all t n.
Proof.
  unfold count_all, count_if. induction (vecs t n) as [|r l IH]; [cbn; lia|].
  rewrite !sumf_cons. pose proof (weight_nonneg t r). destruct (P _); lia.
Qed.

Lemma count_le_mono t n u v : u <= v -> count_le t n u <= count_le t n v.
Proof.
  intros Huv. unfold count_le, count_if. induction (vecs t n) as [|r l IH]; [cbn; lia|].
  rewrite !sumf_cons. pose proof (weight_nonneg t r).
  destruct (Z.leb_spec (twoU_of t r) u), (Z.leb_spec (twoU_of t r) v); lia.
Qed.

(** ** the untied tie vector *)
Lemma repeat_snoc {A} (x : A) k : repeat x k ++ [x] = x :: repeat x k.
Proof. induction k as [|k IH]; [reflexivity|]. cbn [repeat app]. now rewrite IH. Qed.

Lemma rev_repeat {A} (x : A) k : rev (repeat x k) = repeat x k.
Proof. induction k as [|k IH]; [reflexivity|]. cbn [repeat rev]. rewrite IH. apply repeat_snoc. Qed.

Lemma ones_palindrome N : rev (ones N) = ones N.
Proof. apply rev_repeat. Qed.

(** c_{n,m}(u) = c_{n,m}(nm - u) *)
Theorem cuntied_sym n m u : 0 <= n -> 0 <= m -> cuntied n m u = cuntied n m (n * m - u).
Proof.
  intros Hn Hm. unfold cuntied.
  rewrite (count_eq_palindrome (ones (n + m)) n (2 * u) (ones_nonneg _) (ones_palindrome _)).
  rewrite ones_sum by lia. f_equal. ring.
Qed.

(** c_{n,m}(u) = c_{m,n}(u): complement bijection, then the symmetry in u *)
Theorem cuntied_swap n m u : 0 <= n -> 0 <= m -> cuntied n m u = cuntied m n u.
Proof.
  intros Hn Hm. rewrite (cuntied_sym m n u) by assumption. unfold cuntied.
  pose proof (count_if_compl (fun w => w =? 2 * u) (ones (n + m)) m (ones_nonneg _)) as H.
  rewrite ones_sum in H by lia. replace (n + m - m) with n in H by lia.
  unfold count_eq. rewrite H. replace (m + n) with (n + m) by lia. apply count_if_ext.
  intros w. destruct (Z.eqb_spec (2 * (m * n) - w) (2 * u)), (Z.eqb_spec w (2 * (m * n - u))); lia.
Qed.

Lemma cuntied_nonneg n m u : 0 <= cuntied n m u.
Proof. apply count_if_nonneg. Qed.

Lemma cuntied_out n m u : 0 <= n -> 0 <= m -> u < 0 \/ n * m < u -> cuntied n m u = 0.
Proof.
  intros Hn Hm Hu. unfold cuntied. apply count_eq_out; [apply ones_nonneg|].
  rewrite ones_sum by lia. replace (n + m - n) with m by lia. lia.
Qed.

Lemma choose_n_0 n : 0 <= n -> choose n 0 = 1.
Proof. intros Hn. rewrite choose_binom by lia. cbn [Z.to_nat]. destruct (Z.to_nat n); reflexivity. Qed.

(** nothing chosen: only U = 0 *)
Lemma cuntied_0_l m u : 0 <= m -> cuntied 0 m u = if u =? 0 then 1 else 0.
Proof.
  intros Hm. destruct (Z.eqb_spec u 0) as [->|Hu].
  - unfold cuntied.
    pose proof (pmf_sums_to_one (ones (0 + m)) 0 (ones_nonneg _)) as H.
    rewrite ones_sum in H by lia. specialize (H ltac:(lia)).
    replace (2 * (0 * (0 + m - 0))) with 0 in H by lia. rewrite zrange_single, sumf_cons in H.
    cbn [sumf fold_right] in H. unfold total in H. rewrite ones_sum, choose_n_0 in H by lia.
    replace (2 * 0) with 0 by lia. lia.
  - apply cuntied_out; lia.
Qed.

(** without ties U is integral: 2U is even *)
Lemma twoU_vec_ones_even tr : Forall (fun p => fst p = 1 /\ 0 <= snd p <= fst p) tr ->
  forall V, exists k, twoU_vec V tr = 2 * k.
Proof.
  induction 1 as [|[t r] tr [Ht Hr] _ IH]; intros V; cbn [twoU_vec]; [now exists 0|].
  cbn [fst snd] in *. subst t. destruct (IH (V + (1 - r))) as [k Hk]. rewrite Hk.
  assert (Hr01 : r = 0 \/ r = 1) by lia. destruct Hr01 as [-> | ->]; [exists k | exists (V + k)]; ring.
Qed.

Lemma combine_ones_fst k : forall r : list Z, Forall (fun p : Z * Z => fst p = 1) (combine (repeat 1 k) r).
Proof.
  induction k as [|k IH]; intros r; cbn [repeat combine]; [constructor|].
  destruct r as [|x r]; constructor; [reflexivity | apply IH].
Qed.

Lemma count_eq_ones_odd N n w : Z.odd w = true -> count_eq (ones N) n w = 0.
Proof.
  intros Hw. unfold count_eq, count_if.
  transitivity (sumf (fun _ : list Z => 0) (vecs (ones N) n)); [|apply sumf_zero].
  apply sumf_ext_in. intros r Hr. destruct (vecs_in _ _ _ Hr) as (_ & _ & Hf).
  destruct (twoU_vec_ones_even (combine (ones N) r)) with (V := 0) as [k Hk].
  - pose proof (combine_ones_fst (Z.to_nat N) r) as H1. fold (ones N) in H1.
    rewrite Forall_forall in *. intros p Hp. split; [now apply H1 | now apply Hf].
  - unfold twoU_of. rewrite Hk. destruct (Z.eqb_spec (2 * k) w) as [E|E]; [|reflexivity].
    subst w. rewrite Z.odd_mul in Hw. discriminate.
Qed.

(** the lower tail is the sum of the untied counts: P(2U <= w) = sum_{u <= w/2} c(u) *)
Lemma count_le_ones_even n m (k : nat) : 0 <= n -> 0 <= m ->
  count_le (ones (n + m)) n (2 * Z.of_nat k) = sumf (cuntied n m) (zrange_aux 0 (S k)).
Proof.
  intros Hn Hm. induction k as [|k IH].
  - cbn [zrange_aux]. rewrite sumf_cons. cbn [sumf fold_right Z.of_nat].
    rewrite count_le_step, count_le_below by (apply ones_nonneg || lia). unfold cuntied. lia.
  - rewrite zrange_aux_snoc, sumf_app, <- IH, sumf_cons. cbn [sumf fold_right].
    rewrite (count_le_step _ _ (2 * Z.of_nat (S k))), (count_le_step _ _ (2 * Z.of_nat (S k) - 1)).
    rewrite (count_eq_ones_odd _ _ (2 * Z.of_nat (S k) - 1)).
    + unfold cuntied. replace (2 * Z.of_nat (S k) - 1 - 1) with (2 * Z.of_nat k) by lia.
      replace (0 + Z.of_nat (S k)) with (Z.of_nat (S k)) by lia. lia.
    + replace (2 * Z.of_nat (S k) - 1) with (2 * Z.of_nat k + 1) by lia.
      rewrite Z.odd_add, Z.odd_mul. reflexivity.
Qed.

Theorem count_le_ones n m w : 0 <= n -> 0 <= m ->
  count_le (ones (n + m)) n w = sumf (cuntied n m) (zrange 0 (w / 2)).
Proof.
  intros Hn Hm. destruct (Z_lt_dec w 0) as [Hw|Hw].
  - rewrite count_le_below by (apply ones_nonneg || lia).
    assert (w / 2 < 0) by (apply Z.div_lt_upper_bound; lia).
    unfold zrange. replace (Z.to_nat (w / 2 - 0 + 1)) with O by lia. reflexivity.
  - pose proof (Z.div_mod w 2 ltac:(lia)) as Hdm. pose proof (Z.mod_pos_bound w 2 ltac:(lia)) as Hmb.
    assert (Hk : 0 <= w / 2) by (apply Z.div_pos; lia).
    unfold zrange. replace (Z.to_nat (w / 2 - 0 + 1)) with (S (Z.to_nat (w / 2))) by lia.
    rewrite <- count_le_ones_even by assumption. rewrite Z2Nat.id by assumption.
    destruct (Z.eq_dec (w mod 2) 0) as [E|E].
    + f_equal. lia.
    + rewrite (count_le_step _ _ w), count_eq_ones_odd.
      * replace (w - 1) with (2 * (w / 2)) by lia. lia.
      * replace w with (2 * (w / 2) + 1) by lia. rewrite Z.odd_add, Z.odd_mul. reflexivity.
Qed.
