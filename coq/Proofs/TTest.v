(** Proofs about Model/TTest.v, Model/TDist.v, Model/Beta.v, Model/Bisect.v:
    decision logic of the four t-tests, the tail rule, the reflection
    structure of the t CDF, the iteration cap of betacf, and the bracketing
    invariant of bisectBool. Pure case analysis: no real-number reasoning. *)
From Coq Require Import ZArith List Bool Lia.
From Perf Require Import Base.B64 Model.Beta Model.StatsF Model.TDist Model.TTest Model.Bisect.
Import ListNotations.
Local Open Scope Z_scope.

(** * Decision logic: which error, in which order *)
Definition both_zero (v1 v2 : b64) : bool := b64_eq v1 b64_zero && b64_eq v2 b64_zero.

(** the documented decisions, as a specification independent of the formulas *)
(** pooled variance ((n1-1) v1 + (n2-1) v2) / (n1 + n2 - 2), in the code's evaluation order *)
Definition pooled_var (x1 x2 : tsample) : b64 :=
  b64_div (b64_add (b64_mul (b64_sub (ts_n x1) b64_one) (ts_var x1))
                   (b64_mul (b64_sub (ts_n x2) b64_one) (ts_var x2)))
          (b64_sub (b64_add (ts_n x1) (ts_n x2)) k_two).

(** (repaired code, hooks/fix_c12_ttest_zero_dof.diff) an empty sample or no degrees of
    freedom is a size error; a zero pooled variance is a zero-variance error *)
Definition pooled_decision (x1 x2 : tsample) : option terr :=
  if b64_eq (ts_n x1) b64_zero || b64_eq (ts_n x2) b64_zero || b64_le (b64_add (ts_n x1) (ts_n x2)) k_two
  then Some ErrSampleSize
  else if b64_eq (pooled_var x1 x2) b64_zero then Some ErrZeroVariance else None.

Definition welch_decision (x1 x2 : tsample) : option terr :=
  if b64_le (ts_n x1) b64_one || b64_le (ts_n x2) b64_one then Some ErrSampleSize
  else if both_zero (ts_var x1) (ts_var x2) then Some ErrZeroVariance else None.

Definition paired_decision (x1 x2 : list b64) : option terr :=
  if negb (Nat.eqb (length x1) (length x2)) then Some ErrMismatchedSamples
  else if Nat.leb (length x1) 1 then Some ErrSampleSize
  else if b64_eq (stddev_f (diffs x1 x2)) b64_zero then Some ErrZeroVariance else None.

Definition one_sample_decision (x : tsample) : option terr :=
  if b64_le (ts_n x) b64_one then Some ErrSampleSize
  else if b64_eq (ts_var x) b64_zero then Some ErrZeroVariance else None.

Definition is_err (o : tout) : option terr := match o with TErr e => Some e | _ => None end.

Section Decisions.
  Variable tcdf_o : b64 -> b64 -> res b64.
  Variable pow_o : b64 -> b64 -> option b64.

  Lemma new_result_not_err n1 n2 t dof alt : is_err (new_result tcdf_o n1 n2 t dof alt) = None.
  Proof. unfold new_result, tout_of. destruct (p_value tcdf_o t dof alt); reflexivity. Qed.

  Theorem pooled_decisions x1 x2 alt :
    is_err (two_sample_ttest tcdf_o x1 x2 alt) = pooled_decision x1 x2.
  Proof.
    unfold two_sample_ttest, pooled_decision, pooled_var.
    destruct (b64_eq (ts_n x1) b64_zero || b64_eq (ts_n x2) b64_zero
              || b64_le (b64_add (ts_n x1) (ts_n x2)) k_two); [reflexivity|].
    cbv zeta.
    match goal with |- context [if b64_eq ?v b64_zero then _ else _] => destruct (b64_eq v b64_zero) end;
      [reflexivity|].
    apply new_result_not_err.
  Qed.

  Theorem welch_decisions x1 x2 alt :
    is_err (welch_ttest tcdf_o pow_o x1 x2 alt) = welch_decision x1 x2.
  Proof.
    unfold welch_ttest, welch_decision, both_zero.
    destruct (b64_le (ts_n x1) b64_one || b64_le (ts_n x2) b64_one); [reflexivity|].
    destruct (b64_eq (ts_var x1) b64_zero && b64_eq (ts_var x2) b64_zero); [reflexivity|].
    repeat match goal with |- context [match pow_o ?a ?b with _ => _ end] => destruct (pow_o a b) end;
      try reflexivity.
    apply new_result_not_err.
  Qed.

  Theorem paired_decisions x1 x2 mu0 alt :
    is_err (paired_ttest tcdf_o x1 x2 mu0 alt) = paired_decision x1 x2.
  Proof.
    unfold paired_ttest, paired_decision.
    destruct (negb (Nat.eqb (length x1) (length x2))); [reflexivity|].
    destruct (Nat.leb (length x1) 1); [reflexivity|].
    destruct (b64_eq (stddev_f (diffs x1 x2)) b64_zero); [reflexivity|].
    apply new_result_not_err.
  Qed.

  Theorem one_sample_decisions x mu0 alt :
    is_err (one_sample_ttest tcdf_o x mu0 alt) = one_sample_decision x.
  Proof.
    unfold one_sample_ttest, one_sample_decision.
    destruct (b64_le (ts_n x) b64_one); [reflexivity|].
    destruct (b64_eq (ts_var x) b64_zero); [reflexivity|].
    apply new_result_not_err.
  Qed.

  (** when no error is due and the library calls are answered, the test
      returns the statistic / degrees of freedom of the textbook formulas
      (in the code's evaluation order) and the p-value of the tail rule *)
  Definition answered (t dof : b64) (alt : Z) : Prop := exists p, p_value tcdf_o t dof alt = Val p.

  Theorem welch_result x1 x2 alt ps p1 p2 :
    welch_decision x1 x2 = None ->
    let q1 := b64_div (ts_var x1) (ts_n x1) in
    let q2 := b64_div (ts_var x2) (ts_n x2) in
    pow_o (b64_add q1 q2) k_two = Some ps -> pow_o q1 k_two = Some p1 -> pow_o q2 k_two = Some p2 ->
    let dof := b64_div ps (b64_add (b64_div p1 (b64_sub (ts_n x1) b64_one))
                                   (b64_div p2 (b64_sub (ts_n x2) b64_one))) in
    let t := b64_div (b64_sub (ts_mean x1) (ts_mean x2)) (b64_sqrt (b64_add q1 q2)) in
    forall p, p_value tcdf_o t dof alt = Val p ->
    welch_ttest tcdf_o pow_o x1 x2 alt =
      TOk (mkTR (b64_to_int (ts_n x1)) (b64_to_int (ts_n x2)) t dof alt p).
  Proof.
    intros Hd q1 q2 Hs H1 H2 dof t p Hp. subst q1 q2 dof t.
    unfold welch_decision, both_zero in Hd. unfold welch_ttest.
    destruct (b64_le (ts_n x1) b64_one || b64_le (ts_n x2) b64_one); [discriminate|].
    destruct (b64_eq (ts_var x1) b64_zero && b64_eq (ts_var x2) b64_zero); [discriminate|].
    rewrite Hs, H1, H2. unfold new_result. rewrite Hp. reflexivity.
  Qed.

  Theorem pooled_result x1 x2 alt :
    pooled_decision x1 x2 = None ->
    let n1 := ts_n x1 in let n2 := ts_n x2 in
    let dof := b64_sub (b64_add n1 n2) k_two in
    let v12 := b64_div (b64_add (b64_mul (b64_sub n1 b64_one) (ts_var x1))
                                (b64_mul (b64_sub n2 b64_one) (ts_var x2))) dof in
    let t := b64_div (b64_sub (ts_mean x1) (ts_mean x2))
                     (b64_sqrt (b64_mul v12 (b64_add (b64_div b64_one n1) (b64_div b64_one n2)))) in
    forall p, p_value tcdf_o t dof alt = Val p ->
    two_sample_ttest tcdf_o x1 x2 alt = TOk (mkTR (b64_to_int n1) (b64_to_int n2) t dof alt p).
  Proof.
    intros Hd n1 n2 dof v12 t p Hp. subst n1 n2 dof v12 t.
    unfold pooled_decision, pooled_var in Hd. unfold two_sample_ttest.
    destruct (b64_eq (ts_n x1) b64_zero || b64_eq (ts_n x2) b64_zero
              || b64_le (b64_add (ts_n x1) (ts_n x2)) k_two); [discriminate|].
    cbv zeta.
    match type of Hd with context [if b64_eq ?v b64_zero then _ else _] =>
      destruct (b64_eq v b64_zero) end; [discriminate|].
    unfold new_result. rewrite Hp. reflexivity.
  Qed.

  Theorem one_sample_result x mu0 alt :
    one_sample_decision x = None ->
    let dof := b64_sub (ts_n x) b64_one in
    let t := b64_div (b64_mul (b64_sub (ts_mean x) mu0) (b64_sqrt (ts_n x))) (b64_sqrt (ts_var x)) in
    forall p, p_value tcdf_o t dof alt = Val p ->
    one_sample_ttest tcdf_o x mu0 alt = TOk (mkTR (b64_to_int (ts_n x)) (Some 0) t dof alt p).
  Proof.
    intros Hd dof t p Hp. subst dof t. unfold one_sample_decision in Hd. unfold one_sample_ttest.
    destruct (b64_le (ts_n x) b64_one); [discriminate|].
    destruct (b64_eq (ts_var x) b64_zero); [discriminate|].
    unfold new_result. rewrite Hp. reflexivity.
  Qed.

  Theorem paired_result x1 x2 mu0 alt :
    paired_decision x1 x2 = None ->
    let n := Z.of_nat (length x1) in
    let d := diffs x1 x2 in
    let dof := b64_of_Z (n - 1) in
    let t := b64_div (b64_mul (b64_sub (mean_f d) mu0) (b64_sqrt (b64_of_Z n))) (stddev_f d) in
    forall p, p_value tcdf_o t dof alt = Val p ->
    paired_ttest tcdf_o x1 x2 mu0 alt = TOk (mkTR (Some n) (Some (Z.of_nat (length x2))) t dof alt p).
  Proof.
    intros Hd n d dof t p Hp. subst n d dof t. unfold paired_decision in Hd. unfold paired_ttest.
    destruct (negb (Nat.eqb (length x1) (length x2))); [discriminate|].
    destruct (Nat.leb (length x1) 1); [discriminate|].
    destruct (b64_eq (stddev_f (diffs x1 x2)) b64_zero); [discriminate|].
    unfold new_result. rewrite Hp. reflexivity.
  Qed.

  (** two-sided p = twice the upper tail (the [LocationGreater] p-value) of |t| *)
  Theorem two_sided_is_twice_upper_tail_of_abs t dof :
    p_value tcdf_o t dof alt_differs =
    res_map (fun g => b64_mul k_two g) (p_value tcdf_o (b64_abs t) dof alt_greater).
  Proof.
    unfold p_value, alt_differs, alt_greater, alt_less. cbn [Z.eqb].
    destruct (tcdf_o dof (b64_abs t)); reflexivity.
  Qed.

  (** one-sided p-values are the CDF and its complement *)
  Theorem one_sided_tails t dof :
    p_value tcdf_o t dof alt_less = tcdf_o dof t /\
    p_value tcdf_o t dof alt_greater = res_map (fun c => b64_sub b64_one c) (tcdf_o dof t).
  Proof. unfold p_value, alt_differs, alt_greater, alt_less. cbn [Z.eqb]. split; reflexivity. Qed.
End Decisions.

(** all four in one statement *)
Theorem ttest_decisions tcdf_o pow_o :
  (forall x1 x2 alt, is_err (two_sample_ttest tcdf_o x1 x2 alt) = pooled_decision x1 x2) /\
  (forall x1 x2 alt, is_err (welch_ttest tcdf_o pow_o x1 x2 alt) = welch_decision x1 x2) /\
  (forall x1 x2 mu0 alt, is_err (paired_ttest tcdf_o x1 x2 mu0 alt) = paired_decision x1 x2) /\
  (forall x mu0 alt, is_err (one_sample_ttest tcdf_o x mu0 alt) = one_sample_decision x).
Proof.
  repeat split; intros.
  - apply pooled_decisions.
  - apply welch_decisions.
  - apply paired_decisions.
  - apply one_sample_decisions.
Qed.

(** * t CDF: reflection for negative arguments, as the code computes it *)
Lemma pos_facts x : b64_lt b64_zero x = true ->
  b64_eq (b64_neg x) b64_zero = false /\ b64_gt (b64_neg x) b64_zero = false /\
  b64_lt (b64_neg x) b64_zero = true /\ b64_neg (b64_neg x) = x /\
  b64_eq x b64_zero = false /\ b64_gt x b64_zero = true.
Proof.
  unfold b64_lt, b64_eq, b64_gt, b64_neg, b64_zero, SFltb, SFeqb.
  destruct x as [s|s| |s m e]; try destruct s; cbn; intros H; try discriminate; repeat split.
Qed.

Theorem tcdf_reflection betainc v x :
  b64_lt b64_zero x = true ->
  tcdf betainc v (b64_neg x) = res_map (fun c => b64_sub b64_one c) (tcdf betainc v x).
Proof.
  intros Hx. destruct (pos_facts x Hx) as (H1 & H2 & H3 & H4 & H5 & H6).
  unfold tcdf. rewrite H1, H2, H3, H4, H5, H6. reflexivity.
Qed.

(** the two forms of the positive branch (repair 7450c97): the complementary
    incomplete beta for x*x < V, the original one otherwise *)
Theorem tcdf_pos_branches betainc v x :
  (b64_lt (b64_mul x x) v = true ->
   tcdf_pos betainc v x =
   res_map (fun i => b64_add k_half (b64_mul k_half i))
           (betainc (b64_div (b64_mul x x) (b64_add v (b64_mul x x))) k_half (b64_div v k_two))) /\
  (b64_lt (b64_mul x x) v = false ->
   tcdf_pos betainc v x =
   res_map (fun i => b64_sub b64_one (b64_mul k_half i))
           (betainc (b64_div v (b64_add v (b64_mul x x))) (b64_div v k_two) k_half)).
Proof. unfold tcdf_pos. cbv zeta. split; intros ->; reflexivity. Qed.

(** F(0) = 1/2 exactly, NaN in gives NaN out *)
Theorem tcdf_zero_nan betainc v :
  tcdf betainc v b64_zero = Val k_half /\ tcdf betainc v (S754_zero true) = Val k_half /\
  tcdf betainc v S754_nan = Val k_nan.
Proof. repeat split. Qed.

(** * betacf: the model panics exactly when no iteration up to the cap converges *)
Fixpoint betacf_state (k : nat) (m : Z) (x a b c d h : b64) : Z * (b64 * b64 * b64) :=
  (* state after k iterations, ignoring the convergence test *)
  match k with
  | O => (m, (c, d, h))
  | S k' => let '(c', d', h', _) := betacf_body x a b (b64_of_Z m) c d h in
            betacf_state k' (m + 1) x a b c' d' h'
  end.

Definition converged_at (k : nat) (m : Z) (x a b c d h : b64) : bool :=
  (* does iteration number k+1 (counted from the given state) pass |hfac-1| < epsilon ? *)
  let '(m', (c', d', h')) := betacf_state k m x a b c d h in
  let '(_, _, _, hfac) := betacf_body x a b (b64_of_Z m') c' d' h' in
  b64_lt (b64_abs (b64_sub hfac b64_one)) k_eps_betacf.

Lemma betacf_loop_panics_iff fuel : forall m x a b c d h,
  betacf_loop fuel m x a b c d h = Panicked <->
  (forall j, (j < fuel)%nat -> converged_at j m x a b c d h = false).
Proof.
  induction fuel as [|fuel IH]; intros m x a b c d h.
  - cbn [betacf_loop]. split; [intros _ j Hj; lia | reflexivity].
  - cbn [betacf_loop].
    destruct (betacf_body x a b (b64_of_Z m) c d h) as [[[c' d'] h'] hfac] eqn:Eb.
    destruct (b64_lt (b64_abs (b64_sub hfac b64_one)) k_eps_betacf) eqn:Ec.
    + split; [discriminate|]. intros H. specialize (H O ltac:(lia)).
      unfold converged_at in H. cbn [betacf_state] in H. rewrite Eb, Ec in H. discriminate.
    + rewrite IH. split.
      * intros H [|j] Hj.
        -- unfold converged_at. cbn [betacf_state]. rewrite Eb. exact Ec.
        -- specialize (H j ltac:(lia)). unfold converged_at in *. cbn [betacf_state]. rewrite Eb. exact H.
      * intros H j Hj. specialize (H (S j) ltac:(lia)).
        unfold converged_at in *. cbn [betacf_state] in H. rewrite Eb in H. exact H.
Qed.

Lemma betacf_loop_never_miss fuel : forall m x a b c d h, betacf_loop fuel m x a b c d h <> Miss.
Proof.
  induction fuel as [|fuel IH]; intros m x a b c d h; cbn [betacf_loop]; [discriminate|].
  destruct (betacf_body x a b (b64_of_Z m) c d h) as [[[c' d'] h'] hfac].
  destruct (b64_lt _ _); [discriminate | apply IH].
Qed.

(** betacf panics iff none of the 200 iterations meets the convergence test *)
Theorem betacf_fuel x a b :
  let d0 := b64_div b64_one
              (raise_zero (b64_sub b64_one (b64_div (b64_mul (b64_add a b) x) (b64_add a b64_one)))) in
  (betacf x a b = Panicked <->
   forall j, (j < 200)%nat -> converged_at j 1 x a b b64_one d0 d0 = false) /\
  betacf x a b <> Miss.
Proof.
  cbn zeta. unfold betacf. split.
  - apply (betacf_loop_panics_iff max_iterations).
  - apply betacf_loop_never_miss.
Qed.

(** * bisectBool: whatever it returns brackets a flip of f *)
Definition total_f (g : b64 -> bool) (x : b64) : res bool := Val (g x).
Lemma total_f_eq g x : total_f g x = Val (g x).
Proof. reflexivity. Qed.

Definition bisect_exit (x1 x2 xtol : b64) : Prop :=
  b64_le (b64_sub x2 x1) xtol = true \/
  (let mid := b64_div (b64_add x2 x1) k_two in b64_eq mid x2 || b64_eq mid x1 = true).

Section Bisect.
  Variable g : b64 -> bool.

  Lemma bisect_loop_brackets fuel : forall low high flow xtol x1 x2,
    g low = flow -> g high <> flow ->
    bisect_loop (total_f g) fuel low high flow xtol = BRes x1 x2 ->
    g x1 = flow /\ g x2 <> flow /\ bisect_exit x1 x2 xtol.
  Proof.
    induction fuel as [|fuel IH]; intros low high flow xtol x1 x2 Hl Hh; cbn [bisect_loop]; [discriminate|].
    destruct (b64_le (b64_sub high low) xtol) eqn:Et.
    - intros H; inversion H; subst. repeat split; try assumption. now left.
    - destruct (b64_eq (b64_div (b64_add high low) k_two) high || b64_eq (b64_div (b64_add high low) k_two) low) eqn:Em.
      + intros H; inversion H; subst. repeat split; try assumption. right. exact Em.
      + rewrite total_f_eq. destruct (Bool.eqb (g (b64_div (b64_add high low) k_two)) flow) eqn:Ef.
        * apply Bool.eqb_prop in Ef. apply IH; assumption.
        * apply Bool.eqb_false_iff in Ef. apply IH; assumption.
  Qed.

  Lemma bisect_loop_no_panic fuel : forall low high flow xtol,
    bisect_loop (total_f g) fuel low high flow xtol <> BPanic /\
    bisect_loop (total_f g) fuel low high flow xtol <> BMiss.
  Proof.
    induction fuel as [|fuel IH]; intros low high flow xtol; cbn [bisect_loop]; [split; discriminate|].
    destruct (b64_le _ _); [split; discriminate|].
    destruct (_ || _); [split; discriminate|].
    rewrite total_f_eq. destruct (Bool.eqb _ _); apply IH.
  Qed.

  (** partial correctness of bisectBool for an arbitrary boolean function:
      it panics exactly when f(low) = f(high); a returned pair (x1, x2) satisfies
      f x1 = f low, f x2 = f high (so f x1 <> f x2) and the loop's exit
      condition (within xtol, or the midpoint collapsed onto an end). *)
  Theorem bisect_brackets_partial fuel low high xtol :
    (bisect_bool (total_f g) fuel low high xtol = BPanic <-> g low = g high) /\
    bisect_bool (total_f g) fuel low high xtol <> BMiss /\
    (forall x1 x2, bisect_bool (total_f g) fuel low high xtol = BRes x1 x2 ->
       g x1 = g low /\ g x2 = g high /\ g x1 <> g x2 /\ bisect_exit x1 x2 xtol).
  Proof.
    unfold bisect_bool. rewrite !total_f_eq.
    destruct (Bool.eqb (g low) (g high)) eqn:E.
    - apply Bool.eqb_prop in E. repeat split; try discriminate; auto.
    - apply Bool.eqb_false_iff in E.
      destruct (bisect_loop_no_panic fuel low high (g low) xtol) as [Hp Hm].
      split; [split; [intros H; contradiction | intros H; contradiction]|].
      split; [exact Hm|].
      intros x1 x2 H.
      destruct (bisect_loop_brackets fuel low high (g low) xtol x1 x2 eq_refl (fun H' => E (eq_sym H')) H)
        as (A & B & C).
      repeat split; try assumption.
      + destruct (g x2), (g high), (g low); try reflexivity; try congruence; exfalso; auto.
      + congruence.
  Qed.
End Bisect.
