(** one_sided_exact (tied exact path): the model's one-sided p-values are the
    exact tail probabilities of the specification. *)
From Coq Require Import ZArith List Bool Lia Permutation.
From Perf Require Import Base.B64 Model.UStat Model.UDistSpec Model.UDistImpl Model.UTest.
From Perf Require Import Proofs.UStat Proofs.UDistSpec Proofs.UDistImpl Proofs.UDistSum Proofs.UDistPrune Proofs.UDistRev.
Import ListNotations.
Local Open Scope Z_scope.

Lemma vruns_wf l : Forall (fun p => 1 <= snd p) (vruns l) /\ zsum (map snd (vruns l)) = Z.of_nat (length l).
Proof.
  induction l as [|v l [IH1 IH2]]; [split; [constructor | reflexivity]|].
  cbn [vruns]. destruct (vruns l) as [|[w c] rs].
  - destruct l; [|cbn in IH2; lia]. split; [repeat constructor; cbn; lia | reflexivity].
  - inversion IH1 as [|? ? Hc Hrs]; subst. cbn [snd] in Hc.
    change (zsum (map snd ((w, c) :: rs))) with (c + zsum (map snd rs)) in IH2.
    destruct (v =? w).
    + split; [constructor; [cbn; lia | exact Hrs]|].
      change (zsum (map snd ((w, c + 1) :: rs))) with (c + 1 + zsum (map snd rs)). cbn [length]. lia.
    + split; [constructor; [cbn; lia | exact IH1]|].
      change (zsum (map snd ((v, 1) :: (w, c) :: rs))) with (1 + (c + zsum (map snd rs))). cbn [length]. lia.
Qed.

Lemma us_T_wf x1 x2 :
  Forall (fun t => 1 <= t) (us_T (ustat_of x1 x2)) /\ zsum (us_T (ustat_of x1 x2)) = zlen x1 + zlen x2.
Proof.
  rewrite us_T_pool. unfold pool_T. destruct (vruns_wf (isort (x1 ++ x2))) as [H1 H2]. split.
  - rewrite Forall_map. exact H1.
  - rewrite H2, (Permutation_length (isort_perm (x1 ++ x2))), app_length. unfold zlen. lia.
Qed.

Lemma us_n_eq x1 x2 : us_n1 (ustat_of x1 x2) = zlen x1 /\ us_n2 (ustat_of x1 x2) = zlen x2.
Proof. split; reflexivity. Qed.

Lemma has_ties_rev t : has_ties (rev t) = has_ties t.
Proof.
  unfold has_ties. induction t as [|a t IH]; [reflexivity|].
  cbn [rev]. rewrite existsb_app, IH. cbn [existsb]. rewrite orb_false_r. apply orb_comm.
Qed.

(** the argument of the mirrored CDF: U2 counted on the tie vector *)
Lemma twoU2_mirror (s : ustat) : zsum (us_T s) = us_n1 s + us_n2 s ->
  twoU2 s = 2 * (us_n1 s * (zsum (us_T s) - us_n1 s)) - us_twoU1 s.
Proof. intros H. unfold twoU2. rewrite H. f_equal. f_equal. f_equal. lia. Qed.

Definition pfrac_eq (p : pexact) (num den : Z) : Prop :=
  match pexact_frac p with Some (a, b) => a * den = num * b /\ 0 < b | None => False end.

Theorem one_sided_exact_tied x1 x2 :
  let s := ustat_of x1 x2 in
  us_hasTies s = true -> (2 <= length (us_T s))%nat ->
  pfrac_eq (exact_p s Less) (count_le (us_T s) (us_n1 s) (us_twoU1 s)) (total (us_T s) (us_n1 s))
  /\ pfrac_eq (exact_p s Greater) (count_ge (us_T s) (us_n1 s) (us_twoU1 s)) (total (us_T s) (us_n1 s)).
Proof.
  intros s Hties Hlen.
  destruct (us_T_wf x1 x2) as [Hpos Hsum]. destruct (us_n_eq x1 x2) as [Hn1 Hn2].
  fold s in Hpos, Hsum, Hn1, Hn2.
  assert (Hht : has_ties (us_T s) = true) by (unfold s in *; rewrite <- hasTies_iff; exact Hties).
  assert (H1 : 0 <= us_n1 s) by (rewrite Hn1; unfold zlen; lia).
  assert (H2 : 0 <= us_n2 s) by (rewrite Hn2; unfold zlen; lia).
  assert (Hs' : zsum (us_T s) = us_n1 s + us_n2 s) by lia.
  assert (Ht0 : Forall (fun y => 0 <= y) (us_T s)) by (eapply Forall_impl; [|exact Hpos]; cbn; intros; lia).
  split.
  - pose proof (cdf_tied_exact (us_T s) (us_n1 s) (us_n2 s) (2 * us_twoU1 s) Hpos Hlen Hht Hs' H1 H2) as H.
    replace (2 * us_twoU1 s / 2) with (us_twoU1 s) in H by (symmetry; rewrite Z.mul_comm; apply Z.div_mul; lia).
    unfold pfrac_eq, exact_p. cbn [pexact_frac]. exact H.
  - assert (Hposr : Forall (fun t => 1 <= t) (rev (us_T s))) by (apply Forall_rev; exact Hpos).
    assert (Hlenr : (2 <= length (rev (us_T s)))%nat) by (rewrite rev_length; exact Hlen).
    assert (Hhtr : has_ties (rev (us_T s)) = true) by (rewrite has_ties_rev; exact Hht).
    assert (Hsr : zsum (rev (us_T s)) = us_n1 s + us_n2 s) by (rewrite zsum_rev; exact Hs').
    pose proof (cdf_tied_exact (rev (us_T s)) (us_n1 s) (us_n2 s) (2 * twoU2 s) Hposr Hlenr Hhtr Hsr H1 H2) as H.
    replace (2 * twoU2 s / 2) with (twoU2 s) in H by (symmetry; rewrite Z.mul_comm; apply Z.div_mul; lia).
    assert (Hc : count_le (rev (us_T s)) (us_n1 s) (twoU2 s) = count_ge (us_T s) (us_n1 s) (us_twoU1 s))
      by (rewrite (twoU2_mirror s Hs'); apply count_le_rev; exact Ht0).
    rewrite Hc, total_rev in H.
    unfold pfrac_eq, exact_p. cbn [pexact_frac]. exact H.
Qed.
