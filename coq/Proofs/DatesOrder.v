(** normalized_sorts_chronologically: the lexicographic (bytewise) order of
    normalised timestamp strings is the chronological order of the instants,
    for instants whose UTC year has four digits. *)
From Perf Require Import Base.Bytes Model.Dates.
Local Open Scope Z_scope.

(** * digits *)
Lemma digit_bN z : Z.of_N (bN (digit z)) = 48 + z mod 10.
Proof.
  unfold digit. assert (H : 0 <= z mod 10 < 10) by (apply Z.mod_pos_bound; lia).
  destruct (z mod 10) as [|p|p]; [reflexivity| |lia].
  assert (Hp : (p = 1 \/ p = 2 \/ p = 3 \/ p = 4 \/ p = 5 \/ p = 6 \/ p = 7 \/ p = 8 \/ p = 9)%positive) by lia.
  destruct Hp as [->|[->|[->|[->|[->|[->|[->|[->| ->]]]]]]]]; reflexivity.
Qed.

Lemma bcmp_cons x y a b :
  bcmp (x :: a) (y :: b) = match Z.compare (Z.of_N (bN x)) (Z.of_N (bN y)) with Eq => bcmp a b | c => c end.
Proof. cbn [bcmp]. now rewrite N2Z.inj_compare. Qed.

Lemma bcmp_cons_same c a b : bcmp (c :: a) (c :: b) = bcmp a b.
Proof. now rewrite bcmp_cons, Z.compare_refl. Qed.

Lemma bcmp_app_same p a b : bcmp (p ++ a) (p ++ b) = bcmp a b.
Proof. induction p as [|c p IH]; cbn [app]; auto. now rewrite bcmp_cons_same. Qed.

Lemma bcmp_refl a : bcmp a a = Eq.
Proof. now apply bcmp_eq. Qed.

(** fixed-width decimal fields compare like the numbers *)
Lemma pad_cmp n : forall a b r1 r2,
  0 <= a < 10 ^ Z.of_nat n -> 0 <= b < 10 ^ Z.of_nat n ->
  bcmp (pad_digits n a ++ r1) (pad_digits n b ++ r2) =
  match a ?= b with Eq => bcmp r1 r2 | c => c end.
Proof.
  induction n as [|n IH]; intros a b r1 r2 Ha Hb.
  - cbn in Ha, Hb. assert (a = 0) by lia. assert (b = 0) by lia. subst. reflexivity.
  - rewrite Nat2Z.inj_succ, Z.pow_succ_r in Ha, Hb by lia.
    cbn [pad_digits]. rewrite <- !app_assoc. cbn [app].
    rewrite IH.
    2,3: split; [apply Z.div_pos; lia | apply Z.div_lt_upper_bound; lia].
    rewrite bcmp_cons, !digit_bN.
    pose proof (Z.div_mod a 10 ltac:(lia)) as Da. pose proof (Z.div_mod b 10 ltac:(lia)) as Db.
    pose proof (Z.mod_pos_bound a 10 ltac:(lia)) as Ma. pose proof (Z.mod_pos_bound b 10 ltac:(lia)) as Mb.
    destruct (Z.compare_spec (a / 10) (b / 10)) as [E|E|E];
      destruct (Z.compare_spec (48 + a mod 10) (48 + b mod 10)) as [E'|E'|E'];
      destruct (Z.compare_spec a b) as [E''|E''|E'']; try reflexivity; exfalso; lia.
Qed.

Lemma fmt_year_4 y : 0 <= y <= 9999 -> fmt_year y = pad_digits 4 y.
Proof.
  intros H. unfold fmt_year. replace (y <? 0) with false by (symmetry; apply Z.ltb_ge; lia).
  rewrite Z.abs_eq by lia. cbn [app].
  assert (Hn : (ndigits 20 y <= 4)%nat).
  { cbn [ndigits].
    destruct (Z.ltb_spec y 10); [lia|].
    destruct (Z.ltb_spec (y / 10) 10); [lia|].
    destruct (Z.ltb_spec (y / 10 / 10) 10); [lia|].
    destruct (Z.ltb_spec (y / 10 / 10 / 10) 10); [lia|].
    exfalso. assert (y / 10 / 10 / 10 < 10); [|lia].
    repeat (apply Z.div_lt_upper_bound; [lia|]). lia. }
  now rewrite Nat.max_l by lia.
Qed.

(** * civil-from-days is monotone: one 400-year era is swept exhaustively
    (146097 days, vm_compute), eras are lifted by periodicity *)
Definition era_civil (doe : Z) : Z * Z * Z :=
  let yoe := (doe - doe / 1460 + doe / 36524 - doe / 146096) / 365 in
  let doy := doe - (365 * yoe + yoe / 4 - yoe / 100) in
  let mp := (5 * doy + 2) / 153 in
  let d := doy - (153 * mp + 2) / 5 + 1 in
  let m := if mp <? 10 then mp + 3 else mp - 9 in
  (if m <=? 2 then yoe + 1 else yoe, m, d).

Lemma civil_era z :
  civil_from_days z =
  let '(y, m, d) := era_civil ((z + 719468) mod 146097) in (y + (z + 719468) / 146097 * 400, m, d).
Proof.
  unfold civil_from_days, era_civil. cbv zeta.
  rewrite (Z.mod_eq (z + 719468) 146097) by lia.
  replace (146097 * ((z + 719468) / 146097)) with ((z + 719468) / 146097 * 146097) by ring.
  match goal with |- context [if ?c then _ else _] => destruct c end; f_equal; f_equal; ring.
Qed.

(** the date of a day of the era as one number *)
Definition kk (doe : Z) : Z := let '(y, m, d) := era_civil doe in (y * 12 + m) * 32 + d.


(** one pass: every day has fields in range and a larger number than the day before *)
Definition in_range (y m d : Z) : bool :=
  (1 <=? m) && (m <=? 12) && (1 <=? d) && (d <=? 31) && (0 <=? y) && (y <=? 400).
Definition fields_ok (doe : Z) : bool := let '(y, m, d) := era_civil doe in in_range y m d.

Fixpoint sweep (fuel : nat) (z prev : Z) (acc : bool) : bool :=
  match fuel with
  | O => acc
  | S f =>
      let '(y, m, d) := era_civil z in
      let k := (y * 12 + m) * 32 + d in
      sweep f (z + 1) k (acc && in_range y m d && (prev <? k))
  end.

Lemma sweep_unfold f z prev acc :
  sweep (S f) z prev acc = sweep f (z + 1) (kk z) (acc && fields_ok z && (prev <? kk z)).
Proof. cbn [sweep]. unfold kk, fields_ok, in_range. now destruct (era_civil z) as [[y m] d]. Qed.

Lemma sweep_spec fuel : forall z prev acc,
  sweep fuel z prev acc = true ->
  acc = true /\ forall j, 0 <= j < Z.of_nat fuel ->
    fields_ok (z + j) = true /\ (if j =? 0 then prev else kk (z + j - 1)) < kk (z + j).
Proof.
  induction fuel as [|f IH]; intros z prev acc H.
  - cbn [sweep] in H. split; auto. intros j Hj. exfalso. change (Z.of_nat 0) with 0 in Hj. lia.
  - rewrite sweep_unfold in H. apply IH in H as [Ha Hk]. apply andb_true_iff in Ha as [Ha Hp]. apply andb_true_iff in Ha as [Ha Hf].
    split; auto. intros j Hj. destruct (Z.eqb_spec j 0) as [->|Hne].
    + rewrite Z.add_0_r. split; auto. now apply Z.ltb_lt.
    + destruct (Hk (j - 1) ltac:(lia)) as [H1 H2].
      replace (z + 1 + (j - 1)) with (z + j) in * by ring. split; auto.
      destruct (Z.eqb_spec (j - 1) 0) as [E|E].
      * replace (z + j - 1) with z by lia. exact H2.
      * replace (z + 1 + (j - 1) - 1) with (z + j - 1) in H2 by ring. exact H2.
Qed.

Lemma era_swept : sweep (Z.to_nat 146097) 0 0 true = true.
Proof. vm_cast_no_check (eq_refl true). Qed.

Lemma fields_ok_all doe : 0 <= doe < 146097 -> fields_ok doe = true.
Proof.
  intros H. destruct (sweep_spec _ _ _ _ era_swept) as [_ Hk].
  specialize (Hk doe). rewrite Z2Nat.id in Hk by lia. now apply Hk.
Qed.

Lemma kk_step doe : 0 <= doe < 146096 -> kk doe < kk (doe + 1).
Proof.
  intros H. destruct (sweep_spec _ _ _ _ era_swept) as [_ Hk].
  specialize (Hk (doe + 1)). rewrite Z2Nat.id in Hk by lia. destruct (Hk ltac:(lia)) as [_ H2].
  rewrite (proj2 (Z.eqb_neq (doe + 1) 0)) in H2 by lia.
  replace (0 + (doe + 1) - 1) with doe in H2 by lia. now replace (0 + (doe + 1)) with (doe + 1) in H2 by lia.
Qed.

Lemma kk_grows n : forall a, 0 <= a -> a + Z.of_nat n <= 146096 -> kk a + Z.of_nat n <= kk (a + Z.of_nat n).
Proof.
  induction n as [|n IH]; intros a Ha Hb.
  - change (Z.of_nat 0) with 0. rewrite !Z.add_0_r. lia.
  - rewrite Nat2Z.inj_succ in *. specialize (IH a Ha ltac:(lia)).
    pose proof (kk_step (a + Z.of_nat n) ltac:(lia)).
    replace (a + Z.succ (Z.of_nat n)) with (a + Z.of_nat n + 1) by lia. lia.
Qed.

Lemma kk_mono a b : 0 <= a -> a < b -> b <= 146096 -> kk a < kk b.
Proof.
  intros Ha Hab Hb. pose proof (kk_grows (Z.to_nat (b - a)) a Ha) as H.
  rewrite Z2Nat.id in H by lia. replace (a + (b - a)) with b in H by ring. lia.
Qed.

(** the date of any day as one number; strictly increasing in the day *)
Definition KK (z : Z) : Z := (z + 719468) / 146097 * 153600 + kk ((z + 719468) mod 146097).

Lemma kk_ends : kk 0 = 97 /\ kk 146096 = 153693.
Proof. vm_compute. split; reflexivity. Qed.

Lemma KK_mono z1 z2 : z1 < z2 -> KK z1 < KK z2.
Proof.
  intros H. unfold KK.
  set (a := z1 + 719468). set (b := z2 + 719468). assert (Hab : a < b) by (subst a b; lia).
  pose proof (Z.div_mod a 146097 ltac:(lia)) as Da. pose proof (Z.div_mod b 146097 ltac:(lia)) as Db.
  pose proof (Z.mod_pos_bound a 146097 ltac:(lia)) as Ma. pose proof (Z.mod_pos_bound b 146097 ltac:(lia)) as Mb.
  assert (He : a / 146097 <= b / 146097) by (apply Z.div_le_mono; lia).
  destruct (Z.eq_dec (a / 146097) (b / 146097)) as [E|E].
  - rewrite E. assert (kk (a mod 146097) < kk (b mod 146097)); [|lia].
    apply kk_mono; lia.
  - destruct kk_ends as [K0 K1].
    assert (kk (a mod 146097) <= 153693).
    { destruct (Z.eq_dec (a mod 146097) 146096) as [->|]; [lia|].
      pose proof (kk_mono (a mod 146097) 146096 ltac:(lia) ltac:(lia) ltac:(lia)). lia. }
    assert (97 <= kk (b mod 146097)).
    { destruct (Z.eq_dec (b mod 146097) 0) as [->|]; [lia|].
      pose proof (kk_mono 0 (b mod 146097) ltac:(lia) ltac:(lia) ltac:(lia)). lia. }
    lia.
Qed.

Lemma KK_compare z1 z2 : (KK z1 ?= KK z2) = (z1 ?= z2).
Proof.
  destruct (Z.compare_spec z1 z2) as [->|H|H].
  - apply Z.compare_refl.
  - apply Z.compare_lt_iff. now apply KK_mono.
  - apply Z.compare_gt_iff. now apply KK_mono.
Qed.

Lemma civil_fields z y m d :
  civil_from_days z = (y, m, d) ->
  KK z = (y * 12 + m) * 32 + d /\ 1 <= m <= 12 /\ 1 <= d <= 31.
Proof.
  rewrite civil_era. unfold KK, kk.
  pose proof (fields_ok_all ((z + 719468) mod 146097) (Z.mod_pos_bound _ 146097 ltac:(lia))) as Hd.
  unfold fields_ok, in_range in Hd.
  destruct (era_civil ((z + 719468) mod 146097)) as [[y0 m0] d0].
  intros [= <- <- <-]. rewrite !andb_true_iff in Hd.
  destruct Hd as [[[[[H1 H2] H3] H4] _] _].
  apply Z.leb_le in H1, H2, H3, H4. split; [ring|lia].
Qed.

Lemma KK_range : KK (-719528) = 33 /\ KK 2932896 = (9999 * 12 + 12) * 32 + 31.
Proof. vm_compute. split; reflexivity. Qed.

Lemma civil_year_range z y m d :
  -719528 <= z <= 2932896 -> civil_from_days z = (y, m, d) -> 0 <= y <= 9999.
Proof.
  intros Hz Hc. destruct (civil_fields z y m d Hc) as (HK & Hm & Hd).
  destruct KK_range as [K0 K1].
  assert (33 <= KK z).
  { destruct (Z.eq_dec z (-719528)) as [->|]; [lia|]. pose proof (KK_mono (-719528) z ltac:(lia)). lia. }
  assert (KK z <= (9999 * 12 + 12) * 32 + 31).
  { destruct (Z.eq_dec z 2932896) as [->|]; [lia|]. pose proof (KK_mono z 2932896 ltac:(lia)). lia. }
  lia.
Qed.

(** * lexicographic comparisons of bounded fields are comparisons of numbers *)
Lemma lex_ymd y1 m1 d1 y2 m2 d2 (X : comparison) :
  1 <= m1 <= 12 -> 1 <= d1 <= 31 -> 1 <= m2 <= 12 -> 1 <= d2 <= 31 ->
  match y1 ?= y2 with
  | Eq => match m1 ?= m2 with Eq => match d1 ?= d2 with Eq => X | c => c end | c => c end
  | c => c
  end =
  match (y1 * 12 + m1) * 32 + d1 ?= (y2 * 12 + m2) * 32 + d2 with Eq => X | c => c end.
Proof.
  intros.
  destruct (Z.compare_spec y1 y2), (Z.compare_spec m1 m2), (Z.compare_spec d1 d2),
           (Z.compare_spec ((y1 * 12 + m1) * 32 + d1) ((y2 * 12 + m2) * 32 + d2));
    try reflexivity; exfalso; lia.
Qed.

Lemma lex_hms h1 m1 s1 h2 m2 s2 (X : comparison) :
  0 <= m1 < 60 -> 0 <= s1 < 60 -> 0 <= m2 < 60 -> 0 <= s2 < 60 ->
  match h1 ?= h2 with
  | Eq => match m1 ?= m2 with Eq => match s1 ?= s2 with Eq => X | c => c end | c => c end
  | c => c
  end =
  match h1 * 3600 + m1 * 60 + s1 ?= h2 * 3600 + m2 * 60 + s2 with Eq => X | c => c end.
Proof.
  intros.
  destruct (Z.compare_spec h1 h2), (Z.compare_spec m1 m2), (Z.compare_spec s1 s2),
           (Z.compare_spec (h1 * 3600 + m1 * 60 + s1) (h2 * 3600 + m2 * 60 + s2));
    try reflexivity; exfalso; lia.
Qed.

(** * the fraction: trailing zeros are dropped, and '+' sorts below '.' below digits *)
Definition all_digits (l : bytes) : Prop := Forall (fun c => 48 <= Z.of_N (bN c) <= 57) l.
Definition all_zero (l : bytes) : Prop := Forall (fun c => c = c_0) l.

Lemma digit_range z : 48 <= Z.of_N (bN (digit z)) <= 57.
Proof. rewrite digit_bN. pose proof (Z.mod_pos_bound z 10 ltac:(lia)). lia. Qed.

Lemma pad_all_digits n : forall z, all_digits (pad_digits n z).
Proof.
  induction n as [|n IH]; intros z; cbn [pad_digits]; [constructor|].
  apply Forall_app. split; [apply IH|]. constructor; [apply digit_range | constructor].
Qed.

Lemma pad_length n : forall z, length (pad_digits n z) = n.
Proof. induction n as [|n IH]; intros z; cbn [pad_digits]; auto. rewrite app_length, IH. cbn. lia. Qed.

Lemma strip_spec r : exists z, all_zero z /\ r = z ++ strip_zeros_rev r.
Proof.
  induction r as [|c r (z & Hz & IH)]; cbn [strip_zeros_rev].
  - exists []. split; [constructor|reflexivity].
  - destruct (beqb_spec c c_0) as [->|Hne].
    + exists (c_0 :: z). split; [constructor; auto|]. cbn. now f_equal.
    + exists []. split; [constructor|reflexivity].
Qed.

Lemma bN_c0 : Z.of_N (bN c_0) = 48.
Proof. reflexivity. Qed.

(** a digit string is never below the all-zero string of its length *)
Lemma zeros_minimal s : forall z, all_digits s -> all_zero z -> length s = length z -> bcmp s z <> Lt.
Proof.
  induction s as [|c s IH]; intros [|c' z] Hs Hz Hl; cbn in Hl; try discriminate; try (cbn; discriminate).
  inversion Hs as [|? ? Hc Hs']; subst. inversion Hz as [|? ? Hc' Hz']; subst.
  rewrite bcmp_cons, bN_c0.
  destruct (Z.compare_spec (Z.of_N (bN c)) 48); try discriminate; [|lia].
  apply IH; auto.
Qed.

Lemma strip_cmp tz : (exists t r, tz = t :: r /\ Z.of_N (bN t) < 48) ->
  forall p1 p2 z1 z2,
  all_digits p1 -> all_digits p2 -> all_zero z1 -> all_zero z2 ->
  length (p1 ++ z1) = length (p2 ++ z2) ->
  bcmp (p1 ++ z1) (p2 ++ z2) = Lt -> bcmp (p1 ++ tz) (p2 ++ tz) = Lt.
Proof.
  intros (t & r & -> & Ht). induction p1 as [|x p1 IH]; intros p2 z1 z2 H1 H2 Hz1 Hz2 Hl Hc.
  - destruct p2 as [|y p2]; cbn [app] in *.
    + exfalso. revert Hc. apply zeros_minimal; auto.
      clear -Hz1. induction Hz1; constructor; auto. subst. rewrite bN_c0. lia.
    + inversion H2; subst. rewrite bcmp_cons.
      destruct (Z.compare_spec (Z.of_N (bN t)) (Z.of_N (bN y))); auto; exfalso; lia.
  - inversion H1 as [|? ? Hx H1']; subst. destruct p2 as [|y p2]; cbn [app] in *.
    + exfalso. revert Hc. apply zeros_minimal; auto.
      constructor; auto. apply Forall_app. split; auto.
      clear -Hz1. induction Hz1; constructor; auto. subst. rewrite bN_c0. lia.
    + inversion H2 as [|? ? Hy H2']; subst. rewrite bcmp_cons in *.
      destruct (Z.compare_spec (Z.of_N (bN x)) (Z.of_N (bN y))); [|reflexivity|discriminate Hc].
      cbn in Hl. apply (IH p2 z1 z2); auto.
Qed.

Lemma frac_cmp_lt n1 n2 :
  0 <= n1 -> n1 < n2 -> n2 < 1000000000 ->
  bcmp (fmt_frac n1 ++ bs "+00:00") (fmt_frac n2 ++ bs "+00:00") = Lt.
Proof.
  intros H0 H12 H2.
  assert (HD : bcmp (pad_digits 9 n1) (pad_digits 9 n2) = Lt).
  { pose proof (pad_cmp 9 n1 n2 [] [] ltac:(cbn; lia) ltac:(cbn; lia)) as H.
    rewrite !app_nil_r in H. rewrite H. now apply Z.compare_lt_iff in H12 as ->. }
  unfold fmt_frac.
  destruct (strip_spec (rev (pad_digits 9 n1))) as (z1 & Hz1 & E1).
  destruct (strip_spec (rev (pad_digits 9 n2))) as (z2 & Hz2 & E2).
  set (p1 := rev (strip_zeros_rev (rev (pad_digits 9 n1)))) in *.
  set (p2 := rev (strip_zeros_rev (rev (pad_digits 9 n2)))) in *.
  assert (D1 : pad_digits 9 n1 = p1 ++ rev z1).
  { subst p1. rewrite <- rev_app_distr, <- E1. now rewrite rev_involutive. }
  assert (D2 : pad_digits 9 n2 = p2 ++ rev z2).
  { subst p2. rewrite <- rev_app_distr, <- E2. now rewrite rev_involutive. }
  assert (Hz1' : all_zero (rev z1)) by (apply Forall_rev; auto).
  assert (Hz2' : all_zero (rev z2)) by (apply Forall_rev; auto).
  pose proof (pad_all_digits 9 n1) as A1. pose proof (pad_all_digits 9 n2) as A2.
  rewrite D1 in A1. rewrite D2 in A2. apply Forall_app in A1 as [A1 _], A2 as [A2 _].
  assert (Hl : length (p1 ++ rev z1) = length (p2 ++ rev z2)) by (rewrite <- D1, <- D2, !pad_length; auto).
  rewrite D1, D2 in HD.
  assert (Htz : exists t r, bs "+00:00" = t :: r /\ Z.of_N (bN t) < 48).
  { eexists _, _. split; [reflexivity|]. cbn. lia. }
  pose proof (strip_cmp _ Htz p1 p2 (rev z1) (rev z2) A1 A2 Hz1' Hz2' Hl HD) as HS.
  destruct p2 as [|y p2'] eqn:Ep2.
  - exfalso. cbn [app] in HD. revert HD. apply zeros_minimal; auto.
    + rewrite <- D1. apply pad_all_digits.
  - destruct p1 as [|x p1'] eqn:Ep1.
    + cbn [app]. change (bs "+00:00") with (x2b :: bs "00:00") at 1. rewrite bcmp_cons. reflexivity.
    + cbn [app]. rewrite bcmp_cons_same. exact HS.
Qed.

Lemma frac_cmp n1 n2 :
  0 <= n1 < 1000000000 -> 0 <= n2 < 1000000000 ->
  bcmp (fmt_frac n1 ++ bs "+00:00") (fmt_frac n2 ++ bs "+00:00") = (n1 ?= n2).
Proof.
  intros H1 H2. destruct (Z.compare_spec n1 n2) as [->|H|H].
  - apply bcmp_refl.
  - apply frac_cmp_lt; lia.
  - rewrite bcmp_antisym, frac_cmp_lt by lia. reflexivity.
Qed.

(** * the theorem *)
Definition instant_inrange (i : instant) : Prop :=
  -62167219200 <= fst i < 253402300800 /\ 0 <= snd i < 1000000000.

Lemma pad_cmp4 a b r1 r2 : 0 <= a <= 9999 -> 0 <= b <= 9999 ->
  bcmp (pad_digits 4 a ++ r1) (pad_digits 4 b ++ r2) = match a ?= b with Eq => bcmp r1 r2 | c => c end.
Proof. intros. apply pad_cmp; change (10 ^ Z.of_nat 4) with 10000; lia. Qed.

Lemma pad_cmp2 a b r1 r2 : 0 <= a <= 99 -> 0 <= b <= 99 ->
  bcmp (pad_digits 2 a ++ r1) (pad_digits 2 b ++ r2) = match a ?= b with Eq => bcmp r1 r2 | c => c end.
Proof. intros. apply pad_cmp; change (10 ^ Z.of_nat 2) with 100; lia. Qed.

Lemma tod_bounds r : 0 <= r < 86400 ->
  0 <= r / 3600 <= 99 /\ 0 <= r mod 3600 / 60 < 60 /\ 0 <= r mod 60 < 60 /\
  r / 3600 * 3600 + r mod 3600 / 60 * 60 + r mod 60 = r.
Proof. intros H. repeat split; Z.div_mod_to_equations; lia. Qed.

Theorem normalized_sorts_chronologically i1 i2 :
  instant_inrange i1 -> instant_inrange i2 ->
  bcmp (format_instant i1) (format_instant i2) = instant_cmp i1 i2.
Proof.
  destruct i1 as [s1 n1], i2 as [s2 n2]. unfold instant_inrange, instant_cmp. cbn [fst snd].
  intros [Hs1 Hn1] [Hs2 Hn2]. unfold format_instant.
  assert (Hd1 : -719528 <= s1 / 86400 <= 2932896) by (Z.div_mod_to_equations; lia).
  assert (Hd2 : -719528 <= s2 / 86400 <= 2932896) by (Z.div_mod_to_equations; lia).
  destruct (civil_from_days (s1 / 86400)) as [[y1 m1] d1] eqn:E1.
  destruct (civil_from_days (s2 / 86400)) as [[y2 m2] d2] eqn:E2.
  destruct (civil_fields _ _ _ _ E1) as (K1 & Hm1 & Hdd1).
  destruct (civil_fields _ _ _ _ E2) as (K2 & Hm2 & Hdd2).
  pose proof (civil_year_range _ _ _ _ Hd1 E1) as Hy1.
  pose proof (civil_year_range _ _ _ _ Hd2 E2) as Hy2.
  pose proof (Z.mod_pos_bound s1 86400 ltac:(lia)) as Hr1.
  pose proof (Z.mod_pos_bound s2 86400 ltac:(lia)) as Hr2.
  destruct (tod_bounds _ Hr1) as (Hh1 & Hmi1 & Hse1 & Er1).
  destruct (tod_bounds _ Hr2) as (Hh2 & Hmi2 & Hse2 & Er2).
  rewrite !fmt_year_4 by lia. cbn [app].
  rewrite pad_cmp4 by lia. rewrite bcmp_cons_same.
  rewrite pad_cmp2 by lia. rewrite bcmp_cons_same.
  rewrite pad_cmp2 by lia. rewrite bcmp_cons_same.
  rewrite pad_cmp2 by lia. rewrite bcmp_cons_same.
  rewrite pad_cmp2 by lia. rewrite bcmp_cons_same.
  rewrite pad_cmp2 by lia.
  rewrite frac_cmp by lia.
  rewrite (lex_hms (s1 mod 86400 / 3600) ((s1 mod 86400) mod 3600 / 60) ((s1 mod 86400) mod 60)
                   (s2 mod 86400 / 3600) ((s2 mod 86400) mod 3600 / 60) ((s2 mod 86400) mod 60)) by lia.
  rewrite (lex_ymd y1 m1 d1 y2 m2 d2) by lia.
  rewrite <- K1, <- K2, KK_compare, Er1, Er2.
  pose proof (Z.div_mod s1 86400 ltac:(lia)) as D1. pose proof (Z.div_mod s2 86400 ltac:(lia)) as D2.
  destruct (Z.compare_spec (s1 / 86400) (s2 / 86400)), (Z.compare_spec (s1 mod 86400) (s2 mod 86400)),
           (Z.compare_spec s1 s2); try reflexivity; exfalso; lia.
Qed.

Corollary normalize_sorts s1 s2 i1 i2 n1 n2 :
  denotes s1 = Some i1 -> denotes s2 = Some i2 -> instant_inrange i1 -> instant_inrange i2 ->
  normalize_date s1 = Some n1 -> normalize_date s2 = Some n2 ->
  bcmp n1 n2 = instant_cmp i1 i2.
Proof.
  unfold denotes, normalize_date. intros H1 H2 R1 R2 N1 N2.
  destruct (parse_date s1) as [c1|]; [|discriminate H1]. destruct (parse_date s2) as [c2|]; [|discriminate H2].
  cbn [option_map] in H1, H2.
  assert (E1 : to_instant c1 = i1) by congruence. assert (E2 : to_instant c2 = i2) by congruence.
  rewrite E1 in N1. rewrite E2 in N2.
  destruct (year_inrange_b i1); [|discriminate N1]. destruct (year_inrange_b i2); [|discriminate N2].
  assert (F1 : n1 = format_instant i1) by congruence. assert (F2 : n2 = format_instant i2) by congruence.
  rewrite F1, F2. apply normalized_sorts_chronologically; assumption.
Qed.

Corollary normalize_injective i1 i2 :
  instant_inrange i1 -> instant_inrange i2 -> format_instant i1 = format_instant i2 -> i1 = i2.
Proof.
  intros R1 R2 E. pose proof (normalized_sorts_chronologically i1 i2 R1 R2) as H.
  rewrite E, bcmp_refl in H. destruct i1 as [a b], i2 as [c d]. unfold instant_cmp in H. cbn [fst snd] in H.
  destruct (Z.compare_spec a c) as [Eac| |]; [|discriminate H|discriminate H].
  symmetry in H. apply Z.compare_eq in H. now rewrite Eac, H.
Qed.
