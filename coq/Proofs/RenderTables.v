(** Several tables in one CSV output (benchtab.Tables.ToCSV, Model/Render.csv_tables_model):
    every record written - the blank separator before each table but the first,
    each table-key header line, each record of a table - advances the
    spreadsheet row by one, and each table is rendered with startRow = the
    spreadsheet row of its first record. Hence a warning's cell reference
    (column name, row) names the record of the whole output that holds the cell,
    and the lines of the whole warning stream with that reference are the
    table's own lines with that reference. *)
From Perf Require Import Base.Bytes Model.Runes Model.TextTab Model.KeyHeader Model.Render
     Proofs.KeyHeaderLevels Proofs.Render Proofs.RenderNotes Proofs.RenderRows Proofs.RenderAgree Proofs.RenderWarn.
Local Open Scope nat_scope.

(** records one table writes: nf key rows, the unit row, the data rows, the summary row *)
Definition nrecs (t : rtable) : nat := rt_nf t + 2 + length (rt_rows t).

Lemma csv_model_length t start : length (fst (csv_model t start)) = nrecs t.
Proof.
  unfold csv_model, nrecs. cbn [fst]. rewrite !app_length, !map_length, seq_length, combine_length, seq_length.
  cbn [length]. lia.
Qed.

Lemma csv_model_ws_range t start :
  Forall (fun w => start <= wrow w < start + nrecs t) (snd (csv_model t start)).
Proof.
  rewrite csv_model_ws. cbn zeta. unfold nrecs. apply Forall_app. split.
  - eapply Forall_impl; [|apply rows_wlines_range]. cbn beta. intros w H. lia.
  - eapply Forall_impl; [|apply sum_wlines_row]. cbn beta. intros w ->. lia.
Qed.

(** the fold of Tables.ToCSV, as a recursion over the tables *)
Definition sep_hdrs (first : bool) (hs : list bytes) : list (list bytes) :=
  (if first then [] else [[[]]]) ++ map (fun h => [h]) hs.

Fixpoint tables_from (row : nat) (first : bool) (tabs : list (list bytes * rtable)) : list (list bytes) * list wline :=
  match tabs with
  | [] => ([], [])
  | (hs, t) :: r =>
      let start := row + length (sep_hdrs first hs) in
      let tw := csv_model t start in
      let rest := tables_from (start + length (fst tw)) false r in
      (sep_hdrs first hs ++ fst tw ++ fst rest, snd tw ++ snd rest)
  end.

Lemma tables_step_eq row recs ws first hs t :
  csv_tables_step (row, recs, ws, first) (hs, t) =
  (row + length (sep_hdrs first hs) + length (fst (csv_model t (row + length (sep_hdrs first hs)))),
   recs ++ sep_hdrs first hs ++ fst (csv_model t (row + length (sep_hdrs first hs))),
   ws ++ snd (csv_model t (row + length (sep_hdrs first hs))), false).
Proof. reflexivity. Qed.

Lemma tables_fold : forall tabs row recs ws first,
  let st := fold_left csv_tables_step tabs (row, recs, ws, first) in
  snd (fst (fst st)) = recs ++ fst (tables_from row first tabs) /\
  snd (fst st) = ws ++ snd (tables_from row first tabs).
Proof.
  induction tabs as [|[hs t] tabs IH]; intros row recs ws first; cbn [fold_left tables_from].
  - cbn [fst snd]. rewrite !app_nil_r. split; reflexivity.
  - rewrite tables_step_eq. cbn zeta.
    match goal with |- context [fold_left csv_tables_step tabs (?r, ?a, ?b, false)] =>
      destruct (IH r a b false) as [A B] end.
    cbn zeta in A, B. rewrite A, B. cbn [fst snd]. rewrite <- !app_assoc. split; reflexivity.
Qed.

Lemma csv_tables_model_eq tabs : csv_tables_model tabs = tables_from 1 true tabs.
Proof.
  unfold csv_tables_model. destruct (tables_fold tabs 1 [] [] true) as [A B]. cbn zeta in A, B.
  rewrite A, B. cbn [app]. destruct (tables_from 1 true tabs); reflexivity.
Qed.

(** spreadsheet row of the first record of table [j]: one row per blank
    separator, per header line and per record of the tables before it *)
Fixpoint table_start (row : nat) (first : bool) (tabs : list (list bytes * rtable)) (j : nat) : nat :=
  match tabs with
  | [] => row
  | (hs, t) :: r =>
      let start := row + (if first then 0 else 1) + length hs in
      match j with O => start | S j' => table_start (start + nrecs t) false r j' end
  end.

Lemma sep_hdrs_length first hs : length (sep_hdrs first hs) = (if first then 0 else 1) + length hs.
Proof. unfold sep_hdrs. rewrite app_length, map_length. destruct first; reflexivity. Qed.

Lemma tables_from_ge : forall tabs row first, Forall (fun w => row <= wrow w) (snd (tables_from row first tabs)).
Proof.
  induction tabs as [|[hs t] tabs IH]; intros row first; cbn [tables_from snd]; [constructor|].
  apply Forall_app. split.
  - eapply Forall_impl; [|apply csv_model_ws_range]. cbn beta. intros w H. lia.
  - eapply Forall_impl; [|apply IH]. cbn beta. intros w H. lia.
Qed.

Lemma tables_from_spec : forall tabs row first j hs t,
  nth_error tabs j = Some (hs, t) ->
  let start := table_start row first tabs j in
  row <= start /\
  (forall r, r < nrecs t ->
     nth_error (fst (tables_from row first tabs)) (start - row + r) = nth_error (fst (csv_model t start)) r) /\
  (forall ref srow, start <= srow < start + nrecs t ->
     warn_msgs (snd (tables_from row first tabs)) ref srow = warn_msgs (snd (csv_model t start)) ref srow).
Proof.
  induction tabs as [|[hs0 t0] tabs IH]; intros row first j hs t H; [destruct j; discriminate|].
  cbn [tables_from table_start]. cbn zeta. rewrite sep_hdrs_length, csv_model_length.
  set (start0 := row + (if first then 0 else 1) + length hs0).
  replace (row + ((if first then 0 else 1) + length hs0)) with start0 by (unfold start0; lia).
  destruct j as [|j]; cbn [nth_error] in H.
  - injection H as <- <-. cbn [fst snd]. split; [unfold start0; lia|]. split.
    + intros r Hr. rewrite nth_error_app2; rewrite sep_hdrs_length; [|unfold start0; lia].
      replace (start0 - row + r - ((if first then 0 else 1) + length hs0)) with r by (unfold start0; lia).
      apply nth_error_app1. rewrite csv_model_length. exact Hr.
    + intros ref srow Hs. rewrite warn_msgs_app, (warn_msgs_wrong_row (snd (tables_from _ _ _))); [apply app_nil_r|].
      eapply Forall_impl; [|apply tables_from_ge]. cbn beta. intros w Hw. lia.
  - destruct (IH (start0 + nrecs t0) false j hs t H) as [A [B C]]. cbn zeta in A, B, C.
    set (start := table_start (start0 + nrecs t0) false tabs j) in *. cbn [fst snd].
    split; [unfold start0 in *; lia|]. split.
    + intros r Hr. rewrite nth_error_app2; rewrite sep_hdrs_length; [|unfold start0 in *; lia].
      rewrite nth_error_app2; rewrite csv_model_length; [|unfold start0 in *; lia].
      rewrite <- (B r Hr). f_equal. unfold start0 in *. lia.
    + intros ref srow Hs. rewrite warn_msgs_app, (warn_msgs_wrong_row (snd (csv_model t0 start0))); [apply C; exact Hs|].
      eapply Forall_impl; [|apply csv_model_ws_range]. cbn beta. intros w Hw. lia.
Qed.

(** CSV cell references across tables: table [j] is rendered with startRow = the
    spreadsheet row of its first record (counting blank separators and header
    lines); its record [r] is record [start - 1 + r] of the whole output, i.e.
    spreadsheet row [start + r]; and the whole warning stream, restricted to a
    reference in the table's rows, is the table's own stream *)
Theorem csv_tables_cellrefs tabs j hs t :
  nth_error tabs j = Some (hs, t) ->
  let start := table_start 1 true tabs j in
  1 <= start /\
  (forall r, r < nrecs t ->
     nth_error (fst (csv_tables_model tabs)) (start - 1 + r) = nth_error (fst (csv_model t start)) r) /\
  (forall ref srow, start <= srow < start + nrecs t ->
     warn_msgs (snd (csv_tables_model tabs)) ref srow = warn_msgs (snd (csv_model t start)) ref srow).
Proof. intros H. rewrite csv_tables_model_eq. apply (tables_from_spec tabs 1 true j hs t H). Qed.

(** the records of one table: data row [i] is record [nf + 1 + i], the summary
    row is record [nf + 1 + #rows] *)
Lemma combine_seq_nth {A} (l : list A) : forall b i x,
  nth_error l i = Some x -> nth_error (combine (seq b (length l)) l) i = Some (b + i, x).
Proof.
  induction l as [|y l IH]; intros b i x H; [destruct i; discriminate|].
  cbn [length seq combine]. destruct i as [|i]; cbn [nth_error] in *.
  - injection H as ->. rewrite Nat.add_0_r. reflexivity.
  - rewrite (IH (S b) i x H). f_equal. f_equal. lia.
Qed.

Lemma csv_model_data_rec t start i label cells :
  nth_error (rt_rows t) i = Some (label, cells) ->
  nth_error (fst (csv_model t start)) (rt_nf t + 1 + i)
  = Some (fst (csv_data_row (start + (rt_nf t + 1) + i) label cells)).
Proof.
  intros H. unfold csv_model. cbn [fst].
  assert (Lh : length (map (csv_header_row (rt_cols t)) (seq 0 (rt_nf t)) ++ [csv_unit_row (rt_unit t) (length (rt_cols t))])
               = rt_nf t + 1) by (rewrite app_length, map_length, seq_length; reflexivity).
  rewrite Lh. rewrite nth_error_app2 by lia. rewrite Lh.
  replace (rt_nf t + 1 + i - (rt_nf t + 1)) with i by lia.
  assert (Hi : i < length (rt_rows t)) by (apply nth_error_Some; congruence).
  rewrite nth_error_app1 by (rewrite !map_length, combine_length, seq_length; lia).
  rewrite !nth_error_map.
  rewrite (combine_seq_nth (rt_rows t) 0 i (label, cells) H). cbn [option_map Nat.add].
  reflexivity.
Qed.

(** end to end: in the whole CSV output of several tables, the warning lines
    whose reference is (column of the centre of logical column [e], row of data
    row [i] of table [j]) carry exactly that cell's sample and summary warnings,
    and that spreadsheet row is the record of that data row, whose field at
    that column is the cell's centre *)
Theorem csv_tables_cell_warnings tabs j hs t i label cells e c :
  nth_error tabs j = Some (hs, t) -> table_ok t ->
  nth_error (rt_rows t) i = Some (label, cells) -> nth_error cells e = Some (Some c) ->
  let srow := table_start 1 true tabs j + (rt_nf t + 1) + i in
  warn_msgs (snd (csv_tables_model tabs)) (sheet_col (csv_start e)) srow = rc_swarn c ++ rc_mwarn c /\
  exists rec, nth_error (fst (csv_tables_model tabs)) (srow - 1) = Some rec /\ field rec (csv_start e) = rc_csv c.
Proof.
  intros Hj Hok Hi Hc. cbn zeta.
  destruct (csv_tables_cellrefs tabs j hs t Hj) as [S1 [R W]]. cbn zeta in R, W.
  set (start := table_start 1 true tabs j) in *.
  assert (Hil : i < length (rt_rows t)) by (apply nth_error_Some; congruence).
  split.
  - rewrite W by (unfold nrecs; lia).
    destruct (text_csv_agree_warnings t start Hok) as [_ [D _]]. cbn zeta in D.
    destruct (D i label cells e c Hi Hc) as [[m [_ [_ E]]] _]. exact E.
  - exists (fst (csv_data_row (start + (rt_nf t + 1) + i) label cells)). split.
    + replace (start + (rt_nf t + 1) + i - 1) with (start - 1 + (rt_nf t + 1 + i)) by lia.
      rewrite R by (unfold nrecs; lia). apply csv_model_data_rec. exact Hi.
    + destruct (text_csv_agree_data (start + (rt_nf t + 1) + i) [] label cells e c Hc) as [_ [_ [E _]]]. exact E.
Qed.
