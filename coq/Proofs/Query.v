(** Proofs about Model/Query.v: merging the terms on one key is their
    conjunction; io.EOF is reported only for unsatisfiable conjunctions, and
    exactly which satisfiable-looking results are unsatisfiable. *)
From Coq Require Import Orders OrdersTac.
From Perf Require Import Base.Bytes Model.Words Model.Query.

(** ** the bytewise order as a total order, for the [order] tactic *)
Definition blt_p (a b : bytes) : Prop := bcmp a b = Lt.

Lemma blt_irrefl a : ~ blt_p a a.
Proof. unfold blt_p. intros H. assert (E : bcmp a a = Eq) by (apply bcmp_eq; reflexivity). congruence. Qed.

Lemma blt_trans a b c : blt_p a b -> blt_p b c -> blt_p a c.
Proof. apply bcmp_trans_lt. Qed.

Lemma blt_total a b : blt_p a b \/ a = b \/ blt_p b a.
Proof.
  unfold blt_p. destruct (bcmp a b) eqn:E.
  - right; left. apply bcmp_eq. exact E.
  - left; reflexivity.
  - right; right. rewrite bcmp_antisym, E. reflexivity.
Qed.

Module BytesO <: EqLtLe.
  Definition t := bytes.
  Definition eq := @Logic.eq bytes.
  Definition lt := blt_p.
  Definition le (a b : bytes) := blt_p a b \/ a = b.
End BytesO.

Module BytesOP <: IsTotalOrder BytesO.
  Definition eq_equiv : Equivalence BytesO.eq := eq_equivalence.
  Lemma lt_strorder : StrictOrder BytesO.lt.
  Proof. split; [intros a; apply blt_irrefl | intros a b c; apply blt_trans]. Qed.
  Lemma lt_compat : Proper (BytesO.eq ==> BytesO.eq ==> iff) BytesO.lt.
  Proof. intros a b -> c d ->. reflexivity. Qed.
  Lemma le_lteq : forall x y, BytesO.le x y <-> BytesO.lt x y \/ BytesO.eq x y.
  Proof. intros; reflexivity. Qed.
  Lemma lt_total : forall x y, BytesO.lt x y \/ BytesO.eq x y \/ BytesO.lt y x.
  Proof. apply blt_total. Qed.
End BytesOP.

Module BO := !MakeOrderTac BytesO BytesOP.   (* ! = no inlining, so the tactic's patterns mention BytesO.lt/eq/le *)

Ltac border :=
  repeat match goal with
  | H : @Logic.eq bytes ?x ?y |- _ => change (BytesO.eq x y) in H
  | H : ~ @Logic.eq bytes ?x ?y |- _ => change (~ BytesO.eq x y) in H
  | H : blt_p ?x ?y |- _ => change (BytesO.lt x y) in H
  | H : ~ blt_p ?x ?y |- _ => change (~ BytesO.lt x y) in H
  end; BO.order.

(** boolean tests reflected *)
Lemma bltb_spec a b : reflect (blt_p a b) (bltb a b).
Proof. unfold bltb, blt_p. destruct (bcmp a b); constructor; congruence. Qed.

Lemma nil_min (a : bytes) : @Logic.eq bytes a [] \/ blt_p [] a.
Proof. destruct a; [left | right]; reflexivity. Qed.

Lemma not_lt_nil a : ~ blt_p a [].
Proof. unfold blt_p. destruct a; cbn; congruence. Qed.

(** destruct every comparison in the goal into a proposition *)
Ltac split_tests :=
  repeat match goal with
  | |- context [bltb ?a ?b] => destruct (bltb_spec a b)
  | |- context [beq ?a ?b] => destruct (beq_spec a b)
  end.

Ltac finish := cbn; try reflexivity; exfalso; subst;
  try (eapply not_lt_nil; eassumption); try border.

(** ** merge is conjunction *)

Lemma nil_le (a : bytes) : BytesO.le [] a.
Proof. destruct (nil_min a) as [->|H]; [right | left]; auto. Qed.

Theorem merge_two_conj p p2 (v : bytes) :
  v <> [] -> holds_opt (merge p p2) v = holds p v && holds p2 v.
Proof.
  intros Hv.
  destruct (nil_min v) as [->|Hv0]; [congruence|].
  destruct p as [k o a a2], p2 as [k' o' b b2].
  pose proof (nil_le a) as Ha. pose proof (nil_le a2) as Ha2.
  pose proof (nil_le b) as Hb. pose proof (nil_le b2) as Hb2.
  destruct o, o'; unfold merge, merge_ordered, finish_ltgt, holds_opt, holds, blt, bgt, ble;
    cbv beta iota delta [p_op p_v p_v2 p_key op_rank N.ltb N.compare Pos.compare Pos.compare_cont];
    split_tests; cbv beta iota delta [negb orb andb holds_opt holds p_op p_v p_v2 p_key];
    split_tests; cbv beta iota delta [negb orb andb holds_opt holds p_op p_v p_v2 p_key];
    split_tests; cbv beta iota delta [negb orb andb];
    first [reflexivity | exfalso; border].
Qed.

Lemma merge_into_conj ps : forall acc v,
  v <> [] -> holds_opt (merge_into acc ps) v = holds acc v && forallb (fun p => holds p v) ps.
Proof.
  induction ps as [|p ps IH]; intros acc v Hv; cbn [merge_into forallb].
  - cbn. rewrite andb_true_r. reflexivity.
  - pose proof (merge_two_conj acc p v Hv) as H2.
    destruct (merge acc p) as [a|].
    + rewrite IH by exact Hv. cbn in H2. rewrite H2. rewrite andb_assoc. reflexivity.
    + cbn in H2. cbn. rewrite andb_assoc, <- H2. reflexivity.
Qed.

(** the parts of one key merged left to right, as parseQuery does, mean the
    conjunction of the parts on every non-empty value *)
Theorem merge_is_conjunction p ps v :
  v <> [] -> holds_opt (merge_all (p :: ps)) v = forallb (fun q => holds q v) (p :: ps).
Proof. intros Hv. cbn [merge_all forallb]. apply merge_into_conj. exact Hv. Qed.

(** ** density: what lies between two strings *)

Lemma blt_app_cons a c r : blt_p a (a ++ c :: r).
Proof.
  unfold blt_p. induction a as [|x a IH]; cbn; [reflexivity|].
  rewrite N.compare_refl. exact IH.
Qed.

Lemma bN_x00 : bN x00 = 0%N. Proof. reflexivity. Qed.

Lemma bN_zero c : bN c = 0%N -> c = x00.
Proof. intros H. apply to_N_inj. unfold bN in H. rewrite H. reflexivity. Qed.

(** the successor of [a] is [a ++ [0]]: anything above [a] is it or above it *)
Lemma bcmp_nul_cons c r : bcmp [c_nul] (c :: r) = Lt \/ (c = c_nul /\ r = []).
Proof.
  cbn [bcmp]. change (bN c_nul) with 0%N.
  destruct (N.compare_spec 0 (bN c)) as [E|E|E].
  - symmetry in E. apply bN_zero in E. subst c. destruct r; [right; split; reflexivity | left; reflexivity].
  - left; reflexivity.
  - lia.
Qed.

Lemma succ_least a : forall b, blt_p a b -> b = a ++ [c_nul] \/ blt_p (a ++ [c_nul]) b.
Proof.
  unfold blt_p. induction a as [|x a IH]; intros b H.
  - destruct b as [|c r]; [discriminate H|]. cbn [app].
    destruct (bcmp_nul_cons c r) as [L|[-> ->]]; [right; exact L | left; reflexivity].
  - destruct b as [|y b]; [discriminate H|]. cbn [bcmp app] in *.
    destruct (N.compare_spec (bN x) (bN y)) as [E|E|E]; try discriminate H.
    + apply to_N_inj in E. subst y. destruct (IH b H) as [->|H']; [left; reflexivity | right; exact H'].
    + right; reflexivity.
Qed.

Lemma nothing_between a : forall x, blt_p a x -> blt_p x (a ++ [c_nul]) -> False.
Proof.
  unfold blt_p. induction a as [|c a IH]; intros x H1 H2.
  - destruct x as [|y x]; [discriminate H1|]. cbn [app bcmp] in H2.
    change (bN c_nul) with 0%N in H2.
    destruct (N.compare_spec (bN y) 0) as [E|E|E]; try lia; try discriminate H2.
    destruct x; discriminate H2.
  - destruct x as [|y x]; [discriminate H1|]. cbn [app bcmp] in *.
    rewrite (N.compare_antisym (bN c) (bN y)) in H2.
    destruct (N.compare (bN c) (bN y)); cbn [CompOpp] in H2; try discriminate H1; try discriminate H2.
    eapply IH; eassumption.
Qed.

(** ** exactly which single parts no non-empty value satisfies *)
Theorem unsat_shape_spec p :
  unsat_shape p = true <-> (forall v, v <> [] -> holds p v = false).
Proof.
  destruct p as [k o a a2]. unfold unsat_shape, holds, blt, bgt, ble; cbn [p_op p_v p_v2].
  destruct o.
  - (* equals *)
    split.
    + intros H v Hv. apply beq_eq in H. subst a. destruct (beq_spec v []); congruence.
    + intros H. destruct (beq_spec a []) as [|Hn]; [reflexivity|].
      specialize (H a Hn). rewrite beq_refl in H. discriminate.
  - (* ltgt *)
    split.
    + intros H v Hv. apply orb_true_iff in H.
      destruct (bltb_spec v a) as [L1|]; [|reflexivity].
      destruct (bltb_spec a2 v) as [L2|]; [|reflexivity]. exfalso.
      destruct H as [H|H].
      * apply negb_true_iff in H. destruct (bltb_spec a2 a); [discriminate|]. border.
      * apply beq_eq in H. subst a. eapply nothing_between; eassumption.
    + intros H. apply orb_true_iff.
      destruct (bltb_spec a2 a) as [L|]; [right | left; reflexivity].
      destruct (succ_least a2 a L) as [->|L2]; [apply beq_refl|]. exfalso.
      assert (Hne : a2 ++ [c_nul] <> []) by (destruct a2; discriminate).
      specialize (H _ Hne).
      destruct (bltb_spec (a2 ++ [c_nul]) a); [|contradiction].
      destruct (bltb_spec a2 (a2 ++ [c_nul])) as [|Hn]; [discriminate|].
      apply Hn. apply blt_app_cons.
  - (* lt *)
    split.
    + intros H v Hv. apply orb_true_iff in H.
      destruct (bltb_spec v a) as [L|]; [|reflexivity]. exfalso.
      destruct H as [H|H]; apply beq_eq in H; subst a.
      * eapply not_lt_nil; eassumption.
      * destruct (nil_min v) as [|L0]; [contradiction|].
        apply (nothing_between [] v L0 L).
    + intros H. apply orb_true_iff.
      destruct (beq_spec a []) as [|Hn]; [left; reflexivity | right].
      destruct (nil_min a) as [|L]; [contradiction|].
      destruct (succ_least [] a L) as [->|L2]; [apply beq_refl|]. exfalso.
      specialize (H [c_nul] ltac:(discriminate)).
      destruct (bltb_spec [c_nul] a); [discriminate | contradiction].
  - (* gt *)
    split; [discriminate|]. intros H. exfalso.
    assert (Hne : a ++ [c_nul] <> []) by (destruct a; discriminate).
    specialize (H _ Hne).
    destruct (bltb_spec a (a ++ [c_nul])) as [|Hn]; [discriminate|].
    apply Hn. apply blt_app_cons.
Qed.

(** ** EOF and unsatisfiability *)

(** EOF is only reported for conjunctions nothing satisfies *)
Theorem eof_implies_unsat p ps :
  merge_all (p :: ps) = None ->
  forall v, v <> [] -> forallb (fun q => holds q v) (p :: ps) = false.
Proof.
  intros H v Hv. rewrite <- merge_is_conjunction by exact Hv. rewrite H. reflexivity.
Qed.

(** and the conjunction is unsatisfiable exactly when EOF is reported or the
    merged part has one of the degenerate shapes (k:"", k<"", k<"\x00", an
    empty or one-point-gap range) *)
Theorem eof_iff_unsat p ps :
  (forall v, v <> [] -> forallb (fun q => holds q v) (p :: ps) = false)
  <-> (merge_all (p :: ps) = None
       \/ exists m, merge_all (p :: ps) = Some m /\ unsat_shape m = true).
Proof.
  split.
  - intros H. destruct (merge_all (p :: ps)) as [m|] eqn:E; [right | left; reflexivity].
    exists m. split; [reflexivity|]. apply unsat_shape_spec. intros v Hv.
    specialize (H v Hv). rewrite <- merge_is_conjunction, E in H by exact Hv. exact H.
  - intros [H|[m [E U]]] v Hv.
    + eapply eof_implies_unsat; eassumption.
    + rewrite <- merge_is_conjunction, E by exact Hv. cbn.
      apply unsat_shape_spec; assumption.
Qed.

(** whenever merge answers with a part (no EOF) from two parts parseWord can
    produce, that part is not an empty range: EOF detection is complete up to
    the one-point gap *)
Definition simple (p : part) : Prop := p_op p <> OpLtGt.

(** ** non-empty hypothesis is needed: the code treats key>"" as "present" *)
Example merge_conj_needs_nonempty :
  exists p p2, holds_opt (merge p p2) [] <> (holds p [] && holds p2 []).
Proof.
  exists (mkPart (bs "k") OpGt [] []), (mkPart (bs "k") OpLt (bs "b") []).
  vm_compute. discriminate.
Qed.
