(** Ties the declarative specification of Model/UploadSpec.v to the model of
    the upload procedure (Model/Upload.v), for EVERY fault oracle:

    - [spec_files] is what the theorems of Proofs/Upload.v call [exp_files];
    - [lead]: the number of leading parts that go through without a fault -
      every file-store operation of the part succeeds, no flush is refused
      while it is read, it arrives completely and has a benchmark line, it is
      not an unexpected field. Part number [lead] is THE FAILING PART: the one
      being processed when the first fault happens.
    - [part_loop_stops_at_failing_part]: the part loop stores exactly the files
      of the parts before the failing part - so neither the file of the failing
      part nor anything later - and fails iff there is a failing part. *)
From Perf Require Import Base.Bytes Model.Words Model.Query Model.StoreFmt Model.Upload Model.UploadSpec
     Proofs.Upload.

Lemma spec_files_exp_files id user tm : forall items i,
  spec_files id user tm items i = exp_files id user tm items i.
Proof.
  induction items as [|it r IH]; intros i; [reflexivity|].
  destruct it; cbn [spec_files exp_files]; rewrite ?IH; reflexivity.
Qed.

Lemma any_fail_app f : forall n m a, any_fail f a (n + m) = any_fail f a n || any_fail f (a + n) m.
Proof.
  induction n as [|n IH]; intros m a; cbn [any_fail plus].
  - rewrite Nat.add_0_r. reflexivity.
  - rewrite IH, orb_assoc. replace (S a + n) with (a + S n) by lia. reflexivity.
Qed.

Section Spec.

Variables result rec : Type.
Variable parse_file : labels -> bytes -> list result.
Variable coalesce : list result -> list rec.
Variable rejects : list rec -> bool.
Variable alloc : list bytes -> option bytes.
Hypothesis alloc_fresh : forall t i, alloc t = Some i -> ~ In i t.

Notation index_file := (index_file result parse_file).
Notation part_loop := (part_loop result parse_file alloc).
Notation run_upload := (run_upload result rec parse_file coalesce rejects alloc).

(** part [it] (index [i], its file-store operations starting at [start]) goes
    through under oracle [o] *)
Definition part_ok (o : oracle) (id user tm : bytes) (i : N) (start : nat) (it : item) : bool :=
  match it with
  | IFile name body nw cut =>
      negb (any_fail (o_fs o) start (file_ops id user tm i name nw))
      && negb (o_midflush o i) && negb cut
      && match parse_file (part_meta id i name user tm) body with [] => false | _ => true end
  | ICommit => true
  | IOther _ => false
  end.

Definition ops_of (id user tm : bytes) (i : N) (it : item) : nat :=
  match it with IFile name _ nw _ => file_ops id user tm i name nw | _ => 0 end.

(** the index (counted from the first of [items]) of the failing part;
    [length items] if there is none *)
Fixpoint lead (o : oracle) (id user tm : bytes) (items : list item) (i : N) (start : nat) : nat :=
  match items with
  | [] => 0
  | it :: r =>
      if part_ok o id user tm i start it
      then S (lead o id user tm r (i + 1) (start + ops_of id user tm i it))
      else 0
  end.

(** one file: stored and closed iff the part goes through; otherwise the
    store is as before - the file being written is removed *)
Lemma index_file_char o w id i user tm name body nw cut :
  let '(w', fo) := index_file o w id i user tm name body nw cut in
  if part_ok o id user tm i (fw_ops w) (IFile name body nw cut)
  then (exists rs, fo = FOk _ rs)
       /\ fw_fs w' = fw_fs w ++ [(file_path id i, concat (header_lines (part_meta id i name user tm)) ++ body)]
       /\ fw_ops w' = fw_ops w + file_ops id user tm i name nw
  else fo = FErr _ /\ fw_fs w' = fw_fs w.
Proof.
  unfold Upload.index_file, part_ok, file_ops.
  set (h := length (header_lines (part_meta id i name user tm))).
  replace (S (h + nw + 1)) with (1 + (h + (nw + 1))) by lia.
  rewrite !any_fail_app. cbn [any_fail]. rewrite !orb_false_r.
  replace (fw_ops w + 1) with (S (fw_ops w)) by lia.
  destruct (o_fs o (fw_ops w)), (any_fail (o_fs o) (S (fw_ops w)) h),
    (any_fail (o_fs o) (S (fw_ops w) + h) nw), (o_midflush o i), cut,
    (parse_file (part_meta id i name user tm) body) as [|r0 rs],
    (o_fs o (S (fw_ops w) + h + nw));
    cbn [orb negb andb fw_fs fw_ops]; try (split; reflexivity).
  split; [eexists; reflexivity|]. split; [reflexivity|]. lia.
Qed.

Lemma part_loop_lead_some o user tm : forall items i ids w p lo,
  part_loop o user tm items i ids w (Some p) = lo ->
  let k := lead o (pd_id _ p) user tm items i (fw_ops w) in
  fw_fs (lo_fsw _ lo) = fw_fs w ++ spec_files (pd_id _ p) user tm (firstn k items) i
  /\ lo_failed _ lo = negb (Nat.eqb k (length items))
  /\ exists p', lo_pend _ lo = Some p' /\ pd_id _ p' = pd_id _ p.
Proof.
  induction items as [|it rest IH]; intros i ids w p lo H.
  - cbn in H. subst lo. cbn. rewrite app_nil_r. eauto.
  - destruct it as [name body nw cut| |field]; cbn [Upload.part_loop] in H.
    + pose proof (index_file_char o w (pd_id _ p) i user tm name body nw cut) as C.
      destruct (index_file o w (pd_id _ p) i user tm name body nw cut) as [w' fo].
      cbn [lead ops_of].
      destruct (part_ok o (pd_id _ p) user tm i (fw_ops w) (IFile name body nw cut)).
      * destruct C as ((rs & ->) & Hfs & Hops).
        specialize (IH _ _ _ _ _ H). cbn [pd_id] in IH. rewrite Hops in IH.
        destruct IH as (Hf & Hfail & Hp). cbn [firstn spec_files length].
        split; [rewrite Hf, Hfs, <- app_assoc; reflexivity|]. split; [exact Hfail | exact Hp].
      * destruct C as (-> & Hfs). subst lo. cbn [lo_fsw lo_failed lo_pend firstn spec_files length].
        rewrite app_nil_r. eauto.
    + specialize (IH _ _ _ _ _ H). cbn [lead part_ok ops_of firstn spec_files length].
      rewrite Nat.add_0_r. exact IH.
    + subst lo. cbn. rewrite app_nil_r. eauto.
Qed.

(** the part loop from the start of a request: if an upload was begun (its ID
    is [pd_id p']), the store holds in addition exactly the files of the parts
    before the failing part [k], and the loop failed iff [k] is a part *)
Lemma part_loop_lead_none o user tm : forall items i ids w lo p',
  part_loop o user tm items i ids w None = lo -> lo_pend _ lo = Some p' ->
  let k := lead o (pd_id _ p') user tm items i (fw_ops w) in
  fw_fs (lo_fsw _ lo) = fw_fs w ++ spec_files (pd_id _ p') user tm (firstn k items) i
  /\ lo_failed _ lo = negb (Nat.eqb k (length items)).
Proof.
  induction items as [|it rest IH]; intros i ids w lo p' H Hp.
  - cbn in H. subst lo. discriminate Hp.
  - destruct it as [name body nw cut| |field]; cbn [Upload.part_loop] in H.
    + destruct (o_new_upload o); [subst lo; discriminate Hp|].
      destruct (alloc ids) as [id|]; [|subst lo; discriminate Hp].
      cbn [pd_id pd_results pd_fileids] in H.
      pose proof (index_file_char o w id i user tm name body nw cut) as C.
      destruct (index_file o w id i user tm name body nw cut) as [w' fo].
      destruct (part_ok o id user tm i (fw_ops w) (IFile name body nw cut)) eqn:Eok.
      * destruct C as ((rs & ->) & Hfs & Hops).
        apply part_loop_lead_some in H. cbn [pd_id] in H. rewrite Hops in H.
        destruct H as (Hf & Hfail & q & Hq & Hid). rewrite Hq in Hp. inversion Hp; subst q.
        rewrite Hid. cbn [lead ops_of]. rewrite Eok. cbn [firstn spec_files length].
        split; [rewrite Hf, Hfs, <- app_assoc; reflexivity | exact Hfail].
      * destruct C as (-> & Hfs). subst lo. cbn [lo_pend] in Hp. inversion Hp; subst p'.
        cbn [pd_id lead]. rewrite Eok. cbn [lo_fsw lo_failed firstn spec_files length].
        rewrite app_nil_r. auto.
    + specialize (IH _ _ _ _ _ H Hp). cbn [lead part_ok ops_of firstn spec_files length].
      rewrite Nat.add_0_r. exact IH.
    + subst lo. discriminate Hp.
Qed.

(** the paths of the files of the first [k] parts carry part indices below
    [i + k]: the file of part [i + k] is not among them *)
Lemma spec_files_indices id user tm : forall items i p c,
  In (p, c) (spec_files id user tm items i) ->
  exists j, (i <= j < i + N.of_nat (length items))%N /\ p = file_path id j.
Proof.
  induction items as [|it r IH]; intros i p c H; [destruct H|].
  assert (Hr : In (p, c) (spec_files id user tm r (i + 1)) ->
               exists j, (i <= j < i + N.of_nat (length (it :: r)))%N /\ p = file_path id j).
  { intros H'. destruct (IH _ _ _ H') as (j & Hj & ->). exists j. cbn [length]. split; [lia | reflexivity]. }
  destruct it; cbn [spec_files] in H; [|auto|auto].
  destruct H as [H|H]; [|auto]. inversion H; subst. exists i. cbn [length]. split; [lia | reflexivity].
Qed.

(** what a failed upload leaves in the file store. Either nothing, or - an
    upload [id] was begun - exactly the files of the parts BEFORE the failing
    part [k] = [lead] (each of them arrived completely, has a benchmark line
    and was closed without a fault, by the definition of [lead]): the file of
    the failing part and of every later part is not there (every stored path
    has a part index below [k]); and if the part loop failed, [k] is a part of
    the request. *)
Theorem failed_upload_leaves_parts_before_failing o st rq st' :
  run_upload o st rq = (st', UErr) ->
  us_fs st' = us_fs st
  \/ exists id,
       let k := lead o id (rq_user rq) (rq_time rq) (rq_items rq) 0 0 in
       us_fs st' = us_fs st ++ spec_files id (rq_user rq) (rq_time rq) (firstn k (rq_items rq)) 0
       /\ (forall p c, In (p, c) (spec_files id (rq_user rq) (rq_time rq) (firstn k (rq_items rq)) 0) ->
             exists j, (j < N.of_nat k)%N /\ p = file_path id j)
       /\ (loop_failed result rec parse_file alloc o st rq = true -> k < length (rq_items rq)).
Proof.
  unfold Upload.run_upload, loop_failed. intros H.
  set (lo := part_loop o (rq_user rq) (rq_time rq) (rq_items rq) 0 (us_ids st) (mkFsw (us_fs st) 0) None) in *.
  assert (Hfs : us_fs st' = fw_fs (lo_fsw _ lo)).
  { repeat match type of H with
    | (if ?c then _ else _) = _ => destruct c
    | (match ?x with Some _ => _ | None => _ end) = _ => destruct x
    end; inversion H; reflexivity. }
  rewrite Hfs. destruct (lo_pend _ lo) as [p|] eqn:Ep.
  - right. exists (pd_id _ p).
    destruct (part_loop_lead_none o (rq_user rq) (rq_time rq) (rq_items rq) 0 (us_ids st)
                (mkFsw (us_fs st) 0) lo p eq_refl Ep) as (Hf & Hfail).
    cbn [fw_fs fw_ops] in Hf, Hfail. cbv zeta. split; [exact Hf|]. split.
    + intros q c Hin. destruct (spec_files_indices _ _ _ _ _ _ _ Hin) as (j & Hj & ->).
      exists j. split; [|reflexivity].
      pose proof (firstn_le_length (lead o (pd_id _ p) (rq_user rq) (rq_time rq) (rq_items rq) 0 0) (rq_items rq)).
      rewrite firstn_length in Hj. lia.
    + intros Hl. rewrite Hl in Hfail. symmetry in Hfail. apply negb_true_iff, Nat.eqb_neq in Hfail.
      assert (Hle : forall items i s, lead o (pd_id _ p) (rq_user rq) (rq_time rq) items i s <= length items).
      { induction items as [|it r IH]; intros i s; cbn [lead length]; [lia|].
        destruct (part_ok _ _ _ _ _ _ _); [specialize (IH (i + 1)%N (s + ops_of (pd_id _ p) (rq_user rq) (rq_time rq) i it)); lia | lia]. }
      specialize (Hle (rq_items rq) 0%N 0). lia.
  - left.
    pose proof (part_loop_spec result parse_file alloc alloc_fresh o (rq_user rq) (rq_time rq) (rq_items rq) 0
                  (us_ids st) (mkFsw (us_fs st) 0) None lo eq_refl) as S.
    rewrite Ep in S. destruct S as (_ & Hfw & _). exact Hfw.
Qed.

(** a successful upload stores exactly the declared files, once each *)
Theorem success_stores_spec_files o st rq st' id fids :
  run_upload o st rq = (st', UOk id fids) ->
  us_fs st' = us_fs st ++ spec_files id (rq_user rq) (rq_time rq) (rq_items rq) 0.
Proof.
  intros H. rewrite spec_files_exp_files.
  apply (upload_success_stores_everything result rec parse_file coalesce rejects alloc alloc_fresh) in H. tauto.
Qed.

End Spec.
