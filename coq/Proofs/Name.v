(** Proofs about the Name model (C05). *)
From Perf Require Import Base.Bytes Model.Name.

Definition all_digits (ds : bytes) : Prop := forallb is_digit ds = true.

(** the shape of a GOMAXPROCS part: "-" followed by one or more digits *)
Definition is_gmp_part (g : bytes) : Prop :=
  exists ds, g = c_dash :: ds /\ ds <> [] /\ all_digits ds.

Lemma dash_not_digit : is_digit c_dash = false.
Proof. reflexivity. Qed.
Lemma slash_not_digit : is_digit c_slash = false.
Proof. reflexivity. Qed.

Lemma digit_not_dash d : is_digit d = true -> Byte.eqb d c_dash = false.
Proof.
  intros H. apply beqb_neq. intros ->. now rewrite dash_not_digit in H.
Qed.

Lemma gmp_scan_sound r suf p g :
  all_digits suf -> gmp_scan r suf = Some (p, g) ->
  rev r ++ suf = p ++ g /\ is_gmp_part g.
Proof.
  revert suf; induction r as [|c r IH]; cbn; intros suf Hs; [congruence|].
  destruct (Byte.eqb c c_dash && negb (is_nil suf)) eqn:E.
  - intros [= <- <-]. apply andb_true_iff in E as [E1 E2]. apply beqb_eq in E1; subst c.
    split.
    + rewrite <- app_assoc. reflexivity.
    + exists suf. repeat split; auto. destruct suf; cbn in *; congruence.
  - destruct (is_digit c) eqn:D; [|congruence].
    intros H. apply IH in H.
    + destruct H as [H1 H2]. split; auto. rewrite <- H1, <- app_assoc. reflexivity.
    + unfold all_digits in *. cbn. now rewrite D.
Qed.

Lemma gmp_scan_complete rds r suf :
  all_digits rds -> (rds <> [] \/ suf <> []) ->
  gmp_scan (rds ++ c_dash :: r) suf = Some (rev r, c_dash :: rev rds ++ suf).
Proof.
  revert suf; induction rds as [|d rds IH]; cbn; intros suf Hd Hne.
  - destruct suf as [|x suf]; cbn; [destruct Hne; congruence|reflexivity].
  - unfold all_digits in Hd. cbn in Hd. apply andb_true_iff in Hd as [Hd1 Hd2].
    rewrite (digit_not_dash _ Hd1). cbn. rewrite Hd1.
    rewrite IH; auto.
    + rewrite <- app_assoc. reflexivity.
    + right; congruence.
Qed.

(** *** splitGomaxprocs: full characterisation *)
Lemma split_gmp_some n p g :
  split_gmp n = (p, Some g) -> n = p ++ g /\ is_gmp_part g.
Proof.
  unfold split_gmp. destruct (gmp_scan (rev n) []) as [[p' g']|] eqn:E; [|congruence].
  intros [= <- <-]. apply gmp_scan_sound in E; [|reflexivity].
  rewrite rev_involutive, app_nil_r in E. exact E.
Qed.

Lemma all_digits_rev ds : all_digits ds -> all_digits (rev ds).
Proof.
  unfold all_digits. rewrite !forallb_forall. intros H x Hx. apply H. now apply in_rev.
Qed.

Lemma split_gmp_complete p g : is_gmp_part g -> split_gmp (p ++ g) = (p, Some g).
Proof.
  intros [ds [-> [Hne Hd]]]. unfold split_gmp.
  rewrite rev_app_distr. cbn [rev]. rewrite <- app_assoc. cbn [app].
  rewrite gmp_scan_complete.
  - rewrite !rev_involutive, app_nil_r. reflexivity.
  - now apply all_digits_rev.
  - left. intros H. apply Hne. apply (f_equal (@rev byte)) in H. now rewrite rev_involutive in H.
Qed.

Lemma split_gmp_none n p :
  split_gmp n = (p, None) -> p = n /\ ~ exists q g, n = q ++ g /\ is_gmp_part g.
Proof.
  unfold split_gmp. destruct (gmp_scan (rev n) []) as [[p' g']|] eqn:E; [congruence|].
  intros [= <-]. split; auto. intros [q [g [-> Hg]]].
  pose proof (split_gmp_complete q g Hg) as H. unfold split_gmp in H. rewrite E in H. congruence.
Qed.

(** *** the '/' splitting *)
Definition is_slash_part (p : bytes) : Prop := exists s, p = c_slash :: s /\ ~ In c_slash s.

Lemma split_slash_spec buf b ps :
  split_slash buf = (b, ps) ->
  buf = b ++ concat ps /\ ~ In c_slash b /\ Forall is_slash_part ps.
Proof.
  revert b ps; induction buf as [|c r IH]; cbn; intros b ps.
  - intros [= <- <-]. repeat split; auto.
  - destruct (split_slash r) as [p0 ps0]. destruct (IH _ _ eq_refl) as [H1 [H2 H3]].
    destruct (beqb_spec c c_slash) as [->|Hn]; intros [= <- <-].
    + repeat split; auto. cbn. now rewrite <- H1.
      constructor; auto. exists p0; auto.
    + repeat split; auto. cbn. now rewrite <- H1.
      intros [E|E]; auto.
Qed.

Lemma split_slash_noslash b : ~ In c_slash b -> split_slash b = (b, []).
Proof.
  induction b as [|c r IH]; cbn; auto. intros H.
  rewrite IH by tauto. destruct (beqb_spec c c_slash); [exfalso; auto|reflexivity].
Qed.

Lemma split_slash_unique b ps :
  ~ In c_slash b -> Forall is_slash_part ps -> split_slash (b ++ concat ps) = (b, ps).
Proof.
  intros Hb Hps. revert b Hb. induction Hps as [|p ps [s [-> Hs]] Hps IH]; intros b Hb.
  - cbn. rewrite app_nil_r. now apply split_slash_noslash.
  - induction b as [|c b IHb].
    + cbn. rewrite (IH s Hs). reflexivity.
    + cbn [app split_slash]. rewrite IHb by (cbn in Hb; tauto).
      destruct (beqb_spec c c_slash) as [->|]; [exfalso; apply Hb; now left|reflexivity].
Qed.

(** *** Parts *)
Definition well_shaped (b : bytes) (ps : list bytes) (g : option bytes) : Prop :=
  ~ In c_slash b /\ Forall is_slash_part ps /\
  match g with Some g => is_gmp_part g | None => True end.

Lemma parts_unfold n :
  exists buf g b ps, split_gmp n = (buf, g) /\ split_slash buf = (b, ps) /\
                     parts n = (b, ps ++ opt_list g).
Proof.
  unfold parts. destruct (split_gmp n) as [buf g] eqn:E1. destruct (split_slash buf) as [b ps] eqn:E2.
  exists buf, g, b, ps. repeat split; auto.
Qed.

Lemma split_gmp_concat n buf g : split_gmp n = (buf, g) -> n = buf ++ concat (opt_list g).
Proof.
  destruct g as [g|]; intros H.
  - apply split_gmp_some in H as [-> _]. cbn. now rewrite app_nil_r.
  - apply split_gmp_none in H as [-> _]. cbn. now rewrite app_nil_r.
Qed.

Theorem parts_concat n : fst (parts n) ++ concat (snd (parts n)) = n.
Proof.
  destruct (parts_unfold n) as [buf [g [b [ps [H1 [H2 ->]]]]]]. cbn.
  apply split_slash_spec in H2 as [H2 _]. apply split_gmp_concat in H1.
  rewrite concat_app, app_assoc, <- H2. auto.
Qed.

(** Shape: base has no '/', parts are '/'-segments followed by an optional "-N". *)
Theorem parts_shape n :
  exists ps g, snd (parts n) = ps ++ opt_list g /\ well_shaped (fst (parts n)) ps g.
Proof.
  destruct (parts_unfold n) as [buf [g [b [ps [H1 [H2 ->]]]]]]. cbn.
  exists ps, g. split; auto. apply split_slash_spec in H2 as [_ [H2 H3]].
  repeat split; auto. destruct g; auto. now apply split_gmp_some in H1.
Qed.

(** Uniqueness: any decomposition of that shape, where the "-N" part is taken
    whenever the name ends in one, is the one Parts reports. *)
Theorem parts_unique b ps g :
  well_shaped b ps g ->
  (g = None -> ~ exists q g', b ++ concat ps = q ++ g' /\ is_gmp_part g') ->
  parts (b ++ concat ps ++ concat (opt_list g)) = (b, ps ++ opt_list g).
Proof.
  intros [Hb [Hps Hg]] Hnone. unfold parts. destruct g as [g|]; cbn [opt_list concat].
  - rewrite app_nil_r, app_assoc, (split_gmp_complete _ g Hg).
    now rewrite split_slash_unique.
  - rewrite !app_nil_r.
    destruct (split_gmp (b ++ concat ps)) as [buf [g|]] eqn:E.
    + exfalso. apply Hnone; auto. apply split_gmp_some in E as [E1 E2]. eauto.
    + apply split_gmp_none in E as [-> _]. now rewrite split_slash_unique, app_nil_r.
Qed.

Lemma gmp_part_noslash g : is_gmp_part g -> ~ In c_slash g.
Proof.
  intros [ds [-> [_ Hd]]] [E|E]; [discriminate|].
  unfold all_digits in Hd. rewrite forallb_forall in Hd. apply Hd in E.
  now rewrite slash_not_digit in E.
Qed.

Theorem base_eq_parts_base n : base n = fst (parts n).
Proof.
  destruct (parts_unfold n) as [buf [g [b [ps [H1 [H2 H3]]]]]]. rewrite H3. cbn.
  pose proof (split_gmp_concat _ _ _ H1) as Hn.
  pose proof (split_slash_spec _ _ _ H2) as [Hbuf [Hb Hps]].
  unfold base. destruct ps as [|p ps].
  - cbn in Hbuf. rewrite app_nil_r in Hbuf. subst buf.
    assert (Hno : ~ In c_slash n).
    { rewrite Hn. intros Hin. apply in_app_or in Hin as [Hin|Hin]; auto.
      destruct g as [g|]; cbn in Hin; auto. rewrite app_nil_r in Hin.
      apply split_gmp_some in H1 as [_ Hg]. now apply gmp_part_noslash in Hg. }
    apply index_byte_none in Hno. rewrite Hno, H1. reflexivity.
  - pose proof (Forall_inv Hps) as [s [-> Hs]].
    rewrite Hn, Hbuf. cbn [concat]. rewrite <- !app_assoc. cbn [app].
    rewrite index_byte_app_notin by auto. apply firstn_app_exact.
Qed.
