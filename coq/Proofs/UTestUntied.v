(** MannWhitneyUTest's exact path without ties, and the two-sided rule on
    symmetric distributions.
    - one_sided_exact (untied): Less = P(U <= u), Greater = P(U >= u).
    - two-sided: the code computes min(1, 2 CDF(min(U1, U2))) (and 1 when U1 = U2).
      When the null distribution is symmetric (no ties; more generally a
      palindromic tie vector) P(U >= u1) = P(U <= u2), so this IS the property's
      "twice the smaller one-sided value, capped at 1". The recorded finding
      C11_twosided_asymmetric_ties is thereby confined to non-palindromic tie
      vectors. *)
From Coq Require Import ZArith List Bool Lia Permutation.
From Perf Require Import Base.B64 Model.UStat Model.UDistSpec Model.UDistImpl Model.UTest.
From Perf Require Import Proofs.UStat Proofs.UDistSpec Proofs.UDistImpl Proofs.UDistSum Proofs.UDistPrune.
From Perf Require Import Proofs.UTestExact Proofs.UDistUntied Proofs.UDistRev Proofs.UDistDP.
Import ListNotations.
Local Open Scope Z_scope.

(** without ties the tie vector is all ones *)
Lemma untied_T_ones x1 x2 : us_hasTies (ustat_of x1 x2) = false ->
  us_T (ustat_of x1 x2) = ones (zlen x1 + zlen x2).
Proof.
  intros Hh. destruct (us_T_wf x1 x2) as [Hpos Hsum]. rewrite <- Hsum.
  apply untied_is_ones; [exact Hpos|]. unfold has_ties. now rewrite <- hasTies_iff.
Qed.

Lemma zlen_nonneg {A} (l : list A) : 0 <= zlen l.
Proof. unfold zlen. lia. Qed.

(** the wrapper on the statistic's own tie vector, untied case *)
Lemma cdf_untied_stat x1 x2 q : us_hasTies (ustat_of x1 x2) = false ->
  let s := ustat_of x1 x2 in
  frac_eq (cdf (us_n1 s) (us_n2 s) (us_T s) q) (count_le (us_T s) (us_n1 s) (q / 2)) (total (us_T s) (us_n1 s)).
Proof.
  intros Hh s. unfold s. rewrite (untied_T_ones x1 x2 Hh).
  change (us_n1 (ustat_of x1 x2)) with (zlen x1). change (us_n2 (ustat_of x1 x2)) with (zlen x2).
  apply cdf_untied_exact; [| apply zlen_nonneg | apply zlen_nonneg].
  rewrite <- (untied_T_ones x1 x2 Hh). unfold has_ties. now rewrite <- hasTies_iff.
Qed.

(** one- and two-sided values from ANY exact distribution function *)
Section FromCdf.
Variable s : ustat.
Let T := us_T s.
Let n1 := us_n1 s.
Let n2 := us_n2 s.
Hypothesis HT0 : Forall (fun y => 0 <= y) T.
Hypothesis HTs : zsum T = n1 + n2.
Hypothesis Hn1 : 0 <= n1.
Hypothesis Hn2 : 0 <= n2.
Hypothesis Hcdf : forall q, frac_eq (cdf n1 n2 T q) (count_le T n1 (q / 2)) (total T n1).
Hypothesis Hcdfr : forall q, frac_eq (cdf n1 n2 (rev T) q) (count_le (rev T) n1 (q / 2)) (total (rev T) n1).

Lemma div2 w : 2 * w / 2 = w.
Proof. rewrite Z.mul_comm. apply Z.div_mul. lia. Qed.

Lemma one_sided_from_cdf :
  pfrac_eq (exact_p s Less) (count_le T n1 (us_twoU1 s)) (total T n1)
  /\ pfrac_eq (exact_p s Greater) (count_ge T n1 (us_twoU1 s)) (total T n1).
Proof.
  split.
  - pose proof (Hcdf (2 * us_twoU1 s)) as H. rewrite div2 in H.
    unfold pfrac_eq, exact_p. cbn [pexact_frac]. exact H.
  - pose proof (Hcdfr (2 * twoU2 s)) as H. rewrite div2 in H.
    assert (Hc : count_le (rev T) n1 (twoU2 s) = count_ge T n1 (us_twoU1 s))
      by (rewrite (twoU2_mirror s HTs); apply count_le_rev; exact HT0).
    rewrite Hc, total_rev in H.
    unfold pfrac_eq, exact_p. cbn [pexact_frac]. fold n1 n2 T. exact H.
Qed.

(** symmetric distribution: the code's two-sided value is the property's *)
Hypothesis Hpal : rev T = T.

Lemma two_sided_from_cdf :
  pfrac_eq (exact_p s Differs) (p_two_num T n1 (us_twoU1 s)) (total T n1).
Proof.
  set (u1 := us_twoU1 s). set (u2 := twoU2 s).
  assert (Hu2 : u2 = 2 * (n1 * (zsum T - n1)) - u1).
  { unfold u2, u1, twoU2. fold n1 n2. rewrite HTs. f_equal. f_equal. f_equal. lia. }
  assert (Hge : count_ge T n1 u1 = count_le T n1 u2).
  { rewrite (count_ge_palindrome T n1 u1 HT0 Hpal). now rewrite Hu2. }
  pose proof (total_pos T n1 HT0 ltac:(lia)) as Htot.
  assert (Hmin : Z.min (count_le T n1 u1) (count_le T n1 u2) = count_le T n1 (Z.min u1 u2)).
  { destruct (Z.le_ge_cases u1 u2) as [H|H].
    - rewrite (Z.min_l u1 u2) by exact H. apply Z.min_l. now apply count_le_mono.
    - rewrite (Z.min_r u1 u2) by lia. apply Z.min_r. apply count_le_mono. lia. }
  unfold p_two_num. fold u1. rewrite Hge, Hmin.
  unfold pfrac_eq, exact_p. fold u1 u2 n1 n2 T.
  destruct (Z.eqb_spec u1 u2) as [E|E]; cbn [pexact_frac].
  - (* U1 = U2: both tails hold at least half of the mass *)
    split; [|lia]. rewrite <- E, Z.min_id.
    pose proof (count_ge_le T n1 u1) as Hc. rewrite (count_all_total T HT0), Hge, <- E in Hc.
    pose proof (count_le_mono T n1 (u1 - 1) u1 ltac:(lia)). lia.
  - pose proof (Hcdf (2 * Z.min u1 u2)) as H. rewrite div2 in H. unfold frac_eq in H.
    destruct (dres_frac (cdf n1 n2 T (2 * Z.min u1 u2))) as [[a b]|]; [|contradiction].
    destruct H as [Hab Hb]. split; [|exact Hb].
    set (c := count_le T n1 (Z.min u1 u2)) in *. set (tot := total T n1) in *.
    destruct (Z.min_spec b (2 * a)) as [[Hl ->]|[Hl ->]], (Z.min_spec tot (2 * c)) as [[Hr ->]|[Hr ->]]; nia.
Qed.
End FromCdf.

(** ** one_sided_exact, untied exact path *)
Theorem one_sided_exact_untied x1 x2 :
  let s := ustat_of x1 x2 in
  us_hasTies s = false ->
  pfrac_eq (exact_p s Less) (count_le (us_T s) (us_n1 s) (us_twoU1 s)) (total (us_T s) (us_n1 s))
  /\ pfrac_eq (exact_p s Greater) (count_ge (us_T s) (us_n1 s) (us_twoU1 s)) (total (us_T s) (us_n1 s)).
Proof.
  intros s Hh. destruct (us_T_wf x1 x2) as [Hpos Hsum].
  assert (Hrev : rev (us_T s) = us_T s) by (unfold s; rewrite (untied_T_ones x1 x2 Hh); apply ones_palindrome).
  apply one_sided_from_cdf.
  - eapply Forall_impl; [|exact Hpos]. cbn. intros; lia.
  - exact Hsum.
  - intros q. apply (cdf_untied_stat x1 x2 q Hh).
  - intros q. rewrite Hrev. apply (cdf_untied_stat x1 x2 q Hh).
Qed.

(** ** the two-sided value without ties is the property's *)
Theorem two_sided_untied_is_spec x1 x2 :
  let s := ustat_of x1 x2 in
  us_hasTies s = false ->
  pfrac_eq (exact_p s Differs) (p_two_num (us_T s) (us_n1 s) (us_twoU1 s)) (total (us_T s) (us_n1 s)).
Proof.
  intros s Hh. destruct (us_T_wf x1 x2) as [Hpos Hsum].
  apply two_sided_from_cdf.
  - eapply Forall_impl; [|exact Hpos]. cbn. intros; lia.
  - exact Hsum.
  - apply zlen_nonneg.
  - apply zlen_nonneg.
  - intros q. apply (cdf_untied_stat x1 x2 q Hh).
  - unfold s. rewrite (untied_T_ones x1 x2 Hh). apply ones_palindrome.
Qed.

(** ... and with ties whenever the tie vector reads the same in both directions *)
Theorem two_sided_palindrome_is_spec x1 x2 :
  let s := ustat_of x1 x2 in
  us_hasTies s = true -> (2 <= length (us_T s))%nat -> rev (us_T s) = us_T s ->
  pfrac_eq (exact_p s Differs) (p_two_num (us_T s) (us_n1 s) (us_twoU1 s)) (total (us_T s) (us_n1 s)).
Proof.
  intros s Hh Hlen Hpal. destruct (us_T_wf x1 x2) as [Hpos Hsum].
  apply two_sided_from_cdf.
  - eapply Forall_impl; [|exact Hpos]. cbn. intros; lia.
  - exact Hsum.
  - apply zlen_nonneg.
  - apply zlen_nonneg.
  - intros q. apply cdf_tied_exact; try assumption.
    + unfold has_ties. unfold s in *. now rewrite <- hasTies_iff.
    + apply zlen_nonneg.
    + apply zlen_nonneg.
  - exact Hpal.
Qed.

Example two_sided_examples :
  pexact_frac (exact_p (ustat_of [1; 2; 6] [3; 4; 5; 7]) Differs) = Some (14, 35) /\
  us_twoU1 (ustat_of [1; 2; 6] [3; 4; 5; 7]) = 6 /\
  p_two_num [1; 1; 1; 1; 1; 1; 1] 3 6 = 14 /\ total [1; 1; 1; 1; 1; 1; 1] 3 = 35 /\
  (* palindromic ties [1;2;1]: *)
  us_T (ustat_of [1; 2] [2; 3]) = [1; 2; 1] /\ us_twoU1 (ustat_of [1; 2] [2; 3]) = 1 /\
  pexact_frac (exact_p (ustat_of [1; 2] [2; 3]) Differs) = Some (4, 6) /\
  p_two_num [1; 2; 1] 2 1 = 4 /\ total [1; 2; 1] 2 = 6.
Proof. vm_compute. repeat split. Qed.
