(** TDist.CDF (internal/stats/tdist.go) as modelled by Model/TDist.v stays in
    [0,1] in binary64 whenever the incomplete-beta routine it calls returns
    values in [0,1]: both forms of the positive branch give a value in
    [1/2, 1], the reflection for x < 0 a value in [0, 1/2], x = +-0 gives 1/2.
    Nothing is assumed about V or about which value in [0,1] the oracle
    returns; only a NaN argument x escapes (the code then returns NaN).
    Rounding monotonicity through Flocq (classical reals in Print Assumptions). *)
From Coq Require Import ZArith Reals Lia Lra Bool List.
From Flocq Require Import Core BinarySingleNaN.
From Perf Require Import Base.Bytes Base.B64 Model.Beta Model.TDist
     Proofs.B64Flocq Proofs.LegacyMean Proofs.B64Ops.
Local Open Scope R_scope.

(** the hypothesis on mathBetaInc: whatever it returns is a binary64 value in [0,1] *)
Definition unit_oracle (betainc : b64 -> b64 -> b64 -> res b64) : Prop :=
  forall x a b i, betainc x a b = Val i ->
    valid i = true /\ b64_le b64_zero i = true /\ b64_le i b64_one = true.

Definition in_b64_range (lo hi c : b64) : Prop :=
  valid c = true /\ b64_le lo c = true /\ b64_le c hi = true.

Lemma F64_half : F64 (/ 2).
Proof. change (/ 2) with (bpow radix2 (-1)). apply generic_format_bpow. cbn. lia. Qed.
Lemma F64_one : F64 1.
Proof. change 1 with (bpow radix2 0). apply generic_format_bpow. cbn. lia. Qed.
Lemma F64_zero : F64 0.
Proof. apply generic_format_0. Qed.
Lemma RN_0 : RN 0 = 0.
Proof. apply round_0. typeclasses eauto. Qed.

Definition Bhalf : Bf := @SF2B 53 1024 k_half eq_refl.
Lemma k_half_B : k_half = B2SF Bhalf /\ is_finite Bhalf = true /\ B2R Bhalf = / 2.
Proof.
  split; [unfold Bhalf; now rewrite B2SF_SF2B|]. split; [reflexivity|].
  unfold Bhalf. rewrite B2R_SF2B. cbn. unfold F2R. cbn. lra.
Qed.

Lemma small_fin v : 0 <= v <= 1 -> Rabs v < bpow radix2 1024.
Proof. intros H. pose proof bpow1024_big. apply Rabs_def1; lra. Qed.

(** 0.5 * i  for i in [0,1] *)
Lemma half_times (I : Bf) : is_finite I = true -> 0 <= B2R I <= 1 ->
  exists P : Bf, b64_mul k_half (B2SF I) = B2SF P /\ is_finite P = true /\ 0 <= B2R P <= / 2.
Proof.
  intros FI HI. destruct k_half_B as (Eh & Fh & Rh). rewrite Eh.
  assert (Hb : 0 <= RN (B2R Bhalf * B2R I) <= / 2).
  { rewrite Rh. split.
    - apply RN_ge_F; [apply F64_zero|lra].
    - apply RN_le_F; [apply F64_half|lra]. }
  destruct (mul_R Bhalf I Fh FI) as (P & E & FP & RP).
  { apply small_fin. lra. }
  exists P. rewrite RP. auto.
Qed.

(** 0.5 + p  and  1 - p  for p in [0, 1/2] *)
Lemma half_plus (P : Bf) : is_finite P = true -> 0 <= B2R P <= / 2 ->
  exists C : Bf, b64_add k_half (B2SF P) = B2SF C /\ is_finite C = true /\ / 2 <= B2R C <= 1.
Proof.
  intros FP HP. destruct k_half_B as (Eh & Fh & Rh). rewrite Eh.
  assert (Hb : / 2 <= RN (B2R Bhalf + B2R P) <= 1).
  { rewrite Rh. split.
    - apply RN_ge_F; [apply F64_half|lra].
    - apply RN_le_F; [apply F64_one|lra]. }
  destruct (add_R Bhalf P Fh FP) as (C & E & FC & RC).
  { apply small_fin. lra. }
  exists C. rewrite RC. auto.
Qed.

(** 1 - c  for c in [lo, hi] within [0,1], 1 - hi and 1 - lo in the format *)
Lemma one_minus (C : Bf) lo hi : is_finite C = true -> lo <= B2R C <= hi -> 0 <= lo -> hi <= 1 ->
  F64 (1 - lo) -> F64 (1 - hi) ->
  exists D : Bf, b64_sub b64_one (B2SF C) = B2SF D /\ is_finite D = true /\ 1 - hi <= B2R D <= 1 - lo.
Proof.
  intros FC HC H0 H1 Flo Fhi. destruct B2R_one as [F1 R1]. rewrite b64_one_B.
  assert (Hb : 1 - hi <= RN (B2R (BofZ 1) - B2R C) <= 1 - lo).
  { rewrite R1. split.
    - apply RN_ge_F; [exact Fhi|lra].
    - apply RN_le_F; [exact Flo|lra]. }
  destruct (sub_R (BofZ 1) C F1 FC) as (D & E & FD & RD).
  { apply small_fin. lra. }
  exists D. rewrite RD. auto.
Qed.

Lemma range_of_R (C : Bf) (lo hi : Bf) :
  is_finite C = true -> is_finite lo = true -> is_finite hi = true ->
  B2R lo <= B2R C <= B2R hi -> in_b64_range (B2SF lo) (B2SF hi) (B2SF C).
Proof.
  intros FC Fl Fh [A B]. split; [apply valid_binary_B2SF|]. split; apply b64_le_of_R; auto.
Qed.

Lemma Val_inj {A} (a b : A) : Val a = Val b -> a = b.
Proof. intros H. now injection H. Qed.

Section Range.
  Variable betainc : b64 -> b64 -> b64 -> res b64.
  Hypothesis Hunit : unit_oracle betainc.

  (** the branch x > 0 (whichever of the two forms is taken): [1/2, 1] *)
  Lemma tcdf_pos_R v x c : tcdf_pos betainc v x = Val c ->
    exists C : Bf, c = B2SF C /\ is_finite C = true /\ / 2 <= B2R C <= 1.
  Proof.
    unfold tcdf_pos. destruct (b64_lt (b64_mul x x) v).
    - destruct (betainc _ _ _) as [i| |] eqn:Ei; cbn [res_map res_bind]; try discriminate.
      intros E; apply Val_inj in E; subst c.
      destruct (Hunit _ _ _ _ Ei) as (Vi & I0 & I1).
      destruct (lift_valid i Vi) as [I ->].
      destruct (unit_R I I0 I1) as [FI RI].
      destruct (half_times I FI RI) as (P & -> & FP & RP).
      destruct (half_plus P FP RP) as (C & -> & FC & RC).
      exists C. auto.
    - destruct (betainc _ _ _) as [i| |] eqn:Ei; cbn [res_map res_bind]; try discriminate.
      intros E; apply Val_inj in E; subst c.
      destruct (Hunit _ _ _ _ Ei) as (Vi & I0 & I1).
      destruct (lift_valid i Vi) as [I ->].
      destruct (unit_R I I0 I1) as [FI RI].
      destruct (half_times I FI RI) as (P & -> & FP & RP).
      destruct (one_minus P 0 (/ 2) FP RP ltac:(lra) ltac:(lra)) as (D & -> & FD & RD).
      + rewrite Rminus_0_r. apply F64_one.
      + replace (1 - / 2) with (/ 2) by lra. apply F64_half.
      + exists D. split; [reflexivity|]. split; [exact FD|]. lra.
  Qed.

  Lemma nonnan_trichotomy x : b64_is_nan x = false ->
    b64_eq x b64_zero = true \/ b64_gt x b64_zero = true \/ b64_lt x b64_zero = true.
  Proof. destruct x as [s|[|]| |[|] m e]; cbn; auto; discriminate. Qed.

  Theorem tcdf_range v x c : b64_is_nan x = false -> tcdf betainc v x = Val c ->
    (b64_eq x b64_zero = true -> c = k_half) /\
    (b64_gt x b64_zero = true -> in_b64_range k_half b64_one c) /\
    (b64_lt x b64_zero = true -> in_b64_range b64_zero k_half c) /\
    in_b64_range b64_zero b64_one c.
  Proof.
    intros Hx. unfold tcdf.
    destruct k_half_B as (Eh & Fh & Rh). destruct B2R_one as [F1 R1].
    assert (Ehalf : in_b64_range b64_zero b64_one k_half).
    { rewrite Eh, b64_one_B, b64_zero_B. apply range_of_R; auto. cbn [Bzero B2R]. lra. }
    destruct (b64_eq x b64_zero) eqn:E0.
    { intros E; apply Val_inj in E; subst c. repeat split; auto; try discriminate. }
    destruct (b64_gt x b64_zero) eqn:Eg.
    { intros E. destruct (tcdf_pos_R v x c E) as (C & -> & FC & RC).
      assert (R : in_b64_range k_half b64_one (B2SF C)).
      { rewrite Eh, b64_one_B. apply range_of_R; auto. lra. }
      split; [discriminate|]. split; [intros _; exact R|]. split.
      - intros H. exfalso. destruct x as [s|[|]| |[|] m e]; discriminate.
      - split; [apply valid_binary_B2SF|]. split; [|apply R].
        rewrite b64_zero_B. apply b64_le_of_R; auto. cbn [Bzero B2R]. lra. }
    destruct (b64_lt x b64_zero) eqn:El.
    { destruct (tcdf_pos betainc v (b64_neg x)) as [c0| |] eqn:Ep; cbn [res_map res_bind]; try discriminate.
      intros E; apply Val_inj in E; subst c.
      destruct (tcdf_pos_R v _ c0 Ep) as (C & -> & FC & RC).
      destruct (one_minus C (/ 2) 1 FC RC ltac:(lra) ltac:(lra)) as (D & -> & FD & RD).
      - replace (1 - / 2) with (/ 2) by lra. apply F64_half.
      - replace (1 - 1) with 0 by lra. apply F64_zero.
      - assert (R : in_b64_range b64_zero k_half (B2SF D)).
        { rewrite Eh, b64_zero_B. apply range_of_R; auto. cbn [Bzero B2R]. lra. }
        split; [discriminate|]. split; [discriminate|]. split; [intros _; exact R|].
        split; [apply valid_binary_B2SF|]. split; [apply R|].
        rewrite b64_one_B. apply b64_le_of_R; auto. lra. }
    exfalso. destruct (nonnan_trichotomy x Hx) as [H|[H|H]]; congruence.
  Qed.

  (** Theorem (tcdf_in_unit_interval) *)
  Theorem tcdf_in_unit_interval v x c : b64_is_nan x = false -> tcdf betainc v x = Val c ->
    valid c = true /\ b64_le b64_zero c = true /\ b64_le c b64_one = true.
  Proof. intros Hx E. apply (tcdf_range v x c Hx E). Qed.

  (** a NaN argument is the only way out of [0,1]: the code returns NaN *)
  Lemma tcdf_nan v : tcdf betainc v S754_nan = Val k_nan.
  Proof. reflexivity. Qed.
End Range.
