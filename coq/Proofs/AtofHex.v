(** atofHex returns the correctly rounded binary64 of the hexadecimal number read.

    The code's three loops are shifts of a 64-bit mantissa that carries two extra
    bits below the 53 it will keep, the lowest one sticky ("this bit or any later
    bit was non-zero").  Read as Flocq's [shr_record] (mantissa, round bit, sticky
    bit) the step  mantissa>>1 | mantissa&1  is exactly [shr_1]; so the loops keep
    [inbetween_float] of the exact value (Flocq's [inbetween_shr_1]), and they stop
    at the exponent the format demands (53 bits, or exponent -1074 for subnormal
    results).  There the code's round / carry / assemble is SpecFloat's
    [binary_round_aux] with nothing left to shift, [Float64frombits] of the
    assembled word included, and Flocq's [binary_round_aux_correct'] gives: the
    result is round-to-nearest-even of the exact value, or the infinity with the
    range error. *)
From Coq Require Import ZArith Reals Lia Lra Bool.
From Flocq Require Import Core.Core Calc.Bracket IEEE754.BinarySingleNaN.
From Perf Require Import Base.Bytes Base.B64 Base.DecSpec Model.Atoi Model.Atof
                         Proofs.Atoi Proofs.RnB64 Proofs.AtofExact Proofs.AtofSyntax Proofs.AtofValue
                         Proofs.AtofEndToEnd Proofs.AtofSlow.
Local Open Scope Z_scope.

Local Instance Hprec53h : FLX.Prec_gt_0 53 := eq_refl _.
Local Instance Hmax1024h : Prec_lt_emax 53 1024 := eq_refl _.

Ltac dlia := Z.to_euclidean_division_equations; lia.

(** * bit operations as arithmetic *)
Lemma mod2_odd x : x mod 2 = Z.b2z (Z.odd x).
Proof. now rewrite <- Z.bit0_odd, Z.bit0_mod. Qed.

Lemma land_1 m : Z.land m 1 = m mod 2.
Proof. change 1 with (Z.ones 1). rewrite Z.land_ones by lia. reflexivity. Qed.

Lemma land_3 m : Z.land m 3 = m mod 4.
Proof. change 3 with (Z.ones 2). rewrite Z.land_ones by lia. reflexivity. Qed.

Lemma lor_1 n : 0 <= n -> Z.lor n 1 = n + 1 - n mod 2.
Proof.
  intros Hn. destruct n as [|p|p]; [reflexivity| |lia].
  destruct p as [p|p|]; [| |reflexivity].
  - change (Z.lor (Zpos p~1) 1) with (Zpos p~1). rewrite Pos2Z.inj_xI. dlia.
  - change (Z.lor (Zpos p~0) 1) with (Zpos p~1). rewrite Pos2Z.inj_xI, Pos2Z.inj_xO. dlia.
Qed.

Lemma lor_bit n b : 0 <= n -> 0 <= b <= 1 -> Z.lor n b = n + b * (1 - n mod 2).
Proof.
  intros Hn Hb. assert (b = 0 \/ b = 1) as [-> | ->] by lia.
  - rewrite Z.lor_0_r. lia.
  - rewrite lor_1 by assumption. lia.
Qed.

(** the code's sticky shift:  mantissa>>1 | mantissa&1 *)
Definition jam (m : Z) : Z := Z.lor (Z.shiftr m 1) (Z.land m 1).

Lemma jam_eq m : 0 <= m -> jam m = m / 2 + (m mod 2) * (1 - (m / 2) mod 2).
Proof.
  intros Hm. unfold jam. rewrite land_1, Z.shiftr_div_pow2 by lia. change (2 ^ 1) with 2.
  apply lor_bit; dlia.
Qed.

Ltac split_mod2 m :=
  let H := fresh in assert (H : m mod 2 = 0 \/ m mod 2 = 1) by dlia; destruct H as [H|H]; rewrite H.

Lemma jam_bounds m : 1 <= m -> m / 2 <= jam m <= m /\ 1 <= jam m.
Proof. intros Hm. rewrite jam_eq by lia. split_mod2 m; dlia. Qed.

Lemma jam_lt m P : 0 <= m -> m < 2 * (2 * P) -> jam m < 2 * P.
Proof. intros Hm H. rewrite jam_eq by lia. split_mod2 m; dlia. Qed.

(** * the mantissa with its two extra bits, as a shift record *)
Definition rec_of (m : Z) : shr_record :=
  {| shr_m := m / 4; shr_r := Z.odd (m / 2); shr_s := Z.odd m |}.

Lemma shr_1_eq q r s : 0 <= q ->
  shr_1 {| shr_m := q; shr_r := r; shr_s := s |} = {| shr_m := q / 2; shr_r := Z.odd q; shr_s := r || s |}.
Proof.
  intros Hq. destruct q as [|p|p]; [reflexivity| |lia].
  rewrite <- Z.div2_div. destruct p; reflexivity.
Qed.

Lemma rec_of_jam m : 0 <= m -> rec_of (jam m) = shr_1 (rec_of m).
Proof.
  intros Hm. unfold rec_of. rewrite shr_1_eq by dlia. rewrite jam_eq by assumption.
  pose proof (mod2_odd m) as H0. pose proof (mod2_odd (m / 2)) as H1. pose proof (mod2_odd (m / 4)) as H2.
  set (j := m / 2 + m mod 2 * (1 - (m / 2) mod 2)).
  assert (Hj : (m mod 2 = 0 /\ j = m / 2) \/ (m mod 2 = 1 /\ j = m / 2 + 1 - (m / 2) mod 2)).
  { unfold j. split_mod2 m; [left|right]; split; lia. }
  clearbody j.
  pose proof (mod2_odd j) as J0. pose proof (mod2_odd (j / 2)) as J1.
  f_equal.
  - dlia.
  - destruct (Z.odd (j / 2)), (Z.odd (m / 4)); cbn [Z.b2z] in *; try reflexivity; exfalso; dlia.
  - destruct (Z.odd j), (Z.odd (m / 2)), (Z.odd m); cbn [Z.b2z orb] in *; try reflexivity; exfalso; dlia.
Qed.

(** * the invariant of the loops: [ax] (the magnitude of the exact value) lies
    between (m/4) * 2^(e-50) and its successor, at the place the two low bits say.
    ([e] is the code's [exp] after "exp += mantbits": the mantissa counts units of
    2^(e-52).) *)
Definition Inb (ax : R) (m e : Z) : Prop :=
  inbetween_float radix2 (shr_m (rec_of m)) (e - 50) ax (loc_of_shr_record (rec_of m)).

Lemma Inb_jam ax m e : 0 <= m -> Inb ax m e -> Inb ax (jam m) (e + 1).
Proof.
  intros Hm H. unfold Inb. rewrite rec_of_jam by assumption.
  replace (e + 1 - 50) with (e - 50 + 1) by lia.
  apply inbetween_shr_1; [cbn [rec_of shr_m]; dlia | exact H].
Qed.

Lemma inb_loc q s ax (r1 r0 : bool) :
  let B := bpow radix2 s in let d := (IZR q * bpow radix2 (s + 2))%R in
  match r1, r0 with
  | false, false => ax = d
  | false, true => (d < ax < d + 2 * B)%R
  | true, false => ax = (d + 2 * B)%R
  | true, true => (d + 2 * B < ax < d + 4 * B)%R
  end ->
  inbetween_float radix2 q (s + 2) ax (loc_of_shr_record {| shr_m := q; shr_r := r1; shr_s := r0 |}).
Proof.
  intros B d H. unfold inbetween_float, F2R. cbn [Fnum Fexp]. rewrite plus_IZR.
  fold d. replace ((IZR q + 1) * bpow radix2 (s + 2))%R with (d + 4 * B)%R
    by (unfold d, B; rewrite bpow_plus; change (bpow radix2 2) with 4%R; ring).
  assert (HB : (0 < B)%R) by apply bpow_gt_0.
  destruct r1, r0; cbn [loc_of_shr_record].
  - constructor; [lra|]. apply Rcompare_Gt. lra.
  - constructor; [lra|]. apply Rcompare_Eq. lra.
  - constructor; [lra|]. apply Rcompare_Lt. lra.
  - constructor. exact H.
Qed.

Lemma IZR_quarters n : IZR n = (4 * IZR (n / 4) + 2 * IZR (Z.b2z (Z.odd (n / 2))) + IZR (Z.b2z (Z.odd n)))%R.
Proof.
  rewrite <- !mod2_odd. rewrite <- (mult_IZR 4), <- (mult_IZR 2), <- !plus_IZR. f_equal. dlia.
Qed.

Lemma Inb_exact n e : Inb (IZR n * bpow radix2 (e - 52)) n e.
Proof.
  unfold Inb, rec_of. cbn [shr_m]. replace (e - 50) with (e - 52 + 2) by lia.
  apply inb_loc. cbv zeta. rewrite bpow_plus. change (bpow radix2 2) with 4%R.
  pose proof (bpow_gt_0 radix2 (e - 52)) as HB. set (B := bpow radix2 (e - 52)) in *.
  generalize (IZR_quarters n).
  destruct (Z.odd (n / 2)), (Z.odd n); cbn [Z.b2z]; intros ->; lra.
Qed.

Lemma Inb_sticky ax n e : 0 <= n ->
  (IZR n * bpow radix2 (e - 52) < ax < IZR (n + 1) * bpow radix2 (e - 52))%R ->
  Inb ax (Z.lor n 1) e.
Proof.
  intros Hn H. rewrite lor_1 by assumption. set (n' := n + 1 - n mod 2).
  assert (H4 : n' / 4 = n / 4) by (unfold n'; dlia).
  assert (H2 : n' / 2 = n / 2) by (unfold n'; dlia).
  assert (H1 : Z.odd n' = true).
  { pose proof (mod2_odd n') as X. destruct (Z.odd n'); [reflexivity|]. cbn in X. unfold n' in X. dlia. }
  unfold Inb, rec_of. cbn [shr_m]. rewrite H4, H2, H1. replace (e - 50) with (e - 52 + 2) by lia.
  apply inb_loc. cbv zeta. rewrite bpow_plus. change (bpow radix2 2) with 4%R.
  pose proof (bpow_gt_0 radix2 (e - 52)) as HB. set (B := bpow radix2 (e - 52)) in *.
  revert H. rewrite plus_IZR. generalize (IZR_quarters n).
  assert (H0 : (0 <= IZR (Z.b2z (Z.odd n)) <= 1)%R) by (destruct (Z.odd n); cbn; lra).
  revert H0. generalize (IZR (Z.b2z (Z.odd n))). intros r0 H0.
  destruct (Z.odd (n / 2)); cbn [Z.b2z]; intros -> H; nra.
Qed.

(** * the three loops *)
Lemma shiftr_zero_ltb m k : 0 <= m -> 0 <= k -> (Z.shiftr m k =? 0) = (m <? 2 ^ k).
Proof.
  intros Hm Hk. rewrite Z.shiftr_div_pow2 by lia.
  assert (0 < 2 ^ k) by (apply Z.pow_pos_nonneg; lia).
  destruct (Z.ltb_spec m (2 ^ k)).
  - rewrite Z.div_small by lia. reflexivity.
  - apply Z.eqb_neq. intros E. apply Z.div_small_iff in E; lia.
Qed.

(** first loop: shift left until the mantissa has at least 55 bits *)
Lemma norm_up_spec f : forall m e, 0 < m < 2 ^ 64 -> 2 ^ 54 <= m * 2 ^ Z.of_nat f ->
  exists k, 0 <= k /\ hex_norm_up f m e = (m * 2 ^ k, e - k) /\ 2 ^ 54 <= m * 2 ^ k < 2 ^ 64 /\
            (2 ^ 54 <= m -> k = 0).
Proof.
  induction f as [|f IH]; intros m e Hm Hf.
  - exists 0. cbn [hex_norm_up]. change (Z.of_nat 0) with 0 in Hf. rewrite Z.pow_0_r, Z.mul_1_r in *.
    rewrite Z.sub_0_r. repeat split; lia.
  - cbn [hex_norm_up]. change (mantbits + 2) with 54. rewrite shiftr_zero_ltb by lia.
    destruct (Z.eqb_spec m 0); [lia|]. cbn [negb andb].
    destruct (Z.ltb_spec m (2 ^ 54)) as [Hlt|Hge].
    + rewrite Z.shiftl_mul_pow2, Z.pow_1_r by lia. unfold u64. rewrite Z.mod_small by lia.
      destruct (IH (m * 2) (e - 1)) as [k (Hk & E & B & _)]; [lia| |].
      { rewrite Nat2Z.inj_succ, Z.pow_succ_r in Hf by lia. lia. }
      exists (k + 1). rewrite Z.pow_add_r, Z.pow_1_r by lia. rewrite E.
      split; [lia|]. split; [f_equal; lia|]. split; [lia|lia].
    + exists 0. rewrite Z.pow_0_r, Z.mul_1_r, Z.sub_0_r. repeat split; lia.
Qed.

(** second loop: shift right, sticky, until it has at most 55 bits *)
Lemma norm_down_spec ax f : forall m e, 2 ^ 54 <= m < 2 ^ 55 * 2 ^ Z.of_nat f -> Inb ax m e ->
  exists m2 e2, hex_norm_down f m e = (m2, e2) /\ 2 ^ 54 <= m2 < 2 ^ 55 /\ Inb ax m2 e2.
Proof.
  induction f as [|f IH]; intros m e Hm HI.
  - exists m, e. change (Z.of_nat 0) with 0 in Hm. rewrite Z.pow_0_r in Hm. cbn [hex_norm_down]. repeat split; try lia; assumption.
  - cbn [hex_norm_down]. change (1 + mantbits + 2) with 55. rewrite shiftr_zero_ltb by lia.
    destruct (Z.ltb_spec m (2 ^ 55)) as [Hlt|Hge]; cbn [negb].
    + exists m, e. repeat split; try lia; assumption.
    + fold (jam m). apply IH.
      * pose proof (jam_bounds m ltac:(lia)) as [[Hlo _] _].
        rewrite Nat2Z.inj_succ, Z.pow_succ_r in Hm by lia.
        split; [dlia|]. change (2 ^ 55) with (2 * 2 ^ 54). rewrite <- Z.mul_assoc.
        apply jam_lt; [lia|]. change (2 ^ 55) with (2 * 2 ^ 54) in Hm. lia.
      * apply Inb_jam; [lia|assumption].
Qed.

(** third loop: denormalize while the exponent is below the smallest one *)
Lemma denorm_spec ax f : forall m e, 1 <= m < 2 ^ Z.of_nat f -> Inb ax m e ->
  exists m3 e3, hex_denorm f m e (f_bias + 1) = (m3, e3) /\ Inb ax m3 e3 /\
    1 <= m3 <= m /\ (m3 <= 1 \/ -1024 <= e3) /\
    (-1024 <= e -> m3 = m /\ e3 = e) /\
    (e <= -1024 -> e3 <= -1024) /\
    (e < -1024 -> 1 < m -> m3 <= jam m).
Proof.
  induction f as [|f IH]; intros m e Hm HI.
  - change (Z.of_nat 0) with 0 in Hm. rewrite Z.pow_0_r in Hm. lia.
  - cbn [hex_denorm]. change (f_bias + 1 - 2) with (-1024).
    destruct (Z.ltb_spec 1 m) as [Hm1|Hm1]; cbn [andb].
    + destruct (Z.ltb_spec e (-1024)) as [He|He].
      * fold (jam m). pose proof (jam_bounds m ltac:(lia)) as [[Hlo Hhi] H1].
        assert (Hj : 1 <= jam m < 2 ^ Z.of_nat f).
        { split; [assumption|]. destruct f as [|f'].
          - change (Z.of_nat 1) with 1 in Hm. lia.
          - rewrite !Nat2Z.inj_succ, !Z.pow_succ_r in * by lia. apply jam_lt; lia. }
        destruct (IH (jam m) (e + 1) Hj (Inb_jam ax m e ltac:(lia) HI))
          as (m3 & e3 & E & I3 & B3 & S3 & U3 & L3 & J3).
        exists m3, e3. split; [exact E|]. split; [exact I3|]. split; [lia|]. split; [exact S3|].
        split; [lia|]. split; [intros _; apply L3; lia|]. intros _ _. lia.
      * exists m, e. repeat split; try lia; try assumption.
    + exists m, e. repeat split; try lia; try assumption.
Qed.

(** * round, carry, assemble: the code after the loops *)
Definition hex_finish (mantissa exp : Z) (neg : bool) : fres :=
  let maxExp := 2 ^ 11 + f_bias - 2 in
  let round := Z.land mantissa 3 in
  let mantissa := Z.shiftr mantissa 2 in
  let round := Z.lor round (Z.land mantissa 1) in
  let exp := exp + 2 in
  let '(mantissa, exp) :=
    if round =? 3 then
      let m := mantissa + 1 in
      if m =? 2 ^ (1 + mantbits) then (Z.shiftr m 1, exp + 1) else (m, exp)
    else (mantissa, exp) in
  let exp := if Z.shiftr mantissa mantbits =? 0 then f_bias else exp in
  if maxExp <? exp
  then (f64_assemble (2 ^ mantbits) (maxExp + 1) neg, ErrRange)
  else (f64_assemble mantissa exp neg, ErrNone).

Lemma atof_hex_unfold m e neg tr :
  atof_hex m e neg tr =
  let '(m1, e1) := hex_norm_up 64 m (e + mantbits) in
  let m1 := if tr then Z.lor m1 1 else m1 in
  let '(m2, e2) := hex_norm_down 64 m1 e1 in
  let '(m3, e3) := hex_denorm 64 m2 e2 (f_bias + 1) in
  hex_finish m3 e3 neg.
Proof. reflexivity. Qed.

(** ** Float64frombits of the assembled word *)
Lemma land_disjoint a b n : 0 <= n -> 0 <= a < 2 ^ n -> Z.land a (Z.shiftl b n) = 0.
Proof.
  intros Hn Ha. apply Z.bits_inj'. intros i Hi. rewrite Z.land_spec, Z.bits_0.
  destruct (Z.lt_ge_cases i n) as [Hlt|Hge].
  - rewrite Z.shiftl_spec_low by assumption. apply andb_false_r.
  - destruct (Z.eq_dec a 0) as [->|Hnz]; [now rewrite Z.bits_0|].
    rewrite Z.bits_above_log2; [reflexivity|lia|].
    apply Z.lt_le_trans with n; [|assumption]. apply Z.log2_lt_pow2; lia.
Qed.

Lemma lor_disjoint_add a b n : 0 <= n -> 0 <= a < 2 ^ n -> Z.lor a (Z.shiftl b n) = a + b * 2 ^ n.
Proof.
  intros Hn Ha. pose proof (land_disjoint a b n Hn Ha) as H.
  rewrite <- Z.lxor_lor by assumption. rewrite <- Z.add_nocarry_lxor by assumption.
  now rewrite Z.shiftl_mul_pow2.
Qed.

Definition sign_word (neg : bool) : Z := if neg then 2 ^ 63 else 0.

(** the word built from a 52-bit fraction, an 11-bit exponent field and the sign *)
Lemma assemble_word mant exp neg :
  let lo := Z.land mant (2 ^ mantbits - 1) in
  let be := Z.land (exp - f_bias) (2 ^ 11 - 1) in
  f64_assemble mant exp neg = b64_of_bits (lo + be * 2 ^ 52 + sign_word neg) /\
  0 <= lo < 2 ^ 52 /\ lo = mant mod 2 ^ 52 /\ 0 <= be < 2 ^ 11 /\ be = (exp + 1023) mod 2 ^ 11.
Proof.
  cbv zeta. unfold f64_assemble.
  change (2 ^ mantbits - 1) with (Z.ones 52). change (2 ^ 11 - 1) with (Z.ones 11).
  rewrite !Z.land_ones by lia. change (exp - f_bias) with (exp - -1023). replace (exp - -1023) with (exp + 1023) by lia.
  set (lo := mant mod 2 ^ 52). set (be := (exp + 1023) mod 2 ^ 11).
  assert (Hlo : 0 <= lo < 2 ^ 52) by (apply Z.mod_pos_bound; lia).
  assert (Hbe : 0 <= be < 2 ^ 11) by (apply Z.mod_pos_bound; lia).
  split; [|auto].
  change mantbits with 52. rewrite lor_disjoint_add by lia.
  f_equal. unfold sign_word. destruct neg; [|lia].
  change (2 ^ 63) with (Z.shiftl 1 63). rewrite lor_disjoint_add by lia. reflexivity.
Qed.

Lemma decode_word lo be neg : 0 <= lo < 2 ^ 52 -> 0 <= be < 2 ^ 11 ->
  let w := lo + be * 2 ^ 52 + sign_word neg in
  Z.testbit w 63 = neg /\ Z.land (Z.shiftr w 52) 2047 = be /\ Z.land w (2 ^ 52 - 1) = lo.
Proof.
  intros Hlo Hbe w.
  assert (Hs : sign_word neg = Z.b2z neg * 2 ^ 63) by (destruct neg; reflexivity).
  assert (Hb : 0 <= Z.b2z neg <= 1) by (destruct neg; cbn; lia).
  split; [|split].
  - pose proof (Z.testbit_spec' w 63 ltac:(lia)) as T.
    assert (E : w / 2 ^ 63 = Z.b2z neg) by (unfold w; rewrite Hs; dlia).
    rewrite E in T. destruct (Z.testbit w 63), neg; cbn in *; try reflexivity; dlia.
  - change 2047 with (Z.ones 11). rewrite Z.land_ones, Z.shiftr_div_pow2 by lia.
    unfold w. rewrite Hs. dlia.
  - change (2 ^ 52 - 1) with (Z.ones 52). rewrite Z.land_ones by lia.
    unfold w. rewrite Hs. dlia.
Qed.

Lemma assemble_normal mant exp neg : 2 ^ 52 <= mant < 2 ^ 53 -> -1022 <= exp <= 1023 ->
  f64_assemble mant exp neg = S754_finite neg (Z.to_pos mant) (exp - 52).
Proof.
  intros Hm He. destruct (assemble_word mant exp neg) as (E & Hlo & Elo & Hbe & Ebe). rewrite E.
  destruct (decode_word _ _ neg Hlo Hbe) as (D1 & D2 & D3). cbv zeta in D1, D2, D3.
  unfold b64_of_bits. rewrite D1, D2, D3.
  assert (Eb : Z.land (exp - f_bias) (2 ^ 11 - 1) = exp + 1023) by (rewrite Ebe; dlia).
  assert (El : Z.land mant (2 ^ mantbits - 1) = mant - 2 ^ 52) by (rewrite Elo; dlia).
  rewrite Eb, El.
  destruct (Z.eqb_spec (exp + 1023) 0); [lia|]. destruct (Z.eqb_spec (exp + 1023) 2047); [lia|].
  replace (mant - 2 ^ 52 + 2 ^ 52) with mant by lia.
  destruct mant as [|p|p]; try lia. cbn [Z.to_pos]. f_equal. lia.
Qed.

Lemma assemble_subnormal mant neg : 0 <= mant < 2 ^ 52 ->
  f64_assemble mant f_bias neg = match mant with Zpos p => S754_finite neg p (-1074) | _ => S754_zero neg end.
Proof.
  intros Hm. destruct (assemble_word mant f_bias neg) as (E & Hlo & Elo & Hbe & Ebe). rewrite E.
  destruct (decode_word _ _ neg Hlo Hbe) as (D1 & D2 & D3). cbv zeta in D1, D2, D3.
  unfold b64_of_bits. rewrite D1, D2, D3.
  assert (Eb : Z.land (f_bias - f_bias) (2 ^ 11 - 1) = 0) by reflexivity.
  assert (El : Z.land mant (2 ^ mantbits - 1) = mant) by (rewrite Elo; apply Z.mod_small; lia).
  rewrite Eb, El. reflexivity.
Qed.

Lemma assemble_inf neg : f64_assemble (2 ^ mantbits) (2 ^ 11 + f_bias - 2 + 1) neg = S754_infinity neg.
Proof. destruct neg; vm_compute; reflexivity. Qed.

(** ** the code's rounding is SpecFloat's round-to-nearest-even *)
Lemma rne_go m : 0 <= m ->
  round_nearest_even (m / 4) (loc_of_shr_record (rec_of m)) =
  if Z.lor (Z.land m 3) (Z.land (Z.shiftr m 2) 1) =? 3 then m / 4 + 1 else m / 4.
Proof.
  intros Hm. rewrite land_3, land_1, Z.shiftr_div_pow2 by lia. change (2 ^ 2) with 4.
  assert (Hr : m mod 4 = 2 * Z.b2z (Z.odd (m / 2)) + Z.b2z (Z.odd m)) by (rewrite <- !mod2_odd; dlia).
  assert (Hb : (m / 4) mod 2 = Z.b2z (Z.odd (m / 4))) by apply mod2_odd.
  rewrite lor_bit by dlia. rewrite Hr, Hb. unfold rec_of. cbn [loc_of_shr_record].
  unfold round_nearest_even. rewrite <- (Z.negb_odd (m / 4)).
  destruct (Z.odd (m / 2)), (Z.odd m), (Z.odd (m / 4)); reflexivity.
Qed.

Lemma sf_fexp_eq x : SpecFloat.fexp 53 1024 x = Z.max (x - 53) (-1074).
Proof. reflexivity. Qed.

Lemma digits2_range n d : 0 < d -> 2 ^ (d - 1) <= n < 2 ^ d -> Zdigits2 n = d.
Proof.
  intros Hd Hn. rewrite Zdigits2_Zdigits. apply Zdigits_unique.
  change (radix_val radix2) with 2. rewrite Z.abs_eq; [exact Hn|].
  assert (0 < 2 ^ (d - 1)) by (apply Z.pow_pos_nonneg; lia). lia.
Qed.

Lemma digits2_le n d : 0 <= d -> 0 <= n < 2 ^ d -> 0 <= Zdigits2 n <= d.
Proof.
  intros Hd Hn. rewrite Zdigits2_Zdigits. split; [apply Zdigits_ge_0|].
  apply Zdigits_le_Zpower. change (radix_val radix2) with 2. rewrite Z.abs_eq; lia.
Qed.

Lemma shr_fexp_id mx ex l : SpecFloat.fexp 53 1024 (Zdigits2 mx + ex) = ex ->
  shr_fexp 53 1024 mx ex l = (shr_record_of_loc mx l, ex).
Proof. intros H. unfold shr_fexp. rewrite H, Z.sub_diag. reflexivity. Qed.

Lemma finish_round m e neg :
  (2 ^ 54 <= m < 2 ^ 55 /\ -1024 <= e) \/ (1 <= m < 2 ^ 54 /\ e = -1024) ->
  hex_finish m e neg =
  let z := SpecFloat.binary_round_aux 53 1024 neg (shr_m (rec_of m)) (e - 50) (loc_of_shr_record (rec_of m)) in
  (z, if b64_is_inf z then ErrRange else ErrNone).
Proof.
  intros Hcase.
  assert (Hm : 0 <= m) by lia.
  pose proof (rne_go m Hm) as Hrne.
  unfold hex_finish. cbv zeta.
  change (2 ^ 11 + f_bias - 2) with 1023. change (2 ^ (1 + mantbits)) with (2 ^ 53). change mantbits with 52.
  change f_bias with (-1023).
  set (round := Z.lor (Z.land m 3) (Z.land (Z.shiftr m 2) 1)) in *.
  rewrite (Z.shiftr_div_pow2 m 2) by lia. change (2 ^ 2) with 4.
  cbn [rec_of shr_m]. fold (rec_of m).
  set (mx := m / 4) in *. set (l := loc_of_shr_record (rec_of m)) in *.
  set (mr := round_nearest_even mx l) in *.
  unfold SpecFloat.binary_round_aux.
  destruct Hcase as [[Hmm He]|[Hmm He]].
  - (* 53 bits *)
    assert (Hmx : 2 ^ 52 <= mx < 2 ^ 53) by (unfold mx; dlia).
    rewrite shr_fexp_id by (rewrite (digits2_range mx 53) by (change (2 ^ (53 - 1)) with (2 ^ 52); lia); rewrite sf_fexp_eq; lia).
    rewrite shr_m_shr_record_of_loc, loc_of_shr_record_of_loc. fold mr.
    destruct (Z.eq_dec mr (2 ^ 53)) as [Hc|Hnc].
    + (* the carry gives a 54th bit *)
      assert (Hr3 : (round =? 3) = true) by (destruct (round =? 3); [reflexivity|lia]).
      rewrite Hr3 in *. rewrite <- Hrne, Hc. change (2 ^ 53 =? 2 ^ 53) with true. cbv iota.
      change (Z.shiftr (Z.shiftr (2 ^ 53) 1) 52 =? 0) with false. cbv iota.
      unfold shr_fexp. rewrite (digits2_range (2 ^ 53) 54) by (cbn; lia).
      rewrite sf_fexp_eq. replace (Z.max (54 + (e - 50) - 53) (-1074) - (e - 50)) with 1 by lia.
      cbn [shr iter_pos].
      change (shr_m (shr_1 (shr_record_of_loc (2 ^ 53) loc_Exact))) with (Zpos (Z.to_pos (2 ^ 52))). cbv iota.
      change (1024 - 53) with 971.
      destruct (Z.ltb_spec 1023 (e + 2 + 1)); destruct (Z.leb_spec (e - 50 + 1) 971); try lia.
      * change (2 ^ 52) with (2 ^ mantbits). change (1023 + 1) with (2 ^ 11 + f_bias - 2 + 1).
        rewrite assemble_inf. reflexivity.
      * change (Z.shiftr (2 ^ 53) 1) with (2 ^ 52).
        rewrite assemble_normal by lia. replace (e + 2 + 1 - 52) with (e - 50 + 1) by lia. reflexivity.
    + assert (Hmr : 2 ^ 52 <= mr < 2 ^ 53) by (rewrite Hrne in *; destruct (round =? 3); lia).
      rewrite shr_fexp_id by (rewrite (digits2_range mr 53) by (change (2 ^ (53 - 1)) with (2 ^ 52); lia); rewrite sf_fexp_eq; lia).
      rewrite shr_m_shr_record_of_loc.
      assert (Hgo : (if round =? 3 then if mx + 1 =? 2 ^ 53 then (Z.shiftr (mx + 1) 1, e + 2 + 1) else (mx + 1, e + 2)
                     else (mx, e + 2)) = (mr, e + 2)).
      { rewrite Hrne in *. destruct (round =? 3); [|reflexivity]. destruct (Z.eqb_spec (mx + 1) (2 ^ 53)); [lia|reflexivity]. }
      rewrite Hgo. rewrite shiftr_zero_ltb by lia. destruct (Z.ltb_spec mr (2 ^ 52)); [lia|].
      change (1024 - 53) with 971.
      destruct mr as [|p|p]; try lia.
      destruct (Z.ltb_spec 1023 (e + 2)); destruct (Z.leb_spec (e - 50) 971); try lia.
      * change (2 ^ 52) with (2 ^ mantbits). change (1023 + 1) with (2 ^ 11 + f_bias - 2 + 1).
        rewrite assemble_inf. reflexivity.
      * rewrite assemble_normal by lia. replace (e + 2 - 52) with (e - 50) by lia. reflexivity.
  - (* subnormal: exponent -1074 *)
    subst e. change (-1024 - 50) with (-1074). change (-1024 + 2) with (-1022).
    assert (Hmx : 0 <= mx < 2 ^ 52) by (unfold mx; dlia).
    rewrite shr_fexp_id by (pose proof (digits2_le mx 52 ltac:(lia) Hmx); rewrite sf_fexp_eq; lia).
    rewrite shr_m_shr_record_of_loc, loc_of_shr_record_of_loc. fold mr.
    assert (Hmr : 0 <= mr <= 2 ^ 52) by (rewrite Hrne in *; destruct (round =? 3); lia).
    rewrite shr_fexp_id by (pose proof (digits2_le mr 53 ltac:(lia) ltac:(lia)); rewrite sf_fexp_eq; lia).
    rewrite shr_m_shr_record_of_loc.
    assert (Hgo : (if round =? 3 then if mx + 1 =? 2 ^ 53 then (Z.shiftr (mx + 1) 1, -1022 + 1) else (mx + 1, -1022)
                   else (mx, -1022)) = (mr, -1022)).
    { rewrite Hrne in *. destruct (round =? 3); [|reflexivity]. destruct (Z.eqb_spec (mx + 1) (2 ^ 53)); [lia|reflexivity]. }
    rewrite Hgo. rewrite shiftr_zero_ltb by lia. change (1024 - 53) with 971.
    destruct (Z.ltb_spec mr (2 ^ 52)).
    + change (1023 <? -1023) with false. cbv iota. change (-1023) with f_bias. rewrite assemble_subnormal by lia.
      destruct mr as [|p|p]; try lia; reflexivity.
    + change (1023 <? -1022) with false. cbv iota. rewrite assemble_normal by lia.
      destruct mr as [|p|p]; try lia. reflexivity.
Qed.

Lemma finish_one e neg : hex_finish 1 e neg = (S754_zero neg, ErrNone).
Proof. destruct neg; reflexivity. Qed.

(** * what the scanner guarantees beyond [cut_of]: when hexadecimal digits were
    dropped ([trunc]) the mantissa holds 16 digits, the first one not zero *)
Definition rf_full (st : rf) : Prop :=
  0 <= rf_ndMant st <= 16 /\
  (rf_ndMant st = 0 -> rf_nd st = 0 /\ rf_mant st = 0) /\
  (0 < rf_ndMant st -> 16 ^ (rf_ndMant st - 1) <= rf_mant st < 16 ^ rf_ndMant st) /\
  (rf_trunc st = true -> rf_ndMant st = 16).

Lemma rf_full_append st d : rf_full st -> rf_ndMant st < 16 -> 0 <= d < 16 -> (rf_nd st = 0 -> 0 < d) ->
  rf_full (mkRf (u64 (u64 (rf_mant st * 16) + d)) (rf_nd st + 1) (rf_ndMant st + 1) (rf_dp st)
                (rf_sawdot st) true (rf_trunc st)).
Proof.
  intros (Hn & Hz & Hp & Ht) Hlt Hd Hd0. unfold rf_full. cbn [rf_mant rf_nd rf_ndMant rf_trunc].
  assert (Hb : 16 ^ rf_ndMant st <= rf_mant st * 16 + d < 16 ^ (rf_ndMant st + 1) /\ 0 <= rf_mant st).
  { rewrite Z.pow_add_r, Z.pow_1_r by lia.
    destruct (Z.eq_dec (rf_ndMant st) 0) as [E0|N0].
    - destruct (Hz E0) as [Hnd Hm]. rewrite E0, Hm, Z.pow_0_r. specialize (Hd0 Hnd). lia.
    - specialize (Hp ltac:(lia)).
      assert (Ep : 16 ^ rf_ndMant st = 16 ^ (rf_ndMant st - 1) * 16).
      { rewrite <- (Z.pow_1_r 16) at 3. rewrite <- Z.pow_add_r by lia. f_equal. lia. }
      rewrite Ep in *.
      assert (0 < 16 ^ (rf_ndMant st - 1)) by (apply Z.pow_pos_nonneg; lia). nia. }
  assert (Hle : 16 ^ (rf_ndMant st + 1) <= 2 ^ 64).
  { change (2 ^ 64) with (16 ^ 16). apply Z.pow_le_mono_r; lia. }
  assert (0 < 16 ^ rf_ndMant st) by (apply Z.pow_pos_nonneg; lia).
  unfold u64. rewrite (Z.mod_small (rf_mant st * 16)) by lia. rewrite Z.mod_small by lia.
  replace (rf_ndMant st + 1 - 1) with (rf_ndMant st) by lia.
  split; [lia|]. split; [lia|]. split; [intros _; lia|]. intros T. specialize (Ht T). lia.
Qed.

Lemma rf_digits_full s : forall st st' rest,
  rf_digits true 16 s st = Some (st', rest) -> rf_full st -> rf_full st'.
Proof.
  induction s as [|c r IH]; intros st st' rest H K.
  - injection H as <- _. exact K.
  - cbn [rf_digits] in H.
    destruct (Byte.eqb c c_us); [now apply (IH _ _ _ H)|].
    destruct (Byte.eqb c c_dot).
    { destruct (rf_sawdot st); [discriminate|]. apply (IH _ _ _ H). exact K. }
    destruct (code_is_dec_digit c) eqn:Edec.
    { destruct (dec_digit_val c Edec) as [Hv [Hr Hz]].
      destruct (Byte.eqb c c_zero && (rf_nd st =? 0)) eqn:Elz; [apply (IH _ _ _ H); exact K|].
      destruct (Z.ltb_spec (rf_ndMant st) 16) as [Hlt|Hge].
      - apply (IH _ _ _ H). apply rf_full_append; [assumption|assumption|lia|].
        intros Hnd. rewrite Hnd in Elz. cbn in Elz. rewrite andb_true_r in Elz.
        destruct (Z.eq_dec (digit_val c) 0) as [E0|]; [|lia]. apply Hz in E0. congruence.
      - apply (IH _ _ _ H). destruct K as (Hn & Hz' & Hp & Ht). unfold rf_full.
        cbn [rf_mant rf_nd rf_ndMant rf_trunc]. repeat split; try lia; try (apply Hp; lia). }
    cbn [andb] in H. destruct (code_is_hex_letter c) eqn:Ehex.
    { destruct (hex_letter_val c Edec Ehex) as [Hv Hr].
      destruct (Z.ltb_spec (rf_ndMant st) 16) as [Hlt|Hge].
      - apply (IH _ _ _ H). apply rf_full_append; [assumption|assumption|lia|lia].
      - apply (IH _ _ _ H). destruct K as (Hn & Hz' & Hp & Ht). unfold rf_full.
        cbn [rf_mant rf_nd rf_ndMant rf_trunc]. repeat split; try lia; try (apply Hp; lia). }
    injection H as <- _. exact K.
Qed.

Lemma read_float_core_trunc body neg r :
  read_float_core true body neg = Some r -> r_trunc r = true -> 2 ^ 60 <= r_mant r.
Proof.
  unfold read_float_core. cbv zeta.
  destruct (rf_digits true 16 body (mkRf 0 0 0 0 false false false)) as [[st rest]|] eqn:D; [|discriminate].
  assert (K : rf_full st).
  { apply (rf_digits_full _ _ _ _ D). unfold rf_full. cbn. repeat split; try lia; discriminate. }
  destruct (negb (rf_sawdigits st)); [discriminate|].
  match goal with |- match ?a with _ => _ end = _ -> _ => destruct a as [[dp [|? ?]]|] end; try discriminate.
  intros [= <-]. cbn [r_trunc r_mant]. intros T.
  destruct K as (_ & _ & Hp & Ht). specialize (Ht T). rewrite Ht in Hp. specialize (Hp ltac:(lia)).
  change (2 ^ 60) with (16 ^ (16 - 1)). lia.
Qed.

Theorem read_float_trunc_full s r :
  read_float s = Some r -> r_hex r = true -> r_trunc r = true -> 2 ^ 60 <= r_mant r.
Proof.
  destruct s as [|c0 r0]; [discriminate|]. rewrite read_float_eq.
  destruct (code_prefix (after_sign (c0 :: r0))) as [hex body]. intros H Hh.
  pose proof (read_float_core_hex _ _ _ _ H) as Hx. rewrite Hh in Hx. subst hex.
  exact (read_float_core_trunc _ _ _ H).
Qed.

(** * the rounding theorem *)

(** magnitudes below half the smallest subnormal round to zero *)
Lemma rnd64_below_half_min x : (Rabs x < bpow radix2 (-1075))%R -> rnd64 x = 0%R.
Proof.
  intros Hx. destruct (Req_dec x 0) as [->|Hnz]; [apply round_0; typeclasses eauto|].
  unfold rnd64. destruct (mag radix2 x) as [ex Hex]. specialize (Hex Hnz).
  apply round_N_small with (ex := ex); [exact Hex|].
  assert (ex - 1 < -1075).
  { apply (lt_bpow radix2). apply Rle_lt_trans with (1 := proj1 Hex). exact Hx. }
  unfold fexp64, FLT_exp. lia.
Qed.

Lemma round_aux_rounds neg x mx ex lx :
  x <> 0%R -> Rlt_bool x 0 = neg ->
  inbetween_float radix2 mx ex (Rabs x) lx ->
  ex <= cexp radix2 fexp64 x ->
  rounds_to neg x (SpecFloat.binary_round_aux 53 1024 neg mx ex lx).
Proof.
  intros Hx Hs Hi He. rewrite sf_round_aux_equiv.
  pose proof (binary_round_aux_correct' 53 1024 _ _ mode_NE x mx ex lx Hx Hi He) as H.
  cbv zeta in H. rewrite Hs in H. exact H.
Qed.

Lemma IZR_pow2 k : 0 <= k -> IZR (2 ^ k) = bpow radix2 k.
Proof. intros Hk. change 2 with (radix_val radix2). now rewrite IZR_Zpower. Qed.

Lemma IZR_pow16 j : 0 <= j -> IZR (16 ^ j) = bpow radix2 (4 * j).
Proof.
  intros Hj. rewrite <- IZR_pow2 by lia. f_equal. rewrite Z.pow_mul_r by lia. reflexivity.
Qed.

Lemma cexp_ge_min x ex : ex = -1074 -> ex <= cexp radix2 fexp64 x.
Proof. intros ->. unfold cexp, fexp64, FLT_exp. lia. Qed.

Lemma cexp_ge_normal x mx ex l : 2 ^ 52 <= mx -> inbetween_float radix2 mx ex (Rabs x) l ->
  ex <= cexp radix2 fexp64 x.
Proof.
  intros Hmx Hi. apply inbetween_float_bounds in Hi. destruct Hi as [Hlo _].
  assert (53 + ex <= mag radix2 x).
  { apply mag_ge_bpow. replace (53 + ex - 1) with (52 + ex) by lia.
    apply Rle_trans with (2 := Hlo). unfold F2R. cbn [Fnum Fexp]. rewrite bpow_plus.
    apply Rmult_le_compat_r; [apply bpow_ge_0|]. rewrite <- IZR_pow2 by lia. now apply IZR_le. }
  unfold cexp, fexp64, FLT_exp. lia.
Qed.

Theorem atof_hex_correct m e neg tr M E :
  cut_of true M E m e tr -> (tr = true -> 2 ^ 60 <= m) ->
  atof_hex m e neg tr = value_of_lexed (LNum neg true M E).
Proof.
  intros [Hm (j & tail & Hj & HM & Htail & Htf & Htt & Hexp & Hzero)] Hfull.
  cbn [radixB maxMant expk] in *.
  destruct (Z.eq_dec m 0) as [Hz|Hnz].
  { destruct (Hzero Hz) as [-> ->]. subst m. destruct tr; [specialize (Hfull eq_refl); lia|].
    unfold value_of_lexed. cbn [rn_b64]. destruct neg; reflexivity. }
  specialize (Hexp Hnz). clear Hzero.
  assert (Hp16 : 0 < 16 ^ j) by (apply Z.pow_pos_nonneg; lia).
  assert (HM0 : 0 < M) by nia.
  set (x := exact_value neg M true E).
  assert (Hax : Rabs x = (IZR M * bpow radix2 E)%R) by (apply abs_exact; lia).
  assert (Hxpos : (0 < Rabs x)%R).
  { rewrite Hax. apply Rmult_lt_0_compat; [apply IZR_lt; lia|apply bpow_gt_0]. }
  assert (Hxnz : x <> 0%R) by (intros X; rewrite X, Rabs_R0 in Hxpos; lra).
  assert (Hsign : Rlt_bool x 0 = neg).
  { assert (0 < IZR M * bpow radix2 E)%R by (rewrite <- Hax; exact Hxpos).
    unfold x, exact_value. destruct neg.
    - apply Rlt_bool_true. lra.
    - apply Rlt_bool_false. lra. }
  enough (Hr : exists z, atof_hex m e neg tr = (z, if b64_is_inf z then ErrRange else ErrNone) /\ rounds_to neg x z).
  { destruct Hr as [z [Ez Rz]]. rewrite Ez. cbn [value_of_lexed]. unfold rn_overflow.
    rewrite (rn_b64_is neg M true E z ltac:(lia) Rz). reflexivity. }
  rewrite atof_hex_unfold. change (e + mantbits) with (e + 52).
  change (16 ^ 16) with (2 ^ 64) in Hm.
  destruct (norm_up_spec 64 m (e + 52)) as [k (Hk & E1 & B1 & K0)]; [lia| |].
  { change (2 ^ Z.of_nat 64) with (2 ^ 64). lia. }
  rewrite E1. cbv beta iota zeta. set (m1 := m * 2 ^ k) in *. set (e1 := e + 52 - k).
  set (m1' := if tr then Z.lor m1 1 else m1).
  (* the value in units of 2^(e1-52) *)
  assert (Hscale : (IZR m1 * bpow radix2 (e1 - 52) = IZR m * bpow radix2 e)%R).
  { unfold m1, e1. rewrite mult_IZR, IZR_pow2 by lia. rewrite Rmult_assoc, <- bpow_plus. f_equal. f_equal. lia. }
  assert (HI1 : Inb (Rabs x) m1' e1).
  { unfold m1'. destruct tr.
    - assert (k = 0) by (apply K0; specialize (Hfull eq_refl); lia).
      specialize (Htt eq_refl).
      apply Inb_sticky; [lia|].
      assert (E1m : m1 = m) by (unfold m1; subst k; rewrite Z.pow_0_r; lia).
      rewrite Hax, HM. rewrite E1m in *. replace (e1 - 52) with e by (unfold e1; lia).
      rewrite Hexp, !plus_IZR, mult_IZR, IZR_pow16 by lia.
      rewrite (Z.add_comm E), bpow_plus.
      assert (Ht : (0 < IZR tail < bpow radix2 (4 * j))%R).
      { rewrite <- IZR_pow16 by lia. split; apply IZR_lt; lia. }
      pose proof (bpow_gt_0 radix2 E). pose proof (bpow_gt_0 radix2 (4 * j)).
      split; nra.
    - rewrite (Htf eq_refl), Z.add_0_r in HM.
      replace (Rabs x) with (IZR m1 * bpow radix2 (e1 - 52))%R; [apply Inb_exact|].
      rewrite Hscale, Hax, HM, Hexp, mult_IZR, IZR_pow16 by lia.
      rewrite (Z.add_comm E), bpow_plus. ring. }
  assert (Hb1 : 2 ^ 54 <= m1' < 2 ^ 64).
  { unfold m1'. destruct tr; [|lia]. rewrite lor_1 by lia. dlia. }
  destruct (norm_down_spec (Rabs x) 64 m1' e1) as (m2 & e2 & E2 & B2 & I2); [|exact HI1|].
  { change (2 ^ Z.of_nat 64) with (2 ^ 64). lia. }
  rewrite E2. cbv beta iota zeta.
  destruct (denorm_spec (Rabs x) 64 m2 e2) as (m3 & e3 & E3 & I3 & B3 & S3 & U3 & L3 & J3); [|exact I2|].
  { change (2 ^ Z.of_nat 64) with (2 ^ 64). lia. }
  rewrite E3. cbv beta iota zeta.
  destruct (Z_le_gt_dec (-1024) e2) as [He2|He2].
  - (* a normal number, or overflow *)
    destruct (U3 He2) as [-> ->].
    eexists. split; [apply finish_round; left; lia|].
    apply round_aux_rounds; [exact Hxnz|exact Hsign|exact I2|].
    apply (cexp_ge_normal x (shr_m (rec_of m2)) (e2 - 50) (loc_of_shr_record (rec_of m2))); [cbn [rec_of shr_m]; dlia|exact I2].
  - assert (Hm3 : m3 < 2 ^ 54).
    { apply Z.le_lt_trans with (jam m2); [apply J3; lia|].
      change (2 ^ 54) with (2 * 2 ^ 53). apply jam_lt; [lia|]. change (2 * (2 * 2 ^ 53)) with (2 ^ 55). lia. }
    specialize (L3 ltac:(lia)).
    destruct (Z.eq_dec e3 (-1024)) as [He3|He3].
    + (* a subnormal number *)
      eexists. split; [apply finish_round; right; lia|].
      apply round_aux_rounds; [exact Hxnz|exact Hsign|exact I3|].
      apply cexp_ge_min. lia.
    + (* below half the smallest subnormal *)
      assert (m3 = 1) by lia. subst m3. rewrite finish_one.
      exists (S754_zero neg). split; [reflexivity|].
      apply zero_rounds, rnd64_below_half_min.
      apply inbetween_float_bounds in I3. destruct I3 as [_ Hhi].
      apply Rlt_le_trans with (1 := Hhi). change (shr_m (rec_of 1) + 1) with 1.
      unfold F2R. cbn [Fnum Fexp]. rewrite Rmult_1_l. apply bpow_le. lia.
Qed.

(** * hex_correct: on every hexadecimal text of the grammar the scanner's
    mantissa / exponent / trunc, given to atofHex, produce the correctly rounded
    value of the number written, and the range error exactly on overflow *)
Theorem hex_correct s neg M E :
  lex_float s = Some (LNum neg true M E) -> no_clamp s ->
  exists r, read_float s = Some r /\ r_hex r = true /\ r_neg r = neg /\
    atof_hex (r_mant r) (r_exp r) (r_neg r) (r_trunc r) =
      (rn_b64 neg M true E, if b64_is_inf (rn_b64 neg M true E) then ErrRange else ErrNone).
Proof.
  intros Hlex Hnc.
  destruct (read_float_value s neg true M E Hlex Hnc) as [r (Hrf & Hrn & Hrh & Hcut)].
  exists r. split; [exact Hrf|]. split; [exact Hrh|]. split; [exact Hrn|].
  rewrite Hrn. apply (atof_hex_correct _ _ neg _ M E Hcut).
  intros Ht. exact (read_float_trunc_full s r Hrf Hrh Ht).
Qed.

(** the same, said with the real numbers: the result is round-to-nearest-even of
    the exact value, or the infinity of its sign *)
Theorem hex_rounds s neg M E :
  lex_float s = Some (LNum neg true M E) -> no_clamp s -> 0 <= M /\
  exists r, read_float s = Some r /\
    rounds_to neg (exact_value neg M true E) (fst (atof_hex (r_mant r) (r_exp r) (r_neg r) (r_trunc r))).
Proof.
  intros Hlex Hnc.
  destruct (read_float_value s neg true M E Hlex Hnc) as [r (Hrf & Hrn & Hrh & Hcut)].
  assert (HM : 0 <= M).
  { destruct Hcut as [Hm (j & tail & Hj & HM & Htail & _)]. cbn [radixB] in *.
    assert (0 <= 16 ^ j) by (apply Z.pow_nonneg; lia). nia. }
  split; [exact HM|].
  destruct (hex_correct s neg M E Hlex Hnc) as [r' (Hrf' & _ & _ & Hv)].
  exists r'. split; [exact Hrf'|]. rewrite Hv. cbn [fst]. now apply rn_b64_rounds.
Qed.

(** * ParseFloat = specification on hexadecimal texts *)
Theorem hex_end_to_end s neg M E :
  lex_float s = Some (LNum neg true M E) -> no_clamp s ->
  parse_float s = parse_float_spec s.
Proof.
  intros Hlex Hnc.
  assert (Hacc : code_accepts s = true) by (rewrite code_accepts_lex, Hlex; reflexivity).
  unfold code_accepts in Hacc. apply andb_true_iff in Hacc as [Hus _].
  assert (Hsp : special s = None).
  { rewrite special_spec. unfold lex_float in Hlex. destruct (lex_special s) as [x|] eqn:Es; [|reflexivity].
    injection Hlex as ->. now apply lex_special_not_num in Es. }
  destruct (hex_correct s neg M E Hlex Hnc) as [r (Hrf & Hrh & Hrn & Hv)].
  unfold parse_float, parse_float_gen, atof64_gen. rewrite Hus, Hsp. cbn [negb]. cbv zeta.
  rewrite Hrf, Hrh, Hv. unfold parse_float_spec. rewrite Hlex. reflexivity.
Qed.

(** * ParseFloat = specification on EVERY text whose significant digits fit
    decimal.set's 800-digit buffer (hexadecimal texts never reach that buffer) *)
Theorem parse_float_correct s :
  no_clamp s ->
  (forall d, dec_set s = Some d -> d_trunc d = false) ->
  parse_float s = parse_float_spec s.
Proof.
  intros Hnc Hfit.
  destruct (lex_float s) as [[n| |neg [|] M E]|] eqn:Hlex;
    try (apply parse_float_correct_nonhex; [exact Hnc|exact Hfit|intros ? ? ?; rewrite Hlex; congruence]).
  now apply (hex_end_to_end s neg M E).
Qed.
