(** Proofs about the benchtab builder model (C14, C15). *)
From Perf Require Import Base.Bytes Base.B64 Model.BenchTab.
From Coq Require Import Sorting.Permutation Sorting.Sorted.

(** ** Builder.Add: each measurement lands in exactly one cell *)

Definition cvals (r c : N) (cs : list bcell) : list b64 :=
  match find_cell r c cs with Some x => bc_vals x | None => [] end.
Definition cres (r c : N) (cs : list bcell) : list N :=
  match find_cell r c cs with Some x => bc_res x | None => [] end.

Definition same_rc (r c r' c' : N) : bool := (r =? r')%N && (c =? c')%N.

Lemma cell_is_mk r c r' c' v s : cell_is r c (mkBcell r' c' v s) = same_rc r' c' r c.
Proof. reflexivity. Qed.

Lemma same_rc_sym r c r' c' : same_rc r c r' c' = same_rc r' c' r c.
Proof. unfold same_rc. now rewrite (N.eqb_sym r), (N.eqb_sym c). Qed.

Lemma same_rc_true r c r' c' : same_rc r c r' c' = true <-> r = r' /\ c = c'.
Proof. unfold same_rc. rewrite andb_true_iff, !N.eqb_eq. tauto. Qed.

Lemma find_cell_cell_add r c r' c' res v cs :
  find_cell r c (cell_add r' c' res v cs) =
    if same_rc r c r' c'
    then Some (mkBcell r' c' (cvals r' c' cs ++ [v])
                 (match find_cell r' c' cs with Some x => set_add res (bc_res x) | None => [res] end))
    else find_cell r c cs.
Proof.
  unfold cvals. induction cs as [|x cs IH]; cbn [cell_add find_cell].
  - rewrite cell_is_mk, same_rc_sym. destruct (same_rc r c r' c'); reflexivity.
  - destruct (cell_is r' c' x) eqn:E'.
    + cbn [find_cell]. rewrite cell_is_mk, same_rc_sym.
      destruct (same_rc r c r' c') eqn:E; [reflexivity|].
      destruct (cell_is r c x) eqn:E2; [|reflexivity].
      exfalso. unfold cell_is in *. apply andb_true_iff in E', E2.
      rewrite !N.eqb_eq in *. destruct E' as [<- <-], E2 as [<- <-].
      unfold same_rc in E. now rewrite !N.eqb_refl in E.
    + cbn [find_cell]. destruct (cell_is r c x) eqn:E2.
      * destruct (same_rc r c r' c') eqn:E; [|reflexivity].
        apply same_rc_true in E as [-> ->]. congruence.
      * exact IH.
Qed.

Lemma cvals_cell_add r c r' c' res v cs :
  cvals r c (cell_add r' c' res v cs) = cvals r c cs ++ (if same_rc r c r' c' then [v] else []).
Proof.
  unfold cvals at 1. rewrite find_cell_cell_add.
  destruct (same_rc r c r' c') eqn:E.
  - apply same_rc_true in E as [-> ->]. reflexivity.
  - fold (cvals r c cs). now rewrite app_nil_r.
Qed.

Lemma find_tab_tab_add t m ts :
  find_tab t (tab_add m ts) =
    if (t =? m_t m)%N
    then Some (mkBtab (m_t m) (cell_add (m_r m) (m_c m) (m_res m) (m_v m)
                 (match find_tab (m_t m) ts with Some tb => bt_cells tb | None => [] end)))
    else find_tab t ts.
Proof.
  induction ts as [|x ts IH]; cbn [tab_add find_tab].
  - cbn. rewrite (N.eqb_sym (m_t m) t). destruct (t =? m_t m)%N; reflexivity.
  - destruct (bt_key x =? m_t m)%N eqn:E'.
    + cbn [find_tab bt_key]. apply N.eqb_eq in E'. rewrite E'.
      rewrite (N.eqb_sym (m_t m) t). destruct (t =? m_t m)%N eqn:E; reflexivity.
    + cbn [find_tab]. destruct (bt_key x =? t)%N eqn:E2.
      * apply N.eqb_eq in E2. subst t. rewrite E'. reflexivity.
      * exact IH.
Qed.

Definition tcells (t : N) (ts : list btab) : list bcell :=
  match find_tab t ts with Some tb => bt_cells tb | None => [] end.

Lemma tcells_tab_add t m ts :
  tcells t (tab_add m ts) =
    if (t =? m_t m)%N then cell_add (m_r m) (m_c m) (m_res m) (m_v m) (tcells t ts) else tcells t ts.
Proof.
  unfold tcells at 1. rewrite find_tab_tab_add.
  destruct (t =? m_t m)%N eqn:E; [|reflexivity].
  apply N.eqb_eq in E. subst t. reflexivity.
Qed.

Lemma lookup_vals_tcells ts t r c : lookup_vals ts t r c = cvals r c (tcells t ts).
Proof. unfold lookup_vals, lookup_cell, cvals, tcells. destruct (find_tab t ts); reflexivity. Qed.

Lemma lookup_res_tcells ts t r c : lookup_res ts t r c = cres r c (tcells t ts).
Proof. unfold lookup_res, lookup_cell, cres, tcells. destruct (find_tab t ts); reflexivity. Qed.

Lemma lookup_cell_tcells ts t r c : lookup_cell ts t r c = find_cell r c (tcells t ts).
Proof. unfold lookup_cell, tcells. destruct (find_tab t ts); reflexivity. Qed.

Lemma m_is_split t r c m : m_is t r c m = (t =? m_t m)%N && same_rc r c (m_r m) (m_c m).
Proof.
  unfold m_is, same_rc. rewrite (N.eqb_sym (m_t m)), (N.eqb_sym (m_r m)), (N.eqb_sym (m_c m)).
  now rewrite andb_assoc.
Qed.

Lemma lookup_vals_tab_add ts m t r c :
  lookup_vals (tab_add m ts) t r c = lookup_vals ts t r c ++ (if m_is t r c m then [m_v m] else []).
Proof.
  rewrite !lookup_vals_tcells, tcells_tab_add, m_is_split.
  destruct (t =? m_t m)%N; cbn [andb].
  - apply cvals_cell_add.
  - now rewrite app_nil_r.
Qed.

Lemma lookup_vals_fold ms ts t r c :
  lookup_vals (fold_left (fun ts m => tab_add m ts) ms ts) t r c =
  lookup_vals ts t r c ++ map m_v (filter (m_is t r c) ms).
Proof.
  revert ts; induction ms as [|m ms IH]; intros ts; cbn [fold_left filter map].
  - now rewrite app_nil_r.
  - rewrite IH, lookup_vals_tab_add, <- app_assoc. f_equal.
    destruct (m_is t r c m); reflexivity.
Qed.

(** the sample of cell (t,r,c) is exactly the matching measurements, each once, in input order *)
Theorem cell_sample_exact ms t r c :
  lookup_vals (build ms) t r c = map m_v (filter (m_is t r c) ms).
Proof. unfold build. now rewrite lookup_vals_fold. Qed.

(** every cell that exists holds at least one value *)
Definition cells_nonempty (cs : list bcell) : Prop := Forall (fun x => bc_vals x <> []) cs.

Lemma cell_add_nonempty r c res v cs : cells_nonempty cs -> cells_nonempty (cell_add r c res v cs).
Proof.
  unfold cells_nonempty. induction 1 as [|x cs Hx Hcs IH]; cbn [cell_add].
  - repeat constructor. discriminate.
  - destruct (cell_is r c x).
    + constructor; [|exact Hcs]. cbn. destruct (bc_vals x); discriminate.
    + constructor; auto.
Qed.

Definition tabs_nonempty (ts : list btab) : Prop := Forall (fun t => cells_nonempty (bt_cells t)) ts.

Lemma tab_add_nonempty m ts : tabs_nonempty ts -> tabs_nonempty (tab_add m ts).
Proof.
  unfold tabs_nonempty. induction 1 as [|x ts Hx Hts IH]; cbn [tab_add].
  - repeat constructor. discriminate.
  - destruct (bt_key x =? m_t m)%N; constructor; auto. cbn. now apply cell_add_nonempty.
Qed.

Lemma build_nonempty ms : tabs_nonempty (build ms).
Proof.
  unfold build. assert (H : tabs_nonempty []) by constructor.
  revert H. generalize (@nil btab). induction ms as [|m ms IH]; intros ts H; cbn; auto.
  apply IH. now apply tab_add_nonempty.
Qed.

Lemma find_cell_in r c cs x : find_cell r c cs = Some x -> In x cs.
Proof.
  induction cs as [|y cs IH]; cbn; [congruence|].
  destruct (cell_is r c y); [intros [= ->]; now left | intros H; right; auto].
Qed.

Lemma find_tab_in t ts x : find_tab t ts = Some x -> In x ts.
Proof.
  induction ts as [|y ts IH]; cbn; [congruence|].
  destruct (bt_key y =? t)%N; [intros [= ->]; now left | intros H; right; auto].
Qed.

(** a cell exists iff at least one measurement maps to it *)
Theorem cell_exists_iff ms t r c :
  lookup_cell (build ms) t r c <> None <-> exists m, In m ms /\ m_is t r c m = true.
Proof.
  split.
  - intros H. destruct (lookup_cell (build ms) t r c) as [x|] eqn:E; [|congruence].
    assert (Hv : lookup_vals (build ms) t r c <> []).
    { unfold lookup_vals. rewrite E. unfold lookup_cell in E.
      destruct (find_tab t (build ms)) as [tb|] eqn:Et; [|congruence].
      pose proof (build_nonempty ms) as Hn. unfold tabs_nonempty in Hn. rewrite Forall_forall in Hn.
      specialize (Hn _ (find_tab_in _ _ _ Et)). unfold cells_nonempty in Hn. rewrite Forall_forall in Hn.
      exact (Hn _ (find_cell_in _ _ _ _ E)). }
    rewrite cell_sample_exact in Hv.
    destruct (filter (m_is t r c) ms) as [|m l] eqn:Ef; [cbn in Hv; congruence|].
    assert (Hin : In m (filter (m_is t r c) ms)) by (rewrite Ef; now left).
    apply filter_In in Hin. eauto.
  - intros [m [Hin Hm]] Hnone.
    assert (Hv : lookup_vals (build ms) t r c = []) by (unfold lookup_vals; now rewrite Hnone).
    rewrite cell_sample_exact in Hv.
    assert (Hin' : In m (filter (m_is t r c) ms)) by (apply filter_In; auto).
    destruct (filter (m_is t r c) ms); [contradiction|discriminate].
Qed.

(** ** residue keys of a cell: exactly those of the measurements merged into it *)
Lemma set_add_in x s k : In k (set_add x s) <-> k = x \/ In k s.
Proof.
  induction s as [|y s IH]; cbn.
  - intuition.
  - destruct (N.eqb_spec y x) as [->|Hn]; cbn.
    + intuition.
    + rewrite IH. intuition.
Qed.

Lemma set_add_nodup x s : NoDup s -> NoDup (set_add x s).
Proof.
  induction 1 as [|y s Hy Hs IH]; cbn.
  - repeat constructor. intros [].
  - destruct (N.eqb_spec y x) as [->|Hn].
    + constructor; auto.
    + constructor; auto. rewrite set_add_in. intros [->|H]; auto.
Qed.

Lemma cres_cell_add r c r' c' res v cs k :
  In k (cres r c (cell_add r' c' res v cs)) <->
  In k (cres r c cs) \/ (same_rc r c r' c' = true /\ k = res).
Proof.
  unfold cres at 1. rewrite find_cell_cell_add.
  destruct (same_rc r c r' c') eqn:E.
  - apply same_rc_true in E as [-> ->]. unfold cres. cbn [bc_res].
    destruct (find_cell r' c' cs) as [x|].
    + rewrite set_add_in. intuition.
    + cbn. intuition.
  - fold (cres r c cs). intuition congruence.
Qed.

Lemma lookup_res_fold ms ts t r c k :
  In k (lookup_res (fold_left (fun ts m => tab_add m ts) ms ts) t r c) <->
  In k (lookup_res ts t r c) \/ exists m, In m ms /\ m_is t r c m = true /\ m_res m = k.
Proof.
  revert ts; induction ms as [|m ms IH]; intros ts; cbn [fold_left].
  - split; [auto|]. intros [H|[m [[] _]]]; auto.
  - rewrite IH. rewrite !lookup_res_tcells, tcells_tab_add.
    destruct (t =? m_t m)%N eqn:Et.
    + rewrite cres_cell_add. split.
      * intros [[H|[H1 ->]]|[m' [H1 H2]]]; auto.
        -- right. exists m. split; [now left|]. rewrite m_is_split, Et, H1. auto.
        -- right. exists m'. split; [now right|auto].
      * intros [H|[m' [[<-|H1] [H2 H3]]]]; auto.
        -- left. right. rewrite m_is_split, Et in H2. cbn in H2. auto.
        -- right. eauto.
    + split.
      * intros [H|[m' [H1 H2]]]; auto. right. exists m'. split; [now right|auto].
      * intros [H|[m' [[<-|H1] [H2 H3]]]]; auto.
        -- rewrite m_is_split, Et in H2. discriminate.
        -- right. eauto.
Qed.

Theorem cell_residue_exact ms t r c k :
  In k (lookup_res (build ms) t r c) <-> exists m, In m ms /\ m_is t r c m = true /\ m_res m = k.
Proof.
  unfold build. rewrite lookup_res_fold. cbn. intuition.
Qed.

(** ** non-singular fields: "differs from the first key" is "some two keys differ" *)
Theorem nonsingular_iff (vals : N -> list bytes) nf keys i :
  In i (nonsingular vals nf keys) <->
  (i < nf)%nat /\ exists k1 k2, In k1 keys /\ In k2 keys /\ fval vals k1 i <> fval vals k2 i.
Proof.
  destruct keys as [|k0 [|k1 rest]].
  - cbn. split; [tauto|]. intros [_ [a [b [[] _]]]].
  - cbn. split; [tauto|]. intros [_ [a [b [[<-|[]] [[<-|[]] H]]]]]. congruence.
  - unfold nonsingular. rewrite filter_In, in_seq. split.
    + intros [[_ Hi] Hex]. split; [cbn in Hi; lia|].
      apply existsb_exists in Hex as [k [Hk Hne]].
      exists k, k0. split; [now right|]. split; [now left|].
      apply negb_true_iff in Hne. destruct (beq_spec (fval vals k i) (fval vals k0 i)); congruence.
    + intros [Hi [a [b [Ha [Hb Hne]]]]]. split; [cbn; lia|].
      apply existsb_exists.
      destruct (beq_spec (fval vals a i) (fval vals k0 i)) as [Ea|Ea].
      * (* a agrees with k0, so b must differ from k0 and b is not k0 *)
        destruct Hb as [<-|Hb]; [congruence|].
        exists b. split; auto. apply negb_true_iff.
        destruct (beq_spec (fval vals b i) (fval vals k0 i)); congruence.
      * destruct Ha as [<-|Ha]; [congruence|].
        exists a. split; auto. apply negb_true_iff.
        destruct (beq_spec (fval vals a i) (fval vals k0 i)); congruence.
Qed.

(** ** sorting by rank *)
Lemma insert_by_perm rank x l : Permutation (insert_by rank x l) (x :: l).
Proof.
  induction l as [|y l IH]; cbn; auto.
  destruct (rank x <? rank y)%N; auto.
  rewrite IH. apply perm_swap.
Qed.

Lemma sort_by_perm rank l : Permutation (sort_by rank l) l.
Proof.
  induction l as [|x l IH]; cbn; auto. rewrite insert_by_perm. now constructor.
Qed.

Definition rank_le (rank : N -> N) (a b : N) : Prop := (rank a <= rank b)%N.

Lemma insert_by_sorted rank x l :
  StronglySorted (rank_le rank) l -> StronglySorted (rank_le rank) (insert_by rank x l).
Proof.
  induction 1 as [|y l Hs IH Hy]; cbn.
  - repeat constructor.
  - destruct (N.ltb_spec (rank x) (rank y)).
    + constructor; [constructor; auto|]. constructor; [unfold rank_le; lia|].
      rewrite Forall_forall in *. intros z Hz. specialize (Hy z Hz). unfold rank_le in *. lia.
    + constructor; auto. rewrite Forall_forall in *. intros z Hz.
      apply (Permutation_in _ (insert_by_perm rank x l)) in Hz. destruct Hz as [<-|Hz]; auto.
Qed.

Lemma sort_by_sorted rank l : StronglySorted (rank_le rank) (sort_by rank l).
Proof. induction l; cbn; [constructor | now apply insert_by_sorted]. Qed.

(** the first sorted key is a minimum: the baseline column is the first column in sort order *)
Theorem sorted_head_min rank l c0 rest :
  sort_by rank l = c0 :: rest -> forall c, In c l -> (rank c0 <= rank c)%N.
Proof.
  intros E c Hc. pose proof (sort_by_sorted rank l) as Hs. rewrite E in Hs.
  apply (Permutation_in _ (Permutation_sym (sort_by_perm rank l))) in Hc. rewrite E in Hc.
  inversion Hs as [|? ? _ Hall]; subst. destruct Hc as [<-|Hc]; [lia|].
  rewrite Forall_forall in Hall. exact (Hall _ Hc).
Qed.

(** two rank-sorted arrangements of the same distinct keys are equal (rank injective on them) *)
Lemma sorted_perm_eq rank (l1 l2 : list N) :
  (forall a b, In a l1 -> In b l1 -> rank a = rank b -> a = b) ->
  NoDup l1 ->
  StronglySorted (rank_le rank) l1 -> StronglySorted (rank_le rank) l2 ->
  Permutation l1 l2 -> l1 = l2.
Proof.
  revert l2; induction l1 as [|x l1 IH]; intros l2 Hinj Hnd H1 H2 Hp.
  - apply Permutation_nil in Hp. now subst.
  - destruct l2 as [|y l2]; [apply Permutation_sym, Permutation_nil in Hp; discriminate|].
    inversion H1 as [|? ? H1' Hx]; subst. inversion H2 as [|? ? H2' Hy]; subst.
    inversion Hnd as [|? ? Hnx Hnd']; subst.
    rewrite Forall_forall in Hx, Hy.
    assert (Hxy : x = y).
    { assert (Hy_in : In y (x :: l1)) by (apply (Permutation_in _ (Permutation_sym Hp)); now left).
      assert (Hx_in : In x (y :: l2)) by (apply (Permutation_in _ Hp); now left).
      destruct Hy_in as [|Hy_in]; auto. destruct Hx_in as [|Hx_in]; auto.
      specialize (Hx _ Hy_in). specialize (Hy _ Hx_in). unfold rank_le in *.
      apply Hinj; [now left | now right | lia]. }
    subst y. f_equal. apply IH; auto.
    + intros a b Ha Hb. apply Hinj; now right.
    + now apply Permutation_cons_inv in Hp.
Qed.

Theorem sort_by_perm_invariant rank l l' :
  (forall a b, In a l -> In b l -> rank a = rank b -> a = b) ->
  NoDup l -> Permutation l l' -> sort_by rank l = sort_by rank l'.
Proof.
  intros Hinj Hnd Hp. apply (sorted_perm_eq rank).
  - intros a b Ha Hb. apply Hinj; eapply Permutation_in; eauto using sort_by_perm.
  - eapply Permutation_NoDup; [apply Permutation_sym, sort_by_perm|auto].
  - apply sort_by_sorted.
  - apply sort_by_sorted.
  - rewrite sort_by_perm, Hp. apply Permutation_sym, sort_by_perm.
Qed.

(** ** dedup: set of keys, independent of arrangement up to permutation *)
Lemma dedup_in l x : In x (dedup l) <-> In x l.
Proof.
  induction l as [|y l IH]; cbn; [tauto|].
  destruct (existsb (N.eqb y) l) eqn:E.
  - rewrite IH. split; auto. intros [<-|H]; auto.
    apply existsb_exists in E as [z [Hz Ez]]. apply N.eqb_eq in Ez. now subst.
  - cbn. rewrite IH. tauto.
Qed.

Lemma dedup_nodup l : NoDup (dedup l).
Proof.
  induction l as [|y l IH]; cbn; [constructor|].
  destruct (existsb (N.eqb y) l) eqn:E; auto.
  constructor; auto. rewrite dedup_in. intros Hin.
  assert (existsb (N.eqb y) l = true) by (apply existsb_exists; exists y; split; auto; apply N.eqb_refl).
  congruence.
Qed.

Lemma dedup_perm l l' : Permutation l l' -> Permutation (dedup l) (dedup l').
Proof.
  intros Hp. apply NoDup_Permutation; auto using dedup_nodup.
  intros x. rewrite !dedup_in. split; apply Permutation_in; auto using Permutation_sym.
Qed.

(** ** independence of map iteration order (C15): cells enumerated in another
    order, tables enumerated in another order *)
Definition cell_key (x : bcell) : N * N := (bc_r x, bc_c x).

Lemma find_cell_perm r c cs cs' :
  NoDup (map cell_key cs) -> Permutation cs cs' -> find_cell r c cs = find_cell r c cs'.
Proof.
  intros Hnd Hp. induction Hp as [|x l l' Hp IH|x y l|l l' l'' Hp1 IH1 Hp2 IH2]; auto.
  - cbn. destruct (cell_is r c x); auto. apply IH. now inversion Hnd.
  - cbn. destruct (cell_is r c y) eqn:Ey, (cell_is r c x) eqn:Ex; auto.
    exfalso. unfold cell_is in *. apply andb_true_iff in Ex, Ey. rewrite !N.eqb_eq in *.
    inversion Hnd as [|? ? Hn _]; subst. apply Hn. left. unfold cell_key.
    destruct Ex as [-> ->], Ey as [-> ->]. reflexivity.
  - rewrite IH1 by auto. apply IH2.
    eapply Permutation_NoDup; [apply Permutation_map; exact Hp1|auto].
Qed.

Section Indep.
  Variables rank_t rank_r rank_c : N -> N.
  Variable centre : list b64 -> b64.
  Variable geomean : list b64 -> b64.
  Hypothesis inj_r : forall a b, rank_r a = rank_r b -> a = b.
  Hypothesis inj_c : forall a b, rank_c a = rank_c b -> a = b.
  Hypothesis inj_t : forall a b, rank_t a = rank_t b -> a = b.

  Lemma rows_of_perm cs cs' : Permutation cs cs' -> rows_of rank_r cs = rows_of rank_r cs'.
  Proof.
    intros Hp. unfold rows_of. apply sort_by_perm_invariant; auto using dedup_nodup.
    apply dedup_perm. now apply Permutation_map.
  Qed.

  Lemma cols_of_perm cs cs' : Permutation cs cs' -> cols_of rank_c cs = cols_of rank_c cs'.
  Proof.
    intros Hp. unfold cols_of. apply sort_by_perm_invariant; auto using dedup_nodup.
    apply dedup_perm. now apply Permutation_map.
  Qed.

  Lemma table_out_perm k cs cs' :
    NoDup (map cell_key cs) -> Permutation cs cs' ->
    table_out rank_r rank_c centre geomean (mkBtab k cs) = table_out rank_r rank_c centre geomean (mkBtab k cs').
  Proof.
    intros Hnd Hp. unfold table_out. cbn [bt_cells bt_key].
    rewrite <- (rows_of_perm _ _ Hp), <- (cols_of_perm _ _ Hp).
    assert (Hf : forall r c, find_cell r c cs = find_cell r c cs') by (intros; now apply find_cell_perm).
    f_equal.
    - unfold cells_out. f_equal. apply flat_map_ext. intros r. apply map_ext. intros c.
      unfold mk_ocell. rewrite <- Hf. destruct (find_cell r c cs); auto.
      destruct (cols_of rank_c cs) as [|c0 ?]; auto. now rewrite <- Hf.
    - destruct (cols_of rank_c cs) as [|c0 rest]; auto. apply map_ext. intros [i c].
      unfold col_summary.
      assert (E1 : forall rows, filter (has_cell cs c0) rows = filter (has_cell cs' c0) rows).
      { intros rows. apply filter_ext. intros r. unfold has_cell. now rewrite Hf. }
      rewrite E1.
      assert (E2 : forall b rows acc, fold_left (sum_step centre cs c0 c b) rows acc
                                    = fold_left (sum_step centre cs' c0 c b) rows acc).
      { intros b. induction rows as [|r rows IHr]; intros acc; cbn [fold_left]; auto.
        rewrite IHr. f_equal. unfold sum_step. destruct acc as [[s q] bad]. rewrite <- !Hf. reflexivity. }
      rewrite E2. reflexivity.
  Qed.
End Indep.

(** ** the "benchmark set differs" warning: raised iff the column's set of rows
    differs from the baseline column's *)
Lemma filter_and_le {A} (f g : A -> bool) l : length (filter (fun x => f x && g x) l) <= length (filter f l).
Proof. induction l as [|y l IH]; cbn; auto. destruct (f y), (g y); cbn; lia. Qed.
Lemma filter_and_length {A} (f g : A -> bool) l :
  length (filter (fun x => f x && g x) l) = length (filter f l) <->
  forall x, In x l -> f x = true -> g x = true.
Proof.
  induction l as [|y l IH]; cbn [filter In length].
  - split; [intros _ x []|auto].
  - pose proof (filter_and_le f g l) as Hle.
    destruct (f y) eqn:Ef, (g y) eqn:Eg; cbn [andb length].
    + split.
      * intros H x [<-|Hx] Hfx; auto. apply IH; auto.
      * intros H. f_equal. apply IH. intros x Hx. apply H. now right.
    + split.
      * intros H. lia.
      * intros H. specialize (H y (or_introl eq_refl) Ef). congruence.
    + rewrite IH. split.
      * intros H x [<-|Hx] Hfx; [congruence|auto].
      * intros H x Hx. apply H. now right.
    + rewrite IH. split.
      * intros H x [<-|Hx] Hfx; [congruence|auto].
      * intros H x Hx. apply H. now right.
Qed.

Section Summaries.
  Variable centre : list b64 -> b64.
  Variable geomean : list b64 -> b64.

  Lemma sum_step_len cs c0 col s q b r s' q' b' :
    sum_step centre cs c0 col false (s, q, b) r = (s', q', b') ->
    length s' = length s + (if has_cell cs col r then 1 else 0) /\
    length q' = length q + (if has_cell cs col r && has_cell cs c0 r then 1 else 0).
  Proof.
    unfold sum_step, has_cell.
    destruct (find_cell r col cs) as [x|]; cbn [andb].
    - destruct (find_cell r c0 cs) as [xb|].
      + destruct (b64_eq _ _); [|destruct (b64_eq _ _)]; intros [= <- <- <-];
          rewrite !app_length; cbn [length]; lia.
      + intros [= <- <- <-]. rewrite !app_length; cbn [length]; lia.
    - intros [= <- <- <-]. lia.
  Qed.

  Lemma sum_step_lengths cs c0 col rows : forall s q b s' q' b',
    fold_left (sum_step centre cs c0 col false) rows (s, q, b) = (s', q', b') ->
    length s' = length s + length (filter (has_cell cs col) rows) /\
    length q' = length q + length (filter (fun r => has_cell cs col r && has_cell cs c0 r) rows).
  Proof.
    induction rows as [|r rows IH]; cbn [fold_left filter]; intros s q b s' q' b' H.
    - inversion H; subst. cbn [length]. lia.
    - destruct (sum_step centre cs c0 col false (s, q, b) r) as [[s1 q1] b1] eqn:E1.
      apply sum_step_len in E1 as [E1 E2]. apply IH in H as [H1 H2].
      destruct (has_cell cs col r), (has_cell cs c0 r); cbn [andb length] in *; lia.
  Qed.

  Theorem set_warning_iff cs rows c0 col :
    cs_warn_set (col_summary centre geomean cs rows c0 false col) = false <->
    forall r, In r rows -> has_cell cs c0 r = has_cell cs col r.
  Proof.
    unfold col_summary.
    destruct (fold_left (sum_step centre cs c0 col false) rows ([], [], false)) as [[s q] b] eqn:E.
    apply sum_step_lengths in E as [Es Eq]. cbn [length Nat.add] in Es, Eq.
    cbn [cs_warn_set]. unfold set_warning. cbn [negb andb].
    rewrite orb_false_iff, !negb_false_iff, !Nat.eqb_eq, Es, Eq.
    assert (Hsym : length (filter (fun r => has_cell cs col r && has_cell cs c0 r) rows)
                 = length (filter (fun r => has_cell cs c0 r && has_cell cs col r) rows)).
    { f_equal. apply filter_ext. intros r. apply andb_comm. }
    split.
    - intros [H1 H2]. rewrite Hsym in H1. symmetry in H1, H2.
      rewrite filter_and_length in H1, H2. intros r Hr.
      specialize (H1 r Hr). specialize (H2 r Hr).
      destruct (has_cell cs c0 r), (has_cell cs col r); auto; try (now rewrite H1); try (now rewrite H2).
    - intros H. split.
      + rewrite Hsym. symmetry. apply filter_and_length. intros r Hr Hb. now rewrite <- H.
      + symmetry. apply filter_and_length. intros r Hr Hc. now rewrite H.
  Qed.

  (** the baseline column never carries the warning *)
  Theorem base_col_no_set_warning cs rows c0 col :
    cs_warn_set (col_summary centre geomean cs rows c0 true col) = false.
  Proof.
    unfold col_summary. destruct (fold_left _ rows _) as [[s q] b]. reflexivity.
  Qed.
End Summaries.

(** ** invariants of the built state: distinct table keys, distinct cell keys *)
Lemma cell_add_keys_in r c res v cs k :
  In k (map cell_key (cell_add r c res v cs)) -> k = (r, c) \/ In k (map cell_key cs).
Proof.
  induction cs as [|x cs IH]; cbn [cell_add map].
  - intros [<-|[]]. now left.
  - destruct (cell_is r c x); cbn [map].
    + intros [<-|H]; [now left | right; now right].
    + intros [<-|H]; [right; now left|]. destruct (IH H); auto. right. now right.
Qed.

Lemma cell_add_keys r c res v cs :
  NoDup (map cell_key cs) -> NoDup (map cell_key (cell_add r c res v cs)).
Proof.
  induction cs as [|x cs IH]; cbn [cell_add map]; intros Hnd.
  - repeat constructor. intros [].
  - inversion Hnd as [|? ? Hx Hnd']; subst. destruct (cell_is r c x) eqn:E; cbn [map].
    + unfold cell_is in E. apply andb_true_iff in E as [E1 E2]. apply N.eqb_eq in E1, E2.
      unfold cell_key at 1. cbn [bc_r bc_c]. constructor; auto.
      unfold cell_key in Hx at 1. now rewrite E1, E2 in Hx.
    + constructor; auto. intros Hk. apply cell_add_keys_in in Hk as [Hk|Hk]; auto.
      unfold cell_key in Hk. inversion Hk as [[H0 H1]]. unfold cell_is in E.
      now rewrite H0, H1, !N.eqb_refl in E.
Qed.

Definition tabs_wf (ts : list btab) : Prop :=
  NoDup (map bt_key ts) /\ Forall (fun t => NoDup (map cell_key (bt_cells t))) ts.

Lemma tab_add_keys_in m ts k :
  In k (map bt_key (tab_add m ts)) -> k = m_t m \/ In k (map bt_key ts).
Proof.
  induction ts as [|y ts IH]; cbn [tab_add map].
  - intros [<-|[]]; now left.
  - destruct (bt_key y =? m_t m)%N; cbn [map bt_key].
    + intros [<-|H]; right; [now left|now right].
    + intros [<-|H]; [right; now left|]. destruct (IH H); auto. right; now right.
Qed.

Lemma tab_add_wf m ts : tabs_wf ts -> tabs_wf (tab_add m ts).
Proof.
  unfold tabs_wf. induction ts as [|x ts IH]; cbn [tab_add]; intros [Hk Hc].
  - split.
    + cbn. constructor; [intros []|constructor].
    + constructor; [|constructor]. cbn. constructor; [intros []|constructor].
  - inversion Hk as [|? ? Hx Hk']; subst. inversion Hc as [|? ? Hcx Hc']; subst.
    destruct (bt_key x =? m_t m)%N eqn:E.
    + split.
      * cbn. constructor; auto.
      * constructor; auto. cbn. now apply cell_add_keys.
    + destruct (IH (conj Hk' Hc')) as [IH1 IH2]. split.
      * cbn. constructor; auto. intros Hin. apply tab_add_keys_in in Hin as [Hin|Hin]; auto.
        apply N.eqb_neq in E. congruence.
      * constructor; auto.
Qed.

Lemma build_wf ms : tabs_wf (build ms).
Proof.
  unfold build. assert (H : tabs_wf []) by (split; constructor).
  revert H. generalize (@nil btab). induction ms as [|m ms IH]; intros ts H; cbn; auto.
  apply IH. now apply tab_add_wf.
Qed.

(** ** tables enumerated in another order *)
Lemma find_tab_perm t ts ts' :
  NoDup (map bt_key ts) -> Permutation ts ts' -> find_tab t ts = find_tab t ts'.
Proof.
  intros Hnd Hp. induction Hp as [|x l l' Hp IH|x y l|l l' l'' Hp1 IH1 Hp2 IH2]; auto.
  - cbn. destruct (bt_key x =? t)%N; auto. apply IH. now inversion Hnd.
  - cbn. destruct (bt_key y =? t)%N eqn:Ey, (bt_key x =? t)%N eqn:Ex; auto.
    exfalso. apply N.eqb_eq in Ex, Ey. inversion Hnd as [|? ? Hn _]; subst. apply Hn. left. congruence.
  - rewrite IH1 by auto. apply IH2.
    eapply Permutation_NoDup; [apply Permutation_map; exact Hp1|auto].
Qed.

Section IndepTables.
  Variables rank_t rank_r rank_c : N -> N.
  Variable centre : list b64 -> b64.
  Variable geomean : list b64 -> b64.
  Hypothesis inj_r : forall a b, rank_r a = rank_r b -> a = b.
  Hypothesis inj_c : forall a b, rank_c a = rank_c b -> a = b.
  Hypothesis inj_t : forall a b, rank_t a = rank_t b -> a = b.

  Notation TT := (to_tables rank_t rank_r rank_c centre geomean).

  Lemma to_tables_perm ts ts' :
    NoDup (map bt_key ts) -> Permutation ts ts' -> TT ts = TT ts'.
  Proof.
    intros Hnd Hp. unfold to_tables.
    rewrite (sort_by_perm_invariant rank_t (map bt_key ts) (map bt_key ts')); auto.
    - f_equal. apply map_ext. intros k. now rewrite (find_tab_perm k ts ts').
    - now apply Permutation_map.
  Qed.

  (** cells of each table enumerated in another order *)
  Inductive tab_equiv : btab -> btab -> Prop :=
  | te_intro k cs cs' : Permutation cs cs' -> tab_equiv (mkBtab k cs) (mkBtab k cs').

  Lemma to_tables_cells ts ts' :
    Forall (fun t => NoDup (map cell_key (bt_cells t))) ts ->
    Forall2 tab_equiv ts ts' -> TT ts = TT ts'.
  Proof.
    intros Hwf H2. unfold to_tables.
    assert (Hkeys : map bt_key ts = map bt_key ts').
    { clear Hwf. induction H2 as [|x y l l' Hxy _ IH]; cbn; auto. destruct Hxy. cbn. now f_equal. }
    rewrite <- Hkeys. f_equal. apply map_ext. intros k.
    clear Hkeys. induction H2 as [|x y l l' Hxy H2 IH]; cbn; auto.
    inversion Hwf as [|? ? Hx Hl]; subst. destruct Hxy as [k0 cs cs' Hp]. cbn [bt_key].
    destruct (k0 =? k)%N; [|now apply IH].
    cbn [option_map]. f_equal. apply table_out_perm; auto.
  Qed.

  (** benchstat's tables do not depend on the order in which Go enumerates its
      maps of tables and of cells *)
  Theorem tables_indep_of_map_order ts mid ts' :
    tabs_wf ts -> Permutation ts mid -> Forall2 tab_equiv mid ts' -> TT ts = TT ts'.
  Proof.
    intros [Hk Hc] Hp H2. rewrite (to_tables_perm ts mid Hk Hp).
    apply to_tables_cells; auto.
    rewrite Forall_forall in *. intros t Ht. apply Hc.
    eapply Permutation_in; [apply Permutation_sym; exact Hp|exact Ht].
  Qed.
End IndepTables.

(** ** permuting the input measurements never changes the content of a cell *)
Theorem line_perm_cell_invariant ms ms' t r c :
  Permutation ms ms' ->
  Permutation (lookup_vals (build ms) t r c) (lookup_vals (build ms') t r c).
Proof.
  intros Hp. rewrite !cell_sample_exact. apply Permutation_map.
  induction Hp as [|x l l' Hp IH|x y l|l l' l'' Hp1 IH1 Hp2 IH2]; cbn [filter]; auto.
  - destruct (m_is t r c x); auto.
  - destruct (m_is t r c x), (m_is t r c y); auto. apply perm_swap.
  - now rewrite IH1.
Qed.

(** ** refinement: the stateful builder produces exactly the specified cells *)
Definition ext_cell (o : option bcell) (r c : N) (l : list meas) : option bcell :=
  match o, l with
  | None, [] => None
  | _, _ =>
      let v0 := match o with Some x => bc_vals x | None => [] end in
      let r0 := match o with Some x => bc_res x | None => [] end in
      Some (mkBcell r c (v0 ++ map m_v l) (fold_left (fun s x => set_add x s) (map m_res l) r0))
  end.

Lemma find_cell_keys r c cs x : find_cell r c cs = Some x -> bc_r x = r /\ bc_c x = c.
Proof.
  induction cs as [|y cs IH]; cbn; [congruence|].
  destruct (cell_is r c y) eqn:E; [|auto]. intros [= ->].
  unfold cell_is in E. apply andb_true_iff in E. now rewrite !N.eqb_eq in E.
Qed.

Lemma lookup_cell_tab_add ts m t r c :
  lookup_cell (tab_add m ts) t r c =
    if m_is t r c m
    then Some (mkBcell r c
                 (match lookup_cell ts t r c with Some x => bc_vals x | None => [] end ++ [m_v m])
                 (match lookup_cell ts t r c with Some x => set_add (m_res m) (bc_res x) | None => [m_res m] end))
    else lookup_cell ts t r c.
Proof.
  rewrite !lookup_cell_tcells, tcells_tab_add, m_is_split.
  destruct (t =? m_t m)%N; cbn [andb]; [|reflexivity].
  rewrite find_cell_cell_add. destruct (same_rc r c (m_r m) (m_c m)) eqn:E; [|reflexivity].
  apply same_rc_true in E as [-> ->]. unfold cvals. reflexivity.
Qed.

Lemma lookup_cell_fold ms : forall ts t r c,
  (forall x, lookup_cell ts t r c = Some x -> bc_r x = r /\ bc_c x = c) ->
  lookup_cell (fold_left (fun ts m => tab_add m ts) ms ts) t r c =
  ext_cell (lookup_cell ts t r c) r c (filter (m_is t r c) ms).
Proof.
  induction ms as [|m ms IH]; intros ts t r c Hk; cbn [fold_left filter].
  - unfold ext_cell. destruct (lookup_cell ts t r c) as [x|] eqn:E; auto.
    destruct (Hk x eq_refl) as [<- <-]. cbn. rewrite app_nil_r. now destruct x.
  - rewrite IH.
    + rewrite lookup_cell_tab_add. destruct (m_is t r c m) eqn:Em; [|reflexivity].
      unfold ext_cell. cbn [map fold_left bc_vals bc_res].
      destruct (lookup_cell ts t r c) as [x|]; cbn [app]; rewrite <- ?app_assoc; reflexivity.
    + intros x. rewrite lookup_cell_tab_add. destruct (m_is t r c m); [intros [= <-]; auto|apply Hk].
Qed.

Theorem build_cell_is_spec ms t r c : lookup_cell (build ms) t r c = spec_cell ms t r c.
Proof.
  unfold build. rewrite lookup_cell_fold by (cbn; congruence).
  unfold ext_cell, spec_cell, dedup_first. cbn [lookup_cell find_tab].
  destruct (filter (m_is t r c) ms); reflexivity.
Qed.

(** table keys of the built state are exactly the table keys of the measurements *)
Lemma build_keys_in ms k : In k (map bt_key (build ms)) <-> In k (map m_t ms).
Proof.
  unfold build.
  assert (H : forall ts, In k (map bt_key (fold_left (fun ts m => tab_add m ts) ms ts)) <->
                         In k (map bt_key ts) \/ In k (map m_t ms)).
  { induction ms as [|m ms IH]; intros ts; cbn [fold_left map].
    - cbn. tauto.
    - rewrite IH. cbn [In]. split.
      + intros [H|H]; auto. apply tab_add_keys_in in H as [->|H]; auto.
      + intros [H|[<-|H]]; auto; left.
        * clear -H. induction ts as [|y ts IHt]; cbn [tab_add map] in *; [contradiction|].
          destruct (bt_key y =? m_t m)%N; cbn [map bt_key In] in *; tauto.
        * clear. induction ts as [|y ts IHt]; cbn [tab_add map]; [now left|].
          destruct (bt_key y =? m_t m)%N eqn:E; cbn [map bt_key In].
          -- left. now apply N.eqb_eq in E.
          -- now right. }
  rewrite H. cbn. tauto.
Qed.

Lemma find_tab_key k ts tb : find_tab k ts = Some tb -> bt_key tb = k.
Proof.
  induction ts as [|y ts IH]; cbn; [congruence|].
  destruct (bt_key y =? k)%N eqn:E; [intros [= <-]; now apply N.eqb_eq|auto].
Qed.

Lemma find_tab_some k ts : In k (map bt_key ts) -> exists tb, find_tab k ts = Some tb.
Proof.
  induction ts as [|y ts IH]; cbn; [tauto|].
  destruct (bt_key y =? k)%N eqn:E; [eauto|]. intros [H|H]; [apply N.eqb_neq in E; congruence|auto].
Qed.

(** cells of the spec table: lookup by key is spec_cell *)
Lemma find_cell_app r c a b :
  find_cell r c (a ++ b) = match find_cell r c a with Some x => Some x | None => find_cell r c b end.
Proof. induction a as [|x a IH]; cbn; auto. destruct (cell_is r c x); auto. Qed.

Lemma spec_cell_keys ms t r c x : spec_cell ms t r c = Some x -> bc_r x = r /\ bc_c x = c.
Proof. unfold spec_cell. destruct (filter _ ms); [congruence|]. intros [= <-]. auto. Qed.

Lemma find_cell_opt r c r' c' ms t :
  find_cell r c (opt_to_list (spec_cell ms t r' c')) =
  if same_rc r' c' r c then spec_cell ms t r' c' else None.
Proof.
  destruct (spec_cell ms t r' c') as [x|] eqn:E; cbn.
  - destruct (spec_cell_keys _ _ _ _ _ E) as [<- <-]. unfold cell_is, same_rc.
    destruct ((bc_r x =? r)%N && (bc_c x =? c)%N); reflexivity.
  - now destruct (same_rc r' c' r c).
Qed.

Lemma find_cell_spec_row ms t r c r' cols :
  find_cell r c (flat_map (fun cl => opt_to_list (spec_cell ms t r' cl)) cols) =
  if (r' =? r)%N && existsb (N.eqb c) cols then spec_cell ms t r c else None.
Proof.
  induction cols as [|c' cols IH]; cbn [flat_map existsb].
  - now rewrite andb_false_r.
  - rewrite find_cell_app, find_cell_opt, IH. unfold same_rc.
    destruct (N.eqb_spec r' r) as [->|Hr]; cbn [andb].
    + rewrite (N.eqb_sym c c'). destruct (N.eqb_spec c' c) as [->|Hc]; cbn [orb].
      * destruct (spec_cell ms t r c); auto. now destruct (existsb (N.eqb c) cols).
      * reflexivity.
    + reflexivity.
Qed.

Lemma find_cell_spec_tab ms t r c :
  find_cell r c (bt_cells (spec_tab ms t)) = spec_cell ms t r c.
Proof.
  unfold spec_tab. cbn [bt_cells].
  set (mt := filter (fun m => (m_t m =? t)%N) ms).
  assert (Hgen : forall rows,
    find_cell r c (flat_map (fun r0 => flat_map (fun cl => opt_to_list (spec_cell ms t r0 cl)) (dedup (map m_c mt))) rows) =
    if existsb (N.eqb r) rows && existsb (N.eqb c) (dedup (map m_c mt)) then spec_cell ms t r c else None).
  { induction rows as [|r' rows IH]; cbn [flat_map existsb]; auto.
    rewrite find_cell_app, find_cell_spec_row, IH. rewrite (N.eqb_sym r r').
    destruct (r' =? r)%N; cbn [andb orb].
    - destruct (existsb (N.eqb c) (dedup (map m_c mt))); cbn [andb].
      + destruct (spec_cell ms t r c); auto. now rewrite andb_true_r; destruct (existsb (N.eqb r) rows).
      + now rewrite andb_false_r.
    - reflexivity. }
  rewrite Hgen.
  destruct (spec_cell ms t r c) as [x|] eqn:E; [|now destruct (_ && _)].
  (* the cell exists, so r and c are among the rows and columns of t *)
  unfold spec_cell in E. destruct (filter (m_is t r c) ms) as [|m l] eqn:Ef; [congruence|].
  assert (Hm : In m (filter (m_is t r c) ms)) by (rewrite Ef; now left).
  apply filter_In in Hm as [Hin Hm]. unfold m_is in Hm.
  apply andb_true_iff in Hm as [Hm Hc]. apply andb_true_iff in Hm as [Ht Hr].
  apply N.eqb_eq in Ht, Hr, Hc.
  assert (Hmt : In m mt) by (apply filter_In; split; auto; now apply N.eqb_eq).
  assert (H1 : existsb (N.eqb r) (dedup (map m_r mt)) = true).
  { apply existsb_exists. exists r. split; [|apply N.eqb_refl]. apply dedup_in. rewrite <- Hr. now apply in_map. }
  assert (H2 : existsb (N.eqb c) (dedup (map m_c mt)) = true).
  { apply existsb_exists. exists c. split; [|apply N.eqb_refl]. apply dedup_in. rewrite <- Hc. now apply in_map. }
  now rewrite H1, H2.
Qed.

(** key sets: rows/cols of the built table and of the spec table coincide *)
Lemma cells_rows_iff (cs : list bcell) r : In r (map bc_r cs) <-> exists c x, find_cell r c cs = Some x.
Proof.
  induction cs as [|y cs IH]; cbn [map In find_cell].
  - split; [tauto|]. intros [c [x H]]. discriminate.
  - split.
    + intros [<-|H].
      * exists (bc_c y), y. unfold cell_is. now rewrite !N.eqb_refl.
      * apply IH in H as [c [x H]]. exists c. destruct (cell_is r c y) eqn:E; eauto.
    + intros [c [x H]]. destruct (cell_is r c y) eqn:E.
      * left. unfold cell_is in E. apply andb_true_iff in E as [E _]. now apply N.eqb_eq in E.
      * right. apply IH. eauto.
Qed.

Lemma cells_cols_iff (cs : list bcell) c : In c (map bc_c cs) <-> exists r x, find_cell r c cs = Some x.
Proof.
  induction cs as [|y cs IH]; cbn [map In find_cell].
  - split; [tauto|]. intros [r [x H]]. discriminate.
  - split.
    + intros [<-|H].
      * exists (bc_r y), y. unfold cell_is. now rewrite !N.eqb_refl.
      * apply IH in H as [r [x H]]. exists r. destruct (cell_is r c y) eqn:E; eauto.
    + intros [r [x H]]. destruct (cell_is r c y) eqn:E.
      * left. unfold cell_is in E. apply andb_true_iff in E as [_ E]. now apply N.eqb_eq in E.
      * right. apply IH. eauto.
Qed.

Section Refinement.
  Variables rank_t rank_r rank_c : N -> N.
  Variable centre : list b64 -> b64.
  Variable geomean : list b64 -> b64.
  Hypothesis inj_r : forall a b, rank_r a = rank_r b -> a = b.
  Hypothesis inj_c : forall a b, rank_c a = rank_c b -> a = b.
  Hypothesis inj_t : forall a b, rank_t a = rank_t b -> a = b.

  (** two cell lists that answer every lookup alike give the same output table *)
  Lemma table_out_ext k cs cs' :
    (forall r c, find_cell r c cs = find_cell r c cs') ->
    table_out rank_r rank_c centre geomean (mkBtab k cs) = table_out rank_r rank_c centre geomean (mkBtab k cs').
  Proof.
    intros Hf. unfold table_out. cbn [bt_cells bt_key].
    assert (Hr : rows_of rank_r cs = rows_of rank_r cs').
    { unfold rows_of. apply sort_by_perm_invariant; auto using dedup_nodup.
      apply NoDup_Permutation; auto using dedup_nodup. intros r. rewrite !dedup_in, !cells_rows_iff.
      split; intros [c [x H]]; exists c, x; congruence. }
    assert (Hc : cols_of rank_c cs = cols_of rank_c cs').
    { unfold cols_of. apply sort_by_perm_invariant; auto using dedup_nodup.
      apply NoDup_Permutation; auto using dedup_nodup. intros c. rewrite !dedup_in, !cells_cols_iff.
      split; intros [r [x H]]; exists r, x; congruence. }
    rewrite <- Hr, <- Hc. f_equal.
    - unfold cells_out. f_equal. apply flat_map_ext. intros r. apply map_ext. intros c.
      unfold mk_ocell. rewrite <- Hf. destruct (find_cell r c cs); auto.
      destruct (cols_of rank_c cs) as [|c0 ?]; auto. now rewrite <- Hf.
    - destruct (cols_of rank_c cs) as [|c0 rest]; auto. apply map_ext. intros [i c].
      unfold col_summary.
      assert (E1 : forall rows, filter (has_cell cs c0) rows = filter (has_cell cs' c0) rows).
      { intros rows. apply filter_ext. intros r. unfold has_cell. now rewrite Hf. }
      rewrite E1.
      assert (E2 : forall b rows acc, fold_left (sum_step centre cs c0 c b) rows acc
                                    = fold_left (sum_step centre cs' c0 c b) rows acc).
      { intros b. induction rows as [|r rows IHr]; intros acc; cbn [fold_left]; auto.
        rewrite IHr. f_equal. unfold sum_step. destruct acc as [[s q] bad]. rewrite <- !Hf. reflexivity. }
      rewrite E2. reflexivity.
  Qed.

  (** the tables benchstat builds are the specified tables, for every input *)
  Theorem build_meets_spec ms :
    to_tables rank_t rank_r rank_c centre geomean (build ms) =
    spec_tables rank_t rank_r rank_c centre geomean ms.
  Proof.
    unfold to_tables, spec_tables.
    assert (Hkeys : sort_by rank_t (map bt_key (build ms)) = sort_by rank_t (dedup (map m_t ms))).
    { destruct (build_wf ms) as [Hnd _]. apply sort_by_perm_invariant; auto.
      apply NoDup_Permutation; auto using dedup_nodup. intros k. now rewrite dedup_in, build_keys_in. }
    rewrite Hkeys.
    assert (Hall : forall k, In k (sort_by rank_t (dedup (map m_t ms))) ->
              option_map (table_out rank_r rank_c centre geomean) (find_tab k (build ms)) =
              Some (table_out rank_r rank_c centre geomean (spec_tab ms k))).
    { intros k Hk. apply (Permutation_in _ (sort_by_perm rank_t _)) in Hk. rewrite dedup_in in Hk.
      rewrite <- build_keys_in in Hk. destruct (find_tab_some _ _ Hk) as [tb Htb]. rewrite Htb. cbn [option_map].
      f_equal. pose proof (find_tab_key _ _ _ Htb) as Hkey. destruct tb as [k' cs]. cbn in Hkey. subst k'.
      unfold spec_tab at 1. apply table_out_ext. intros r c.
      change (flat_map _ _) with (bt_cells (spec_tab ms k)).
      rewrite find_cell_spec_tab, <- build_cell_is_spec. unfold lookup_cell. now rewrite Htb. }
    revert Hall. generalize (sort_by rank_t (dedup (map m_t ms))). intros l Hall.
    induction l as [|k l IH]; cbn [map somes]; auto.
    rewrite Hall by now left. cbn [somes]. f_equal. apply IH. intros k' Hk'. apply Hall. now right.
  Qed.
End Refinement.
