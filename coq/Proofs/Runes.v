(** Rune counting: ASCII bytes are single runes; on well-formed UTF-8 the
    segmentation (hence utf8.RuneCountInString) is additive over concatenation
    — which is what Format's running offset [off += RuneCount(s)] relies on. *)
From Perf Require Import Base.Bytes Model.Runes.
Local Open Scope N_scope.

Lemma inr_true lo hi b : inr lo hi b = true <-> lo <= bN b /\ bN b <= hi.
Proof. unfold inr. rewrite andb_true_iff, !N.leb_le. tauto. Qed.

Lemma inr_false_lt lo hi b : bN b < lo -> inr lo hi b = false.
Proof. intros H. unfold inr. replace (lo <=? bN b) with false by (symmetry; apply N.leb_gt; exact H). reflexivity. Qed.

Lemma inr_false_gt lo hi b : hi < bN b -> inr lo hi b = false.
Proof. intros H. unfold inr. replace (bN b <=? hi) with false by (symmetry; apply N.leb_gt; exact H). apply andb_false_r. Qed.

Lemma is2_range b0 b1 : is2 b0 b1 = true -> 194 <= bN b0 <= 223.
Proof. unfold is2. rewrite andb_true_iff, inr_true. tauto. Qed.

Lemma acc3_range b0 b1 : acc3 b0 b1 = true -> 224 <= bN b0 <= 239.
Proof. unfold acc3. rewrite !orb_true_iff, !andb_true_iff, !inr_true. lia. Qed.

Lemma acc4_range b0 b1 : acc4 b0 b1 = true -> 240 <= bN b0 <= 244.
Proof. unfold acc4. rewrite !orb_true_iff, !andb_true_iff, !inr_true. lia. Qed.

Lemma is2_false b0 b1 : bN b0 < 194 \/ 223 < bN b0 -> is2 b0 b1 = false.
Proof.
  intros H. destruct (is2 b0 b1) eqn:E; [|reflexivity]. apply is2_range in E. lia.
Qed.
Lemma acc3_false b0 b1 : bN b0 < 224 \/ 239 < bN b0 -> acc3 b0 b1 = false.
Proof.
  intros H. destruct (acc3 b0 b1) eqn:E; [|reflexivity]. apply acc3_range in E. lia.
Qed.
Lemma acc4_false b0 b1 : bN b0 < 240 -> acc4 b0 b1 = false.
Proof.
  intros H. destruct (acc4 b0 b1) eqn:E; [|reflexivity]. apply acc4_range in E. lia.
Qed.

Lemma runes_single b0 s :
  (forall b1, is2 b0 b1 = false) -> (forall b1, acc3 b0 b1 = false) -> (forall b1, acc4 b0 b1 = false) ->
  runes (b0 :: s) = [b0] :: runes s.
Proof.
  intros H2 H3 H4.
  destruct s as [|b1 [|b2 [|b3 t]]]; cbn [runes]; unfold is3, is4; rewrite ?H2, ?H3, ?H4; reflexivity.
Qed.

Lemma runes_ascii b0 s : bN b0 < 128 -> runes (b0 :: s) = [b0] :: runes s.
Proof.
  intros H. apply runes_single; intros b1;
    [apply is2_false|apply acc3_false|apply acc4_false]; lia.
Qed.

Lemma runes_wf r s : wf_rune r = true -> runes (r ++ s) = r :: runes s.
Proof.
  destruct r as [|b0 [|b1 [|b2 [|b3 [|b4 r]]]]]; cbn [wf_rune app]; intros H; try discriminate.
  - apply runes_ascii. apply N.ltb_lt. exact H.
  - destruct s as [|c s]; cbn [runes]; rewrite H; reflexivity.
  - assert (H2 : is2 b0 b1 = false).
    { apply is2_false. unfold is3 in H. apply andb_true_iff in H as [H _]. apply acc3_range in H. lia. }
    destruct s as [|c s]; cbn [runes]; rewrite H2, H; reflexivity.
  - assert (Hr : 240 <= bN b0 <= 244).
    { unfold is4 in H. rewrite !andb_true_iff in H. destruct H as [[H _] _]. apply acc4_range in H. exact H. }
    assert (H2 : is2 b0 b1 = false) by (apply is2_false; lia).
    assert (H3 : is3 b0 b1 b2 = false) by (unfold is3; rewrite acc3_false by lia; reflexivity).
    cbn [runes]. rewrite H2, H3, H. reflexivity.
Qed.

(** every non-empty string starts with a chunk *)
Lemma runes_cons_inv b0 s : exists r s', b0 :: s = r ++ s' /\ runes (b0 :: s) = r :: runes s' /\ (length s' < length (b0 :: s))%nat.
Proof.
  destruct s as [|b1 t1].
  { exists [b0], []. repeat split; cbn [length]; lia. }
  cbn [runes]. destruct (is2 b0 b1).
  { exists [b0; b1], t1. repeat split; cbn [length]; lia. }
  destruct t1 as [|b2 t2].
  { exists [b0], [b1]. repeat split; cbn [length]; lia. }
  destruct (is3 b0 b1 b2).
  { exists [b0; b1; b2], t2. repeat split; cbn [length]; lia. }
  destruct t2 as [|b3 t3].
  { exists [b0], [b1; b2]. repeat split; cbn [length]; lia. }
  destruct (is4 b0 b1 b2 b3).
  { exists [b0; b1; b2; b3], t3. repeat split; cbn [length]; lia. }
  exists [b0], (b1 :: b2 :: b3 :: t3). repeat split; cbn [length]; lia.
Qed.

Lemma runes_app_valid s t : valid_utf8 s = true -> runes (s ++ t) = runes s ++ runes t.
Proof.
  remember (length s) as n eqn:Hn. revert s Hn.
  induction n as [n IH] using lt_wf_ind. intros s Hn Hv.
  destruct s as [|b0 s]; [reflexivity|].
  destruct (runes_cons_inv b0 s) as [r [s' [E1 [E2 Hlt]]]].
  unfold valid_utf8 in Hv. rewrite E2 in Hv. cbn [forallb] in Hv. apply andb_true_iff in Hv as [Hr Hv'].
  rewrite E2, E1, <- app_assoc, (runes_wf r (s' ++ t) Hr).
  cbn [app]. f_equal. eapply IH; [|reflexivity|exact Hv']. subst n. exact Hlt.
Qed.

Local Open Scope Z_scope.

Lemma rune_count_nil : rune_count [] = 0.
Proof. reflexivity. Qed.

Lemma rune_count_nonneg s : 0 <= rune_count s.
Proof. unfold rune_count. lia. Qed.

Lemma rune_count_app_valid s t : valid_utf8 s = true -> rune_count (s ++ t) = rune_count s + rune_count t.
Proof. intros H. unfold rune_count. rewrite runes_app_valid by exact H. rewrite app_length. lia. Qed.

Lemma runes_spaces_app n s : runes (repeat sp n ++ s) = repeat [sp] n ++ runes s.
Proof.
  induction n as [|n IH]; [reflexivity|]. cbn [repeat app].
  rewrite runes_ascii by reflexivity. rewrite IH. reflexivity.
Qed.

Lemma rune_count_spaces_app n s : rune_count (spaces n ++ s) = Z.max 0 n + rune_count s.
Proof.
  unfold rune_count, spaces. rewrite runes_spaces_app, app_length, repeat_length.
  unfold bytes in *. generalize (length (runes s)). intros k. lia.
Qed.

Lemma rune_count_spaces n : rune_count (spaces n) = Z.max 0 n.
Proof. rewrite <- (app_nil_r (spaces n)), rune_count_spaces_app, rune_count_nil. lia. Qed.

Lemma valid_spaces n : valid_utf8 (spaces n) = true.
Proof.
  unfold valid_utf8, spaces. rewrite <- (app_nil_r (repeat sp (Z.to_nat n))), runes_spaces_app.
  cbn [runes]. rewrite app_nil_r. induction (Z.to_nat n) as [|k IH]; [reflexivity|].
  cbn [repeat forallb]. rewrite IH. reflexivity.
Qed.

Lemma valid_app s t : valid_utf8 s = true -> valid_utf8 t = true -> valid_utf8 (s ++ t) = true.
Proof.
  intros Hs Ht. unfold valid_utf8. rewrite runes_app_valid by exact Hs. rewrite forallb_app.
  unfold valid_utf8 in Hs, Ht. rewrite Hs, Ht. reflexivity.
Qed.
