(** Every line the writer renders from well-formed inputs is clean (no LF,
    no trailing CR), derived from the inputs; and what the reader makes of a
    rendered unit-metadata line. *)
From Perf Require Import Base.Bytes Base.B64 Base.Utf8 Base.Unicode Model.Name Model.Extract Model.Units
  Model.Reader Model.Files Model.Writer Proofs.Units Proofs.WriterLines.
Local Open Scope N_scope.

Definition no_lf (s : bytes) : Prop := ~ In x0a s.
Definition no_cr_end (s : bytes) : Prop := forall p, s <> p ++ [x0d].
Definition val_clean (v : bytes) : Prop := no_lf v /\ no_cr_end v.

Lemma no_cr_end_app a f : f <> [] -> ~ In x0d f -> no_cr_end (a ++ f).
Proof.
  intros Hne Hcr p E. destruct (exists_last Hne) as (f' & c & ->).
  rewrite app_assoc in E. apply app_inj_tail in E as [_ ->]. apply Hcr. apply in_or_app. right. now left.
Qed.

Lemma no_cr_end_app_val a v : v <> [] -> no_cr_end v -> no_cr_end (a ++ v).
Proof.
  intros Hne Hv p E. destruct (exists_last Hne) as (v' & c & ->).
  rewrite app_assoc in E. apply app_inj_tail in E as [_ ->]. now apply (Hv v').
Qed.

Lemma in_join_sp x fs : In x (join_sp fs) -> x = x20 \/ exists f, In f fs /\ In x f.
Proof.
  induction fs as [|f fs IH]; [contradiction|]. rewrite join_sp_cons. cbn [In].
  intros [<-|H]; [now left|]. apply in_app_or in H as [H|H].
  - right. exists f. split; [now left|exact H].
  - destruct (IH H) as [->|(g & Hg & Hx)]; [now left|]. right. exists g. split; [now right|exact Hx].
Qed.

Lemma join_sp_app a b : join_sp (a ++ b) = join_sp a ++ join_sp b.
Proof. unfold join_sp. now rewrite map_app, concat_app. Qed.

Section Clean.
Variables is_space is_lower is_upper : N -> bool.
Variable atoi : bytes -> option Z.
Variable parse_float : bytes -> option b64.
Variable fmt_g : b64 -> bytes.
Hypothesis Hcolon : is_space 58 = false /\ is_upper 58 = false.
(** line feed is white space *)
Hypothesis Hlf : is_space 10 = true.

Notation fspace := (fspace is_space).
Notation nsp := (nsp is_space).
Notation field_ok := (field_ok is_space).
Notation key_ok := (key_ok is_space is_lower is_upper).
Notation classify := (classify is_space is_lower is_upper atoi parse_float).

(** a string without white-space runes has no ASCII white-space byte *)
Lemma nsp_no_space_byte f x : nsp (runes f) -> In x f -> is_ascii x = true -> ascii_space (bN x) = true -> False.
Proof.
  intros Hn Hin Ha Hs. apply in_split in Hin as (p & t & ->).
  rewrite runes_app_ascii in Hn by exact Ha. apply Forall_app in Hn as [_ Hn].
  inversion Hn as [|? ? Hc _]; subst. cbn [fst] in Hc. unfold Reader.fspace in Hc.
  unfold is_ascii in Ha. rewrite Ha in Hc. congruence.
Qed.

Lemma nsp_no_lf f : nsp (runes f) -> no_lf f.
Proof. intros H Hin. eapply (nsp_no_space_byte f x0a); eauto. Qed.
Lemma nsp_no_cr f : nsp (runes f) -> ~ In x0d f.
Proof. intros H Hin. eapply (nsp_no_space_byte f x0d); eauto. Qed.

Lemma key_chunks_ok_mid a : forall c b first,
  key_chunks_ok is_space is_lower is_upper (a ++ c :: b) first = true -> is_space (fst c) = false.
Proof.
  induction a as [|[r0 b0] a IH]; intros [r bb] b first H; cbn [app key_chunks_ok] in H.
  - apply andb_true_iff in H as [H _]. apply andb_true_iff in H as [H _]. apply andb_true_iff in H as [_ H].
    apply negb_true_iff, orb_false_iff in H as [H _]. exact H.
  - apply andb_true_iff in H as [_ H]. eapply IH; eauto.
Qed.

Lemma key_no_lf k : key_ok k -> no_lf k.
Proof.
  destruct k as [|b k]; [contradiction|]. intros (_ & _ & Hk) Hin.
  apply in_split in Hin as (p & t & E). rewrite E in Hk.
  rewrite runes_app_ascii in Hk by reflexivity. apply key_chunks_ok_mid in Hk. cbn [fst] in Hk.
  change (bN x0a) with 10 in Hk. congruence.
Qed.

(** ** A ++ " f1 f2 ..." *)
Lemma join_line_clean A F : no_lf A -> F <> [] -> Forall field_ok F ->
  no_lf (A ++ join_sp F) /\ no_cr_end (A ++ join_sp F).
Proof.
  intros HA Hne HF. split.
  - intros Hin. apply in_app_or in Hin as [Hin|Hin]; [auto|].
    apply in_join_sp in Hin as [E|(f & Hf & Hx)]; [discriminate|].
    rewrite Forall_forall in HF. destruct (HF f Hf) as [_ Hn]. eapply nsp_no_lf; eauto.
  - destruct (exists_last Hne) as (F' & f & ->).
    apply Forall_app in HF as [_ Hf]. inversion Hf as [|? ? [Hfne Hfn] _]; subst.
    rewrite join_sp_app. unfold join_sp at 2. cbn [map concat]. rewrite app_nil_r.
    rewrite app_assoc. change (x20 :: f) with ([x20] ++ f). rewrite app_assoc.
    apply no_cr_end_app; auto. now apply nsp_no_cr.
Qed.

Lemma bench_line_clean r : bench_ok is_space atoi parse_float fmt_g r ->
  no_lf (render fmt_g (WBench r)) /\ no_cr_end (render fmt_g (WBench r)).
Proof.
  intros (Hname & Hfields & _). cbn [render]. rewrite app_assoc. apply join_line_clean; auto.
  - intros Hin. apply in_app_or in Hin as [Hin|Hin].
    + cbn in Hin. intuition discriminate.
    + eapply nsp_no_lf; eauto.
  - unfold bench_fields. discriminate.
Qed.

(** ** configuration lines *)
Lemma set_line_clean k v : key_ok k -> val_ok v -> val_clean v ->
  no_lf (render fmt_g (WSet k v)) /\ no_cr_end (render fmt_g (WSet k v)).
Proof.
  intros Hk Hv [Hv1 Hv2]. cbn [render]. split.
  - intros Hin. apply in_app_or in Hin as [Hin|Hin]; [eapply key_no_lf; eauto|].
    apply in_app_or in Hin as [Hin|Hin]; [cbn in Hin; intuition discriminate|auto].
  - rewrite app_assoc. apply no_cr_end_app_val; auto. destruct v; [contradiction|discriminate].
Qed.

Lemma del_line_clean k : key_ok k -> no_lf (render fmt_g (WDel k)) /\ no_cr_end (render fmt_g (WDel k)).
Proof.
  intros Hk. cbn [render]. split.
  - intros Hin. apply in_app_or in Hin as [Hin|Hin]; [eapply key_no_lf; eauto|]. cbn in Hin. intuition discriminate.
  - apply no_cr_end_app; [discriminate|]. cbn. intuition discriminate.
Qed.

Lemma blank_line_clean : no_lf (render fmt_g WBlank) /\ no_cr_end (render fmt_g WBlank).
Proof. cbn [render]. split; [intros []|]. intros p E. destruct p; discriminate. Qed.

(** ** unit-metadata lines *)
Definition unit_ok (u : umeta) : Prop :=
  u_unit u = snd (tidy is_space b64_one (u_orig u)) /\
  field_ok (u_orig u) /\ u_key u <> [] /\ ~ In x3d (u_key u) /\
  field_ok (u_key u ++ x3d :: u_value u).

Definition unit_fields_of (u : umeta) : list bytes := [u_orig u; u_key u ++ x3d :: u_value u].

Lemma render_unit u : render fmt_g (WUnitL u) = bs "Unit" ++ join_sp (unit_fields_of u).
Proof.
  cbn [render]. unfold unit_fields_of, join_sp. cbn [map concat]. rewrite app_nil_r.
  change (bs "Unit ") with (bs "Unit" ++ [x20]). rewrite <- !app_assoc. reflexivity.
Qed.

Lemma unit_line_clean u : unit_ok u ->
  no_lf (render fmt_g (WUnitL u)) /\ no_cr_end (render fmt_g (WUnitL u)).
Proof.
  intros (_ & Ho & _ & _ & Hkv). rewrite render_unit. apply join_line_clean.
  - intros Hin. cbn in Hin. intuition discriminate.
  - discriminate.
  - constructor; [exact Ho|constructor; [exact Hkv|constructor]].
Qed.

Lemma classify_unit u : unit_ok u -> classify (render fmt_g (WUnitL u)) = LUnit (unit_fields_of u).
Proof.
  intros (_ & Ho & _ & _ & Hkv). rewrite render_unit. unfold Reader.classify.
  assert (HF : Forall field_ok (unit_fields_of u)) by (constructor; [exact Ho|constructor; [exact Hkv|constructor]]).
  replace (has_prefix (bs "Unit" ++ join_sp (unit_fields_of u)) (bs "Benchmark")) with false by reflexivity.
  change (bs "Unit" ++ join_sp (unit_fields_of u)) with (x55 :: (bs "nit" ++ join_sp (unit_fields_of u))).
  cbv beta iota. rewrite beqb_refl.
  change (x55 :: (bs "nit" ++ join_sp (unit_fields_of u))) with (bs "Unit" ++ join_sp (unit_fields_of u)).
  rewrite runes_app_join.
  unfold split_field. unfold unit_fields_of at 1. rewrite join_sp_cons, runes_sp.
  rewrite (take_field_nsp is_space (runes (bs "Unit")) sp_chunk) by (repeat constructor).
  rewrite flat_runes, beq_refl.
  rewrite runes_app_join.
  destruct Ho as [Hone Hon].
  destruct (runes (u_orig u)) as [|c1 l1] eqn:E1; [exfalso; eapply runes_nonempty; eauto|].
  inversion Hon as [|? ? Hc1 _]; subst.
  cbn [drop_space]. rewrite fspace_sp. cbn [app]. rewrite drop_space_nsp by exact Hc1.
  f_equal.
  pose proof (fields_join is_space (unit_fields_of u) HF) as HFj.
  unfold unit_fields_of in HFj at 1. rewrite join_sp_cons, runes_sp in HFj.
  cbn [fields_acc] in HFj. rewrite fspace_sp in HFj. rewrite runes_app_join, E1 in HFj. exact HFj.
Qed.

End Clean.
