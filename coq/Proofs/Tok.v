(** Proofs about Model/Tok.v: a canonically quoted word is read back as that
    word (any bytes, any continuation); every token function returns a text no
    longer than what it was given and strictly shorter when it produced a
    token; recorded error offsets never exceed the length of the query. *)
From Perf Require Import Base.Bytes Base.Rune Model.Unquote Model.Tok Proofs.Unquote.

Section Proofs.
Variable is_space : N -> bool.
Variable re_ok : bytes -> bool.
Variable n0 : nat.

Notation next := (next is_space re_ok n0).
Notation off_of := (off_of n0).
Notation skip_spaces := (skip_spaces is_space).
Notation bare_len := (bare_len is_space).

(** ** quoting round trip *)
Lemma qscan_esc_byte b R :
  qscan (esc b ++ R) =
  match qscan R with Some (bd, r) => Some (esc b ++ bd, r) | None => None end.
Proof. destruct b; cbn; destruct (qscan R) as [[bd r]|]; reflexivity. Qed.

Lemma qscan_esc s rest :
  qscan (flat_map esc s ++ c_dquote :: rest) = Some (flat_map esc s ++ [c_dquote], rest).
Proof.
  induction s as [|b s IH]; cbn [flat_map app].
  - reflexivity.
  - rewrite <- app_assoc, qscan_esc_byte, IH, <- app_assoc. reflexivity.
Qed.

Hypothesis dquote_not_space : is_space 34 = false.

Lemma skip_spaces_dquote s : skip_spaces (c_dquote :: s) 0 = c_dquote :: s.
Proof.
  cbn [Tok.skip_spaces].
  replace (is_start_op c_dquote) with false by reflexivity.
  replace (Byte.eqb c_dquote c_space) with false by reflexivity.
  rewrite decode_rune_ascii by (cbv; reflexivity).
  change (bN c_dquote) with 34%N. now rewrite dquote_not_space.
Qed.

Theorem quoted_word_roundtrip allow s rest e :
  next allow (cquote s ++ rest) e =
  (mkTok KQuoted (off_of (cquote s ++ rest)) s, rest, cquote s ++ rest, e).
Proof.
  unfold Tok.next, cquote. cbn [app]. rewrite skip_spaces_dquote.
  replace (is_start_op c_dquote) with false by reflexivity.
  replace (Byte.eqb c_dquote c_fslash) with false by reflexivity.
  rewrite andb_false_r.
  replace (Byte.eqb c_dquote c_dquote) with true by reflexivity.
  unfold quoted_word. rewrite <- app_assoc. cbn [app].
  rewrite qscan_esc.
  change (c_dquote :: flat_map esc s ++ [c_dquote]) with (cquote s).
  rewrite unquote_cquote. reflexivity.
Qed.

(** ** sizes *)
Lemma skip_spaces_len q k : length (skip_spaces q k) <= length q.
Proof.
  revert k; induction q as [|c q IH]; intros k; cbn [Tok.skip_spaces length]; [lia|].
  destruct k as [|k]; [|specialize (IH k); lia].
  destruct (is_start_op c); [cbn; lia|].
  destruct (Byte.eqb c c_space); [specialize (IH 0); lia|].
  destruct (decode_rune (c :: q)) as [r size].
  destruct (is_space r); [specialize (IH (size - 1)); lia | cbn; lia].
Qed.

(** where the skipping stops: at an operator start, or at a rune that is not a space *)
Lemma skip_spaces_stop q k c rest :
  skip_spaces q k = c :: rest ->
  is_start_op c = true \/ is_space (fst (decode_rune (c :: rest))) = false.
Proof.
  revert k; induction q as [|d q IH]; intros k; cbn [Tok.skip_spaces]; [discriminate|].
  destruct k as [|k]; [|apply IH].
  destruct (is_start_op d) eqn:Eop; [intros [= <- <-]; auto|].
  destruct (Byte.eqb d c_space); [apply IH|].
  destruct (decode_rune (d :: q)) as [r size] eqn:Ed.
  destruct (is_space r) eqn:Es; [apply IH|].
  intros [= <- <-]. right. now rewrite Ed.
Qed.

Ltac Zify.zify_post_hook ::= Z.to_euclidean_division_equations.

Lemma decode_rune_nonascii c s : (128 <= bN c)%N -> (128 <= fst (decode_rune (c :: s)))%N.
Proof.
  intros H. unfold decode_rune, rune_error, in_rng. set (s0 := bN c) in *.
  destruct (N.ltb_spec s0 128); [lia|].
  destruct (N.ltb_spec s0 194); cbn [orb]; [cbn [fst]; lia|].
  destruct (N.ltb_spec 244 s0); cbn [orb]; [cbn [fst]; lia|].
  destruct (N.ltb_spec s0 224), (N.ltb_spec s0 240), (N.eqb_spec s0 224), (N.eqb_spec s0 240),
           (N.eqb_spec s0 237), (N.eqb_spec s0 244); try lia; cbn [Nat.leb];
  repeat match goal with
  | |- context [if ?c then _ else _] => destruct c eqn:?
  | |- context [match ?t with [] => _ | _ :: _ => _ end] => destruct t
  end; cbn [fst]; try lia;
  repeat match goal with
  | H : _ = true |- _ => first [apply N.ltb_lt in H | apply N.leb_le in H | apply N.eqb_eq in H
                               | apply negb_true_iff in H | apply andb_true_iff in H as [? ?]
                               | apply orb_true_iff in H | clear H ]
  | H : _ = false |- _ => first [apply N.ltb_ge in H | apply N.leb_gt in H | apply N.eqb_neq in H
                                | apply negb_false_iff in H | apply orb_false_iff in H as [? ?]
                                | apply andb_false_iff in H | clear H ]
  end; lia.
Qed.

Lemma is_op_r_ascii r : is_op_r r = true -> (r < 128)%N.
Proof.
  unfold is_op_r. rewrite !orb_true_iff, !N.eqb_eq. lia.
Qed.

Lemma bare_len_pos c rest :
  is_start_op c = false -> is_space (fst (decode_rune (c :: rest))) = false ->
  1 <= bare_len (c :: rest) 0.
Proof.
  intros Hop Hsp. cbn [Tok.bare_len].
  destruct (decode_rune (c :: rest)) as [r size] eqn:Ed. cbn [fst] in Hsp. rewrite Hsp. cbn [orb].
  destruct (is_op_r r) eqn:Eo; [|lia].
  exfalso. pose proof (is_op_r_ascii _ Eo) as Hlt.
  destruct (N.ltb_spec (bN c) 128) as [Ha|Ha].
  - rewrite decode_rune_ascii in Ed by exact Ha. injection Ed as <- <-.
    unfold is_start_op, is_start_op_r in Hop. rewrite Eo in Hop. discriminate.
  - pose proof (decode_rune_nonascii c rest Ha) as Hge. rewrite Ed in Hge. cbn [fst] in Hge. lia.
Qed.

Lemma bare_len_le q k : bare_len q k <= length q.
Proof.
  revert k; induction q as [|c q IH]; intros k; cbn [Tok.bare_len length]; [lia|].
  destruct k as [|k]; [|specialize (IH k); lia].
  destruct (decode_rune (c :: q)) as [r size].
  destruct (is_space r || is_op_r r); [lia|]. specialize (IH (size - 1)); lia.
Qed.

Lemma qscan_len_aux n : forall s b r, length s <= n -> qscan s = Some (b, r) -> length r < length s.
Proof.
  induction n as [|n IH]; intros s b r Hn; destruct s as [|c s']; cbn [qscan]; try discriminate;
    cbn [length] in Hn; [lia|].
  destruct (Byte.eqb c c_dquote); [intros [= <- <-]; cbn; lia|].
  destruct (Byte.eqb c c_bslash).
  - destruct s' as [|d s'']; [discriminate|].
    destruct (qscan s'') as [[b' r']|] eqn:E; [|discriminate].
    intros [= <- <-]. apply IH in E; cbn [length] in *; lia.
  - destruct (qscan s') as [[b' r']|] eqn:E; [|discriminate].
    intros [= <- <-]. apply IH in E; cbn [length] in *; lia.
Qed.

Lemma qscan_len s b r : qscan s = Some (b, r) -> length r < length s.
Proof. apply (qscan_len_aux (length s)). lia. Qed.

(** ** bare words *)
Lemma bare_len_skip a q : bare_len (a ++ q) (length a) = length a + bare_len q 0.
Proof. induction a as [|x a IH]; cbn [app length Tok.bare_len]; [reflexivity|]. now rewrite IH. Qed.

(** a rune that may occur inside a bare word: not a space, not an operator, not the blank *)
Definition rune_plain (r : N) : bool := negb (is_space r || is_op_r r || (r =? 32)%N).

(** [runes_in rest w]: in the text [w ++ rest], [w] is a sequence of whole
    runes (as Go's range-over-string decodes them, invalid bytes being one-byte
    runes), each of them plain *)
Inductive runes_in (rest : bytes) : bytes -> Prop :=
| runes_nil : runes_in rest []
| runes_cons c w r :
    c <> [] -> decode_rune (c ++ w ++ rest) = (r, length c) -> rune_plain r = true ->
    runes_in rest w -> runes_in rest (c ++ w).

(** the text after the word is empty or starts with a space or an operator *)
Definition word_stop (rest : bytes) : Prop :=
  rest = [] \/ (let r := fst (decode_rune rest) in is_space r || is_op_r r = true).

Lemma bare_len_runes rest w : runes_in rest w -> word_stop rest ->
  bare_len (w ++ rest) 0 = length w.
Proof.
  intros Hr Hs. induction Hr as [|c w r Hc Hd Hp Hr IH].
  - cbn [app length]. destruct Hs as [->|Hs]; [reflexivity|].
    destruct rest as [|x rest]; [reflexivity|]. cbn [Tok.bare_len].
    destruct (decode_rune (x :: rest)) as [r size]. cbn [fst] in Hs. now rewrite Hs.
  - destruct c as [|x c]; [contradiction|]. rewrite <- app_assoc. cbn [app Tok.bare_len].
    cbn [app] in Hd. rewrite Hd.
    unfold rune_plain in Hp. apply negb_true_iff in Hp.
    apply orb_false_iff in Hp as [Hp _]. rewrite Hp.
    replace (length (x :: c) - 1) with (length c) by (cbn [length]; lia).
    rewrite bare_len_skip, IH. cbn [length]. rewrite app_length. lia.
Qed.

Theorem bare_word_ok allow c w rest e :
  runes_in rest (c :: w) -> word_stop rest ->
  is_start_op c = false -> c <> c_dquote -> (allow = true -> c <> c_fslash) ->
  c :: w <> word_AND -> c :: w <> word_OR ->
  next allow ((c :: w) ++ rest) e =
  (mkTok KWord (off_of ((c :: w) ++ rest)) (c :: w), rest, (c :: w) ++ rest, e).
Proof.
  intros Hr Hs Hop Hq Hsl Ha Ho.
  pose proof (bare_len_runes rest (c :: w) Hr Hs) as Hlen.
  (* the first rune is plain: the white-space loop stops at once *)
  assert (Hskip : skip_spaces ((c :: w) ++ rest) 0 = (c :: w) ++ rest).
  { inversion Hr as [|c0 w0 r Hc0 Hd Hp Hr' Heq]. destruct c0 as [|x c0]; [contradiction|].
    cbn [app] in Heq. injection Heq as -> Hw.
    cbn [app Tok.skip_spaces]. rewrite Hop.
    assert (Hd' : decode_rune (c :: w ++ rest) = (r, length (c :: c0))).
    { rewrite <- Hw, <- app_assoc. exact Hd. }
    unfold rune_plain in Hp. apply negb_true_iff in Hp.
    apply orb_false_iff in Hp as [Hp H32]. apply orb_false_iff in Hp as [Hsp _].
    destruct (beqb_spec c c_space) as [->|_].
    - exfalso. rewrite decode_rune_ascii in Hd' by (cbv; reflexivity).
      injection Hd' as <- _. discriminate H32.
    - rewrite Hw, Hd', Hsp. reflexivity. }
  unfold Tok.next. rewrite Hskip. cbn [app]. rewrite Hop.
  replace (allow && Byte.eqb c c_fslash) with false.
  2:{ destruct allow; [|reflexivity]. cbn [andb]. symmetry. apply beqb_neq. auto. }
  replace (Byte.eqb c c_dquote) with false by (symmetry; apply beqb_neq; auto).
  unfold bare_word. change (c :: w ++ rest) with ((c :: w) ++ rest). rewrite Hlen.
  rewrite firstn_app_exact.
  rewrite skipn_app, skipn_all, Nat.sub_diag. cbn [skipn app].
  destruct (beq_spec (c :: w) word_AND) as [E|_]; [contradiction|].
  destruct (beq_spec (c :: w) word_OR) as [E|_]; [contradiction|].
  reflexivity.
Qed.

Definition err_le (e : err) : Prop := match e with Some o => o <= n0 | None => True end.

Lemma set_err_le e q : err_le e -> err_le (set_err e (off_of q)).
Proof. destruct e; cbn; auto. intros _. unfold Tok.off_of. apply Nat.le_sub_l. Qed.

(** what every call of [next] guarantees *)
Definition next_post (q : bytes) (e : err) (res : tokres) : Prop :=
  let '(t, r, q', e') := res in
  length q' <= length q /\ length r <= length q' /\
  (t_kind t <> KEOF -> length r < length q') /\
  (err_le e -> err_le e') /\ (e <> None -> e' <> None).

Lemma tok_error_post q0 q e : length q <= length q0 -> next_post q0 e (tok_error n0 q e).
Proof.
  intros H. cbn. repeat split; auto; try lia.
  - intros F; exfalso; auto.
  - apply set_err_le.
  - destruct e; cbn; congruence.
Qed.

Lemma next_spec allow q e : next_post q e (next allow q e).
Proof.
  unfold Tok.next.
  pose proof (skip_spaces_len q 0) as Hs.
  destruct (skip_spaces q 0) as [|c rest] eqn:Eq.
  - cbn. repeat split; auto; try lia. intros F; exfalso; auto.
  - destruct (is_start_op c) eqn:Eop.
    + cbn. repeat split; auto; cbn in *; try lia.
    + destruct (allow && Byte.eqb c c_fslash).
      * (* regexp *)
        unfold regexp_tok.
        destruct (re_scan rest 0 0 false) as [i|]; [|apply tok_error_post; exact Hs].
        destruct (negb (re_ok (firstn i rest))); [apply tok_error_post; exact Hs|].
        assert (Hq2 : length (skipn (S i) rest) <= length rest) by (rewrite skipn_length; lia).
        match goal with |- context [if ?c then _ else _] => destruct c end.
        -- cbn. repeat split; auto; cbn in *; try lia.
        -- apply tok_error_post. cbn in *. lia.
      * destruct (Byte.eqb c c_dquote).
        -- (* quoted *)
           unfold quoted_word.
           destruct (qscan rest) as [[body r]|] eqn:Es; [|apply tok_error_post; exact Hs].
           destruct (unquote (c :: body)); [|apply tok_error_post; exact Hs].
           apply qscan_len in Es. cbn. repeat split; auto; cbn in *; try lia.
        -- (* bare *)
           unfold bare_word.
           destruct (skip_spaces_stop _ _ _ _ Eq) as [F|Hsp]; [congruence|].
           pose proof (bare_len_pos c rest Eop Hsp) as Hpos.
           pose proof (bare_len_le (c :: rest) 0) as Hle.
           cbn [next_post]. rewrite skipn_length. repeat split; auto; try lia.
  Qed.

End Proofs.
