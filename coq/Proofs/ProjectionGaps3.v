(** Closed facts pinning the models of C05/C08 on the input classes added to the
    C08 generator in round 3 (harness/cmd/gen/c08gaps3.go, c08live.go). They are
    evaluations of the model, not theorems about all inputs: the general
    statements are C05's namepart/gomaxprocs specifications and
    C08_fullname_clause_spec / C08_key_get_extracted / C08_key_eq_iff_values; these
    examples make sure that nobody "repairs" a model function towards an
    implementation that is wrong on exactly these inputs without noticing. *)
From Perf Require Import Base.Bytes Model.Name Model.Extract Model.Key Model.Projection.

(** *** an excluded sub-name key that is a proper prefix of another key: only the
    exact "/key=" part is deleted, only the exact key is read *)
Example prefix_key_fullname :
  extractor_fullname [bs "/size"] (bs "X/sizeclass=3/size=1") = bs "X/sizeclass=3" /\
  extractor_fullname [bs "/size"] (bs "X/size=1/sizeclass=3-8") = bs "X/sizeclass=3-8" /\
  extractor_fullname [bs "/size"] (bs "X/sizeclass=3") = bs "X/sizeclass=3" /\
  extractor_fullname [bs "/sizeclass"] (bs "X/sizeclass=3/size=1") = bs "X/size=1" /\
  extractor_fullname [bs "/n"] (bs "X/nodes=2/n=1") = bs "X/nodes=2" /\
  extractor_fullname [bs "/gomaxprocs"] (bs "X/gomaxprocsx=2/gomaxprocs=4-8") = bs "X/gomaxprocsx=2".
Proof. repeat split; vm_compute; reflexivity. Qed.

Example prefix_key_extract :
  extract (bs "/size") (bs "X/sizeclass=3/size=1") [] = bs "1" /\
  extract (bs "/size") (bs "X/sizeclass=3") [] = [] /\
  extract (bs "/n") (bs "X/nodes=2") [] = [] /\
  extract (bs "/gomaxprocs") (bs "X/gomaxprocsx=2") [] = [].
Proof. repeat split; vm_compute; reflexivity. Qed.

(** *** /gomaxprocs on names with a hyphen that is not a GOMAXPROCS suffix *)
Example gomaxprocs_hyphen :
  extract (bs "/gomaxprocs") (bs "RW/gomaxprocs=4/mode=read-only") [] = bs "4" /\
  extract (bs "/gomaxprocs") (bs "RW/mode=read-only") [] = [] /\
  extract (bs "/gomaxprocs") (bs "RW/mode=read-only-8") [] = bs "8" /\
  extract (bs "/gomaxprocs") (bs "RW/gomaxprocs=4/mode=read-only-8") [] = bs "8" /\
  extract (bs "/gomaxprocs") (bs "Foo-bar") [] = [] /\
  extract (bs "/gomaxprocs") (bs "Foo-bar-8") [] = bs "8" /\
  extract (bs "/gomaxprocs") (bs "Foo-bar/gomaxprocs=8") [] = bs "8" /\
  extract (bs "/gomaxprocs") (bs "a-1x") [] = [] /\
  extract (bs "/gomaxprocs") (bs "x-") [] = [] /\
  extract (bs "/gomaxprocs") (bs "x--8") [] = bs "8" /\
  extract (bs ".name") (bs "Foo-bar") [] = bs "Foo-bar" /\
  extract (bs ".name") (bs "Foo-bar-8") [] = bs "Foo-bar" /\
  extractor_fullname [bs "/gomaxprocs"] (bs "RW/gomaxprocs=4/mode=read-only") = bs "RW/mode=read-only" /\
  extractor_fullname [bs "/gomaxprocs"] (bs "Foo-bar") = bs "Foo-bar" /\
  extractor_fullname [bs "/gomaxprocs"] (bs "Foo-bar-8") = bs "Foo-bar" /\
  extractor_fullname [bs "/gomaxprocs"] (bs "x-") = bs "x-".
Proof. repeat split; vm_compute; reflexivity. Qed.

(** *** a projection made of the .config group alone, first result without any
    file configuration: the fields added later are flattened, printed and read;
    results differing in a late key get different Keys *)
Definition g3_r (cfg : list cfg) : result := mkR (bs "Fib") cfg [bs "sec/op"].
Definition g3_ops : list op :=
  [OpParse false [spec_first key_config];
   OpProject 0 (g3_r []);
   OpProject 0 (g3_r [mkCfg (bs "tool") (bs "t") false]);
   OpProject 0 (g3_r [mkCfg (bs "goos") (bs "linux") true]);
   OpProject 0 (g3_r [mkCfg (bs "goos") (bs "plan9") true]);
   OpProject 0 (g3_r [mkCfg (bs "goos") (bs "linux") true; mkCfg (bs "goarch") (bs "amd64") true]);
   OpProject 0 (g3_r [mkCfg (bs "goos") (bs "linux") true; mkCfg (bs "goarch") (bs "arm64") true]);
   OpProject 0 (g3_r [])].

Example config_only_late_fields :
  snd (run_ops new_world g3_ops) =
    [OutParse true; OutKeys [0]; OutKeys [0]; OutKeys [1]; OutKeys [2]; OutKeys [3]; OutKeys [4]; OutKeys [0]] /\
  (exists p, nth_error (w_projs (fst (run_ops new_world g3_ops))) 0 = Some p /\
     map (field_name p) (flat p) = [bs "goos"; bs "goarch"] /\
     map (key_string true (flat_named p)) (p_keys p) =
       [[]; bs "goos:linux"; bs "goos:plan9"; bs "goos:linux goarch:amd64"; bs "goos:linux goarch:arm64"]).
Proof.
  split; [vm_compute; reflexivity|].
  eexists; split; [vm_compute; reflexivity|split; vm_compute; reflexivity].
Qed.
