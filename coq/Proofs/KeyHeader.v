(** The grouping step of NewKeyHeader: the nodes created for one parent are the
    maximal runs of consecutive keys with equal value of the level's field. *)
From Perf Require Import Base.Bytes Model.KeyHeader.

Lemma group_runs_concat level l : concat (map snd (group_runs level l)) = l.
Proof.
  induction l as [|k l IH]; cbn [group_runs]; [reflexivity|].
  destruct (group_runs level l) as [|[v ks] rest] eqn:E.
  - cbn in IH |- *. subst. reflexivity.
  - cbn [map snd concat] in IH. destruct (beq (kget level k) v); cbn [map snd concat app]; rewrite IH; reflexivity.
Qed.

Definition run_ok (level : nat) (run : bytes * list key) : Prop :=
  snd run <> [] /\ Forall (fun k => kget level k = fst run) (snd run).

Lemma group_runs_ok level l : Forall (run_ok level) (group_runs level l).
Proof.
  induction l as [|k l IH]; cbn [group_runs]; [constructor|].
  destruct (group_runs level l) as [|[v ks] rest] eqn:E.
  - constructor; [|constructor]. split; cbn; [discriminate|]. repeat constructor.
  - inversion IH as [|? ? [H1 H2] H3]; subst. cbn [fst snd] in *.
    destruct (beq_spec (kget level k) v) as [Ev|Ev].
    + constructor; [|exact H3]. split; cbn [fst snd]; [discriminate|]. constructor; assumption.
    + constructor; [|exact IH]. split; cbn [fst snd]; [discriminate|]. repeat constructor.
Qed.

Fixpoint adjacent_differ (runs : list (bytes * list key)) : Prop :=
  match runs with
  | a :: ((b :: _) as r) => fst a <> fst b /\ adjacent_differ r
  | _ => True
  end.

Lemma group_runs_maximal level l : adjacent_differ (group_runs level l).
Proof.
  induction l as [|k l IH]; cbn [group_runs]; [exact I|].
  destruct (group_runs level l) as [|[v ks] rest] eqn:E; [exact I|].
  destruct (beq_spec (kget level k) v) as [Ev|Ev].
  - destruct rest as [|b rest']; [exact I|]. cbn [adjacent_differ fst] in IH |- *. exact IH.
  - cbn [adjacent_differ fst]. split; [exact Ev|exact IH].
Qed.

(** one level of the header over the whole key slice: contiguous, disjoint,
    covering, labelled with the common value, neighbours different *)
Theorem header_runs_partition level keys :
  let runs := group_runs level keys in
  concat (map snd runs) = keys /\ Forall (run_ok level) runs /\ adjacent_differ runs.
Proof.
  split; [apply group_runs_concat|]. split; [apply group_runs_ok|apply group_runs_maximal].
Qed.
