(** Proofs about the repaired ordering of keys (Model/SortR.v, C09). The generic
    part (a comparison function followed by string order; the four kinds of
    order) is Proofs/Sort.v; here: the num comparator over any number parser,
    [less_by], the repaired parseNum against its specification, the repaired
    order maps against first observation and against the step model, and the
    fixed order against "the listed order". *)
From Coq Require Import Permutation Sorting.Sorted.
From Perf Require Import Base.Bytes Base.B64 Model.Name Model.Extract Model.Key Model.Projection
  Model.Sort Model.SortR Proofs.Key Proofs.Projection Proofs.Sort Proofs.Reach Proofs.NumSpec
  Proofs.FirstObs.
Local Open Scope Z_scope.

(** ** the num comparator over any parser *)
Section NumOf.
Variable pn : bytes -> option b64.

Definition numval_of (x : b64) : Prop := exists a, pn a = Some x.

Hypothesis lt_irrefl : forall x, numval_of x -> b64_lt x x = false.
Hypothesis lt_trans : forall x y z, numval_of x -> numval_of y -> numval_of z ->
  b64_lt x y = true -> b64_lt y z = true -> b64_lt x z = true.
Hypothesis incomp_trans : forall x y z, numval_of x -> numval_of y -> numval_of z ->
  b64_is_nan x = false -> b64_is_nan y = false -> b64_is_nan z = false ->
  b64_lt x y = false -> b64_lt y x = false -> b64_lt y z = false -> b64_lt z y = false ->
  b64_lt x z = false /\ b64_lt z x = false.

Lemma lt_asym_of x y : numval_of x -> numval_of y -> b64_lt x y = true -> b64_lt y x = false.
Proof.
  intros Vx Vy H. destruct (b64_lt y x) eqn:E; auto.
  pose proof (lt_trans x y x Vx Vy Vx H E) as H1. rewrite lt_irrefl in H1; auto.
Qed.

Lemma lt_notnan_of x y : b64_lt x y = true -> b64_is_nan x = false /\ b64_is_nan y = false.
Proof.
  intros H. split.
  - destruct (b64_is_nan x) eqn:E; auto. apply nan_is in E. subst. now rewrite b64_lt_nan_l in H.
  - destruct (b64_is_nan y) eqn:E; auto. apply nan_is in E. subst. now rewrite b64_lt_nan_r in H.
Qed.

Lemma lt_incomp_of x y z : numval_of x -> numval_of y -> numval_of z ->
  b64_is_nan z = false ->
  b64_lt x y = true -> b64_lt y z = false -> b64_lt z y = false -> b64_lt x z = true.
Proof.
  intros Vx Vy Vz Nz H1 H2 H3. destruct (lt_notnan_of _ _ H1) as [Nx Ny].
  destruct (b64_lt x z) eqn:E; auto. exfalso.
  destruct (b64_lt z x) eqn:E2.
  - pose proof (lt_trans z x y Vz Vx Vy E2 H1). congruence.
  - destruct (incomp_trans y z x Vy Vz Vx Ny Nz Nx H2 H3 E2 E) as [A B]. congruence.
Qed.

Lemma incomp_lt_of x y z : numval_of x -> numval_of y -> numval_of z ->
  b64_is_nan x = false ->
  b64_lt x y = false -> b64_lt y x = false -> b64_lt y z = true -> b64_lt x z = true.
Proof.
  intros Vx Vy Vz Nx H1 H2 H3. destruct (lt_notnan_of _ _ H3) as [Ny Nz].
  destruct (b64_lt x z) eqn:E; auto. exfalso.
  destruct (b64_lt z x) eqn:E2.
  - pose proof (lt_trans y z x Vy Vz Vx H3 E2). congruence.
  - destruct (incomp_trans z x y Vz Vx Vy Nz Nx Ny E2 E H1 H2) as [A B]. congruence.
Qed.

Theorem consistent_num_of : consistent (cmp_num_of pn).
Proof.
  constructor.
  - intros a. unfold cmp_num_of. destruct (pn a) as [x|] eqn:Ea; auto.
    rewrite lt_irrefl by (exists a; auto). destruct (b64_is_nan x); reflexivity.
  - intros a b. unfold cmp_num_of.
    destruct (pn a) as [x|] eqn:Ea; destruct (pn b) as [y|] eqn:Eb; try lia.
    assert (numval_of x) as Vx by (exists a; auto). assert (numval_of y) as Vy by (exists b; auto).
    destruct (b64_lt x y) eqn:L1.
    + destruct (lt_notnan_of _ _ L1) as [Nx Ny]. rewrite (lt_asym_of x y), Nx, Ny; auto. cbn. lia.
    + destruct (b64_lt y x) eqn:L2.
      * destruct (lt_notnan_of _ _ L2) as [Ny Nx]. rewrite Nx, Ny. cbn. lia.
      * destruct (b64_is_nan x), (b64_is_nan y); cbn; lia.
  - intros a b c. unfold cmp_num_of.
    destruct (pn a) as [x|] eqn:Ea; destruct (pn b) as [y|] eqn:Eb; destruct (pn c) as [z|] eqn:Ec; try lia.
    assert (numval_of x) as Vx by (exists a; auto). assert (numval_of y) as Vy by (exists b; auto).
    assert (numval_of z) as Vz by (exists c; auto).
    destruct (b64_is_nan x) eqn:Nx; destruct (b64_is_nan y) eqn:Ny; destruct (b64_is_nan z) eqn:Nz;
      cbn [negb andb orb];
      try (apply nan_is in Nx; subst x); try (apply nan_is in Ny; subst y); try (apply nan_is in Nz; subst z);
      rewrite ?b64_lt_nan_l, ?b64_lt_nan_r, ?orb_false_r, ?orb_true_r; cbn [negb andb orb]; try lia.
    destruct (b64_lt x y) eqn:Lxy; cbn [orb].
    + intros _. destruct (b64_lt y z) eqn:Lyz; cbn [orb].
      * intros _. rewrite (lt_trans x y z); auto. cbn. lia.
      * destruct (b64_lt z y) eqn:Lzy; cbn [orb]; [lia|]. intros _.
        rewrite (lt_incomp_of x y z); auto. cbn. lia.
    + destruct (b64_lt y x) eqn:Lyx; cbn [orb]; [lia|]. intros _.
      destruct (b64_lt y z) eqn:Lyz; cbn [orb].
      * intros _. rewrite (incomp_lt_of x y z); auto. cbn. lia.
      * destruct (b64_lt z y) eqn:Lzy; cbn [orb]; [lia|]. intros _.
        destruct (incomp_trans x y z) as [A B]; auto. rewrite A, B. cbn. lia.
Qed.
End NumOf.

(** ** [less_by] under consistent per-field comparisons *)
Section LessBy.
Variable cmpf : nat -> bytes -> bytes -> Z.
Hypothesis C : forall idx, consistent (cmpf idx).

Lemma less_by_unfold idx fl a b :
  less_by cmpf (idx :: fl) a b =
  if beq (vals_get a idx) (vals_get b idx) then less_by cmpf fl a b
  else val_less (cmpf idx) (vals_get a idx) (vals_get b idx).
Proof. reflexivity. Qed.

Lemma less_by_irrefl fl a : less_by cmpf fl a a = false.
Proof. induction fl as [|idx fl IH]; auto. rewrite less_by_unfold, beq_refl. exact IH. Qed.

Lemma less_by_trans fl a b c :
  less_by cmpf fl a b = true -> less_by cmpf fl b c = true -> less_by cmpf fl a c = true.
Proof.
  induction fl as [|idx fl IH]; [discriminate|]. rewrite !less_by_unfold.
  destruct (beq_spec (vals_get a idx) (vals_get b idx)) as [E1|N1].
  - rewrite E1. destruct (beq_spec (vals_get b idx) (vals_get c idx)); auto.
  - destruct (beq_spec (vals_get b idx) (vals_get c idx)) as [E2|N2].
    + rewrite <- E2. destruct (beq_spec (vals_get a idx) (vals_get b idx)); [contradiction|auto].
    + rewrite !val_less_prec. intros H1 H2.
      pose proof (prec_trans _ (C idx) _ _ _ H1 H2) as H3.
      destruct (beq_spec (vals_get a idx) (vals_get c idx)) as [E3|N3]; [|now apply val_less_prec].
      rewrite E3 in H3. exfalso. eapply prec_irrefl; eauto.
Qed.

Lemma less_by_total fl a b :
  (exists idx, In idx fl /\ vals_get a idx <> vals_get b idx) ->
  less_by cmpf fl a b = true \/ less_by cmpf fl b a = true.
Proof.
  induction fl as [|idx fl IH]; intros [i [Hi Hd]]; [contradiction|]. rewrite !less_by_unfold.
  destruct (beq_spec (vals_get a idx) (vals_get b idx)) as [E|N].
  - rewrite <- E, beq_refl. apply IH. destruct Hi as [<-|Hi]; [contradiction|eauto].
  - destruct (beq_spec (vals_get b idx) (vals_get a idx)); [congruence|].
    rewrite !val_less_prec. apply prec_total; auto.
Qed.

Lemma less_by_asym fl a b : less_by cmpf fl a b = true -> less_by cmpf fl b a = false.
Proof.
  intros H. destruct (less_by cmpf fl b a) eqn:E; auto.
  pose proof (less_by_trans _ _ _ _ H E) as H1. now rewrite less_by_irrefl in H1.
Qed.
End LessBy.

(** ** the repaired parseNum *)

(** the scanner finds the numeral of the specification and its suffix *)
Lemma num_match_unsigned x :
  num_match x =
  let '(run, rest) := unsigned_numeral x in
  match run with
  | [] => None
  | _ => Some (run,
           match rest with
           | c :: rest' =>
               if is_prefix_letter c
               then match rest' with d :: _ => if Byte.eqb d c_i then [c; d] else [c] | [] => [c] end
               else []
           | [] => []
           end)
  end.
Proof.
  unfold num_match, unsigned_numeral. rewrite drop_nonnum_spec.
  set (s := drop_while (fun c => negb (is_numch c)) x).
  pose proof (drop_while_head (fun c => negb (is_numch c)) x) as Hh. fold s in Hh.
  destruct s as [|c0 s0]; [reflexivity|]. apply negb_false_iff in Hh.
  rewrite span_num_spec.
  assert (take_while is_numch (c0 :: s0) = c0 :: take_while is_numch s0) as -> by (cbn; now rewrite Hh).
  reflexivity.
Qed.

Lemma num_match_r_numeral x :
  num_match_r x =
  let '(m, rest) := numeral_of x in
  match m with
  | [] => None
  | _ => Some (m,
           match rest with
           | c :: rest' =>
               if is_prefix_letter c
               then match rest' with d :: _ => if Byte.eqb d c_i then [c; d] else [c] | [] => [c] end
               else []
           | [] => []
           end)
  end.
Proof.
  unfold num_match_r, numeral_of.
  destruct x as [|s [|d t]]; try apply num_match_unsigned.
  destruct (is_sign s && is_numch d) eqn:E; [|apply num_match_unsigned].
  apply andb_true_iff in E as [_ Hd].
  rewrite num_match_unsigned. unfold unsigned_numeral.
  assert (drop_while (fun c => negb (is_numch c)) (d :: t) = d :: t) as -> by (cbn; now rewrite Hd).
  assert (take_while is_numch (d :: t) = d :: take_while is_numch t) as -> by (cbn; now rewrite Hd).
  reflexivity.
Qed.

Section NumSpecRProofs.
Variable parse_float : bytes -> option b64.
Variable pow : bool -> nat -> b64.
Hypothesis pow_rounded : forall (iec : bool) (e : nat), (e <= 8)%nat ->
  pow iec e = b64_of_Z ((if iec then 1024 else 1000) ^ Z.of_nat e).

(** num_spec: the repaired parseNum computes the denoted value *)
Theorem num_spec_r x : parse_num_r parse_float pow x = num_denote_r parse_float x.
Proof.
  unfold parse_num_r, num_denote_r. destruct (parse_float x); auto.
  rewrite num_match_r_numeral. destruct (numeral_of x) as [m rest].
  destruct m as [|c0 m0]; [reflexivity|].
  destruct (parse_float (c0 :: m0)); auto.
  f_equal. f_equal. exact (suffix_value pow pow_rounded rest).
Qed.

Theorem cmp_num_r_is_num_order a b :
  cmp_num_r parse_float pow a b =
  match num_order (num_denote_r parse_float a) (num_denote_r parse_float b) with
  | Lt => -1 | Eq => 0 | Gt => 1 end.
Proof.
  unfold cmp_num_r, cmp_num_of. rewrite !num_spec_r.
  destruct (num_denote_r parse_float a) as [x|], (num_denote_r parse_float b) as [y|];
    unfold num_order; cbn [num_class]; try reflexivity.
  - destruct (b64_is_nan x) eqn:Nx, (b64_is_nan y) eqn:Ny; cbn.
    + apply nan_eq in Nx, Ny. subst. reflexivity.
    + apply nan_eq in Nx. subst. rewrite b64_lt_nan_l, b64_lt_nan_r. reflexivity.
    + apply nan_eq in Ny. subst. rewrite b64_lt_nan_r. reflexivity.
    + rewrite !orb_false_r. destruct (b64_lt x y); auto. destruct (b64_lt y x); auto.
  - destruct (b64_is_nan x); reflexivity.
  - destruct (b64_is_nan y); reflexivity.
Qed.

Theorem val_less_num_r a b :
  val_less (cmp_num_r parse_float pow) a b = num_before_r parse_float a b.
Proof.
  unfold val_less, num_before_r. rewrite cmp_num_r_is_num_order.
  destruct (num_order _ _); reflexivity.
Qed.
End NumSpecRProofs.

(** the numeral of the two shapes of string, outright: sign run rest, run rest *)
Lemma take_while_app_stop f (run rest : bytes) :
  forallb f run = true -> match rest with c :: _ => f c = false | [] => True end ->
  take_while f (run ++ rest) = run /\ drop_while f (run ++ rest) = rest.
Proof.
  intros Hr Hs. induction run as [|c run IH]; cbn in *.
  - destruct rest as [|c r]; cbn; auto. now rewrite Hs.
  - apply andb_true_iff in Hr as [Hc Hr]. rewrite Hc. destruct (IH Hr) as [-> ->]. auto.
Qed.

Theorem numeral_signed s run rest :
  is_sign s = true -> run <> [] -> forallb is_numch run = true ->
  match rest with c :: _ => is_numch c = false | [] => True end ->
  numeral_of (s :: run ++ rest) = (s :: run, rest).
Proof.
  intros Hs Hne Hr Hrest. destruct run as [|d run]; [contradiction|].
  pose proof Hr as Hr'. cbn in Hr'. apply andb_true_iff in Hr' as [Hd _].
  unfold numeral_of. cbn [app]. rewrite Hs, Hd. cbn [andb].
  change (d :: run ++ rest) with ((d :: run) ++ rest).
  destruct (take_while_app_stop is_numch (d :: run) rest Hr Hrest) as [-> ->]. reflexivity.
Qed.

Theorem numeral_unsigned run rest :
  run <> [] -> forallb is_numch run = true ->
  match rest with c :: _ => is_numch c = false | [] => True end ->
  numeral_of (run ++ rest) = (run, rest).
Proof.
  intros Hne Hr Hrest. destruct run as [|d run]; [contradiction|].
  pose proof Hr as Hr'. cbn in Hr'. apply andb_true_iff in Hr' as [Hd _].
  assert (is_sign d = false) as Hns.
  { destruct (is_sign d) eqn:E; auto. exfalso. revert Hd E. clear. destruct d; cbn; congruence. }
  assert (unsigned_numeral ((d :: run) ++ rest) = (d :: run, rest)) as Hu.
  { unfold unsigned_numeral.
    assert (drop_while (fun c => negb (is_numch c)) ((d :: run) ++ rest) = (d :: run) ++ rest) as ->
      by (cbn; now rewrite Hd).
    destruct (take_while_app_stop is_numch (d :: run) rest Hr Hrest) as [-> ->]. reflexivity. }
  unfold numeral_of. cbn [app] in Hu |- *. revert Hu. generalize (run ++ rest). intros t Hu.
  destruct t; [exact Hu|]. rewrite Hns. exact Hu.
Qed.

(** ** the repaired order maps *)
Lemma first_occ_firsts l : first_occ l = firsts l.
Proof. reflexivity. Qed.

(** first_is_first_observation, for every field and every value a Key carries -
    the missing value "" included, no reachability needed: ranks in the repaired
    order map compare like the positions of the first Keys carrying the values *)
Theorem first_is_first_observation_r p idx a b ia ib :
  first_key p idx a = Some ia -> first_key p idx b = Some ib ->
  (cmp_first (first_vals p idx) a b < 0 <-> (ia < ib)%nat).
Proof.
  intros Ha Hb. unfold cmp_first, first_vals. rewrite first_occ_firsts.
  pose proof (firsts_rank _ a b ia ib Ha Hb) as H. lia.
Qed.

(** registering values one after the other, from a given start *)
Definition register (start : list bytes) (l : list bytes) : list bytes :=
  fold_left (fun acc v => if mem v acc then acc else acc ++ [v]) l start.

Lemma firsts_register l : firsts l = register [] l.
Proof. reflexivity. Qed.

Lemma register_app start l1 l2 : register start (l1 ++ l2) = register (register start l1) l2.
Proof. unfold register. apply fold_left_app. Qed.

Lemma register_empties c : forall start, mem [] start = true ->
  register start (repeat [] c) = start.
Proof.
  induction c as [|c IH]; intros start H; cbn; auto. rewrite H. apply IH. exact H.
Qed.

Lemma register_empties_nil c : (0 < c)%nat -> register [] (repeat [] c) = [[]].
Proof.
  destruct c as [|c]; [lia|]. intros _. cbn. apply register_empties. reflexivity.
Qed.

(** order_map_closed_form: the repaired order map against the order map of the
    step model (Model/Projection.v: a late sub-field starts at [] and sees the
    Keys interned from then on). For a field present from the start they are
    equal. For a sub-field of .config created when [c] Keys existed - all
    lacking it - the step model's map is the registrations of the later Keys
    started from the empty map, the repaired one the same registrations started
    from {"": 0} when c > 0: exactly what the repair adds to the code. *)
Theorem order_map_closed_form ops w xs p idx f :
  run_ops new_world ops = (w, xs) -> In p (w_projs w) ->
  nth_error (p_fields p) idx = Some f -> tracks (fi_ord f) = true ->
  exists c, (c <= length (p_keys p))%nat /\ (fi_src f <> SCfg -> c = 0%nat) /\
    (forall j, (j < c)%nat -> vals_get (nth j (p_keys p) []) idx = []) /\
    fi_obs f = register [] (column p idx c) /\
    first_vals p idx = register (if (c =? 0)%nat then [] else [[]]) (column p idx c).
Proof.
  intros H Hp Hn Ht.
  pose proof (run_ops_W3 ops new_world (Forall_nil _)) as R. rewrite H in R.
  unfold W3 in R. cbn in R. rewrite Forall_forall in R. destruct (R p Hp) as [K [F O]].
  destruct (O idx f Hn Ht) as [c [Hc [Hsrc [Hemp Hobs]]]].
  exists c. repeat split; auto.
  unfold first_vals. rewrite first_occ_firsts, firsts_register.
  assert (Hsplit : map (fun r => vals_get r idx) (p_keys p) = repeat [] c ++ column p idx c).
  { unfold column. revert Hc Hemp. generalize (p_keys p). clear. induction c as [|c IH]; intros l Hc Hemp.
    - reflexivity.
    - destruct l as [|r l]; [cbn in Hc; lia|]. cbn [map repeat skipn app]. f_equal.
      + apply (Hemp 0%nat). lia.
      + apply IH; [cbn in Hc; lia|]. intros j Hj. apply (Hemp (S j)). lia. }
  rewrite Hsplit, register_app. destruct c as [|c]; [reflexivity|].
  rewrite register_empties_nil by lia. reflexivity.
Qed.

(** ** the fixed order is the listed order *)
Lemma last_pos_last_index v l : forall i acc n,
  last_pos v l i acc = Some n ->
  last_index v l i (match acc with Some a => a | None => 0%nat end) = n.
Proof.
  induction l as [|x l IH]; intros i acc n H; cbn in *.
  - now subst.
  - destruct (beq x v); apply IH in H; exact H.
Qed.

Lemma first_pos_ge v l : forall i j, first_pos v l i = Some j -> (i <= j)%nat.
Proof.
  induction l as [|x l IH]; intros i j H; cbn in H; [discriminate|].
  destruct (beq x v); [injection H as <-; lia|]. apply IH in H. lia.
Qed.

Lemma last_index_ge_acc v l : forall k a, (a <= k)%nat -> (a <= last_index v l k a)%nat.
Proof.
  induction l as [|y l IH]; intros k a Hk; cbn; [lia|].
  destruct (beq y v).
  - pose proof (IH (S k) k). lia.
  - apply IH. lia.
Qed.

Lemma last_index_ge_first v l : forall i acc j,
  first_pos v l i = Some j -> (j <= last_index v l i acc)%nat.
Proof.
  induction l as [|x l IH]; intros i acc j H; cbn in *; [discriminate|].
  destruct (beq x v) eqn:E.
  - injection H as <-. apply last_index_ge_acc. lia.
  - apply IH with (acc := acc) in H. exact H.
Qed.

(** when every listing of [a] precedes every listing of [b], [a] sorts first *)
Theorem fixed_listed_before l a b :
  listed_before l a b = true -> cmp_fixed l a b < 0.
Proof.
  unfold listed_before, cmp_fixed, fixed_rank.
  destruct (last_pos a l 0 None) as [i|] eqn:Ea; [|discriminate].
  destruct (first_pos b l 0) as [j|] eqn:Eb; [|discriminate].
  intros H. apply Nat.ltb_lt in H.
  apply last_pos_last_index in Ea. cbn in Ea.
  pose proof (last_index_ge_first b l 0 0 j Eb). lia.
Qed.

(** ** Key.Less after the repairs is a strict total order *)
Section KeyLessR.
Variable parse_float : bytes -> option b64.
Variable pow : bool -> nat -> b64.

Definition numval_r : b64 -> Prop := numval_of (parse_num_r parse_float pow).

Hypothesis lt_irrefl : forall x, numval_r x -> b64_lt x x = false.
Hypothesis lt_trans : forall x y z, numval_r x -> numval_r y -> numval_r z ->
  b64_lt x y = true -> b64_lt y z = true -> b64_lt x z = true.
Hypothesis incomp_trans : forall x y z, numval_r x -> numval_r y -> numval_r z ->
  b64_is_nan x = false -> b64_is_nan y = false -> b64_is_nan z = false ->
  b64_lt x y = false -> b64_lt y x = false -> b64_lt y z = false -> b64_lt z y = false ->
  b64_lt x z = false /\ b64_lt z x = false.

Theorem consistent_ord_r o obs : consistent (ord_cmp_r parse_float pow o obs).
Proof.
  destruct o; cbn.
  - apply consistent_first.
  - apply consistent_alpha.
  - apply (consistent_num_of _ lt_irrefl lt_trans incomp_trans).
  - apply consistent_fixed.
Qed.

Theorem field_rel_total_r o obs :
  let R := prec (ord_cmp_r parse_float pow o obs) in
  (forall a, ~ R a a) /\ (forall a b c, R a b -> R b c -> R a c) /\
  (forall a b, a <> b -> R a b \/ R b a).
Proof.
  pose proof (consistent_ord_r o obs) as C. repeat split.
  - apply prec_irrefl; auto.
  - apply prec_trans; auto.
  - apply prec_total; auto.
Qed.

Lemma consistent_field_cmp_r fields tbl idx : consistent (field_cmp_r parse_float pow fields tbl idx).
Proof.
  unfold field_cmp_r. destruct (nth_error fields idx); [apply consistent_ord_r|apply consistent_const].
Qed.

Theorem less_strict_total_r p :
  KInv p -> covers p ->
  let L := key_less_r parse_float pow p in
  let n := length (p_keys p) in
  (forall k, L k k = false) /\
  (forall k1 k2 k3, L k1 k2 = true -> L k2 k3 = true -> L k1 k3 = true) /\
  (forall k1 k2, L k1 k2 = true -> L k2 k1 = false) /\
  (forall k1 k2, (k1 < n)%nat -> (k2 < n)%nat -> k1 <> k2 -> L k1 k2 = true \/ L k2 k1 = true).
Proof.
  intros HK HC. cbn. unfold key_less_r.
  pose proof (consistent_field_cmp_r (p_fields p) (obs_table p)) as C. repeat split.
  - intros k. apply less_by_irrefl.
  - intros k1 k2 k3. apply less_by_trans; auto.
  - intros k1 k2. apply less_by_asym; auto.
  - intros k1 k2 H1 H2 Hne. apply less_by_total; auto.
    destruct (key_eq_iff_gets p k1 k2 HK H1 H2) as [_ Hb].
    assert (Hex : exists idx, (idx < nfields p)%nat /\ key_get p k1 idx <> key_get p k2 idx).
    { clear -Hne Hb.
      assert (D : forall n, (forall idx, (idx < n)%nat -> key_get p k1 idx = key_get p k2 idx) \/
                            (exists idx, (idx < n)%nat /\ key_get p k1 idx <> key_get p k2 idx)).
      { induction n as [|n [IH|[i [Hi Hd]]]].
        - left. intros idx Hl. lia.
        - destruct (beq_spec (key_get p k1 n) (key_get p k2 n)) as [E|N].
          + left. intros idx Hl. destruct (Nat.eq_dec idx n) as [->|]; auto. apply IH. lia.
          + right. exists n. split; auto.
        - right. exists i. split; auto. }
      destruct (D (nfields p)) as [Hall|Hex]; auto. exfalso. apply Hne. auto. }
    destruct Hex as [idx [Hl Hd]]. exists idx. split; auto.
Qed.
End KeyLessR.

(** ** over whole streams of API calls *)
Section ReachR.
Variable parse_float : bytes -> option b64.
Variable pow : bool -> nat -> b64.
Hypothesis lt_irrefl : forall x, numval_r parse_float pow x -> b64_lt x x = false.
Hypothesis lt_trans : forall x y z,
  numval_r parse_float pow x -> numval_r parse_float pow y -> numval_r parse_float pow z ->
  b64_lt x y = true -> b64_lt y z = true -> b64_lt x z = true.
Hypothesis incomp_trans : forall x y z,
  numval_r parse_float pow x -> numval_r parse_float pow y -> numval_r parse_float pow z ->
  b64_is_nan x = false -> b64_is_nan y = false -> b64_is_nan z = false ->
  b64_lt x y = false -> b64_lt y x = false -> b64_lt y z = false -> b64_lt z y = false ->
  b64_lt x z = false /\ b64_lt z x = false.

Theorem less_strict_total_reach_r ops w xs p :
  run_ops new_world ops = (w, xs) -> In p (w_projs w) ->
  let L := key_less_r parse_float pow p in
  let n := length (p_keys p) in
  (forall k, L k k = false) /\
  (forall k1 k2 k3, L k1 k2 = true -> L k2 k3 = true -> L k1 k3 = true) /\
  (forall k1 k2, L k1 k2 = true -> L k2 k1 = false) /\
  (forall k1 k2, (k1 < n)%nat -> (k2 < n)%nat -> k1 <> k2 -> L k1 k2 = true \/ L k2 k1 = true).
Proof.
  intros H Hp. destruct (reachable_inv ops w xs p H Hp) as [K C].
  exact (less_strict_total_r parse_float pow lt_irrefl lt_trans incomp_trans p K C).
Qed.

Theorem sortkeys_arrangement_independent_r ops w xs p :
  run_ops new_world ops = (w, xs) -> In p (w_projs w) ->
  forall sort_slice : list nat -> list nat,
  (forall l, Permutation (sort_slice l) l) ->
  (forall l, sorted (key_less_r parse_float pow p) (sort_slice l)) ->
  forall l1 l2, NoDup l1 -> Forall (fun k => (k < length (p_keys p))%nat) l1 -> Permutation l1 l2 ->
    sort_slice l1 = sort_slice l2.
Proof.
  intros H Hp ss Hperm Hsorted l1 l2.
  destruct (less_strict_total_reach_r ops w xs p H Hp) as [_ [_ [_ Htot]]].
  exact (sort_keys_arrangement_independent (key_less_r parse_float pow p)
           (fun k => (k < length (p_keys p))%nat) Htot ss Hperm Hsorted l1 l2).
Qed.

(** what Key.Less asks of a field ordered "first" is the repaired order map *)
Theorem key_less_r_first_field p idx f :
  nth_error (p_fields p) idx = Some f -> fi_ord f = OFirst -> (idx < nfields p)%nat ->
  field_cmp_r parse_float pow (p_fields p) (obs_table p) idx = cmp_first (first_vals p idx).
Proof.
  intros Hn Ho Hl. unfold field_cmp_r. rewrite Hn, Ho. cbn [ord_cmp_r]. unfold obs_table.
  f_equal. rewrite (nth_indep _ [] (first_vals p 0%nat)) by (rewrite map_length, seq_length; lia).
  rewrite map_nth, seq_nth by lia. reflexivity.
Qed.
End ReachR.
