(** Text / CSV agreement of the column-key header lines and of the warnings
    (footnote marks vs. the CSV warning stream), for the assembly models of
    benchtab.Table.ToText / ToCSV (Model/Render.v).

    Text line [r] of a table (Proofs/RenderRows.text_rows, [placed]) and CSV
    record [r] of the same table describe the same line: header level [f] is
    line [f], data row [i] is line [nf + 1 + i], the summary is line
    [nf + 1 + #rows]; CSV record [r] is spreadsheet row [start + r]. *)
From Perf Require Import Base.Bytes Model.Runes Model.TextTab Model.KeyHeader Model.Render
     Proofs.KeyHeader Proofs.KeyHeaderLevels Proofs.KeyHeaderSpec Proofs.Render Proofs.RenderNotes Proofs.RenderRows.
Local Open Scope nat_scope.

(* ------------------------------------------------------------------ *)
(** ** start columns *)
Lemma ts_closed e : txt_start e = match e with 0 => 1 | S k => 4 + 6 * k end.
Proof. unfold txt_start, txt_center. destruct e; lia. Qed.
Lemma ts_lt a b : a < b -> txt_start a < txt_start b.
Proof. intros H. rewrite !ts_closed. destruct a, b; lia. Qed.
Lemma ts_le a b : a <= b -> txt_start a <= txt_start b.
Proof. intros H. rewrite !ts_closed. destruct a, b; lia. Qed.
Lemma ts_lt_inv a b : txt_start a < txt_start b -> a < b.
Proof. intros H. destruct (Nat.lt_ge_cases a b) as [L|L]; [exact L|]. apply ts_le in L. lia. Qed.
Lemma ts_le_inv a b : txt_start a <= txt_start b -> a <= b.
Proof. intros H. destruct (Nat.le_gt_cases a b) as [L|L]; [exact L|]. apply ts_lt in L. lia. Qed.

Lemma cs_closed e : csv_start e = match e with 0 => 1 | S k => 3 + 4 * k end.
Proof. unfold csv_start, csv_center. destruct e; lia. Qed.
Lemma cs_inj a b : csv_start a = csv_start b -> a = b.
Proof. rewrite !cs_closed. destruct a, b; lia. Qed.
Lemma cs_plus2 e : csv_start e + 2 <= csv_start (S e).
Proof. rewrite !cs_closed. destruct e; lia. Qed.

(* ------------------------------------------------------------------ *)
(** ** column-key header lines *)
Definition hcell (n : hnode) : nat * op :=
  (txt_start (h_start n),
   OSpan (txt_start (h_start n + h_len n) - txt_start (h_start n)) (h_value n) (Some bar3) ACenter).
Definition edge_cell (redge : nat) : nat * op := (redge, OSpan 1 [] (Some bar2) ALeft).

Lemma place_header_row redge nodes :
  place 0 (text_header_row redge nodes) = map hcell nodes ++ [edge_cell redge].
Proof.
  unfold text_header_row. cbn [place].
  assert (G : forall cur, place cur (flat_map (fun n => [OCol (txt_start (h_start n));
                  OSpan (txt_start (h_start n + h_len n) - txt_start (h_start n)) (h_value n) (Some bar3) ACenter]) nodes
                ++ [OCol redge; OSpan 1 [] (Some bar2) ALeft]) = map hcell nodes ++ [edge_cell redge]).
  { induction nodes as [|n nodes IH]; intros cur; cbn [flat_map app place map]; [reflexivity|].
    rewrite IH. reflexivity. }
  apply G.
Qed.

(** one header line: the cell over logical column [e] carries the CSV header
    field of column [e], and no other cell of the line reaches over column [e] *)
Theorem text_csv_agree_header_row nf cols redge f e key :
  Forall (fun k => length k = nf) cols -> f < nf -> nth_error cols e = Some key ->
  txt_start (length cols) <= redge ->
  let crow := csv_header_row cols f in
  exists nodes, nth_error (key_header nf cols) f = Some nodes /\
  let tops := text_header_row redge nodes in
  field crow (csv_start e) = kget f key /\
  (exists s len, s <= e < s + len /\
     In (txt_start s, OSpan (txt_start (s + len) - txt_start s) (field crow (csv_start e)) (Some bar3) ACenter)
        (place 0 tops)) /\
  (forall col n v m a, In (col, OSpan n v m a) (place 0 tops) -> col <= txt_start e < col + n ->
     v = field crow (csv_start e)).
Proof.
  intros Hall Hf Hk Hedge. cbn zeta.
  pose proof (header_partition nf cols Hall) as HS.
  destruct (header_column_unique nf cols _ f e key HS Hf Hk) as [nodes [n [Hl [Hn [Hc [_ [Hv Hu]]]]]]].
  exists nodes. split; [exact Hl|]. rewrite (csv_header_at cols f e key Hk).
  split; [reflexivity|]. rewrite place_header_row. split.
  - exists (h_start n), (h_len n). split; [exact Hc|]. apply in_or_app. left.
    rewrite <- Hv. apply (in_map hcell nodes n Hn).
  - intros col w v m a Hin Hcol. apply in_app_or in Hin as [Hin|Hin].
    + apply in_map_iff in Hin as [n' [E Hn']]. unfold hcell in E. injection E as <- <- <- _ _.
      rewrite <- Hv. f_equal. apply Hu; [exact Hn'|].
      destruct (tiling_bounds _ _ _ (lp_tiling _ _ _ (hs_level _ _ _ HS f nodes Hl))) as [_ B].
      destruct (B n' Hn') as [_ [B1 _]].
      assert (txt_start (h_start n') < txt_start (h_start n' + h_len n')) by (apply ts_lt; lia).
      unfold covers. split; [apply ts_le_inv; lia|apply ts_lt_inv; lia].
    + exfalso. destruct Hin as [E|[]]. unfold edge_cell in E. injection E as <- <- _ _ _.
      assert (e < length cols) by (apply nth_error_Some; congruence).
      pose proof (ts_lt e (length cols) ltac:(lia)). lia.
Qed.

Lemma csv_model_header t start f :
  f < rt_nf t -> nth_error (fst (csv_model t start)) f = Some (csv_header_row (rt_cols t) f).
Proof.
  intros Hf. unfold csv_model. cbn [fst]. rewrite <- app_assoc.
  rewrite nth_error_app1 by (rewrite map_length, seq_length; exact Hf).
  rewrite nth_error_map. rewrite (nth_error_nth' _ 0) by (rewrite seq_length; exact Hf).
  rewrite seq_nth by exact Hf. reflexivity.
Qed.

Lemma in_place_lines_inv : forall lines row r col o,
  In (r, col, o) (place_lines row lines) ->
  exists l, row <= r /\ nth_error lines (r - row) = Some l /\ In (col, o) (place 0 l).
Proof.
  induction lines as [|l0 lines IH]; intros row r col o H; [destruct H|].
  cbn [place_lines] in H. apply in_app_or in H as [H|H].
  - apply in_map_iff in H as [[c' o'] [E Hx]]. unfold tag in E. cbn [fst snd] in E. injection E as <- <- <-.
    exists l0. rewrite Nat.sub_diag. split; [lia|]. split; [reflexivity|exact Hx].
  - destruct (IH (S row) r col o H) as [l [A [B C]]]. exists l. split; [lia|]. split; [|exact C].
    replace (r - row) with (S (r - S row)) by lia. exact B.
Qed.

Lemma text_model_placed_inv t r col o :
  In (r, col, o) (placed (fst (text_model t))) ->
  exists l, nth_error (text_rows t) r = Some l /\ In (col, o) (place 0 l).
Proof.
  rewrite text_model_rows. cbn [fst]. unfold placed. rewrite place_rc_lines by apply text_rows_ok.
  intros H. destruct (in_place_lines_inv _ _ _ _ _ H) as [l [_ [B C]]]. rewrite Nat.sub_0_r in B.
  exists l. split; assumption.
Qed.

(** C16 text_csv_agree, header clause, for the whole table: on text line [f]
    (= CSV record [f]) the cell over logical column [e] carries the CSV field *)
Theorem text_csv_agree_header t start f e key :
  Forall (fun k => length k = rt_nf t) (rt_cols t) -> f < rt_nf t -> nth_error (rt_cols t) e = Some key ->
  exists crow, nth_error (fst (csv_model t start)) f = Some crow /\
  field crow (csv_start e) = kget f key /\
  (exists s len, s <= e < s + len /\
     In (f, txt_start s, OSpan (txt_start (s + len) - txt_start s) (field crow (csv_start e)) (Some bar3) ACenter)
        (placed (fst (text_model t)))) /\
  (forall col n v m a, In (f, col, OSpan n v m a) (placed (fst (text_model t))) ->
     col <= txt_start e < col + n -> v = field crow (csv_start e)).
Proof.
  intros Hall Hf Hk. exists (csv_header_row (rt_cols t) f). split; [apply csv_model_header; exact Hf|].
  destruct (text_csv_agree_header_row (rt_nf t) (rt_cols t) (txt_start (S (length (rt_cols t)))) f e key Hall Hf Hk
              (ts_le _ _ (Nat.le_succ_diag_r _))) as [nodes [Hl [A [[s [len [B1 B2]]] C]]]].
  pose proof (text_rows_header t f nodes Hl) as Hrow.
  split; [exact A|]. split.
  - exists s, len. split; [exact B1|]. eapply text_model_placed; [exact Hrow|exact B2].
  - intros col n v m a Hin Hcol. destruct (text_model_placed_inv t f col _ Hin) as [l [E Hp]].
    rewrite Hrow in E. injection E as <-. eapply C; eassumption.
Qed.

(* ------------------------------------------------------------------ *)
(** ** the CSV warning stream *)
Definition refline (col srow : nat) (m : bytes) : wline := (sheet_col col, srow, m).

Definition centre_msgs (oc : option rcell) : list bytes :=
  match oc with Some c => rc_swarn c ++ rc_mwarn c | None => [] end.
Definition delta_msgs (e : nat) (oc : option rcell) : list bytes :=
  match oc with
  | Some c => match (if e =? 0 then None else rc_cmp c) with Some cm => cm_warn cm | None => [] end
  | None => []
  end.
Definition cell_wlines (srow e : nat) (oc : option rcell) : list wline :=
  map (refline (csv_start e) srow) (centre_msgs oc) ++ map (refline (csv_start e + 2) srow) (delta_msgs e oc).
Fixpoint row_wlines (srow e : nat) (cells : list (option rcell)) : list wline :=
  match cells with [] => [] | oc :: r => cell_wlines srow e oc ++ row_wlines srow (S e) r end.

Lemma csv_data_step_ws srow row ws exp oc :
  length row <= csv_start exp ->
  snd (fst (csv_data_step srow (row, ws, exp) oc)) = ws ++ cell_wlines srow exp oc.
Proof.
  intros Hlen. destruct oc as [c|]; cbn [csv_data_step].
  2:{ cbn [fst snd]. unfold cell_wlines. cbn [centre_msgs delta_msgs map app]. rewrite app_nil_r. reflexivity. }
  set (row1 := clear_to row (csv_start exp)).
  assert (L1 : length row1 = csv_start exp) by (apply clear_to_length; exact Hlen).
  unfold cell_wlines, centre_msgs, delta_msgs, warn_at, col_name.
  destruct (if exp =? 0 then None else rc_cmp c) as [cm|]; cbn [fst snd].
  - rewrite app_length, L1. cbn [length]. rewrite map_app, <- !app_assoc. reflexivity.
  - rewrite L1. cbn [map]. rewrite app_nil_r, map_app. reflexivity.
Qed.

Lemma csv_data_fold_ws srow : forall cells row ws exp,
  length row <= csv_start exp ->
  snd (fst (fold_left (csv_data_step srow) cells (row, ws, exp))) = ws ++ row_wlines srow exp cells.
Proof.
  induction cells as [|oc cells IH]; intros row ws exp Hlen; cbn [fold_left row_wlines].
  - cbn [fst snd]. rewrite app_nil_r. reflexivity.
  - pose proof (csv_data_step_spec srow row ws exp oc Hlen) as S1. cbn zeta in S1.
    pose proof (csv_data_step_ws srow row ws exp oc Hlen) as W1.
    destruct (csv_data_step srow (row, ws, exp) oc) as [[row1 ws1] exp1].
    cbn [snd fst st_row] in S1, W1. destruct S1 as [-> [_ [G2 _]]]. subst ws1.
    rewrite (IH row1 _ (S exp) G2), <- app_assoc. reflexivity.
Qed.

Lemma csv_data_row_ws srow label cells : snd (csv_data_row srow label cells) = row_wlines srow 0 cells.
Proof.
  unfold csv_data_row. cbn [snd]. rewrite csv_data_fold_ws by (cbn; lia). reflexivity.
Qed.

Definition sum_wlines1 (srow e : nat) (os : option rsum) : list wline :=
  match os with Some s => map (refline (csv_start e) srow) (rs_warn s) | None => [] end.
Fixpoint sum_wlines (srow e : nat) (sums : list (option rsum)) : list wline :=
  match sums with [] => [] | os :: r => sum_wlines1 srow e os ++ sum_wlines srow (S e) r end.

Lemma csv_sum_fold_ws srow : forall sums row ws exp,
  length row <= csv_start exp ->
  snd (fst (fold_left (csv_sum_step srow) sums (row, ws, exp))) = ws ++ sum_wlines srow exp sums.
Proof.
  induction sums as [|os sums IH]; intros row ws exp Hlen; cbn [fold_left sum_wlines].
  - cbn [fst snd]. rewrite app_nil_r. reflexivity.
  - pose proof (csv_sum_step_spec srow row ws exp os Hlen) as S1. cbn zeta in S1.
    assert (W1 : snd (fst (csv_sum_step srow (row, ws, exp) os)) = ws ++ sum_wlines1 srow exp os).
    { destruct os as [s|]; cbn [csv_sum_step fst snd sum_wlines1]; [|rewrite app_nil_r; reflexivity].
      unfold warn_at, col_name. rewrite clear_to_length by exact Hlen. reflexivity. }
    destruct (csv_sum_step srow (row, ws, exp) os) as [[row1 ws1] exp1].
    cbn [snd fst st_row] in S1, W1. destruct S1 as [-> [_ [G2 _]]]. subst ws1.
    rewrite (IH row1 _ (S exp) G2), <- app_assoc. reflexivity.
Qed.

Lemma csv_summary_row_ws srow label sums : snd (csv_summary_row srow label sums) = sum_wlines srow 0 sums.
Proof.
  unfold csv_summary_row. cbn [snd]. rewrite csv_sum_fold_ws by (cbn; lia). reflexivity.
Qed.

(** *** selecting the lines of one cell reference *)
Lemma warn_msgs_app a b r s : warn_msgs (a ++ b) r s = warn_msgs a r s ++ warn_msgs b r s.
Proof. unfold warn_msgs. rewrite filter_app, map_app. reflexivity. Qed.

Lemma warn_msgs_same col srow msgs : warn_msgs (map (refline col srow) msgs) (sheet_col col) srow = msgs.
Proof.
  unfold warn_msgs, refline. induction msgs as [|m msgs IH]; [reflexivity|].
  cbn [map filter fst snd]. rewrite beq_refl, Nat.eqb_refl. cbn [andb map snd]. f_equal. exact IH.
Qed.

Lemma warn_msgs_other col srow msgs ref srow' :
  ref <> sheet_col col \/ srow <> srow' -> warn_msgs (map (refline col srow) msgs) ref srow' = [].
Proof.
  intros H. unfold warn_msgs, refline. induction msgs as [|m msgs IH]; [reflexivity|].
  cbn [map filter fst snd].
  replace (beq (sheet_col col) ref && (srow =? srow')) with false; [exact IH|].
  symmetry. apply andb_false_iff. destruct H as [H|H].
  - left. destruct (beq_spec (sheet_col col) ref); [congruence|reflexivity].
  - right. apply Nat.eqb_neq. exact H.
Qed.

Lemma sheet_col_neq a b : sheet_ok a -> sheet_ok b -> a <> b -> sheet_col b <> sheet_col a.
Proof. intros Ha Hb Hn E. apply Hn. symmetry. apply sheet_col_injective; assumption. Qed.

Lemma cell_centre srow e j oc :
  sheet_ok (csv_start e + 2) -> sheet_ok (csv_start j) ->
  warn_msgs (cell_wlines srow e oc) (sheet_col (csv_start j)) srow = if e =? j then centre_msgs oc else [].
Proof.
  intros He Hj. unfold cell_wlines. rewrite warn_msgs_app.
  assert (He' : sheet_ok (csv_start e)) by (eapply sheet_ok_le; [exact He|lia]).
  destruct (Nat.eqb_spec e j) as [->|Hn].
  - rewrite warn_msgs_same, warn_msgs_other, app_nil_r; [reflexivity|].
    left. apply sheet_col_neq; [exact He|exact Hj|lia].
  - rewrite warn_msgs_other.
    2:{ left. apply sheet_col_neq; [exact He'|exact Hj|]. intros E. apply Hn. apply cs_inj. exact E. }
    destruct oc as [c|]; [|reflexivity]. cbn [delta_msgs].
    destruct (Nat.eqb_spec e 0) as [->|H0]; [reflexivity|].
    rewrite warn_msgs_other; [reflexivity|]. left. apply sheet_col_neq; [exact He|exact Hj|].
    rewrite !cs_closed. destruct e, j; lia.
Qed.

Lemma cell_delta srow e j oc :
  0 < j -> sheet_ok (csv_start e + 2) -> sheet_ok (csv_start j + 2) ->
  warn_msgs (cell_wlines srow e oc) (sheet_col (csv_start j + 2)) srow = if e =? j then delta_msgs e oc else [].
Proof.
  intros H0 He Hj. unfold cell_wlines. rewrite warn_msgs_app.
  assert (He' : sheet_ok (csv_start e)) by (eapply sheet_ok_le; [exact He|lia]).
  rewrite warn_msgs_other.
  2:{ left. apply sheet_col_neq; [exact He'|exact Hj|]. rewrite !cs_closed. destruct e, j; lia. }
  destruct (Nat.eqb_spec e j) as [->|Hn].
  - rewrite warn_msgs_same. reflexivity.
  - rewrite warn_msgs_other; [reflexivity|]. left. apply sheet_col_neq; [exact He|exact Hj|].
    intros E. apply Hn. apply cs_inj. lia.
Qed.

Lemma row_filter_centre srow : forall cells e0 j,
  sheet_ok (csv_start (e0 + length cells)) -> j < e0 + length cells ->
  warn_msgs (row_wlines srow e0 cells) (sheet_col (csv_start j)) srow =
  if e0 <=? j then centre_msgs (nth (j - e0) cells None) else [].
Proof.
  induction cells as [|oc cells IH]; intros e0 j Hok Hj; cbn [row_wlines length] in *.
  - destruct (e0 <=? j); [destruct (j - e0)|]; reflexivity.
  - rewrite warn_msgs_app. replace (e0 + S (length cells)) with (S e0 + length cells) in Hok, Hj by lia.
    rewrite cell_centre.
    2:{ eapply sheet_ok_le; [exact Hok|]. pose proof (cs_plus2 e0). pose proof (cs_mono (S e0) (S e0 + length cells)). lia. }
    2:{ eapply sheet_ok_le; [exact Hok|]. apply cs_mono. lia. }
    destruct (Nat.eqb_spec e0 j) as [->|Hn].
    + destruct (Nat.leb_spec j j); [|lia]. rewrite Nat.sub_diag. cbn [nth].
      rewrite IH by (try exact Hok; lia). destruct (Nat.leb_spec (S j) j); [lia|]. rewrite app_nil_r. reflexivity.
    + cbn [app]. destruct (Nat.lt_ge_cases j e0) as [Hlt|Hge].
      * destruct (Nat.leb_spec e0 j); [lia|].
        rewrite IH by (try exact Hok; lia). destruct (Nat.leb_spec (S e0) j); [lia|reflexivity].
      * rewrite IH by (try exact Hok; lia). destruct (Nat.leb_spec e0 j); [|lia].
        destruct (Nat.leb_spec (S e0) j); [|lia]. replace (j - e0) with (S (j - S e0)) by lia. reflexivity.
Qed.

Lemma row_filter_delta srow : forall cells e0 j,
  0 < j -> sheet_ok (csv_start (e0 + length cells)) -> j < e0 + length cells ->
  warn_msgs (row_wlines srow e0 cells) (sheet_col (csv_start j + 2)) srow =
  if e0 <=? j then delta_msgs j (nth (j - e0) cells None) else [].
Proof.
  induction cells as [|oc cells IH]; intros e0 j H0 Hok Hj; cbn [row_wlines length] in *.
  - destruct (e0 <=? j); [destruct (j - e0)|]; reflexivity.
  - rewrite warn_msgs_app. replace (e0 + S (length cells)) with (S e0 + length cells) in Hok, Hj by lia.
    assert (Hjok : sheet_ok (csv_start j + 2)).
    { eapply sheet_ok_le; [exact Hok|]. pose proof (cs_plus2 j). pose proof (cs_mono (S j) (S e0 + length cells)). lia. }
    rewrite cell_delta; [|exact H0| |exact Hjok].
    2:{ eapply sheet_ok_le; [exact Hok|]. pose proof (cs_plus2 e0). pose proof (cs_mono (S e0) (S e0 + length cells)). lia. }
    destruct (Nat.eqb_spec e0 j) as [->|Hn].
    + destruct (Nat.leb_spec j j); [|lia]. rewrite Nat.sub_diag. cbn [nth].
      rewrite IH by (try exact Hok; lia). destruct (Nat.leb_spec (S j) j); [lia|]. rewrite app_nil_r. reflexivity.
    + cbn [app]. destruct (Nat.lt_ge_cases j e0) as [Hlt|Hge].
      * destruct (Nat.leb_spec e0 j); [lia|].
        rewrite IH by (try exact Hok; lia). destruct (Nat.leb_spec (S e0) j); [lia|reflexivity].
      * rewrite IH by (try exact Hok; lia). destruct (Nat.leb_spec e0 j); [|lia].
        destruct (Nat.leb_spec (S e0) j); [|lia]. replace (j - e0) with (S (j - S e0)) by lia. reflexivity.
Qed.
