(** Proofs about Model/FilterParse.v:
    - key:value with canonically quoted key and value parses to exactly that
      match, for all byte strings;
    - the fuel handed to the parser is always enough (also on the paths taken
      after a syntax error), so parsing any text terminates with a tree or an
      error;
    - the error offset lies inside the text. *)
From Perf Require Import Base.Bytes Base.Rune Model.Unquote Model.Tok Model.FilterAst Model.FilterParse
  Proofs.Unquote Proofs.Tok.

Section Proofs.
Variable is_space : N -> bool.
Variable re_ok : bytes -> bool.

(** ** expressibility *)
Section Denote.
Hypothesis dquote_not_space : is_space 34 = false.

Lemma next_nil n0 allow e : next is_space re_ok n0 allow [] e = (eof_at n0 [], [], [], e).
Proof. reflexivity. Qed.

Lemma next_colon n0 allow rest e :
  next is_space re_ok n0 allow (c_colon :: rest) e =
  (mkTok (KOp c_colon) (off_of n0 (c_colon :: rest)) [c_colon], rest, c_colon :: rest, e).
Proof. reflexivity. Qed.

Lemma expr_loop_quoted n0 f k v :
  expr_loop is_space re_ok n0 (S (S (S f))) (cquote k ++ c_colon :: cquote v) None [] =
  Some (FMatch k (MLit v) (off_of n0 (cquote k ++ c_colon :: cquote v)), [], None).
Proof.
  cbn [expr_loop and_expr match_].
  rewrite (quoted_word_roundtrip is_space re_ok n0 dquote_not_space false k).
  cbn [t_kind t_off t_text]. rewrite next_colon. cbn [t_kind kind_eqb_op negb].
  replace (Byte.eqb c_colon c_colon) with true by reflexivity. cbn [negb].
  rewrite <- (app_nil_r (cquote v)).
  rewrite (quoted_word_roundtrip is_space re_ok n0 dquote_not_space true v).
  cbn [t_kind is_value]. unfold mk_match. cbn [t_kind t_text].
  cbn [and_loop]. rewrite next_nil. cbn [t_kind eof_at mk_and].
  rewrite next_nil. cbn [t_kind eof_at app mk_or]. rewrite app_nil_r. reflexivity.
Qed.

Theorem filter_denotes_string k v :
  parse_filter is_space re_ok (cquote k ++ c_colon :: cquote v) = Ok (FMatch k (MLit v) 0).
Proof.
  unfold parse_filter, parse_filter_fuel.
  replace (fuel_for (cquote k ++ c_colon :: cquote v))
    with (S (S (S (4 * length (cquote k ++ c_colon :: cquote v) + 2)))) by (unfold fuel_for; lia).
  rewrite expr_loop_quoted.
  unfold tok_end. rewrite next_nil. cbn [t_kind eof_at].
  unfold off_of. rewrite Nat.sub_diag. reflexivity.
Qed.

Corollary new_filter_denotes_string k v :
  k <> [] -> k <> key_config ->
  new_filter is_space re_ok (cquote k ++ c_colon :: cquote v) = Ok (FMatch k (MLit v) 0).
Proof.
  intros Hk Hc. unfold new_filter. rewrite filter_denotes_string. cbn [check_filter].
  destruct (beq k key_unit); [reflexivity|].
  destruct (beq_spec k key_config) as [E|_]; [contradiction|].
  destruct k; [contradiction|reflexivity].
Qed.
End Denote.

(** ** totality and error offsets *)
Section Total.
Variable n0 : nat.
Notation next := (next is_space re_ok n0).
Notation err_le := (err_le n0).

(** a parser result exists, does not grow the text, keeps offsets bounded *)
Definition post (strict : bool) (q : bytes) (e : err) (res : pres) : Prop :=
  match res with
  | None => False
  | Some (_, r, e') =>
      (if strict then r = [] \/ length r < length q else length r <= length q)
      /\ (err_le e -> err_le e')
  end.

Lemma post_weaken q e res : post true q e res -> post false q e res.
Proof. destruct res as [[[x r] e']|]; cbn; [|auto]. intros [[->|H] He]; split; auto; cbn; lia. Qed.

Lemma perror_post strict q0 q e0 e :
  (err_le e0 -> err_le e) -> post strict q0 e0 (perror n0 q e).
Proof.
  intros He. cbn. split; [destruct strict; [left; reflexivity | lia] | intros H; apply set_err_le; auto].
Qed.

Ltac nx allow q e t r q' e' :=
  let Hn := fresh "Hn" in
  pose proof (next_spec is_space re_ok n0 allow q e) as Hn;
  destruct (Tok.next is_space re_ok n0 allow q e) as [[[t r] q'] e'];
  cbn [next_post] in Hn;
  let H1 := fresh "Hq" in let H2 := fresh "Hr" in let H3 := fresh "Hk" in
  let H4 := fresh "He" in let H5 := fresh "Hs" in
  destruct Hn as (H1 & H2 & H3 & H4 & H5).

Lemma vlist_post f : forall rest e off key terms,
  length rest < f -> post false rest e (vlist is_space re_ok n0 f rest e off key terms).
Proof.
  induction f as [|f IH]; intros rest e off key terms Hf; [lia|].
  cbn [vlist].
  nx true rest e v r2 rest' e1.
  destruct (is_value (t_kind v)) eqn:Ev; [|apply perror_post; tauto].
  assert (Hv : t_kind v <> KEOF) by (destruct (t_kind v); cbn in Ev; congruence).
  specialize (Hk Hv).
  nx true r2 e1 v2 r3 r2' e2.
  destruct (t_kind v2) eqn:Ek2; try (apply perror_post; tauto).
  - destruct (Byte.eqb c c_rpar); [|apply perror_post; tauto].
    cbn. split; [lia|tauto].
  - assert (Hv2 : KOr <> KEOF) by congruence. specialize (Hk0 Hv2).
    specialize (IH r3 e2 off key (terms ++ [mk_match off key v])).
    destruct (vlist is_space re_ok n0 f r3 e2 off key (terms ++ [mk_match off key v])) as [[[x r] e']|];
      cbn in IH |- *; [|exfalso; apply IH; lia].
    destruct IH as [IH1 IH2]; [lia|]. split; [lia|tauto].
Qed.

Notation match_ := (match_ is_space re_ok n0).
Notation and_loop := (and_loop is_space re_ok n0).
Notation and_expr := (and_expr is_space re_ok n0).
Notation expr_loop := (expr_loop is_space re_ok n0).

Ltac refold :=
  fold (FilterParse.expr_loop is_space re_ok n0); fold (FilterParse.and_expr is_space re_ok n0);
  fold (FilterParse.and_loop is_space re_ok n0); fold (FilterParse.match_ is_space re_ok n0).

Lemma parsers_post f :
  (forall q e, 4 * length q + 1 <= f -> post true q e (match_ f q e)) /\
  (forall q e terms, 4 * length q + 2 <= f -> post false q e (and_loop f q e terms)) /\
  (forall q e, 4 * length q + 3 <= f -> post false q e (and_expr f q e)) /\
  (forall q e terms, 4 * length q + 4 <= f -> post false q e (expr_loop f q e terms)).
Proof.
  induction f as [|f (IHm & IHl & IHa & IHe)].
  { repeat split; intros; lia. }
  assert (Hmatch : forall q e, 4 * length q + 1 <= S f -> post true q e (match_ (S f) q e)).
  { intros start e Hf. cbn [FilterParse.match_]; refold.
    nx false start e t rest start' e1.
    destruct (t_kind t) eqn:Ek; try (apply perror_post; tauto).
    - (* operator *)
      assert (Hne : KOp c <> KEOF) by congruence. specialize (Hk Hne).
      destruct (Byte.eqb c c_lpar).
      { specialize (IHe rest e1 []).
        destruct (expr_loop f rest e1 []) as [[[x r1] e2]|]; cbn in IHe; [|exfalso; apply IHe; lia].
        destruct IHe as [I1 I2]; [lia|].
        nx false r1 e2 op r2 r1' e3.
        destruct (kind_eqb_op (t_kind op) c_rpar); [|apply perror_post; tauto].
        cbn. split; [right; lia|tauto]. }
      destruct (Byte.eqb c c_minus).
      { specialize (IHm rest e1).
        destruct (match_ f rest e1) as [[[x r] e2]|]; cbn in IHm; [|exfalso; apply IHm; lia].
        destruct IHm as [I1 I2]; [lia|].
        cbn. split; [destruct I1; [auto|right; lia]|tauto]. }
      destruct (Byte.eqb c c_aster); [|apply perror_post; tauto].
      cbn. split; [right; lia|tauto].
    - (* bare key *)
      assert (Hne : KWord <> KEOF) by congruence. specialize (Hk Hne).
      nx false rest e1 op r2 x2 e2.
      destruct (negb (kind_eqb_op (t_kind op) c_colon)); [apply perror_post; tauto|].
      nx true r2 e2 v r3 x3 e3.
      destruct (is_value (t_kind v)); [cbn; split; [right; lia|tauto]|].
      destruct (kind_eqb_op (t_kind v) c_lpar); [|apply perror_post; tauto].
      pose proof (vlist_post f r3 e3 (t_off t) (t_text t) []) as Hv.
      destruct (vlist is_space re_ok n0 f r3 e3 (t_off t) (t_text t) []) as [[[x r] e4]|];
        cbn in Hv |- *; [|exfalso; apply Hv; lia].
      destruct Hv as [V1 V2]; [lia|]. split; [right; lia|tauto].
    - (* quoted key *)
      assert (Hne : KQuoted <> KEOF) by congruence. specialize (Hk Hne).
      nx false rest e1 op r2 x2 e2.
      destruct (negb (kind_eqb_op (t_kind op) c_colon)); [apply perror_post; tauto|].
      nx true r2 e2 v r3 x3 e3.
      destruct (is_value (t_kind v)); [cbn; split; [right; lia|tauto]|].
      destruct (kind_eqb_op (t_kind v) c_lpar); [|apply perror_post; tauto].
      pose proof (vlist_post f r3 e3 (t_off t) (t_text t) []) as Hv.
      destruct (vlist is_space re_ok n0 f r3 e3 (t_off t) (t_text t) []) as [[[x r] e4]|];
        cbn in Hv |- *; [|exfalso; apply Hv; lia].
      destruct Hv as [V1 V2]; [lia|]. split; [right; lia|tauto]. }
  assert (Hloop : forall q e terms, 4 * length q + 2 <= S f -> post false q e (and_loop (S f) q e terms)).
  { intros q e terms Hf. cbn [FilterParse.and_loop]; refold.
    nx false q e op q2 q' e'.
    assert (Hmore : t_kind op <> KEOF ->
      post false q e
        match match_ f q' e' with
        | Some (t, q3, e3) => and_loop f q3 e3 (terms ++ [t])
        | None => None
        end).
    { intros Hne. specialize (Hk Hne).
      specialize (IHm q' e').
      destruct (match_ f q' e') as [[[x q3] e3]|]; cbn in IHm; [|exfalso; apply IHm; lia].
      destruct IHm as [I1 I2]; [lia|].
      specialize (IHl q3 e3 (terms ++ [x])).
      destruct (and_loop f q3 e3 (terms ++ [x])) as [[[y r] e4]|]; cbn in IHl |- *.
      - destruct IHl as [L1 L2]; [destruct I1 as [->|I1]; cbn; lia|].
        split; [destruct I1 as [->|I1]; cbn in *; lia|tauto].
      - exfalso. apply IHl. destruct I1 as [->|I1]; cbn; lia. }
    destruct (t_kind op) eqn:Ek.
    - cbn. split; [lia|tauto].
    - destruct (Byte.eqb c c_lpar || Byte.eqb c c_minus || Byte.eqb c c_aster);
        [apply Hmore; congruence|].
      destruct (Byte.eqb c c_rpar); [cbn; split; [lia|tauto]|apply perror_post; tauto].
    - apply Hmore; congruence.
    - apply Hmore; congruence.
    - apply perror_post; tauto.
    - assert (Hne : KAnd <> KEOF) by congruence. specialize (Hk Hne).
      specialize (IHl q2 e' terms).
      destruct (and_loop f q2 e' terms) as [[[y r] e4]|]; cbn in IHl |- *; [|exfalso; apply IHl; lia].
      destruct IHl as [L1 L2]; [lia|]. split; [lia|tauto].
    - cbn. split; [lia|tauto]. }
  assert (Hand : forall q e, 4 * length q + 3 <= S f -> post false q e (and_expr (S f) q e)).
  { intros q e Hf. cbn [FilterParse.and_expr]; refold.
    specialize (IHm q e).
    destruct (match_ f q e) as [[[x q1] e1]|]; cbn in IHm; [|exfalso; apply IHm; lia].
    destruct IHm as [I1 I2]; [lia|].
    assert (Hq1 : length q1 <= length q) by (destruct I1 as [->|I1]; cbn; lia).
    specialize (IHl q1 e1 [x]).
    destruct (and_loop f q1 e1 [x]) as [[[y r] e2]|]; cbn in IHl |- *; [|exfalso; apply IHl; lia].
    destruct IHl as [L1 L2]; [lia|]. split; [lia|tauto]. }
  assert (Hexpr : forall q e terms, 4 * length q + 4 <= S f -> post false q e (expr_loop (S f) q e terms)).
  { intros q e terms Hf. cbn [FilterParse.expr_loop]; refold.
    specialize (IHa q e).
    destruct (and_expr f q e) as [[[x q1] e1]|]; cbn in IHa; [|exfalso; apply IHa; lia].
    destruct IHa as [I1 I2]; [lia|].
    nx false q1 e1 op q2 q1' e2.
    destruct (t_kind op) eqn:Ek; try (cbn; split; [lia|tauto]).
    assert (Hne : KOr <> KEOF) by congruence. specialize (Hk Hne).
    specialize (IHe q2 e2 (terms ++ [x])).
    destruct (expr_loop f q2 e2 (terms ++ [x])) as [[[y r] e3]|]; cbn in IHe |- *; [|exfalso; apply IHe; lia].
    destruct IHe as [L1 L2]; [lia|]. split; [lia|tauto]. }
  repeat split; assumption.
Qed.

Lemma tok_end_le q e : err_le e -> err_le (tok_end is_space re_ok n0 q e).
Proof.
  intros H. unfold tok_end.
  nx false q e t r q' e'.
  destruct (t_kind t); auto; apply set_err_le; auto.
Qed.

End Total.

Theorem parse_filter_total q : parse_filter is_space re_ok q <> OutOfFuel.
Proof.
  unfold parse_filter, parse_filter_fuel.
  destruct (parsers_post (length q) (fuel_for q)) as (_ & _ & _ & H).
  specialize (H q None []). unfold fuel_for in *.
  destruct (expr_loop is_space re_ok (length q) (4 * length q + 5) q None []) as [[[x r] e]|];
    cbn in H.
  - destruct (tok_end is_space re_ok (length q) r e); discriminate.
  - exfalso. apply H. lia.
Qed.

Theorem parse_filter_error_offset q off :
  parse_filter is_space re_ok q = Err off -> off <= length q.
Proof.
  unfold parse_filter, parse_filter_fuel.
  destruct (parsers_post (length q) (fuel_for q)) as (_ & _ & _ & H).
  specialize (H q None []). unfold fuel_for in *.
  destruct (expr_loop is_space re_ok (length q) (4 * length q + 5) q None []) as [[[x r] e]|];
    cbn in H; [|discriminate].
  destruct H as [_ He]; [lia|].
  pose proof (tok_end_le (length q) r e (He I)) as Hle.
  destruct (tok_end is_space re_ok (length q) r e); [|discriminate].
  intros [= <-]. exact Hle.
Qed.

End Proofs.
