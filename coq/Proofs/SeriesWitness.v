(** Concrete result sets showing that each clause of WFset is needed for order
    independence, and where the unrepaired COMBINE branch dereferences nil. *)
From Coq Require Import Permutation Strings.String.
From Perf Require Import Base.Bytes Model.Dates Model.Series.
Local Open Scope Z_scope.

Definition e1 := bs "20220101T000000".
Definition e2 := bs "20220102T000000".
Definition e1' := bs "2022-01-01T00:00:00Z".   (* the instant of e1 in the other layout *)
Definition s1 := bs "20211201T000000".
Definition s2 := bs "20211202T000000".
Definition mk (exp ser : bytes) (ro : role) (nh dh : string) (v : Z) : res :=
  mkRes (bs "sec/op") [] (bs "A") exp ser ro (bs nh) (bs dh) v.

Definition out (combine : bool) (rs : list res) : option (list series) :=
  canon (all_comparison_series combine (adds rs) (first_enum rs)).

(** (a) one numerator hash with two series stamps: the last cell created names the stamp *)
Definition wit_a := [mk e1 s1 RNum "h" "d" 1; mk e2 s2 RNum "h" "d" 2].
(** (b) one series point reached with two (numerator, denominator) hash pairs *)
Definition wit_b := [mk e1 s1 RDen "h" "d1" 1; mk e1 s1 RNum "h" "d1" 2; mk e2 s1 RDen "h" "d2" 3; mk e2 s1 RNum "h" "d2" 4].
(** (c) the denominators of one trial carry two hashes: the first one added names the baseline *)
Definition wit_c := [mk e1 s1 RDen "h" "d1" 1; mk e1 s1 RDen "h" "d2" 2; mk e1 s1 RNum "h" "d1" 3].
(** (d) two experiment keys denoting one instant: the first one visited wins *)
Definition wit_d := [mk e1 s1 RDen "h" "d" 1; mk e1 s1 RNum "h" "d" 2; mk e1' s1 RDen "h" "d" 3; mk e1' s1 RNum "h" "d" 4].

Lemma order_dependent_a : Permutation wit_a (rev wit_a) /\ out false wit_a <> out false (rev wit_a).
Proof. split; [apply Permutation_rev | vm_compute; discriminate]. Qed.
Lemma order_dependent_b : Permutation wit_b (rev wit_b) /\ out false wit_b <> out false (rev wit_b).
Proof. split; [apply Permutation_rev | vm_compute; discriminate]. Qed.
Lemma order_dependent_c : Permutation wit_c (rev wit_c) /\ out false wit_c <> out false (rev wit_c).
Proof. split; [apply Permutation_rev | vm_compute; discriminate]. Qed.
Lemma order_dependent_d : Permutation wit_d (rev wit_d) /\ out false wit_d <> out false (rev wit_d).
Proof. split; [apply Permutation_rev | vm_compute; discriminate]. Qed.

(** DUPE_COMBINE with a trial that has numerators but no denominator: the code
    as it stands dereferences the nil baseline; the repaired step concatenates *)
Definition wit_nil := [mk e1 s1 RNum "h" "d" 3; mk e2 s1 RNum "h" "d" 1].
Lemma combine_nil_panics_asis : acs_panics true (adds wit_nil) (first_enum wit_nil) = true.
Proof. vm_compute. reflexivity. Qed.
Lemma combine_nil_repaired :
  out true wit_nil =
  Some [mkSeries (bs "sec/op") [bs "A"] [bs "2021-12-01T00:00:00+00:00"]
                 [(bs "2021-12-01T00:00:00+00:00", (bs "h", []))]
                 [mkO (bs "A") (bs "2021-12-01T00:00:00+00:00") (bs "2022-01-02T00:00:00+00:00") [1; 3] []]].
Proof. vm_compute. reflexivity. Qed.
