(** The "exact" fast path of ParseFloat (atof64exact): when the decimal mantissa
    is below 2^52 and the decimal exponent is within the table of exact powers of
    ten, one correctly rounded multiplication or division of two exactly
    represented numbers gives the correctly rounded value of the text:
    the result equals the specification [rn_b64]. *)
From Coq Require Import ZArith Reals Lia Lra Bool.
From Flocq Require Import Core.Core IEEE754.BinarySingleNaN.
From Perf Require Import Base.Bytes Base.B64 Base.DecSpec Model.Atoi Model.Atof Proofs.RnB64.
Local Open Scope Z_scope.

Local Instance Hprec53' : FLX.Prec_gt_0 53 := eq_refl _.
Local Instance Hmax1024' : Prec_lt_emax 53 1024 := eq_refl _.

(** correct rounding determines the float *)
Lemma rounds_to_unique neg x z1 z2 : rounds_to neg x z1 -> rounds_to neg x z2 -> z1 = z2.
Proof.
  intros [V1 H1] [V2 H2].
  destruct (Rlt_bool (Rabs (rnd64 x)) (bpow radix2 1024)).
  - destruct H1 as [R1 [F1 S1]], H2 as [R2 [F2 S2]].
    rewrite <- (B2SF_SF2B 53 1024 z1 V1), <- (B2SF_SF2B 53 1024 z2 V2). f_equal.
    apply B2R_Bsign_inj.
    + now rewrite is_finite_SF2B.
    + now rewrite is_finite_SF2B.
    + rewrite !B2R_SF2B. congruence.
    + rewrite !Bsign_SF2B. congruence.
  - congruence.
Qed.

(** [z] is the finite binary64 with value [x] and sign [neg] *)
Definition represents (neg : bool) (x : R) (z : spec_float) : Prop :=
  valid_binary 53 1024 z = true /\ SF2R radix2 z = x /\ is_finite_SF z = true /\ sign_SF z = neg.

Lemma represents_rounds neg x z : represents neg x z -> rounds_to neg x z.
Proof.
  intros [V [R [F S]]].
  assert (G : generic_format radix2 fexp64 x).
  { rewrite <- R, <- (B2R_SF2B 53 1024 z V). apply generic_format_B2R. }
  assert (B : (Rabs x < bpow radix2 1024)%R).
  { rewrite <- R, <- (B2R_SF2B 53 1024 z V). apply abs_B2R_lt_emax. }
  split; [assumption|]. unfold rnd64. rewrite round_generic by (try typeclasses eauto; assumption).
  rewrite Rlt_bool_true by assumption. auto.
Qed.

Lemma rounds_represents neg x z :
  rounds_to neg x z -> generic_format radix2 fexp64 x -> (Rabs x < bpow radix2 1024)%R -> represents neg x z.
Proof.
  intros [V H] G B. unfold rnd64 in H. rewrite round_generic in H by (try typeclasses eauto; assumption).
  rewrite Rlt_bool_true in H by assumption. destruct H as [R [F S]]. repeat split; assumption.
Qed.

Lemma represents_shape s x z : represents s x z -> x <> 0%R -> exists m e, z = S754_finite s m e.
Proof.
  intros [V [R [F S]]] Hx. destruct z as [s'|s'| |s' m e]; cbn in *; try discriminate.
  - congruence.
  - subst s'. eauto.
Qed.

Lemma represents_opp s x z : represents s x z -> represents (negb s) (- x)%R (SFopp z).
Proof.
  intros [V [R [F S]]]. destruct z as [s'|s'| |s' m e]; cbn in *; try discriminate.
  - subst. repeat split; auto. cbn. lra.
  - subst. repeat split; auto.
    rewrite <- F2R_Zopp. match goal with |- context [negb ?b] => destruct b end; reflexivity.
Qed.

(** ** the operands: float64(mantissa) and the table of powers of ten *)
Lemma int_generic (n : Z) : Z.abs n < 2 ^ 53 -> generic_format radix2 fexp64 (IZR n).
Proof.
  intros H. apply generic_format_FLT. apply FLT_spec with (f := Float radix2 n 0).
  - unfold F2R. cbn. lra.
  - exact H.
  - cbn. lia.
Qed.

Lemma of_Z_represents p : Zpos p < 2 ^ 53 -> represents false (IZR (Zpos p)) (b64_of_Z (Zpos p)).
Proof.
  intros H. unfold b64_of_Z. cbn [binary_normalize]. unfold prec, emax.
  apply rounds_represents.
  - eapply rounds_to_ext; [|apply binary_round_rounds]. rewrite F2R_cond.
    change (bpow radix2 0) with 1%R. lra.
  - apply int_generic. rewrite Z.abs_eq by lia. exact H.
  - rewrite Rabs_pos_eq by (apply IZR_le; lia).
    apply Rlt_trans with (bpow radix2 53); [|apply bpow_lt; lia].
    rewrite <- IZR_Zpower by lia. apply IZR_lt. exact H.
Qed.

Lemma pow10_represents k : 0 <= k <= 22 -> represents false (bpow radix10 k) (pow10tab k).
Proof.
  intros Hk. unfold pow10tab.
  assert (Hpos : 0 < 10 ^ k) by (apply Z.pow_pos_nonneg; lia).
  destruct (10 ^ k) as [|q|q] eqn:Eq; try lia.
  assert (Hx : IZR (Zpos q) = bpow radix10 k).
  { rewrite <- Eq. change 10 with (radix_val radix10). now rewrite IZR_Zpower by lia. }
  assert (H5 : 5 ^ k < 2 ^ 53).
  { apply Z.le_lt_trans with (5 ^ 22); [apply Z.pow_le_mono_r; lia|]. vm_compute. reflexivity. }
  unfold b64_of_Z. cbn [binary_normalize]. unfold prec, emax.
  apply rounds_represents.
  - eapply rounds_to_ext; [|apply binary_round_rounds]. rewrite F2R_cond.
    change (bpow radix2 0) with 1%R. rewrite Hx. lra.
  - apply generic_format_FLT. apply FLT_spec with (f := Float radix2 (5 ^ k) k).
    + rewrite <- Hx, <- Eq. unfold F2R. cbn [Fnum Fexp].
      rewrite <- (IZR_Zpower radix2) by lia. rewrite <- mult_IZR. f_equal.
      change (radix_val radix2) with 2. rewrite <- Z.pow_mul_l. reflexivity.
    + cbn [Fnum]. rewrite Z.abs_eq by (apply Z.pow_nonneg; lia). exact H5.
    + cbn. lia.
  - rewrite Rabs_pos_eq by (apply bpow_ge_0).
    rewrite <- Hx, <- Eq. rewrite <- IZR_Zpower by lia. apply IZR_lt.
    change (radix_val radix2) with 2.
    apply Z.le_lt_trans with (10 ^ 22); [apply Z.pow_le_mono_r; lia|]. vm_compute. reflexivity.
Qed.

(** ** one correctly rounded operation *)
Lemma mul_rounds s1 m1 e1 s2 m2 e2 x1 x2 :
  represents s1 x1 (S754_finite s1 m1 e1) -> represents s2 x2 (S754_finite s2 m2 e2) ->
  rounds_to (xorb s1 s2) (x1 * x2) (b64_mul (S754_finite s1 m1 e1) (S754_finite s2 m2 e2)).
Proof.
  intros [V1 [R1 _]] [V2 [R2 _]]. cbn in V1, V2, R1, R2.
  unfold b64_mul, prec, emax. cbn [SFmul]. rewrite sf_round_aux_equiv.
  pose proof (Bmult_correct_aux 53 1024 _ _ mode_NE s1 m1 e1 V1 s2 m2 e2 V2) as H.
  cbv zeta in H. rewrite R1, R2 in H. exact H.
Qed.

Lemma div_rounds s1 m1 e1 s2 m2 e2 x1 x2 :
  represents s1 x1 (S754_finite s1 m1 e1) -> represents s2 x2 (S754_finite s2 m2 e2) ->
  rounds_to (xorb s1 s2) (x1 / x2) (b64_div (S754_finite s1 m1 e1) (S754_finite s2 m2 e2)).
Proof.
  intros [V1 [R1 _]] [V2 [R2 _]]. cbn in V1, V2, R1, R2.
  unfold b64_div, prec, emax. cbn [SFdiv].
  pose proof (Bdiv_correct_aux 53 1024 _ _ mode_NE s1 m1 e1 s2 m2 e2) as H.
  cbv zeta in H. rewrite R1, R2 in H.
  destruct (SFdiv_core_binary 53 1024 (Zpos m1) e1 (Zpos m2) e2) as [[q e'] l].
  rewrite sf_round_aux_equiv. exact H.
Qed.

(** ** the theorem, for the single-operation part of the path (|exp| <= 22) *)
Lemma shiftr52_small m : 0 <= m -> Z.shiftr m 52 = 0 -> m < 2 ^ 52.
Proof.
  intros Hm H. rewrite Z.shiftr_div_pow2 in H by lia.
  apply Z.div_small_iff in H; lia.
Qed.

Lemma exact_value_dec neg m k :
  exact_value neg m false k = ((if neg then - IZR m else IZR m) * bpow radix10 k)%R.
Proof. unfold exact_value. destruct neg; lra. Qed.

Theorem exact_path_single m exp neg f : 0 <= m -> -22 <= exp <= 22 ->
  atof64exact m exp neg = Some f -> f = rn_b64 neg m false exp.
Proof.
  intros Hm He H. unfold atof64exact in H.
  destruct (Z.eqb_spec (Z.shiftr m 52) 0) as [Hs|]; [|discriminate]. cbn [negb] in H.
  pose proof (shiftr52_small m Hm Hs) as Hlt.
  (* the first operand *)
  set (fm := if neg then b64_neg (b64_of_Z m) else b64_of_Z m) in H.
  destruct m as [|p|p]; [| |lia].
  - (* mantissa 0 *)
    assert (Efm : fm = S754_zero neg) by (unfold fm; destruct neg; reflexivity).
    rewrite Efm in H. cbn [rn_b64].
    destruct (Z.eqb_spec exp 0) as [->|Hne]; [now injection H as <-|].
    destruct ((0 <? exp) && (exp <=? 15 + 22)) eqn:Hp.
    + apply andb_true_iff in Hp as [Hp _]. apply Z.ltb_lt in Hp.
      destruct (Z.ltb_spec 22 exp); [lia|].
      cbn [b64_gt b64_lt SFltb SFcompare f_1e15] in H.
      destruct (represents_shape false _ _ (pow10_represents exp ltac:(lia))
                  ltac:(apply Rgt_not_eq, bpow_gt_0)) as [mk [ek Ek]].
      rewrite Ek in H.
      replace (b64_gt (S754_zero neg) f_1e15 || b64_lt (S754_zero neg) (b64_neg f_1e15)) with false in H
        by (destruct neg; reflexivity).
      injection H as <-. unfold b64_mul. cbn. now rewrite xorb_false_r.
    + destruct ((exp <? 0) && (-22 <=? exp)) eqn:Hn; [|discriminate].
      destruct (represents_shape false _ _ (pow10_represents (- exp) ltac:(lia))
                  ltac:(apply Rgt_not_eq, bpow_gt_0)) as [mk [ek Ek]].
      rewrite Ek in H. injection H as <-. unfold b64_div. cbn. now rewrite xorb_false_r.
  - (* mantissa > 0 *)
    assert (Rfm : represents neg (if neg then - IZR (Zpos p) else IZR (Zpos p))%R fm).
    { pose proof (of_Z_represents p ltac:(lia)) as R0. unfold fm. destruct neg; [|exact R0].
      apply (represents_opp false _ _ R0). }
    assert (Hnz : ((if neg then - IZR (Zpos p) else IZR (Zpos p)) <> 0)%R).
    { assert (0 < IZR (Zpos p))%R by (apply IZR_lt; lia). destruct neg; lra. }
    destruct (represents_shape _ _ _ Rfm Hnz) as [mf [ef Efm]].
    pose proof (rn_b64_rounds neg (Zpos p) false exp ltac:(lia)) as Hspec.
    rewrite exact_value_dec in Hspec.
    destruct (Z.eqb_spec exp 0) as [->|Hne].
    + injection H as <-. change (bpow radix10 0) with 1%R in Hspec. rewrite Rmult_1_r in Hspec.
      eapply rounds_to_unique; [apply represents_rounds; exact Rfm|exact Hspec].
    + destruct ((0 <? exp) && (exp <=? 15 + 22)) eqn:Hp.
      * apply andb_true_iff in Hp as [Hp _]. apply Z.ltb_lt in Hp.
        destruct (Z.ltb_spec 22 exp); [lia|].
        destruct (b64_gt fm f_1e15 || b64_lt fm (b64_neg f_1e15)); [discriminate|].
        injection H as <-.
        pose proof (pow10_represents exp ltac:(lia)) as Rk.
        destruct (represents_shape false _ _ Rk ltac:(apply Rgt_not_eq, bpow_gt_0)) as [mk [ek Ek]].
        rewrite Efm, Ek in *.
        pose proof (mul_rounds _ _ _ _ _ _ _ _ Rfm Rk) as Hm'. rewrite xorb_false_r in Hm'.
        eapply rounds_to_unique; [exact Hm'|exact Hspec].
      * destruct ((exp <? 0) && (-22 <=? exp)) eqn:Hn; [|discriminate].
        injection H as <-.
        pose proof (pow10_represents (- exp) ltac:(lia)) as Rk.
        destruct (represents_shape false _ _ Rk ltac:(apply Rgt_not_eq, bpow_gt_0)) as [mk [ek Ek]].
        rewrite Efm, Ek in *.
        pose proof (div_rounds _ _ _ _ _ _ _ _ Rfm Rk) as Hd. rewrite xorb_false_r in Hd.
        eapply rounds_to_unique; [exact Hd|].
        eapply rounds_to_ext; [|exact Hspec].
        replace exp with (- (- exp)) at 1 by lia. rewrite bpow_opp. reflexivity.
Qed.

(** ** the two-operation part (22 < exp <= 37): the first product is exact
    whenever the code's "f > 1e15" test lets it through *)
Lemma sfltb_correct a b (Va : valid_binary 53 1024 a = true) (Vb : valid_binary 53 1024 b = true) :
  is_finite_SF a = true -> is_finite_SF b = true ->
  SFltb a b = Rlt_bool (SF2R radix2 a) (SF2R radix2 b).
Proof.
  intros Fa Fb.
  pose proof (Bltb_correct 53 1024 (SF2B a Va) (SF2B b Vb)) as H.
  rewrite !is_finite_SF2B, !B2R_SF2B in H. unfold Bltb in H. rewrite !B2SF_SF2B in H. now apply H.
Qed.

Lemma f_1e15_represents : represents false (IZR (10 ^ 15)) f_1e15.
Proof. apply (of_Z_represents (Z.to_pos (10 ^ 15))). vm_compute. reflexivity. Qed.

Lemma rnd64_int_ge (P : Z) : 10 ^ 15 + 1 <= P -> (IZR (10 ^ 15 + 1) <= rnd64 (IZR P))%R.
Proof.
  intros H. unfold rnd64.
  apply round_ge_generic; [typeclasses eauto..| |now apply IZR_le].
  apply int_generic. vm_compute. reflexivity.
Qed.

Lemma rnd64_opp x : rnd64 (- x) = (- rnd64 x)%R.
Proof. unfold rnd64. apply round_NE_opp. Qed.

Theorem exact_path_double m exp neg f : 0 <= m -> 22 < exp <= 37 ->
  atof64exact m exp neg = Some f -> f = rn_b64 neg m false exp.
Proof.
  intros Hm He H. unfold atof64exact in H.
  destruct (Z.eqb_spec (Z.shiftr m 52) 0) as [Hs|]; [|discriminate]. cbn [negb] in H.
  pose proof (shiftr52_small m Hm Hs) as Hlt.
  set (fm := if neg then b64_neg (b64_of_Z m) else b64_of_Z m) in H.
  destruct (Z.eqb_spec exp 0); [lia|].
  destruct (Z.ltb_spec 0 exp); [|lia]. destruct (Z.leb_spec exp (15 + 22)); [|lia]. cbn [andb] in H.
  destruct (Z.ltb_spec 22 exp); [|lia]. cbv beta iota in H.
  set (j := exp - 22) in *.
  pose proof (pow10_represents j ltac:(unfold j; lia)) as Rj.
  destruct (represents_shape false _ _ Rj ltac:(apply Rgt_not_eq, bpow_gt_0)) as [mj [ej Ej]].
  pose proof (pow10_represents 22 ltac:(lia)) as R22.
  destruct (represents_shape false _ _ R22 ltac:(apply Rgt_not_eq, bpow_gt_0)) as [m22 [e22 E22]].
  destruct m as [|p|p]; [| |lia].
  - (* mantissa 0 *)
    assert (Efm : fm = S754_zero neg) by (unfold fm; destruct neg; reflexivity).
    rewrite Efm, Ej in H. unfold b64_mul at 1 2 in H. cbn [SFmul] in H. rewrite xorb_false_r in H.
    replace (b64_gt (S754_zero neg) f_1e15 || b64_lt (S754_zero neg) (b64_neg f_1e15)) with false in H
      by (destruct neg; reflexivity).
    rewrite E22 in H. injection H as <-. unfold b64_mul. cbn [SFmul rn_b64]. rewrite !xorb_false_r. reflexivity.
  - assert (Rfm : represents neg (if neg then - IZR (Zpos p) else IZR (Zpos p))%R fm).
    { pose proof (of_Z_represents p ltac:(lia)) as R0. unfold fm. destruct neg; [|exact R0].
      apply (represents_opp false _ _ R0). }
    assert (Hp : (0 < IZR (Zpos p))%R) by (apply IZR_lt; lia).
    assert (Hnz : ((if neg then - IZR (Zpos p) else IZR (Zpos p)) <> 0)%R) by (destruct neg; lra).
    destruct (represents_shape _ _ _ Rfm Hnz) as [mf [ef Efm]].
    rewrite Efm, Ej in *.
    pose proof (mul_rounds _ _ _ _ _ _ _ _ Rfm Rj) as HR1. rewrite xorb_false_r in HR1.
    set (f1 := b64_mul (S754_finite neg mf ef) (S754_finite false mj ej)) in *.
    remember (b64_gt f1 f_1e15 || b64_lt f1 (b64_neg f_1e15)) as g eqn:Hguard in H.
    destruct g; [discriminate H|]. symmetry in Hguard.
    injection H as <-.
    apply orb_false_iff in Hguard as [Hgt Hlt'].
    (* the exact first product, an integer *)
    set (P := Zpos p * 10 ^ j).
    assert (HP : ((if neg then - IZR (Zpos p) else IZR (Zpos p)) * bpow radix10 j =
                  if neg then - IZR P else IZR P)%R).
    { assert (E10 : IZR (10 ^ j) = bpow radix10 j).
      { change 10 with (radix_val radix10). apply IZR_Zpower. unfold j. lia. }
      unfold P. rewrite mult_IZR, E10. destruct neg; lra. }
    rewrite HP in HR1.
    assert (HPpos : 0 < P) by (apply Z.mul_pos_pos; [lia|apply Z.pow_pos_nonneg; unfold j; lia]).
    assert (HPbig : P < 2 ^ 102).
    { unfold P. apply Z.lt_le_trans with (2 ^ 52 * 10 ^ 15); [|vm_compute; discriminate].
      assert (10 ^ j <= 10 ^ 15) by (apply Z.pow_le_mono_r; unfold j; lia).
      assert (0 < 10 ^ j) by (apply Z.pow_pos_nonneg; unfold j; lia). nia. }
    assert (Hsmall : P <= 10 ^ 15).
    { destruct (Z_le_gt_dec P (10 ^ 15)) as [|Hbig]; [assumption|exfalso].
      pose proof (rnd64_int_ge P ltac:(lia)) as Hge.
      assert (Hr : (Rabs (rnd64 (if neg then - IZR P else IZR P)) = rnd64 (IZR P))%R).
      { assert (0 <= rnd64 (IZR P))%R.
        { unfold rnd64. apply round_ge_generic; [typeclasses eauto..|apply generic_format_0|apply IZR_le; lia]. }
        destruct neg; [rewrite rnd64_opp, Rabs_Ropp|]; now apply Rabs_pos_eq. }
      assert (Hfin : (rnd64 (IZR P) < bpow radix2 1024)%R).
      { apply Rle_lt_trans with (bpow radix2 102); [|apply bpow_lt; lia].
        unfold rnd64. apply round_le_generic; [typeclasses eauto..| |].
        - apply generic_format_bpow. unfold fexp64, FLT_exp. lia.
        - rewrite <- IZR_Zpower by lia. apply IZR_le. change (radix_val radix2) with 2. lia. }
      destruct HR1 as [V1 HR1]. rewrite Hr, Rlt_bool_true in HR1 by assumption.
      destruct HR1 as [R1 [F1 S1]].
      destruct f_1e15_represents as [Vc [Rc [Fc Sc]]].
      assert (H15 : (IZR (10 ^ 15) < IZR (10 ^ 15 + 1))%R) by (apply IZR_lt; lia).
      destruct neg.
      - (* f1 < -1e15 *)
        unfold b64_lt in Hlt'.
        destruct (represents_opp false _ _ f_1e15_represents) as [Vn [Rn [Fn Sn]]].
        unfold b64_neg in Hlt'.
        rewrite (sfltb_correct f1 (SFopp f_1e15) V1 Vn F1 Fn), R1, Rn, rnd64_opp in Hlt'.
        match type of Hlt' with Rlt_bool ?a ?b = false => destruct (Rlt_bool_spec a b) as [Hl|Hge2]; [discriminate Hlt'|] end. lra.
      - unfold b64_gt in Hgt.
        rewrite (sfltb_correct f_1e15 f1 Vc V1 Fc F1), R1, Rc in Hgt.
        match type of Hgt with Rlt_bool ?a ?b = false => destruct (Rlt_bool_spec a b) as [Hl|Hge2]; [discriminate Hgt|] end. lra. }
    (* so the first product was exact *)
    assert (Rf1 : represents neg (if neg then - IZR P else IZR P)%R f1).
    { apply rounds_represents; [exact HR1| |].
      - assert (G : generic_format radix2 fexp64 (IZR P)).
        { apply int_generic. rewrite Z.abs_eq by lia.
          apply Z.le_lt_trans with (10 ^ 15); [assumption|vm_compute; reflexivity]. }
        destruct neg; [now apply generic_format_opp|assumption].
      - assert (IZR P < bpow radix2 1024)%R.
        { apply Rlt_trans with (bpow radix2 102); [|apply bpow_lt; lia].
          rewrite <- IZR_Zpower by lia. apply IZR_lt. change (radix_val radix2) with 2. lia. }
        assert (0 < IZR P)%R by (apply IZR_lt; lia).
        destruct neg; [rewrite Rabs_Ropp|]; rewrite Rabs_pos_eq; lra. }
    assert (Hnz1 : ((if neg then - IZR P else IZR P) <> 0)%R).
    { assert (0 < IZR P)%R by (apply IZR_lt; lia). destruct neg; lra. }
    destruct (represents_shape _ _ _ Rf1 Hnz1) as [m1 [e1 E1]].
    rewrite E1, E22 in *.
    pose proof (mul_rounds _ _ _ _ _ _ _ _ Rf1 R22) as HR2. rewrite xorb_false_r in HR2.
    eapply rounds_to_unique; [exact HR2|].
    eapply rounds_to_ext; [|apply (rn_b64_rounds neg (Zpos p) false exp); lia].
    rewrite exact_value_dec, <- HP. replace exp with (j + 22) at 1 by (unfold j; lia).
    rewrite bpow_plus. lra.
Qed.

(** the whole exact path *)
Theorem exact_path_correct m exp neg f : 0 <= m ->
  atof64exact m exp neg = Some f -> f = rn_b64 neg m false exp.
Proof.
  intros Hm H.
  destruct (Z_le_gt_dec exp 22) as [Hle|Hgt].
  - destruct (Z_le_gt_dec (-22) exp) as [Hge|Hlt]; [now apply exact_path_single|].
    exfalso. unfold atof64exact in H.
    destruct (negb (Z.shiftr m 52 =? 0)); [discriminate|].
    destruct (Z.eqb_spec exp 0); [lia|].
    destruct (Z.ltb_spec 0 exp); [lia|]. cbn [andb] in H.
    destruct (Z.leb_spec (-22) exp); [lia|]. rewrite andb_false_r in H. discriminate.
  - destruct (Z_le_gt_dec exp 37) as [Hle|Hgt']; [apply exact_path_double; auto; lia|].
    exfalso. unfold atof64exact in H.
    destruct (negb (Z.shiftr m 52 =? 0)); [discriminate|].
    destruct (Z.eqb_spec exp 0); [lia|].
    destruct (Z.leb_spec exp (15 + 22)); [lia|]. rewrite andb_false_r in H.
    destruct (Z.ltb_spec exp 0); [lia|]. cbn [andb] in H. discriminate.
Qed.
