(** Proofs about Model/TTestQ.v: the degrees of freedom as coded are the
    textbook Welch-Satterthwaite value and lie between min(n1,n2)-1 and
    n1+n2-2; the pooled variance is the pooled sum of squared deviations;
    the mean of paired differences is the difference of the means. *)
From Coq Require Import QArith Qminmax ZArith List Lia Lqa Psatz.
From Perf Require Import Model.StatsQ Model.TTestQ Proofs.StatsQ.
Import ListNotations.
Local Open Scope Q_scope.

Theorem welch_dof_forms v1 n1 v2 n2 :
  ~ n1 == 0 -> ~ n2 == 0 -> ~ n1 - 1 == 0 -> ~ n2 - 1 == 0 ->
  ~ v1 * v1 / (n1 * n1 * (n1 - 1)) + v2 * v2 / (n2 * n2 * (n2 - 1)) == 0 ->
  welch_dof_q v1 n1 v2 n2 == welch_dof_textbook_q v1 n1 v2 n2.
Proof.
  intros H1 H2 H3 H4 H5. unfold welch_dof_q, welch_dof_textbook_q. cbv zeta.
  assert (E : v1 / n1 * (v1 / n1) / (n1 - 1) + v2 / n2 * (v2 / n2) / (n2 - 1)
              == v1 * v1 / (n1 * n1 * (n1 - 1)) + v2 * v2 / (n2 * n2 * (n2 - 1))) by (field; auto).
  rewrite E. reflexivity.
Qed.

Lemma q_sq_nonneg (x : Q) : 0 <= x * x.
Proof.
  destruct (Qlt_le_dec x 0).
  - setoid_replace (x * x) with ((- x) * (- x)) by ring. apply Qmult_le_0_compat; lra.
  - apply Qmult_le_0_compat; lra.
Qed.

(** (a+b)^2 / (a^2/p + b^2/r) for a, b >= 0 not both 0 and p, r > 0 *)
Lemma ws_bounds a b p r :
  0 <= a -> 0 <= b -> 0 < a + b -> 0 < p -> 0 < r ->
  let nu := (a + b) * (a + b) / (a * a / p + b * b / r) in
  Qmin p r <= nu /\ nu <= p + r.
Proof.
  intros Ha Hb Hab Hp Hr nu.
  assert (Hden : 0 < a * a / p + b * b / r).
  { assert (0 <= a * a / p) by (apply Qle_shift_div_l; [exact Hp | nra]).
    assert (0 <= b * b / r) by (apply Qle_shift_div_l; [exact Hr | nra]).
    destruct (Qlt_le_dec 0 a) as [Ha'|Ha'].
    - assert (0 < a * a / p) by (apply Qlt_shift_div_l; [exact Hp | nra]). lra.
    - assert (0 < b) by lra.
      assert (0 < b * b / r) by (apply Qlt_shift_div_l; [exact Hr | nra]). lra. }
  set (D := a * a / p + b * b / r) in *.
  assert (Ed : D * (p * r) == a * a * r + b * b * p) by (subst D; field; split; lra).
  assert (Hpr : 0 < p * r) by nra.
  split.
  - subst nu. apply Qle_shift_div_l; [exact Hden|].
    apply (Qmult_le_r _ _ (p * r) Hpr).
    setoid_replace (Qmin p r * D * (p * r)) with (Qmin p r * (D * (p * r))) by ring. rewrite Ed.
    destruct (Q.min_spec p r) as [[Hlt E]|[Hle E]]; rewrite E.
    + assert (H0 : 0 <= b * b * p) by nra. assert (H3 : 0 <= r - p) by lra.
      assert (H4 : 0 <= b * b * p * (r - p)) by (apply Qmult_le_0_compat; assumption).
      assert (H5 : 0 <= a * b) by nra. assert (H6 : 0 <= a * b * (p * r)) by (apply Qmult_le_0_compat; lra).
      lra || nra.
    + assert (H0 : 0 <= a * a * r) by nra. assert (H3 : 0 <= p - r) by lra.
      assert (H4 : 0 <= a * a * r * (p - r)) by (apply Qmult_le_0_compat; assumption).
      assert (H5 : 0 <= a * b) by nra. assert (H6 : 0 <= a * b * (p * r)) by (apply Qmult_le_0_compat; lra).
      lra || nra.
  - subst nu. apply Qle_shift_div_r; [exact Hden|].
    apply (Qmult_le_r _ _ (p * r) Hpr).
    setoid_replace ((p + r) * D * (p * r)) with ((p + r) * (D * (p * r))) by ring. rewrite Ed.
    (* (a+b)^2 p r <= (p+r)(a^2 r + b^2 p)  <=>  0 <= (a r - b p)^2 *)
    assert (Hsq : 0 <= (a * r - b * p) * (a * r - b * p)) by apply q_sq_nonneg.
    setoid_replace ((p + r) * (a * a * r + b * b * p))
      with ((a + b) * (a + b) * (p * r) + (a * r - b * p) * (a * r - b * p)) by ring.
    lra.
Qed.

Theorem welch_dof_bounds v1 n1 v2 n2 :
  1 < n1 -> 1 < n2 -> 0 <= v1 -> 0 <= v2 -> 0 < v1 + v2 ->
  Qmin n1 n2 - 1 <= welch_dof_q v1 n1 v2 n2 /\ welch_dof_q v1 n1 v2 n2 <= n1 + n2 - 2.
Proof.
  intros H1 H2 Hv1 Hv2 Hv.
  assert (Ha : 0 <= v1 / n1) by (apply Qle_shift_div_l; lra).
  assert (Hb : 0 <= v2 / n2) by (apply Qle_shift_div_l; lra).
  assert (Hab : 0 < v1 / n1 + v2 / n2).
  { destruct (Qlt_le_dec 0 v1).
    - assert (0 < v1 / n1) by (apply Qlt_shift_div_l; lra). lra.
    - assert (0 < v2) by lra. assert (0 < v2 / n2) by (apply Qlt_shift_div_l; lra). lra. }
  pose proof (ws_bounds (v1 / n1) (v2 / n2) (n1 - 1) (n2 - 1) Ha Hb Hab ltac:(lra) ltac:(lra)) as [Hlo Hhi].
  cbv zeta in Hlo, Hhi. unfold welch_dof_q. cbv zeta. split.
  - eapply Qle_trans; [|exact Hlo].
    destruct (Q.min_spec n1 n2) as [[? E]|[? E]]; rewrite E;
      destruct (Q.min_spec (n1 - 1) (n2 - 1)) as [[? E']|[? E']]; rewrite E'; lra.
  - eapply Qle_trans; [exact Hhi|]. lra.
Qed.

(** pooled variance = (SS1 + SS2)/(n1+n2-2) with SSi the sum of squared deviations *)
Theorem pooled_var_is_pooled_ssd xs1 xs2 :
  ~ len_q xs1 - 1 == 0 -> ~ len_q xs2 - 1 == 0 ->
  pooled_var_q (variance_q xs1) (len_q xs1) (variance_q xs2) (len_q xs2)
  == (ssd_q (mean_q xs1) xs1 + ssd_q (mean_q xs2) xs2) / (len_q xs1 + len_q xs2 - 2).
Proof.
  intros H1 H2. unfold pooled_var_q, variance_q.
  destruct (Qeq_dec (len_q xs1 + len_q xs2 - 2) 0) as [Hz|Hnz].
  - unfold Qdiv at 1 4. rewrite Hz. setoid_replace (/ 0) with 0 by reflexivity. ring.
  - field. auto.
Qed.

(** paired: the mean of the differences is the difference of the means *)
Lemma sum_diffs_q xs : forall ys, length xs = length ys ->
  sum_q (diffs_q xs ys) == sum_q xs - sum_q ys /\ length (diffs_q xs ys) = length xs.
Proof.
  induction xs as [|x xs IH]; intros [|y ys] Hl; cbn in Hl; try discriminate.
  - cbn. split; [ring | reflexivity].
  - cbn [diffs_q sum_q fold_right length]. fold (sum_q (diffs_q xs ys)) (sum_q xs) (sum_q ys).
    destruct (IH ys ltac:(lia)) as [E L]. rewrite E, L. split; [ring | reflexivity].
Qed.

Theorem paired_mean_is_mean_diff xs ys : length xs = length ys ->
  mean_q (diffs_q xs ys) == mean_q xs - mean_q ys.
Proof.
  intros Hl. destruct (sum_diffs_q xs ys Hl) as [E L]. unfold mean_q, len_q.
  rewrite E, L, <- Hl. unfold Qdiv. ring.
Qed.
