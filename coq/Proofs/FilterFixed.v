(** The fixed-list filters that ProjectionParser.Parse conjoins with the
    caller's filter (benchproc/projection.go makeProjection/makeFilter, Parse):
    a field [k@(v1 … vm)] keeps a result iff the PROJECTED value of k is one of
    the listed words.  Stated over [field_filter]/[wrap] of Model/FilterEval.v
    (the definitions the correspondence evaluator runs). *)
From Perf Require Import Base.Bytes Model.Name Model.Extract Model.FilterAst Model.FilterParse
  Model.ProjParse Model.FilterEval Proofs.FilterEval Proofs.FilterMask.
Local Open Scope nat_scope.

Section Fixed.
Variable r : fresult.
Notation n := (length (fr_units r)).

(** ** Test / Apply of anything that agrees with a per-measurement predicate *)
Lemma test_of_good e d i : good r e d -> i < n -> match_test n e i = d i.
Proof.
  intros G Hi. unfold match_test.
  replace (Nat.leb n i) with false by (symmetry; apply Nat.leb_gt; lia).
  destruct e as [[m|] x]; cbn [good] in G.
  - destruct G as [L T]. rewrite test_bit by apply mod32_lt. apply T, Hi.
  - symmetry. apply G, Hi.
Qed.

Lemma apply_of_good e d {A} (vals : list A) : good r e d -> wf_res e ->
  length vals = n -> 1 <= n ->
  match_apply e vals = (keep d vals 0, existsb d (seq 0 n)).
Proof.
  intros G Hwf Hlen Hn. unfold match_apply. rewrite Hlen.
  rewrite (all_of_good r e d G Hwf Hn), (any_of_good r e d G Hwf Hn).
  destruct (forallb d (seq 0 n)) eqn:Ea.
  - pose proof (proj1 (forallb_seq_iff d n 0) Ea) as H.
    rewrite keep_all by (intros; apply H; lia).
    rewrite existsb_seq_true; auto.
  - destruct (existsb d (seq 0 n)) eqn:Ey; cbn [negb].
    + rewrite (keep_ext (match_test n e) d) by (intros; apply test_of_good; auto; lia).
      rewrite keep_nonempty, Hlen, Ey. reflexivity.
    + pose proof (proj1 (existsb_seq_false_iff d n 0) Ey) as H.
      rewrite keep_none by (intros; apply H; lia). reflexivity.
Qed.

(** ** one Parse: the fixed fields of one projection wrapped around [inner] *)
Variable all_keys : list bytes.

Lemma parts_shape (fields : list pfield) :
  exists bs, opt_list_filter (map (fun p => field_filter all_keys p r) fields)
             = map (fun b : bool => (@None mask, b)) bs
          /\ forallb (fun b : bool => b) bs = forallb (fun p => field_keeps all_keys p r) fields.
Proof.
  induction fields as [|p fields [bs [E F]]]; [exists []; split; reflexivity|].
  cbn [map forallb]. unfold field_filter at 1, field_keeps at 1.
  destruct (beq (pf_order p) ord_fixed); cbn [opt_list_filter negb orb].
  - exists (existsb (beq (proj_value all_keys (pf_key p) r)) (pf_fixed p) :: bs).
    cbn [map forallb]. now rewrite E, F.
  - exists bs. split; [exact E|exact F].
Qed.

Lemma consts_good (bs : list bool) :
  Forall2 (good r) (map (fun b : bool => (@None mask, b)) bs) (map (fun (b : bool) (_ : nat) => b) bs).
Proof. induction bs; cbn; constructor; auto. cbn. reflexivity. Qed.

Lemma consts_wf (bs : list bool) : Forall wf_res (map (fun b : bool => (@None mask, b)) bs).
Proof. induction bs; cbn; constructor; auto. exact I. Qed.

Lemma forallb_consts (bs : list bool) (i : nat) :
  forallb (fun d : nat -> bool => d i) (map (fun (b : bool) (_ : nat) => b) bs) = forallb (fun b : bool => b) bs.
Proof. induction bs; cbn; congruence. Qed.

Lemma and_parts_good (bs : list bool) inner d :
  good r inner d -> wf_res inner ->
  good r (and_fold (map (fun b : bool => (@None mask, b)) bs ++ [inner]) None)
         (fun i => forallb (fun b : bool => b) bs && d i)
  /\ wf_res (and_fold (map (fun b : bool => (@None mask, b)) bs ++ [inner]) None).
Proof.
  intros G Hwf. split.
  - assert (HF : Forall2 (good r) (map (fun b0 : bool => (@None mask, b0)) bs ++ [inner])
                         (map (fun (b0 : bool) (_ : nat) => b0) bs ++ [d])).
    { apply Forall2_app; [apply consts_good|constructor; [exact G|constructor]]. }
    pose proof (and_fold_good r _ _ None (fun _ => true) HF (fun _ _ => eq_refl)) as G'.
    eapply good_ext; [|exact G']. intros i Hi. cbn beta.
    rewrite forallb_app, forallb_consts. cbn [forallb andb]. now rewrite andb_true_r.
  - apply and_fold_wf; [|exact I]. apply Forall_app. split; [apply consts_wf|].
    constructor; [exact Hwf|constructor].
Qed.

Lemma wrap_one_good (fields : list pfield) inner d :
  good r inner d -> wf_res inner ->
  let parts := opt_list_filter (map (fun p => field_filter all_keys p r) fields) in
  let cur := match parts with [] => inner | _ => and_fold (parts ++ [inner]) None end in
  good r cur (fun i => forallb (fun p => field_keeps all_keys p r) fields && d i) /\ wf_res cur.
Proof.
  intros G Hwf. destruct (parts_shape fields) as [bs [E F]]. cbn zeta. rewrite E, <- F.
  destruct bs as [|b bs]; [split; [exact G|exact Hwf]|].
  exact (and_parts_good (b :: bs) inner d G Hwf).
Qed.

(** ** all the Parses, in order *)
Lemma wrap_good : forall ps inner d, good r inner d -> wf_res inner ->
  good r (wrap all_keys ps r inner) (fun i => fixed_keeps all_keys ps r && d i)
  /\ wf_res (wrap all_keys ps r inner).
Proof.
  induction ps as [|fields ps IH]; intros inner d G Hwf; cbn [wrap].
  - split; [|exact Hwf]. eapply good_ext; [|exact G]. reflexivity.
  - destruct (wrap_one_good fields inner d G Hwf) as [G1 W1]. cbn zeta in G1, W1.
    destruct (IH _ _ G1 W1) as [G2 W2]. split; [|exact W2].
    eapply good_ext; [|exact G2]. intros i Hi. cbn beta.
    unfold fixed_keeps. cbn [concat]. rewrite forallb_app.
    destruct (forallb (fun p => field_keeps all_keys p r) fields),
             (forallb (fun p => field_keeps all_keys p r) (concat ps)); reflexivity.
Qed.

Section WithFilter.
Variable rematch : bytes -> bytes -> bool.
Variable ps : list (list pfield).
Variable f : filter.
Notation wrapped := (wrap all_keys ps r (eval rematch f r)).

Lemma wrapped_good :
  good r wrapped (fun i => fixed_keeps all_keys ps r && denote rematch f r i) /\ wf_res wrapped.
Proof. apply wrap_good; [apply eval_good|apply eval_wf]. Qed.

(** measurement i passes the conjoined filter iff every fixed field's
    projected value is in its list and the caller's expression is true of i *)
Theorem fixed_list_filter i : i < n ->
  match_test n wrapped i = fixed_keeps all_keys ps r && denote rematch f r i.
Proof. intros Hi. apply (test_of_good _ _ i (proj1 wrapped_good) Hi). Qed.

Theorem fixed_list_out_of_range i : n <= i -> match_test n wrapped i = false.
Proof. intros Hi. unfold match_test. now replace (Nat.leb n i) with true by (symmetry; apply Nat.leb_le; lia). Qed.

Lemma forallb_andc (c : bool) (d : nat -> bool) l : l <> [] ->
  forallb (fun i => c && d i) l = c && forallb d l.
Proof.
  destruct c; cbn [andb]; [reflexivity|]. destruct l; [congruence|reflexivity].
Qed.

Lemma existsb_andc (c : bool) (d : nat -> bool) l :
  existsb (fun i => c && d i) l = c && existsb d l.
Proof. destruct c; cbn [andb]; [reflexivity|]. induction l; cbn; auto. Qed.

Lemma keep_andc (c : bool) (d : nat -> bool) {A} : forall (vals : list A) k,
  keep (fun i => c && d i) vals k = if c then keep d vals k else [].
Proof.
  destruct c; cbn [andb]; [reflexivity|]. induction vals as [|v vals IH]; intros k; cbn [keep]; auto.
Qed.

Theorem fixed_list_all : 1 <= n ->
  match_all n wrapped = fixed_keeps all_keys ps r && forallb (denote rematch f r) (seq 0 n).
Proof.
  intros Hn. destruct wrapped_good as [G W]. rewrite (all_of_good r _ _ G W Hn).
  apply forallb_andc. destruct n; [lia|discriminate].
Qed.

Theorem fixed_list_any : 1 <= n ->
  match_any n wrapped = fixed_keeps all_keys ps r && existsb (denote rematch f r) (seq 0 n).
Proof.
  intros Hn. destruct wrapped_good as [G W]. rewrite (any_of_good r _ _ G W Hn).
  apply existsb_andc.
Qed.

(** Apply of the conjoined filter: everything goes unless every fixed field
    accepts the result; then exactly the measurements of the caller's
    expression stay, in order *)
Theorem fixed_list_apply {A} (vals : list A) : length vals = n -> 1 <= n ->
  match_apply wrapped vals =
  (if fixed_keeps all_keys ps r then keep (denote rematch f r) vals 0 else [],
   fixed_keeps all_keys ps r && existsb (denote rematch f r) (seq 0 n)).
Proof.
  intros Hlen Hn. destruct wrapped_good as [G W].
  rewrite (apply_of_good _ _ vals G W Hlen Hn). now rewrite keep_andc, existsb_andc.
Qed.

End WithFilter.

(** ** one field [k@(v1 … vm)] *)
Lemma existsb_beq_In (v : bytes) l : existsb (beq v) l = true <-> In v l.
Proof.
  rewrite existsb_exists. split.
  - intros [x [Hx E]]. apply beq_eq in E. now subst.
  - intros H. exists v. split; [exact H|apply beq_refl].
Qed.

Lemma field_keeps_fixed p : pf_order p = ord_fixed ->
  (field_keeps all_keys p r = true <-> In (proj_value all_keys (pf_key p) r) (pf_fixed p)).
Proof.
  intros Ho. unfold field_keeps. rewrite Ho, beq_refl. cbn [negb orb]. apply existsb_beq_In.
Qed.

Lemma field_keeps_other p : pf_order p <> ord_fixed -> field_keeps all_keys p r = true.
Proof.
  intros Ho. unfold field_keeps. destruct (beq_spec (pf_order p) ord_fixed); [contradiction|reflexivity].
Qed.

Lemma fixed_keeps_iff ps :
  fixed_keeps all_keys ps r = true <->
  forall fields p, In fields ps -> In p fields -> pf_order p = ord_fixed ->
    In (proj_value all_keys (pf_key p) r) (pf_fixed p).
Proof.
  unfold fixed_keeps. rewrite forallb_forall. split.
  - intros H fields p Hf Hp Ho. apply field_keeps_fixed; [exact Ho|].
    apply H. apply in_concat. exists fields. split; assumption.
  - intros H p Hp. apply in_concat in Hp. destruct Hp as [fields [Hf Hp]].
    destruct (beq_spec (pf_order p) ord_fixed) as [Ho|Ho].
    + apply field_keeps_fixed; [exact Ho|]. apply (H fields); assumption.
    + apply field_keeps_other. exact Ho.
Qed.

(** the projection consisting of the single field k@(vs): measurement i is
    kept iff the projected value of k is one of the words and the caller's
    expression is true of i *)
Theorem fixed_list_field rematch f p i : pf_order p = ord_fixed -> i < n ->
  (match_test n (wrap all_keys [[p]] r (eval rematch f r)) i = true <->
   In (proj_value all_keys (pf_key p) r) (pf_fixed p) /\ denote rematch f r i = true).
Proof.
  intros Ho Hi. rewrite fixed_list_filter by exact Hi. rewrite andb_true_iff.
  unfold fixed_keeps. cbn [concat app forallb]. rewrite andb_true_r.
  now rewrite (field_keeps_fixed p Ho).
Qed.

(** ** what the projected value is *)
Lemma proj_value_fullname : proj_value all_keys key_fullname r = extractor_fullname all_keys (fr_name r).
Proof. reflexivity. Qed.

Lemma proj_value_other k : k <> key_fullname ->
  proj_value all_keys k r = extract k (fr_name r) (fr_cfg r).
Proof. intros H. unfold proj_value. destruct (beq_spec k key_fullname); [contradiction|reflexivity]. Qed.

(** a file-configuration key that the result lacks (or has with an empty
    value) projects to the empty word, which a list containing "" accepts *)
Lemma proj_value_absent k : k <> key_name -> k <> key_fullname -> is_subname_key k = false ->
  match cfg_lookup (fr_cfg r) k with Some c => c_val c = [] | None => True end ->
  proj_value all_keys k r = [].
Proof.
  intros Hn Hf Hs Hc. rewrite proj_value_other by exact Hf. unfold extract.
  destruct (beq_spec k key_name); [contradiction|].
  destruct (beq_spec k key_fullname); [contradiction|]. rewrite Hs.
  unfold extract_config. destruct (cfg_lookup (fr_cfg r) k); auto.
Qed.

Theorem fixed_list_empty_word p : pf_order p = ord_fixed ->
  proj_value all_keys (pf_key p) r = [] ->
  (field_keeps all_keys p r = true <-> In [] (pf_fixed p)).
Proof. intros Ho Hv. rewrite (field_keeps_fixed p Ho), Hv. reflexivity. Qed.

End Fixed.
