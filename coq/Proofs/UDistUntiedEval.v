(** The evaluators of Model/UDistUntiedEval.v compute the specification's counts
    on untied pooled samples, for ALL sizes: [untied_le] / [untied_ge] (one table fill
    of the Mann-Whitney recurrence up to the smaller tail, through the model's [cdf])
    and [untied_table] with [tab_le] / [tab_eq] (the whole distribution at once). *)
From Coq Require Import ZArith List Bool Lia.
From Perf Require Import Model.UStat Model.UDistSpec Model.UDistImpl Model.UTest Model.UDistUntiedEval.
From Perf Require Import Proofs.UStat Proofs.UDistSpec Proofs.UDistImpl Proofs.UDistSum Proofs.UDistPrune.
From Perf Require Import Proofs.UDistUntied Proofs.UDistRev Proofs.UDistDP.
Import ListNotations.
Local Open Scope Z_scope.

Lemma two_div2 w : 2 * w / 2 = w.
Proof. rewrite Z.mul_comm. apply Z.div_mul. lia. Qed.

Theorem untied_le_correct n1 n2 w : 0 <= n1 -> 0 <= n2 ->
  untied_le n1 n2 w = count_le (ones (n1 + n2)) n1 w.
Proof.
  intros H1 H2. unfold untied_le.
  pose proof (cdf_untied_exact [] n1 n2 (2 * w) eq_refl H1 H2) as H. unfold frac_eq in H.
  rewrite two_div2, total_ones in H by assumption.
  destruct (dres_frac (cdf n1 n2 [] (2 * w))) as [[a b]|]; [|contradiction].
  destruct H as [Hab Hb]. rewrite Hab. apply Z.div_mul. lia.
Qed.

Theorem untied_ge_correct n1 n2 w : 0 <= n1 -> 0 <= n2 ->
  untied_ge n1 n2 w = count_ge (ones (n1 + n2)) n1 w.
Proof.
  intros H1 H2. unfold untied_ge. rewrite untied_le_correct by assumption.
  pose proof (count_ge_le (ones (n1 + n2)) n1 w) as H.
  rewrite (count_all_total _ (ones_nonneg _)), total_ones in H by assumption. lia.
Qed.

(** ** the whole table *)
Lemma length_zrange_0 m : 0 <= m -> length (zrange 0 m) = S (Z.to_nat m).
Proof. intros Hm. rewrite zrange_0_seq by exact Hm. now rewrite map_length, seq_length. Qed.

Lemma firstn_zrange_aux k : forall n lo, (k <= n)%nat -> firstn k (zrange_aux lo n) = zrange_aux lo k.
Proof.
  induction k as [|k IH]; intros n lo Hk; [reflexivity|].
  destruct n as [|n]; [lia|]. cbn [zrange_aux firstn]. f_equal. apply IH. lia.
Qed.

Lemma firstn_zrange_0 k m : 0 <= k <= m -> firstn (S (Z.to_nat k)) (zrange 0 m) = zrange 0 k.
Proof.
  intros Hk. unfold zrange. replace (Z.to_nat (k - 0 + 1)) with (S (Z.to_nat k)) by lia.
  apply firstn_zrange_aux. lia.
Qed.

Lemma ones_range n1 n2 : 0 <= n1 -> 0 <= n2 ->
  2 * (n1 * (zsum (ones (n1 + n2)) - n1)) = 2 * (n1 * n2).
Proof. intros H1 H2. rewrite ones_sum by lia. f_equal. f_equal. lia. Qed.

Lemma to_nat_lt a b : 0 <= a -> a < b -> (S (Z.to_nat a) <= Z.to_nat b)%nat.
Proof. intros Ha Hab. apply Z2Nat.inj_lt in Hab; lia. Qed.

Theorem tab_eq_correct n1 n2 w : 0 <= n1 -> 0 <= n2 ->
  tab_eq (untied_table n1 n2) w = count_eq (ones (n1 + n2)) n1 w.
Proof.
  intros H1 H2. unfold tab_eq, untied_table.
  assert (Hm : 0 <= n1 * n2) by (apply Z.mul_nonneg_nonneg; assumption).
  destruct (Z.ltb_spec w 0) as [Hw|Hw]; cbn [orb].
  - symmetry. apply count_eq_out; [apply ones_nonneg | now left].
  - destruct (Z.odd w) eqn:Hodd.
    + symmetry. now apply count_eq_ones_odd.
    + assert (Hw2 : w = 2 * (w / 2)).
      { pose proof (Z.div_mod w 2 ltac:(lia)) as Hdm. rewrite Zmod_odd, Hodd in Hdm. lia. }
      assert (Hk : 0 <= w / 2) by (apply Z.div_pos; lia).
      destruct (Z_le_gt_dec (w / 2) (n1 * n2)) as [Hle|Hgt].
      * rewrite untied_dp_correct by lia. unfold cuntied. now rewrite <- Hw2.
      * rewrite p_counts_spec by assumption.
        rewrite nth_overflow
          by (rewrite map_length, length_zrange_0 by exact Hm; apply (to_nat_lt _ _ Hm); lia).
        symmetry. apply count_eq_out; [apply ones_nonneg | right]. rewrite ones_range by assumption. lia.
Qed.

Theorem tab_le_correct n1 n2 w : 0 <= n1 -> 0 <= n2 ->
  tab_le (untied_table n1 n2) w = count_le (ones (n1 + n2)) n1 w.
Proof.
  intros H1 H2. unfold tab_le, untied_table.
  assert (Hm : 0 <= n1 * n2) by (apply Z.mul_nonneg_nonneg; assumption).
  destruct (Z.ltb_spec w 0) as [Hw|Hw].
  - symmetry. apply count_le_below; [apply ones_nonneg | exact Hw].
  - assert (Hk : 0 <= w / 2) by (apply Z.div_pos; lia).
    rewrite p_counts_spec by assumption.
    destruct (Z_le_gt_dec (w / 2) (n1 * n2)) as [Hle|Hgt].
    + rewrite firstn_map, firstn_zrange_0 by lia. rewrite zsum_map_sumf.
      symmetry. now apply count_le_ones.
    + rewrite firstn_all2
        by (rewrite map_length, length_zrange_0 by exact Hm; apply le_S, (to_nat_lt _ _ Hm); lia).
      rewrite zsum_map_sumf.
      assert (Htop : 2 * (n1 * n2) <= w).
      { revert Hgt. generalize (n1 * n2). intros m Hgt. pose proof (Z.mul_div_le w 2 ltac:(lia)). lia. }
      rewrite (count_le_top _ _ w) by (apply ones_nonneg || (rewrite ones_range by assumption; exact Htop)).
      rewrite <- (count_le_top _ _ (2 * (n1 * n2))) by (apply ones_nonneg || (rewrite ones_range by assumption; lia)).
      rewrite count_le_ones by assumption. now rewrite two_div2.
Qed.

(** non-trivial instances: C(80,40) arrangements, far beyond 2^64; around the centre of the
    40 x 40 distribution the two tails partition them *)
Example untied_eval_examples :
  untied_le 3 4 6 = 7 /\ untied_ge 3 4 6 = 31 /\ tab_eq (untied_table 3 4) 6 = 3 /\ tab_le (untied_table 3 4) 7 = 7 /\
  2 ^ 64 < choose 80 40 /\
  untied_le 40 40 (2 * 800) + untied_le 40 40 (2 * 799) = choose 80 40.
Proof. vm_compute. repeat split. Qed.
