(** C01, text route: read a text, write the records with the Writer, read the
    output back.

    [reader_output_WF]: whatever the reader delivers from a text - from any
    earlier reader state, with any labels - is a stream the format can carry
    ([WFhist]), under the exclusions the format forces:
      - no configuration value ends in CR ([no_value_ends_cr]: bufio.ScanLines
        drops one CR, so "k: v\r\r\n" reads as a value the format cannot write);
      - the numbers re-print ([recs_reprint]): for every result read, the
        printed iteration count is read back by atoi, every printed measurement
        is one field that atof reads back to the same float, and the benchmark
        line as the writer prints it stays under the scanner's 64 KiB limit
        (%v may print a number longer than it was written: "1e9" -> "1e+09").
    Both are boolean functions of the text (and of the library oracles).
    Lines longer than the limit need no exclusion: the reader stops there with
    an I/O error and the records delivered before it round-trip.

    [roundtrip_text]: composition with [roundtrip_history]. *)
From Perf Require Import Base.Bytes Base.B64 Base.Utf8 Base.Unicode Model.Name Model.Extract Model.Units
  Model.Reader Model.Files Model.Writer Proofs.Units Proofs.ReaderSlots Proofs.Reader Proofs.WriterMap
  Proofs.WriterLines Proofs.WriterClean Proofs.Writer Proofs.ReaderFields.
Local Open Scope N_scope.

(** the records the writer prints something for *)
Definition is_data (r : record) : bool := match r with RErr _ _ _ => false | _ => true end.
Definition data (recs : list record) : list record := filter is_data recs.

Lemma write_all_data recs : forall w, write_all w recs = write_all w (data recs).
Proof.
  induction recs as [|r recs IH]; intros w; [reflexivity|]. destruct r as [r|u|f l k]; cbn [data filter is_data write_all].
  - destruct (write_rec w (RRes r)) as [l1 w1]. fold (data recs). now rewrite IH.
  - destruct (write_rec w (RUnit u)) as [l1 w1]. fold (data recs). now rewrite IH.
  - cbn [write_rec]. fold (data recs). rewrite <- IH. destruct (write_all w recs). reflexivity.
Qed.

Lemma emit_data fmt_g recs : emit fmt_g recs = emit fmt_g (data recs).
Proof. unfold emit. now rewrite write_all_data. Qed.

(** ** %d prints one field *)
Lemma digit_byte d : d < 10 -> exists b, Byte.of_N (48 + d) = Some b /\ bN b = 48 + d.
Proof.
  intros H. destruct (Byte.of_N (48 + d)) as [b|] eqn:E.
  - exists b. split; [reflexivity|]. now apply Byte.to_of_N.
  - apply Byte.of_N_None_iff in E. lia.
Qed.

Definition plain (x : byte) : Prop := is_ascii x = true /\ ascii_space (bN x) = false.

Lemma plain_range x : 33 <= bN x < 127 -> plain x.
Proof.
  intros H. unfold plain, is_ascii, ascii_space. split; [apply N.ltb_lt; lia|].
  apply orb_false_iff. split; [apply andb_false_iff; right; apply N.leb_gt; lia|apply N.eqb_neq; lia].
Qed.

Lemma dec_digits_plain fuel : forall n acc, Forall plain acc -> Forall plain (dec_digits fuel n acc).
Proof.
  induction fuel as [|f IH]; intros n acc Ha; cbn [dec_digits]; [exact Ha|].
  assert (Hd : plain (match Byte.of_N (48 + n mod 10) with Some b => b | None => x30 end)).
  { destruct (digit_byte (n mod 10)) as (b & -> & Hb); [apply N.mod_lt; discriminate|].
    apply plain_range. rewrite Hb. pose proof (N.mod_lt n 10 ltac:(lia)) as H.
    clear - H. revert H. generalize (n mod 10). intros; lia. }
  destruct (n <? 10); [constructor; auto|]. apply IH. constructor; auto.
Qed.

Lemma dec_digits_nonempty fuel : forall n acc, acc <> [] -> dec_digits fuel n acc <> [].
Proof.
  induction fuel as [|f IH]; intros n acc Ha; cbn [dec_digits]; [exact Ha|].
  destruct (n <? 10); [discriminate|]. apply IH. discriminate.
Qed.

Lemma dec_plain n : dec n <> [] /\ Forall plain (dec n).
Proof.
  unfold dec. split; [|apply dec_digits_plain; constructor].
  cbn [dec_digits]. destruct (n <? 10); [discriminate|]. apply dec_digits_nonempty. discriminate.
Qed.

Lemma print_Z_plain z : print_Z z <> [] /\ Forall plain (print_Z z).
Proof.
  destruct z as [|p|p]; cbn [print_Z].
  - split; [discriminate|]. repeat constructor.
  - apply dec_plain.
  - split; [discriminate|]. constructor; [split; reflexivity|apply dec_plain].
Qed.

Lemma runes_plain s : Forall plain s -> runes s = achunks s.
Proof.
  intros H. rewrite <- (flat_achunks s) at 1. rewrite <- (app_nil_r (achunks s)).
  apply runes_wf. apply wf_achunks; [|exact I].
  apply forallb_forall. rewrite Forall_forall in H. intros x Hx. apply H. exact Hx.
Qed.

Section Text.
Variables is_space is_lower is_upper : N -> bool.
Variable atoi : bytes -> option Z.
Variable parse_float : bytes -> option b64.
Variable fmt_g : b64 -> bytes.
(** 'B' and 'U' are not lower-case letters *)
Hypothesis Hlow : is_lower 66 = false /\ is_lower 85 = false.

Notation fspace := (fspace is_space).
Notation nsp := (nsp is_space).
Notation field_ok := (field_ok is_space).
Notation key_ok := (key_ok is_space is_lower is_upper).
Notation kgood := (kgood is_space is_lower is_upper).
Notation cfg_wf := (cfg_wf is_space is_lower is_upper).
Notation stays := (stays is_space is_lower is_upper).
Notation WFres := (WFres is_space is_lower is_upper atoi parse_float fmt_g).
Notation WFunit := (WFunit is_space fmt_g).
Notation WFhist := (WFhist is_space is_lower is_upper atoi parse_float fmt_g).
Notation bench_ok := (bench_ok is_space atoi parse_float fmt_g).
Notation classify := (classify is_space is_lower is_upper atoi parse_float).
Notation atof := (atof parse_float).
Notation render := (render fmt_g).
Notation spec_step := (spec_step is_space is_lower is_upper atoi parse_float).
Notation spec_lines := (spec_lines is_space is_lower is_upper atoi parse_float).
Notation read_file := (read_file is_space is_lower is_upper atoi parse_float).
Notation unit_line := (unit_line is_space).

Lemma plain_field s : s <> [] -> Forall plain s -> field_ok s.
Proof.
  intros Hne H. split; [exact Hne|]. rewrite runes_plain by exact H.
  unfold WriterLines.nsp, achunks. apply Forall_map. eapply Forall_impl; [|exact H].
  intros x [Ha Hs]. cbn [achunk fst]. unfold Reader.fspace. unfold is_ascii in Ha. now rewrite Ha.
Qed.

(** ** the exclusions, as boolean functions *)
Definition ends_cr (v : bytes) : bool := match rev v with c :: _ => Byte.eqb c x0d | [] => false end.

Definition tok_cr_ok (t : ltok) : bool :=
  match t with
  | Line b => match classify b with LKV _ v => negb (ends_cr v) | _ => true end
  | TooLong => true
  end.
(** no configuration value of the text ends in CR *)
Definition no_value_ends_cr (t : bytes) : bool := forallb tok_cr_ok (split_lines t).

Definition fieldb (f : bytes) : bool :=
  negb (is_nil f) && forallb (fun c : chunk => negb (fspace (fst c))) (runes f).

(** the numbers of a result re-print *)
Definition reprints (r : result) : bool :=
  match atoi (print_Z (r_iters r)) with Some z => Z.eqb z (r_iters r) | None => false end
  && forallb (fun p : b64 * bytes =>
                match atof (fmt_g (fst p)) with Some y => b64_same y (fst p) | None => false end
                && fieldb (fmt_g (fst p))) (map written (r_vals r))
  && (N.of_nat (length (render (WBench r))) <? max_token).
Definition rec_reprints (rec : record) : bool := match rec with RRes r => reprints r | _ => true end.
Definition recs_reprint (recs : list record) : bool := forallb rec_reprints recs.

Lemma ends_cr_false v : ends_cr v = false -> no_cr_end v.
Proof.
  intros H p E. subst v. unfold ends_cr in H. rewrite rev_app_distr in H. cbn in H. discriminate.
Qed.

Lemma fieldb_ok f : fieldb f = true -> field_ok f.
Proof.
  unfold fieldb. intros H. apply andb_true_iff in H as [H1 H2]. split.
  - destruct f; [discriminate|discriminate].
  - unfold WriterLines.nsp. apply Forall_forall. intros c Hc.
    rewrite forallb_forall in H2. specialize (H2 c Hc). now apply negb_true_iff in H2.
Qed.

Lemma reprints_ext r r' : r_name r = r_name r' -> r_iters r = r_iters r' -> r_vals r = r_vals r' ->
  reprints r = reprints r'.
Proof.
  intros E1 E2 E3. unfold reprints. cbn [Writer.render]. unfold bench_fields. now rewrite E1, E2, E3.
Qed.

Lemma reprints_ok r : reprints r = true ->
  atoi (print_Z (r_iters r)) = Some (r_iters r) /\
  Forall (fun p => atof (fmt_g (fst p)) = Some (fst p) /\ field_ok (fmt_g (fst p))) (map written (r_vals r)) /\
  short (render (WBench r)).
Proof.
  unfold reprints. intros H. apply andb_true_iff in H as [H H3]. apply andb_true_iff in H as [H1 H2].
  split; [|split].
  - destruct (atoi (print_Z (r_iters r))) as [z|]; [|discriminate]. apply Z.eqb_eq in H1. now subst.
  - apply Forall_forall. intros p Hp. rewrite forallb_forall in H2. specialize (H2 p Hp).
    apply andb_true_iff in H2 as [Ha Hf]. split; [|now apply fieldb_ok].
    destruct (atof (fmt_g (fst p))) as [y|]; [|discriminate]. apply b64_same_eq in Ha. now subst.
  - unfold short. now apply N.ltb_lt.
Qed.

(** ** a benchmark line that parsed, with numbers that re-print, is a result the format carries *)
Lemma bench_line_WF b name iters vals m fname n :
  classify b = LBench (BOk name iters vals) ->
  reprints (mkResult m name iters vals fname n) = true -> cfg_wf m ->
  WFres (mkResult m name iters vals fname n).
Proof.
  intros Hc Hr Hm. apply classify_bench_inv in Hc. symmetry in Hc.
  apply parse_bench_inv in Hc as (Hname & Hne & Hunits).
  apply reprints_ok in Hr as (Hit & Hvals & Hshort). cbn [r_iters r_vals] in *.
  split; [exact Hm|]. split; [|exact Hshort].
  split; [exact Hname|]. split; [|split; [exact Hit|split; [|exact Hne]]].
  - rewrite bench_fields_eq. cbn [r_iters r_vals]. constructor.
    + destruct (print_Z_plain iters). now apply plain_field.
    + clear - Hvals Hunits. induction (map written vals) as [|p ps IH]; [constructor|].
      inversion Hvals as [|? ? [_ Hp] Hvals']; subst. inversion Hunits as [|? ? Hu Hunits']; subst.
      cbn [flat_map pair_fields app]. constructor; [exact Hp|]. constructor; [exact Hu|]. now apply IH.
  - cbn [r_vals]. eapply Forall_impl; [|exact Hvals]. cbn. tauto.
Qed.

(** ** a configuration line that parsed: key and value can be written back *)
Lemma kv_line_good b k v :
  tok_ok (Line b) -> classify b = LKV k v -> ends_cr v = false ->
  kgood k /\ (v <> [] -> vgood k v).
Proof.
  intros [Hnolf Hlen] Hc Hcr. apply classify_kv_inv in Hc.
  apply (parse_kv_inv is_space is_lower is_upper Hlow) in Hc as (Hk & Hl1 & Hv).
  split.
  - split; [exact Hk|]. unfold short, max_token in *. rewrite app_length. change (length (bs ":")) with 1%nat. lia.
  - intros Hne. destruct (Hv Hne) as (Hvo & Hl2 & p & Hp). split; [exact Hvo|]. split.
    + split; [|now apply ends_cr_false]. intros Hin. apply Hnolf. rewrite Hp. apply in_or_app. now right.
    + unfold short, max_token in *. rewrite !app_length. change (length (bs ": ")) with 2%nat. lia.
Qed.

(** ** the configuration map under the key/value lines *)
Lemma cm_set_other m k v f c : In c m -> c_key c <> k -> In c (cm_set m k v f).
Proof.
  intros Hin Hne. unfold cm_set. destruct (is_nil v).
  - unfold cm_del. apply filter_In. split; [exact Hin|]. apply negb_true_iff.
    destruct (beq_spec (c_key c) k); [congruence|reflexivity].
  - induction m as [|x m IH]; [contradiction|]. cbn [cm_put].
    destruct Hin as [->|Hin].
    + destruct (beq_spec (c_key c) k); [congruence|now left].
    + destruct (beq (c_key x) k); right; auto.
Qed.

Lemma cm_set_in m k v f c : In c (cm_set m k v f) -> In c m \/ (c = mkCfg k v f /\ v <> []).
Proof.
  unfold cm_set. destruct v as [|v0 v]; cbn [is_nil].
  - unfold cm_del. intros H. apply filter_In in H. tauto.
  - induction m as [|x m IH]; cbn [cm_put].
    + intros [<-|[]]. right. split; [reflexivity|discriminate].
    + destruct (beq (c_key x) k).
      * intros [<-|H]; [right; split; [reflexivity|discriminate]|left; now right].
      * intros [<-|H]; [left; now left|]. destruct (IH H) as [H'|H']; [left; now right|now right].
Qed.

Lemma cfg_wf_set m k v : cfg_wf m -> kgood k -> (v <> [] -> vgood k v) -> cfg_wf (cm_set m k v true).
Proof.
  intros [Hn Hf] Hk Hv. split; [now apply cm_set_nodup|].
  apply Forall_forall. intros c Hc. apply cm_set_in in Hc as [Hc|[-> Hne]].
  - rewrite Forall_forall in Hf. auto.
  - cbn [c_key c_val]. intros _. split; auto.
Qed.

(** every entry of [prev] has a writable key or is an internal entry still in [m] *)
Definition kept (prev m : list cfg) : Prop :=
  Forall (fun c => kgood (c_key c) \/ (c_file c = false /\ In c m)) prev.

Lemma kept_set prev m k v : kept prev m -> kgood k -> kept prev (cm_set m k v true).
Proof.
  intros H Hk. unfold kept in *. eapply Forall_impl; [|exact H]. cbn. intros c [Hc|[Hf Hin]]; [now left|].
  destruct (beq_spec (c_key c) k) as [E|Hne]; [left; now rewrite E|].
  right. split; [exact Hf|]. now apply cm_set_other.
Qed.

Lemma kept_refl m : cfg_wf m -> kept m m.
Proof.
  intros [_ Hf]. unfold kept. apply Forall_forall. intros c Hc. rewrite Forall_forall in Hf.
  destruct (c_file c) eqn:E; [left; now apply Hf|right; auto].
Qed.

Lemma kept_stays prev m : kept prev m -> stays prev m.
Proof.
  unfold kept, Writer.stays. apply Forall_impl. intros c [H|[Hf Hin]]; [now left|right].
  split; [exact Hf|]. apply has_key_in. unfold keys. now apply in_map.
Qed.

Lemma cfg_wf_labels labels : cfg_wf (cm_labels labels).
Proof.
  unfold cm_labels.
  assert (H : forall m, NoDup (keys m) /\ Forall (fun c => c_file c = false) m ->
              NoDup (keys (fold_left (fun m kv => cm_set m (fst kv) (snd kv) false) labels m)) /\
              Forall (fun c => c_file c = false) (fold_left (fun m kv => cm_set m (fst kv) (snd kv) false) labels m)).
  { induction labels as [|[k v] labels IH]; intros m [Hn Hf]; cbn [fold_left fst snd]; [auto|].
    apply IH. split; [now apply cm_set_nodup|].
    apply Forall_forall. intros c Hc. apply cm_set_in in Hc as [Hc|[-> _]]; [|reflexivity].
    rewrite Forall_forall in Hf. auto. }
  destruct (H []) as [Hn Hf]; [split; constructor|].
  split; [exact Hn|]. eapply Forall_impl; [|exact Hf]. cbn. intros c -> Hx. discriminate.
Qed.

(** ** unit lines *)
Lemma umap_find_none_fresh um tu k : umap_find um tu k = None -> ~ In (tu, k) (ukeys um).
Proof.
  induction um as [|e um IH]; [intros _ []|]. cbn [umap_find find ukeys map In].
  destruct (beq_spec (u_unit (up_meta e)) tu) as [E1|Hn1]; cbn [andb].
  - destruct (beq_spec (u_key (up_meta e)) k) as [E2|Hn2]; [discriminate|].
    intros H [E|Hin]; [unfold ukey in E; congruence|]. now apply IH.
  - intros H [E|Hin]; [unfold ukey in E; congruence|]. now apply IH.
Qed.

Lemma data_app a b : data (a ++ b) = data a ++ data b.
Proof. apply filter_app. Qed.

Lemma unit_fields_WF fname n unit (Hu : field_ok unit) fs : forall m rs m',
  Forall field_ok fs ->
  (forall f, In f fs -> N.of_nat (length unit + length f + 6) < max_token) ->
  unit_fields fname n unit (snd (tidy is_space b64_one unit)) fs m = (rs, m') ->
  forall prev rest, WFhist prev (ukeys m') rest -> WFhist prev (ukeys m) (data rs ++ rest).
Proof.
  set (tu := snd (tidy is_space b64_one unit)).
  induction fs as [|f fs IH]; intros m rs m' Hfs Hb; cbn [unit_fields].
  - intros [= <- <-] prev rest H. exact H.
  - inversion Hfs as [|? ? Hf Hfs']; subst.
    assert (Hb' : forall g, In g fs -> N.of_nat (length unit + length g + 6) < max_token) by (intros; apply Hb; now right).
    destruct (parse_unit_field f) as [|k v] eqn:Ep.
    + destruct (unit_fields fname n unit tu fs m) as [rs1 m1] eqn:E. intros [= <- <-] prev rest H.
      cbn [data filter is_data]. eapply IH; eauto.
    + destruct (umap_find m tu k) as [have|] eqn:Ef.
      * destruct (beq (u_value (up_meta have)) v); [intros E prev rest H; eapply IH; eauto|].
        destruct (unit_fields fname n unit tu fs m) as [rs1 m1] eqn:E. intros [= <- <-] prev rest H.
        cbn [data filter is_data]. eapply IH; eauto.
      * destruct (unit_fields fname n unit tu fs (m ++ _)) as [rs1 m1] eqn:E. intros [= <- <-] prev rest H.
        cbn [data filter is_data app]. fold (data rs1).
        apply parse_unit_field_inv in Ep as (Ef' & Hk1 & Hk2).
        apply WFh_unit.
        -- cbn [up_meta]. split.
           ++ unfold unit_ok. cbn [u_unit u_orig u_key u_value]. repeat split; auto; try apply Hu.
              ** rewrite <- Ef'. apply Hf.
              ** rewrite <- Ef'. apply Hf.
           ++ unfold short. cbn [Writer.render u_orig u_key u_value].
              specialize (Hb f (or_introl eq_refl)). rewrite Ef' in Hb.
              rewrite !app_length in *. cbn [length] in *. unfold max_token in *.
              change (length (bs "Unit ")) with 5%nat. lia.
        -- cbn [up_meta]. now apply umap_find_none_fresh.
        -- cbn [up_meta]. specialize (IH _ _ _ Hfs' Hb' E prev rest H).
           unfold ukeys in IH. rewrite map_app in IH. exact IH.
Qed.

Lemma unit_line_WF b fs fname n um rs um' :
  tok_ok (Line b) -> classify b = LUnit fs -> unit_line fname n fs um = (rs, um') ->
  forall prev rest, WFhist prev (ukeys um') rest -> WFhist prev (ukeys um) (data rs ++ rest).
Proof.
  intros [_ Hlen] Hc. unfold Reader.unit_line. destruct fs as [|unit fs].
  - intros [= <- <-] prev rest H. exact H.
  - apply classify_unit_inv in Hc as [Hfs Hsum]; [|discriminate].
    inversion Hfs as [|? ? Hu Hfs']; subst. intros E. eapply unit_fields_WF; eauto.
    intros f Hf. apply fsum_in in Hf. cbn [fsum fold_right] in Hsum. fold (fsum fs) in Hsum.
    unfold max_token in *. lia.
Qed.

(** ** the line specification delivers a well-formed stream *)
Definition tok_cr (t : ltok) : Prop :=
  match t with Line b => forall k v, classify b = LKV k v -> ends_cr v = false | TooLong => True end.

Lemma tok_cr_ok_spec t : tok_cr_ok t = true -> tok_cr t.
Proof.
  destruct t as [b|]; [|intros _; exact I]. cbn [tok_cr_ok tok_cr]. intros H k v E. rewrite E in H.
  now apply negb_true_iff in H.
Qed.

Lemma spec_lines_WF fname ls : Forall tok_ok ls -> Forall tok_cr ls ->
  forall n m um prev rs e um',
  cfg_wf m -> kept prev m ->
  spec_lines fname n m um ls = (rs, e, um') -> recs_reprint rs = true ->
  WFhist prev (ukeys um) (data rs).
Proof.
  induction ls as [|[b|] ls IH]; intros Htok Hcr n m um prev rs e um' Hm Hkept; cbn [Reader.spec_lines].
  - intros [= <- <- <-] _. constructor.
  - inversion Htok as [|? ? Hb Htok']; subst. inversion Hcr as [|? ? Hbcr Hcr']; subst.
    unfold Reader.spec_step. destruct (classify b) as [[|k|name iters vals]|fs|k v|] eqn:Ec.
    + destruct (spec_lines fname (n + 1) m um ls) as [[rs' e'] um2] eqn:E2. intros [= <- <- <-] Hrp.
      cbn [app]. eapply IH; eauto.
    + destruct (spec_lines fname (n + 1) m um ls) as [[rs' e'] um2] eqn:E2. intros [= <- <- <-] Hrp.
      cbn [app data filter is_data]. eapply IH; eauto.
    + destruct (spec_lines fname (n + 1) m um ls) as [[rs' e'] um2] eqn:E2. intros [= <- <- <-] Hrp.
      cbn [app data filter is_data]. fold (data rs').
      cbn [recs_reprint forallb rec_reprints] in Hrp. apply andb_true_iff in Hrp as [Hr1 Hr2].
      apply WFh_res.
      * eapply bench_line_WF; eauto.
      * cbn [r_cfg]. now apply kept_stays.
      * cbn [r_cfg]. eapply IH; eauto. now apply kept_refl.
    + destruct (unit_line fname (n + 1) fs um) as [rs1 um1] eqn:E1.
      destruct (spec_lines fname (n + 1) m um1 ls) as [[rs' e'] um2] eqn:E2. intros [= <- <- <-] Hrp.
      rewrite data_app. eapply unit_line_WF; eauto.
      unfold recs_reprint in Hrp. rewrite forallb_app in Hrp. apply andb_true_iff in Hrp as [_ Hr2].
      eapply IH; eauto.
    + destruct (spec_lines fname (n + 1) (cm_set m k v true) um ls) as [[rs' e'] um2] eqn:E2. intros [= <- <- <-] Hrp.
      cbn [app]. destruct (kv_line_good b k v Hb Ec (Hbcr _ _ Ec)) as [Hk Hv].
      apply (IH Htok' Hcr' _ _ _ _ _ _ _ (cfg_wf_set _ _ _ Hm Hk Hv) (kept_set _ _ _ v Hkept Hk) E2 Hrp).
    + destruct (spec_lines fname (n + 1) m um ls) as [[rs' e'] um2] eqn:E2. intros [= <- <- <-] Hrp.
      cbn [app]. eapply IH; eauto.
  - intros [= <- <- <-] _. constructor.
Qed.

(** ** from the specification's stream to the reader's: same entries, other slot order *)
Lemma lookup_in_nodup R c : NoDup (keys R) -> In c R -> cfg_lookup R (c_key c) = Some c.
Proof.
  induction R as [|x R IH]; intros Hn Hin; [contradiction|].
  cbn [keys map] in Hn. inversion Hn as [|? ? Hx Hn']; subst. cbn [cfg_lookup].
  destruct Hin as [->|Hin]; [now rewrite beq_refl|].
  destruct (beq_spec (c_key x) (c_key c)) as [E|Hne]; [|auto].
  exfalso. apply Hx. rewrite E. unfold keys. now apply in_map.
Qed.

Lemma cfg_equiv_in a b c : cfg_equiv a b -> In c a -> In c b.
Proof.
  intros (Hna & _ & Hl) Hin. pose proof (lookup_in_nodup a c Hna Hin) as E. rewrite Hl in E.
  now apply cfg_lookup_some in E.
Qed.

Lemma cfg_equiv_sym a b : cfg_equiv a b -> cfg_equiv b a.
Proof. intros (H1 & H2 & H3). split; [exact H2|]. split; [exact H1|]. intros k. now rewrite H3. Qed.

Lemma cfg_wf_equiv a b : cfg_equiv a b -> cfg_wf b -> cfg_wf a.
Proof.
  intros He [_ Hf]. split; [apply He|]. apply Forall_forall. intros c Hc.
  rewrite Forall_forall in Hf. apply Hf. eapply cfg_equiv_in; eauto.
Qed.

Definition prev_equiv (p p' : list cfg) : Prop := forall c, In c p -> In c p'.

Lemma stays_equiv p p' a b : prev_equiv p p' -> cfg_equiv a b -> stays p' b -> stays p a.
Proof.
  intros Hp (_ & _ & Hl) Hs. unfold Writer.stays in *. rewrite Forall_forall in *. intros c Hc.
  destruct (Hs c (Hp c Hc)) as [H|[Hf Hk]]; [now left|right]. split; [exact Hf|].
  unfold has_key in *. now rewrite Hl.
Qed.

Lemma WFhist_equiv a b : Forall2 rec_equiv a b -> forall p p' seen, prev_equiv p p' ->
  WFhist p' seen (data b) -> WFhist p seen (data a).
Proof.
  induction 1 as [|x y a b Hxy _ IH]; intros p p' seen Hp Hw; [constructor|].
  destruct x as [r|u|f l k], y as [r'|u'|f' l' k']; cbn [rec_equiv] in Hxy; try contradiction;
    cbn [data filter is_data] in *; fold (data a); fold (data b) in Hw.
  - destruct Hxy as (Hc & E1 & E2 & E3 & _).
    inversion Hw as [|? ? ? ? (Hcfg & Hbench & Hshort) Hst Hw'|]; subst. apply WFh_res.
    + split; [eapply cfg_wf_equiv; eauto|]. split.
      * destruct Hbench as (B1 & B2 & B3 & B4 & B5). unfold WriterLines.bench_ok, bench_fields in *.
        rewrite E1, E2, E3. repeat split; auto.
      * cbn [Writer.render] in *. unfold bench_fields in *. now rewrite E1, E2, E3.
    + eapply stays_equiv; eauto.
    + eapply IH; eauto. intros c. now apply cfg_equiv_in.
  - subst u'. inversion Hw; subst. apply WFh_unit; auto. eapply IH; eauto.
  - eapply IH; eauto.
Qed.

Lemma recs_reprint_equiv a b : Forall2 rec_equiv a b -> recs_reprint a = recs_reprint b.
Proof.
  induction 1 as [|x y a b Hxy _ IH]; [reflexivity|]. cbn [recs_reprint forallb]. fold (recs_reprint a) (recs_reprint b).
  rewrite IH. f_equal.
  destruct x as [r|u|f l k], y as [r'|u'|f' l' k']; cbn [rec_equiv] in Hxy; try contradiction; try reflexivity.
  destruct Hxy as (_ & E1 & E2 & E3 & _). cbn [rec_reprints]. now apply reprints_ext.
Qed.

(** ** the reader's output is a stream the format can carry *)
Theorem reader_output_WF (t : bytes) (st : rstate) (fname : bytes) (labels : list (bytes * bytes)) recs e st1 :
  no_value_ends_cr t = true ->
  read_file st fname labels t = (recs, e, st1) ->
  recs_reprint recs = true ->
  WFhist [] (ukeys (rs_units st)) (data recs).
Proof.
  intros Hcr Hread Hrp.
  destruct (reader_refines_linespec _ _ _ _ _ _ _ _ _ _ _ _ Hread) as (rs2 & Hls & Hf).
  unfold Reader.linespec in Hls.
  eapply WFhist_equiv; [exact Hf|intros c []|].
  eapply spec_lines_WF; [apply split_lines_ok| |apply cfg_wf_labels|constructor|exact Hls|].
  - unfold no_value_ends_cr in Hcr. rewrite forallb_forall in Hcr. apply Forall_forall.
    intros tok Htok. apply tok_cr_ok_spec. now apply Hcr.
  - now rewrite <- (recs_reprint_equiv _ _ Hf).
Qed.

(** ** text -> records -> text -> records *)
Hypothesis Hcolon : is_space 58 = false /\ is_upper 58 = false.
Hypothesis Hlf : is_space 10 = true.

Theorem roundtrip_text (t : bytes) (st : rstate) (fname : bytes) (labels : list (bytes * bytes))
        (st2 : rstate) (fname2 : bytes) recs e st1 :
  no_value_ends_cr t = true ->
  read_file st fname labels t = (recs, e, st1) ->
  recs_reprint recs = true ->
  ukeys (rs_units st2) = ukeys (rs_units st) ->
  exists out st',
    read_file st2 fname2 [] (emit fmt_g recs) = (out, None, st') /\
    Forall2 rt_equiv out (data recs).
Proof.
  intros Hcr Hread Hrp Hu. rewrite emit_data.
  apply (roundtrip_history is_space is_lower is_upper atoi parse_float fmt_g Hcolon Hlf).
  rewrite Hu. eapply reader_output_WF; eauto.
Qed.

End Text.
