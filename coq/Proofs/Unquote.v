(** Proofs about Model/Unquote.v: the canonical quoting is undone by the model
    of strconv.Unquote, for every byte string. *)
From Perf Require Import Base.Bytes Base.Rune Model.Unquote.

Lemma unq_loop_skip a s : unq_loop (a ++ s) (length a) = unq_loop s 0.
Proof. induction a as [|x a IH]; cbn [app length unq_loop]; auto. Qed.

(** one escaped byte is decoded to that byte *)
Lemma unq_loop_esc_byte b R :
  unq_loop (esc b ++ R) 0 =
  match unq_loop R 0 with Some (out, rest) => Some (b :: out, rest) | None => None end.
Proof. destruct b; reflexivity. Qed.

Lemma unq_loop_esc s rest :
  unq_loop (flat_map esc s ++ c_dquote :: rest) 0 = Some (s, rest).
Proof.
  induction s as [|b s IH]; cbn [flat_map app].
  - reflexivity.
  - rewrite <- app_assoc, unq_loop_esc_byte, IH. reflexivity.
Qed.

Theorem unquote_cquote s : unquote (cquote s) = Some s.
Proof.
  unfold cquote, unquote. cbn [Byte.eqb].
  replace (Byte.eqb c_dquote c_dquote) with true by reflexivity.
  change [c_dquote] with (c_dquote :: []).
  rewrite unq_loop_esc. reflexivity.
Qed.

Lemma length_esc_pos b : (1 <= length (esc b))%nat.
Proof. destruct b; cbn; lia. Qed.
