(** Proofs about Model/IdsHist.v: in every history, whatever the clock shows,
    an ID handed out is new, the table never holds an ID twice, and the records
    of a committed upload stay (also across failed and aborted uploads). *)
From Perf Require Import Base.Bytes Model.StoreFmt Model.Ids Model.IdsHist Proofs.Ids.

(** a step that hands out an ID: the ID was not in the table, and is its new last row *)
Lemma hstep_fresh s o s' u :
  hstep s o = (s', Some u) -> ~ In u (h_table s) /\ h_table s' = h_table s ++ [u].
Proof.
  destruct o as [day n c | v n c]; cbn [hstep].
  - destruct (alloc day (h_table s)) as [[w t']|] eqn:E; [|discriminate].
    intros [= <- <-]. apply alloc_fresh in E. exact E.
  - destruct (insert v (h_table s)) as [t'|] eqn:E; [|discriminate].
    intros [= <- <-]. apply insert_spec in E. exact E.
Qed.

Lemma hstep_none s o s' : hstep s o = (s', None) -> s' = s.
Proof.
  destruct o as [day n c | v n c]; cbn [hstep].
  - destruct (alloc day (h_table s)) as [[w t']|]; [discriminate|]. intros [= <-]. reflexivity.
  - destruct (insert v (h_table s)) as [t'|]; [discriminate|]. intros [= <-]. reflexivity.
Qed.

(** rows and committed records are only added by a step *)
Lemma hstep_grows s o :
  (forall v, In v (h_table s) -> In v (h_table (fst (hstep s o))))
  /\ (forall r, In r (h_recs s) -> In r (h_recs (fst (hstep s o)))).
Proof.
  destruct (hstep s o) as [s' [u|]] eqn:E; cbn [fst].
  - pose proof (hstep_fresh _ _ _ _ E) as [_ Ht]. split.
    + intros v Hv. rewrite Ht. apply in_or_app. left. exact Hv.
    + intros r Hr. destruct o as [day n c | v n c]; cbn [hstep] in E.
      * destruct (alloc day (h_table s)) as [[w t']|]; [|discriminate]. injection E as <- _.
        unfold finish. cbn [h_recs]. destruct c; [apply in_or_app; left|]; exact Hr.
      * destruct (insert v (h_table s)) as [t'|]; [|discriminate]. injection E as <- _.
        unfold finish. cbn [h_recs]. destruct c; [apply in_or_app; left|]; exact Hr.
  - apply hstep_none in E. subst. auto.
Qed.

Lemma hfinal_grows ops : forall s,
  (forall v, In v (h_table s) -> In v (h_table (hfinal s ops)))
  /\ (forall r, In r (h_recs s) -> In r (h_recs (hfinal s ops))).
Proof.
  induction ops as [|o ops IH]; intros s; cbn [hfinal fold_left]; [auto|].
  destruct (hstep_grows s o) as [Ht Hr]. destruct (IH (fst (hstep s o))) as [Ht' Hr'].
  split; intros x Hx; [apply Ht', Ht | apply Hr', Hr]; exact Hx.
Qed.

Lemma hstep_nodup s o : NoDup (h_table s) -> NoDup (h_table (fst (hstep s o))).
Proof.
  intros Hn. destruct (hstep s o) as [s' [u|]] eqn:E; cbn [fst].
  - apply hstep_fresh in E as [Hf ->]. apply NoDup_app_snoc; assumption.
  - apply hstep_none in E. subst. exact Hn.
Qed.

(** committed uploads carry IDs of the table, one entry per ID *)
Definition recs_inv (s : hstate) : Prop :=
  NoDup (h_table s) /\ NoDup (map fst (h_recs s)) /\ (forall r, In r (h_recs s) -> In (fst r) (h_table s)).

Lemma hstep_recs_inv s o : recs_inv s -> recs_inv (fst (hstep s o)).
Proof.
  intros (Hn & Hr & Hin). destruct (hstep s o) as [s' [u|]] eqn:E; cbn [fst].
  - pose proof (hstep_fresh _ _ _ _ E) as [Hf Ht].
    assert (Hs : h_recs s' = h_recs s \/ exists n, h_recs s' = h_recs s ++ [(u, n)]).
    { destruct o as [day n c | v n c]; cbn [hstep] in E.
      - destruct (alloc day (h_table s)) as [[w t']|]; [|discriminate]. injection E as <- <-.
        unfold finish. cbn [h_recs]. destruct c; [right; eexists; reflexivity | left; reflexivity].
      - destruct (insert v (h_table s)) as [t'|]; [|discriminate]. injection E as <- <-.
        unfold finish. cbn [h_recs]. destruct c; [right; eexists; reflexivity | left; reflexivity]. }
    split; [rewrite Ht; apply NoDup_app_snoc; assumption|].
    destruct Hs as [-> | [n ->]].
    + split; [exact Hr|]. intros r Hrr. rewrite Ht. apply in_or_app. left. apply Hin. exact Hrr.
    + split.
      * rewrite map_app. cbn [map fst]. apply NoDup_app_snoc; [exact Hr|].
        intros Hu. apply in_map_iff in Hu as [r [Hfr Hrr]]. apply Hf. rewrite <- Hfr. apply Hin. exact Hrr.
      * intros r Hrr. rewrite Ht. apply in_app_or in Hrr as [Hrr | [<- | []]].
        -- apply in_or_app. left. apply Hin. exact Hrr.
        -- apply in_or_app. right. left. reflexivity.
  - apply hstep_none in E. subst. repeat split; assumption.
Qed.

Lemma hfinal_recs_inv ops : forall s, recs_inv s -> recs_inv (hfinal s ops).
Proof.
  induction ops as [|o ops IH]; intros s H; cbn [hfinal fold_left]; [exact H|].
  apply IH. apply hstep_recs_inv. exact H.
Qed.

(** IDs handed out by NewUpload over a history are new: not in the table the
    history started from, and pairwise different *)
Theorem history_new_ids_fresh ops : forall s,
  NoDup (h_table s) ->
  NoDup (new_ids s ops) /\ (forall u, In u (new_ids s ops) -> ~ In u (h_table s)).
Proof.
  induction ops as [|o ops IH]; intros s Hn; cbn [new_ids]; [split; [constructor | intros u []]|].
  destruct (hstep s o) as [s' res] eqn:E.
  assert (Hn' : NoDup (h_table s')).
  { pose proof (hstep_nodup s o Hn) as H. rewrite E in H. exact H. }
  destruct (IH s' Hn') as [Hd Hf].
  assert (Hsub : forall v, In v (h_table s) -> In v (h_table s')).
  { pose proof (proj1 (hstep_grows s o)) as H. rewrite E in H. exact H. }
  destruct o as [day n c | v n c]; destruct res as [u|];
    try (split; [exact Hd | intros w Hw Hin; apply (Hf w Hw), Hsub, Hin]).
  pose proof (hstep_fresh _ _ _ _ E) as [Hfu Ht]. split.
  - constructor; [|exact Hd]. intros Hu. apply (Hf u Hu). rewrite Ht. apply in_or_app. right. left. reflexivity.
  - intros w [<- | Hw]; [exact Hfu | intros Hin; apply (Hf w Hw), Hsub, Hin].
Qed.

(** the listing after any further history still shows every committed upload with all its records *)
Theorem history_keeps_committed ops s r :
  In r (hlisting s) -> In r (hlisting (hfinal s ops)).
Proof.
  unfold hlisting. rewrite !filter_In. intros [Hr Hc]. split; [|exact Hc].
  apply (proj2 (hfinal_grows ops s)). exact Hr.
Qed.

(** and lists one entry per ID *)
Theorem history_listing_one_per_id ops :
  NoDup (map fst (h_recs (hfinal h0 ops))).
Proof.
  apply (hfinal_recs_inv ops h0). repeat split; cbn; try constructor. intros r [].
Qed.
