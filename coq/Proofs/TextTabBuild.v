(** Tables built through the API (Row / Col / Cell / Span / SetShrink) with
    spans >= 1 have, in every row, cells in column order that do not overlap. *)
From Perf Require Import Base.Bytes Model.Runes Model.TextTab Proofs.TextTabEmit Proofs.TextTabFormat.

(** insertion order is row-major with non-overlapping spans *)
Fixpoint traj (r0 c0 : nat) (cs : list cell) : Prop :=
  match cs with
  | [] => True
  | c :: rest => ((c_row c = r0 /\ c0 <= c_col c) \/ r0 < c_row c) /\ traj (c_row c) (c_col c + c_span c) rest
  end.
Fixpoint last_pos (r0 c0 : nat) (cs : list cell) : nat * nat :=
  match cs with
  | [] => (r0, c0)
  | c :: rest => last_pos (c_row c) (c_col c + c_span c) rest
  end.
Definition pos_le (p q : nat * nat) : Prop := fst p < fst q \/ (fst p = fst q /\ snd p <= snd q).

Lemma traj_snoc c : forall cs r0 c0,
  traj r0 c0 cs ->
  ((c_row c = fst (last_pos r0 c0 cs) /\ snd (last_pos r0 c0 cs) <= c_col c) \/ fst (last_pos r0 c0 cs) < c_row c) ->
  traj r0 c0 (cs ++ [c]) /\ last_pos r0 c0 (cs ++ [c]) = (c_row c, c_col c + c_span c).
Proof.
  induction cs as [|a cs IH]; intros r0 c0 Ht Hc; cbn [app traj last_pos] in *.
  - auto.
  - destruct Ht as [H1 H2]. destruct (IH _ _ H2 Hc) as [I1 I2]. auto.
Qed.

Definition inv (t : tab) : Prop :=
  traj 0 0 (t_cells t) /\ pos_le (last_pos 0 0 (t_cells t)) (t_row t, t_cur t) /\ (t_cells t = [] -> t_row t = 0).

Lemma inv_step t o t' : inv t -> apply_op t o = Some t' -> inv t'.
Proof.
  intros [H1 [H2 H3]] E. destruct o as [|c|n v m a|c b]; cbn [apply_op] in E.
  - inversion E; subst; clear E. unfold inv. cbn [t_cells t_row t_cur]. repeat split; [exact H1| |].
    + destruct (t_cells t) as [|x xs] eqn:Ec; cbn [is_nilb].
      * specialize (H3 eq_refl). cbn [last_pos]. right. cbn. lia.
      * unfold pos_le in *. cbn [fst snd] in *. lia.
    + intros Hn. rewrite Hn. cbn [is_nilb]. apply H3. exact Hn.
  - destruct (c <? t_cur t) eqn:Ec; [discriminate|]. apply Nat.ltb_ge in Ec.
    inversion E; subst; clear E. unfold inv. cbn [t_cells t_row t_cur]. repeat split; [exact H1| |exact H3].
    unfold pos_le in *. cbn [fst snd] in *. lia.
  - inversion E; subst; clear E. unfold inv. cbn [t_cells t_row t_cur].
    set (c := mkCell (t_row t) (t_cur t) n v _ a).
    destruct (traj_snoc c (t_cells t) 0 0 H1) as [T1 T2].
    { unfold pos_le in H2. cbn [fst snd] in H2. subst c. cbn [c_row c_col]. lia. }
    repeat split; [exact T1| |].
    + rewrite T2. subst c. cbn [c_row c_col c_span]. right. cbn. lia.
    + intros Hn. apply app_eq_nil in Hn as [_ Hn]. discriminate.
  - inversion E; subst; clear E. unfold inv. cbn [t_cells t_row t_cur]. auto.
Qed.

Lemma inv_build ops : forall t t', inv t -> build_from t ops = Some t' -> inv t'.
Proof.
  induction ops as [|o r IH]; intros t t' Hi E; cbn [build_from] in E.
  - inversion E; subst. exact Hi.
  - destruct (apply_op t o) as [t1|] eqn:E1; [|discriminate].
    eapply IH; [eapply inv_step; eassumption|exact E].
Qed.

Lemma traj_rows_ge : forall cs r0 c0, traj r0 c0 cs -> forall c, In c cs -> r0 <= c_row c.
Proof.
  induction cs as [|a cs IH]; intros r0 c0 Ht c []; cbn [traj] in Ht; destruct Ht as [H1 H2].
  - subst. lia.
  - specialize (IH _ _ H2 c H). lia.
Qed.

Lemma filter_none {A} (p : A -> bool) l : (forall x, In x l -> p x = false) -> filter p l = [].
Proof.
  induction l as [|x l IH]; intros H; cbn [filter]; [reflexivity|].
  rewrite H by (left; reflexivity). apply IH. intros y Hy. apply H. right. exact Hy.
Qed.

Lemma traj_row r : forall cs r0 c0, traj r0 c0 cs ->
  disjoint_from (if r0 =? r then c0 else 0) (filter (fun c => c_row c =? r) cs).
Proof.
  induction cs as [|a cs IH]; intros r0 c0 Ht; cbn [filter]; [exact I|].
  cbn [traj] in Ht. destruct Ht as [H1 H2].
  destruct (Nat.eqb_spec (c_row a) r) as [Ea|Ea].
  - cbn [disjoint_from]. split.
    + destruct (Nat.eqb_spec r0 r); lia.
    + specialize (IH _ _ H2). rewrite Ea, Nat.eqb_refl in IH. exact IH.
  - destruct (Nat.eqb_spec r0 r) as [E0|E0].
    + rewrite filter_none; [exact I|]. intros x Hx.
      pose proof (traj_rows_ge _ _ _ H2 x Hx). apply Nat.eqb_neq. lia.
    + specialize (IH _ _ H2). destruct (Nat.eqb_spec (c_row a) r); [congruence|exact IH].
Qed.

Lemma disjoint_weaken : forall cs lo lo', lo' <= lo -> disjoint_from lo cs -> disjoint_from lo' cs.
Proof. destruct cs as [|c r]; cbn [disjoint_from]; [auto|]. intros lo lo' H [H1 H2]. split; [lia|exact H2]. Qed.

Lemma disjoint_filter p : forall cs lo, disjoint_from lo cs -> disjoint_from lo (filter p cs).
Proof.
  induction cs as [|c r IH]; intros lo H; cbn [filter]; [exact I|].
  cbn [disjoint_from] in H. destruct H as [H1 H2]. destruct (p c).
  - cbn [disjoint_from]. split; [exact H1|apply IH; exact H2].
  - apply IH. eapply disjoint_weaken; [|exact H2]. lia.
Qed.

Lemma filter_and {A} (p q : A -> bool) l : filter (fun x => p x && q x) l = filter p (filter q l).
Proof.
  induction l as [|x l IH]; cbn [filter]; [reflexivity|].
  destruct (q x); cbn [filter]; rewrite ?andb_true_r, ?andb_false_r; [destruct (p x)|]; rewrite IH; reflexivity.
Qed.

Lemma sort_col_sorted : forall cs lo, disjoint_from lo cs -> (forall c, In c cs -> 1 <= c_span c) -> sort_col cs = cs.
Proof.
  unfold sort_col. induction cs as [|c r IH]; intros lo Hd Hs; cbn [fold_right]; [reflexivity|].
  cbn [disjoint_from] in Hd. destruct Hd as [H1 H2].
  rewrite (IH _ H2) by (intros x Hx; apply Hs; right; exact Hx).
  destruct r as [|d r']; cbn [ins_col]; [reflexivity|].
  cbn [disjoint_from] in H2. destruct H2 as [H3 _].
  pose proof (Hs c (or_introl eq_refl)).
  replace (c_col c <? c_col d) with true by (symmetry; apply Nat.ltb_lt; lia). reflexivity.
Qed.

Theorem build_rows_disjoint ops t :
  build ops = Some t -> spans_pos (t_cells t) -> rows_disjoint (t_cells t).
Proof.
  intros Hb Hsp r. unfold row_cells.
  assert (Hi : inv t).
  { eapply inv_build; [|exact Hb]. unfold inv, tab0. cbn. repeat split; auto. right. cbn. lia. }
  destruct Hi as [Ht _].
  pose proof (traj_row r _ _ _ Ht) as Hd.
  assert (Hd0 : disjoint_from 0 (filter (fun c => c_row c =? r) (t_cells t))).
  { eapply disjoint_weaken; [|exact Hd]. lia. }
  rewrite filter_and.
  pose proof (disjoint_filter printed _ _ Hd0) as Hd1.
  rewrite (sort_col_sorted _ 0 Hd1); [exact Hd1|].
  intros c Hc. apply filter_In in Hc as [Hc _]. apply filter_In in Hc as [Hc _]. apply Hsp. exact Hc.
Qed.

Definition ops_spans_pos (ops : list op) : Prop := forall n v m a, In (OSpan n v m a) ops -> 1 <= n.

Lemma build_spans_pos ops : forall t t',
  build_from t ops = Some t' -> spans_pos (t_cells t) -> ops_spans_pos ops -> spans_pos (t_cells t').
Proof.
  induction ops as [|o r IH]; intros t t' E Hs Ho; cbn [build_from] in E.
  - inversion E; subst. exact Hs.
  - destruct (apply_op t o) as [t1|] eqn:E1; [|discriminate].
    apply (IH t1 t' E); [|intros n v m a H; eapply Ho; right; exact H].
    destruct o as [|c|n v m a|c b]; cbn [apply_op] in E1.
    + inversion E1; subst. exact Hs.
    + destruct (c <? t_cur t); [discriminate|]. inversion E1; subst. exact Hs.
    + inversion E1; subst. cbn [t_cells]. intros c Hc. apply in_app_or in Hc as [Hc|[<-|[]]].
      * apply Hs. exact Hc.
      * cbn [c_span]. eapply Ho. left. reflexivity.
    + inversion E1; subst. exact Hs.
Qed.

Theorem build_wf ops t :
  build ops = Some t -> ops_spans_pos ops -> spans_pos (t_cells t) /\ rows_disjoint (t_cells t).
Proof.
  intros Hb Ho. assert (Hs : spans_pos (t_cells t)).
  { eapply build_spans_pos; [exact Hb| |exact Ho]. intros c []. }
  split; [exact Hs|]. eapply build_rows_disjoint; eassumption.
Qed.
