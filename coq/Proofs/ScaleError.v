(** C10, half-unit error: the printed mantissa differs from the exact quotient
    value / factor by at most half a unit of the last printed digit plus the
    rounding of the binary64 quotient the code computes before printing. *)
From Coq Require Import ZArith Reals Lia Lra Bool.
From Flocq Require Import Core BinarySingleNaN Relative.
From Perf Require Import Base.Bytes Base.B64 Base.FmtFixed Proofs.FmtFixed Proofs.B64Flocq.
Local Open Scope R_scope.

Lemma IZR_pow2 k : (0 <= k)%Z -> IZR (2 ^ k) = bpow radix2 k.
Proof. intros Hk. change 2%Z with (radix_val radix2). now apply IZR_Zpower. Qed.

(** the printed mantissa against the binary value printed, over the reals *)
Lemma fx_mag_R m e p :
  Rabs (IZR (fx_mag m e p) / IZR (10 ^ Z.of_nat p) - IZR (Zpos m) * bpow radix2 e)
  <= / 2 * / IZR (10 ^ Z.of_nat p).
Proof.
  pose proof (fx_value_bound m e p) as H.
  set (N := fx_mag m e p) in *. set (P := (10 ^ Z.of_nat p)%Z) in *.
  assert (HP : 0 < IZR P) by (apply IZR_lt, pow10_pos).
  assert (Hen : (0 <= eneg e)%Z) by (unfold eneg; lia).
  assert (Hep : (0 <= epos e)%Z) by (unfold epos; lia).
  fold (eneg e) in H. fold (epos e) in H.
  assert (HD : 0 < bpow radix2 (eneg e)) by apply bpow_gt_0.
  apply IZR_le in H. rewrite mult_IZR, abs_IZR, minus_IZR, !mult_IZR, !IZR_pow2 in H by assumption.
  fold P in H.
  assert (Eb : bpow radix2 e = bpow radix2 (epos e) / bpow radix2 (eneg e)).
  { unfold Rdiv. rewrite <- bpow_opp, <- bpow_plus. f_equal. unfold epos, eneg. lia. }
  rewrite Eb.
  replace (IZR N / IZR P - IZR (Zpos m) * (bpow radix2 (epos e) / bpow radix2 (eneg e)))
    with ((IZR N * bpow radix2 (eneg e) - IZR (Zpos m) * bpow radix2 (epos e) * IZR P)
          * (/ bpow radix2 (eneg e) * / IZR P)) by (field; lra).
  rewrite Rabs_mult. rewrite (Rabs_pos_eq (/ _ * / _)).
  2:{ apply Rmult_le_pos; apply Rlt_le, Rinv_0_lt_compat; assumption. }
  apply Rmult_le_reg_r with (bpow radix2 (eneg e) * IZR P); [apply Rmult_lt_0_compat; assumption|].
  replace (Rabs (IZR N * bpow radix2 (eneg e) - IZR (Zpos m) * bpow radix2 (epos e) * IZR P)
           * (/ bpow radix2 (eneg e) * / IZR P) * (bpow radix2 (eneg e) * IZR P))
    with (Rabs (IZR N * bpow radix2 (eneg e) - IZR (Zpos m) * bpow radix2 (epos e) * IZR P)) by (field; lra).
  replace (/ 2 * / IZR P * (bpow radix2 (eneg e) * IZR P)) with (bpow radix2 (eneg e) / 2) by (field; lra).
  lra.
Qed.

Notation rnd := (round radix2 (SpecFloat.fexp 53 1024) ZnearestE).

(** error of one correctly rounded binary64 operation: relative 2^-53, or
    absolute 2^-1075 in the subnormal range *)
Lemma rnd_error x : Rabs (rnd x - x) <= bpow radix2 (-53) * Rabs x + bpow radix2 (-1075).
Proof.
  destruct (error_N_FLT radix2 (-1074) 53 ltac:(lia) (fun t => negb (Z.even t)) x)
    as (eps & eta & Heps & Heta & _ & E).
  change (FLT_exp (-1074) 53) with (SpecFloat.fexp 53 1024) in E.
  change (Znearest (fun t => negb (Z.even t))) with ZnearestE in E.
  rewrite E. replace (x * (1 + eps) + eta - x) with (x * eps + eta) by ring.
  eapply Rle_trans; [apply Rabs_triang|].
  rewrite Rabs_mult.
  change (/ 2 * bpow radix2 (- (53) + 1)) with (/ 2 * bpow radix2 (-52)) in Heps.
  change (/ 2 * bpow radix2 (-1074)) with (/ 2 * bpow radix2 (-1074)) in Heta.
  assert (B1 : / 2 * bpow radix2 (-52) = bpow radix2 (-53)).
  { change (/ 2) with (bpow radix2 (-1)). rewrite <- bpow_plus. reflexivity. }
  assert (B2 : / 2 * bpow radix2 (-1074) = bpow radix2 (-1075)).
  { change (/ 2) with (bpow radix2 (-1)). rewrite <- bpow_plus. reflexivity. }
  rewrite B1 in Heps. rewrite B2 in Heta.
  pose proof (Rabs_pos x).
  apply Rplus_le_compat; [|exact Heta].
  rewrite Rmult_comm. apply Rmult_le_compat_r; assumption.
Qed.

(** ** half-unit error of Scaler.Format, with the rounding of the quotient explicit:
      | N / 10^p - |v| / f |  <=  1/2 * 10^-p  +  2^-53 * |v| / f  +  2^-1075
    where N is the integer whose digits are printed (mantissa * 10^p).  When the
    binary64 quotient v / f is exact the last two terms vanish
    ([fx_value_bound]). *)
Theorem half_unit_error (v f : b64) (p : nat) s n :
  valid v = true -> valid f = true -> sf_finite v = true -> is_pos_finite f = true ->
  fx_of (b64_div v f) p = FxFin s n ->
  Rabs (IZR n / IZR (10 ^ Z.of_nat p) - Rabs (SF2R radix2 v) / SF2R radix2 f)
  <= / 2 * / IZR (10 ^ Z.of_nat p)
     + bpow radix2 (-53) * (Rabs (SF2R radix2 v) / SF2R radix2 f) + bpow radix2 (-1075).
Proof.
  intros Vv Vf Fv Pf Hfx.
  assert (Fq : sf_finite (b64_div v f) = true).
  { destruct (b64_div v f); cbn in Hfx; try discriminate; reflexivity. }
  revert Hfx Fq.
  rewrite <- (B2SF_SF2B 53 1024 v Vv), <- (B2SF_SF2B 53 1024 f Vf) in *.
  set (V := @SF2B 53 1024 v Vv) in *. set (F := @SF2B 53 1024 f Vf) in *.
  rewrite b64_div_Bdiv, !SF2R_B2SF. rewrite sf_finite_B2SF in Fv |- *.
  intros Hfx Fq.
  pose proof (pos_finite_R F Pf) as PF.
  destruct (Bdiv_cases V F Fv PF) as [(_ & Eq & _)|(Nq & _)]; [|congruence].
  set (Q := Bdiv mode_NE V F) in *.
  set (P := IZR (10 ^ Z.of_nat p)).
  assert (HP : 0 < P) by (apply IZR_lt, pow10_pos).
  (* first part: printed vs |q| *)
  assert (A : Rabs (IZR n / P - Rabs (B2R Q)) <= / 2 * / P).
  { destruct Q as [sq|sq| |sq mq eq Bq]; cbn [B2SF fx_of] in Hfx; try discriminate.
    - injection Hfx as _ <-. cbn [B2R]. rewrite Rabs_R0. unfold Rdiv. rewrite Rmult_0_l, Rminus_0_r, Rabs_R0.
      apply Rmult_le_pos; [lra|apply Rlt_le, Rinv_0_lt_compat, HP].
    - injection Hfx as _ <-. cbn [B2R].
      rewrite <- F2R_Zabs, abs_cond_Zopp. unfold F2R. cbn [Fnum Fexp Z.abs].
      apply fx_mag_R. }
  (* second part: |q| vs |v| / f *)
  assert (B : Rabs (Rabs (B2R Q) - Rabs (B2R V) / B2R F)
              <= bpow radix2 (-53) * (Rabs (B2R V) / B2R F) + bpow radix2 (-1075)).
  { rewrite Eq.
    replace (Rabs (B2R V) / B2R F) with (Rabs (B2R V / B2R F)).
    2:{ unfold Rdiv. rewrite Rabs_mult, (Rabs_pos_eq (/ B2R F)); [reflexivity|].
        apply Rlt_le, Rinv_0_lt_compat, PF. }
    eapply Rle_trans; [apply Rabs_triang_inv2|]. apply rnd_error. }
  replace (IZR n / P - Rabs (B2R V) / B2R F)
    with ((IZR n / P - Rabs (B2R Q)) + (Rabs (B2R Q) - Rabs (B2R V) / B2R F)) by ring.
  eapply Rle_trans; [apply Rabs_triang|]. lra.
Qed.
