(** Proofs about Model/Legacy.v, part 2: Go's stable insertion sort returns
    the stable sorted arrangement, for every Order of the library. *)
From Coq Require Import ZArith List Bool Lia Sorting.Permutation Sorting.Sorted.
From Perf Require Import Base.Bytes Base.B64 Model.StatsF Model.Legacy.
Import ListNotations.

(** * strongly sorted lists: append and reverse *)
Lemma SS_app {A} (R : A -> A -> Prop) l1 l2 :
  StronglySorted R (l1 ++ l2) <->
  StronglySorted R l1 /\ StronglySorted R l2 /\ (forall a b, In a l1 -> In b l2 -> R a b).
Proof.
  induction l1 as [|x l1 IH]; cbn.
  - split; [intros H; repeat split; auto; [constructor | tauto] | tauto].
  - split.
    + intros H. inversion H as [|? ? Hs Hf]; subst. apply IH in Hs as [H1 [H2 H3]].
      rewrite Forall_app in Hf. destruct Hf as [Hf1 Hf2]. rewrite Forall_forall in Hf2.
      repeat split; auto.
      * constructor; auto.
      * intros a b [<-|Ha] Hb; auto.
    + intros [H1 [H2 H3]]. inversion H1 as [|? ? Hs Hf]; subst. constructor.
      * apply IH. repeat split; auto.
      * rewrite Forall_app. split; auto. rewrite Forall_forall. intros b Hb. apply H3; auto.
Qed.

Lemma SS_rev {A} (R : A -> A -> Prop) l :
  StronglySorted R l -> StronglySorted (fun a b => R b a) (rev l).
Proof.
  induction 1 as [|x l Hs IH Hf]; cbn; [constructor|].
  apply SS_app. repeat split; auto.
  - repeat constructor.
  - intros a b Ha [<-|[]]. apply in_rev in Ha. rewrite Forall_forall in Hf. auto.
Qed.

Lemma filter_none {A} (f : A -> bool) l : (forall x, In x l -> f x = false) -> filter f l = [].
Proof.
  induction l as [|x l IH]; cbn; intros H; auto. rewrite (H x) by auto. apply IH. auto.
Qed.

Section SortProof.
  Context {A : Type} (less : A -> A -> bool) (D : A -> Prop).
  (** [less] is a strict weak order on the elements satisfying [D] *)
  Hypothesis less_asym : forall a b, D a -> D b -> less a b = true -> less b a = false.
  Hypothesis less_ntrans : forall a b c, D a -> D b -> D c ->
    less a b = false -> less b c = false -> less a c = false.

  Definition equiv (a b : A) : bool := negb (less a b) && negb (less b a).
  (** later-first order of the reversed prefix *)
  Let R (a b : A) : Prop := less a b = false.

  Lemma sink_spec x rp :
    D x -> Forall D rp -> StronglySorted R rp ->
    exists hi lo, rp = hi ++ lo /\ sink less x rp = hi ++ x :: lo
      /\ Forall (fun y => less x y = true) hi /\ Forall (fun y => less x y = false) lo.
  Proof.
    intros Dx. induction rp as [|y rp IH]; intros HD Hs; cbn.
    - exists [], []. repeat split; constructor.
    - inversion HD as [|? ? Dy HD']; subst. inversion Hs as [|? ? Hs' Hf]; subst.
      destruct (less x y) eqn:E.
      + destruct (IH HD' Hs') as [hi [lo [-> [E2 [H1 H2]]]]].
        exists (y :: hi), lo. cbn. rewrite E2. repeat split; auto.
      + exists [], (y :: rp). repeat split; auto. constructor; auto.
        rewrite Forall_forall in *. intros z Hz. eapply (less_ntrans x y z); auto.
        apply Hf; auto.
  Qed.

  Lemma sink_step x rp p :
    D x -> Forall D rp -> StronglySorted R rp -> Permutation p rp ->
    (forall a, D a -> filter (equiv a) (rev rp) = filter (equiv a) p) ->
    Forall D (sink less x rp) /\ StronglySorted R (sink less x rp)
    /\ Permutation (p ++ [x]) (sink less x rp)
    /\ (forall a, D a -> filter (equiv a) (rev (sink less x rp)) = filter (equiv a) (p ++ [x])).
  Proof.
    intros Dx HD Hs Hp Hst.
    destruct (sink_spec x rp Dx HD Hs) as [hi [lo [-> [-> [Hhi Hlo]]]]].
    apply SS_app in Hs as [Shi [Slo Hx]]. rewrite Forall_app in HD. destruct HD as [Dhi Dlo].
    rewrite Forall_forall in Hhi, Hlo, Dhi, Dlo.
    split; [|split; [|split]].
    - rewrite Forall_app. split; rewrite Forall_forall; auto. intros z [<-|Hz]; auto.
    - apply SS_app. repeat split; auto.
      + constructor; auto. rewrite Forall_forall. intros z Hz. apply Hlo; auto.
      + intros a b Ha [<-|Hb].
        * apply less_asym; auto.
        * apply Hx; auto.
    - etransitivity; [apply Permutation_app_comm|]. cbn.
      etransitivity; [|apply Permutation_middle]. now constructor.
    - intros a Da. rewrite filter_app, <- Hst by auto.
      rewrite !rev_app_distr. cbn [rev]. rewrite !filter_app, <- !app_assoc. f_equal.
      cbn [filter app].
      destruct (equiv a x) eqn:E; [|now rewrite app_nil_r].
      assert (Hn : filter (equiv a) (rev hi) = []).
      { apply filter_none. intros y Hy. apply in_rev in Hy.
        destruct (equiv a y) eqn:E2; auto. exfalso.
        unfold equiv in E, E2. rewrite andb_true_iff, !negb_true_iff in E, E2.
        destruct E as [E1 E3], E2 as [E4 E5].
        assert (less x y = false) by (apply (less_ntrans x a y); auto).
        rewrite Hhi in H by auto. discriminate. }
      rewrite Hn. reflexivity.
  Qed.

  Lemma sort_invariant l : forall rp p,
    Forall D l -> Forall D rp -> StronglySorted R rp -> Permutation p rp ->
    (forall a, D a -> filter (equiv a) (rev rp) = filter (equiv a) p) ->
    let rp' := fold_left (fun rp x => sink less x rp) l rp in
    StronglySorted R rp' /\ Permutation (p ++ l) rp'
    /\ (forall a, D a -> filter (equiv a) (rev rp') = filter (equiv a) (p ++ l)).
  Proof.
    induction l as [|x l IH]; intros rp p Dl Drp Hs Hp Hst; cbn.
    - rewrite app_nil_r. auto.
    - inversion Dl as [|? ? Dx Dl']; subst.
      destruct (sink_step x rp p Dx Drp Hs Hp Hst) as [H1 [H2 [H3 H4]]].
      specialize (IH _ _ Dl' H1 H2 H3 H4). cbn in IH.
      replace (p ++ x :: l) with ((p ++ [x]) ++ l) by (rewrite <- app_assoc; reflexivity).
      exact IH.
  Qed.

  (** the result of sort.SliceStable: a permutation, sorted, and stable
      (rows that compare equal keep their input order) *)
  Definition stable_sorted (l out : list A) : Prop :=
    Permutation l out
    /\ StronglySorted (fun a b => less b a = false) out
    /\ (forall a, D a -> filter (equiv a) out = filter (equiv a) l).

  Theorem go_stable_sort_correct l : Forall D l -> stable_sorted l (go_stable_sort less l).
  Proof.
    intros Dl. unfold go_stable_sort.
    assert (Hinv := sort_invariant l [] [] Dl (Forall_nil D) (SSorted_nil R) (Permutation_refl [])
                                   (fun a _ => eq_refl)).
    destruct Hinv as [H1 [H2 H3]].
    cbn [app] in *. unfold stable_sorted. split; [|split].
    - eapply Permutation_trans; [exact H2 | apply Permutation_rev].
    - apply SS_rev in H1. exact H1.
    - exact H3.
  Qed.
End SortProof.

(** * the library's orders are strict weak orders *)
Lemma bltb_asym a b : bltb a b = true -> bltb b a = false.
Proof.
  unfold bltb. rewrite (bcmp_antisym a b). destruct (bcmp a b); cbn; congruence.
Qed.

Lemma bltb_ntrans a b c : bltb a b = false -> bltb b c = false -> bltb a c = false.
Proof.
  unfold bltb. intros H1 H2. destruct (bcmp a c) eqn:Eac; auto. exfalso.
  destruct (bcmp a b) eqn:Eab; try discriminate.
  - apply bcmp_eq in Eab. subst b. rewrite Eac in H2. discriminate.
  - assert (Eba : bcmp b a = Lt) by (rewrite (bcmp_antisym a b), Eab; reflexivity).
    rewrite (bcmp_trans_lt _ _ _ Eba Eac) in H2. discriminate.
Qed.

(** binary64 [<] away from NaN *)
Definition not_nan (x : b64) : Prop := b64_is_nan x = false.

Ltac cmp_cases :=
  repeat match goal with
  | H : context [Z.compare ?a ?b] |- _ => destruct (Z.compare_spec a b)
  | |- context [Z.compare ?a ?b] => destruct (Z.compare_spec a b)
  | H : context [Pos.compare ?a ?b] |- _ => destruct (Pos.compare_spec a b)
  | |- context [Pos.compare ?a ?b] => destruct (Pos.compare_spec a b)
  end.

Lemma b64_lt_asym x y : b64_lt x y = true -> b64_lt y x = false.
Proof.
  unfold b64_lt, SFltb, SFcompare.
  destruct x as [sx|sx| |sx mx ex], y as [sy|sy| |sy my ey]; try destruct sx; try destruct sy;
    cbn; try congruence;
    change (Pos.compare_cont Eq) with Pos.compare; intros H; cmp_cases; cbn in *;
    try congruence; try lia.
Qed.

Lemma b64_lt_ntrans x y z :
  not_nan x -> not_nan y -> not_nan z ->
  b64_lt x y = false -> b64_lt y z = false -> b64_lt x z = false.
Proof.
  unfold not_nan, b64_lt, SFltb, SFcompare.
  destruct x as [sx|sx| |sx mx ex], y as [sy|sy| |sy my ey], z as [sz|sz| |sz mz ez];
    try destruct sx; try destruct sy; try destruct sz;
    cbn; try congruence;
    change (Pos.compare_cont Eq) with Pos.compare; intros _ _ _ H1 H2; cmp_cases; cbn in *;
    try congruence; try lia.
Qed.

Lemma rev_less_swap n (less : row -> row -> bool) a b :
  rev_less (S n) less a b = rev_less n less b a.
Proof. reflexivity. Qed.

Section Orders.
  Variable D : row -> Prop.
  Lemma rev_less_asym n less :
    (forall a b, D a -> D b -> less a b = true -> less b a = false) ->
    forall a b, D a -> D b -> rev_less n less a b = true -> rev_less n less b a = false.
  Proof.
    intros H. induction n as [|n IH]; cbn; auto.
  Qed.
  Lemma rev_less_ntrans n less :
    (forall a b c, D a -> D b -> D c -> less a b = false -> less b c = false -> less a c = false) ->
    forall a b c, D a -> D b -> D c ->
      rev_less n less a b = false -> rev_less n less b c = false -> rev_less n less a c = false.
  Proof.
    intros H. induction n as [|n IH]; cbn; auto.
    intros a b c Da Db Dc H1 H2. apply (IH c b a); auto.
  Qed.
End Orders.

(** rows whose ByDelta key is a number; ByName needs nothing *)
Definition order_domain (o : base_order * nat) (r : row) : Prop :=
  match fst o with ByName => True | ByDelta => not_nan (delta_key r) end.

Theorem sort_stable_all_orders o rows :
  Forall (order_domain o) rows ->
  stable_sorted (order_less o) (order_domain o) rows (go_stable_sort (order_less o) rows).
Proof.
  intros HD. apply go_stable_sort_correct; auto.
  - unfold order_less. apply rev_less_asym.
    destruct o as [[|] n]; unfold order_domain; cbn; intros a b _ _.
    + apply bltb_asym.
    + apply b64_lt_asym.
  - unfold order_less. apply rev_less_ntrans.
    destruct o as [[|] n]; unfold order_domain; cbn; intros a b c Da Db Dc.
    + apply bltb_ntrans.
    + apply b64_lt_ntrans; auto.
Qed.

(** * Bounds: Min and Max are the extremes of the retained values *)
Lemma b64_lt_irrefl x : b64_lt x x = false.
Proof. destruct (b64_lt x x) eqn:E; auto. now rewrite (b64_lt_asym _ _ E) in E. Qed.

Definition bounds_inv (p : list b64) (st : b64 * b64) : Prop :=
  In (fst st) p /\ In (snd st) p
  /\ forall y, In y p -> b64_lt y (fst st) = false /\ b64_lt (snd st) y = false.

Lemma bounds_fold xs : forall p st,
  Forall not_nan p -> Forall not_nan xs -> bounds_inv p st ->
  bounds_inv (p ++ xs) (fold_left bounds_step xs st).
Proof.
  induction xs as [|x xs IH]; intros p [mn mx] Hp Hxs Hinv; cbn [fold_left].
  - now rewrite app_nil_r.
  - inversion Hxs as [|? ? Hx Hxs']; subst.
    replace (p ++ x :: xs) with ((p ++ [x]) ++ xs) by (rewrite <- app_assoc; reflexivity).
    apply IH; auto.
    { rewrite Forall_app. split; auto. }
    destruct Hinv as [H1 [H2 H3]]. cbn [fst snd] in *.
    rewrite Forall_forall in Hp.
    assert (Nmn : not_nan mn) by auto. assert (Nmx : not_nan mx) by auto.
    unfold bounds_step, bounds_inv. cbn [fst snd]. change (b64_gt x mx) with (b64_lt mx x).
    split; [|split].
    + destruct (b64_lt x mn); apply in_or_app; [right; now left | now left].
    + destruct (b64_lt mx x); apply in_or_app; [right; now left | now left].
    + intros y Hy. apply in_app_or in Hy. destruct Hy as [Hy|[<-|[]]].
      * destruct (H3 y Hy) as [Ha Hb]. assert (Ny : not_nan y) by auto. split.
        -- destruct (b64_lt x mn) eqn:E; auto.
           apply (b64_lt_ntrans y mn x); auto. now apply b64_lt_asym.
        -- destruct (b64_lt mx x) eqn:E; auto.
           apply (b64_lt_ntrans x mx y); auto. now apply b64_lt_asym.
      * split.
        -- destruct (b64_lt x mn) eqn:E; auto. apply b64_lt_irrefl.
        -- destruct (b64_lt mx x) eqn:E; auto. apply b64_lt_irrefl.
Qed.

(** for a non-empty sample without NaN: Min and Max are members, nothing is
    below Min or above Max, and Min <= Max *)
Theorem bounds_are_extremes xs :
  xs <> [] -> Forall not_nan xs ->
  let '(mn, mx) := bounds_f xs in
  In mn xs /\ In mx xs
  /\ (forall y, In y xs -> b64_lt y mn = false /\ b64_lt mx y = false)
  /\ b64_lt mx mn = false.
Proof.
  destruct xs as [|x0 xs]; [congruence|]. intros _ HN. unfold bounds_f. cbn [fold_left].
  assert (E0 : bounds_step (x0, x0) x0 = (x0, x0)).
  { unfold bounds_step. change (b64_gt x0 x0) with (b64_lt x0 x0). now rewrite b64_lt_irrefl. }
  rewrite E0. inversion HN as [|? ? Hx0 HN']; subst.
  assert (H0 : bounds_inv [x0] (x0, x0)).
  { repeat split; cbn; auto; destruct H as [<-|[]]; apply b64_lt_irrefl. }
  assert (H := bounds_fold xs [x0] _ (Forall_cons _ Hx0 (Forall_nil _)) HN' H0).
  cbn [app] in H. destruct (fold_left bounds_step xs (x0, x0)) as [mn mx].
  destruct H as [H1 [H2 H3]]. cbn [fst snd] in *.
  repeat split; auto; try apply H3; auto.
Qed.
