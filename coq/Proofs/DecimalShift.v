(** rightShift and leftShift of Model/Decimal.v are exact (integer level).

    For a well-formed decimal with digits D (nd of them, first one non-zero,
    nd <= 800) and 0 <= k <= 60:

    rightShift: the digits written (before trim) [out] and the digits that did not
      fit the 800-byte buffer [dr] are the decimal expansion of D / 2^k:
        (dv out * 10^|dr| + dv dr) * (10 * 2^k) = D * 10^s,
        dp' - |out| = (dp - nd) - s + 1 + |dr|,
      [trunc] becomes true exactly when a dropped digit is non-zero, digits are
      dropped only when the buffer is full (|out| = 800), the first digit written
      is non-zero, and no machine word overflows.
    leftShift: the cheat sheet predicts the number of new digits exactly (the write
      index ends at 0: no stale byte, no index out of range), and
        dv out * 10^|dr| + dv dr = D * 2^k,   dp' - |out| = (dp - nd) + |dr|,
      with the same rules for [dr] and [trunc]. *)
From Coq Require Import ZArith List Lia Bool.
From Perf Require Import Base.Bytes Base.DecSpec Model.Decimal Proofs.DecimalBase.
Import ListNotations.
Local Open Scope Z_scope.

Definition wf (a : decimal) : Prop :=
  digits_ok (dc_d a) /\ zlen (dc_d a) <= 800 /\ exists c r, dc_d a = c :: r /\ c <> 0.

Lemma dc_nd_zlen a : dc_nd a = zlen (dc_d a).
Proof. reflexivity. Qed.

Lemma ten_pow2_lt k : 0 <= k <= 60 -> 10 * 2 ^ k < 2 ^ 64.
Proof. intros H. pose proof (pow2_le_60 k H). change (2 ^ 64) with (16 * 2 ^ 60). lia. Qed.

Lemma div_pow2_zero n k : 0 <= k -> 0 <= n -> (Z.shiftr n k =? 0) = (n <? 2 ^ k).
Proof.
  intros Hk Hn. rewrite shiftr_div by assumption.
  assert (Hp : 0 < 2 ^ k) by (apply Z.pow_pos_nonneg; lia).
  destruct (Z.ltb_spec n (2 ^ k)) as [Hlt|Hge].
  - apply Z.eqb_eq. apply Z.div_small. lia.
  - apply Z.eqb_neq. intros E. apply Z.div_small_iff in E; lia.
Qed.

(** ** rightShift: the leading digits *)
Lemma rs_lead_spec k : 0 <= k <= 60 -> forall l n r, digits_ok l -> 0 <= n < 10 * 2 ^ k ->
  exists pre rest n', rs_lead k l n r = (rest, n', r + zlen pre) /\ l = pre ++ rest /\
    n' = n * 10 ^ zlen pre + dv pre /\ 0 <= n' < 10 * 2 ^ k /\
    (rest <> [] -> 2 ^ k <= n').
Proof.
  intros Hk. pose proof (ten_pow2_lt k Hk) as H64. pose proof (pow2_le_60 k Hk) as Hp.
  induction l as [|c l IH]; intros n r Hl Hn.
  - exists [], [], n. cbn [rs_lead]. rewrite zlen_nil, dv_nil, Z.pow_0_r, Z.add_0_r.
    repeat split; try lia. intros X; now contradiction X.
  - apply digits_ok_cons in Hl as [Hc Hl]. cbn [rs_lead].
    rewrite div_pow2_zero by lia.
    destruct (Z.ltb_spec n (2 ^ k)) as [Hlt|Hge].
    + rewrite w64_small by lia.
      destruct (IH (n * 10 + c) (r + 1) Hl ltac:(lia)) as (pre & rest & n' & E & El & En & Hb & Hr).
      exists (c :: pre), rest, n'. rewrite E, zlen_cons. split; [f_equal; lia|].
      split; [cbn [app]; now rewrite El|]. split; [|split; assumption].
      rewrite En, dv_cons, Z.pow_add_r, Z.pow_1_r by (pose proof (zlen_nonneg pre); lia). ring.
    + exists [], (c :: l), n. rewrite zlen_nil, dv_nil, Z.pow_0_r, Z.add_0_r.
      repeat split; try lia.
Qed.

Lemma rs_pad_spec k : 0 <= k <= 60 -> forall fuel n r, 1 <= n < 10 * 2 ^ k ->
  2 ^ k <= n * 10 ^ Z.of_nat fuel ->
  exists p, 0 <= p /\ rs_pad fuel k n r = Some (n * 10 ^ p, r + p) /\ 2 ^ k <= n * 10 ^ p < 10 * 2 ^ k.
Proof.
  intros Hk. pose proof (ten_pow2_lt k Hk) as H64. pose proof (pow2_le_60 k Hk) as Hp.
  induction fuel as [|f IH]; intros n r Hn Hf.
  - exists 0. change (Z.of_nat 0) with 0 in Hf. rewrite Z.pow_0_r, Z.mul_1_r in *.
    cbn [rs_pad]. rewrite div_pow2_zero by lia.
    destruct (Z.ltb_spec n (2 ^ k)); [lia|]. cbn [negb]. rewrite Z.add_0_r. repeat split; lia.
  - cbn [rs_pad]. rewrite div_pow2_zero by lia.
    destruct (Z.ltb_spec n (2 ^ k)) as [Hlt|Hge]; cbn [negb].
    + rewrite w64_small by lia.
      rewrite Nat2Z.inj_succ, Z.pow_succ_r in Hf by lia.
      destruct (IH (n * 10) (r + 1) ltac:(lia) ltac:(lia)) as (p & Hp0 & E & Hb).
      exists (p + 1). rewrite E. rewrite Z.pow_add_r, Z.pow_1_r by lia.
      split; [lia|]. split; [f_equal; f_equal; [ring|lia]|]. lia.
    + exists 0. rewrite Z.pow_0_r, Z.mul_1_r, Z.add_0_r. repeat split; lia.
Qed.

(** ** rightShift: pick up a digit, put down a digit *)
Lemma land_ones_mod n k : 0 <= k -> Z.land n (Z.ones k) = n mod 2 ^ k.
Proof. intros. now apply Z.land_ones. Qed.

Lemma rs_main_spec k : 0 <= k <= 60 -> forall l n out, digits_ok l -> 0 <= n < 10 * 2 ^ k ->
  exists q n', rs_main k (Z.ones k) l n out = (n', rev q ++ out) /\ zlen q = zlen l /\ digits_ok q /\
    n * 10 ^ zlen l + dv l = dv q * (10 * 2 ^ k) + n' /\ 0 <= n' < 10 * 2 ^ k /\
    (2 ^ k <= n -> forall d q', q = d :: q' -> d <> 0).
Proof.
  intros Hk. pose proof (ten_pow2_lt k Hk) as H64. pose proof (pow2_le_60 k Hk) as Hp.
  induction l as [|c l IH]; intros n out Hl Hn.
  - exists [], n. cbn [rs_main rev app]. rewrite zlen_nil, dv_nil, Z.pow_0_r.
    repeat split; try lia; try constructor. intros; discriminate.
  - apply digits_ok_cons in Hl as [Hc Hl]. cbn [rs_main].
    rewrite land_ones_mod, shiftr_div by lia.
    pose proof (Z.mod_pos_bound n (2 ^ k) ltac:(lia)) as Hm.
    pose proof (Z.div_mod n (2 ^ k) ltac:(lia)) as Hdm.
    assert (Hdig : 0 <= n / 2 ^ k <= 9).
    { split; [apply Z.div_pos; lia|]. apply Z.lt_succ_r. apply Z.div_lt_upper_bound; lia. }
    rewrite w64_small by lia.
    destruct (IH (n mod 2 ^ k * 10 + c) (n / 2 ^ k :: out) Hl ltac:(lia)) as (q & n' & E & Hlen & Hq & Hv & Hb & _).
    exists (n / 2 ^ k :: q), n'. rewrite E. split; [cbn [rev]; now rewrite <- app_assoc|].
    split; [rewrite !zlen_cons; lia|]. split; [apply digits_ok_cons; split; assumption|].
    split; [|split; [assumption|]].
    + rewrite zlen_cons, dv_cons, dv_cons, Hlen.
      rewrite Z.pow_add_r, Z.pow_1_r by (pose proof (zlen_nonneg l); lia).
      set (T := 10 ^ zlen l) in *. nia.
    + intros Hge d q' Eq. injection Eq as <- _.
      assert (1 <= n / 2 ^ k) by (apply Z.div_le_lower_bound; lia). lia.
Qed.

(** ** rightShift: put down extra digits *)
Lemma rs_extra_spec k : 0 <= k <= 60 -> forall fuel i n w out tr,
  0 <= i <= k -> (2 ^ i | n) -> (n <> 0 -> k - i + 1 <= Z.of_nat fuel) ->
  0 <= n < 10 * 2 ^ k -> 0 <= w <= 800 ->
  exists q dr, rs_extra fuel k (Z.ones k) n w out tr = Some (rev q ++ out, tr || (0 <? dv dr)) /\
    digits_ok q /\ digits_ok dr /\
    n * 10 ^ (zlen q + zlen dr) = dv (q ++ dr) * (10 * 2 ^ k) /\
    w + zlen q <= 800 /\ (dr <> [] -> w + zlen q = 800) /\
    (n <> 0 -> w < 800 -> q <> []) /\
    (2 ^ k <= n -> forall d q', q = d :: q' -> d <> 0).
Proof.
  intros Hk. pose proof (ten_pow2_lt k Hk) as H64. pose proof (pow2_le_60 k Hk) as Hp.
  assert (Hzero : forall fuel w out tr, 0 <= w <= 800 ->
    exists q dr, rs_extra fuel k (Z.ones k) 0 w out tr = Some (rev q ++ out, tr || (0 <? dv dr)) /\
    digits_ok q /\ digits_ok dr /\
    0 * 10 ^ (zlen q + zlen dr) = dv (q ++ dr) * (10 * 2 ^ k) /\
    w + zlen q <= 800 /\ (dr <> [] -> w + zlen q = 800) /\
    (0 <> 0 -> w < 800 -> q <> []) /\
    (2 ^ k <= 0 -> forall d q', q = d :: q' -> d <> 0)).
  { intros fuel w out tr Hw. exists [], []. cbn [rev app]. rewrite dv_nil, orb_false_r.
    destruct fuel; cbn;
      repeat split; try constructor; try lia; try congruence; try (intros; discriminate). }
  induction fuel as [|f IH]; intros i n w out tr Hi Hdiv Hf Hn Hw.
  - destruct (Z.eq_dec n 0) as [->|Hnz]; [now apply Hzero|]. specialize (Hf Hnz). lia.
  - destruct (Z.eq_dec n 0) as [->|Hnz]; [now apply Hzero|]. specialize (Hf Hnz).
    cbn [rs_extra]. destruct (Z.eqb_spec n 0) as [|_]; [contradiction|].
    + rewrite land_ones_mod, shiftr_div by lia.
      pose proof (Z.mod_pos_bound n (2 ^ k) ltac:(lia)) as Hm.
      pose proof (Z.div_mod n (2 ^ k) ltac:(lia)) as Hdm.
      assert (Hdig : 0 <= n / 2 ^ k <= 9).
      { split; [apply Z.div_pos; lia|]. apply Z.lt_succ_r. apply Z.div_lt_upper_bound; lia. }
      rewrite w64_small by lia.
      (* the next remainder is divisible by one more power of two, or is zero *)
      assert (Hnext : exists i', 0 <= i' <= k /\ (2 ^ i' | n mod 2 ^ k * 10) /\
                                 (n mod 2 ^ k * 10 <> 0 -> k - i' + 1 <= Z.of_nat f)).
      { destruct (Z.eq_dec i k) as [->|Hik].
        - exists k. apply Z.mod_divide in Hdiv; [|lia]. rewrite Hdiv. split; [lia|]. split; [apply Z.divide_0_r|lia].
        - exists (i + 1). split; [lia|]. split; [|lia].
          assert (Hd : (2 ^ i | n mod 2 ^ k)).
          { rewrite Z.mod_eq by lia. apply Z.divide_sub_r; [assumption|].
            apply Z.divide_mul_l. exists (2 ^ (k - i)). rewrite <- Z.pow_add_r by lia. f_equal. lia. }
          destruct Hd as [m Hmm]. rewrite Hmm. exists (m * 5).
          rewrite Z.pow_add_r, Z.pow_1_r by lia. ring. }
      destruct Hnext as (i' & Hi' & Hdiv' & Hf').
      destruct (Z.ltb_spec w max_digits) as [Hlt|Hge]; unfold max_digits in *.
      * destruct (IH i' (n mod 2 ^ k * 10) (w + 1) (n / 2 ^ k :: out) tr Hi' Hdiv' Hf' ltac:(lia) ltac:(lia))
          as (q & dr & E & Hq & Hdr & Hv & Hwq & Hfull & _ & _).
        exists (n / 2 ^ k :: q), dr. rewrite E. split; [cbn [rev]; now rewrite <- app_assoc|].
        split; [apply digits_ok_cons; split; assumption|]. split; [assumption|].
        rewrite zlen_cons. split; [|split; [lia|split; [intros X; specialize (Hfull X); lia|split; [intros; discriminate|]]]].
        -- cbn [app]. rewrite dv_cons, zlen_app.
           replace (zlen q + 1 + zlen dr) with ((zlen q + zlen dr) + 1) by lia.
           rewrite Z.pow_add_r, Z.pow_1_r by (pose proof (zlen_nonneg q); pose proof (zlen_nonneg dr); lia).
           set (T := 10 ^ (zlen q + zlen dr)) in *. nia.
        -- intros Hge d q' Eq. injection Eq as <- _.
           assert (1 <= n / 2 ^ k) by (apply Z.div_le_lower_bound; lia). lia.
      * assert (w = 800) by lia. subst w.
        destruct (IH i' (n mod 2 ^ k * 10) 800 out (tr || (0 <? n / 2 ^ k)) Hi' Hdiv' Hf' ltac:(lia) ltac:(lia))
          as (q & dr & E & Hq & Hdr & Hv & Hwq & Hfull & _ & _).
        assert (q = []) by (apply zlen_zero; pose proof (zlen_nonneg q); lia). subst q.
        exists [], (n / 2 ^ k :: dr). rewrite E. cbn [rev app] in *.
        rewrite zlen_nil in *. split.
        { f_equal. f_equal. rewrite <- orb_assoc. f_equal. rewrite dv_cons.
          pose proof (dv_bound dr Hdr). pose proof (pow10_gt0 (zlen dr) (zlen_nonneg dr)).
          destruct (Z.ltb_spec 0 (n / 2 ^ k)), (Z.ltb_spec 0 (dv dr)), (Z.ltb_spec 0 (n / 2 ^ k * 10 ^ zlen dr + dv dr));
            cbn; try reflexivity; nia. }
        split; [constructor|]. split; [apply digits_ok_cons; split; assumption|].
        rewrite zlen_cons, dv_cons. split; [|split; [lia|split; [intros; lia|split; [intros; lia|intros; discriminate]]]].
        replace (0 + (zlen dr + 1)) with ((0 + zlen dr) + 1) by lia.
        rewrite Z.pow_add_r, Z.pow_1_r by (pose proof (zlen_nonneg dr); lia).
        rewrite Z.add_0_l in *. set (T := 10 ^ zlen dr) in *. nia.
Qed.

(** ** rightShift *)
Lemma wf_pos a : wf a -> 0 < dv (dc_d a) /\ 0 < zlen (dc_d a).
Proof.
  intros (Hd & Hn & c & r & E & Hc). rewrite E in *. pose proof (dv_lower c r Hd Hc).
  pose proof (pow10_gt0 (zlen r) (zlen_nonneg r)). rewrite zlen_cons. pose proof (zlen_nonneg r). lia.
Qed.

Lemma pow2_le_pow10_64 k : 0 <= k <= 60 -> 2 ^ k <= 10 ^ 64.
Proof. intros H. pose proof (pow2_le_60 k H). assert (2 ^ 60 <= 10 ^ 64) by (vm_compute; discriminate). lia. Qed.

Theorem rightShift_int a k : wf a -> 0 <= k <= 60 ->
  exists out dp' tr' dr s,
    rightShift a k = Some (trim (mkDecimal out dp' (dc_neg a) tr')) /\
    digits_ok out /\ 0 < zlen out <= 800 /\ (exists c r, out = c :: r /\ c <> 0) /\
    digits_ok dr /\ 0 <= s /\
    (dv out * 10 ^ zlen dr + dv dr) * (10 * 2 ^ k) = dv (dc_d a) * 10 ^ s /\
    dp' - zlen out = (dc_dp a - zlen (dc_d a)) - s + 1 + zlen dr /\
    tr' = dc_trunc a || (0 <? dv dr) /\ (dr <> [] -> zlen out = 800).
Proof.
  intros Hwf Hk. pose proof (wf_pos a Hwf) as [HD Hnd]. destruct Hwf as (Hd & Hn & _).
  pose proof (ten_pow2_lt k Hk) as H64. pose proof (pow2_le_60 k Hk) as Hp.
  destruct (rs_lead_spec k Hk (dc_d a) 0 0 Hd ltac:(lia)) as (pre & rest & n1 & E & El & En & Hb & Hr).
  rewrite Z.mul_0_l, Z.add_0_l in En. subst n1.
  unfold rightShift. rewrite E. cbv beta iota zeta. rewrite mask_eq by assumption.
  assert (HDsplit : dv (dc_d a) = dv pre * 10 ^ zlen rest + dv rest) by (rewrite El at 1; apply dv_app).
  assert (Hlen : zlen (dc_d a) = zlen pre + zlen rest) by (rewrite El at 1; apply zlen_app).
  assert (Hdpre : digits_ok pre /\ digits_ok rest) by (apply digits_ok_app; now rewrite <- El).
  destruct Hdpre as [Hdp Hdr].
  destruct rest as [|c0 rest0].
  - (* all digits picked up *)
    rewrite zlen_nil, dv_nil, Z.pow_0_r in *. rewrite Z.mul_1_r, Z.add_0_r in HDsplit.
    rewrite <- HDsplit in *. clear Hr.
    assert (Hpad : exists p, 0 <= p /\
       (if (Z.shiftr (dv (dc_d a)) k =? 0) then rs_pad 64 k (dv (dc_d a)) (0 + zlen pre) else Some (dv (dc_d a), 0 + zlen pre))
        = Some (dv (dc_d a) * 10 ^ p, 0 + zlen pre + p) /\ 2 ^ k <= dv (dc_d a) * 10 ^ p < 10 * 2 ^ k).
    { rewrite div_pow2_zero by lia. destruct (Z.ltb_spec (dv (dc_d a)) (2 ^ k)) as [Hlt|Hge].
      - apply rs_pad_spec; [assumption|lia|]. change (Z.of_nat 64) with 64.
        pose proof (pow2_le_pow10_64 k Hk). nia.
      - exists 0. rewrite Z.pow_0_r, Z.mul_1_r, Z.add_0_r. repeat split; lia. }
    destruct Hpad as (p & Hp0 & Epad & Hpb).
    replace (Z.shiftr (dv (dc_d a)) k =? 0) with (Z.shiftr (dv (dc_d a)) k =? 0) by reflexivity.
    destruct (Z.eqb_spec (dv (dc_d a)) 0) as [E0|_]; [lia|]. rewrite andb_false_r.
    rewrite Epad. cbn [rs_main length]. change (Z.of_nat 0) with 0.
    destruct (rs_extra_spec k Hk 70 0 (dv (dc_d a) * 10 ^ p) 0 [] (dc_trunc a) ltac:(lia)
                ltac:(rewrite Z.pow_0_r; apply Z.divide_1_l) ltac:(intros; change (Z.of_nat 70) with 70; lia)
                ltac:(lia) ltac:(lia))
      as (q & dr & Eex & Hq & Hdrr & Hv & Hwq & Hfull & Hne & Hhd).
    rewrite Eex. rewrite app_nil_r, rev_involutive.
    exists q, (dc_dp a - (0 + zlen pre + p - 1)), (dc_trunc a || (0 <? dv dr)), dr, (p + zlen q + zlen dr).
    split; [reflexivity|]. split; [assumption|].
    assert (Hqne : q <> []) by (apply Hne; lia).
    assert (0 < zlen q) by (destruct q; [contradiction|rewrite zlen_cons; pose proof (zlen_nonneg q); lia]).
    split; [lia|]. split.
    { destruct q as [|d q']; [contradiction|]. exists d, q'. split; [reflexivity|]. apply (Hhd ltac:(lia) d q' eq_refl). }
    split; [assumption|]. pose proof (zlen_nonneg dr). split; [lia|]. split.
    { rewrite dv_app in Hv. rewrite <- Hv.
      rewrite !Z.pow_add_r by lia. ring. }
    split; [lia|]. split; [reflexivity|]. intros X. specialize (Hfull X). lia.
  - (* some digits remain *)
    specialize (Hr ltac:(discriminate)).
    destruct (rs_main_spec k Hk (c0 :: rest0) (dv pre) [] Hdr Hb) as (qm & n3 & Em & Hlm & Hqm & Hvm & Hb3 & Hhdm).
    rewrite andb_false_l. rewrite Em.
    rewrite app_nil_r in *.
    assert (Hw : Z.of_nat (length (rev qm)) = zlen qm) by (unfold zlen; now rewrite rev_length).
    rewrite Hw.
    pose proof (zlen_nonneg pre). pose proof (zlen_nonneg qm).
    destruct (rs_extra_spec k Hk 70 0 n3 (zlen qm) (rev qm) (dc_trunc a) ltac:(lia)
                ltac:(rewrite Z.pow_0_r; apply Z.divide_1_l) ltac:(intros; change (Z.of_nat 70) with 70; lia)
                ltac:(lia) ltac:(lia))
      as (q & dr & Eex & Hq & Hdrr & Hv & Hwq & Hfull & _ & _).
    rewrite Eex. rewrite rev_app_distr, !rev_involutive.
    exists (qm ++ q), (dc_dp a - (0 + zlen pre - 1)), (dc_trunc a || (0 <? dv dr)), dr, (zlen q + zlen dr).
    split; [reflexivity|]. split; [apply digits_ok_app; split; assumption|].
    rewrite zlen_app. pose proof (zlen_nonneg q). pose proof (zlen_nonneg dr).
    assert (0 < zlen qm) by (rewrite Hlm, zlen_cons; pose proof (zlen_nonneg rest0); lia).
    split; [lia|]. split.
    { destruct qm as [|d qm']; [rewrite zlen_nil in *; lia|]. exists d, (qm' ++ q). split; [reflexivity|].
      apply (Hhdm Hr d qm' eq_refl). }
    split; [assumption|]. split; [lia|]. split.
    { rewrite dv_app in Hv. rewrite dv_app. rewrite HDsplit, Hvm.
      rewrite Z.pow_add_r in * by lia.
      set (A := 10 ^ zlen q) in *. set (B := 10 ^ zlen dr) in *. set (P := 10 * 2 ^ k) in *. nia. }
    split; [lia|]. split; [reflexivity|]. intros X. specialize (Hfull X). lia.
Qed.

(** ** the cheat sheet: entry k holds the number of digits of 2^k and the digits of 5^k *)
Definition cheat_ok (k : Z) (e : Z * list Z) : bool :=
  let '(d, c) := e in
  forallb (fun x => (0 <=? x) && (x <=? 9)) c
  && (if k =? 0 then (d =? 0) && (zlen c =? 0)
      else (dv c =? 5 ^ k) && (zlen c =? k - d + 1) && (10 ^ (d - 1) <=? 2 ^ k) && (2 ^ k <? 10 ^ d) && (1 <=? d)
           && negb (last c 0 =? 0)).

Fixpoint cheats_ok_from (k : Z) (l : list (Z * list Z)) : bool :=
  match l with [] => true | e :: r => cheat_ok k e && cheats_ok_from (k + 1) r end.

Lemma leftcheats_checked : cheats_ok_from 0 leftcheats = true /\ length leftcheats = 61%nat.
Proof. split; vm_compute; reflexivity. Qed.

Lemma cheats_ok_nth l : forall k0 j d, cheats_ok_from k0 l = true -> (j < length l)%nat ->
  cheat_ok (k0 + Z.of_nat j) (nth j l d) = true.
Proof.
  induction l as [|e r IH]; intros k0 j d H Hj; [cbn in Hj; lia|].
  cbn [cheats_ok_from] in H. apply andb_true_iff in H as [He Hr].
  destruct j as [|j]; cbn [nth].
  - now rewrite Z.add_0_r.
  - replace (k0 + Z.of_nat (S j)) with (k0 + 1 + Z.of_nat j) by lia. apply IH; [assumption|cbn in Hj; lia].
Qed.

Lemma digits_ok_forallb c : forallb (fun x => (0 <=? x) && (x <=? 9)) c = true -> digits_ok c.
Proof.
  intros H. apply Forall_forall. intros x Hx. rewrite forallb_forall in H. specialize (H x Hx).
  apply andb_true_iff in H as [A B]. apply Z.leb_le in A, B. lia.
Qed.

Lemma leftcheat_facts k : 0 <= k <= 60 ->
  exists d c, nth (Z.to_nat k) leftcheats (0, []) = (d, c) /\ digits_ok c /\
    ((k = 0 /\ d = 0 /\ c = []) \/
     (1 <= k /\ dv c = 5 ^ k /\ zlen c = k - d + 1 /\ 10 ^ (d - 1) <= 2 ^ k < 10 ^ d /\ 1 <= d /\ last c 0 <> 0)).
Proof.
  intros Hk. destruct leftcheats_checked as [Hc Hl].
  pose proof (cheats_ok_nth leftcheats 0 (Z.to_nat k) (0, []) Hc ltac:(lia)) as H.
  rewrite Z.add_0_l, Z2Nat.id in H by lia.
  destruct (nth (Z.to_nat k) leftcheats (0, [])) as [d c]. exists d, c. split; [reflexivity|].
  unfold cheat_ok in H. apply andb_true_iff in H as [H1 H3].
  split; [now apply digits_ok_forallb|].
  destruct (Z.eqb_spec k 0) as [->|Hk0].
  - left. apply andb_true_iff in H3 as [A B]. apply Z.eqb_eq in A, B. repeat split; try assumption. now apply zlen_zero.
  - right. apply andb_true_iff in H3 as [H3 A6]. apply andb_true_iff in H3 as [H3 A5].
    apply andb_true_iff in H3 as [H3 A4]. apply andb_true_iff in H3 as [H3 A3]. apply andb_true_iff in H3 as [A1 A2].
    apply Z.eqb_eq in A1, A2. apply Z.leb_le in A3, A5. apply Z.ltb_lt in A4.
    apply negb_true_iff in A6. apply Z.eqb_neq in A6. repeat split; try assumption; lia.
Qed.

(** ** prefixIsLessThan compares the fractions 0.b and 0.s *)
Lemma dv_pos_last s : digits_ok s -> s <> [] -> last s 0 <> 0 -> 0 < dv s.
Proof.
  induction s as [|x s IH]; intros Hs Hne Hl; [contradiction|].
  apply digits_ok_cons in Hs as [Hx Hs]. rewrite dv_cons.
  pose proof (pow10_gt0 (zlen s) (zlen_nonneg s)). pose proof (dv_bound s Hs).
  destruct s as [|y r].
  - cbn in Hl. rewrite zlen_nil, Z.pow_0_r, dv_nil. lia.
  - assert (0 < dv (y :: r)) by (apply IH; [assumption|discriminate|exact Hl]). nia.
Qed.

Lemma prefix_lt_spec s : forall b, digits_ok b -> digits_ok s -> (s = [] \/ last s 0 <> 0) ->
  prefix_is_less_than b s = (dv b * 10 ^ zlen s <? dv s * 10 ^ zlen b).
Proof.
  induction s as [|sc s IH]; intros b Hb Hs Hl.
  - cbn [prefix_is_less_than]. rewrite dv_nil, zlen_nil, Z.pow_0_r. pose proof (dv_bound b Hb).
    symmetry. apply Z.ltb_ge. lia.
  - assert (Hpos : 0 < dv (sc :: s)).
    { apply dv_pos_last; [assumption|discriminate|]. destruct Hl as [|]; [discriminate|assumption]. }
    pose proof Hs as Hs0. apply digits_ok_cons in Hs as [Hsc Hs].
    cbn [prefix_is_less_than]. destruct b as [|bc b].
    + rewrite dv_nil, zlen_nil, Z.pow_0_r. symmetry. apply Z.ltb_lt. lia.
    + apply digits_ok_cons in Hb as [Hbc Hb].
      rewrite !dv_cons, !zlen_cons.
      pose proof (zlen_nonneg s). pose proof (zlen_nonneg b).
      rewrite !Z.pow_add_r, !Z.pow_1_r by lia.
      pose proof (dv_bound s Hs). pose proof (dv_bound b Hb).
      pose proof (pow10_gt0 (zlen s) ltac:(lia)). pose proof (pow10_gt0 (zlen b) ltac:(lia)).
      set (S := 10 ^ zlen s) in *. set (B := 10 ^ zlen b) in *.
      destruct (Z.eqb_spec bc sc) as [->|Hne].
      * rewrite IH; [|assumption|assumption|].
        2:{ destruct s as [|y r]; [now left|right]. destruct Hl as [|Hl]; [discriminate|exact Hl]. }
        fold S B. destruct (Z.ltb_spec (dv b * S) (dv s * B)); symmetry; [apply Z.ltb_lt|apply Z.ltb_ge]; nia.
      * destruct (Z.ltb_spec bc sc); symmetry; [apply Z.ltb_lt|apply Z.ltb_ge].
        -- assert (bc + 1 <= sc) by lia.
           assert ((bc * B + dv b) * S < (bc + 1) * B * S) by nia.
           assert ((bc + 1) * B * S <= sc * B * S) by nia.
           assert (sc * B * S <= (sc * S + dv s) * B) by nia. nia.
        -- assert (sc + 1 <= bc) by lia.
           assert ((sc * S + dv s) * B < (sc + 1) * S * B) by nia.
           assert ((sc + 1) * S * B <= bc * S * B) by nia.
           assert (bc * S * B <= (bc * B + dv b) * S) by nia. nia.
Qed.

(** ** leftShift: pick up a digit, put down a digit (from the last digit) *)
Lemma shiftl_digit c k : 0 <= k <= 60 -> 0 <= c <= 9 -> w64 (Z.shiftl c k) = c * 2 ^ k.
Proof.
  intros Hk Hc. rewrite Z.shiftl_mul_pow2 by lia. pose proof (ten_pow2_lt k Hk). pose proof (pow2_le_60 k Hk).
  apply w64_small. nia.
Qed.

Lemma ls_main_spec k : 0 <= k <= 60 -> forall rl n w out tr, digits_ok rl -> 0 <= n <= 2 ^ k ->
  exists kept dr n', ls_main k rl n w out tr = (n', w - zlen rl, kept ++ out, tr || (0 <? dv dr)) /\
    digits_ok kept /\ digits_ok dr /\ zlen kept + zlen dr = zlen rl /\
    dv (rev rl) * 2 ^ k + n = n' * 10 ^ zlen rl + dv (kept ++ dr) /\ 0 <= n' <= 2 ^ k /\
    (dr <> [] -> 800 <= w - zlen dr) /\ (kept <> [] -> w - zlen dr <= 800).
Proof.
  intros Hk. pose proof (ten_pow2_lt k Hk) as H64. pose proof (pow2_le_60 k Hk) as Hp.
  induction rl as [|c rl IH]; intros n w out tr Hl Hn.
  - exists [], [], n. cbn [ls_main app rev]. rewrite zlen_nil, dv_nil, Z.pow_0_r, orb_false_r, Z.sub_0_r.
    repeat split; try constructor; try lia; intros X; now contradiction X.
  - apply digits_ok_cons in Hl as [Hc Hl]. cbn [ls_main].
    rewrite shiftl_digit by assumption. rewrite (w64_small (n + c * 2 ^ k)) by nia.
    set (n1 := n + c * 2 ^ k).
    assert (Hn1 : 0 <= n1 <= 10 * 2 ^ k) by (unfold n1; nia).
    pose proof (Z.div_mod n1 10 ltac:(lia)) as Hdm. pose proof (Z.mod_pos_bound n1 10 ltac:(lia)) as Hm.
    assert (Hrem : n1 - 10 * (n1 / 10) = n1 mod 10) by lia.
    rewrite Hrem. rewrite (w64_small (n1 mod 10)) by lia.
    assert (Hquo : 0 <= n1 / 10 <= 2 ^ k).
    { split; [apply Z.div_pos; lia|]. apply Z.div_le_upper_bound; lia. }
    pose proof (zlen_nonneg rl) as Hzl.
    unfold ls_put. destruct (Z.ltb_spec (w - 1) max_digits) as [Hlt|Hge]; unfold max_digits in *.
    + destruct (IH (n1 / 10) (w - 1) (n1 mod 10 :: out) tr Hl Hquo)
        as (kept & dr & n' & E & Hk1 & Hd1 & Hlen & Hv & Hb & Hfull & Hkept).
      assert (dr = []).
      { destruct dr as [|x dr']; [reflexivity|]. specialize (Hfull ltac:(discriminate)).
        rewrite zlen_cons in Hfull. pose proof (zlen_nonneg dr'). lia. }
      subst dr. rewrite zlen_nil, app_nil_r in *.
      exists (kept ++ [n1 mod 10]), [], n'. rewrite E. rewrite app_nil_r, zlen_nil, zlen_cons, zlen_app.
      change (zlen [n1 mod 10]) with 1.
      split; [replace (w - (zlen rl + 1)) with (w - 1 - zlen rl) by lia; rewrite <- app_assoc; reflexivity|].
      split; [apply digits_ok_app; split; [assumption|apply digits_ok_cons; split; [lia|constructor]]|].
      split; [constructor|]. split; [lia|]. split; [|split; [assumption|split; [intros X; now contradiction X|intros; lia]]].
      cbn [rev]. rewrite !dv_snoc. rewrite Z.pow_add_r, Z.pow_1_r by lia. unfold n1 in *. nia.
    + destruct (IH (n1 / 10) (w - 1) out (tr || negb (n1 mod 10 =? 0)) Hl Hquo)
        as (kept & dr & n' & E & Hk1 & Hd1 & Hlen & Hv & Hb & Hfull & Hkept).
      exists kept, (dr ++ [n1 mod 10]), n'. rewrite E. rewrite zlen_cons, zlen_app.
      change (zlen [n1 mod 10]) with 1. pose proof (zlen_nonneg dr).
      split.
      { replace (w - (zlen rl + 1)) with (w - 1 - zlen rl) by lia. f_equal. rewrite <- orb_assoc. f_equal.
        rewrite dv_snoc. pose proof (dv_bound dr Hd1).
        destruct (Z.eqb_spec (n1 mod 10) 0), (Z.ltb_spec 0 (dv dr)), (Z.ltb_spec 0 (dv dr * 10 + n1 mod 10)); cbn; try reflexivity; lia. }
      split; [assumption|]. split; [apply digits_ok_app; split; [assumption|apply digits_ok_cons; split; [lia|constructor]]|].
      split; [lia|]. split; [|split; [assumption|split]].
      * cbn [rev]. rewrite app_assoc, !dv_snoc. rewrite Z.pow_add_r, Z.pow_1_r by lia. unfold n1 in *. nia.
      * intros _. destruct dr as [|x dr']; [rewrite zlen_nil; lia|].
        specialize (Hfull ltac:(discriminate)). lia.
      * intros X. specialize (Hkept X). lia.
Qed.

(** ** leftShift: put down extra digits (the decimal digits of the carry) *)
Lemma ls_extra_spec : forall fuel n w out tr, 0 <= n < 10 ^ Z.of_nat fuel -> n < 2 ^ 64 ->
  exists kept dr, ls_extra fuel n w out tr = Some (w - (zlen kept + zlen dr), kept ++ out, tr || (0 <? dv dr)) /\
    digits_ok kept /\ digits_ok dr /\ n = dv (kept ++ dr) /\
    (n = 0 -> kept = [] /\ dr = []) /\
    (n <> 0 -> exists d r, kept ++ dr = d :: r /\ d <> 0) /\
    (dr <> [] -> 800 <= w - zlen dr) /\ (kept <> [] -> w - zlen dr <= 800).
Proof.
  assert (Hzero : forall fuel w out tr,
    exists kept dr, ls_extra fuel 0 w out tr = Some (w - (zlen kept + zlen dr), kept ++ out, tr || (0 <? dv dr)) /\
    digits_ok kept /\ digits_ok dr /\ 0 = dv (kept ++ dr) /\
    (0 = 0 -> kept = [] /\ dr = []) /\
    (0 <> 0 -> exists d r, kept ++ dr = d :: r /\ d <> 0) /\
    (dr <> [] -> 800 <= w - zlen dr) /\ (kept <> [] -> w - zlen dr <= 800)).
  { intros fuel w out tr. exists [], []. cbn [app]. rewrite dv_nil, zlen_nil, orb_false_r, Z.sub_0_r.
    destruct fuel; cbn [ls_extra Z.eqb];
      (split; [reflexivity|]); repeat split; try constructor; try lia; intros X; now contradiction X. }
  induction fuel as [|f IH]; intros n w out tr Hn H64.
  - change (Z.of_nat 0) with 0 in Hn. rewrite Z.pow_0_r in Hn. assert (n = 0) by lia. subst n. apply Hzero.
  - destruct (Z.eq_dec n 0) as [->|Hnz]; [apply Hzero|].
    cbn [ls_extra]. destruct (Z.eqb_spec n 0) as [|_]; [contradiction|].
    pose proof (Z.div_mod n 10 ltac:(lia)) as Hdm. pose proof (Z.mod_pos_bound n 10 ltac:(lia)) as Hm.
    assert (Hrem : n - 10 * (n / 10) = n mod 10) by lia.
    rewrite Hrem. rewrite (w64_small (n mod 10)) by lia.
    rewrite Nat2Z.inj_succ, Z.pow_succ_r in Hn by lia.
    assert (Hquo : 0 <= n / 10 < 10 ^ Z.of_nat f).
    { split; [apply Z.div_pos; lia|]. apply Z.div_lt_upper_bound; lia. }
    assert (Hq64 : n / 10 < 2 ^ 64) by (apply Z.div_lt_upper_bound; lia).
    unfold ls_put. destruct (Z.ltb_spec (w - 1) max_digits) as [Hlt|Hge]; unfold max_digits in *.
    + destruct (IH (n / 10) (w - 1) (n mod 10 :: out) tr Hquo Hq64)
        as (kept & dr & E & Hk1 & Hd1 & Hv & Hz & Hhd & Hfull & Hkept).
      assert (dr = []).
      { destruct dr as [|x dr']; [reflexivity|]. specialize (Hfull ltac:(discriminate)).
        rewrite zlen_cons in Hfull. pose proof (zlen_nonneg dr'). lia. }
      subst dr. rewrite zlen_nil, app_nil_r in *.
      exists (kept ++ [n mod 10]), []. rewrite E. rewrite app_nil_r, zlen_nil, zlen_app.
      change (zlen [n mod 10]) with 1.
      split; [replace (w - (zlen kept + 1 + 0)) with (w - 1 - (zlen kept + 0)) by lia; rewrite <- app_assoc; reflexivity|].
      split; [apply digits_ok_app; split; [assumption|apply digits_ok_cons; split; [lia|constructor]]|].
      split; [constructor|]. split; [rewrite dv_snoc; lia|]. split; [intros; contradiction|].
      split; [|split; [intros X; now contradiction X|intros; lia]].
      intros _. destruct (Z.eq_dec (n / 10) 0) as [Eq|Nq].
      * destruct (Hz Eq) as [-> _]. exists (n mod 10), []. split; [reflexivity|]. lia.
      * destruct (Hhd Nq) as (d & r & Er & Hdnz). exists d, (r ++ [n mod 10]). rewrite Er. split; [reflexivity|assumption].
    + destruct (IH (n / 10) (w - 1) out (tr || negb (n mod 10 =? 0)) Hquo Hq64)
        as (kept & dr & E & Hk1 & Hd1 & Hv & Hz & Hhd & Hfull & Hkept).
      exists kept, (dr ++ [n mod 10]). rewrite E. rewrite zlen_app.
      change (zlen [n mod 10]) with 1. pose proof (zlen_nonneg dr).
      split.
      { replace (w - (zlen kept + (zlen dr + 1))) with (w - 1 - (zlen kept + zlen dr)) by lia.
        f_equal. f_equal. rewrite <- orb_assoc. f_equal.
        rewrite dv_snoc. pose proof (dv_bound dr Hd1).
        destruct (Z.eqb_spec (n mod 10) 0), (Z.ltb_spec 0 (dv dr)), (Z.ltb_spec 0 (dv dr * 10 + n mod 10)); cbn; try reflexivity; lia. }
      split; [assumption|]. split; [apply digits_ok_app; split; [assumption|apply digits_ok_cons; split; [lia|constructor]]|].
      split; [rewrite app_assoc, dv_snoc; lia|]. split; [intros; contradiction|].
      split; [|split].
      * intros _. destruct (Z.eq_dec (n / 10) 0) as [Eq|Nq].
        -- destruct (Hz Eq) as [-> ->]. exists (n mod 10), []. split; [reflexivity|]. lia.
        -- destruct (Hhd Nq) as (d & r & Er & Hdnz). exists d, (r ++ [n mod 10]).
           rewrite app_assoc, Er. split; [reflexivity|assumption].
      * intros _. destruct dr as [|x dr']; [rewrite zlen_nil; lia|].
        specialize (Hfull ltac:(discriminate)). lia.
      * intros X. specialize (Hkept X). lia.
Qed.

(** ** leftShift *)
Lemma pow10_lt_cancel a b : 10 ^ a < 10 ^ b -> a < b.
Proof.
  intros H. destruct (Z_lt_le_dec a b) as [|Hge]; [assumption|].
  pose proof (Z.pow_le_mono_r 10 b a ltac:(lia) Hge). lia.
Qed.

Lemma hd_nonzero_of_lower l : digits_ok l -> l <> [] -> 10 ^ (zlen l - 1) <= dv l ->
  exists c r, l = c :: r /\ c <> 0.
Proof.
  intros Hl Hne Hlow. destruct l as [|c r]; [contradiction|]. exists c, r. split; [reflexivity|].
  intros ->. apply digits_ok_cons in Hl as [_ Hr]. pose proof (dv_bound r Hr).
  rewrite dv_cons, zlen_cons in Hlow. replace (zlen r + 1 - 1) with (zlen r) in Hlow by lia. lia.
Qed.

Lemma nonnil_zlen (l : list Z) : l <> [] -> 0 < zlen l.
Proof. destruct l; [contradiction|]. intros _. rewrite zlen_cons. pose proof (zlen_nonneg l). lia. Qed.

(** the digits that fit the buffer: those of the carry, then those of the main loop *)
Lemma kept_merge ke de km dm nd delta :
  digits_ok ke -> digits_ok de -> digits_ok km -> digits_ok dm ->
  zlen km + zlen dm = nd -> 0 < nd -> zlen ke + zlen de = delta -> 0 <= delta ->
  (dm <> [] -> 800 <= nd + delta - zlen dm) -> (km <> [] -> nd + delta - zlen dm <= 800) ->
  (de <> [] -> 800 <= nd + delta - nd - zlen de) -> (ke <> [] -> nd + delta - nd - zlen de <= 800) ->
  exists dr, (ke ++ km) ++ dr = (ke ++ de) ++ (km ++ dm) /\ digits_ok dr /\
    (0 <? dv dr) = ((0 <? dv dm) || (0 <? dv de)) /\ (dr <> [] -> zlen (ke ++ km) = 800) /\
    zlen (ke ++ km) <= 800 /\ ke ++ km <> [].
Proof.
  intros Hke Hde Hkm Hdm Hlm Hnd Hj Hd0 Hfm Hkm800 Hfe Hke800.
  pose proof (zlen_nonneg ke). pose proof (zlen_nonneg de). pose proof (zlen_nonneg km). pose proof (zlen_nonneg dm).
  destruct de as [|x de'].
  - rewrite zlen_nil in *. exists dm. rewrite app_nil_r, <- app_assoc. split; [reflexivity|]. split; [assumption|].
    rewrite dv_nil, orb_false_r. split; [reflexivity|]. rewrite zlen_app.
    assert (Hne : ke ++ km <> []).
    { intros X. apply app_eq_nil in X as [-> ->]. rewrite zlen_nil in *.
      assert (dm <> []) by (intros ->; rewrite zlen_nil in *; lia). specialize (Hfm ltac:(assumption)). lia. }
    assert (Hle : zlen ke + zlen km <= 800).
    { destruct km as [|y km'].
      - rewrite zlen_nil in *. destruct ke as [|y ke']; [now contradiction Hne|].
        specialize (Hke800 ltac:(discriminate)). lia.
      - specialize (Hkm800 ltac:(discriminate)). lia. }
    split; [|split; [exact Hle|exact Hne]].
    intros X. specialize (Hfm X). lia.
  - specialize (Hfe ltac:(discriminate)).
    assert (km = []).
    { destruct km as [|y km']; [reflexivity|]. specialize (Hkm800 ltac:(discriminate)).
      rewrite zlen_cons in *. pose proof (zlen_nonneg km'). lia. }
    subst km. rewrite zlen_nil, app_nil_r in *. cbn [app] in *.
    exists ((x :: de') ++ dm). split; [now rewrite <- app_assoc|].
    split; [apply digits_ok_app; now split|]. split.
    { rewrite dv_app. pose proof (dv_bound dm Hdm). pose proof (dv_bound (x :: de') Hde).
      pose proof (pow10_gt0 (zlen dm) ltac:(lia)).
      destruct (Z.ltb_spec 0 (dv dm)), (Z.ltb_spec 0 (dv (x :: de'))), (Z.ltb_spec 0 (dv (x :: de') * 10 ^ zlen dm + dv dm));
        cbn; try reflexivity; nia. }
    assert (Hne : ke <> []).
    { intros ->. rewrite zlen_nil in *. lia. }
    specialize (Hke800 Hne). split; [intros _; lia|]. split; [lia|exact Hne].
Qed.

Theorem leftShift_int a k : wf a -> 0 <= k <= 60 ->
  exists out delta tr' dr,
    leftShift a k = Some (trim (mkDecimal out (dc_dp a + delta) (dc_neg a) tr')) /\
    digits_ok out /\ 0 < zlen out <= 800 /\ (exists c r, out = c :: r /\ c <> 0) /\
    digits_ok dr /\
    dv out * 10 ^ zlen dr + dv dr = dv (dc_d a) * 2 ^ k /\
    zlen out + zlen dr = zlen (dc_d a) + delta /\ 0 <= delta /\
    tr' = dc_trunc a || (0 <? dv dr) /\ (dr <> [] -> zlen out = 800).
Proof.
  intros Hwf Hk. pose proof (wf_pos a Hwf) as [HD Hnd]. destruct Hwf as (Hd & Hn & c0 & r0 & El & Hc0).
  pose proof (ten_pow2_lt k Hk) as H64. pose proof (pow2_le_60 k Hk) as Hp.
  set (l := dc_d a) in *. set (nd := zlen l) in *.
  assert (HDlow : 10 ^ (nd - 1) <= dv l).
  { unfold nd. rewrite El, zlen_cons. replace (zlen r0 + 1 - 1) with (zlen r0) by lia.
    apply dv_lower; [now rewrite <- El|assumption]. }
  pose proof (dv_bound l Hd) as HDup. fold nd in HDup.
  unfold leftShift. unfold maxShift.
  destruct (Z.ltb_spec k 0); [lia|]. destruct (Z.ltb_spec 60 k); [lia|]. cbn [orb].
  destruct (leftcheat_facts k Hk) as (d & c & Enth & Hc & Hfacts). rewrite Enth.
  set (delta := if prefix_is_less_than (dc_d a) c then d - 1 else d).
  rewrite dc_nd_zlen. fold l nd.
  destruct (ls_main_spec k Hk (rev l) 0 (nd + delta) [] (dc_trunc a) ltac:(now apply digits_ok_rev) ltac:(lia))
    as (km & dm & n' & Em & Hkm & Hdm & Hlm & Hvm & Hn' & Hfm & Hkm800).
  rewrite zlen_rev in *. fold nd in Em, Hlm, Hvm. rewrite rev_involutive, Z.add_0_r in Hvm.
  rewrite Em. rewrite app_nil_r.
  destruct (ls_extra_spec 24 n' (nd + delta - nd) km (dc_trunc a || (0 <? dv dm))
              ltac:(split; [lia|]; assert (2 ^ 60 < 10 ^ Z.of_nat 24) by (vm_compute; reflexivity); lia)
              ltac:(assert (2 ^ 60 < 2 ^ 64) by (vm_compute; reflexivity); lia))
    as (ke & de & Ee & Hke & Hde & Hve & Hz & Hhd & Hfe & Hke800).
  rewrite Ee.
  set (j := zlen ke + zlen de).
  pose proof (zlen_nonneg ke). pose proof (zlen_nonneg de). pose proof (zlen_nonneg km). pose proof (zlen_nonneg dm).
  set (N := dv l * 2 ^ k) in *.
  pose proof (dv_bound (km ++ dm) ltac:(apply digits_ok_app; now split)) as Hemb.
  rewrite zlen_app, Hlm in Hemb.
  assert (Hpnd : 0 < 10 ^ nd) by (apply pow10_gt0; lia).
  (* the product has exactly nd + j digits *)
  assert (HN : 10 ^ (nd + j - 1) <= N < 10 ^ (nd + j)).
  { destruct (Z.eq_dec n' 0) as [E0|N0].
    - destruct (Hz E0) as [-> ->]. unfold j. rewrite zlen_nil. rewrite E0 in Hvm.
      replace (nd + (0 + 0) - 1) with (nd - 1) by lia. replace (nd + (0 + 0)) with nd by lia.
      split; [|lia]. unfold N. nia.
    - destruct (Hhd N0) as (dd & rr & Eh & Hdd).
      pose proof (dv_bound (ke ++ de) ltac:(apply digits_ok_app; now split)) as Hexb.
      rewrite zlen_app in Hexb. fold j in Hexb.
      assert (Hexl : 10 ^ (j - 1) <= n').
      { rewrite Hve, Eh. unfold j. rewrite <- zlen_app, Eh, zlen_cons.
        replace (zlen rr + 1 - 1) with (zlen rr) by lia.
        apply dv_lower; [rewrite <- Eh; apply digits_ok_app; now split|assumption]. }
      assert (1 <= j) by (unfold j; rewrite <- zlen_app, Eh, zlen_cons; pose proof (zlen_nonneg rr); lia).
      replace (nd + j - 1) with ((j - 1) + nd) by lia. replace (nd + j) with (j + nd) by lia.
      rewrite !Z.pow_add_r by lia. rewrite <- Hve in Hexb. nia. }
  (* ... which is what the cheat sheet predicts *)
  assert (Hdelta : delta = j /\ 0 <= delta).
  { destruct Hfacts as [(-> & -> & ->)|(Hk1 & Hcv & Hcl & Hdb & Hd1 & Hlast)].
    - unfold delta. cbn [prefix_is_less_than]. unfold N in HN. rewrite Z.pow_0_r, Z.mul_1_r in HN.
      assert (nd + j - 1 < nd) by (apply pow10_lt_cancel; lia). unfold j in *. lia.
    - assert (Hless : prefix_is_less_than (dc_d a) c = (dv l * 10 ^ zlen c <? 5 ^ k * 10 ^ nd)).
      { fold l. rewrite prefix_lt_spec by (try assumption; now right). now rewrite Hcv. }
      unfold delta. rewrite Hless. pose proof (zlen_nonneg c) as Hzc.
      assert (H10k : 10 ^ k = 2 ^ k * 5 ^ k) by (rewrite <- Z.pow_mul_l; reflexivity).
      assert (Hpc : 0 < 10 ^ zlen c) by (apply pow10_gt0; lia).
      assert (Hp5 : 0 < 5 ^ k) by (apply Z.pow_pos_nonneg; lia).
      assert (Hsplit : 10 ^ (k + nd) = 10 ^ (nd + d - 1) * 10 ^ zlen c).
      { rewrite <- Z.pow_add_r by lia. f_equal. lia. }
      assert (HNc : N * 10 ^ zlen c = (dv l * 10 ^ zlen c) * 2 ^ k) by (unfold N; ring).
      assert (H5c : 10 ^ (k + nd) = (5 ^ k * 10 ^ nd) * 2 ^ k) by (rewrite Z.pow_add_r, H10k by lia; ring).
      destruct (Z.ltb_spec (dv l * 10 ^ zlen c) (5 ^ k * 10 ^ nd)) as [Hlt|Hge].
      + assert (HNlt : N < 10 ^ (nd + d - 1)) by nia.
        assert (HNge : 10 ^ (nd + d - 2) <= N).
        { replace (nd + d - 2) with ((nd - 1) + (d - 1)) by lia. rewrite Z.pow_add_r by lia. unfold N.
          assert (0 <= 10 ^ (d - 1)) by (apply Z.pow_nonneg; lia).
          assert (0 <= 10 ^ (nd - 1)) by (apply Z.pow_nonneg; lia). nia. }
        assert (nd + j - 1 < nd + d - 1) by (apply pow10_lt_cancel; lia).
        assert (nd + d - 2 < nd + j) by (apply pow10_lt_cancel; lia). unfold j in *. lia.
      + assert (HNge : 10 ^ (nd + d - 1) <= N) by nia.
        assert (HNlt : N < 10 ^ (nd + d)).
        { rewrite Z.pow_add_r by lia. unfold N. nia. }
        assert (nd + j - 1 < nd + d) by (apply pow10_lt_cancel; lia).
        assert (nd + d - 1 < nd + j) by (apply pow10_lt_cancel; lia). unfold j in *. lia. }
  destruct Hdelta as [Hdj Hd0].
  fold j. replace (nd + delta - nd - j) with 0 by lia.
  cbn [Z.eqb negb].
  (* which digits were kept *)
  assert (Hcomb := kept_merge ke de km dm nd delta Hke Hde Hkm Hdm Hlm Hnd ltac:(unfold j in Hdj; lia) Hd0
                               Hfm Hkm800 Hfe Hke800).
  destruct Hcomb as (dr & Edr & Hdr & Htr & Hfull & H800 & Hne).
  exists (ke ++ km), delta, (dc_trunc a || (0 <? dv dr)), dr.
  split; [f_equal; f_equal; f_equal; rewrite Htr; now rewrite orb_assoc|].
  split; [apply digits_ok_app; now split|].
  assert (Hlenall : zlen (ke ++ km) + zlen dr = nd + delta).
  { rewrite <- zlen_app, Edr, !zlen_app. unfold j in Hdj. lia. }
  assert (Hval : dv (ke ++ km) * 10 ^ zlen dr + dv dr = N).
  { rewrite <- dv_app, Edr, dv_app, zlen_app, Hlm, <- Hve. lia. }
  assert (0 < zlen (ke ++ km)).
  { destruct (ke ++ km); [now contradiction Hne|]. rewrite zlen_cons. pose proof (zlen_nonneg l0). lia. }
  split; [lia|]. split.
  { (* the first digit is non-zero: the whole expansion has nd + j digits and is at least 10^(nd+j-1) *)
    assert (Hall : exists cc rr, (ke ++ km) ++ dr = cc :: rr /\ cc <> 0).
    { apply hd_nonzero_of_lower.
      - apply digits_ok_app; split; [apply digits_ok_app; now split|assumption].
      - intros X. apply app_eq_nil in X as [X _]. contradiction.
      - rewrite zlen_app, Hlenall, dv_app, Hval, Hdj. exact (proj1 HN). }
    destruct Hall as (cc & rr & Ecc & Hcc). destruct (ke ++ km) as [|y t]; [now contradiction Hne|].
    cbn [app] in Ecc. injection Ecc as -> _. exists cc, t. split; [reflexivity|exact Hcc]. }
  split; [assumption|]. split; [exact Hval|]. split; [exact Hlenall|]. split; [assumption|]. split; [reflexivity|exact Hfull].
Qed.
