(** The three evaluators of the exact null distribution in Model/UDistSpec.v
    agree, for ALL tie vectors, sample sizes and thresholds (no bound):

      - [count_if]          the declarative count-vector specification;
      - [subsets_count_if]  plain enumeration of the n1-subsets of POSITIONS of
                            the pooled sample ([splits]: C(N,n1) of them, each once);
      - [fast_count_le/ge], [hist]  the polynomial-time generating-function evaluator
                            that Corr/RunC11.v ([spec_le], [spec_ge], [spec_eq], [hist_le],
                            [hist_eq]) falls back to when the enumeration budget is exceeded.

    Supersedes the bounded sweeps fast_evaluator_agrees_bounded, subsets_agree_bounded and
    total_is_count_all_bounded of Proofs/UTest.v. *)
From Coq Require Import ZArith List Bool Lia Permutation.
From Perf Require Import Model.UStat Model.UDistSpec Model.UDistImpl.
From Perf Require Import Proofs.UStat Proofs.UDistSpec Proofs.UDistImpl Proofs.UDistSum.
Import ListNotations.
Local Open Scope Z_scope.

Definition nonneg (t : list Z) : Prop := Forall (fun x => 0 <= x) t.

(** * Part 1: the fast evaluator *)

(** ** the mass function of the specification: vanishing and the snoc decomposition *)
Lemma count_if_neg P t n : n < 0 -> count_if P t n = 0.
Proof. intros H. unfold count_if. rewrite vecs_neg by assumption. reflexivity. Qed.

Lemma count_if_big P t n : nonneg t -> zsum t < n -> count_if P t n = 0.
Proof. intros Ht H. unfold count_if. rewrite vecs_big by assumption. reflexivity. Qed.

Lemma count_eq_below t n u : nonneg t -> u < 0 -> count_eq t n u = 0.
Proof.
  intros Ht Hu. unfold count_eq, count_if.
  transitivity (sumf (fun _ : list Z => 0) (vecs t n)); [|apply sumf_zero].
  apply sumf_ext_in. intros r Hr. pose proof (twoU_of_range t n r Ht Hr).
  destruct (Z.eqb_spec (twoU_of t r) u); [lia | reflexivity].
Qed.

Lemma count_eq_above t n u : nonneg t -> 2 * (n * (zsum t - n)) < u -> count_eq t n u = 0.
Proof.
  intros Ht Hu. unfold count_eq, count_if.
  transitivity (sumf (fun _ : list Z => 0) (vecs t n)); [|apply sumf_zero].
  apply sumf_ext_in. intros r Hr. pose proof (twoU_of_range t n r Ht Hr).
  destruct (Z.eqb_spec (twoU_of t r) u); [lia | reflexivity].
Qed.

(** peel_top_group for an arbitrary predicate *)
Theorem count_if_snoc P t tK n : nonneg t -> 0 <= tK ->
  count_if P (t ++ [tK]) n
  = sumf (fun rK => choose tK rK
                    * count_if (fun w => P (w + rK * (2 * (zsum t - (n - rK)) + (tK - rK)))) t (n - rK))
         (zrange 0 tK).
Proof.
  intros Ht HtK. unfold count_if. rewrite (sumf_vecs_snoc t Ht tK HtK).
  apply sumf_ext. intros rK. rewrite <- sumf_scale. apply sumf_ext_in. intros r' Hr'.
  destruct (vecs_in _ _ _ Hr') as (Hl & Hs & _).
  unfold twoU_of. rewrite combine_snoc by (symmetry; exact Hl). rewrite twoU_vec_snoc, sumv_combine by exact Hl.
  rewrite weight_snoc by exact Hl. rewrite Hs.
  replace (0 + (zsum t - (n - rK))) with (zsum t - (n - rK)) by lia.
  destruct (P _); lia.
Qed.

Corollary count_eq_snoc t tK n u : nonneg t -> 0 <= tK ->
  count_eq (t ++ [tK]) n u
  = sumf (fun rK => choose tK rK * count_eq t (n - rK) (u - rK * (2 * (zsum t - (n - rK)) + (tK - rK))))
         (zrange 0 tK).
Proof.
  intros Ht HtK. unfold count_eq. rewrite count_if_snoc by assumption.
  apply sumf_ext. intros rK. f_equal. unfold count_if. apply sumf_ext. intros r.
  match goal with |- (if ?a then _ else _) = (if ?b then _ else _) => replace a with b; [reflexivity|] end.
  destruct (Z.eqb_spec (twoU_of t r) (u - rK * (2 * (zsum t - (n - rK)) + (tK - rK)))),
           (Z.eqb_spec (twoU_of t r + rK * (2 * (zsum t - (n - rK)) + (tK - rK))) u); try reflexivity; lia.
Qed.

(** ** coefficient lists *)
Lemma nth_nil_Z (w : nat) : nth w (@nil Z) 0 = 0.
Proof. destruct w; reflexivity. Qed.

Lemma padd_nth p : forall q w, nth w (padd p q) 0 = nth w p 0 + nth w q 0.
Proof.
  induction p as [|a p IH]; intros q w.
  - cbn [padd]. rewrite nth_nil_Z. lia.
  - destruct q as [|b q]; cbn [padd].
    + rewrite nth_nil_Z. lia.
    + destruct w as [|w]; cbn [nth]; [lia | apply IH].
Qed.

Lemma padd_length p : forall q, length (padd p q) = Nat.max (length p) (length q).
Proof.
  induction p as [|a p IH]; intros q; [reflexivity|].
  destruct q as [|b q]; cbn [padd length]; [reflexivity|]. rewrite IH. reflexivity.
Qed.

Lemma pscale_nth c p : forall w, nth w (pscale c p) 0 = c * nth w p 0.
Proof.
  unfold pscale. induction p as [|a p IH]; intros w; cbn [map].
  - rewrite nth_nil_Z. lia.
  - destruct w as [|w]; cbn [nth]; [reflexivity | apply IH].
Qed.

Lemma pscale_length c p : length (pscale c p) = length p.
Proof. apply map_length. Qed.

Lemma firstn_nth_Z (l : list Z) : forall n w, (w < n)%nat -> nth w (firstn n l) 0 = nth w l 0.
Proof.
  induction l as [|a l IH]; intros n w Hw.
  - rewrite firstn_nil. reflexivity.
  - destruct n as [|n]; [lia|]. cbn [firstn]. destruct w as [|w]; cbn [nth]; [reflexivity|]. apply IH. lia.
Qed.

Lemma repeat_app_nth (s : nat) (p : list Z) w :
  nth w (repeat 0 s ++ p) 0 = if (w <? s)%nat then 0 else nth (w - s) p 0.
Proof.
  destruct (Nat.ltb_spec w s) as [H|H].
  - rewrite app_nth1 by (rewrite repeat_length; exact H). apply nth_repeat.
  - rewrite app_nth2 by (rewrite repeat_length; exact H). rewrite repeat_length. reflexivity.
Qed.

Lemma pshift_nth L s p w : (w < L)%nat ->
  nth w (pshift L s p) 0 = if (w <? Z.to_nat s)%nat then 0 else nth (w - Z.to_nat s) p 0.
Proof.
  intros Hw. unfold pshift. destruct p as [|a p].
  - rewrite !nth_nil_Z. destruct (_ <? _)%nat; reflexivity.
  - rewrite firstn_nth_Z by exact Hw. apply repeat_app_nth.
Qed.

Lemma pshift_length L s p : (length (pshift L s p) <= L)%nat.
Proof. unfold pshift. destruct p; [cbn; lia|]. rewrite firstn_length. lia. Qed.

Lemma fold_padd_nth {A} (g : A -> list Z) l : forall acc w,
  nth w (fold_left padd (map g l) acc) 0 = nth w acc 0 + sumf (fun r => nth w (g r) 0) l.
Proof.
  induction l as [|a l IH]; intros acc w; cbn [map fold_left].
  - cbn. lia.
  - rewrite IH, padd_nth, sumf_cons. lia.
Qed.

Lemma fold_padd_length {A} (g : A -> list Z) (L : nat) l : forall acc,
  (length acc <= L)%nat -> (forall r, (length (g r) <= L)%nat) ->
  (length (fold_left padd (map g l) acc) <= L)%nat.
Proof.
  induction l as [|a l IH]; intros acc Ha Hg; cbn [map fold_left]; [exact Ha|].
  apply IH; [|exact Hg]. rewrite padd_length. pose proof (Hg a). lia.
Qed.

Lemma nth_map_zrange_aux {B} (g : Z -> B) d n : forall lo k, (k < n)%nat ->
  nth k (map g (zrange_aux lo n)) d = g (lo + Z.of_nat k).
Proof.
  induction n as [|n IH]; intros lo k Hk; [lia|]. cbn [zrange_aux map].
  destruct k as [|k]; cbn [nth].
  - f_equal. lia.
  - rewrite IH by lia. f_equal. lia.
Qed.

Lemma nth_map_zrange {B} (g : Z -> B) d n j : 0 <= j <= n ->
  nth (Z.to_nat j) (map g (zrange 0 n)) d = g j.
Proof.
  intros Hj. unfold zrange. rewrite nth_map_zrange_aux by lia. f_equal. lia.
Qed.

(** a coefficient list that represents [f] below degree [L] and is nothing above *)
Definition poly_ok (L : nat) (p : list Z) (f : Z -> Z) : Prop :=
  (length p <= L)%nat /\ forall w, (w < L)%nat -> nth w p 0 = f (Z.of_nat w).

Lemma zsum_nth (p : list Z) : forall n, (length p <= n)%nat ->
  zsum p = sumf (fun w => nth (Z.to_nat w) p 0) (zrange_aux 0 n).
Proof.
  induction p as [|a p IH]; intros n Hn.
  - transitivity (sumf (fun _ : Z => 0) (zrange_aux 0 n)); [symmetry; apply sumf_zero|].
    apply sumf_ext. intros w. now rewrite nth_nil_Z.
  - destruct n as [|n]; [cbn in Hn; lia|]. cbn [zrange_aux]. rewrite sumf_cons.
    rewrite (sumf_zrange_aux_shift _ 0 n). cbn [Z.to_nat nth zsum fold_right]. fold (zsum p).
    rewrite (IH n) by (cbn in Hn; lia). f_equal.
    apply sumf_ext_in. intros w Hw. apply zrange_aux_in in Hw.
    replace (Z.to_nat (w + 1)) with (S (Z.to_nat w)) by lia. reflexivity.
Qed.

Lemma poly_ok_zsum L p f : poly_ok L p f -> zsum p = sumf f (zrange_aux 0 L).
Proof.
  intros [Hl Hc]. rewrite (zsum_nth p L Hl). apply sumf_ext_in. intros w Hw. apply zrange_aux_in in Hw.
  rewrite Hc by lia. f_equal. lia.
Qed.

Lemma poly_ok_firstn L M p f : poly_ok L p f -> poly_ok (Nat.min L M) (firstn M p) f.
Proof.
  intros [Hl Hc]. split.
  - rewrite firstn_length. lia.
  - intros w Hw. rewrite firstn_nth_Z by lia. apply Hc. lia.
Qed.

(** ** the loop invariant of [hist_loop]: after the runs [pre], entry j of the state is
    the mass function of the first-sample-size-j distribution of [pre] *)
Definition hist_inv (L : nat) (n1 : Z) (pre : list Z) (st : list (list Z)) : Prop :=
  forall j, 0 <= j <= n1 -> poly_ok L (nth (Z.to_nat j) st []) (count_eq pre j).

Lemma hist_inv_init L n1 : (1 <= L)%nat -> hist_inv L n1 [] ([1] :: repeat [] (Z.to_nat n1)).
Proof.
  intros HL j Hj. destruct (Z.eq_dec j 0) as [->|Hj0].
  - cbn [Z.to_nat nth]. split; [cbn; lia|]. intros w Hw. destruct w as [|w].
    + reflexivity.
    + change (nth (S w) [1] 0) with (nth w (@nil Z) 0). rewrite nth_nil_Z. unfold count_eq, count_if. cbn [vecs Z.eqb sumf fold_right twoU_of combine twoU_vec].
      destruct (Z.eqb_spec 0 (Z.of_nat (S w))); [lia | reflexivity].
  - replace (Z.to_nat j) with (S (Z.to_nat (j - 1))) by lia. cbn [nth].
    assert (E : nth (Z.to_nat (j - 1)) (repeat (@nil Z) (Z.to_nat n1)) [] = []).
    { destruct (nth_in_or_default (Z.to_nat (j - 1)) (repeat (@nil Z) (Z.to_nat n1)) []) as [Hin|Hd]; [|exact Hd].
      now apply repeat_spec in Hin. }
    rewrite E. split; [cbn; lia|]. intros w _. rewrite nth_nil_Z.
    unfold count_eq, count_if. cbn [vecs]. destruct (Z.eqb_spec j 0); [lia | reflexivity].
Qed.

Lemma hist_inv_step L n1 pre tk st : nonneg pre -> 0 <= tk ->
  hist_inv L n1 pre st -> hist_inv L n1 (pre ++ [tk]) (hist_step L n1 (zsum pre) tk st).
Proof.
  intros Hpre Htk Hinv j' Hj'. unfold hist_step. rewrite nth_map_zrange by exact Hj'. split.
  - apply fold_padd_length; [cbn; lia|]. intros r. rewrite pscale_length. apply pshift_length.
  - intros w Hw. rewrite fold_padd_nth, nth_nil_Z, Z.add_0_l.
    rewrite count_eq_snoc by assumption.
    rewrite (sumf_zrange_restrict
               (fun rK => choose tk rK * count_eq pre (j' - rK) (Z.of_nat w - rK * (2 * (zsum pre - (j' - rK)) + (tk - rK))))
               0 tk 0 (Z.min tk j')); [| lia | lia |].
    2:{ intros x Hx Hn. unfold count_eq. rewrite count_if_neg by lia. lia. }
    apply sumf_ext_in. intros r Hr. apply zrange_in in Hr.
    rewrite pscale_nth. f_equal. rewrite pshift_nth by exact Hw.
    destruct (Hinv (j' - r) ltac:(lia)) as [Hlen Hcoef].
    set (s := r * (2 * (zsum pre - (j' - r)) + (tk - r))).
    destruct (Z_lt_dec (zsum pre) (j' - r)) as [Hbig|Hsmall].
    + (* more chosen than there are items: the mass function is zero everywhere *)
      assert (Z0 : forall u, count_eq pre (j' - r) u = 0) by (intros u; unfold count_eq; now apply count_if_big).
      rewrite Z0. destruct (_ <? _)%nat; [reflexivity|].
      destruct (Nat.lt_ge_cases (w - Z.to_nat s) L) as [H1|H1].
      * rewrite Hcoef by exact H1. apply Z0.
      * apply nth_overflow. lia.
    + assert (Hs : 0 <= s) by (unfold s; nia).
      destruct (Nat.ltb_spec w (Z.to_nat s)) as [H1|H1].
      * symmetry. apply count_eq_below; [assumption | lia].
      * rewrite Hcoef by lia. f_equal. lia.
Qed.

Lemma hist_inv_loop L n1 t : nonneg t -> forall pre st, nonneg pre ->
  hist_inv L n1 pre st -> hist_inv L n1 (pre ++ t) (hist_loop L n1 (zsum pre) t st).
Proof.
  induction 1 as [|tk t Htk Ht IH]; intros pre st Hpre Hinv; cbn [hist_loop].
  - now rewrite app_nil_r.
  - replace (pre ++ tk :: t) with ((pre ++ [tk]) ++ t) by (rewrite <- app_assoc; reflexivity).
    replace (zsum pre + tk) with (zsum (pre ++ [tk])) by (rewrite zsum_app; cbn; lia).
    apply IH.
    + apply Forall_app. split; [assumption | now constructor].
    + now apply hist_inv_step.
Qed.

(** the histogram is the mass function, degree by degree *)
Theorem hist_is_mass L t n1 : nonneg t -> 0 <= n1 -> (1 <= L)%nat ->
  poly_ok L (hist L t n1) (count_eq t n1).
Proof.
  intros Ht Hn HL. unfold hist.
  apply (hist_inv_loop L n1 t Ht [] _ (Forall_nil _) (hist_inv_init L n1 HL) n1). lia.
Qed.

Corollary hist_coefficient L t n1 w : nonneg t -> 0 <= n1 -> (w < L)%nat ->
  nth w (hist L t n1) 0 = count_eq t n1 (Z.of_nat w).
Proof. intros Ht Hn Hw. apply (hist_is_mass L t n1 Ht Hn ltac:(lia)). exact Hw. Qed.

(** a negative first-sample size and at least one run: the state collapses *)
Lemma hist_step_neg L n1 S tk st : n1 < 0 -> hist_step L n1 S tk st = [].
Proof. intros H. unfold hist_step, zrange. replace (Z.to_nat _) with O by lia. reflexivity. Qed.

Lemma hist_loop_nil L n1 t : n1 < 0 -> forall S, hist_loop L n1 S t [] = [].
Proof.
  intros H. induction t as [|tk t IH]; intros S; cbn [hist_loop]; [reflexivity|].
  rewrite hist_step_neg by exact H. apply IH.
Qed.

Lemma hist_neg L t n1 : n1 < 0 -> t <> [] -> hist L t n1 = [].
Proof.
  intros H Ht. destruct t as [|tk t]; [congruence|]. unfold hist. cbn [hist_loop].
  rewrite hist_step_neg by exact H. rewrite hist_loop_nil by exact H. now destruct (Z.to_nat n1).
Qed.

(** ** the evaluators built on the histogram *)
Theorem fast_count_le_correct t n1 u : nonneg t -> (0 <= n1 \/ t <> []) ->
  fast_count_le t n1 u = count_le t n1 u.
Proof.
  intros Ht Hwf. unfold fast_count_le. destruct (Z.ltb_spec u 0) as [Hu|Hu].
  - symmetry. now apply count_le_below.
  - destruct (Z_lt_dec n1 0) as [Hneg|Hpos].
    + destruct Hwf as [?|Hne]; [lia|]. rewrite hist_neg by assumption. symmetry. now apply count_le_neg.
    + rewrite (poly_ok_zsum _ _ _ (hist_is_mass (Z.to_nat (u + 1)) t n1 Ht ltac:(lia) ltac:(lia))).
      replace (Z.to_nat (u + 1)) with (S (Z.to_nat u)) by lia.
      rewrite count_eq_telescope by assumption. f_equal. lia.
Qed.

Theorem fast_count_ge_correct t n1 u : nonneg t -> (0 <= n1 \/ t <> []) ->
  fast_count_ge t n1 u = count_ge t n1 u.
Proof.
  intros Ht Hwf. unfold fast_count_ge. rewrite fast_count_le_correct by assumption.
  rewrite <- count_all_total by assumption. pose proof (count_ge_le t n1 u). lia.
Qed.

(** the hypothesis on n1 cannot be dropped: with no run at all and a negative size the
    evaluator sees the initial state *)
Lemma fast_count_le_wf_needed : fast_count_le [] (-1) 0 = 1 /\ count_le [] (-1) 0 = 0.
Proof. split; reflexivity. Qed.

(** the mass function by differencing, as Corr/RunC11.v [spec_eq] forms it *)
Corollary fast_count_eq_correct t n1 u : nonneg t -> (0 <= n1 \/ t <> []) ->
  fast_count_le t n1 u - fast_count_le t n1 (u - 1) = count_eq t n1 u.
Proof.
  intros Ht Hwf. rewrite !fast_count_le_correct by assumption. pose proof (count_le_step t n1 u). lia.
Qed.

(** the binomial of the denominator *)
Theorem total_is_binom t n1 : 0 <= n1 <= zsum t -> total t n1 = binom (Z.to_nat (zsum t)) (Z.to_nat n1).
Proof. intros H. unfold total. now apply choose_binom. Qed.

Theorem total_is_count_all t n1 : nonneg t -> total t n1 = count_all t n1.
Proof. intros Ht. symmetry. now apply count_all_total. Qed.

(** * Part 2: plain enumeration of the n1-subsets of positions of the pooled sample *)

(** ** [splits]: what it enumerates *)
Lemma binom_0 n : binom n 0 = 1.
Proof. destruct n; reflexivity. Qed.

(** C(|l|, n) splits: one for every n-subset of POSITIONS of l *)
Theorem splits_length l : forall n, Z.of_nat (length (splits l n)) = binom (length l) n.
Proof.
  induction l as [|x l IH]; intros n.
  - destruct n; reflexivity.
  - cbn [splits length]. rewrite app_length, map_length, Nat2Z.inj_add, IH. destruct n as [|n].
    + cbn [length]. rewrite !binom_0. lia.
    + rewrite map_length, IH. cbn [binom]. reflexivity.
Qed.

(** each of them splits l into a chosen part of n items and the rest, keeping the order *)
Theorem splits_in l : forall n c r, In (c, r) (splits l n) ->
  length c = n /\ Permutation (c ++ r) l.
Proof.
  induction l as [|x l IH]; intros n c r Hin; cbn [splits] in Hin.
  - destruct n; [|contradiction]. destruct Hin as [E|[]]. inversion E; subst. split; [reflexivity | constructor].
  - apply in_app_or in Hin. destruct Hin as [Hin|Hin].
    + destruct n as [|n]; [contradiction|]. apply in_map_iff in Hin. destruct Hin as ([c' r'] & E & Hin).
      inversion E; subst. cbn [fst snd]. destruct (IH _ _ _ Hin) as [Hl Hp]. split; [cbn; lia|].
      cbn [app]. now constructor.
    + apply in_map_iff in Hin. destruct Hin as ([c' r'] & E & Hin). inversion E; subst. cbn [fst snd].
      destruct (IH _ _ _ Hin) as [Hl Hp]. split; [exact Hl|].
      apply Permutation_sym, Permutation_cons_app, Permutation_sym. exact Hp.
Qed.

(** ** sums over splits, with the number of chosen items in Z *)
Definition splitsZ (l : list Z) (n : Z) : list (list Z * list Z) :=
  if n <? 0 then [] else splits l (Z.to_nat n).

Lemma splitsZ_cons (G : list Z * list Z -> Z) v l n :
  sumf G (splitsZ (v :: l) n)
  = sumf (fun cr => G (v :: fst cr, snd cr)) (splitsZ l (n - 1))
    + sumf (fun cr => G (fst cr, v :: snd cr)) (splitsZ l n).
Proof.
  unfold splitsZ. destruct (Z.ltb_spec n 0) as [Hn|Hn].
  - destruct (Z.ltb_spec (n - 1) 0); [reflexivity | lia].
  - destruct (Z.ltb_spec (n - 1) 0) as [Hn1|Hn1].
    + replace n with 0 by lia. cbn [Z.to_nat splits app]. rewrite sumf_map. cbn [sumf fold_right]. lia.
    + replace (Z.to_nat n) with (S (Z.to_nat (n - 1))) by lia. cbn [splits].
      rewrite sumf_app, !sumf_map. replace (S (Z.to_nat (n - 1))) with (Z.to_nat n) by lia. reflexivity.
Qed.

(** Pascal's rule under a sum *)
Lemma pascal_sum (f : Z -> Z) k : 0 <= k ->
  sumf (fun r => choose (k + 1) r * f r) (zrange 0 (k + 1))
  = sumf (fun r => choose k r * f (r + 1)) (zrange 0 k) + sumf (fun r => choose k r * f r) (zrange 0 k).
Proof.
  intros Hk. unfold zrange.
  replace (Z.to_nat (k + 1 - 0 + 1)) with (S (S (Z.to_nat k))) by lia.
  replace (Z.to_nat (k - 0 + 1)) with (S (Z.to_nat k)) by lia.
  assert (E : forall r, choose (k + 1) r * f r = choose k (r - 1) * f r + choose k r * f r).
  { intros r. rewrite choose_pascal by lia. lia. }
  rewrite (sumf_ext _ _ _ E), sumf_plus. f_equal.
  - change (zrange_aux 0 (S (S (Z.to_nat k)))) with (0 :: zrange_aux (0 + 1) (S (Z.to_nat k))).
    rewrite sumf_cons, (choose_out k (0 - 1)) by lia. rewrite sumf_zrange_aux_shift.
    rewrite Z.mul_0_l, Z.add_0_l. apply sumf_ext. intros x. do 2 f_equal. lia.
  - rewrite (zrange_aux_snoc 0 (S (Z.to_nat k))), sumf_app, sumf_cons. cbn [sumf fold_right].
    rewrite (choose_out k (0 + Z.of_nat (S (Z.to_nat k)))) by lia. lia.
Qed.

(** a block of k equal items in front: r of them are chosen in C(k, r) ways, and every
    such way yields the same two lists *)
Lemma splitsZ_repeat v l (k : nat) : forall (G : list Z * list Z -> Z) n,
  sumf G (splitsZ (repeat v k ++ l) n)
  = sumf (fun r => choose (Z.of_nat k) r
                   * sumf (fun cr => G (repeat v (Z.to_nat r) ++ fst cr, repeat v (k - Z.to_nat r) ++ snd cr))
                          (splitsZ l (n - r)))
         (zrange 0 (Z.of_nat k)).
Proof.
  induction k as [|k IH]; intros G n.
  - cbn [repeat app Z.of_nat]. rewrite zrange_single, sumf_cons. cbn [sumf fold_right].
    change (choose 0 0) with 1. replace (n - 0) with n by lia. rewrite Z.mul_1_l, Z.add_0_r.
    apply sumf_ext. intros [c r]. reflexivity.
  - cbn [repeat app]. rewrite splitsZ_cons, !IH.
    replace (Z.of_nat (S k)) with (Z.of_nat k + 1) by lia.
    rewrite (pascal_sum (fun r => sumf (fun cr => G (repeat v (Z.to_nat r) ++ fst cr, repeat v (S k - Z.to_nat r) ++ snd cr))
                                       (splitsZ l (n - r)))) by lia.
    f_equal; apply sumf_ext_in; intros r Hr; apply zrange_in in Hr; f_equal.
    + replace (n - (r + 1)) with (n - 1 - r) by lia. apply sumf_ext. intros cr. cbn [fst snd].
      replace (Z.to_nat (r + 1)) with (S (Z.to_nat r)) by lia. reflexivity.
    + apply sumf_ext. intros cr. cbn [fst snd].
      replace (S k - Z.to_nat r)%nat with (S (k - Z.to_nat r)) by lia. reflexivity.
Qed.

(** ** every split of the pooled sample is determined by its count vector: first sample
    = pooled r, second sample = pooled (t - r), and weight t r splits share it *)
Lemma pooled_aux_cons v tk t : pooled_aux v (tk :: t) = repeat v (Z.to_nat tk) ++ pooled_aux (v + 1) t.
Proof. reflexivity. Qed.

Theorem sumf_splits_pooled t : nonneg t -> forall v n (G : list Z * list Z -> Z),
  sumf G (splitsZ (pooled_aux v t) n)
  = sumf (fun r => weight t r * G (pooled_aux v r, pooled_aux v (compl t r))) (vecs t n).
Proof.
  induction 1 as [|tk t Htk Ht IH]; intros v n G.
  - cbn [pooled_aux vecs]. unfold splitsZ. destruct (Z.ltb_spec n 0) as [Hn|Hn].
    + destruct (Z.eqb_spec n 0); [lia | reflexivity].
    + destruct (Z.eqb_spec n 0) as [->|Hn0].
      * unfold weight, compl. cbn [Z.to_nat splits sumf fold_right combine map pooled_aux]. lia.
      * replace (Z.to_nat n) with (S (Z.to_nat (n - 1))) by lia. reflexivity.
  - rewrite pooled_aux_cons, splitsZ_repeat, sumf_vecs_cons by assumption.
    rewrite Z2Nat.id by assumption. apply sumf_ext_in. intros r Hr. apply zrange_in in Hr.
    rewrite IH, <- sumf_scale. apply sumf_ext. intros r'.
    rewrite weight_cons. unfold compl. cbn [combine map fst snd]. fold (compl t r'). rewrite !pooled_aux_cons.
    replace (Z.to_nat tk - Z.to_nat r)%nat with (Z.to_nat (tk - r)) by lia. lia.
Qed.

(** ** the pair-count statistic of such a split is the count-vector statistic *)
Lemma row_score_app x ys ys' : row_score x (ys ++ ys') = row_score x ys + row_score x ys'.
Proof. induction ys as [|y ys IH]; cbn [app row_score]; lia. Qed.

Lemma twoU_pairs_app_l xs xs' ys : twoU_pairs (xs ++ xs') ys = twoU_pairs xs ys + twoU_pairs xs' ys.
Proof. induction xs as [|x xs IH]; cbn [app twoU_pairs]; lia. Qed.

Lemma twoU_pairs_app_r xs ys ys' : twoU_pairs xs (ys ++ ys') = twoU_pairs xs ys + twoU_pairs xs ys'.
Proof. induction xs as [|x xs IH]; cbn [twoU_pairs]; [lia|]. rewrite row_score_app. lia. Qed.

Lemma row_score_repeat x v (b : nat) : row_score x (repeat v b) = Z.of_nat b * pair_score x v.
Proof. induction b as [|b IH]; [reflexivity|]. cbn [repeat row_score]. rewrite IH. lia. Qed.

Lemma twoU_pairs_repeat_l v (a : nat) ys : twoU_pairs (repeat v a) ys = Z.of_nat a * row_score v ys.
Proof. induction a as [|a IH]; [reflexivity|]. cbn [repeat twoU_pairs]. rewrite IH. lia. Qed.

Lemma row_score_below v ys : Forall (fun y => v < y) ys -> row_score v ys = 0.
Proof.
  induction 1 as [|y ys Hy Hys IH]; [reflexivity|]. cbn [row_score]. rewrite IH. unfold pair_score.
  destruct (Z.ltb_spec y v); [lia|]. destruct (Z.eqb_spec v y); lia.
Qed.

Lemma twoU_pairs_above v (b : nat) xs : Forall (fun x => v < x) xs ->
  twoU_pairs xs (repeat v b) = 2 * Z.of_nat b * Z.of_nat (length xs).
Proof.
  induction 1 as [|x xs Hx Hxs IH]; [cbn; lia|]. cbn [twoU_pairs length]. rewrite IH, row_score_repeat.
  unfold pair_score. destruct (Z.ltb_spec v x); lia.
Qed.

Lemma pair_score_refl v : pair_score v v = 1.
Proof. unfold pair_score. rewrite Z.ltb_irrefl, Z.eqb_refl. reflexivity. Qed.

Lemma pooled_aux_ge t : forall v, Forall (fun x => v <= x) (pooled_aux v t).
Proof.
  induction t as [|tk t IH]; intros v; [constructor|]. rewrite pooled_aux_cons. apply Forall_app. split.
  - apply Forall_forall. intros x Hx. apply repeat_spec in Hx. lia.
  - eapply Forall_impl; [|apply (IH (v + 1))]. cbn. intros; lia.
Qed.

Lemma pooled_aux_gt t v : Forall (fun x => v < x) (pooled_aux (v + 1) t).
Proof. eapply Forall_impl; [|apply (pooled_aux_ge t (v + 1))]. cbn. intros; lia. Qed.

Lemma pooled_aux_length t : nonneg t -> forall v, Z.of_nat (length (pooled_aux v t)) = zsum t.
Proof.
  induction 1 as [|tk t Htk Ht IH]; intros v; [reflexivity|].
  rewrite pooled_aux_cons, app_length, repeat_length, Nat2Z.inj_add, IH. cbn [zsum fold_right]. fold (zsum t). lia.
Qed.

Lemma combine_bounds_nonneg t : forall r, length r = length t ->
  Forall (fun tr => 0 <= snd tr <= fst tr) (combine t r) -> nonneg r.
Proof.
  induction t as [|a t IH]; intros [|b r] Hl Hf; try discriminate; [constructor|].
  cbn [combine] in Hf. inversion Hf as [|? ? Hhd Htl]; subst. cbn [fst snd] in Hhd.
  constructor; [lia|]. apply IH; [cbn [length] in Hl; lia | exact Htl].
Qed.

Lemma twoU_pairs_pooled t : forall r v, length r = length t ->
  Forall (fun tr => 0 <= snd tr <= fst tr) (combine t r) ->
  twoU_pairs (pooled_aux v r) (pooled_aux v (compl t r)) = twoU_of t r.
Proof.
  induction t as [|tk t IH]; intros [|rk r] v Hl Hf; try discriminate; [reflexivity|].
  cbn [combine] in Hf. inversion Hf as [|? ? Hhd Htl]; subst. cbn [fst snd] in Hhd.
  assert (Hr : nonneg r) by (apply (combine_bounds_nonneg t); [cbn [length] in Hl; lia | exact Htl]).
  unfold compl. cbn [combine map fst snd]. fold (compl t r). rewrite !pooled_aux_cons.
  rewrite twoU_pairs_app_l, !twoU_pairs_app_r, !twoU_pairs_repeat_l, row_score_repeat.
  rewrite pair_score_refl, (row_score_below v _ (pooled_aux_gt _ v)).
  rewrite (twoU_pairs_above v _ _ (pooled_aux_gt r v)), pooled_aux_length by exact Hr.
  rewrite IH by (cbn in Hl; try lia; assumption).
  unfold twoU_of. cbn [combine twoU_vec].
  pose proof (twoU_vec_shift (tk - rk) (combine t r) 0) as Hs. rewrite Z.add_0_l in Hs.
  replace (0 + (tk - rk)) with (tk - rk) by lia. rewrite Hs, sumr_combine by (cbn in Hl; lia).
  rewrite !Z2Nat.id by lia. ring.
Qed.

(** ** subsets_agree: enumeration of subsets of positions = count-vector specification *)
Theorem subsets_agree (P : Z -> bool) t n1 : nonneg t -> 0 <= n1 ->
  subsets_count_if P t n1 = count_if P t n1.
Proof.
  intros Ht Hn. unfold subsets_count_if, pooled, count_if.
  pose proof (sumf_splits_pooled t Ht 1 n1 (fun cr => if P (twoU_pairs (fst cr) (snd cr)) then 1 else 0)) as H.
  unfold splitsZ in H. destruct (Z.ltb_spec n1 0); [lia|]. rewrite H.
  apply sumf_ext_in. intros r Hr. destruct (vecs_in _ _ _ Hr) as (Hl & _ & Hf).
  cbn [fst snd]. rewrite twoU_pairs_pooled by assumption. destruct (P _); lia.
Qed.

(** the hypothesis 0 <= n1 cannot be dropped ([splits] takes a natural number) *)
Lemma subsets_agree_wf_needed :
  subsets_count_if (fun _ => true) [1] (-1) = 1 /\ count_if (fun _ => true) [1] (-1) = 0.
Proof. split; reflexivity. Qed.

(** the enumeration has C(N, n1) = total elements *)
Theorem subsets_number t n1 : nonneg t -> 0 <= n1 ->
  Z.of_nat (length (splits (pooled t) (Z.to_nat n1))) = total t n1.
Proof.
  intros Ht Hn. rewrite splits_length. unfold total.
  destruct (Z_lt_dec (zsum t) n1) as [Hbig|Hsmall].
  - rewrite choose_out by lia. apply binom_gt. pose proof (pooled_aux_length t Ht 1). unfold pooled. lia.
  - rewrite choose_binom by lia. f_equal. pose proof (pooled_aux_length t Ht 1). unfold pooled. lia.
Qed.

(** * Summary statements (as quoted in Properties/C11.v) *)
Theorem fast_evaluator_correct t n1 u : nonneg t -> (0 <= n1 \/ t <> []) ->
  fast_count_le t n1 u = count_le t n1 u /\ fast_count_ge t n1 u = count_ge t n1 u.
Proof. intros Ht Hwf. split; [now apply fast_count_le_correct | now apply fast_count_ge_correct]. Qed.

Theorem total_counts_all_choices t n1 : nonneg t ->
  total t n1 = count_all t n1 /\ (0 <= n1 <= zsum t -> total t n1 = binom (Z.to_nat (zsum t)) (Z.to_nat n1)).
Proof. intros Ht. split; [now apply total_is_count_all | apply total_is_binom]. Qed.

(** the declarative reading of the tails: the number of n1-subsets of positions of the
    pooled sample whose pair-count statistic is <= u (>= u), out of C(N, n1) subsets *)
Theorem tails_count_subsets t n1 u : nonneg t -> 0 <= n1 ->
  count_le t n1 u = subsets_count_if (fun w => w <=? u) t n1 /\
  count_ge t n1 u = subsets_count_if (fun w => u <=? w) t n1 /\
  total t n1 = Z.of_nat (length (splits (pooled t) (Z.to_nat n1))).
Proof.
  intros Ht Hn. unfold count_le, count_ge. rewrite !subsets_agree by assumption.
  rewrite subsets_number by assumption. repeat split.
Qed.

Theorem splits_enumerates_subsets (l : list Z) (n : nat) :
  Z.of_nat (length (splits l n)) = binom (length l) n /\
  forall c r, In (c, r) (splits l n) -> length c = n /\ Permutation (c ++ r) l.
Proof. split; [apply splits_length | apply splits_in]. Qed.
