(** Proofs relating the model of the reader (Model/Units.v) to the declarative
    specification of a reported measurement (Model/UnitsSpec.v). *)
From Perf Require Import Base.Bytes Base.B64 Base.Utf8 Base.Unicode Model.Units Model.UnitsSpec Proofs.Units.
Local Open Scope N_scope.

Section UnitsSpecProofs.
Variable is_space : N -> bool.
Hypothesis Hascii : forall r, r < 128 -> is_space r = ascii_space r.

(** every clause of [report_ok] but the value clause holds of the model for
    all values and units; the value clause is asked of the model's product *)
Theorem report_ok_model (vj : b64 -> bytes -> b64 -> bool) v u :
  vj v u (b64_mul v (spec_factor is_space u)) = true ->
  let r := read_value is_space v u in
  report_ok is_space vj v u (v_val r, v_unit r, v_oval r, v_ounit r) = true.
Proof.
  intros Hv. cbv zeta. rewrite (read_value_spec is_space Hascii). unfold spec_value, report_ok.
  destruct (beq (spec_unit is_space u) u) eqn:E; cbn [v_val v_unit v_oval v_ounit].
  - now rewrite !b64_same_refl, !beq_refl.
  - now rewrite b64_same_refl, !beq_refl, Hv.
Qed.

(** a [.unit] matcher keeps what the reader reports iff it names the
    measurement ([named]) *)
Theorem named_is_unit_match (mt : bytes -> bool) v u :
  unit_match mt (read_value is_space v u) = named is_space mt u.
Proof. unfold named. apply (unit_filter_either is_space Hascii). Qed.

End UnitsSpecProofs.

(** ** the value clause *)

Lemma mul_nan f : b64_mul S754_nan f = S754_nan.
Proof. reflexivity. Qed.

Lemma mul_zero_pos s m e : b64_mul (S754_zero s) (S754_finite false m e) = S754_zero s.
Proof. destruct s; reflexivity. Qed.

Lemma mul_inf_pos s m e : b64_mul (S754_infinity s) (S754_finite false m e) = S754_infinity s.
Proof. destruct s; reflexivity. Qed.

(** NaN stays NaN, for every unit *)
Theorem value_ok_nan is_space relax u :
  value_ok is_space relax S754_nan u (b64_mul S754_nan (spec_factor is_space u)) = true.
Proof.
  rewrite mul_nan. unfold value_ok. destruct (spec_scales is_space u); reflexivity.
Qed.

(** zeros and infinities are fixed (sign kept) whenever the accumulated factor
    is a finite positive non-zero number *)
Theorem value_ok_zero_inf is_space u m e v :
  spec_factor is_space u = S754_finite false m e ->
  b64_is_zero v = true \/ b64_is_inf v = true ->
  value_ok is_space false v u (b64_mul v (spec_factor is_space u)) = true.
Proof.
  intros Hf Hv. rewrite Hf.
  assert (Hm : b64_mul v (S754_finite false m e) = v).
  { destruct v as [s|s| |s m' e']; cbn in Hv; try (destruct Hv; discriminate).
    - apply mul_zero_pos. - apply mul_inf_pos. }
  rewrite Hm. unfold value_ok.
  destruct (spec_scales is_space u) as [|s0 ss]; [apply b64_same_refl|].
  apply orb_true_iff. left. unfold scaled_ok.
  destruct v as [s|s| |s m' e']; cbn in Hv; try (destruct Hv; discriminate); apply b64_same_refl.
Qed.

(** ... and otherwise they are NOT: the accumulated factor of 52 "MB"
    components is +Inf and 0 * Inf = NaN; that of 36 "ns" components is 0 and
    Inf * 0 = NaN; a finite value whose real product is representable is
    reported as an infinity (1e-320 * 1e312 = 1e-8) or as zero.  The relaxed
    judge [value_ok .. true ..] (known finding C04_scale_factor_out_of_range)
    accepts exactly these products. *)
Definition many (t : bytes) (k : nat) : bytes := concat (repeat (t ++ bs "*") (k - 1)) ++ t.

Theorem value_scaling_refuted :
  exists v u, value_ok go_is_space false v u (v_val (read_value go_is_space v u)) = false
           /\ value_ok go_is_space true v u (v_val (read_value go_is_space v u)) = true.
Proof. exists (S754_zero false), (many (bs "MB") 52). vm_compute. split; reflexivity. Qed.

Example value_scaling_refuted_witnesses :
  let bad v u := negb (value_ok go_is_space false v u (v_val (read_value go_is_space v u)))
                 && value_ok go_is_space true v u (v_val (read_value go_is_space v u)) in
  bad (S754_zero false) (many (bs "MB") 52) = true /\
  bad (S754_infinity false) (many (bs "ns") 36) = true /\
  bad (b64_of_bits 0x7E8) (many (bs "MB") 52) = true /\            (* 1e-320 *)
  bad (b64_of_bits 0x7E37E43C8800759C) (many (bs "ns") 36) = true /\ (* 1e300 *)
  bad (b64_of_Z 1000) (many (bs "ns") 35) = true /\
  (* one component less: fine *)
  bad (S754_zero false) (many (bs "MB") 51) = false /\
  bad (b64_of_Z 1000) (many (bs "ns") 34) = false /\
  (* NaN is NaN whatever the factor *)
  bad S754_nan (many (bs "MB") 60) = false.
Proof. vm_compute. repeat split. Qed.

(** the acceptance is a tolerance, not one evaluation order: scaling per
    component, or multiplying by the literal 1e-9, is accepted as well *)
Example value_ok_other_orders :
  let u := bs "ns*ns*MB/op" in
  let v := b64_of_bits 0x405EDCCCCCCCCCCD in      (* 123.45 *)
  value_ok go_is_space false v u (b64_mul v (spec_factor go_is_space u)) = true /\
  value_ok go_is_space false v u (b64_mul (b64_div (b64_div v f_1e9) f_1e9) f_1e6) = true /\
  value_ok go_is_space false v u (b64_mul (b64_mul (b64_mul v f_1em9) f_1em9) f_1e6) = true /\
  (* but not a wrong scale *)
  value_ok go_is_space false v u (b64_mul (b64_div v f_1e9) f_1e6) = false /\
  value_ok go_is_space false v u (b64_mul (b64_mul v (spec_factor go_is_space u)) (b64_of_bits 0x3FF0000000001000)) = false.
Proof. vm_compute. repeat split. Qed.

Example factor_hypothesis_satisfiable :
  exists m e, spec_factor go_is_space (bs "MB*ns/op") = S754_finite false m e.
Proof. vm_compute. eexists. eexists. reflexivity. Qed.
