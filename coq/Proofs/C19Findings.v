(** Witnesses of C19's recorded findings, evaluated on the model by vm_compute:
    what the storage layer answers next to what the property demands
    (Query.terms_hold over the results the format's rules give). *)
From Perf Require Import Base.Bytes Model.Words Model.Query Model.StoreFmt Model.RecordRuns Model.LabelSpec.

Definition one_file_upload (body : bytes) : upload_in :=
  mkUploadIn (bs "19700101.1") (bs "t") (bs "user") [mkUfile (bs "w.txt") body].

Definition stored (u : upload_in) : db := fst (apply_upload [] u).

(** the results the property demands for a query text *)
Definition demanded (u : upload_in) (q : bytes) : option (list result) :=
  match query_terms q with
  | Some ts => Some (filter (fun r => terms_hold ts (r_labels r ++ r_namelabels r))
                            (spec_upload_results u 0 (u_files u)))
  | None => None
  end.

(** C19_empty_equality_refused: a: (and "a:" name:X) is refused although one
    stored result carries a = "" *)
Definition eq_witness : upload_in :=
  one_file_upload (bs "BenchmarkX/a= 1 ns/op" ++ [c_lf] ++ bs "BenchmarkY/a=1 1 ns/op" ++ [c_lf]).

Lemma empty_equality_refused :
  db_query (stored eq_witness) (bs "a:") = inr EMissingValue
  /\ db_query (stored eq_witness) (bs "a: name:X") = inr EMissingValue
  /\ list_uploads (stored eq_witness) (bs "a:") 0 = inr EMissingValue
  /\ (exists r, demanded eq_witness (bs "a:") = Some [r] /\ demanded eq_witness (bs "a: name:X") = Some [r]
                /\ lookup (bs "a") (r_namelabels r) = Some [])
  /\ (exists r, db_query (stored eq_witness) (bs "name:X") = inl [r]).
Proof.
  repeat split; try (vm_compute; reflexivity).
  - eexists. repeat split; vm_compute; reflexivity.
  - eexists. vm_compute. reflexivity.
Qed.

(** C19_empty_name_label_value: a> returns (and the listing counts) the result
    whose a is empty, although "" > "" is false *)
Lemma empty_value_gt_matches :
  demanded eq_witness (bs "a>") = Some (match demanded eq_witness (bs "a:1") with Some l => l | None => [] end)
  /\ (exists r1 r2, db_query (stored eq_witness) (bs "a>") = inl [r1; r2])
  /\ (exists r2, demanded eq_witness (bs "a>") = Some [r2])
  /\ list_uploads (stored eq_witness) (bs "a>") 0 = inl [(bs "19700101.1", 2%N)].
Proof.
  repeat split; try (vm_compute; reflexivity).
  - do 2 eexists. vm_compute. reflexivity.
  - eexists. vm_compute. reflexivity.
Qed.

(** C19_trailing_cr_lost: file bytes k: v CR CR LF / BenchmarkX 1 ns/op CR CR LF:
    indexed with k = "v\r" (found by k>v, not by k:v), returned with k = "v"
    and the line without its CR *)
Definition cr_witness : upload_in :=
  one_file_upload (bs "k: v" ++ [c_cr; c_cr; c_lf] ++ bs "BenchmarkX 1 ns/op" ++ [c_cr; c_cr; c_lf]).

Lemma trailing_cr_lost :
  exists r r',
    demanded cr_witness (bs "k>v") = Some [r] /\ db_query (stored cr_witness) (bs "k>v") = inl [r']
    /\ db_query (stored cr_witness) (bs "k:v") = inl []
    /\ lookup (bs "k") (r_labels r) = Some (bs "v" ++ [c_cr]) /\ lookup (bs "k") (r_labels r') = Some (bs "v")
    /\ r_content r = bs "BenchmarkX 1 ns/op" ++ [c_cr] /\ r_content r' = bs "BenchmarkX 1 ns/op".
Proof. do 2 eexists. repeat split; vm_compute; reflexivity. Qed.
