(** Proofs about Model/BenchMath.v: the sort performed by NewSample is a
    canonical form (so summaries and comparisons do not depend on the order of
    the measurements), and AssumeExact's scan over the sorted values finds the
    most frequent value and warns exactly when the values differ. *)
From Coq Require Import Sorting.Permutation Sorting.Sorted.
From Perf Require Import Base.Bytes Base.B64 Base.B64Order Base.FmtPct
     Model.StatsF Model.MoreMathU Model.BenchMath Model.BenchMathSpec.
Local Open Scope Z_scope.

Definition leP (a b : b64) : Prop := b64_le a b = true.

(** ** insertion sort: permutation, sortedness, canonical form *)
Lemma insert_f_perm x l : Permutation (x :: l) (insert_f x l).
Proof.
  induction l as [|y l IH]; cbn; [reflexivity|].
  destruct (b64_le x y); [reflexivity|].
  rewrite perm_swap. now apply perm_skip.
Qed.

Lemma sort_f_perm l : Permutation l (sort_f l).
Proof.
  induction l as [|x l IH]; cbn; [constructor|].
  change (fold_right insert_f [] l) with (sort_f l).
  rewrite <- insert_f_perm. now apply perm_skip.
Qed.

Lemma sort_f_cons x l : sort_f (x :: l) = insert_f x (sort_f l).
Proof. reflexivity. Qed.

Lemma Forall_perm {A} (P : A -> Prop) l l' : Permutation l l' -> Forall P l -> Forall P l'.
Proof. intros H. apply Permutation_Forall. exact H. Qed.

Lemma insert_comm x y l :
  ordinary x -> ordinary y -> Forall ordinary l ->
  insert_f x (insert_f y l) = insert_f y (insert_f x l).
Proof.
  intros Hx Hy Hl.
  assert (Nx := ordinary_nonnan _ Hx). assert (Ny := ordinary_nonnan _ Hy).
  assert (base : forall r, (if b64_le x y then x :: y :: r else y :: x :: r)
                           = (if b64_le y x then y :: x :: r else x :: y :: r)).
  { intros r. destruct (b64_le x y) eqn:Exy, (b64_le y x) eqn:Eyx; auto.
    - rewrite (b64_le_antisym x y); auto.
    - destruct (b64_le_total x y Nx Ny); congruence. }
  induction Hl as [|z l Hz Hl IH]; cbn.
  - apply base.
  - assert (Nz := ordinary_nonnan _ Hz).
    destruct (b64_le y z) eqn:Eyz, (b64_le x z) eqn:Exz; cbn.
    + specialize (base (z :: l)).
      destruct (b64_le x y) eqn:Exy, (b64_le y x) eqn:Eyx; cbn; rewrite ?Exz, ?Eyz; auto.
    + destruct (b64_le x y) eqn:Exy; cbn.
      * rewrite (b64_le_trans x y z) in Exz; auto. discriminate.
      * rewrite Exz, Eyz. reflexivity.
    + destruct (b64_le y x) eqn:Eyx; cbn.
      * rewrite (b64_le_trans y x z) in Eyz; auto. discriminate.
      * rewrite Exz, Eyz. reflexivity.
    + rewrite Exz, Eyz. now rewrite IH.
Qed.

Lemma insert_f_Forall (P : b64 -> Prop) x l : P x -> Forall P l -> Forall P (insert_f x l).
Proof. intros Hx Hl. eapply Forall_perm; [apply insert_f_perm|]. now constructor. Qed.

Lemma sort_f_Forall (P : b64 -> Prop) l : Forall P l -> Forall P (sort_f l).
Proof. intros H. eapply Forall_perm; [apply sort_f_perm|exact H]. Qed.

(** any reordering of ordinary values sorts to the same list *)
Lemma sort_f_canonical l l' :
  Permutation l l' -> Forall ordinary l -> sort_f l = sort_f l'.
Proof.
  induction 1 as [|x l l' Hp IH|x y l|l l' l'' Hp1 IH1 Hp2 IH2]; intros Hl.
  - reflexivity.
  - rewrite !sort_f_cons. inversion Hl; subst. now rewrite IH.
  - rewrite !sort_f_cons. inversion Hl as [|? ? Hy Hl']; subst. inversion Hl' as [|? ? Hx Hl'']; subst.
    apply insert_comm; auto. now apply sort_f_Forall.
  - rewrite IH1 by assumption. apply IH2. eapply Forall_perm; eauto.
Qed.

Lemma insert_f_sorted x l :
  nonnan x -> Forall nonnan l -> StronglySorted leP l -> StronglySorted leP (insert_f x l).
Proof.
  intros Nx Nl Hs. induction Hs as [|y l Hs IH Hy]; cbn.
  - repeat constructor.
  - inversion Nl as [|? ? Ny Nl']; subst.
    destruct (b64_le x y) eqn:E.
    + constructor; [now constructor|]. constructor; [exact E|].
      rewrite Forall_forall in *. intros w Hw. unfold leP.
      apply (b64_le_trans x y w); auto. now apply Hy.
    + constructor; [now apply IH|].
      eapply Forall_perm; [apply insert_f_perm|]. constructor; [|exact Hy].
      unfold leP. destruct (b64_le_total x y Nx Ny); congruence.
Qed.

Lemma sort_f_sorted l : Forall nonnan l -> StronglySorted leP (sort_f l).
Proof.
  induction 1 as [|x l Hx Hl IH]; [constructor|].
  rewrite sort_f_cons. apply insert_f_sorted; auto. now apply sort_f_Forall.
Qed.

(** ** NewSample is a canonical form: nothing computed from samples depends on
    the order of the measurements *)
Lemma new_sample_perm xs xs' t :
  Permutation xs xs' -> Forall ordinary xs -> new_sample xs t = new_sample xs' t.
Proof. intros Hp Ho. unfold new_sample. now rewrite (sort_f_canonical xs xs'). Qed.

Lemma compare_perm_invariant uf wf a t1 t2 xs xs' ys ys' :
  Permutation xs xs' -> Permutation ys ys' ->
  Forall ordinary xs -> Forall ordinary ys ->
  compare uf wf a (new_sample xs t1) (new_sample ys t2)
  = compare uf wf a (new_sample xs' t1) (new_sample ys' t2).
Proof.
  intros Hx Hy Ox Oy.
  now rewrite (new_sample_perm xs xs' t1 Hx Ox), (new_sample_perm ys ys' t2 Hy Oy).
Qed.

(** ** occurrences *)
Lemma occ_cons v x l : occurrences v (x :: l) = (if b64_eq v x then 1 else 0) + occurrences v l.
Proof.
  unfold occurrences, count_if, zlen. cbn [filter]. destruct (b64_eq v x); cbn [length]; lia.
Qed.

Lemma occ_nil v : occurrences v [] = 0.
Proof. reflexivity. Qed.

Lemma occ_app v l1 l2 : occurrences v (l1 ++ l2) = occurrences v l1 + occurrences v l2.
Proof.
  induction l1 as [|x l1 IH]; cbn [app]; [rewrite occ_nil; lia|]. rewrite !occ_cons, IH. lia.
Qed.

Lemma occ_nonneg v l : 0 <= occurrences v l.
Proof. unfold occurrences, count_if, zlen. lia. Qed.

Lemma occ_le_len v l : occurrences v l <= zlen l.
Proof.
  induction l as [|x l IH]; [rewrite occ_nil; cbn; lia|].
  rewrite occ_cons. unfold zlen in *. cbn [length]. destruct (b64_eq v x); lia.
Qed.

Lemma occ_congr w v l :
  nonnan w -> nonnan v -> Forall nonnan l -> b64_eq w v = true -> occurrences w l = occurrences v l.
Proof.
  intros Nw Nv Nl E. induction Nl as [|x l Nx Nl IH]; [reflexivity|].
  rewrite !occ_cons, IH. f_equal.
  destruct (b64_eq w x) eqn:A, (b64_eq v x) eqn:B; auto.
  - rewrite (b64_eq_sym w v) in E by auto.
    rewrite (b64_eq_trans v w x) in B; auto. discriminate.
  - rewrite (b64_eq_trans w v x) in A; auto. discriminate.
Qed.

Lemma occ_pos v l : nonnan v -> In v l -> 1 <= occurrences v l.
Proof.
  intros Nv. induction l as [|x l IH]; [intros []|]. intros [->|H]; rewrite occ_cons.
  - rewrite b64_eq_refl by auto. pose proof (occ_nonneg v l). lia.
  - specialize (IH H). destruct (b64_eq v x); lia.
Qed.

Lemma occ_zero v l : (forall w, In w l -> b64_eq v w = false) -> occurrences v l = 0.
Proof.
  induction l as [|x l IH]; intros H; [reflexivity|]. rewrite occ_cons, H by (left; reflexivity).
  rewrite IH; [lia|]. intros w Hw. apply H. now right.
Qed.

Lemma occ_full v l : occurrences v l = zlen l <-> forall w, In w l -> b64_eq v w = true.
Proof.
  induction l as [|x l IH]; [split; [intros _ w []|reflexivity]|].
  rewrite occ_cons. unfold zlen in *. cbn [length].
  pose proof (occ_le_len v l) as Hle. unfold zlen in Hle. split.
  - intros H w [<-|Hw].
    + destruct (b64_eq v x); [reflexivity|lia].
    + apply IH; [|exact Hw]. destruct (b64_eq v x); lia.
  - intros H. rewrite (H x) by (left; reflexivity).
    assert (occurrences v l = Z.of_nat (length l)) by (apply IH; intros w Hw; apply H; now right). lia.
Qed.

Lemma occ_perm v l l' : Permutation l l' -> occurrences v l = occurrences v l'.
Proof.
  induction 1; rewrite ?occ_cons; try lia; reflexivity.
Qed.

(** ** the mode scan *)
Lemma mode_scan_inv vs : forall pre val count mv mc,
  Forall nonnan (pre ++ vs) ->
  In val pre -> (forall w, In w pre -> b64_le w val = true) ->
  StronglySorted leP (val :: vs) ->
  count = occurrences val pre ->
  In mv pre -> mc = occurrences mv pre ->
  (forall w, In w pre -> occurrences w pre <= mc) ->
  let '(mv', mc') := mode_scan vs val count mv mc in
  In mv' (pre ++ vs) /\ mc' = occurrences mv' (pre ++ vs)
  /\ forall w, In w (pre ++ vs) -> occurrences w (pre ++ vs) <= mc'.
Proof.
  induction vs as [|v vs IH]; intros pre val count mv mc Hnn Hval Hmax Hss Hcount Hmv Hmc Hall.
  - cbn [mode_scan]. rewrite app_nil_r. auto.
  - cbn [mode_scan]. subst count.
    assert (Hpre : Forall nonnan pre) by (apply Forall_app in Hnn; tauto).
    assert (Nv : nonnan v) by (apply Forall_app in Hnn; destruct Hnn as [_ H]; now inversion H).
    assert (Nin : forall w, In w pre -> nonnan w) by (now apply Forall_forall).
    assert (Nval := Nin _ Hval). assert (Nmv := Nin _ Hmv).
    destruct (StronglySorted_inv Hss) as [Hss' Hge].
    destruct (StronglySorted_inv Hss') as [Hss'' Hgev].
    assert (Hvalv := Forall_inv Hge). assert (Hge' := Forall_inv_tail Hge).
    unfold leP in Hvalv.
    replace (pre ++ v :: vs) with ((pre ++ [v]) ++ vs) in * by (now rewrite <- app_assoc).
    assert (Hocc : forall w, occurrences w (pre ++ [v]) = occurrences w pre + (if b64_eq w v then 1 else 0)).
    { intros w. rewrite occ_app, occ_cons, occ_nil. lia. }
    destruct (b64_eq v val) eqn:Eq.
    + (* v continues the current run *)
      assert (Eq' : b64_eq val v = true) by (rewrite b64_eq_sym; auto).
      assert (Hrun : forall w, In w (pre ++ [v]) -> b64_eq w v = true ->
                               occurrences w (pre ++ [v]) = occurrences val pre + 1).
      { intros w Hw E. rewrite Hocc, E.
        assert (Nw : nonnan w) by (apply in_app_or in Hw; destruct Hw as [Hw|[<-|[]]]; auto).
        rewrite (occ_congr w val pre); auto. apply (b64_eq_trans w v val); auto. }
      destruct (mc <? occurrences val pre + 1) eqn:Elt.
      * apply IH; auto.
        -- apply in_or_app; now left.
        -- intros w Hw. apply in_app_or in Hw. destruct Hw as [Hw|[<-|[]]]; auto.
           apply b64_eq_le_ge in Eq; tauto.
        -- constructor; assumption.
        -- rewrite Hocc, Eq'. reflexivity.
        -- apply in_or_app; now left.
        -- rewrite Hocc, Eq'. reflexivity.
        -- intros w Hw. destruct (b64_eq w v) eqn:E.
           ++ rewrite (Hrun w Hw E). lia.
           ++ rewrite Hocc, E. apply in_app_or in Hw. destruct Hw as [Hw|[<-|[]]].
              ** apply Z.ltb_lt in Elt. specialize (Hall w Hw). lia.
              ** rewrite b64_eq_refl in E by auto. discriminate.
      * apply Z.ltb_ge in Elt.
        assert (Emv : b64_eq mv v = false).
        { destruct (b64_eq mv v) eqn:E; auto. exfalso.
          assert (b64_eq mv val = true) by (apply (b64_eq_trans mv v val); auto).
          rewrite Hmc, (occ_congr mv val pre) in Elt; auto. lia. }
        apply IH; auto.
        -- apply in_or_app; now left.
        -- intros w Hw. apply in_app_or in Hw. destruct Hw as [Hw|[<-|[]]]; auto.
           apply b64_eq_le_ge in Eq; tauto.
        -- constructor; assumption.
        -- rewrite Hocc, Eq'. reflexivity.
        -- apply in_or_app; now left.
        -- rewrite Hocc, Emv. lia.
        -- intros w Hw. destruct (b64_eq w v) eqn:E.
           ++ rewrite (Hrun w Hw E). lia.
           ++ rewrite Hocc, E. apply in_app_or in Hw. destruct Hw as [Hw|[<-|[]]].
              ** specialize (Hall w Hw). lia.
              ** rewrite b64_eq_refl in E by auto. discriminate.
    + (* v starts a new run: nothing seen so far equals it *)
      assert (Hnew : forall w, In w pre -> b64_eq w v = false).
      { intros w Hw. destruct (b64_eq w v) eqn:E; auto. exfalso.
        assert (Nw := Nin _ Hw).
        apply b64_eq_le_ge in E; auto. destruct E as [_ E].
        assert (b64_le v val = true) by (apply (b64_le_trans v w val); auto).
        assert (b64_eq v val = true) by (apply b64_eq_le_ge; auto).
        congruence. }
      assert (Hnew' : forall w, In w pre -> b64_eq v w = false).
      { intros w Hw. rewrite b64_eq_sym; auto. }
      apply IH; auto.
      * apply in_or_app; right; now left.
      * intros w Hw. apply in_app_or in Hw. destruct Hw as [Hw|[<-|[]]].
        -- apply (b64_le_trans w val v); auto.
        -- now apply b64_le_refl.
      * rewrite Hocc, b64_eq_refl by auto. rewrite (occ_zero v pre Hnew'). reflexivity.
      * apply in_or_app; now left.
      * rewrite Hocc, (Hnew mv Hmv). lia.
      * intros w Hw. rewrite Hocc. apply in_app_or in Hw. destruct Hw as [Hw|[<-|[]]].
        -- rewrite (Hnew w Hw). specialize (Hall w Hw). lia.
        -- rewrite b64_eq_refl by auto. rewrite (occ_zero v pre Hnew').
           pose proof (occ_pos mv pre Nmv Hmv). lia.
Qed.

Lemma summary_exact_scan xs t sm :
  Forall nonnan xs ->
  summary_exact (new_sample xs t) = Some sm ->
  In (sm_center sm) xs
  /\ (forall w, In w xs -> occurrences w xs <= occurrences (sm_center sm) xs)
  /\ (sm_warn sm = [] <-> occurrences (sm_center sm) xs = zlen xs)
  /\ (sm_warn sm = [] \/ sm_warn sm = [WRange]).
Proof.
  intros Hnn. unfold summary_exact, new_sample. cbn [s_values].
  pose proof (sort_f_perm xs) as Hp.
  pose proof (sort_f_sorted xs Hnn) as Hs.
  pose proof (sort_f_Forall nonnan xs Hnn) as Hn.
  destruct (sort_f xs) as [|v0 rest] eqn:E; [discriminate|].
  assert (Nv0 : nonnan v0) by now inversion Hn.
  pose proof (mode_scan_inv rest [v0] v0 1 v0 1) as H.
  cbn [app] in H.
  destruct (mode_scan rest v0 1 v0 1) as [mv mc].
  assert (Hone : occurrences v0 [v0] = 1) by (rewrite occ_cons, occ_nil, b64_eq_refl by auto; lia).
  destruct H as (Hin & Hmc & Hall); auto.
  - now left.
  - intros w [<-|[]]. now apply b64_le_refl.
  - now left.
  - intros w [<-|[]]. lia.
  - intros [= <-]. cbn [sm_center sm_warn].
    assert (Hlen : zlen (v0 :: rest) = zlen xs).
    { unfold zlen. now rewrite (Permutation_length Hp). }
    repeat split.
    + eapply Permutation_in; [symmetry; exact Hp|exact Hin].
    + intros w Hw. rewrite (occ_perm w _ _ Hp), (occ_perm mv _ _ Hp), <- Hmc.
      apply Hall. eapply Permutation_in; eauto.
    + rewrite (occ_perm mv _ _ Hp), <- Hmc, <- Hlen. destruct (mc =? zlen (v0 :: rest)) eqn:F.
      * intros _. now apply Z.eqb_eq.
      * discriminate.
    + rewrite (occ_perm mv _ _ Hp), <- Hmc, <- Hlen. intros F. apply Z.eqb_eq in F. now rewrite F.
    + destruct (mc =? zlen (v0 :: rest)); auto.
Qed.

(** the centre is a most frequent value of the sample *)
Lemma exact_centre_is_mode xs t sm :
  Forall nonnan xs ->
  summary_exact (new_sample xs t) = Some sm ->
  In (sm_center sm) xs /\ forall w, In w xs -> occurrences w xs <= occurrences (sm_center sm) xs.
Proof. intros H E. destruct (summary_exact_scan xs t sm H E) as (A & B & _). auto. Qed.

(** no warning exactly when all values are equal (as Go's [==] sees them) *)
Lemma exact_warning_iff_values_differ xs t sm :
  Forall nonnan xs ->
  summary_exact (new_sample xs t) = Some sm ->
  (sm_warn sm = [] <-> forall x y, In x xs -> In y xs -> b64_eq x y = true)
  /\ (sm_warn sm <> [] -> sm_warn sm = [WRange]).
Proof.
  intros Hnn E. destruct (summary_exact_scan xs t sm Hnn E) as (Hin & _ & Hw & Hshape).
  assert (Nin : forall w, In w xs -> nonnan w) by (now apply Forall_forall).
  split.
  - rewrite Hw, occ_full. split.
    + intros H x y Hx Hy.
      apply (b64_eq_trans x (sm_center sm) y); auto.
      rewrite b64_eq_sym; auto.
    + intros H w Hw'. now apply H.
  - destruct Hshape as [->| ->]; congruence.
Qed.

(** a summary exists for every non-empty sample *)
Lemma summary_exact_total xs t : xs <> [] -> exists sm, summary_exact (new_sample xs t) = Some sm.
Proof.
  intros H. unfold summary_exact, new_sample. cbn [s_values].
  destruct (sort_f xs) as [|v0 rest] eqn:E.
  - exfalso. apply H. apply Permutation_nil. rewrite <- E. symmetry. apply sort_f_perm.
  - destruct (mode_scan rest v0 1 v0 1). eauto.
Qed.

(** ** the uTestMinP table is 2 / C(2n, n) correctly rounded *)
Lemma utest_min_p_is_two_over_binom :
  utest_min_p = map (fun n => b64_div (b64_of_Z 2) (b64_of_Z (binom (2 * n) n))) (zrange 1 9).
Proof. vm_compute. reflexivity. Qed.

(** ** the group-wise evaluation of the permutation p-value agrees with plain
    enumeration: bounded check over all pairs of non-decreasing samples of up
    to 3 values from {1,2,3} (both orders) *)
Fixpoint nondecr (fuel : nat) (lo : Z) : list (list b64) :=
  match fuel with
  | O => [[]]
  | S f => [] :: flat_map (fun v => map (cons (fl v)) (nondecr f v)) (zrange lo 3)
  end.
Definition small_samples : list (list b64) :=
  filter (fun l : list b64 => match l with [] => false | _ => true end) (nondecr 3 1).

Lemma perm_p_dp_agrees_small :
  forallb (fun x1 => forallb (fun x2 => rat_eq (perm_p x1 x2) (perm_p_dp x1 x2)
                                        && (snd (perm_p_dp x1 x2) =? snd (perm_p x1 x2)))
                             small_samples) small_samples = true.
Proof. vm_compute. reflexivity. Qed.

(** the go-moremath witness: reported 3/2 and 1/2 where the permutation p is 1/2 *)
Lemma moremath_tied_exact_path_refuted :
  exists x1 x2,
    utest x1 x2 = UExactP 6 4 /\ utest x2 x1 = UExactP 2 4
    /\ perm_p x1 x2 = (2, 4) /\ perm_p x2 x1 = (2, 4).
Proof. exists [fl 2], [fl 1; fl 1; fl 1]. vm_compute. repeat split. Qed.

(** the specification's p-value is a probability *)
Lemma perm_p_in_unit x1 x2 : 0 <= fst (perm_p x1 x2) <= snd (perm_p x1 x2).
Proof.
  unfold perm_p, two_sided, count_if, zlen. cbn [fst snd]. lia.
Qed.

(** KNOWN FINDING C13_normal_compare_overflow_panic: samples whose
    (variance/n)^2 overflows make go-moremath's Welch test panic inside
    betainc; AssumeNormal.Compare has no result *)
Definition overflow_x1 : list b64 := [b64_of_ZE 1 (-220); b64_of_ZE 2 (-220); b64_of_ZE 3 (-220)].
Definition overflow_x2 : list b64 := [b64_of_ZE 1 260; b64_of_ZE 2 260; b64_of_ZE 4 260].

Lemma normal_compare_overflow_panic_refuted :
  exists x1 x2 t,
    Forall (fun x => b64_is_finite x = true) (x1 ++ x2)
    /\ b64_is_nan (w_dof (welch_stats x1 x2)) = true
    /\ forall uf p_o, compare uf (welch_outcome p_o) ANormal (new_sample x1 t) (new_sample x2 t) = None.
Proof.
  exists overflow_x1, overflow_x2, (mkThr f_zero). split; [|split].
  - repeat constructor.
  - vm_compute. reflexivity.
  - intros uf p_o. vm_compute. reflexivity.
Qed.

(** outside that domain the normal comparison always has a result *)
Lemma compare_normal_total uf p_o s1 s2 :
  tcdf_panics (w_dof (welch_stats (s_values s1) (s_values s2)))
              (w_t (welch_stats (s_values s1) (s_values s2))) = false ->
  exists c, compare uf (welch_outcome p_o) ANormal s1 s2 = Some c.
Proof.
  intros H. cbn [compare]. unfold compare_normal, welch_outcome. rewrite H.
  destruct (_ || _); [eauto|]. destruct (_ && _); eauto.
Qed.
