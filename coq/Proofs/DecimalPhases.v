(** The loops of floatBits (Model/Decimal.v): scaling down ([fb_down]), scaling
    up ([fb_up]); they terminate within the fuel, keep the invariant of
    Proofs/DecimalInv.v and end with a number in [1/2, 1). *)
From Coq Require Import ZArith Reals Lia Lra List Bool.
From Flocq Require Import Core.Core.
From Perf Require Import Base.Bytes Model.Decimal Proofs.DecimalBase Proofs.DecimalShift Proofs.RnB64
                         Proofs.DecimalValue Proofs.DecimalInv.
Import ListNotations.
Local Open Scope Z_scope.

(** ** powtab *)
Lemma pow_step_cases t : 0 <= t ->
  (t = 0 /\ pow_step t = 1) \/ (t = 1 /\ pow_step t = 3) \/ (t = 2 /\ pow_step t = 6) \/
  (t = 3 /\ pow_step t = 9) \/ (t = 4 /\ pow_step t = 13) \/ (t = 5 /\ pow_step t = 16) \/
  (t = 6 /\ pow_step t = 19) \/ (t = 7 /\ pow_step t = 23) \/ (t = 8 /\ pow_step t = 26) \/
  (9 <= t /\ pow_step t = 27).
Proof.
  intros Ht. unfold pow_step. change (Z.of_nat (length powtab)) with 9.
  destruct (Z.leb_spec 9 t) as [H9|H9]; [repeat right; split; [lia|reflexivity]|].
  assert (Hc : t = 0 \/ t = 1 \/ t = 2 \/ t = 3 \/ t = 4 \/ t = 5 \/ t = 6 \/ t = 7 \/ t = 8) by lia.
  repeat (destruct Hc as [->|Hc]; [tauto|]). subst t. tauto.
Qed.

Lemma pow_step_range t : 0 <= t -> 1 <= pow_step t <= 27.
Proof. intros Ht. pose proof (pow_step_cases t Ht). lia. Qed.

Lemma pow_step_le10 t : 1 <= t -> 2 ^ pow_step t <= 10 ^ t.
Proof.
  intros Ht. destruct (pow_step_cases t ltac:(lia)) as [H|H]; [lia|].
  repeat (destruct H as [[-> ->]|H]; [vm_compute; discriminate|]).
  destruct H as [H9 ->]. apply Z.le_trans with (10 ^ 9); [vm_compute; discriminate|].
  apply Z.pow_le_mono_r; lia.
Qed.

(** ** well-formed decimals and one half *)
Lemma Vr_hd_lt5 a d0 r : wf a -> dc_d a = d0 :: r -> d0 < 5 -> (Vr a < bpow radix10 (dc_dp a) / 2)%R.
Proof.
  intros (Hd & _ & _) E H5. unfold Vr. rewrite E in *. apply digits_ok_cons in Hd as [Hd0 Hr].
  pose proof (dv_bound r Hr). rewrite dv_cons, zlen_cons. pose proof (zlen_nonneg r).
  replace (dc_dp a) with ((zlen r + 1) + (dc_dp a - (zlen r + 1))) at 2 by lia. rewrite bpow_plus.
  pose proof (bpow_gt_0 radix10 (dc_dp a - (zlen r + 1))) as Hp.
  rewrite <- (IZR_pow10 (zlen r + 1)) by lia. rewrite Z.pow_add_r, Z.pow_1_r by lia.
  pose proof (pow10_gt0 (zlen r) ltac:(lia)).
  assert (2 * (d0 * 10 ^ zlen r + dv r) < 10 ^ zlen r * 10) by nia.
  apply IZR_lt in H2. rewrite !mult_IZR, plus_IZR, mult_IZR in *. nra.
Qed.

Lemma Vr_hd_ge5 a d0 r : wf a -> dc_d a = d0 :: r -> 5 <= d0 -> (bpow radix10 (dc_dp a) / 2 <= Vr a)%R.
Proof.
  intros (Hd & _ & _) E H5. unfold Vr. rewrite E in *. apply digits_ok_cons in Hd as [Hd0 Hr].
  pose proof (dv_bound r Hr). rewrite dv_cons, zlen_cons. pose proof (zlen_nonneg r).
  replace (dc_dp a) with ((zlen r + 1) + (dc_dp a - (zlen r + 1))) at 1 by lia. rewrite bpow_plus.
  pose proof (bpow_gt_0 radix10 (dc_dp a - (zlen r + 1))) as Hp.
  rewrite <- (IZR_pow10 (zlen r + 1)) by lia. rewrite Z.pow_add_r, Z.pow_1_r by lia.
  pose proof (pow10_gt0 (zlen r) ltac:(lia)).
  assert (10 ^ zlen r * 10 <= 2 * (d0 * 10 ^ zlen r + dv r)) by nia.
  apply IZR_le in H2. rewrite !mult_IZR, plus_IZR, mult_IZR in *. nra.
Qed.

Lemma dp_of_bounds a e : wf a -> (Vr a < bpow radix10 e)%R -> dc_dp a <= e.
Proof.
  intros Hwf H. pose proof (wf_Vr_bounds a Hwf) as [Hl _].
  assert (bpow radix10 (dc_dp a - 1) < bpow radix10 e)%R by lra. apply lt_bpow in H0. lia.
Qed.

Lemma dp_of_lower a e : wf a -> (bpow radix10 e <= Vr a)%R -> e < dc_dp a.
Proof.
  intros Hwf H. pose proof (wf_Vr_bounds a Hwf) as [_ Hu].
  assert (bpow radix10 e < bpow radix10 (dc_dp a))%R by lra. now apply lt_bpow in H0.
Qed.

(** what a shift loses is tiny compared with what it leaves *)
Lemma shifted_lost_rel a a' s lost : shifted a a' s lost -> (lost <= bpow radix10 (-799) * Vr a')%R.
Proof.
  intros (W' & _ & _ & _ & [_ Hl] & _). pose proof (wf_Vr_bounds a' W') as [Hlow _].
  apply Rle_trans with (bpow radix10 (dc_dp a' - 800)); [lra|].
  apply Rle_trans with (bpow radix10 (-799) * bpow radix10 (dc_dp a' - 1))%R.
  - rewrite <- bpow_plus. apply bpow_le. lia.
  - apply Rmult_le_compat_l; [apply bpow_ge_0|assumption].
Qed.

Lemma d799_small : (bpow radix10 (-799) <= / 1000000000)%R.
Proof.
  apply Rle_trans with (bpow radix10 (-9)); [apply bpow_le; lia|].
  change (-9) with (Z.opp 9). rewrite bpow_opp, <- IZR_pow10 by lia. apply Rinv_le_contravar; [lra|].
  apply IZR_le. vm_compute. discriminate.
Qed.

(** ** runs of right shifts without the invariant: termination and magnitudes *)
Lemma shift_right_loop_total : forall fuel a k, wf a -> 0 < k -> k / 60 < Z.of_nat fuel ->
  exists a', shift_right_loop fuel a k = Some a' /\ wf a' /\ trimmed a' /\ dc_neg a' = dc_neg a /\
    dc_dp a' <= dc_dp a /\ (Vr a' <= Vr a * bpow radix2 (- k))%R.
Proof.
  induction fuel as [|f IH]; intros a k Hwf Hk Hf.
  - pose proof (Z.div_pos k 60 ltac:(lia) ltac:(lia)). lia.
  - cbn [shift_right_loop]. unfold maxShift. destruct (Z.ltb_spec 60 k) as [Hbig|Hsmall].
    + destruct (rightShift_real a 60 Hwf ltac:(lia)) as (a1 & lost & E & Hs). rewrite E.
      pose proof (shifted_right_dp a a1 60 lost Hwf ltac:(lia) Hs) as Hdp1.
      destruct Hs as (W1 & _ & Hneg1 & HV1 & [Hl0 _] & _). change (Z.opp 60) with (-60) in HV1.
      assert (Hdiv : k / 60 = (k - 60) / 60 + 1).
      { replace k with ((k - 60) + 1 * 60) at 1 by lia. now rewrite Z.div_add by lia. }
      destruct (IH a1 (k - 60) W1 ltac:(lia) ltac:(lia)) as (a' & E' & W' & T' & N' & D' & U').
      exists a'. split; [exact E'|]. split; [assumption|]. split; [assumption|]. split; [congruence|]. split; [lia|].
      replace (- k) with (-60 + - (k - 60)) by lia. rewrite bpow_plus.
      pose proof (bpow_gt_0 radix2 (- (k - 60))) as HP. set (P := bpow radix2 (- (k - 60))) in *.
      assert (Vr a1 * P <= Vr a * bpow radix2 (-60) * P)%R by (apply Rmult_le_compat_r; lra). lra.
    + destruct (rightShift_real a k Hwf ltac:(lia)) as (a1 & lost & E & Hs). rewrite E.
      pose proof (shifted_right_dp a a1 k lost Hwf ltac:(lia) Hs) as Hdp1.
      destruct Hs as (W1 & T1 & Hneg1 & HV1 & [Hl0 _] & _).
      exists a1. split; [reflexivity|]. split; [assumption|]. split; [assumption|]. split; [assumption|]. split; [assumption|lra].
Qed.

Lemma shift_right_total a n : wf a -> 0 < n ->
  exists a', shift a (- n) = Some a' /\ wf a' /\ trimmed a' /\ dc_neg a' = dc_neg a /\
    dc_dp a' <= dc_dp a /\ (Vr a' <= Vr a * bpow radix2 (- n))%R.
Proof.
  intros Hwf Hn. pose proof (wf_pos a Hwf) as [_ Hnd].
  unfold shift. rewrite dc_nd_zlen. destruct (Z.eqb_spec (zlen (dc_d a)) 0); [lia|].
  destruct (Z.ltb_spec 0 (- n)); [lia|]. destruct (Z.ltb_spec (- n) 0); [|lia].
  rewrite Z.opp_involutive. unfold maxShift.
  apply shift_right_loop_total; try assumption.
  pose proof (Z.div_pos n 60 ltac:(lia) ltac:(lia)). lia.
Qed.

Lemma shift_right_single a n : wf a -> 0 < n <= 60 -> shift a (- n) = rightShift a n.
Proof.
  intros Hwf Hn. pose proof (wf_pos a Hwf) as [_ Hnd]. unfold shift. rewrite dc_nd_zlen.
  destruct (Z.eqb_spec (zlen (dc_d a)) 0); [lia|]. destruct (Z.ltb_spec 0 (- n)); [lia|].
  destruct (Z.ltb_spec (- n) 0); [|lia]. rewrite Z.opp_involutive.
  destruct (Z.to_nat (n / maxShift)); cbn [shift_right_loop]; unfold maxShift;
    destruct (Z.ltb_spec 60 n); try lia; reflexivity.
Qed.

(** ** phase 1: for d.dp > 0 { d.Shift(-n); exp += n } *)
Lemma fb_down_unfold fuel a exp : fb_down fuel a exp =
  if 0 <? dc_dp a then
    match fuel with
    | O => None
    | S f => match shift a (- pow_step (dc_dp a)) with
             | Some a' => fb_down f a' (exp + pow_step (dc_dp a))
             | None => None
             end
    end
  else Some (a, exp).
Proof. destruct fuel; reflexivity. Qed.

Lemma half_pow n : 1 <= n -> (bpow radix2 (- n) <= / 2)%R.
Proof.
  intros H. change (/ 2)%R with (bpow radix2 (-1)). apply bpow_le. lia.
Qed.

Lemma fb_down_total : forall fuel a exp, wf a -> (Vr a < bpow radix2 (Z.of_nat fuel - 1))%R ->
  exists a1 exp1, fb_down fuel a exp = Some (a1, exp1).
Proof.
  induction fuel as [|f IH]; intros a exp Hwf HV; rewrite fb_down_unfold;
    destruct (Z.ltb_spec 0 (dc_dp a)) as [Hpos|Hle]; try (now eexists; eexists).
  - exfalso. pose proof (wf_Vr_bounds a Hwf) as [Hl _].
    assert (bpow radix10 0 <= bpow radix10 (dc_dp a - 1))%R by (apply bpow_le; lia).
    change (bpow radix10 0) with 1%R in H. change (Z.of_nat 0 - 1) with (-1) in HV.
    change (bpow radix2 (-1)) with (/ 2)%R in HV. lra.
  - pose proof (pow_step_range (dc_dp a) ltac:(lia)) as Hn.
    destruct (shift_right_total a (pow_step (dc_dp a)) Hwf ltac:(lia)) as (a' & E & W' & _ & _ & _ & HV').
    rewrite E. apply IH; [assumption|].
    pose proof (half_pow (pow_step (dc_dp a)) ltac:(lia)). pose proof (wf_Vr_pos a Hwf).
    replace (Z.of_nat (S f) - 1) with ((Z.of_nat f - 1) + 1) in HV by lia. rewrite bpow_plus in HV.
    change (bpow radix2 1) with 2%R in HV.
    assert (Vr a * bpow radix2 (- pow_step (dc_dp a)) <= Vr a * / 2)%R by (apply Rmult_le_compat_l; lra). lra.
Qed.

Lemma two_e9 : (2 * bpow radix10 (-9) <= bpow radix2 (-27))%R.
Proof.
  change (-9) with (Z.opp 9). change (-27) with (Z.opp 27). rewrite !bpow_opp, <- IZR_pow10, <- IZR_pow2 by lia.
  assert (0 < IZR (10 ^ 9))%R by (apply IZR_lt; reflexivity).
  assert (0 < IZR (2 ^ 27))%R by (apply IZR_lt; reflexivity).
  apply Rmult_le_reg_r with (IZR (10 ^ 9) * IZR (2 ^ 27))%R; [nra|].
  field_simplify; [|lra|lra]. rewrite <- !mult_IZR. apply IZR_le. vm_compute. discriminate.
Qed.

(** leaving the range above 1 by one shift of at most 27 bits lands above 10^-9 *)
Lemma down_step_dp a a' n lost : wf a -> 1 <= dc_dp a -> 1 <= n <= 27 ->
  shifted a a' (bpow radix2 (- n)) lost -> -8 <= dc_dp a'.
Proof.
  intros Hwf Hdp Hn (W' & _ & _ & HV & [Hl0 Hl1] & _).
  destruct (Z_le_gt_dec (-8) (dc_dp a')) as [|Hlow]; [assumption|exfalso].
  pose proof (wf_Vr_bounds a Hwf) as [HVl _]. pose proof (wf_Vr_bounds a' W') as [_ HVu'].
  assert (1 <= Vr a)%R.
  { apply Rle_trans with (2 := HVl). change 1%R with (bpow radix10 0). apply bpow_le. lia. }
  assert (bpow radix2 (-27) <= bpow radix2 (- n))%R by (apply bpow_le; lia).
  assert (bpow radix10 (dc_dp a') <= bpow radix10 (-9))%R by (apply bpow_le; lia).
  assert (bpow radix10 (dc_dp a' - 800) <= bpow radix10 (-9))%R by (apply bpow_le; lia).
  pose proof two_e9. pose proof (bpow_gt_0 radix2 (- n)).
  assert (Vr a * bpow radix2 (- n) >= bpow radix2 (- n))%R by nra. lra.
Qed.

Lemma fb_down_facts : forall fuel a exp a1 exp1, fb_down fuel a exp = Some (a1, exp1) -> wf a ->
  wf a1 /\ dc_dp a1 <= 0 /\ dc_neg a1 = dc_neg a /\ exp <= exp1 /\
  (dc_dp a <= 0 -> a1 = a /\ exp1 = exp) /\ (0 < dc_dp a -> -8 <= dc_dp a1 /\ trimmed a1).
Proof.
  induction fuel as [|f IH]; intros a exp a1 exp1 E Hwf; rewrite fb_down_unfold in E;
    (destruct (Z.ltb_spec 0 (dc_dp a)) as [Hpos|Hle];
      [|injection E as <- <-; split; [assumption|]; split; [lia|]; split; [reflexivity|]; split; [lia|];
        split; [intros; split; reflexivity|intros; lia]]); [discriminate|].
  pose proof (pow_step_range (dc_dp a) ltac:(lia)) as Hn. set (n := pow_step (dc_dp a)) in *.
  destruct (shift a (- n)) as [a'|] eqn:Es; [|discriminate].
  rewrite shift_right_single in Es by (try assumption; lia).
  destruct (rightShift_real a n Hwf ltac:(lia)) as (a'' & lost & Er & Hs). rewrite Er in Es. injection Es as ->.
  pose proof (down_step_dp a a' n lost Hwf ltac:(lia) ltac:(lia) Hs) as Hdp'.
  pose proof Hs as (W' & T' & Hneg' & _).
  destruct (IH a' (exp + n) a1 exp1 E W') as (W1 & D1 & N1 & X1 & Hstay & Hmove).
  split; [assumption|]. split; [assumption|]. split; [congruence|]. split; [lia|]. split; [intros; lia|].
  intros _. destruct (Z_le_gt_dec (dc_dp a') 0) as [Hle'|Hgt'].
  - destruct (Hstay Hle') as [-> _]. split; assumption.
  - apply Hmove. lia.
Qed.

Lemma fb_down_inv : forall fuel a exp a1 exp1, fb_down fuel a exp = Some (a1, exp1) ->
  forall x B1 N, Inv a x (B1 - (exp1 - exp)) N -> dc_dp a <= 310 -> B1 <= 400 ->
  0 <= N -> N + Z.of_nat fuel <= 1000000 ->
  Inv a1 (x * bpow radix2 (- (exp1 - exp))) B1 (N + Z.of_nat fuel).
Proof.
  induction fuel as [|f IH]; intros a exp a1 exp1 E x B1 N HI Hdp HB HN0 HN; rewrite fb_down_unfold in E;
    destruct (Z.ltb_spec 0 (dc_dp a)) as [Hpos|Hle]; try discriminate.
  - injection E as <- <-. rewrite Z.sub_diag in *. rewrite Z.sub_0_r in HI.
    change (bpow radix2 (- 0)) with 1%R. rewrite Rmult_1_r. apply (inv_mono_N _ _ _ N); [lia|assumption].
  - pose proof (pow_step_range (dc_dp a) ltac:(lia)) as Hn. set (n := pow_step (dc_dp a)) in *.
    destruct (shift a (- n)) as [a'|] eqn:Es; [|discriminate].
    pose proof (inv_wf _ _ _ _ HI) as Hwf.
    assert (Hmono : exp + n <= exp1).
    { destruct (shift_right_total a n Hwf ltac:(lia)) as (a'' & Es' & W'' & _). rewrite Es in Es'. injection Es' as <-.
      now destruct (fb_down_facts f a' (exp + n) a1 exp1 E W'') as (_ & _ & _ & X & _). }
    assert (Hdiv : n / 60 = 0) by (apply Z.div_small; lia).
    destruct (shift_right_inv a n x (B1 - (exp1 - exp)) N HI ltac:(lia) ltac:(lia) ltac:(lia) HN0 ltac:(lia))
      as (a'' & Es' & HI' & Hdp' & _).
    rewrite Es in Es'. injection Es' as <-. rewrite Hdiv, Z.add_0_r in HI'.
    replace (B1 - (exp1 - exp) + n) with (B1 - (exp1 - (exp + n))) in HI' by lia.
    pose proof (IH a' (exp + n) a1 exp1 E _ B1 (N + 1) HI' ltac:(lia) HB ltac:(lia) ltac:(lia)) as HI1.
    replace (N + Z.of_nat (S f)) with (N + 1 + Z.of_nat f) by lia.
    replace (x * bpow radix2 (- (exp1 - exp)))%R with (x * bpow radix2 (- n) * bpow radix2 (- (exp1 - (exp + n))))%R; [exact HI1|].
    rewrite Rmult_assoc, <- bpow_plus. do 2 f_equal. lia.
  - injection E as <- <-. rewrite Z.sub_diag in *. rewrite Z.sub_0_r in HI.
    change (bpow radix2 (- 0)) with 1%R. rewrite Rmult_1_r. apply (inv_mono_N _ _ _ N); [lia|assumption].
Qed.

(** ** phase 2: for d.dp < 0 || d.dp == 0 && d.d[0] < '5' { d.Shift(n); exp -= n } *)
Definition fb_more (a : decimal) : bool :=
  (dc_dp a <? 0) || ((dc_dp a =? 0) && (hd 0 (dc_d a) <? 5)).

Lemma fb_up_unfold fuel a exp : wf a -> fb_up fuel a exp =
  if fb_more a then
    match fuel with
    | O => None
    | S f => match shift a (pow_step (- dc_dp a)) with
             | Some a' => fb_up f a' (exp - pow_step (- dc_dp a))
             | None => None
             end
    end
  else Some (a, exp).
Proof.
  intros (_ & _ & c & r & E & _). unfold fb_more. destruct fuel; cbn [fb_up]; rewrite E; cbn [hd];
    destruct (dc_dp a <? 0), (dc_dp a =? 0), (c <? 5); reflexivity.
Qed.

Lemma up_step a a' lost : wf a -> dc_dp a <= 0 -> fb_more a = true ->
  shifted a a' (bpow radix2 (pow_step (- dc_dp a))) lost ->
  dc_dp a' <= 0 /\ dc_dp a <= dc_dp a' /\ (3 / 2 * Vr a <= Vr a')%R /\
  (Vr a * bpow radix2 (pow_step (- dc_dp a)) <= Vr a' * (1 + bpow radix10 (-799)))%R.
Proof.
  intros Hwf Hdp Hmore Hs. pose proof (shifted_lost_rel _ _ _ _ Hs) as Hrel.
  destruct Hs as (W' & _ & _ & HV & [Hl0 Hl1] & _).
  pose proof (pow_step_range (- dc_dp a) ltac:(lia)) as Hn. set (n := pow_step (- dc_dp a)) in *.
  pose proof (wf_Vr_bounds a Hwf) as [HVl HVu]. pose proof (wf_Vr_pos a Hwf) as HVp. pose proof (wf_Vr_pos a' W') as HVp'.
  pose proof d799_small as Hd9. set (d9 := bpow radix10 (-799)) in *. assert (Hd9p : (0 < d9)%R) by apply bpow_gt_0.
  assert (H2n : (2 <= bpow radix2 n)%R) by (change 2%R with (bpow radix2 1); apply bpow_le; lia).
  assert (Hlt1 : (Vr a * bpow radix2 n < 1)%R).
  { unfold fb_more in Hmore. destruct (Z.ltb_spec (dc_dp a) 0) as [Hneg|Hz].
    - assert (bpow radix2 n <= bpow radix10 (- dc_dp a))%R.
      { rewrite <- IZR_pow2, <- IZR_pow10 by lia. apply IZR_le. apply pow_step_le10. lia. }
      assert (bpow radix10 (dc_dp a) * bpow radix10 (- dc_dp a) = 1)%R.
      { rewrite <- bpow_plus. replace (dc_dp a + - dc_dp a) with 0 by lia. reflexivity. }
      pose proof (bpow_gt_0 radix2 n). pose proof (bpow_gt_0 radix10 (- dc_dp a)). nra.
    - cbn [orb] in Hmore. apply andb_true_iff in Hmore as [Hz0 H5]. apply Z.eqb_eq in Hz0. apply Z.ltb_lt in H5.
      destruct Hwf as (Hd & Hn8 & c & r & E & Hc). rewrite E in H5. cbn [hd] in H5.
      pose proof (Vr_hd_lt5 a c r (conj Hd (conj Hn8 (ex_intro _ c (ex_intro _ r (conj E Hc))))) E H5) as Hh.
      rewrite Hz0 in Hh. change (bpow radix10 0) with 1%R in Hh.
      unfold n. rewrite Hz0. change (pow_step (- 0)) with 1. change (bpow radix2 1) with 2%R. lra. }
  assert (Hge : (Vr a * bpow radix2 n <= Vr a' * (1 + d9))%R) by nra.
  split; [|split; [|split; [|assumption]]].
  - apply dp_of_bounds; [assumption|]. change (bpow radix10 0) with 1%R. lra.
  - assert (Vr a < Vr a')%R by nra.
    assert (bpow radix10 (dc_dp a - 1) < bpow radix10 (dc_dp a'))%R.
    { pose proof (wf_Vr_bounds a' W') as [_ Hu']. lra. }
    apply lt_bpow in H0. lia.
  - nra.
Qed.

Lemma fb_up_facts : forall fuel a exp a2 exp2, fb_up fuel a exp = Some (a2, exp2) ->
  wf a -> dc_dp a <= 0 -> Z.of_nat fuel <= 1000000 ->
  wf a2 /\ dc_dp a2 = 0 /\ (/ 2 <= Vr a2 < 1)%R /\ exp2 <= exp /\ dc_neg a2 = dc_neg a /\
  (fb_more a = false -> a2 = a /\ exp2 = exp) /\ (fb_more a = true -> trimmed a2) /\
  (Vr a * bpow radix2 (exp - exp2) <= Vr a2 * (1 + IZR (Z.of_nat fuel) * 2 * bpow radix10 (-799)))%R.
Proof.
  pose proof d799_small as Hd9. set (d9 := bpow radix10 (-799)) in *. assert (Hd9p : (0 < d9)%R) by apply bpow_gt_0.
  assert (Hexit : forall fuel a exp, wf a -> dc_dp a <= 0 -> fb_more a = false ->
    wf a /\ dc_dp a = 0 /\ (/ 2 <= Vr a < 1)%R /\ exp <= exp /\ dc_neg a = dc_neg a /\
    (fb_more a = false -> a = a /\ exp = exp) /\ (fb_more a = true -> trimmed a) /\
    (Vr a * bpow radix2 (exp - exp) <= Vr a * (1 + IZR (Z.of_nat fuel) * 2 * d9))%R).
  { intros fuel a exp Hwf Hdp Hmore. unfold fb_more in Hmore.
    apply orb_false_iff in Hmore as [Hneg Hz]. apply Z.ltb_ge in Hneg. assert (Hz0 : dc_dp a = 0) by lia.
    rewrite Hz0 in Hz. cbn [Z.eqb andb] in Hz. apply Z.ltb_ge in Hz.
    pose proof Hwf as (Hd & Hn8 & c & r & E & Hc). rewrite E in Hz. cbn [hd] in Hz.
    pose proof (Vr_hd_ge5 a c r Hwf E Hz) as Hh. rewrite Hz0 in Hh. change (bpow radix10 0) with 1%R in Hh.
    pose proof (wf_Vr_bounds a Hwf) as [_ Hu]. rewrite Hz0 in Hu. change (bpow radix10 0) with 1%R in Hu.
    split; [assumption|]. split; [assumption|]. split; [lra|]. split; [lia|]. split; [reflexivity|].
    split; [auto|]. split; [intros X; unfold fb_more in X; rewrite Hz0, E in X; cbn [hd Z.ltb Z.eqb Z.compare orb andb] in X;
                             apply Z.ltb_lt in X; lia|].
    rewrite Z.sub_diag. change (bpow radix2 0) with 1%R.
    assert (0 <= IZR (Z.of_nat fuel))%R by (apply IZR_le; lia). pose proof (wf_Vr_pos a Hwf).
    apply Rmult_le_compat_l; [lra|]. assert (0 <= IZR (Z.of_nat fuel) * 2 * d9)%R by (apply Rmult_le_pos; lra). lra. }
  induction fuel as [|f IH]; intros a exp a2 exp2 E Hwf Hdp Hfuel; rewrite fb_up_unfold in E by assumption;
    destruct (fb_more a) eqn:Hmore; try discriminate;
    try (injection E as <- <-;
         match goal with |- context [Z.of_nat ?F] => pose proof (Hexit F a exp Hwf Hdp Hmore) as (H1 & H2 & H3 & _ & _ & _ & _ & H8) end;
         split; [exact H1|]; split; [exact H2|]; split; [exact H3|]; split; [lia|]; split; [reflexivity|];
         split; [intros _; split; reflexivity|]; split; [intros; discriminate|exact H8]).
  pose proof (pow_step_range (- dc_dp a) ltac:(lia)) as Hn. set (n := pow_step (- dc_dp a)) in *.
  destruct (shift a n) as [a'|] eqn:Es; [|discriminate].
  rewrite shift_left_single in Es by (try assumption; lia).
  destruct (leftShift_real a n Hwf ltac:(lia)) as (a'' & lost & El & Hs). rewrite El in Es. injection Es as ->.
  destruct (up_step a a' lost Hwf Hdp Hmore Hs) as (Hdp' & Hdpm & Hgrow & Hup).
  pose proof Hs as (W' & T' & Hneg' & _).
  destruct (IH a' (exp - n) a2 exp2 E W' Hdp' ltac:(lia)) as (W2 & D2 & V2 & X2 & N2 & Hstay & Htrim & G2).
  split; [assumption|]. split; [assumption|]. split; [assumption|]. split; [lia|]. split; [congruence|].
  split; [intros; discriminate|]. split.
  { intros _. destruct (fb_more a') eqn:Hm'; [now apply Htrim|]. destruct (Hstay eq_refl) as [-> _]. assumption. }
  fold n in Hup. fold d9 in Hup, G2 |- *.
  replace (exp - exp2) with (n + (exp - n - exp2)) by lia. rewrite bpow_plus.
  pose proof (bpow_gt_0 radix2 (exp - n - exp2)) as HP. set (P := bpow radix2 (exp - n - exp2)) in *.
  rewrite Nat2Z.inj_succ, <- Z.add_1_r, plus_IZR.
  set (q := IZR (Z.of_nat f)) in *. assert (Hq0 : (0 <= q)%R) by (apply IZR_le; lia).
  assert (Hq6 : (q <= 1000000)%R) by (apply IZR_le; lia).
  pose proof (wf_Vr_pos a2 W2) as Hp2. pose proof (wf_Vr_pos a' W') as Hp'.
  assert (H1 : (Vr a * bpow radix2 n * P <= Vr a' * (1 + d9) * P)%R) by (apply Rmult_le_compat_r; lra).
  assert (H2 : (Vr a' * P * (1 + d9) <= Vr a2 * (1 + q * 2 * d9) * (1 + d9))%R) by (apply Rmult_le_compat_r; lra).
  assert (H3 : ((1 + q * 2 * d9) * (1 + d9) <= 1 + (q + 1) * 2 * d9)%R) by nra.
  assert (H4 : (Vr a2 * ((1 + q * 2 * d9) * (1 + d9)) <= Vr a2 * (1 + (q + 1) * 2 * d9))%R) by (apply Rmult_le_compat_l; lra).
  lra.
Qed.

Lemma more_small a : wf a -> dc_dp a <= 0 -> fb_more a = true -> (Vr a < / 2)%R.
Proof.
  intros Hwf Hdp Hmore. pose proof (wf_Vr_bounds a Hwf) as [_ HVu].
  unfold fb_more in Hmore. destruct (Z.ltb_spec (dc_dp a) 0) as [Hneg|Hz].
  - assert (bpow radix10 (dc_dp a) <= bpow radix10 (-1))%R by (apply bpow_le; lia).
    change (bpow radix10 (-1)) with (/ 10)%R in H. lra.
  - cbn [orb] in Hmore. apply andb_true_iff in Hmore as [Hz0 H5]. apply Z.eqb_eq in Hz0. apply Z.ltb_lt in H5.
    pose proof Hwf as (Hd & Hn8 & c & r & E & Hc). rewrite E in H5. cbn [hd] in H5.
    pose proof (Vr_hd_lt5 a c r Hwf E H5) as Hh. rewrite Hz0 in Hh. change (bpow radix10 0) with 1%R in Hh. lra.
Qed.

Lemma fb_up_total : forall fuel a exp, wf a -> dc_dp a <= 0 ->
  (IZR (2 ^ Z.of_nat fuel) <= 2 * Vr a * IZR (3 ^ Z.of_nat fuel))%R ->
  exists a2 exp2, fb_up fuel a exp = Some (a2, exp2).
Proof.
  induction fuel as [|f IH]; intros a exp Hwf Hdp HV; rewrite fb_up_unfold by assumption;
    destruct (fb_more a) eqn:Hmore; try (now eexists; eexists).
  - exfalso. pose proof (more_small a Hwf Hdp Hmore). change (Z.of_nat 0) with 0 in HV. rewrite !Z.pow_0_r in HV. lra.
  - pose proof (pow_step_range (- dc_dp a) ltac:(lia)) as Hn. set (n := pow_step (- dc_dp a)) in *.
    rewrite shift_left_single by (try assumption; lia).
    destruct (leftShift_real a n Hwf ltac:(lia)) as (a' & lost & El & Hs). rewrite El.
    destruct (up_step a a' lost Hwf Hdp Hmore Hs) as (Hdp' & _ & Hgrow & _).
    pose proof Hs as (W' & _). apply IH; [assumption|assumption|].
    rewrite Nat2Z.inj_succ, !Z.pow_succ_r, !mult_IZR in HV by lia.
    assert (0 < IZR (3 ^ Z.of_nat f))%R by (apply IZR_lt, Z.pow_pos_nonneg; lia).
    assert (0 < IZR (2 ^ Z.of_nat f))%R by (apply IZR_lt, Z.pow_pos_nonneg; lia).
    nra.
Qed.

Lemma log_bound r t : 0 <= r -> 0 <= t -> 2 ^ r < 2 * 10 ^ t -> 3 * r <= 10 * t + 2.
Proof.
  intros Hr Ht H.
  assert (H3 : (2 ^ r) ^ 3 < (2 * 10 ^ t) ^ 3).
  { apply Z.pow_lt_mono_l; [lia|]. split; [apply Z.pow_nonneg; lia|assumption]. }
  rewrite <- Z.pow_mul_r in H3 by lia. rewrite Z.pow_mul_l, <- Z.pow_mul_r in H3 by lia.
  assert (H1k : 10 ^ (t * 3) <= 2 ^ (10 * t)).
  { rewrite Z.mul_comm, !Z.pow_mul_r by lia. apply Z.pow_le_mono_l. lia. }
  assert (H2 : 2 ^ (r * 3) < 2 ^ (10 * t + 3)).
  { rewrite Z.pow_add_r by lia. change (2 ^ 3) with 8 in *. lia. }
  apply Z.pow_lt_mono_r_iff in H2; lia.
Qed.

Lemma phase2_cond fuel a exp a2 exp2 B2 : fb_up fuel a exp = Some (a2, exp2) ->
  wf a -> -330 <= dc_dp a <= 0 -> Z.of_nat fuel <= 400000 ->
  (-318 <= dc_dp a \/ exp <= 0) -> B2 <= 53 -> B2 <= 1074 + exp2 ->
  0 <= exp - exp2 /\ B2 + (exp - exp2) + 1 + dc_dp a <= 800.
Proof.
  intros E Hwf Hdp Hfuel Hcase HB1 HB2.
  destruct (fb_up_facts fuel a exp a2 exp2 E Hwf ltac:(lia) ltac:(lia)) as (W2 & D2 & V2 & X2 & _ & _ & _ & G).
  split; [lia|].
  set (r := exp - exp2) in *. set (t := 1 - dc_dp a).
  assert (Hlog : 3 * r <= 10 * t + 2).
  { apply log_bound; [lia|unfold t; lia|].
    apply lt_IZR. rewrite mult_IZR, IZR_pow2, IZR_pow10 by (unfold t; lia).
    pose proof (wf_Vr_bounds a Hwf) as [HVl _]. pose proof d799_small as Hd9.
    set (d9 := bpow radix10 (-799)) in *. assert (Hd9p : (0 < d9)%R) by apply bpow_gt_0.
    assert (Hq : (0 <= IZR (Z.of_nat fuel) <= 400000)%R) by (split; apply IZR_le; lia).
    assert (Hfac : (1 + IZR (Z.of_nat fuel) * 2 * d9 <= 2)%R) by nra.
    pose proof (bpow_gt_0 radix2 r) as HP. pose proof (wf_Vr_pos a2 W2).
    assert (H2 : (Vr a * bpow radix2 r < 2)%R) by nra.
    assert (H3 : (bpow radix10 (dc_dp a - 1) * bpow radix2 r < 2)%R).
    { apply Rle_lt_trans with (2 := H2). apply Rmult_le_compat_r; lra. }
    assert (H4 : (bpow radix10 (dc_dp a - 1) * bpow radix10 t = 1)%R).
    { rewrite <- bpow_plus. unfold t. replace (dc_dp a - 1 + (1 - dc_dp a)) with 0 by lia. reflexivity. }
    pose proof (bpow_gt_0 radix10 t). pose proof (bpow_gt_0 radix10 (dc_dp a - 1)). nra. }
  unfold t in Hlog. destruct Hcase as [Hc|Hc]; [lia|].
  destruct (Z_le_gt_dec (-318) (dc_dp a)); lia.
Qed.

Lemma fb_up_inv : forall fuel a exp a2 exp2, fb_up fuel a exp = Some (a2, exp2) ->
  forall x B2 N, Inv a x (B2 + (exp - exp2)) N -> -330 <= dc_dp a <= 0 -> (-318 <= dc_dp a \/ exp <= 0) ->
  B2 <= 53 -> B2 <= 1074 + exp2 -> 0 <= N -> N + Z.of_nat fuel <= 1000000 -> Z.of_nat fuel <= 400000 ->
  Inv a2 (x * bpow radix2 (exp - exp2)) B2 (N + Z.of_nat fuel).
Proof.
  induction fuel as [|f IH]; intros a exp a2 exp2 E x B2 N HI Hdp Hcase HB1 HB2 HN0 HN Hfuel;
    pose proof (inv_wf _ _ _ _ HI) as Hwf; rewrite fb_up_unfold in E by assumption;
    destruct (fb_more a) eqn:Hmore; try discriminate.
  - injection E as <- <-. rewrite Z.sub_diag in *. rewrite Z.add_0_r in HI.
    change (bpow radix2 0) with 1%R. rewrite Rmult_1_r. apply (inv_mono_N _ _ _ N); [lia|assumption].
  - pose proof (pow_step_range (- dc_dp a) ltac:(lia)) as Hn. set (n := pow_step (- dc_dp a)) in *.
    destruct (shift a n) as [a'|] eqn:Es; [|discriminate].
    rewrite shift_left_single in Es by (try assumption; lia).
    destruct (leftShift_real a n Hwf ltac:(lia)) as (a'' & lost & El & Hs). rewrite El in Es. injection Es as ->.
    destruct (up_step a a' lost Hwf ltac:(lia) Hmore Hs) as (Hdp' & Hdpm & _ & _).
    pose proof Hs as (W' & _).
    destruct (phase2_cond f a' (exp - n) a2 exp2 B2 E W' ltac:(lia) ltac:(lia) ltac:(lia) HB1 HB2) as [Hr Hcond].
    pose proof (inv_step a a' x (B2 + (exp - exp2)) N n lost HI Hs ltac:(lia) ltac:(lia) ltac:(lia)) as HI'.
    replace (B2 + (exp - exp2) - n) with (B2 + (exp - n - exp2)) in HI' by lia.
    pose proof (IH a' (exp - n) a2 exp2 E _ B2 (N + 1) HI' ltac:(lia) ltac:(lia) HB1 HB2 ltac:(lia) ltac:(lia) ltac:(lia)) as HI2.
    replace (N + Z.of_nat (S f)) with (N + 1 + Z.of_nat f) by lia.
    replace (x * bpow radix2 (exp - exp2))%R with (x * bpow radix2 n * bpow radix2 (exp - n - exp2))%R; [exact HI2|].
    rewrite Rmult_assoc, <- bpow_plus. do 2 f_equal. lia.
  - injection E as <- <-. rewrite Z.sub_diag in *. rewrite Z.add_0_r in HI.
    change (bpow radix2 0) with 1%R. rewrite Rmult_1_r. apply (inv_mono_N _ _ _ N); [lia|assumption].
Qed.

(** the number of bits still to shift up is bounded by the magnitude *)
Lemma fb_up_log fuel a exp a2 exp2 : fb_up fuel a exp = Some (a2, exp2) ->
  wf a -> dc_dp a <= 0 -> Z.of_nat fuel <= 400000 ->
  0 <= exp - exp2 /\ 3 * (exp - exp2) <= 10 * (1 - dc_dp a) + 2.
Proof.
  intros E Hwf Hdp Hfuel.
  destruct (fb_up_facts fuel a exp a2 exp2 E Hwf ltac:(lia) ltac:(lia)) as (W2 & D2 & V2 & X2 & _ & _ & _ & G).
  split; [lia|].
  set (r := exp - exp2) in *. set (t := 1 - dc_dp a).
  apply log_bound; [lia|unfold t; lia|].
  apply lt_IZR. rewrite mult_IZR, IZR_pow2, IZR_pow10 by (unfold t; lia).
  pose proof (wf_Vr_bounds a Hwf) as [HVl _]. pose proof d799_small as Hd9.
  set (d9 := bpow radix10 (-799)) in *. assert (Hd9p : (0 < d9)%R) by apply bpow_gt_0.
  assert (Hq : (0 <= IZR (Z.of_nat fuel) <= 400000)%R) by (split; apply IZR_le; lia).
  assert (Hfac : (1 + IZR (Z.of_nat fuel) * 2 * d9 <= 2)%R) by nra.
  pose proof (bpow_gt_0 radix2 r) as HP. pose proof (wf_Vr_pos a2 W2).
  assert (H2 : (Vr a * bpow radix2 r < 2)%R) by nra.
  assert (H3 : (bpow radix10 (dc_dp a - 1) * bpow radix2 r < 2)%R).
  { apply Rle_lt_trans with (2 := H2). apply Rmult_le_compat_r; lra. }
  assert (H4 : (bpow radix10 (dc_dp a - 1) * bpow radix10 t = 1)%R).
  { rewrite <- bpow_plus. unfold t. replace (dc_dp a - 1 + (1 - dc_dp a)) with 0 by lia. reflexivity. }
  pose proof (bpow_gt_0 radix10 t). pose proof (bpow_gt_0 radix10 (dc_dp a - 1)). nra.
Qed.
