(** The over-aggregation warning of a cell ("benchmarks vary in ...",
    summarizeCell) is a function of the cell's OWN measurements: the residue set
    the builder collected in the cell is that of the measurements falling into
    it, so the non-singular fields - and with them the warning - do not depend
    on any other cell (not on the baseline cell of the row, not on the order in
    which cells are summarised). *)
From Perf Require Import Base.Bytes Base.B64 Model.BenchTab Proofs.BenchTab.
From Coq Require Import Lia.

Lemma lookup_res_spec ms t r c :
  lookup_res (build ms) t r c = dedup_first (map m_res (filter (m_is t r c) ms)).
Proof.
  unfold lookup_res. rewrite build_cell_is_spec. unfold spec_cell.
  destruct (filter (m_is t r c) ms) as [|m l]; reflexivity.
Qed.

Theorem cell_vary_own (vals : N -> list bytes) nf ms t r c i :
  In i (nonsingular vals nf (lookup_res (build ms) t r c)) <->
  (i < nf)%nat /\
  exists m1 m2, In m1 ms /\ In m2 ms /\ m_is t r c m1 = true /\ m_is t r c m2 = true /\
                fval vals (m_res m1) i <> fval vals (m_res m2) i.
Proof.
  rewrite nonsingular_iff. split.
  - intros [Hi (k1 & k2 & H1 & H2 & Hne)].
    apply cell_residue_exact in H1 as (m1 & Hm1 & Hc1 & <-).
    apply cell_residue_exact in H2 as (m2 & Hm2 & Hc2 & <-).
    split; [exact Hi|]. exists m1, m2. auto.
  - intros [Hi (m1 & m2 & Hm1 & Hm2 & Hc1 & Hc2 & Hne)].
    split; [exact Hi|]. exists (m_res m1), (m_res m2).
    split; [apply cell_residue_exact; eauto|].
    split; [apply cell_residue_exact; eauto|exact Hne].
Qed.

(** two runs whose measurement lists agree on the measurements of one cell give
    that cell the same non-singular fields, whatever else the tables contain *)
Theorem cell_vary_local (vals : N -> list bytes) nf ms ms' t r c :
  filter (m_is t r c) ms = filter (m_is t r c) ms' ->
  nonsingular vals nf (lookup_res (build ms) t r c) = nonsingular vals nf (lookup_res (build ms') t r c).
Proof. intros H. now rewrite !lookup_res_spec, H. Qed.
