(** Rows of the text assembly (Model/Render.text_model).
    [placed ops]: (row, column, call) of every Cell/Span call of a texttab call
    sequence, with texttab's row counting (Row() on a table without cells stays
    on row 0) - by [placed_is_build] these are the rows and columns of the cells
    texttab lays out.
    [text_rows t]: the call sequence of ToText, line by line: one block per
    header level, the unit line, one block per data row (the footnote list is
    threaded through them), the summary line when there are >= 2 rows. Text line
    [r] of the table is block [r]. *)
From Perf Require Import Base.Bytes Model.Runes Model.TextTab Model.KeyHeader Model.Render
     Proofs.KeyHeader Proofs.KeyHeaderLevels Proofs.Render Proofs.RenderNotes.
Local Open Scope nat_scope.

Fixpoint place_rc (row : nat) (any : bool) (cur : nat) (ops : list op) : list (nat * nat * op) :=
  match ops with
  | [] => []
  | ORow :: r => place_rc (if any then S row else row) any 0 r
  | OCol c :: r => place_rc row any c r
  | (OSpan n _ _ _ as o) :: r => (row, cur, o) :: place_rc row true (cur + n) r
  | OShrink _ _ :: r => place_rc row any cur r
  end.
Definition placed (ops : list op) : list (nat * nat * op) := place_rc 0 false 0 ops.

(** ** [placed] is the (row, column) assignment of the texttab builder *)
Definition cell_sig3 (c : cell) : nat * nat * (nat * bytes * align) :=
  (c_row c, c_col c, (c_span c, c_val c, c_align c)).

Lemma is_nilb_snoc {A} (l : list A) x : is_nilb (l ++ [x]) = false.
Proof. destruct l; reflexivity. Qed.

Lemma build_place_rc : forall ops t t',
  build_from t ops = Some t' ->
  map cell_sig3 (t_cells t') =
  map cell_sig3 (t_cells t)
  ++ map (fun x => (fst (fst x), snd (fst x), op_sig (snd x)))
         (place_rc (t_row t) (negb (is_nilb (t_cells t))) (t_cur t) ops).
Proof.
  induction ops as [|o ops IH]; intros t t' H; cbn [build_from] in H.
  - injection H as <-. cbn [place_rc map]. rewrite app_nil_r. reflexivity.
  - destruct (apply_op t o) as [t1|] eqn:E1; [|discriminate].
    specialize (IH t1 t' H). rewrite IH. clear IH H.
    destruct o as [|c|n v m a|c b]; cbn [apply_op] in E1.
    + injection E1 as <-. cbn [t_cells t_cur t_row place_rc]. destruct (is_nilb (t_cells t)); reflexivity.
    + destruct (c <? t_cur t); [discriminate|]. injection E1 as <-. cbn [t_cells t_cur t_row place_rc]. reflexivity.
    + injection E1 as <-. cbn [t_cells t_cur t_row place_rc map]. rewrite is_nilb_snoc. cbn [negb].
      rewrite map_app, <- app_assoc. reflexivity.
    + injection E1 as <-. cbn [t_cells t_cur t_row place_rc]. reflexivity.
Qed.

(** every placement is a cell of the built table, in that row and column *)
Theorem placed_is_build ops t row col o :
  build ops = Some t -> In (row, col, o) (placed ops) ->
  exists c, In c (t_cells t) /\ c_row c = row /\ c_col c = col /\ (c_span c, c_val c, c_align c) = op_sig o.
Proof.
  intros Hb Hin. pose proof (build_place_rc ops tab0 t Hb) as E. cbn [tab0 t_cells t_cur t_row map app is_nilb negb] in E.
  assert (Hs : In (row, col, op_sig o) (map cell_sig3 (t_cells t))).
  { rewrite E. apply (in_map (fun x => (fst (fst x), snd (fst x), op_sig (snd x))) _ (row, col, o)). exact Hin. }
  apply in_map_iff in Hs as [c [Hc Hi]]. exists c. unfold cell_sig3 in Hc. injection Hc as H1 H2 H3.
  split; [exact Hi|]. split; [exact H1|]. split; [exact H2|exact H3].
Qed.

(** ** blocks: one per text line *)
Definition norow (b : list op) : bool := forallb (fun o => match o with ORow => false | _ => true end) b.
Definition spanb (b : list op) : bool := existsb (fun o => match o with OSpan _ _ _ _ => true | _ => false end) b.
Definition tag (row : nat) (x : nat * op) : nat * nat * op := (row, fst x, snd x).

(** a line's calls: Row(), then calls other than Row() with at least one cell *)
Definition line_ok (l : list op) : Prop := exists b, l = ORow :: b /\ norow b = true /\ spanb b = true.

Lemma place_rc_body : forall b row any cur rest,
  norow b = true ->
  place_rc row any cur (b ++ rest) =
  map (tag row) (place cur b) ++ place_rc row (any || spanb b) (cur_after cur b) rest.
Proof.
  induction b as [|o b IH]; intros row any cur rest H.
  - cbn [app place map cur_after spanb existsb]. rewrite orb_false_r. reflexivity.
  - cbn [norow forallb] in H. apply andb_true_iff in H as [H1 H2]. fold (norow b) in H2.
    destruct o as [|c|n v m a|c x]; [discriminate| | |]; cbn [app place_rc place cur_after map spanb existsb].
    + apply IH. exact H2.
    + rewrite (IH row true (cur + n) rest H2). cbn [orb]. rewrite orb_true_r. reflexivity.
    + apply IH. exact H2.
Qed.

Fixpoint place_lines (row : nat) (lines : list (list op)) : list (nat * nat * op) :=
  match lines with
  | [] => []
  | l :: r => map (tag row) (place 0 l) ++ place_lines (S row) r
  end.

Lemma place_rc_lines : forall lines row any cur,
  Forall line_ok lines ->
  place_rc row any cur (concat lines) = place_lines (if any then S row else row) lines.
Proof.
  induction lines as [|l lines IH]; intros row any cur H; [reflexivity|].
  inversion H as [|? ? [b [-> [Hb Hs]]] Hr]; subst. cbn [concat app place_rc place_lines place].
  rewrite place_rc_body by exact Hb. rewrite Hs, orb_true_r. f_equal. apply IH. exact Hr.
Qed.

Lemma in_place_lines : forall lines row r l x,
  nth_error lines r = Some l -> In x (place 0 l) -> In (tag (row + r) x) (place_lines row lines).
Proof.
  induction lines as [|l0 lines IH]; intros row r l x Hr Hx; [destruct r; discriminate|].
  cbn [place_lines]. apply in_or_app. destruct r as [|r]; cbn [nth_error] in Hr.
  - injection Hr as ->. left. rewrite Nat.add_0_r. apply in_map. exact Hx.
  - right. replace (row + S r) with (S row + r) by lia. eapply IH; eassumption.
Qed.

(** a call of line [r] is placed on row [r] *)
Theorem placed_lines lines r l col o :
  Forall line_ok lines -> nth_error lines r = Some l -> In (col, o) (place 0 l) ->
  In (r, col, o) (placed (concat lines)).
Proof.
  intros Hok Hr Hin. unfold placed. rewrite place_rc_lines by exact Hok.
  apply (in_place_lines lines 0 r l (col, o) Hr Hin).
Qed.

(* ------------------------------------------------------------------ *)
(** ** the lines of ToText *)
Definition st_wl {B C} (st : list bytes * B * C) : list bytes := fst (fst st).

(** data rows with the footnote list threaded through *)
Fixpoint rows_run (wl : list bytes) (rows : list (bytes * list (option rcell))) : list bytes * list (list op) :=
  match rows with
  | [] => (wl, [])
  | (label, cells) :: r =>
      let d := text_data_ops wl label cells in
      let rr := rows_run (fst d) r in
      (fst rr, snd d :: snd rr)
  end.

Lemma rows_fold : forall rows wl ops,
  fold_left (fun '(wl, ops) '(label, cells) =>
       let '(wl', o) := text_data_ops wl label cells in (wl', ops ++ o)) rows (wl, ops)
  = (fst (rows_run wl rows), ops ++ concat (snd (rows_run wl rows))).
Proof.
  induction rows as [|[label cells] rows IH]; intros wl ops; cbn [fold_left rows_run].
  - cbn [fst snd concat]. rewrite app_nil_r. reflexivity.
  - destruct (text_data_ops wl label cells) as [wl' o] eqn:E. cbn [fst snd concat].
    rewrite IH, <- app_assoc. reflexivity.
Qed.

Definition text_rows (t : rtable) : list (list op) :=
  let n := length (rt_cols t) in
  let redge := txt_start (S n) in
  let rr := rows_run [] (rt_rows t) in
  map (text_header_row redge) (key_header (rt_nf t) (rt_cols t))
  ++ [text_unit_ops (rt_unit t) n redge]
  ++ snd rr
  ++ (if 1 <? length (rt_rows t) then [snd (text_summary_ops (fst rr) (rt_sumlabel t) (rt_sums t))] else []).

Definition text_wl (t : rtable) : list bytes :=
  let rr := rows_run [] (rt_rows t) in
  if 1 <? length (rt_rows t) then fst (text_summary_ops (fst rr) (rt_sumlabel t) (rt_sums t)) else fst rr.

Lemma text_model_rows t : text_model t = (concat (text_rows t), text_wl t).
Proof.
  unfold text_model, text_rows, text_wl. cbn zeta. rewrite rows_fold. cbn [app].
  set (rr := rows_run [] (rt_rows t)).
  unfold text_header_ops. rewrite flat_map_concat_map.
  destruct (1 <? length (rt_rows t)).
  - destruct (text_summary_ops (fst rr) (rt_sumlabel t) (rt_sums t)) as [wl2 sops] eqn:E. cbn [fst snd].
    rewrite concat_app. cbn [concat]. rewrite concat_app. cbn [concat]. rewrite app_nil_r, <- app_assoc. reflexivity.
  - rewrite concat_app. cbn [concat]. rewrite !app_nil_r, <- app_assoc. reflexivity.
Qed.

(** *** every line is Row() followed by Col/Cell/SetShrink calls with a cell *)
Lemma norow_app a b : norow (a ++ b) = norow a && norow b.
Proof. apply forallb_app. Qed.

Lemma norow_flat_map {A} (f : A -> list op) l : (forall x, norow (f x) = true) -> norow (flat_map f l) = true.
Proof.
  intros H. induction l as [|x l IH]; [reflexivity|]. cbn [flat_map]. rewrite norow_app, H, IH. reflexivity.
Qed.

Lemma spanb_app a b : spanb (a ++ b) = spanb a || spanb b.
Proof. apply existsb_app. Qed.

Lemma header_row_ok redge nodes : line_ok (text_header_row redge nodes).
Proof.
  eexists. split; [reflexivity|]. split.
  - rewrite norow_app, norow_flat_map; [reflexivity|]. intros n. reflexivity.
  - rewrite spanb_app. cbn. apply orb_true_r.
Qed.

Lemma norow_shrinks l : norow (map (fun j => OShrink j true) l) = true.
Proof. induction l as [|j l IH]; [reflexivity|exact IH]. Qed.

Lemma unit_row_ok unit n redge : line_ok (text_unit_ops unit n redge).
Proof.
  eexists. split; [reflexivity|]. split.
  - rewrite norow_app, norow_flat_map; [reflexivity|]. intros e. unfold text_unit_seg.
    rewrite !norow_app, norow_shrinks. destruct (e =? 0); reflexivity.
  - rewrite spanb_app. cbn. apply orb_true_r.
Qed.

Lemma data_step_ops wl ops exp oc :
  exists ext, st_ops (text_data_step (wl, ops, exp) oc) = ops ++ ext /\ norow ext = true.
Proof.
  destruct oc as [c|]; cbn [text_data_step].
  2:{ exists []. cbn [st_ops fst snd]. rewrite app_nil_r. split; reflexivity. }
  destruct (if exp =? 0 then None else rc_cmp c) as [cm|]; cbn [st_ops fst snd].
  - rewrite <- app_assoc. eexists. split; [reflexivity|]. reflexivity.
  - eexists. split; [reflexivity|]. reflexivity.
Qed.

Lemma data_fold_ops : forall cells wl ops exp,
  exists ext, st_ops (fold_left text_data_step cells (wl, ops, exp)) = ops ++ ext /\ norow ext = true.
Proof.
  induction cells as [|oc cells IH]; intros wl ops exp; cbn [fold_left].
  - exists []. cbn [st_ops fst snd]. rewrite app_nil_r. split; reflexivity.
  - destruct (data_step_ops wl ops exp oc) as [e1 [E1 N1]].
    destruct (text_data_step (wl, ops, exp) oc) as [[wl1 ops1] exp1]. cbn [st_ops fst snd] in E1. subst ops1.
    destruct (IH wl1 (ops ++ e1) exp1) as [e2 [E2 N2]]. exists (e1 ++ e2).
    rewrite E2, <- app_assoc. split; [reflexivity|]. rewrite norow_app, N1, N2. reflexivity.
Qed.

Lemma data_row_ok wl label cells : line_ok (snd (text_data_ops wl label cells)).
Proof.
  unfold text_data_ops. cbn [snd].
  destruct (data_fold_ops cells wl [ORow; OSpan 1 label None ALeft] 0) as [ext [E N]].
  unfold st_ops in E. rewrite E. eexists. split; [reflexivity|]. cbn [app]. split.
  - cbn [norow forallb andb]. exact N.
  - reflexivity.
Qed.

Lemma sum_step_ops wl ops exp os :
  exists ext, st_ops (text_sum_step (wl, ops, exp) os) = ops ++ ext /\ norow ext = true.
Proof.
  destruct os as [s|]; cbn [text_sum_step].
  2:{ exists []. cbn [st_ops fst snd]. rewrite app_nil_r. split; reflexivity. }
  cbn [st_ops fst snd].
  destruct (rs_has s), (exp =? 0); rewrite <- ?app_assoc; eexists; (split; [reflexivity|reflexivity]).
Qed.

Lemma sum_fold_ops : forall sums wl ops exp,
  exists ext, st_ops (fold_left text_sum_step sums (wl, ops, exp)) = ops ++ ext /\ norow ext = true.
Proof.
  induction sums as [|os sums IH]; intros wl ops exp; cbn [fold_left].
  - exists []. cbn [st_ops fst snd]. rewrite app_nil_r. split; reflexivity.
  - destruct (sum_step_ops wl ops exp os) as [e1 [E1 N1]].
    destruct (text_sum_step (wl, ops, exp) os) as [[wl1 ops1] exp1]. cbn [st_ops fst snd] in E1. subst ops1.
    destruct (IH wl1 (ops ++ e1) exp1) as [e2 [E2 N2]]. exists (e1 ++ e2).
    rewrite E2, <- app_assoc. split; [reflexivity|]. rewrite norow_app, N1, N2. reflexivity.
Qed.

Lemma summary_row_ok wl label sums : line_ok (snd (text_summary_ops wl label sums)).
Proof.
  unfold text_summary_ops. cbn [snd].
  destruct (sum_fold_ops sums wl [ORow; OSpan 1 label None ALeft] 0) as [ext [E N]].
  unfold st_ops in E. rewrite E. eexists. split; [reflexivity|]. cbn [app]. split.
  - cbn [norow forallb andb]. exact N.
  - reflexivity.
Qed.

Lemma rows_run_ok : forall rows wl, Forall line_ok (snd (rows_run wl rows)).
Proof.
  induction rows as [|[label cells] rows IH]; intros wl; cbn [rows_run snd]; constructor.
  - apply data_row_ok.
  - apply IH.
Qed.

Lemma text_rows_ok t : Forall line_ok (text_rows t).
Proof.
  unfold text_rows. cbn zeta. apply Forall_app. split.
  - apply Forall_forall. intros l Hl. apply in_map_iff in Hl as [nodes [<- _]]. apply header_row_ok.
  - apply Forall_app. split; [constructor; [apply unit_row_ok|constructor]|].
    apply Forall_app. split; [apply rows_run_ok|].
    destruct (1 <? length (rt_rows t)); [|constructor]. constructor; [apply summary_row_ok|constructor].
Qed.

(** a call of line [r] of the table is a texttab cell on row [r] *)
Theorem text_model_placed t r l col o :
  nth_error (text_rows t) r = Some l -> In (col, o) (place 0 l) ->
  In (r, col, o) (placed (fst (text_model t))).
Proof.
  intros Hr Hin. rewrite text_model_rows. cbn [fst].
  eapply placed_lines; [apply text_rows_ok|exact Hr|exact Hin].
Qed.

(** *** which line is which *)
Lemma key_header_length nf cols : cols <> [] -> length (key_header nf cols) = nf.
Proof.
  intros H. unfold key_header. destruct cols as [|k cols]; [congruence|].
  apply walk_length. discriminate.
Qed.

Lemma rows_run_length : forall rows wl, length (snd (rows_run wl rows)) = length rows.
Proof.
  induction rows as [|[label cells] rows IH]; intros wl; cbn [rows_run snd length]; [reflexivity|].
  rewrite IH. reflexivity.
Qed.

Lemma text_rows_header t f nodes :
  nth_error (key_header (rt_nf t) (rt_cols t)) f = Some nodes ->
  nth_error (text_rows t) f = Some (text_header_row (txt_start (S (length (rt_cols t)))) nodes).
Proof.
  intros H. unfold text_rows. cbn zeta. rewrite nth_error_app1.
  - rewrite nth_error_map, H. reflexivity.
  - rewrite map_length. apply nth_error_Some. congruence.
Qed.

Lemma text_rows_unit t :
  rt_cols t <> [] ->
  nth_error (text_rows t) (rt_nf t) =
  Some (text_unit_ops (rt_unit t) (length (rt_cols t)) (txt_start (S (length (rt_cols t))))).
Proof.
  intros H. unfold text_rows. cbn zeta. rewrite nth_error_app2; rewrite map_length, key_header_length by exact H; [|lia].
  rewrite Nat.sub_diag. reflexivity.
Qed.

Lemma text_rows_data t i :
  rt_cols t <> [] -> i < length (rt_rows t) ->
  nth_error (text_rows t) (rt_nf t + 1 + i) = nth_error (snd (rows_run [] (rt_rows t))) i.
Proof.
  intros H Hi. unfold text_rows. cbn zeta.
  rewrite nth_error_app2; rewrite map_length, key_header_length by exact H; [|lia].
  replace (rt_nf t + 1 + i - rt_nf t) with (S i) by lia. cbn [app nth_error].
  apply nth_error_app1. rewrite rows_run_length. exact Hi.
Qed.

Lemma text_rows_summary t :
  rt_cols t <> [] -> 1 < length (rt_rows t) ->
  nth_error (text_rows t) (rt_nf t + 1 + length (rt_rows t)) =
  Some (snd (text_summary_ops (fst (rows_run [] (rt_rows t))) (rt_sumlabel t) (rt_sums t))).
Proof.
  intros H Hn. unfold text_rows. cbn zeta.
  rewrite nth_error_app2; rewrite map_length, key_header_length by exact H; [|lia].
  replace (rt_nf t + 1 + length (rt_rows t) - rt_nf t) with (S (length (rt_rows t))) by lia. cbn [app nth_error].
  rewrite nth_error_app2; rewrite rows_run_length; [|lia]. rewrite Nat.sub_diag.
  destruct (Nat.ltb_spec 1 (length (rt_rows t))); [reflexivity|lia].
Qed.
