(** Proofs about Model/UDistImpl.v: the recurrence of makeUmemo (without the
    pruning of table keys) computes the specification's count, including the
    repaired K == 2 base case; peel_top_group. *)
From Coq Require Import ZArith List Bool Lia Permutation.
From Perf Require Import Model.UStat Model.UDistSpec Model.UDistImpl Proofs.UStat Proofs.UDistSpec.
Import ListNotations.
Local Open Scope Z_scope.

(** ** snoc decomposition of the specification (peeling the highest run) *)
Lemma sumf_vecs_snoc t : Forall (fun x => 0 <= x) t -> forall tK, 0 <= tK -> forall (F : list Z -> Z) n,
  sumf F (vecs (t ++ [tK]) n)
  = sumf (fun rK => sumf (fun r' => F (r' ++ [rK])) (vecs t (n - rK))) (zrange 0 tK).
Proof.
  induction 1 as [|t1 t Ht1 Ht IH]; intros tK HtK F n.
  - cbn [app]. rewrite sumf_vecs_cons by assumption. apply sumf_ext. intros r.
    cbn [vecs]. destruct (n - r =? 0); reflexivity.
  - cbn [app]. rewrite sumf_vecs_cons by assumption.
    assert (E : forall r1, sumf (fun r' => F (r1 :: r')) (vecs (t ++ [tK]) (n - r1))
                = sumf (fun rK => sumf (fun r' => F (r1 :: r' ++ [rK])) (vecs t (n - r1 - rK))) (zrange 0 tK)).
    { intros r1. apply (IH tK HtK (fun r' => F (r1 :: r'))). }
    rewrite (sumf_ext _ _ _ E). rewrite sumf_swap. apply sumf_ext. intros rK.
    rewrite sumf_vecs_cons by assumption. apply sumf_ext. intros r1.
    replace (n - rK - r1) with (n - r1 - rK) by lia. reflexivity.
Qed.

Lemma twoU_vec_snoc tr t r : forall V,
  twoU_vec V (tr ++ [(t, r)]) = twoU_vec V tr + r * (2 * (V + sumv tr) + (t - r)).
Proof.
  induction tr as [|[t0 r0] tr IH]; intros V; cbn [app twoU_vec sumv fold_right fst snd]; [lia|].
  fold (sumv tr). rewrite IH. lia.
Qed.

Lemma combine_snoc {A B} (a : list A) (b : list B) x y : length a = length b ->
  combine (a ++ [x]) (b ++ [y]) = combine a b ++ [(x, y)].
Proof.
  revert b; induction a as [|a0 a IH]; intros [|b0 b] Hl; try discriminate; [reflexivity|].
  cbn [app combine]. f_equal. apply IH. cbn in Hl; lia.
Qed.

Lemma weight_snoc t r tK rK : length r = length t ->
  weight (t ++ [tK]) (r ++ [rK]) = choose tK rK * weight t r.
Proof.
  intros Hl. unfold weight. rewrite combine_snoc by (symmetry; exact Hl).
  generalize (combine t r) as l. induction l as [|p l IH]; cbn [app map fold_right fst snd]; [lia|].
  rewrite IH. lia.
Qed.

(** peel_top_group: the recurrence identity on the specification *)
Theorem count_le_snoc t tK n u : Forall (fun x => 0 <= x) t -> 0 <= tK ->
  count_le (t ++ [tK]) n u
  = sumf (fun rK => choose tK rK * count_le t (n - rK) (u - rK * (2 * zsum t + tK - 2 * n + rK))) (zrange 0 tK).
Proof.
  intros Ht HtK. unfold count_le, count_if. rewrite (sumf_vecs_snoc t Ht tK HtK).
  apply sumf_ext. intros rK. rewrite <- sumf_scale. apply sumf_ext_in. intros r' Hr'.
  destruct (vecs_in _ _ _ Hr') as (Hl & Hs & _).
  unfold twoU_of. rewrite combine_snoc by (symmetry; exact Hl). rewrite twoU_vec_snoc, sumv_combine by exact Hl.
  rewrite weight_snoc by exact Hl. rewrite Hs.
  match goal with |- (if ?a then _ else _) = _ * (if ?b then _ else _) => replace a with b end.
  - destruct (_ <=? _); lia.
  - destruct (Z.leb_spec (twoU_vec 0 (combine t r')) (u - rK * (2 * zsum t + tK - 2 * n + rK))),
             (Z.leb_spec (twoU_vec 0 (combine t r') + rK * (2 * (0 + (zsum t - (n - rK))) + (tK - rK))) u); try reflexivity; nia.
Qed.

(** ** single-run counts *)
Lemma zrange_single m : zrange m m = [m].
Proof. unfold zrange. replace (m - m + 1) with 1 by lia. reflexivity. Qed.

Lemma count_le_single t1 m u : 0 <= t1 ->
  count_le [t1] m u = if (0 <=? m) && (m <=? t1) && (m * (t1 - m) <=? u) then choose t1 m else 0.
Proof.
  intros Ht1. unfold count_le, count_if. rewrite sumf_vecs_cons by assumption.
  set (F := fun r : list Z => if twoU_of [t1] r <=? u then weight [t1] r else 0).
  assert (E : forall r, sumf (fun r' => F (r :: r')) (vecs [] (m - r)) = if r =? m then F [m] else 0).
  { intros r. cbn [vecs]. destruct (Z.eqb_spec (m - r) 0), (Z.eqb_spec r m); try lia; [subst; cbn; lia | reflexivity]. }
  rewrite (sumf_ext _ _ _ E).
  destruct ((0 <=? m) && (m <=? t1)) eqn:Em.
  - apply andb_true_iff in Em. destruct Em as [E1 E2]. apply Z.leb_le in E1, E2.
    rewrite (sumf_zrange_restrict _ 0 t1 m m); [| lia | lia |].
    + rewrite zrange_single, sumf_cons. cbn [sumf fold_right]. rewrite Z.eqb_refl.
      unfold F, twoU_of, weight. cbn [combine twoU_vec map fold_right fst snd andb].
      replace (m * (2 * 0 + (t1 - m)) + 0) with (m * (t1 - m)) by lia.
      destruct (_ <=? _); lia.
    + intros x _ Hx. destruct (Z.eqb_spec x m); [lia | reflexivity].
  - cbn [andb]. transitivity (sumf (fun _ : Z => 0) (zrange 0 t1)); [|apply sumf_zero].
    apply sumf_ext_in. intros x Hx. apply zrange_in in Hx.
    destruct (Z.eqb_spec x m); [|reflexivity]. subst x.
    apply andb_false_iff in Em. destruct Em as [Em|Em]; [apply Z.leb_gt in Em | apply Z.leb_gt in Em]; lia.
Qed.

Lemma div_le_iff r a D : 0 < D -> (r * D <= a <-> r <= a / D).
Proof.
  intros HD. pose proof (Z.div_mod a D ltac:(lia)). pose proof (Z.mod_pos_bound a D HD). split; intros; nia.
Qed.

(** ** the repaired K == 2 base case is the specification's count *)
Theorem base2_correct t1 t2 n u : 0 <= t1 -> 0 <= t2 -> 0 < t1 + t2 ->
  base2 t1 t2 n u = count_le [t1; t2] n u.
Proof.
  intros H1 H2 HD.
  change [t1; t2] with ([t1] ++ [t2]). rewrite count_le_snoc; [|repeat constructor; lia | lia].
  cbn [zsum fold_right]. unfold base2.
  set (numer := u - n * (t1 - n)).
  set (H := if numer <? 0 then -1 else numer / (t1 + t2)).
  set (h := fun r2 => choose t1 (n - r2) * choose t2 r2).
  set (g := fun rK => choose t2 rK * count_le [t1] (n - rK) (u - rK * (2 * (t1 + 0) + t2 - 2 * n + rK))).
  set (a := Z.max 0 (n - t1)). set (b := Z.min H (Z.min n t2)).
  assert (HH : forall r2, 0 <= r2 -> (r2 <= H <-> n * (t1 - n) + r2 * (t1 + t2) <= u)).
  { intros r2 Hr2. unfold H. destruct (Z.ltb_spec numer 0) as [Hn|Hn].
    - unfold numer in Hn. split; intros; nia.
    - rewrite <- (div_le_iff r2 numer (t1 + t2) HD). unfold numer. lia. }
  assert (Eg : forall r2, 0 <= r2 -> g r2 = if (n - t1 <=? r2) && (r2 <=? n) && (r2 <=? H) then h r2 else 0).
  { intros r2 Hr2. unfold g, h. rewrite count_le_single by assumption.
    match goal with |- _ * (if ?c then _ else _) = (if ?d then _ else _) => replace c with d end.
    - destruct (_ && _); lia.
    - destruct (Z.leb_spec (n - t1) r2), (Z.leb_spec r2 n), (Z.leb_spec 0 (n - r2)), (Z.leb_spec (n - r2) t1); cbn [andb]; try lia.
      specialize (HH r2 Hr2).
      destruct (Z.leb_spec r2 H), (Z.leb_spec ((n - r2) * (t1 - (n - r2))) (u - r2 * (2 * (t1 + 0) + t2 - 2 * n + r2))); try reflexivity; nia. }
  transitivity (sumf h (zrange a b)).
  - apply sumf_zrange_restrict; [unfold a; lia | unfold b; lia |].
    intros x Hx Hn. unfold h. unfold b in Hn.
    destruct (Z_lt_dec n x); [rewrite (choose_out t1 (n - x)) by lia; lia|].
    destruct (Z_lt_dec t2 x); [rewrite (choose_out t2 x) by lia; lia|]. unfold a in *. lia.
  - symmetry. transitivity (sumf g (zrange a b)).
    + apply sumf_zrange_restrict; [unfold a; lia | unfold b; lia |].
      intros x Hx Hn. rewrite Eg by lia.
      destruct (Z.leb_spec (n - t1) x), (Z.leb_spec x n), (Z.leb_spec x H); cbn [andb]; try reflexivity.
      unfold a, b in Hn. lia.
    + apply sumf_ext_in. intros x Hx. apply zrange_in in Hx. unfold a, b in Hx. rewrite Eg by lia.
      destruct (Z.leb_spec (n - t1) x), (Z.leb_spec x n), (Z.leb_spec x H); cbn [andb]; try reflexivity; lia.
Qed.

(** ** the a coefficients in closed form: a_k = 2 (t_1 + .. + t_{k-1}) + t_k *)
Fixpoint acl (S : Z) (t : list Z) : list Z :=
  match t with [] => [] | tk :: t' => (2 * S + tk) :: acl (S + tk) t' end.

Lemma a_coeffs_acl t : forall pa pt S, pa = 2 * S + pt -> a_coeffs pa pt t = acl (S + pt) t.
Proof.
  induction t as [|tk t IH]; intros pa pt S H; cbn [a_coeffs acl]; [reflexivity|].
  f_equal; [lia|]. apply IH. lia.
Qed.

Lemma a_list_acl t : a_list t = acl 0 t.
Proof.
  destruct t as [|t0 t]; [reflexivity|]. cbn [a_list acl].
  rewrite (a_coeffs_acl t t0 t0 0) by lia. reflexivity.
Qed.

Lemma acl_length S t : length (acl S t) = length t.
Proof. revert S; induction t as [|tk t IH]; intros S; cbn; [reflexivity | now rewrite IH]. Qed.

Lemma acl_snoc t x : forall S, acl S (t ++ [x]) = acl S t ++ [2 * (S + zsum t) + x].
Proof.
  induction t as [|tk t IH]; intros S; cbn [app acl zsum fold_right].
  - f_equal. lia.
  - fold (zsum t). rewrite IH.
    replace (2 * (S + tk + zsum t) + x) with (2 * (S + (tk + zsum t)) + x) by lia. reflexivity.
Qed.

Lemma levels_snoc t x : levels (t ++ [x]) = (x, 2 * zsum t + x) :: levels t.
Proof.
  unfold levels. rewrite !a_list_acl, acl_snoc, combine_snoc by (symmetry; apply acl_length).
  rewrite rev_unit. reflexivity.
Qed.

Lemma levels_length t : length (levels t) = length t.
Proof.
  unfold levels. rewrite rev_length, combine_length, a_list_acl, acl_length. apply Nat.min_id.
Qed.

Lemma zsum_app l1 l2 : zsum (l1 ++ l2) = zsum l1 + zsum l2.
Proof.
  induction l1 as [|a l1 IH]; [reflexivity|].
  change (zsum ((a :: l1) ++ l2)) with (a + zsum (l1 ++ l2)). change (zsum (a :: l1)) with (a + zsum l1). lia.
Qed.

Lemma levels_tsum t : zsum (map fst (levels t)) = zsum t.
Proof.
  induction t as [|x t IH] using rev_ind; [reflexivity|].
  rewrite levels_snoc. cbn [map fst]. change (zsum (x :: map fst (levels t))) with (x + zsum (map fst (levels t))).
  rewrite IH, zsum_app. change (zsum [x]) with (x + 0). lia.
Qed.

Lemma count_le_neg t n u : n < 0 -> count_le t n u = 0.
Proof. intros H. unfold count_le, count_if. rewrite vecs_neg by assumption. reflexivity. Qed.
Lemma count_le_big t n u : Forall (fun x => 0 <= x) t -> zsum t < n -> count_le t n u = 0.
Proof. intros Ht H. unfold count_le, count_if. rewrite vecs_big by assumption. reflexivity. Qed.

(** ** tied_recurrence_correct, for the recurrence without key pruning *)
Lemma A_step_unpruned base tk ak p1 p2 lv n u :
  A base false ((tk, ak) :: p1 :: p2 :: lv) n u
  = sumf (fun rk => A base false (p1 :: p2 :: lv) (n - rk) (u - rk * (ak - 2 * n + rk)) * choose tk rk)
         (zrange (Z.max 0 (n - zsum (map fst (p1 :: p2 :: lv)))) (Z.min n tk)).
Proof. destruct p1; reflexivity. Qed.

Lemma A_base2 base prune t2 a2 t1 a1 n u : A base prune [(t2, a2); (t1, a1)] n u = base t1 t2 n u.
Proof. reflexivity. Qed.

Theorem tied_recurrence_unpruned t : Forall (fun x => 1 <= x) t -> (2 <= length t)%nat ->
  forall n u, umemo_unpruned t n u = count_le t n u.
Proof.
  unfold umemo_unpruned.
  induction t as [|x t IH] using rev_ind; intros Hpos Hlen n u; [cbn in Hlen; lia|].
  apply Forall_app in Hpos. destruct Hpos as [Ht Hx]. inversion Hx as [|? ? Hx1 _]; subst.
  assert (Ht0 : Forall (fun y => 0 <= y) t) by (eapply Forall_impl; [|exact Ht]; cbn; intros; lia).
  rewrite app_length in Hlen. cbn [length] in Hlen.
  rewrite levels_snoc.
  destruct t as [|t1 [|t2 t]].
  - cbn in Hlen. lia.
  - (* K = 2 *)
    cbn [levels a_list a_coeffs combine rev app]. rewrite A_base2.
    inversion Ht as [|? ? Ht1 _]; subst.
    apply (base2_correct t1 x n u); lia.
  - (* K >= 3 *)
    set (t' := t1 :: t2 :: t) in *.
    pose proof (levels_length t') as HL. pose proof (levels_tsum t') as HS.
    assert (IH' : forall n u, A base2 false (levels t') n u = count_le t' n u).
    { apply IH; [exact Ht | unfold t'; cbn [length]; lia]. }
    destruct (levels t') as [|p1 [|p2 lv]] eqn:ELV;
      [unfold t' in HL; cbn [length] in HL; lia | unfold t' in HL; cbn [length] in HL; lia |].
    rewrite A_step_unpruned, HS.
    rewrite count_le_snoc by (assumption || lia).
    rewrite (sumf_zrange_restrict _ 0 x (Z.max 0 (n - zsum t')) (Z.min n x)); [| lia | lia |].
    + apply sumf_ext. intros rk. rewrite IH'. replace (2 * zsum t' + x - 2 * n + rk) with (2 * zsum t' + x - 2 * n + rk) by lia. lia.
    + intros rK HrK Hout.
      destruct (Z_lt_dec n rK); [rewrite count_le_neg by lia; lia|].
      rewrite count_le_big by (assumption || lia). lia.
Qed.

(** ** the distribution function accumulates the mass function (specification level) *)
Theorem count_le_step t n u : count_le t n u = count_le t n (u - 1) + count_eq t n u.
Proof.
  unfold count_le, count_eq, count_if. rewrite <- sumf_plus. apply sumf_ext. intros r.
  destruct (Z.leb_spec (twoU_of t r) u), (Z.leb_spec (twoU_of t r) (u - 1)), (Z.eqb_spec (twoU_of t r) u); lia.
Qed.

Theorem count_ge_le t n u : count_ge t n u + count_le t n (u - 1) = count_all t n.
Proof.
  unfold count_le, count_ge, count_all, count_if. rewrite <- sumf_plus. apply sumf_ext. intros r.
  destruct (Z.leb_spec u (twoU_of t r)), (Z.leb_spec (twoU_of t r) (u - 1)); lia.
Qed.
