(** The tokenizer's own token stream (Model/Tok.v), as a declarative handle
    on "what the parser reads":

    - [lex_fault allow q]: the lexical fault, if any, that [next allow] meets
      at the front of [q] (missing end quote, bad escape, missing closing
      slash, regexp that does not compile, regexp not followed by a space or
      an operator), with its offset; [next] records an error exactly then;
    - [next] only looks at the text after the leading white space, and the
      receiver it leaves behind is that stripped text (skipping is idempotent);
    - [chain]: an error-free run of [next] calls from a text to a rest, the
      regexp mode of each call given by a state machine over the tokens read
      so far (the parsers peek: the end of a chain is only determined up to
      leading white space);
    - [toks]: the same as a function of the text, for a machine with a total
      step: [LexOk ts] (the tokens up to the end of the text) or the first
      lexical fault. *)
From Perf Require Import Base.Bytes Base.Rune Model.Unquote Model.Tok Proofs.Unquote Proofs.Tok.

Inductive lexerr := ENoEndQuote | EBadEscape | ENoCloseSlash | EBadRegexp | ERegexpFollow.
Inductive lexres := LexOk (ts : list tok) | LexErr (why : lexerr) (off : nat).

Section Stream.
Variable is_space : N -> bool.
Variable re_ok : bytes -> bool.
Variable n0 : nat.

Notation next := (next is_space re_ok n0).
Notation off_of := (off_of n0).
Notation sk q := (skip_spaces is_space q 0).

(** ** lexical faults *)
Definition lex_fault (allow : bool) (q0 : bytes) : option (lexerr * nat) :=
  match sk q0 with
  | [] => None
  | c :: rest =>
      let q := c :: rest in
      if is_start_op c then None
      else if allow && Byte.eqb c c_fslash then
        match re_scan rest 0 0 false with
        | None => Some (ENoCloseSlash, off_of q)
        | Some i =>
            if negb (re_ok (firstn i rest)) then Some (EBadRegexp, off_of q)
            else match skipn (S i) rest with
                 | [] => None
                 | d :: q2 => if is_space (bN d) || is_start_op d then None
                              else Some (ERegexpFollow, off_of (d :: q2))
                 end
        end
      else if Byte.eqb c c_dquote then
        match qscan rest with
        | None => Some (ENoEndQuote, off_of q)
        | Some (body, _) =>
            match unquote (c :: body) with
            | None => Some (EBadEscape, off_of q)
            | Some _ => None
            end
        end
      else None
  end.

(** [next] records an error exactly when there is a fault, at its offset, and
    then returns the end-of-text token and the empty rest; otherwise it leaves
    the tracker alone and its receiver is the stripped text *)
Lemma next_fault allow q e :
  match lex_fault allow q with
  | None => exists t r, next allow q e = (t, r, sk q, e)
  | Some (_, off) => exists q', next allow q e = (eof_at n0 q', [], q', set_err e off)
  end.
Proof.
  unfold lex_fault, Tok.next.
  destruct (sk q) as [|c rest]; [eauto|].
  destruct (is_start_op c); [eauto|].
  destruct (allow && Byte.eqb c c_fslash).
  - unfold regexp_tok.
    destruct (re_scan rest 0 0 false) as [i|]; [|unfold tok_error; eauto].
    destruct (negb (re_ok (firstn i rest))); [unfold tok_error; eauto|].
    destruct (skipn (S i) rest) as [|d q2]; [eauto|].
    destruct (is_space (bN d) || is_start_op d); [eauto|unfold tok_error; eauto].
  - destruct (Byte.eqb c c_dquote).
    + unfold quoted_word.
      destruct (qscan rest) as [[body r]|]; [|unfold tok_error; eauto].
      destruct (unquote (c :: body)); [eauto|unfold tok_error; eauto].
    + unfold bare_word. eauto.
Qed.

Lemma set_err_some e off : set_err e off <> None.
Proof. destruct e; cbn; congruence. Qed.

Lemma next_none_inv allow q e t r q' :
  next allow q e = (t, r, q', None) ->
  e = None /\ q' = sk q /\ lex_fault allow q = None.
Proof.
  intros H. pose proof (next_fault allow q e) as F.
  destruct (lex_fault allow q) as [[w off]|].
  - destruct F as (q1 & F). rewrite F in H. injection H as _ _ _ H.
    exfalso. exact (set_err_some _ _ H).
  - destruct F as (t1 & r1 & F). rewrite F in H. injection H as _ _ <- ->. auto.
Qed.

Lemma next_fault_none allow q e :
  lex_fault allow q = None -> exists t r, next allow q e = (t, r, sk q, e).
Proof. intros H. pose proof (next_fault allow q e) as F. now rewrite H in F. Qed.

Lemma next_fault_some allow q e w off :
  lex_fault allow q = Some (w, off) -> snd (next allow q e) = set_err e off.
Proof.
  intros H. pose proof (next_fault allow q e) as F. rewrite H in F.
  destruct F as (q' & ->). reflexivity.
Qed.

(** the tracker does not influence the token *)
Lemma next_tracker allow q e t r q' :
  next allow q None = (t, r, q', None) -> next allow q e = (t, r, q', e).
Proof.
  intros H. destruct (next_none_inv _ _ _ _ _ _ H) as (_ & -> & F).
  destruct (next_fault_none allow q e F) as (t1 & r1 & H1).
  destruct (next_fault_none allow q None F) as (t2 & r2 & H2).
  rewrite H2 in H. injection H as <- <-.
  (* both calls compute the same token: unfold once more *)
  revert H1 H2. unfold Tok.next.
  destruct (sk q) as [|c rest]; [intros [= <- <-] [= <- <-]; reflexivity|].
  destruct (is_start_op c); [intros [= <- <-] [= <- <-]; reflexivity|].
  destruct (allow && Byte.eqb c c_fslash).
  - unfold regexp_tok, tok_error.
    destruct (re_scan rest 0 0 false) as [i|]; [|intros [= <- <-] [= <- <-]; reflexivity].
    destruct (negb (re_ok (firstn i rest))); [intros [= <- <-] [= <- <-]; reflexivity|].
    match goal with |- context [if ?c then _ else _] => destruct c end;
      intros [= <- <-] [= <- <-]; reflexivity.
  - destruct (Byte.eqb c c_dquote).
    + unfold quoted_word, tok_error.
      destruct (qscan rest) as [[body r]|]; [|intros [= <- <-] [= <- <-]; reflexivity].
      destruct (unquote (c :: body)); intros [= <- <-] [= <- <-]; reflexivity.
    + unfold bare_word. intros [= <- <-] [= <- <-]; reflexivity.
Qed.

(** ** skipping white space is idempotent; [next] and [lex_fault] only see the stripped text *)
Lemma skip_spaces_fix q k c rest :
  skip_spaces is_space q k = c :: rest -> sk (c :: rest) = c :: rest.
Proof.
  revert k; induction q as [|d q IH]; intros k; cbn [Tok.skip_spaces]; [discriminate|].
  destruct k as [|k]; [|apply IH].
  destruct (is_start_op d) eqn:Eop.
  { intros [= <- <-]. cbn [Tok.skip_spaces]. now rewrite Eop. }
  destruct (Byte.eqb d c_space) eqn:Esp; [apply IH|].
  destruct (decode_rune (d :: q)) as [r size] eqn:Ed.
  destruct (is_space r) eqn:Es; [apply IH|].
  intros [= <- <-]. cbn [Tok.skip_spaces]. now rewrite Eop, Esp, Ed, Es.
Qed.

Lemma sk_idem q : sk (sk q) = sk q.
Proof.
  destruct (sk q) as [|c rest] eqn:E; [reflexivity|].
  exact (skip_spaces_fix _ _ _ _ E).
Qed.

Lemma next_sk allow q1 q2 e : sk q1 = sk q2 -> next allow q1 e = next allow q2 e.
Proof. intros H. unfold Tok.next. now rewrite H. Qed.

Lemma lex_fault_sk allow q1 q2 : sk q1 = sk q2 -> lex_fault allow q1 = lex_fault allow q2.
Proof. intros H. unfold lex_fault. now rewrite H. Qed.

(** every token carries an offset inside the text *)
Lemma next_off allow q e t r q' e' : next allow q e = (t, r, q', e') -> t_off t <= n0.
Proof.
  assert (Hle : forall x, off_of x <= n0) by (intros x; apply Nat.le_sub_l).
  unfold Tok.next.
  destruct (sk q) as [|c rest]; [intros [= <- _ _ _]; apply Hle|].
  destruct (is_start_op c); [intros [= <- _ _ _]; apply Hle|].
  destruct (allow && Byte.eqb c c_fslash).
  - unfold regexp_tok, tok_error.
    destruct (re_scan rest 0 0 false) as [i|]; [|intros [= <- _ _ _]; apply Hle].
    destruct (negb (re_ok (firstn i rest))); [intros [= <- _ _ _]; apply Hle|].
    match goal with |- context [if ?c then _ else _] => destruct c end;
      intros [= <- _ _ _]; apply Hle.
  - destruct (Byte.eqb c c_dquote).
    + unfold quoted_word, tok_error.
      destruct (qscan rest) as [[body r0]|]; [|intros [= <- _ _ _]; apply Hle].
      destruct (unquote (c :: body)); intros [= <- _ _ _]; apply Hle.
    + unfold bare_word. intros [= <- _ _ _]; apply Hle.
Qed.

(** a token other than the end of the text consumes something *)
Lemma next_consumes allow q e t r q' e' :
  next allow q e = (t, r, q', e') -> t_kind t <> KEOF -> length r < length q.
Proof.
  intros H Hk. pose proof (next_spec is_space re_ok n0 allow q e) as P.
  rewrite H in P. cbn [next_post] in P. destruct P as (P1 & P2 & P3 & _). specialize (P3 Hk). lia.
Qed.

(** what the two "unterminated" faults mean *)
Lemma lex_fault_quote allow q off :
  lex_fault allow q = Some (ENoEndQuote, off) <->
  exists s, sk q = c_dquote :: s /\ qscan s = None /\ off = off_of (c_dquote :: s).
Proof.
  unfold lex_fault. destruct (sk q) as [|c rest].
  { split; [discriminate|intros (s & H & _); discriminate]. }
  split.
  - destruct (is_start_op c); [discriminate|].
    destruct (allow && Byte.eqb c c_fslash).
    { destruct (re_scan rest 0 0 false) as [i|]; [|discriminate].
      destruct (negb (re_ok (firstn i rest))); [discriminate|].
      destruct (skipn (S i) rest) as [|d q2]; [discriminate|].
      destruct (is_space (bN d) || is_start_op d); discriminate. }
    destruct (beqb_spec c c_dquote) as [->|]; [|discriminate].
    destruct (qscan rest) as [[body r]|] eqn:Eq; [destruct (unquote (c_dquote :: body)); discriminate|].
    intros [= <-]. exists rest. auto.
  - intros (s & [= -> ->] & Hs & ->).
    replace (is_start_op c_dquote) with false by reflexivity.
    replace (Byte.eqb c_dquote c_fslash) with false by reflexivity. rewrite andb_false_r.
    replace (Byte.eqb c_dquote c_dquote) with true by reflexivity. now rewrite Hs.
Qed.

Lemma lex_fault_slash allow q off :
  lex_fault allow q = Some (ENoCloseSlash, off) <->
  allow = true /\ exists s, sk q = c_fslash :: s /\ re_scan s 0 0 false = None
                            /\ off = off_of (c_fslash :: s).
Proof.
  unfold lex_fault. destruct (sk q) as [|c rest].
  { split; [discriminate|intros (_ & s & H & _); discriminate]. }
  split.
  - destruct (is_start_op c); [discriminate|].
    destruct allow; cbn [andb].
    + destruct (beqb_spec c c_fslash) as [->|].
      * destruct (re_scan rest 0 0 false) as [i|] eqn:Er.
        { destruct (negb (re_ok (firstn i rest))); [discriminate|].
          destruct (skipn (S i) rest) as [|d q2]; [discriminate|].
          destruct (is_space (bN d) || is_start_op d); discriminate. }
        intros [= <-]. split; [reflexivity|]. exists rest. auto.
      * destruct (Byte.eqb c c_dquote); [|discriminate].
        destruct (qscan rest) as [[body r]|]; [destruct (unquote (c :: body))|]; discriminate.
    + destruct (Byte.eqb c c_dquote); [|discriminate].
      destruct (qscan rest) as [[body r]|]; [destruct (unquote (c :: body))|]; discriminate.
  - intros (-> & s & [= -> ->] & Hs & ->).
    replace (is_start_op c_fslash) with false by reflexivity.
    replace (Byte.eqb c_fslash c_fslash) with true by reflexivity. cbn [andb]. now rewrite Hs.
Qed.

(** ** what is left is a suffix of the text, so offsets are positions *)
Definition suffix (r q : bytes) : Prop := exists p, q = p ++ r.

Lemma suffix_refl q : suffix q q.
Proof. now exists []. Qed.
Lemma suffix_trans a b c : suffix a b -> suffix b c -> suffix a c.
Proof. intros (p & ->) (p' & ->). exists (p' ++ p). now rewrite app_assoc. Qed.
Lemma suffix_nil q : suffix [] q.
Proof. exists q. now rewrite app_nil_r. Qed.
Lemma suffix_cons c r : suffix r (c :: r).
Proof. now exists [c]. Qed.
Lemma suffix_skipn n q : suffix (skipn n q) q.
Proof. exists (firstn n q). now rewrite firstn_skipn. Qed.
Lemma suffix_length r q : suffix r q -> length r <= length q.
Proof. intros (p & ->). rewrite app_length. lia. Qed.

Lemma skip_spaces_suffix q k : suffix (skip_spaces is_space q k) q.
Proof.
  revert k; induction q as [|c q IH]; intros k; cbn [Tok.skip_spaces]; [apply suffix_refl|].
  assert (Hc : forall k', suffix (skip_spaces is_space q k') (c :: q))
    by (intros k'; eapply suffix_trans; [apply IH|apply suffix_cons]).
  destruct k as [|k]; [|apply Hc].
  destruct (is_start_op c); [apply suffix_refl|].
  destruct (Byte.eqb c c_space); [apply Hc|].
  destruct (decode_rune (c :: q)) as [r size].
  destruct (is_space r); [apply Hc|apply suffix_refl].
Qed.

Lemma qscan_app s : forall b r, qscan s = Some (b, r) -> s = b ++ r.
Proof.
  assert (H : forall n s b r, length s <= n -> qscan s = Some (b, r) -> s = b ++ r).
  { induction n as [|n IH]; intros s0 b r Hn; destruct s0 as [|c s']; cbn [qscan]; try discriminate;
      cbn [length] in Hn; [lia|].
    destruct (Byte.eqb c c_dquote); [intros [= <- <-]; reflexivity|].
    destruct (Byte.eqb c c_bslash).
    - destruct s' as [|d s'']; [discriminate|].
      destruct (qscan s'') as [[b' r']|] eqn:E; [|discriminate].
      intros [= <- <-]. apply IH in E; [|cbn [length] in Hn; lia]. cbn [app]. now rewrite <- E.
    - destruct (qscan s') as [[b' r']|] eqn:E; [|discriminate].
      intros [= <- <-]. apply IH in E; [|lia]. cbn [app]. now rewrite <- E. }
  intros b r. apply (H (length s)). lia.
Qed.

Lemma next_suffix allow q e t r q' e' :
  next allow q e = (t, r, q', e') -> suffix r q' /\ suffix q' q.
Proof.
  unfold Tok.next. pose proof (skip_spaces_suffix q 0) as Hs.
  destruct (sk q) as [|c rest]; [intros [= _ <- <- _]; split; [apply suffix_refl|exact Hs]|].
  destruct (is_start_op c); [intros [= _ <- <- _]; split; [apply suffix_cons|exact Hs]|].
  destruct (allow && Byte.eqb c c_fslash).
  - unfold regexp_tok, tok_error.
    destruct (re_scan rest 0 0 false) as [i|]; [|intros [= _ <- <- _]; split; [apply suffix_nil|exact Hs]].
    destruct (negb (re_ok (firstn i rest))); [intros [= _ <- <- _]; split; [apply suffix_nil|exact Hs]|].
    assert (H2 : suffix (skipn (S i) rest) (c :: rest)).
    { eapply suffix_trans; [apply suffix_skipn|apply suffix_cons]. }
    match goal with |- context [if ?c then _ else _] => destruct c end;
      intros [= _ <- <- _]; (split; [exact H2 || apply suffix_nil|]); try exact Hs.
    eapply suffix_trans; [exact H2|exact Hs].
  - destruct (Byte.eqb c c_dquote).
    + unfold quoted_word, tok_error.
      destruct (qscan rest) as [[body r0]|] eqn:Eq;
        [|intros [= _ <- <- _]; split; [apply suffix_nil|exact Hs]].
      destruct (unquote (c :: body)); intros [= _ <- <- _]; (split; [|exact Hs]); [|apply suffix_nil].
      apply qscan_app in Eq. exists (c :: body). now rewrite Eq.
    + unfold bare_word. intros [= _ <- <- _]. split; [apply suffix_skipn|exact Hs].
Qed.

(** ** error-free runs of the tokenizer driven by a state machine *)
Section Machine.
Variable St : Type.
Variable mode : St -> bool.                 (* are regexps allowed for the next token? *)
Variable step : St -> tok -> option St.

Inductive chain : St -> bytes -> list tok -> St -> bytes -> Prop :=
| ch_nil s q r : sk q = sk r -> chain s q [] s r
| ch_cons s q t r1 q' s1 ts s2 r :
    next (mode s) q None = (t, r1, q', None) -> t_kind t <> KEOF -> step s t = Some s1 ->
    chain s1 r1 ts s2 r -> chain s q (t :: ts) s2 r.

Fixpoint run (s : St) (ts : list tok) : option St :=
  match ts with
  | [] => Some s
  | t :: ts' => match step s t with Some s1 => run s1 ts' | None => None end
  end.

Lemma run_app s ts1 ts2 :
  run s (ts1 ++ ts2) = match run s ts1 with Some s1 => run s1 ts2 | None => None end.
Proof.
  revert s; induction ts1 as [|t ts1 IH]; intros s; cbn [run app]; [reflexivity|].
  destruct (step s t); auto.
Qed.

Lemma chain_run s q ts s2 r : chain s q ts s2 r -> run s ts = Some s2.
Proof. induction 1 as [|s q t r1 q' s1 ts s2 r Hn Hk Hs _ IH]; cbn [run]; [reflexivity|now rewrite Hs]. Qed.

Lemma chain_refl s q : chain s q [] s q.
Proof. now constructor. Qed.

Lemma chain_sk_start s q0 q ts s2 r : sk q0 = sk q -> chain s q ts s2 r -> chain s q0 ts s2 r.
Proof.
  intros E H. destruct H as [s q r H|s q t r1 q' s1 ts s2 r Hn Hk Hs Hc].
  - constructor. congruence.
  - econstructor; eauto. rewrite <- Hn. now apply next_sk.
Qed.

Lemma chain_sk_end s q ts s2 r r' : sk r = sk r' -> chain s q ts s2 r -> chain s q ts s2 r'.
Proof.
  intros E H. induction H as [s q r H|s q t r1 q' s1 ts s2 r Hn Hk Hs Hc IH].
  - constructor. congruence.
  - econstructor; eauto.
Qed.

Lemma chain_app s q ts1 s1 r1 ts2 s2 r2 :
  chain s q ts1 s1 r1 -> chain s1 r1 ts2 s2 r2 -> chain s q (ts1 ++ ts2) s2 r2.
Proof.
  intros H1 H2. induction H1 as [s q r H|s q t r1 q' s1 ts s3 r Hn Hk Hs Hc IH]; cbn [app].
  - now apply (chain_sk_start _ _ r).
  - econstructor; eauto.
Qed.

Lemma chain_snoc s q ts s1 r1 t r2 q' s2 :
  chain s q ts s1 r1 -> next (mode s1) r1 None = (t, r2, q', None) -> t_kind t <> KEOF ->
  step s1 t = Some s2 -> chain s q (ts ++ [t]) s2 r2.
Proof.
  intros H Hn Hk Hs. apply (chain_app _ _ _ _ _ _ _ _ H).
  econstructor; eauto. apply chain_refl.
Qed.

(** every token of a chain has its offset inside the text *)
Lemma chain_offs s q ts s2 r : chain s q ts s2 r -> Forall (fun t => t_off t <= n0) ts.
Proof.
  induction 1 as [|s q t r1 q' s1 ts s2 r Hn Hk Hs _ IH]; constructor; auto.
  exact (next_off _ _ _ _ _ _ _ Hn).
Qed.

Lemma chain_suffix s q ts s2 r : chain s q ts s2 r -> suffix (sk r) q.
Proof.
  induction 1 as [s q r H|s q t r1 q' s1 ts s2 r Hn Hk Hs _ IH].
  - rewrite <- H. apply skip_spaces_suffix.
  - destruct (next_suffix _ _ _ _ _ _ _ Hn) as [S1 S2].
    eapply suffix_trans; [exact IH|]. eapply suffix_trans; eauto.
Qed.

End Machine.

(** change of machine along an abstraction of the states *)
Lemma chain_map {S1 S2} (m1 : S1 -> bool) (st1 : S1 -> tok -> option S1)
      (m2 : S2 -> bool) (st2 : S2 -> tok -> option S2) (f : S1 -> S2) :
  (forall s, m1 s = m2 (f s)) ->
  (forall s t s', st1 s t = Some s' -> st2 (f s) t = Some (f s')) ->
  forall s q ts s' r, chain S1 m1 st1 s q ts s' r -> chain S2 m2 st2 (f s) q ts (f s') r.
Proof.
  intros Hm Hs s q ts s' r H.
  induction H as [s q r H|s q t r1 q' s1 ts s2 r Hn Hk Hst Hc IH].
  - now constructor.
  - rewrite Hm in Hn. econstructor; eauto.
Qed.

(** ** the token stream as a function, for a machine whose step is total *)
Section Toks.
Variable St : Type.
Variable mode : St -> bool.
Variable step : St -> tok -> St.

Fixpoint toks (f : nat) (s : St) (q : bytes) : lexres :=
  match f with
  | O => LexOk []
  | S f' =>
      match lex_fault (mode s) q with
      | Some (w, off) => LexErr w off
      | None =>
          let '(t, r, _, _) := next (mode s) q None in
          match t_kind t with
          | KEOF => LexOk []
          | _ => match toks f' (step s t) r with
                 | LexOk ts => LexOk (t :: ts)
                 | e => e
                 end
          end
      end
  end.

Notation tchain := (chain St mode (fun s t => Some (step s t))).

Lemma toks_cons f s q t r q' :
  next (mode s) q None = (t, r, q', None) -> t_kind t <> KEOF ->
  toks (S f) s q = match toks f (step s t) r with LexOk ts => LexOk (t :: ts) | e => e end.
Proof.
  intros Hn Hk. cbn [toks].
  destruct (next_none_inv _ _ _ _ _ _ Hn) as (_ & _ & ->). rewrite Hn.
  destruct (t_kind t); try reflexivity. congruence.
Qed.

(** a chain that ends at the end of the text is the token stream *)
Lemma chain_toks_ok s q ts s2 r f :
  tchain s q ts s2 r ->
  (exists t r' q', next (mode s2) r None = (t, r', q', None) /\ t_kind t = KEOF) ->
  length q < f -> toks f s q = LexOk ts.
Proof.
  intros H (te & re & qe & He & Hke). revert f.
  induction H as [s q r H|s q t r1 q' s1 ts s2 r Hn Hk Hs Hc IH]; intros f Hf.
  - destruct f as [|f]; [lia|]. cbn [toks].
    rewrite (next_sk _ _ _ _ H), (lex_fault_sk _ _ _ H).
    destruct (next_none_inv _ _ _ _ _ _ He) as (_ & _ & ->). rewrite He, Hke. reflexivity.
  - destruct f as [|f]; [lia|]. injection Hs as <-.
    rewrite (toks_cons f _ _ _ _ _ Hn Hk).
    rewrite IH; [reflexivity|exact He|].
    pose proof (next_consumes _ _ _ _ _ _ _ Hn Hk). lia.
Qed.

(** a chain that ends in front of a lexical fault: the stream is that fault *)
Lemma chain_toks_err s q ts s2 r f w off :
  tchain s q ts s2 r -> lex_fault (mode s2) r = Some (w, off) ->
  length q < f -> toks f s q = LexErr w off.
Proof.
  intros H He. revert f.
  induction H as [s q r H|s q t r1 q' s1 ts s2 r Hn Hk Hs Hc IH]; intros f Hf.
  - destruct f as [|f]; [lia|]. cbn [toks]. now rewrite (lex_fault_sk _ _ _ H), He.
  - destruct f as [|f]; [lia|]. injection Hs as <-.
    rewrite (toks_cons f _ _ _ _ _ Hn Hk).
    rewrite IH; [reflexivity|exact He|].
    pose proof (next_consumes _ _ _ _ _ _ _ Hn Hk). lia.
Qed.

Lemma toks_offs f : forall s q ts, toks f s q = LexOk ts -> Forall (fun t => t_off t <= n0) ts.
Proof.
  induction f as [|f IH]; intros s q ts; cbn [toks]; [intros [= <-]; constructor|].
  destruct (lex_fault (mode s) q) as [[w off]|]; [discriminate|].
  destruct (next (mode s) q None) as [[[t r] q'] e'] eqn:Hn.
  assert (Hstep : match toks f (step s t) r with LexOk ts0 => LexOk (t :: ts0) | e => e end = LexOk ts ->
                  Forall (fun t => t_off t <= n0) ts).
  { destruct (toks f (step s t) r) as [ts0|] eqn:E; [|discriminate].
    intros [= <-]. constructor; [exact (next_off _ _ _ _ _ _ _ Hn)|eauto]. }
  destruct (t_kind t); auto; intros [= <-]; constructor.
Qed.

(** conversely, the stream function is such a chain *)
Lemma toks_ok_chain f : forall s q ts, toks f s q = LexOk ts -> length q < f ->
  exists s2 r, tchain s q ts s2 r /\
    exists t r' q', next (mode s2) r None = (t, r', q', None) /\ t_kind t = KEOF.
Proof.
  induction f as [|f IH]; intros s q ts H Hf; [lia|]. cbn [toks] in H.
  destruct (lex_fault (mode s) q) as [[w off]|] eqn:Ef; [discriminate|].
  destruct (next_fault_none (mode s) q None Ef) as (t & r & Hn). rewrite Hn in H.
  destruct (t_kind t) eqn:Ek;
    try (destruct (toks f (step s t) r) as [ts0|] eqn:E; [|discriminate]; injection H as <-;
         assert (Hk : t_kind t <> KEOF) by congruence;
         pose proof (next_consumes _ _ _ _ _ _ _ Hn Hk);
         destruct (IH _ _ _ E) as (s2 & r2 & Hc & Hend); [lia|];
         exists s2, r2; split; [eapply ch_cons; eauto|exact Hend]).
  injection H as <-. exists s, q. split; [apply chain_refl|]. eauto.
Qed.

Lemma toks_err_chain f : forall s q w off, toks f s q = LexErr w off ->
  exists ts s2 r, tchain s q ts s2 r /\ lex_fault (mode s2) r = Some (w, off).
Proof.
  induction f as [|f IH]; intros s q w off H; [discriminate|]. cbn [toks] in H.
  destruct (lex_fault (mode s) q) as [[w1 off1]|] eqn:Ef.
  { injection H as <- <-. exists [], s, q. split; [apply chain_refl|exact Ef]. }
  destruct (next_fault_none (mode s) q None Ef) as (t & r & Hn). rewrite Hn in H.
  destruct (t_kind t) eqn:Ek; try discriminate;
    (destruct (toks f (step s t) r) as [ts0|w2 off2] eqn:E; [discriminate|]; injection H as -> ->;
     assert (Hk : t_kind t <> KEOF) by congruence;
     destruct (IH _ _ _ _ E) as (ts & s2 & r2 & Hc & Hl);
     exists (t :: ts), s2, r2; split; [eapply ch_cons; eauto|exact Hl]).
Qed.

End Toks.

End Stream.
