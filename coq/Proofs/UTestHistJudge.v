(** What Corr/RunC11.v judges on history cases (kind 4) and concurrent batches
    (kind 5): an accepted history has left the caller's array unchanged after
    EVERY call and every call's outcome satisfies the property's predicate
    [prop_ok_u] for the values its windows held before the first call; an
    accepted batch has, for every job, a sequential outcome satisfying
    [prop_ok_u] and only concurrent outcomes equal to it. *)
From Coq Require Import ZArith List Bool Lia.
From Perf Require Import Base.Bytes Base.Sx Base.B64 Model.UStat Model.UTest Model.UTestHist.
From Perf Require Import Corr.RunC11.
Import ListNotations.
Local Open Scope Z_scope.

Lemma is_nil_true {A} (l : list A) : is_nil l = true <-> l = [].
Proof. destruct l; cbn; split; congruence. Qed.

Lemma prop_ok_h_judges_original c :
  prop_ok_h c = true ->
  forall op, In op (hc_ops c) ->
    ho_mut op = []
    /\ valid_window (hc_series c) (h_lo1 (ho_op op)) (h_hi1 (ho_op op)) = true
    /\ valid_window (hc_series c) (h_lo2 (ho_op op)) (h_hi2 (ho_op op)) = true
    /\ prop_ok_u (mkU (window (hc_series c) (h_lo1 (ho_op op)) (h_hi1 (ho_op op)))
                      (window (hc_series c) (h_lo2 (ho_op op)) (h_hi2 (ho_op op)))
                      (h_alt (ho_op op)) (hc_lims c) (ho_out op) LNone (hc_oracle c)) = true.
Proof.
  unfold prop_ok_h. rewrite forallb_forall. intros H op Hop.
  specialize (H op Hop). unfold hop_valid in H.
  rewrite !andb_true_iff in H. destruct H as [[[V1 V2] Hm] Hp].
  apply is_nil_true in Hm. repeat split; assumption.
Qed.

(** the model's side: [corr_hist] threads [mem_after]; the array it compares with stays the series *)
Lemma corr_hist_mem c ops :
  corr_hist c (hc_series c) ops = true ->
  forall op, In op ops -> ho_mut op = [] /\ corr_ok_u (hop_ucase c (hc_series c) op) = true.
Proof.
  induction ops as [|o r IH]; intros H op Hop; [destruct Hop|].
  cbn [corr_hist] in H. unfold mem_after in H. rewrite !andb_true_iff in H. destruct H as [[Hc Hm] Hr].
  assert (E : list_eqb Z.eqb (hc_series c) (hc_series c) = true).
  { apply (list_eqb_spec Z.eqb); [intros x y; apply Z.eqb_eq|reflexivity]. }
  rewrite E in Hm. apply is_nil_true in Hm.
  destruct Hop as [<-|Hop]; [split; assumption|]. now apply IH.
Qed.

Lemma outcome_same_refl o : (match o with OPanic | OOther => false | _ => true end) = true -> outcome_same o o = true.
Proof.
  destruct o; cbn; try congruence; intros _.
  unfold same_bits. now rewrite !Z.eqb_refl, !b64_same_refl.
Qed.

Lemma prop_ok_c_judges c :
  prop_ok_c c = true ->
  4 <= cc_procs c /\ 8 <= cc_gor c /\ cc_race_ok c = true /\ cc_unchanged c = true /\
  forall j, In j (cc_jobs c) ->
    prop_ok_u (j_case j) = true /\ j_conc j <> [] /\
    forall o, In o (j_conc j) -> outcome_same (u_out (j_case j)) o = true.
Proof.
  unfold prop_ok_c. rewrite !andb_true_iff, !Z.leb_le, forallb_forall.
  intros [[[[[Hp Hg] _] Hr] Hu] Hj]. repeat split; try assumption.
  - apply (Hj j) in H. rewrite andb_true_iff in H. tauto.
  - apply (Hj j) in H. rewrite andb_true_iff in H. destruct H as [_ H].
    unfold job_conc_ok in H. rewrite andb_true_iff in H. destruct H as [H _].
    intros E. rewrite E in H. discriminate.
  - intros o Ho. apply (Hj j) in H. rewrite andb_true_iff in H. destruct H as [_ H].
    unfold job_conc_ok in H. rewrite andb_true_iff in H. destruct H as [_ H].
    rewrite forallb_forall in H. now apply H.
Qed.
