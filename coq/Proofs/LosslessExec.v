(** C08: the executable losslessness check of the correspondence evaluator
    (Corr/RunC08.v: [same_info], used by [lossless_ok] on the Keys the real code
    returned) decides exactly the right-hand side of
    projections_plus_residue_lossless (Proofs/Lossless.v). *)
From Perf Require Import Base.Bytes Model.Name Model.Extract Model.Key Model.Projection
  Proofs.Key Proofs.Extract Proofs.Projection Proofs.Exclusion Proofs.KeyGet Proofs.Lossless.
From Perf Require Corr.RunC08.

Module X := Corr.RunC08.

Definition calls_of (ex : list X.expr) : list call := map (fun e => (X.e_unit e, X.e_fields e)) ex.

(** ** the exclusion lists computed from the expressions are the parser's *)
Lemma processed_ok fs : forallb spec_ok fs = true -> processed fs = fs.
Proof.
  induction fs as [|s fs IH]; cbn; auto. intros H. apply andb_prop in H as [H1 H2].
  rewrite H1. now rewrite IH.
Qed.

Lemma flat_specs_ok ex :
  Forall call_ok (calls_of ex) -> flat_map call_specs (calls_of ex) = flat_map X.e_fields ex.
Proof.
  induction ex as [|e ex IH]; cbn [calls_of map flat_map]; auto. intros H. inversion H as [|? ? H1 H2]; subst.
  fold (calls_of ex). rewrite IH by auto. unfold call_specs. cbn [snd]. now rewrite processed_ok.
Qed.

Lemma spec_ok_order s : spec_ok s = true -> exists o, order_of_spec s = Some o.
Proof.
  unfold spec_ok, mp_proj. destruct (order_of_spec s) as [o|]; [eauto|discriminate].
Qed.

Lemma mem_one k x : mem k [x] = beq k x.
Proof. unfold mem. cbn. apply orb_false_r. Qed.

Lemma adds_spec s k :
  spec_ok s = true ->
  adds_cfg s k = beq k (ps_key s) && negb (X.is_group_key (ps_key s)) && negb (is_fullname_key (ps_key s)) /\
  adds_full s k = beq k (ps_key s) && negb (X.is_group_key (ps_key s)) && is_fullname_key (ps_key s).
Proof.
  intros Hok. unfold adds_cfg, adds_full, X.is_group_key.
  unfold spec_ok, mp_proj in Hok. unfold mp_parser.
  destruct (order_of_spec s) as [o|]; [|discriminate].
  destruct (beq (ps_key s) key_config) eqn:E1.
  { destruct (is_fixed o); [discriminate|]. cbn. now rewrite !andb_false_r. }
  destruct (beq (ps_key s) key_fullname) eqn:E2.
  { cbn. now rewrite !andb_false_r. }
  destruct (beq (ps_key s) key_unit) eqn:E3; [discriminate|].
  cbn [orb negb]. rewrite !andb_true_r.
  destruct (is_fullname_key (ps_key s)); cbn [pp_cfg pp_full pp_add_full pp_add_cfg new_parser app negb].
  - rewrite mem_one, andb_false_r, andb_true_r. auto.
  - rewrite mem_one, andb_false_r, andb_true_r. auto.
Qed.

Lemma in_filter_map_key (f : bytes -> bool) (ss : list pspec) k :
  In k (filter f (map ps_key ss)) <-> existsb (fun s => beq k (ps_key s) && f (ps_key s)) ss = true.
Proof.
  rewrite filter_In, in_map_iff, existsb_exists. split.
  - intros [[s [<- Hs]] Hf]. exists s. split; auto. now rewrite beq_refl.
  - intros [s [Hs Hb]]. apply andb_prop in Hb as [H1 H2]. apply beq_eq in H1. subst. split; eauto.
Qed.

Lemma existsb_ext_in {A} (f g : A -> bool) l :
  (forall x, In x l -> f x = g x) -> existsb f l = existsb g l.
Proof. induction l as [|x l IH]; cbn; auto. intros H. rewrite H by auto. rewrite IH; auto. Qed.

Theorem excl_lists_are_the_parsers ex :
  Forall call_ok (calls_of ex) ->
  seteq (X.excl_cfg ex) (pp_cfg (parser_after (calls_of ex))) /\
  seteq (X.excl_full ex) (pp_full (parser_after (calls_of ex))).
Proof.
  intros Hok.
  assert (Hall : forall s, In s (flat_map X.e_fields ex) -> spec_ok s = true).
  { intros s Hs. apply in_flat_map in Hs as [e [He Hs]]. rewrite Forall_forall in Hok.
    assert (call_ok (X.e_unit e, X.e_fields e)) as Hc by (apply Hok; unfold calls_of; apply in_map_iff; eauto).
    unfold call_ok in Hc. cbn in Hc. rewrite forallb_forall in Hc. auto. }
  rewrite parser_after_specs, flat_specs_ok by auto.
  destruct (fold_parser_effect (flat_map X.e_fields ex) new_parser) as [A1 [A2 _]]. cbv zeta in A1, A2.
  split; intros k;
    (etransitivity; [|apply mem_In]); rewrite ?A1, ?A2; cbn [new_parser pp_cfg pp_full mem existsb orb].
  - unfold X.excl_cfg, X.all_keys. rewrite filter_In, in_filter_map_key.
    rewrite (existsb_ext_in (fun s => adds_cfg s k)
               (fun s => beq k (ps_key s) && negb (X.is_group_key (ps_key s)) && negb (is_fullname_key (ps_key s)))).
    2:{ intros s Hs. apply (adds_spec s k (Hall s Hs)). }
    rewrite !existsb_exists. split.
    + intros [[s [Hs Hb]] Hf]. exists s. split; auto. apply andb_prop in Hb as [H1 H2].
      apply beq_eq in H1. subst k. now rewrite beq_refl, H2, Hf.
    + intros [s [Hs Hb]]. apply andb_prop in Hb as [Hb H3]. apply andb_prop in Hb as [H1 H2].
      apply beq_eq in H1. subst k. split; auto. exists s. split; auto. now rewrite beq_refl, H2.
  - unfold X.excl_full, X.all_keys. rewrite filter_In, in_filter_map_key.
    rewrite (existsb_ext_in (fun s => adds_full s k)
               (fun s => beq k (ps_key s) && negb (X.is_group_key (ps_key s)) && is_fullname_key (ps_key s))).
    2:{ intros s Hs. apply (adds_spec s k (Hall s Hs)). }
    rewrite !existsb_exists. split.
    + intros [[s [Hs Hb]] Hf]. exists s. split; auto. apply andb_prop in Hb as [H1 H2].
      apply beq_eq in H1. subst k. now rewrite beq_refl, H2, Hf.
    + intros [s [Hs Hb]]. apply andb_prop in Hb as [Hb H3]. apply andb_prop in Hb as [H1 H2].
      apply beq_eq in H1. subst k. split; auto. exists s. split; auto. now rewrite beq_refl, H2.
Qed.

(** ** [same_info] only looks at C and E as sets *)
Lemma same_info_seteq C C' E E' a b :
  seteq C C' -> seteq E E' -> (same_info C E a b <-> same_info C' E' a b).
Proof.
  intros HC HE. unfold same_info. rewrite (extractor_fullname_seteq E E' (r_name a) HE),
    (extractor_fullname_seteq E E' (r_name b) HE).
  split; intros [S1 [S2 [S3 S4]]]; (split; [|split; [|split]]); auto; intros k Hk.
  - apply S1. now apply HC.
  - apply S2. intros Hc. apply Hk. now apply HC.
  - apply S3. now apply HE.
  - apply S1. now apply HC.
  - apply S2. intros Hc. apply Hk. now apply HC.
  - apply S3. now apply HE.
Qed.

(** ** boolean reflection *)
Lemma file_val_is r k : X.file_val r k = cfg_file_val (r_cfg r) k.
Proof. reflexivity. Qed.

Lemma file_val_absent r k : ~ In k (X.file_keys r) -> cfg_file_val (r_cfg r) k = [].
Proof.
  intros Hn. unfold cfg_file_val. destruct (cfg_lookup (r_cfg r) k) as [x|] eqn:El; auto.
  destruct (c_file x) eqn:Ef; auto. exfalso. apply Hn.
  destruct (cfg_lookup_some _ _ _ El) as [Hx <-]. unfold X.file_keys. apply in_map. apply filter_In. auto.
Qed.

Theorem same_info_exec ex a b :
  Forall call_ok (calls_of ex) ->
  let pa := parser_after (calls_of ex) in
  (X.same_info ex a b = true <->
   same_info (pp_cfg pa) (pp_full pa) a b /\
   (existsb X.e_unit ex = true -> r_units a = r_units b)).
Proof.
  intros Hok. cbv zeta. destruct (excl_lists_are_the_parsers ex Hok) as [HC HE].
  rewrite <- (same_info_seteq _ _ _ _ a b HC HE).
  unfold X.same_info, same_info. rewrite !andb_true_iff, !forallb_forall.
  assert (Hu : negb (existsb X.e_unit ex) || X.blist_eqb (r_units a) (r_units b) = true <->
               (existsb X.e_unit ex = true -> r_units a = r_units b)).
  { destruct (existsb X.e_unit ex); cbn.
    - unfold X.blist_eqb. rewrite (list_eqb_spec beq beq_eq). tauto.
    - split; [discriminate|auto]. }
  rewrite Hu.
  assert (H2 : (forall k, In k (X.file_keys a ++ X.file_keys b) ->
                  mem k (X.excl_cfg ex) || beq (X.file_val a k) (X.file_val b k) = true) <->
               (forall k, ~ In k (X.excl_cfg ex) -> cfg_file_val (r_cfg a) k = cfg_file_val (r_cfg b) k)).
  { split.
    - intros H k Hk. destruct (in_dec (list_eq_dec Byte.byte_eq_dec) k (X.file_keys a ++ X.file_keys b)) as [Hin|Hin].
      + specialize (H k Hin). apply orb_prop in H as [H|H].
        * apply mem_In in H. contradiction.
        * now apply beq_eq in H.
      + rewrite !file_val_absent; auto; intros Hc; apply Hin, in_or_app; auto.
    - intros H k _. destruct (mem k (X.excl_cfg ex)) eqn:Em; auto. cbn.
      apply beq_eq. apply H. intros Hc. apply mem_In in Hc. congruence. }
  rewrite H2.
  split.
  - intros [[[[S1 S2] S3] S4] S5]. split; [|exact S5]. split; [|split; [exact S2|split]].
    + intros k Hk. apply beq_eq. auto.
    + intros k Hk. apply beq_eq. auto.
    + now apply beq_eq.
  - intros [[S1 [S2 [S3 S4]]] S5]. repeat split; auto.
    + intros k Hk. apply beq_eq. auto.
    + intros k Hk. apply beq_eq. auto.
    + now apply beq_eq.
Qed.
