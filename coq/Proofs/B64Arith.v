(** Real-number view of the executable binary64 operations of Base/B64.v
    ([spec_float], SpecFloat's SFadd/SFsub/SFmul/SFdiv/SFsqrt/binary_normalize):
    each is Flocq's verified operation at mode_NE (the same identifications as in
    Flocq's PrimFloat.v, without primitive floats), hence on finite operands the
    correctly rounded real result as long as that stays below 2^1024.

    [fin x r]: the spec_float [x] is a valid finite binary64 number of exact real
    value [r] (the sign of a zero is not recorded).
    Uses the standard library's classical real numbers (Print Assumptions). *)
From Coq Require Import ZArith Reals Lia Lra Bool.
From Flocq Require Import Core BinarySingleNaN.
From Perf Require Import Base.B64 Proofs.B64Flocq.
Local Open Scope Z_scope.

Lemma binary_round_equiv s m e :
  SpecFloat.binary_round 53 1024 s m e = BinarySingleNaN.binary_round 53 1024 mode_NE s m e.
Proof.
  unfold SpecFloat.binary_round, BinarySingleNaN.binary_round, shl_align_fexp.
  set (mez := shl_align _ _ _); case mez as [mz ez]. apply binary_round_aux_equiv.
Qed.

Lemma binary_normalize_equiv m e szero :
  SpecFloat.binary_normalize 53 1024 m e szero
  = B2SF (BinarySingleNaN.binary_normalize 53 1024 _ _ mode_NE m e szero).
Proof.
  case m as [|p|p].
  - now simpl.
  - simpl; rewrite B2SF_SF2B; apply binary_round_equiv.
  - simpl; rewrite B2SF_SF2B; apply binary_round_equiv.
Qed.

Lemma b64_add_Bplus (x y : Bf) : b64_add (B2SF x) (B2SF y) = B2SF (Bplus mode_NE x y).
Proof.
  destruct x as [sx|sx| |sx mx ex Bx], y as [sy|sy| |sy my ey By];
    try reflexivity; try (simpl; now case Bool.eqb).
  apply binary_normalize_equiv.
Qed.

Lemma b64_sub_Bminus (x y : Bf) : b64_sub (B2SF x) (B2SF y) = B2SF (Bminus mode_NE x y).
Proof.
  destruct x as [sx|sx| |sx mx ex Bx], y as [sy|sy| |sy my ey By];
    try reflexivity; try (simpl; now case Bool.eqb).
  unfold b64_sub. simpl. unfold Zminus. rewrite <- cond_Zopp_negb. apply binary_normalize_equiv.
Qed.

Lemma b64_mul_Bmult (x y : Bf) : b64_mul (B2SF x) (B2SF y) = B2SF (Bmult mode_NE x y).
Proof.
  destruct x as [sx|sx| |sx mx ex Bx], y as [sy|sy| |sy my ey By]; try reflexivity.
  unfold b64_mul. simpl. rewrite B2SF_SF2B. apply binary_round_aux_equiv.
Qed.

Lemma b64_sqrt_Bsqrt (x : Bf) : b64_sqrt (B2SF x) = B2SF (Bsqrt mode_NE x).
Proof.
  destruct x as [sx|sx| |sx mx ex Bx]; try reflexivity; try (now case sx).
  case sx; [reflexivity|].
  unfold b64_sqrt. simpl. rewrite B2SF_SF2B.
  set (melz := SFsqrt_core_binary _ _ _ _). case melz as [[mz ez] lz]. apply binary_round_aux_equiv.
Qed.

Lemma b64_of_ZE_B m e : b64_of_ZE m e = B2SF (BinarySingleNaN.binary_normalize 53 1024 _ _ mode_NE m e false).
Proof. apply binary_normalize_equiv. Qed.

(** ** finite values *)
Definition fin (x : b64) (r : R) : Prop :=
  exists f : Bf, B2SF f = x /\ is_finite f = true /\ B2R f = r.

Definition small (r : R) : Prop := (Rabs r <= bpow radix2 1000)%R.

Lemma rnd_small r : small r -> (Rabs (rnd r) < bpow radix2 1024)%R.
Proof.
  intros H. apply Rle_lt_trans with (bpow radix2 1000); [|apply bpow_lt; lia].
  apply abs_round_le_generic; [typeclasses eauto.. | | exact H].
  apply generic_format_bpow. vm_compute. discriminate.
Qed.

Lemma fin_add x y a b : fin x a -> fin y b -> small (a + b) -> fin (b64_add x y) (rnd (a + b)).
Proof.
  intros (fx & <- & Fx & <-) (fy & <- & Fy & <-) Hs. rewrite b64_add_Bplus.
  pose proof (Bplus_correct 53 1024 _ _ mode_NE fx fy Fx Fy) as H. cbn [round_mode] in H.
  rewrite Rlt_bool_true in H by now apply rnd_small. destruct H as (H1 & H2 & _).
  now exists (Bplus mode_NE fx fy).
Qed.

Lemma fin_sub x y a b : fin x a -> fin y b -> small (a - b) -> fin (b64_sub x y) (rnd (a - b)).
Proof.
  intros (fx & <- & Fx & <-) (fy & <- & Fy & <-) Hs. rewrite b64_sub_Bminus.
  pose proof (Bminus_correct 53 1024 _ _ mode_NE fx fy Fx Fy) as H. cbn [round_mode] in H.
  rewrite Rlt_bool_true in H by now apply rnd_small. destruct H as (H1 & H2 & _).
  now exists (Bminus mode_NE fx fy).
Qed.

Lemma fin_mul x y a b : fin x a -> fin y b -> small (a * b) -> fin (b64_mul x y) (rnd (a * b)).
Proof.
  intros (fx & <- & Fx & <-) (fy & <- & Fy & <-) Hs. rewrite b64_mul_Bmult.
  pose proof (Bmult_correct 53 1024 _ _ mode_NE fx fy) as H. cbn [round_mode] in H.
  rewrite Rlt_bool_true in H by now apply rnd_small. destruct H as (H1 & H2 & _).
  exists (Bmult mode_NE fx fy). rewrite H2, Fx, Fy. auto.
Qed.

Lemma fin_div x y a b : fin x a -> fin y b -> b <> 0%R -> small (a / b) -> fin (b64_div x y) (rnd (a / b)).
Proof.
  intros (fx & <- & Fx & <-) (fy & <- & Fy & <-) Hb Hs. rewrite b64_div_Bdiv.
  pose proof (Bdiv_correct 53 1024 _ _ mode_NE fx fy Hb) as H. cbn [round_mode] in H.
  rewrite Rlt_bool_true in H by now apply rnd_small. destruct H as (H1 & H2 & _).
  exists (Bdiv mode_NE fx fy). rewrite H2. auto.
Qed.

Lemma fin_sqrt x a : fin x a -> (0 <= a)%R -> fin (b64_sqrt x) (rnd (sqrt a)).
Proof.
  intros (fx & <- & Fx & <-) Ha. rewrite b64_sqrt_Bsqrt.
  destruct (Bsqrt_correct 53 1024 _ _ mode_NE fx) as (H1 & H2 & _). cbn [round_mode] in H1.
  exists (Bsqrt mode_NE fx). split; [reflexivity|]. split; [|exact H1]. rewrite H2.
  destruct fx as [s|s| |s m e B]; try discriminate; [reflexivity|]. destruct s; [|reflexivity].
  exfalso. cbn [B2R] in Ha. pose proof (F2R_lt_0 radix2 (Float radix2 (cond_Zopp true (Zpos m)) e) ltac:(cbn; lia)). lra.
Qed.

(** float64(int) *)
Lemma fin_of_Z z : small (IZR z) -> fin (b64_of_Z z) (rnd (IZR z)).
Proof.
  intros Hs. unfold b64_of_Z. fold (b64_of_ZE z 0). rewrite b64_of_ZE_B.
  pose proof (binary_normalize_correct 53 1024 _ _ mode_NE z 0 false) as H. cbv zeta in H. cbn [round_mode] in H.
  assert (E : F2R (Float radix2 z 0) = IZR z) by (unfold F2R; cbn; lra).
  rewrite E in H. rewrite Rlt_bool_true in H by now apply rnd_small. destruct H as (H1 & H2 & _).
  eexists. split; [reflexivity|]. split; [exact H2 | exact H1].
Qed.

(** integers below 2^53 in magnitude are binary64 numbers *)
Lemma int_format z : Z.abs z < 2 ^ 53 -> generic_format radix2 (SpecFloat.fexp 53 1024) (IZR z).
Proof.
  intros Hz. change (SpecFloat.fexp 53 1024) with (FLT_exp (-1074) 53).
  apply generic_format_FLT. apply (FLT_spec radix2 (-1074) 53 (IZR z) (Float radix2 z 0)).
  - unfold F2R. cbn. lra.
  - exact Hz.
  - cbn. lia.
Qed.

Lemma rnd_int z : Z.abs z < 2 ^ 53 -> rnd (IZR z) = IZR z.
Proof. intros Hz. apply round_generic; [typeclasses eauto | now apply int_format]. Qed.

Lemma small_int z : Z.abs z <= 2 ^ 1000 -> small (IZR z).
Proof.
  intros Hz. unfold small. rewrite <- abs_IZR. change (bpow radix2 1000) with (IZR (2 ^ 1000)).
  now apply IZR_le.
Qed.

Lemma fin_of_Z_exact z : Z.abs z < 2 ^ 53 -> fin (b64_of_Z z) (IZR z).
Proof.
  intros Hz. rewrite <- (rnd_int z Hz). apply fin_of_Z. apply small_int.
  assert (2 ^ 53 <= 2 ^ 1000) by (apply Z.pow_le_mono_r; lia). lia.
Qed.

Lemma rnd_mono a b : (a <= b)%R -> (rnd a <= rnd b)%R.
Proof. apply round_le; typeclasses eauto. Qed.

Lemma rnd_0 : rnd 0 = 0%R.
Proof. apply round_0. typeclasses eauto. Qed.

(** comparison with zero *)
Lemma fin_eq_zero x r : fin x r -> b64_eq x b64_zero = Req_bool r 0.
Proof.
  intros (f & <- & Ff & <-). change b64_zero with (B2SF (@B754_zero 53 1024 false)).
  change (b64_eq (B2SF f) (B2SF (B754_zero false))) with (Beqb f (@B754_zero 53 1024 false)).
  now rewrite Beqb_correct.
Qed.

Lemma fin_zero_iff x r : fin x r -> (b64_eq x b64_zero = true <-> r = 0%R).
Proof.
  intros H. rewrite (fin_eq_zero x r H). destruct (Req_bool_spec r 0); split; intros; auto; discriminate.
Qed.
