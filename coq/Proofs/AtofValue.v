(** The scanners compute the number the grammar denotes.

    For a text of the grammar, [lex_float s = Some (LNum neg base2 M E)], the
    code's readFloat returns the same sign and base, and a mantissa/exponent pair
    that is M * B^E cut after the first 19 (hex: 16) significant digits:
        M = mant * B^j + tail,  0 <= tail < B^j,  exp = E + j (hex: E + 4j),
    with [trunc] set exactly when tail <> 0.  decimal.set likewise keeps the first
    800 significant digits.  Hypothesis: the exponent digits are not so many that
    the code's accumulation stops (|exponent| < 100000, see [no_clamp]). *)
From Perf Require Import Base.Bytes Base.B64 Base.DecSpec Model.Atoi Model.Atof Proofs.Atoi Proofs.AtofSyntax.
Local Open Scope Z_scope.

Definition radixB (hex : bool) : Z := if hex then 16 else 10.
Definition maxMant (hex : bool) : Z := if hex then 16 else 19.

(** ** character values *)
Lemma hex_letter_val c : code_is_dec_digit c = false -> code_is_hex_letter c = true ->
  lower c - 97 + 10 = digit_val c /\ 10 <= digit_val c <= 15.
Proof. destruct c; cbn; intros H1 H2; try discriminate; split; try reflexivity; lia. Qed.

Lemma dec_digit_val c : code_is_dec_digit c = true ->
  bZ c - 48 = digit_val c /\ 0 <= digit_val c <= 9 /\ (digit_val c = 0 <-> Byte.eqb c c_zero = true).
Proof. destruct c; cbn; intros H; try discriminate; repeat split; intros; try reflexivity; try lia; try discriminate. Qed.

Lemma digits_val_snoc B l c : digits_val B (l ++ [c]) = digits_val B l * B + digit_val c.
Proof. unfold digits_val. now rewrite fold_left_app. Qed.

(** ** readFloat's mantissa loop: one digit step *)
Definition rf_step (hex : bool) (st : rf) (c : byte) : rf :=
  let mm := maxMant hex in
  if code_is_dec_digit c then
    if Byte.eqb c c_zero && (rf_nd st =? 0) then
      mkRf (rf_mant st) (rf_nd st) (rf_ndMant st) (rf_dp st - 1) (rf_sawdot st) true (rf_trunc st)
    else if rf_ndMant st <? mm then
      mkRf (u64 (u64 (rf_mant st * (if hex then 16 else 10)) + (bZ c - 48)))
           (rf_nd st + 1) (rf_ndMant st + 1) (rf_dp st) (rf_sawdot st) true (rf_trunc st)
    else
      mkRf (rf_mant st) (rf_nd st + 1) (rf_ndMant st) (rf_dp st) (rf_sawdot st) true
           (rf_trunc st || negb (Byte.eqb c c_zero))
  else
    if rf_ndMant st <? mm then
      mkRf (u64 (u64 (rf_mant st * 16) + (lower c - 97 + 10)))
           (rf_nd st + 1) (rf_ndMant st + 1) (rf_dp st) (rf_sawdot st) true (rf_trunc st)
    else
      mkRf (rf_mant st) (rf_nd st + 1) (rf_ndMant st) (rf_dp st) (rf_sawdot st) true true.

Lemma rf_digits_digit hex c r st : sisd hex c = true ->
  rf_digits hex (maxMant hex) (c :: r) st = rf_digits hex (maxMant hex) r (rf_step hex st c).
Proof.
  intros Hd. destruct (isd_facts hex c Hd) as [Hu [Hdot _]].
  cbn [rf_digits]. rewrite Hu, Hdot. unfold rf_step.
  rewrite <- cisd_sisd in Hd. unfold cisd in Hd.
  destruct (code_is_dec_digit c); cbn [orb] in Hd.
  - destruct (Byte.eqb c c_zero && (rf_nd st =? 0)); [reflexivity|].
    destruct (rf_ndMant st <? maxMant hex); reflexivity.
  - rewrite Hd. destruct (rf_ndMant st <? maxMant hex); reflexivity.
Qed.

(** the invariant: [D] the digits read so far, [F] how many of them after the point *)
Definition rf_inv (hex : bool) (st : rf) (D : bytes) (F : Z) : Prop :=
  let B := radixB hex in let mm := maxMant hex in
  0 <= rf_ndMant st <= rf_nd st /\ rf_ndMant st <= mm /\
  (rf_ndMant st < mm -> rf_ndMant st = rf_nd st /\ rf_trunc st = false) /\
  0 <= rf_mant st < B ^ rf_ndMant st /\
  (0 < rf_nd st -> 0 < rf_mant st) /\
  (exists tail, digits_val B D = rf_mant st * B ^ (rf_nd st - rf_ndMant st) + tail /\
                0 <= tail < B ^ (rf_nd st - rf_ndMant st) /\
                (rf_trunc st = false -> tail = 0) /\ (rf_trunc st = true -> 0 < tail)) /\
  (rf_sawdot st = true -> rf_dp st - rf_nd st = - F) /\
  (rf_sawdot st = false -> F = 0) /\ 0 <= F.

Lemma rf_inv_intro hex st D F :
  0 <= rf_ndMant st <= rf_nd st -> rf_ndMant st <= maxMant hex ->
  (rf_ndMant st < maxMant hex -> rf_ndMant st = rf_nd st /\ rf_trunc st = false) ->
  0 <= rf_mant st < radixB hex ^ rf_ndMant st ->
  (0 < rf_nd st -> 0 < rf_mant st) ->
  (exists tail, digits_val (radixB hex) D = rf_mant st * radixB hex ^ (rf_nd st - rf_ndMant st) + tail /\
                0 <= tail < radixB hex ^ (rf_nd st - rf_ndMant st) /\
                (rf_trunc st = false -> tail = 0) /\ (rf_trunc st = true -> 0 < tail)) ->
  (rf_sawdot st = true -> rf_dp st - rf_nd st = - F) ->
  (rf_sawdot st = false -> F = 0) -> 0 <= F ->
  rf_inv hex st D F.
Proof. intros. unfold rf_inv. cbv zeta. tauto. Qed.

Lemma pow_mm_le hex n : 0 <= n <= maxMant hex -> radixB hex ^ n <= 2 ^ 64.
Proof.
  intros H. apply Z.le_trans with (radixB hex ^ maxMant hex).
  - apply Z.pow_le_mono_r; [destruct hex; cbn; lia|lia].
  - destruct hex; vm_compute; discriminate.
Qed.

Ltac fin_dp Hdp Hnd :=
  let X := fresh in
  destruct (rf_sawdot _) eqn:X; intros; try discriminate;
  try (specialize (Hdp eq_refl)); try (specialize (Hnd eq_refl)); lia.

Lemma rf_step_inv hex st c D F : sisd hex c = true -> rf_inv hex st D F ->
  rf_inv hex (rf_step hex st c) (D ++ [c]) (F + (if rf_sawdot st then 1 else 0)).
Proof.
  intros Hd (Hn & Hmm & Hlt & Hm & Hpos & (tail & Hv & Ht & Htf & Htt) & Hdp & Hnd & HF).
  assert (HB : 2 <= radixB hex) by (destruct hex; cbn; lia).
  assert (Hdv : 0 <= digit_val c < radixB hex /\
                (code_is_dec_digit c = true -> bZ c - 48 = digit_val c /\ (digit_val c = 0 <-> Byte.eqb c c_zero = true)) /\
                (code_is_dec_digit c = false -> hex = true /\ lower c - 97 + 10 = digit_val c /\ 10 <= digit_val c)).
  { rewrite <- cisd_sisd in Hd. unfold cisd in Hd. destruct (code_is_dec_digit c) eqn:E; cbn [orb] in Hd.
    - destruct (dec_digit_val c E) as [H1 [H2 H3]].
      split; [destruct hex; cbn; lia|]. split; [intros _; split; assumption|intros; discriminate].
    - apply andb_true_iff in Hd as [Hh Hl]. subst hex. destruct (hex_letter_val c E Hl) as [H1 H2].
      split; [cbn; lia|]. split; [intros; discriminate|intros _; repeat split; [assumption|lia]]. }
  destruct Hdv as (Hdr & Hdec & Hhex).
  set (RB := radixB hex) in *. set (mm := maxMant hex) in *.
  assert (Hj : 0 <= rf_nd st - rf_ndMant st) by lia.
  assert (Hmm1 : 1 <= mm) by (unfold mm; destruct hex; cbn; lia).
  unfold rf_step. fold mm.
  destruct (code_is_dec_digit c) eqn:Edec.
  - destruct (Hdec eq_refl) as [Hval Hzero].
    destruct (Byte.eqb c c_zero && (rf_nd st =? 0)) eqn:Elz.
    + (* leading zero *)
      apply andb_true_iff in Elz as [Ez End]. apply Z.eqb_eq in End.
      assert (Hd0 : digit_val c = 0) by now apply Hzero.
      assert (Hn0 : rf_ndMant st = 0) by lia.
      rewrite End, Hn0 in *. change (0 - 0) with 0 in *. rewrite Z.pow_0_r in *.
      apply rf_inv_intro; fold RB mm; cbn [rf_mant rf_nd rf_ndMant rf_dp rf_sawdot rf_trunc];
        rewrite ?End, ?Hn0; change (0 - 0) with 0; rewrite ?Z.pow_0_r; try lia; try assumption.
      * exists 0. rewrite digits_val_snoc, Hv. replace (rf_mant st) with 0 by lia. replace tail with 0 by lia.
        repeat split; try lia. intros X.
        destruct (Hlt ltac:(unfold mm; destruct hex; cbn; lia)) as [_ Y]. congruence.
      * fin_dp Hdp Hnd.
      * fin_dp Hdp Hnd.
      * fin_dp Hdp Hnd.
    + destruct (Z.ltb_spec (rf_ndMant st) mm) as [Hroom|Hfull].
      * (* a digit of the mantissa *)
        destruct (Hlt Hroom) as [Heq Htr].
        rewrite Heq in *. rewrite Z.sub_diag in *. rewrite Z.pow_0_r in *.
        assert (tail = 0) by lia. subst tail.
        replace (if hex then 16 else 10) with RB by (unfold RB; destruct hex; reflexivity).
        assert (Hb : rf_mant st * RB + digit_val c < RB ^ (rf_nd st + 1)).
        { rewrite Z.pow_add_r, Z.pow_1_r by lia. nia. }
        assert (Hle : RB ^ (rf_nd st + 1) <= 2 ^ 64) by (apply pow_mm_le; fold mm; lia).
        rewrite Hval. unfold u64. rewrite (Z.mod_small (rf_mant st * RB)) by nia.
        rewrite Z.mod_small by nia.
        assert (Hnz : 0 < rf_mant st * RB + digit_val c).
        { destruct (Z.eq_dec (rf_nd st) 0) as [E0|E0].
          - assert (Byte.eqb c c_zero = false).
            { destruct (Byte.eqb c c_zero); [|reflexivity]. cbn in Elz. rewrite E0 in Elz. discriminate. }
            assert (digit_val c <> 0) by (intros X; apply Hzero in X; congruence). nia.
          - assert (0 < rf_mant st) by (apply Hpos; lia). nia. }
        apply rf_inv_intro; fold RB mm; cbn [rf_mant rf_nd rf_ndMant rf_dp rf_sawdot rf_trunc];
          rewrite ?Heq; try lia.
        -- intros _. split; [reflexivity|assumption].
        -- exists 0. rewrite digits_val_snoc, Hv, Z.sub_diag, Z.pow_0_r.
           split; [ring|]. repeat split; try lia. intros X; congruence.
        -- fin_dp Hdp Hnd.
        -- fin_dp Hdp Hnd.
        -- fin_dp Hdp Hnd.
      * (* beyond the mantissa: sticky *)
        apply rf_inv_intro; fold RB mm; cbn [rf_mant rf_nd rf_ndMant rf_dp rf_sawdot rf_trunc]; try lia.
        -- exists (tail * RB + digit_val c). rewrite digits_val_snoc, Hv.
           replace (rf_nd st + 1 - rf_ndMant st) with (rf_nd st - rf_ndMant st + 1) by lia.
           rewrite Z.pow_add_r, Z.pow_1_r by lia.
           set (P := RB ^ (rf_nd st - rf_ndMant st)) in *.
           split; [ring|]. split; [nia|]. split.
           ++ intros Htr. apply orb_false_iff in Htr as [Htr Hz]. apply negb_false_iff in Hz.
              apply Hzero in Hz. specialize (Htf Htr). nia.
           ++ intros Htr. apply orb_true_iff in Htr as [Htr|Hz].
              ** specialize (Htt Htr). nia.
              ** apply negb_true_iff in Hz.
                 assert (digit_val c <> 0) by (intros X; apply Hzero in X; congruence). nia.
        -- fin_dp Hdp Hnd.
        -- fin_dp Hdp Hnd.
        -- fin_dp Hdp Hnd.
  - destruct (Hhex eq_refl) as [Hh [Hval Hten]]. subst hex.
    destruct (Z.ltb_spec (rf_ndMant st) mm) as [Hroom|Hfull].
    + destruct (Hlt Hroom) as [Heq Htr].
      rewrite Heq in *. rewrite Z.sub_diag in *. rewrite Z.pow_0_r in *.
      assert (tail = 0) by lia. subst tail.
      change 16 with RB.
      assert (Hb : rf_mant st * RB + digit_val c < RB ^ (rf_nd st + 1)).
      { rewrite Z.pow_add_r, Z.pow_1_r by lia. nia. }
      assert (Hle : RB ^ (rf_nd st + 1) <= 2 ^ 64) by (apply (pow_mm_le true); fold mm; lia).
      rewrite Hval. unfold u64. rewrite (Z.mod_small (rf_mant st * RB)) by nia.
      rewrite Z.mod_small by nia.
      apply rf_inv_intro; fold RB mm; cbn [rf_mant rf_nd rf_ndMant rf_dp rf_sawdot rf_trunc];
        rewrite ?Heq; try lia; try nia.
      * intros _. split; [reflexivity|assumption].
      * exists 0. rewrite digits_val_snoc, Hv, Z.sub_diag, Z.pow_0_r.
           split; [ring|]. repeat split; try lia. intros X; congruence.
      * fin_dp Hdp Hnd.
      * fin_dp Hdp Hnd.
      * fin_dp Hdp Hnd.
    + apply rf_inv_intro; fold RB mm; cbn [rf_mant rf_nd rf_ndMant rf_dp rf_sawdot rf_trunc]; try lia.
      * exists (tail * RB + digit_val c). rewrite digits_val_snoc, Hv.
        replace (rf_nd st + 1 - rf_ndMant st) with (rf_nd st - rf_ndMant st + 1) by lia.
        rewrite Z.pow_add_r, Z.pow_1_r by lia.
        set (P := RB ^ (rf_nd st - rf_ndMant st)) in *.
        split; [ring|]. split; [nia|]. split; [intros X; discriminate|intros _; nia].
      * fin_dp Hdp Hnd.
      * fin_dp Hdp Hnd.
      * fin_dp Hdp Hnd.
Qed.

(** ** runs of digits, the point *)
Lemma rf_run hex ds : forallb (sisd hex) ds = true -> forall rest st D F, rf_inv hex st D F ->
  exists st', rf_digits hex (maxMant hex) (ds ++ rest) st = rf_digits hex (maxMant hex) rest st' /\
              rf_inv hex st' (D ++ ds) (F + (if rf_sawdot st then Z.of_nat (length ds) else 0)) /\
              rf_sawdot st' = rf_sawdot st /\
              rf_sawdigits st' = (rf_sawdigits st || negb (Nat.eqb (length ds) 0)).
Proof.
  induction ds as [|c ds IH]; intros Hd rest st D F Hinv.
  - exists st. split; [reflexivity|]. split; [|split; [reflexivity|]].
    + rewrite app_nil_r. cbn [length].
      replace (F + (if rf_sawdot st then Z.of_nat 0 else 0)) with F by (destruct (rf_sawdot st); cbn; lia).
      exact Hinv.
    + cbn. now rewrite orb_false_r.
  - cbn [forallb] in Hd. apply andb_true_iff in Hd as [Hc Hds].
    pose proof (rf_step_inv hex st c D F Hc Hinv) as Hinv'.
    destruct (IH Hds rest (rf_step hex st c) _ _ Hinv') as [st' (E & I & S & G)].
    assert (Hsd : rf_sawdot (rf_step hex st c) = rf_sawdot st).
    { unfold rf_step. repeat match goal with |- context [if ?b then _ else _] => destruct b end; reflexivity. }
    assert (Hsg : rf_sawdigits (rf_step hex st c) = true).
    { unfold rf_step. repeat match goal with |- context [if ?b then _ else _] => destruct b end; reflexivity. }
    exists st'. cbn [app]. rewrite rf_digits_digit by assumption. split; [exact E|].
    split; [|split; [congruence|]].
    + rewrite <- app_assoc in I. cbn [app] in I. rewrite Hsd in I.
      replace (F + (if rf_sawdot st then Z.of_nat (length (c :: ds)) else 0))
        with (F + (if rf_sawdot st then 1 else 0) + (if rf_sawdot st then Z.of_nat (length ds) else 0)); [exact I|].
      cbn [length]. destruct (rf_sawdot st); lia.
    + rewrite G, Hsg. cbn [length Nat.eqb negb]. now rewrite orb_true_r.
Qed.

Lemma rf_dot hex r st D F : rf_sawdot st = false -> rf_inv hex st D F ->
  exists st', rf_digits hex (maxMant hex) (c_dot :: r) st = rf_digits hex (maxMant hex) r st' /\
              rf_inv hex st' D 0 /\ rf_sawdot st' = true /\ rf_sawdigits st' = rf_sawdigits st.
Proof.
  intros Hs (Hn & Hmm & Hlt & Hm & Hpos & Htail & Hdp & Hnd & HF).
  exists (mkRf (rf_mant st) (rf_nd st) (rf_ndMant st) (rf_nd st) true (rf_sawdigits st) (rf_trunc st)).
  split.
  - cbn [rf_digits]. change (Byte.eqb c_dot c_us) with false. change (Byte.eqb c_dot c_dot) with true.
    cbn iota. now rewrite Hs.
  - split; [|split; reflexivity].
    apply rf_inv_intro; cbn [rf_mant rf_nd rf_ndMant rf_dp rf_sawdot rf_trunc]; try assumption; try lia;
      try (intros; discriminate).
Qed.

Lemma break_spec (p : byte -> bool) u : forall a b, break p u = (a, b) ->
  (forall c, In c a -> p c = false) /\
  match b with None => u = a | Some r => exists m, p m = true /\ u = a ++ m :: r end.
Proof.
  induction u as [|c u IH]; intros a b H.
  - injection H as <- <-. split; [intros c []|reflexivity].
  - cbn [break] in H. destruct (p c) eqn:E.
    + injection H as <- <-. split; [intros x []|]. exists c. auto.
    + destruct (break p u) as [a' b'] eqn:B. injection H as <- <-.
      destruct (IH a' b' eq_refl) as [H1 H2]. split.
      * intros x [<-|Hin]; auto.
      * destruct b' as [r|]; [destruct H2 as [m [Hm ->]]; exists m; auto|now subst].
Qed.

Definition rf0 : rf := mkRf 0 0 0 0 false false false.

Lemma rf0_inv hex : rf_inv hex rf0 [] 0.
Proof.
  apply rf_inv_intro; unfold rf0; cbn [rf_mant rf_nd rf_ndMant rf_dp rf_sawdot rf_trunc];
    change (0 - 0) with 0; rewrite ?Z.pow_0_r; try lia; try (intros; discriminate);
    try (intros; split; reflexivity); try (destruct hex; cbn; lia).
  exists 0. unfold digits_val. cbn [fold_left]. split; [lia|]. split; [lia|]. split; [reflexivity|intros; discriminate].
Qed.

(** the whole mantissa [mp] = digits [ '.' digits ], followed by [rest] that starts with
    no mantissa character *)
Lemma rf_mantissa hex mp D F rest :
  mantissa_digits (sisd hex) mp = Some (D, F) ->
  match rest with c :: _ => Byte.eqb c c_us = false /\ Byte.eqb c c_dot = false /\ sisd hex c = false | [] => True end ->
  exists st, rf_digits hex (maxMant hex) (mp ++ rest) rf0 = Some (st, rest) /\
             rf_inv hex st D F /\ rf_sawdigits st = true.
Proof.
  intros Hm Hrest. unfold mantissa_digits in Hm.
  destruct (break (is_char c_dot) mp) as [ip fpo] eqn:B.
  destruct (break_spec _ _ _ _ B) as [_ Hmp].
  set (fp := match fpo with Some f => f | None => [] end) in *.
  destruct (forallb (sisd hex) ip && forallb (sisd hex) fp && negb (Nat.eqb (length ip + length fp) 0)) eqn:C;
    [|discriminate].
  injection Hm as <- <-.
  apply andb_true_iff in C as [C Hne]. apply andb_true_iff in C as [Hip Hfp].
  assert (Hstop : forall st, rf_digits hex (maxMant hex) rest st = Some (st, rest)).
  { intros st. destruct rest as [|c r]; [reflexivity|]. destruct Hrest as [Hu [Hd Hi]].
    cbn [rf_digits]. rewrite Hu, Hd. rewrite <- cisd_sisd in Hi. unfold cisd in Hi.
    apply orb_false_iff in Hi as [H1 H2]. rewrite H1. now rewrite H2. }
  destruct (rf_run hex ip Hip (match fpo with Some f => c_dot :: f ++ rest | None => rest end) rf0 [] 0 (rf0_inv hex))
    as [st1 (E1 & I1 & S1 & G1)].
  cbn [app] in I1. change (rf_sawdot rf0) with false in *. cbn iota in I1. change (rf_sawdigits rf0) with false in G1.
  cbn [orb] in G1.
  destruct fpo as [f|].
  - destruct Hmp as [m [Hm ->]]. unfold is_char in Hm. apply beqb_eq in Hm. subst m.
    subst fp.
    destruct (rf_dot hex (f ++ rest) st1 ip 0 S1 I1) as [st2 (E2 & I2 & S2 & G2)].
    destruct (rf_run hex f Hfp rest st2 ip 0 I2) as [st3 (E3 & I3 & S3 & G3)].
    exists st3. split.
    + rewrite <- app_assoc. cbn [app]. rewrite E1, E2, E3. apply Hstop.
    + split.
      * rewrite S2 in I3. now rewrite Z.add_0_l in I3.
      * rewrite G3, G2, G1. rewrite <- negb_andb. apply negb_true_iff. apply negb_true_iff in Hne.
        destruct (length ip), (length f); cbn in *; try reflexivity; discriminate.
  - subst mp. subst fp. cbn [length] in Hne. rewrite Nat.add_0_r in Hne.
    exists st1. split; [rewrite E1; apply Hstop|]. split.
    + now rewrite app_nil_r, Z.add_0_r in *.
    + now rewrite G1.
Qed.

(** ** dropping underscores does not change what readFloat computes *)
Lemma rf_digits_drop hex mm t : forall st,
  rf_digits hex mm (drop_underscores t) st =
  option_map (fun '(st', rest) => (st', drop_underscores rest)) (rf_digits hex mm t st).
Proof.
  induction t as [|c r IH]; intros st; [reflexivity|].
  destruct (beqb_spec c c_us) as [->|Hn].
  - rewrite drop_us_us. cbn [rf_digits]. change (Byte.eqb c_us c_us) with true. cbn iota. apply IH.
  - apply beqb_neq in Hn. rewrite drop_us_cons by assumption. cbn [rf_digits]. rewrite Hn.
    destruct (Byte.eqb c c_dot). { destruct (rf_sawdot st); [reflexivity|apply IH]. }
    destruct (code_is_dec_digit c).
    { destruct (Byte.eqb c c_zero && (rf_nd st =? 0)); [apply IH|].
      destruct (rf_ndMant st <? mm); apply IH. }
    destruct (hex && code_is_hex_letter c).
    { destruct (rf_ndMant st <? mm); apply IH. }
    cbn [option_map]. now rewrite drop_us_cons.
Qed.

Lemma exp_body_drop_val (t : bytes) (k : Z) : head_not_us t ->
  (match drop_underscores t with
   | d :: _ => if code_is_dec_digit d then let '(e, rest) := exp_digits (drop_underscores t) 0 in Some (e * k, rest) else None
   | [] => None end)
  = option_map (fun '(e, rest) => (e, drop_underscores rest))
      (match t with
       | d :: _ => if code_is_dec_digit d then let '(e, rest) := exp_digits t 0 in Some (e * k, rest) else None
       | [] => None end).
Proof.
  intros Hh. destruct t as [|d r]; [reflexivity|]. cbn in Hh.
  rewrite drop_us_cons by assumption. destruct (code_is_dec_digit d); [|reflexivity].
  rewrite <- (drop_us_cons d r Hh). rewrite exp_digits_drop.
  destruct (exp_digits (d :: r) 0) as [e rest]. reflexivity.
Qed.

Lemma exp_part_drop isd r : isd c_plus = false -> isd c_minus = false ->
  underscores_ok isd false r = true ->
  exp_part (drop_underscores r) = option_map (fun '(e, rest) => (e, drop_underscores rest)) (exp_part r).
Proof.
  intros Hp Hm H. unfold exp_part.
  destruct r as [|c r1]; [reflexivity|].
  assert (Hc : Byte.eqb c c_us = false).
  { destruct (Byte.eqb c c_us) eqn:E; [|reflexivity]. cbn [underscores_ok] in H. rewrite E in H. discriminate. }
  rewrite drop_us_cons by assumption.
  assert (Hr1 : (Byte.eqb c c_plus = true \/ Byte.eqb c c_minus = true) -> head_not_us r1).
  { intros Hs. cbn [underscores_ok] in H. rewrite Hc in H.
    assert (isd c = false) by (destruct Hs as [E|E]; apply beqb_eq in E; subst; assumption).
    rewrite H0 in H. destruct r1 as [|d r2]; [exact I|]. cbn. cbn [underscores_ok] in H.
    destruct (Byte.eqb d c_us); [discriminate|reflexivity]. }
  destruct (Byte.eqb c c_plus) eqn:Ep.
  { apply (exp_body_drop_val r1 1). apply Hr1. now left. }
  destruct (Byte.eqb c c_minus) eqn:Em.
  { apply (exp_body_drop_val r1 (-1)). apply Hr1. now right. }
  pose proof (exp_body_drop_val (c :: r1) 1 Hc) as X. rewrite drop_us_cons in X by assumption. exact X.
Qed.

Lemma exp_part_rest r e rest : exp_part r = Some (e, rest) -> drop_underscores rest = [] -> rest = [].
Proof.
  assert (G : forall (t : bytes) (k : Z),
    match t with
    | d :: _ => if code_is_dec_digit d then let '(e, rest) := exp_digits t 0 in Some (e * k, rest) else None
    | [] => None end = Some (e, rest) -> drop_underscores rest = [] -> rest = []).
  { intros t k. destruct t as [|d t']; [discriminate|]. destruct (code_is_dec_digit d); [|discriminate].
    destruct (exp_digits (d :: t') 0) as [e' rest'] eqn:E. intros [= <- <-]. now apply (exp_digits_rest _ _ _ _ E). }
  unfold exp_part. destruct r as [|c r1]; [discriminate|].
  destruct (Byte.eqb c c_plus); [apply G|]. destruct (Byte.eqb c c_minus); [apply G|].
  apply (G (c :: r1) 1).
Qed.

Lemma read_float_core_drop hex prev t neg : underscores_ok (sisd hex) prev t = true ->
  read_float_core hex (drop_underscores t) neg = read_float_core hex t neg.
Proof.
  intros H. unfold read_float_core. rewrite rf_digits_drop.
  pose proof (rf_digits_mscan hex (if hex then 16 else 19) t (mkRf 0 0 0 0 false false false)) as M.
  destruct (rf_digits hex (if hex then 16 else 19) t (mkRf 0 0 0 0 false false false)) as [[st rest]|]; [|reflexivity].
  cbn [option_map] in *. symmetry in M.
  destruct (mscan_rest _ _ _ _ _ _ _ M) as [[pre ->] Hh].
  destruct (negb (rf_sawdigits st)); [reflexivity|].
  destruct rest as [|c r]; [reflexivity|]. destruct Hh as [Hu [Hd Hi]].
  rewrite drop_us_cons by assumption.
  pose proof (uo_split _ _ _ _ _ H Hu) as H2. rewrite Hi in H2.
  destruct (sisd_signs hex) as [Sp Sm].
  rewrite (exp_part_drop (sisd hex) r Sp Sm H2).
  destruct hex; cbv zeta beta iota.
  - destruct (lower c =? 112); [|reflexivity].
    destruct (exp_part r) as [[e rest']|] eqn:Ex; [|reflexivity]. cbn [option_map].
    destruct rest' as [|x rest'']; [reflexivity|].
    destruct (drop_underscores (x :: rest'')) eqn:Ed; [|reflexivity].
    pose proof (exp_part_rest _ _ _ Ex Ed). discriminate.
  - destruct (lower c =? 101).
    + destruct (exp_part r) as [[e rest']|] eqn:Ex; [|reflexivity]. cbn [option_map].
      destruct rest' as [|x rest'']; [reflexivity|].
      destruct (drop_underscores (x :: rest'')) eqn:Ed; [|reflexivity].
      pose proof (exp_part_rest _ _ _ Ex Ed). discriminate.
    + reflexivity.
Qed.

(** ** the exponent, when it is not so long that the accumulation stops *)
Lemma exp_digits_val x : forallb is_dec_digit x = true -> forall e0, 0 <= e0 ->
  fold_left dstep x e0 < 100000 -> exp_digits x e0 = (fold_left dstep x e0, []).
Proof.
  induction x as [|c r IH]; intros Hd e0 He Hlt; [reflexivity|].
  cbn [forallb] in Hd. apply andb_true_iff in Hd as [Hc Hr].
  cbn [exp_digits fold_left]. rewrite code_is_dec_digit_eq, Hc.
  destruct (digit_val_dec c Hc) as [Hv Hb].
  cbn [fold_left] in Hlt.
  assert (dstep e0 c <= fold_left dstep r (dstep e0 c)) by (apply fold_dstep_ge; [assumption|unfold dstep; lia]).
  destruct (Z.ltb_spec e0 10000); [|unfold dstep in *; lia].
  rewrite <- Hv. fold (dstep e0 c). apply IH; [assumption|unfold dstep; lia|assumption].
Qed.

Lemma exp_part_val et e : signed_digits et = Some e -> Z.abs e < 100000 -> exp_part et = Some (e, []).
Proof.
  unfold signed_digits, exp_part, split_sign. destruct et as [|c r]; [discriminate|].
  assert (Hgen : forall (x : bytes) (k : Z), x <> [] -> forallb is_dec_digit x = true -> digits_val 10 x < 100000 ->
     match x with
     | d :: _ => if code_is_dec_digit d then let '(e, rest) := exp_digits x 0 in Some (e * k, rest) else None
     | [] => None end = Some (digits_val 10 x * k, [])).
  { intros x k Hne Hd Hlt. destruct x as [|d x']; [congruence|].
    pose proof Hd as Hd'. cbn [forallb] in Hd'. apply andb_true_iff in Hd' as [Hdd _].
    rewrite code_is_dec_digit_eq, Hdd. rewrite (exp_digits_val (d :: x') Hd 0 ltac:(lia)) by exact Hlt. reflexivity. }
  destruct (Byte.eqb c c_plus).
  { cbn [sign_neg]. destruct r as [|d r']; [discriminate|].
    destruct (forallb is_dec_digit (d :: r')) eqn:Hd; [|discriminate]. intros [= <-] Hlt.
    pose proof (digits_val_nonneg _ Hd).
    etransitivity; [apply (Hgen (d :: r') 1); [discriminate|assumption|lia]|]. now rewrite Z.mul_1_r. }
  destruct (Byte.eqb c c_minus).
  { cbn [sign_neg]. destruct r as [|d r']; [discriminate|].
    destruct (forallb is_dec_digit (d :: r')) eqn:Hd; [|discriminate]. intros [= <-] Hlt.
    pose proof (digits_val_nonneg _ Hd).
    etransitivity; [apply (Hgen (d :: r') (-1)); [discriminate|assumption|lia]|]. f_equal. f_equal. lia. }
  cbn [sign_neg]. destruct (forallb is_dec_digit (c :: r)) eqn:Hd; [|discriminate]. intros [= <-] Hlt.
  pose proof (digits_val_nonneg _ Hd).
  etransitivity; [apply (Hgen (c :: r) 1); [discriminate|assumption|lia]|]. now rewrite Z.mul_1_r.
Qed.

(** ** what readFloat returns *)
Definition expk (hex : bool) : Z := if hex then 4 else 1.

(** (mant, exp, trunc) is M * B^E cut after the leading digits *)
Definition cut_of (hex : bool) (M E : Z) (mant exp : Z) (trunc : bool) : Prop :=
  0 <= mant < radixB hex ^ maxMant hex /\
  exists j tail, 0 <= j /\ M = mant * radixB hex ^ j + tail /\ 0 <= tail < radixB hex ^ j /\
    (trunc = false -> tail = 0) /\ (trunc = true -> 0 < tail) /\
    (mant <> 0 -> exp = E + expk hex * j) /\ (mant = 0 -> exp = 0 /\ M = 0).

Lemma rf_core_us_free hex u mp ep D F e neg :
  break (is_char_ci (expcode hex)) u = (mp, ep) ->
  mantissa_digits (sisd hex) mp = Some (D, F) ->
  match ep with None => hex = false /\ e = 0 | Some et => signed_digits et = Some e /\ Z.abs e < 100000 end ->
  exists r, read_float_core hex u neg = Some r /\ r_neg r = neg /\ r_hex r = hex /\
            cut_of hex (digits_val (radixB hex) D) (e - expk hex * F) (r_mant r) (r_exp r) (r_trunc r).
Proof.
  intros B Hm He.
  destruct (break_spec _ _ _ _ B) as [_ Hu].
  set (rest := match ep with None => [] | Some et => match u with _ => skipn (length mp) u end end).
  assert (Hrest : u = mp ++ rest /\
                  match ep with None => rest = [] | Some et => exists m, is_char_ci (expcode hex) m = true /\ rest = m :: et end).
  { unfold rest. destruct ep as [et|].
    - destruct Hu as [m [Hmk ->]]. rewrite skipn_app, skipn_all, Nat.sub_diag. cbn. split; [reflexivity|eauto].
    - subst u. split; [now rewrite app_nil_r|reflexivity]. }
  clearbody rest. destruct Hrest as [-> Hrest].
  assert (Hhead : match rest with c :: _ => Byte.eqb c c_us = false /\ Byte.eqb c c_dot = false /\ sisd hex c = false | [] => True end).
  { destruct ep as [et|]; [|now subst rest]. destruct Hrest as [m [Hmk ->]]. now apply marker_facts. }
  destruct (rf_mantissa hex mp D F rest Hm Hhead) as [st (E & Inv & Sg)].
  destruct Inv as (Hn & Hmm & Hlt & Hmant & Hpos & (tail & Hv & Ht & Htf & Htt) & Hdp & Hnd & HF).
  assert (HB : 2 <= radixB hex) by (destruct hex; cbn; lia).
  assert (Hdpf : (if rf_sawdot st then rf_dp st else rf_nd st) - rf_nd st = - F).
  { destruct (rf_sawdot st); [now apply Hdp|]. rewrite (Hnd eq_refl). lia. }
  assert (Hcut : forall exp, (rf_mant st <> 0 -> exp = e - expk hex * F + expk hex * (rf_nd st - rf_ndMant st)) ->
                             (rf_mant st = 0 -> exp = 0) ->
                 cut_of hex (digits_val (radixB hex) D) (e - expk hex * F) (rf_mant st) exp (rf_trunc st)).
  { intros exp H1 H2. split.
    - split; [lia|]. apply Z.lt_le_trans with (radixB hex ^ rf_ndMant st); [lia|].
      apply Z.pow_le_mono_r; lia.
    - exists (rf_nd st - rf_ndMant st), tail.
      split; [lia|]. split; [assumption|]. split; [assumption|]. split; [assumption|]. split; [assumption|].
      split; [exact H1|]. intros Hz. split; [now apply H2|].
      assert (rf_nd st = 0) by (destruct (Z.eq_dec (rf_nd st) 0); [assumption|exfalso; assert (0 < rf_mant st) by (apply Hpos; lia); lia]).
      assert (rf_ndMant st = 0) by lia. rewrite H, H0 in *. change (0 - 0) with 0 in *. rewrite Z.pow_0_r in *. lia. }
  unfold read_float_core. fold (maxMant hex). fold rf0. rewrite E, Sg. cbn [negb].
  destruct ep as [et|].
  - destruct Hrest as [m [Hmk ->]]. destruct He as [Hsd Habs].
    rewrite (exp_part_val et e Hsd Habs).
    destruct hex; cbv zeta beta iota.
    + rewrite lower_p. cbn [expcode] in Hmk. rewrite Hmk.
      eexists. split; [reflexivity|]. cbn [r_neg r_hex r_mant r_exp r_trunc]. split; [reflexivity|]. split; [reflexivity|].
      apply Hcut; destruct (Z.eqb_spec (rf_mant st) 0); intros; try congruence; try lia.
      cbn [expk]. lia.
    + rewrite lower_e. cbn [expcode] in Hmk. rewrite Hmk.
      eexists. split; [reflexivity|]. cbn [r_neg r_hex r_mant r_exp r_trunc]. split; [reflexivity|]. split; [reflexivity|].
      apply Hcut; destruct (Z.eqb_spec (rf_mant st) 0); intros; try congruence; try lia.
      cbn [expk]. lia.
  - destruct He as [-> ->]. subst rest. cbv zeta beta iota.
    eexists. split; [reflexivity|]. cbn [r_neg r_hex r_mant r_exp r_trunc]. split; [reflexivity|]. split; [reflexivity|].
    apply Hcut; destruct (Z.eqb_spec (rf_mant st) 0); intros; try congruence; try lia.
    cbn [expk]. lia.
Qed.

(** ** the theorem for readFloat *)

(** the exponent as written in the text (0 when there is none) *)
Definition written_exponent (s : bytes) : Z :=
  let r := snd (split_sign s) in
  let '(hex, body) := match hex_prefix r with Some b => (true, b) | None => (false, r) end in
  match snd (break (is_char_ci (expcode hex)) (drop_underscores body)) with
  | Some et => match signed_digits et with Some e => e | None => 0 end
  | None => 0
  end.

(** the accumulation of exponent digits is exact below 100000 *)
Definition no_clamp (s : bytes) : Prop := Z.abs (written_exponent s) < 100000.

Lemma lex_special_not_num s x : lex_special s = Some x -> match x with LNum _ _ _ _ => False | _ => True end.
Proof.
  unfold lex_special. destruct (split_sign s) as [sg r].
  destruct (ieq r (bs "inf") || ieq r (bs "infinity")); [now intros [= <-]|].
  destruct sg; [discriminate|]. destruct (ieq s (bs "nan")); [now intros [= <-]|discriminate].
Qed.

Lemma code_prefix_no_hex r : hex_prefix r = None -> code_prefix r = (false, r).
Proof.
  unfold hex_prefix, code_prefix. destruct r as [|z [|x b]]; try reflexivity.
  rewrite <- lower_x. destruct (Byte.eqb z c_zero && (lower x =? 120)); [discriminate|].
  intros _. destruct b; reflexivity.
Qed.

Lemma code_prefix_hex r b : hex_prefix r = Some b -> b <> [] -> code_prefix r = (true, b).
Proof.
  unfold hex_prefix, code_prefix. destruct r as [|z [|x b']]; try discriminate.
  rewrite <- lower_x. destruct (Byte.eqb z c_zero && (lower x =? 120)); [|discriminate].
  intros [= ->] Hne. destruct b; [congruence|reflexivity].
Qed.

Lemma sign_agrees c0 r0 : Byte.eqb c0 c_minus = sign_neg (fst (split_sign (c0 :: r0))).
Proof.
  cbn [split_sign]. destruct (beqb_spec c0 c_plus) as [->|]; [reflexivity|].
  destruct (Byte.eqb c0 c_minus); reflexivity.
Qed.

Theorem read_float_value s neg base2 M E :
  lex_float s = Some (LNum neg base2 M E) -> no_clamp s ->
  exists r, read_float s = Some r /\ r_neg r = neg /\ r_hex r = base2 /\
            cut_of base2 M E (r_mant r) (r_exp r) (r_trunc r).
Proof.
  unfold lex_float, no_clamp, written_exponent. intros H Hnc.
  destruct (lex_special s) as [x|] eqn:Esp.
  { injection H as ->. now apply lex_special_not_num in Esp. }
  unfold lex_number in H.
  destruct s as [|c0 r0]; [discriminate H|].
  rewrite read_float_eq, after_sign_eq.
  rewrite (sign_agrees c0 r0).
  destruct (split_sign (c0 :: r0)) as [sg r]. cbn [fst snd] in *.
  destruct (hex_prefix r) as [body|] eqn:Ehp.
  - (* hexadecimal *)
    unfold lex_hex in H.
    destruct (underscores_ok is_hex_digit true body) eqn:Huo; [|discriminate].
    destruct (break (is_char_ci 112) (drop_underscores body)) as [mp ep] eqn:B.
    destruct (mantissa_digits is_hex_digit mp) as [[D F]|] eqn:Hm; [|discriminate].
    destruct ep as [et|]; [|discriminate].
    destruct (signed_digits et) as [e|] eqn:Hsd; [|discriminate].
    injection H as <- <- <- <-.
    cbn [expcode] in Hnc. rewrite B in Hnc. cbn [snd] in Hnc. rewrite Hsd in Hnc.
    assert (Hne : body <> []) by (intros ->; cbn in B; discriminate).
    rewrite (code_prefix_hex r body Ehp Hne).
    rewrite <- (read_float_core_drop true true body _ Huo).
    destruct (rf_core_us_free true (drop_underscores body) mp (Some et) D F e (sign_neg sg) B Hm (conj Hsd Hnc))
      as [rr (E1 & E2 & E3 & E4)].
    exists rr. cbn [radixB expk] in E4. auto.
  - (* decimal *)
    unfold lex_decimal in H.
    destruct (underscores_ok is_dec_digit false r) eqn:Huo; [|discriminate].
    destruct (break (is_char_ci 101) (drop_underscores r)) as [mp ep] eqn:B.
    destruct (mantissa_digits is_dec_digit mp) as [[D F]|] eqn:Hm; [|discriminate].
    rewrite (code_prefix_no_hex r Ehp).
    rewrite <- (read_float_core_drop false false r _ Huo).
    cbn [expcode] in Hnc. rewrite B in Hnc. cbn [snd] in Hnc.
    destruct ep as [et|].
    + destruct (signed_digits et) as [e|] eqn:Hsd; [|discriminate].
      injection H as <- <- <- <-.
      destruct (rf_core_us_free false (drop_underscores r) mp (Some et) D F e (sign_neg sg) B Hm (conj Hsd Hnc))
        as [rr (E1 & E2 & E3 & E4)].
      exists rr. cbn [radixB expk] in E4. rewrite Z.mul_1_l in E4. auto.
    + injection H as <- <- <- <-.
      destruct (rf_core_us_free false (drop_underscores r) mp None D F 0 (sign_neg sg) B Hm (conj eq_refl eq_refl))
        as [rr (E1 & E2 & E3 & E4)].
      exists rr. cbn [radixB expk] in E4. rewrite Z.mul_1_l in E4. auto.
Qed.
