(** Proofs about Model/UTest.v: the error returns; witnesses against the
    pre-repair code and against the recorded finding; bounded sweeps that are
    labelled as such. *)
From Coq Require Import ZArith List Bool Lia Permutation.
From Perf Require Import Base.B64 Model.UStat Model.UDistSpec Model.UDistImpl Model.UTest.
From Perf Require Import Proofs.UStat Proofs.UDistSpec Proofs.UDistImpl.
Import ListNotations.
Local Open Scope Z_scope.

Section Errors.
Variable erfc : b64 -> option b64.

(** the function on two non-empty samples, with the statistic abstracted *)
Definition mwu_body (s : ustat) (a : alt) : uresult :=
  match us_T s with
  | [_] => RErrSamplesEqual
  | _ =>
      if use_exact s then RExact (us_twoU1 s) (exact_p s a)
      else if b64_eq (sigma_U s) b64_zero then RErrSamplesEqual
      else match approx_p erfc s a with
           | Some p => RApprox (us_twoU1 s) p
           | None => ROracleMiss
           end
  end.

Lemma mwu_cons v1 x1 v2 x2 a :
  mwu erfc (v1 :: x1) (v2 :: x2) a = mwu_body (ustat_of (v1 :: x1) (v2 :: x2)) a.
Proof. reflexivity. Qed.

(** the part of the body behind the single-run test *)
Definition mwu_rest (s : ustat) (a : alt) : uresult :=
  if use_exact s then RExact (us_twoU1 s) (exact_p s a)
  else if b64_eq (sigma_U s) b64_zero then RErrSamplesEqual
  else match approx_p erfc s a with
       | Some p => RApprox (us_twoU1 s) p
       | None => ROracleMiss
       end.

Lemma mwu_body_cases s a :
  (exists c, us_T s = [c]) /\ mwu_body s a = RErrSamplesEqual
  \/ (forall c, us_T s <> [c]) /\ mwu_body s a = mwu_rest s a.
Proof.
  unfold mwu_body, mwu_rest. destruct (us_T s) as [|c [|d T]].
  - right. split; [intros c; discriminate | reflexivity].
  - left. split; [now exists c | reflexivity].
  - right. split; [intros c'; discriminate | reflexivity].
Qed.

(** an empty sample, and nothing else, is ErrSampleSize *)
Theorem err_sample_size_iff x1 x2 a :
  mwu erfc x1 x2 a = RErrSampleSize <-> (x1 = [] \/ x2 = []).
Proof.
  split.
  - destruct x1 as [|v1 x1]; [now left|]. destruct x2 as [|v2 x2]; [now right|].
    rewrite mwu_cons. generalize (ustat_of (v1 :: x1) (v2 :: x2)) as s. intros s.
    destruct (mwu_body_cases s a) as [[_ ->]|[_ ->]]; [discriminate|]. unfold mwu_rest.
    destruct (use_exact s); [discriminate|].
    destruct (b64_eq (sigma_U s) b64_zero); [discriminate|]. destruct (approx_p erfc s a); discriminate.
  - intros [-> | ->]; [reflexivity | destruct x1; reflexivity].
Qed.

(** all pooled values equal => ErrSamplesEqual, for ALL sizes and both regimes (the
    single-run test precedes the regime switch) *)
Theorem err_samples_equal_if_equal x1 x2 a :
  x1 <> [] -> x2 <> [] -> (exists v, Forall (fun x => x = v) (x1 ++ x2)) ->
  mwu erfc x1 x2 a = RErrSamplesEqual.
Proof.
  intros H1 H2 Hall.
  destruct x1 as [|v1 x1]; [congruence|]. destruct x2 as [|v2 x2]; [congruence|].
  rewrite mwu_cons.
  pose proof (pool_T_single (v1 :: x1) (v2 :: x2)) as HS. rewrite <- us_T_pool in HS.
  assert (Hne : (v1 :: x1) ++ v2 :: x2 <> []) by (cbn [app]; discriminate).
  destruct (proj2 HS (conj Hne Hall)) as [c Hc]. unfold mwu_body. now rewrite Hc.
Qed.

(** in the exact regime: all pooled values equal, and nothing else, is ErrSamplesEqual *)
Theorem err_samples_equal_iff_exact x1 x2 a :
  x1 <> [] -> x2 <> [] -> use_exact (ustat_of x1 x2) = true ->
  (mwu erfc x1 x2 a = RErrSamplesEqual <-> exists v, Forall (fun x => x = v) (x1 ++ x2)).
Proof.
  intros H1 H2 He. split; [|now apply err_samples_equal_if_equal].
  destruct x1 as [|v1 x1]; [congruence|]. destruct x2 as [|v2 x2]; [congruence|].
  rewrite mwu_cons.
  pose proof (pool_T_single (v1 :: x1) (v2 :: x2)) as HS. rewrite <- us_T_pool in HS.
  revert He HS. generalize (ustat_of (v1 :: x1) (v2 :: x2)) as s. intros s He HS.
  destruct (mwu_body_cases s a) as [[Hc _]|[_ ->]].
  - intros _. now apply HS.
  - unfold mwu_rest. rewrite He. discriminate.
Qed.

(** in the approximate regime: a single run, or sigma == 0 in binary64 (the test the
    code still performs behind the single-run test) *)
Theorem err_samples_equal_approx x1 x2 a :
  x1 <> [] -> x2 <> [] -> use_exact (ustat_of x1 x2) = false ->
  (mwu erfc x1 x2 a = RErrSamplesEqual <->
   (exists c, us_T (ustat_of x1 x2) = [c]) \/ b64_eq (sigma_U (ustat_of x1 x2)) b64_zero = true).
Proof.
  intros H1 H2 He.
  destruct x1 as [|v1 x1]; [congruence|]. destruct x2 as [|v2 x2]; [congruence|].
  rewrite mwu_cons. revert He. generalize (ustat_of (v1 :: x1) (v2 :: x2)) as s. intros s He.
  destruct (mwu_body_cases s a) as [[Hc ->]|[Hn ->]].
  - split; [now left | reflexivity].
  - unfold mwu_rest. rewrite He. destruct (b64_eq (sigma_U s) b64_zero).
    + split; [now right | reflexivity].
    + split.
      * destruct (approx_p erfc s a); discriminate.
      * intros [[c Hc]|Hz]; [now apply Hn in Hc | discriminate].
Qed.

(** the model on two constant samples of the same value *)
Theorem mwu_const_correct (v n1 n2 : Z) a :
  mwu erfc (repeat v (Z.to_nat n1)) (repeat v (Z.to_nat n2)) a = mwu_const n1 n2.
Proof.
  unfold mwu_const. destruct (Z.leb_spec n1 0) as [H1|H1].
  - replace (Z.to_nat n1) with O by lia. reflexivity.
  - destruct (Z.leb_spec n2 0) as [H2|H2]; cbn [orb].
    + replace (Z.to_nat n2) with O by lia. cbn [repeat]. destruct (repeat v (Z.to_nat n1)); reflexivity.
    + apply err_samples_equal_if_equal.
      * destruct (Z.to_nat n1) eqn:E; [lia | discriminate].
      * destruct (Z.to_nat n2) eqn:E; [lia | discriminate].
      * exists v. apply Forall_app. split; apply Forall_forall; intros x Hx; now apply repeat_spec in Hx.
Qed.

(** ** the code before hooks/fix_c11_utest_samples_equal_large.diff *)
Definition mwu_old_body (s : ustat) (a : alt) : uresult :=
  if use_exact s then
    match us_T s with
    | [_] => RErrSamplesEqual
    | _ => RExact (us_twoU1 s) (exact_p s a)
    end
  else if b64_eq (sigma_U s) b64_zero then RErrSamplesEqual
  else match approx_p erfc s a with
       | Some p => RApprox (us_twoU1 s) p
       | None => ROracleMiss
       end.

Lemma mwu_old_cons v1 x1 v2 x2 a :
  mwu_old erfc (v1 :: x1) (v2 :: x2) a = mwu_old_body (ustat_of (v1 :: x1) (v2 :: x2)) a.
Proof. reflexivity. Qed.

(** old code, approximate regime: ErrSamplesEqual iff sigma == 0 in binary64, nothing else *)
Theorem err_samples_equal_approx_old x1 x2 a :
  x1 <> [] -> x2 <> [] -> use_exact (ustat_of x1 x2) = false ->
  (mwu_old erfc x1 x2 a = RErrSamplesEqual <-> b64_eq (sigma_U (ustat_of x1 x2)) b64_zero = true).
Proof.
  intros H1 H2 He.
  destruct x1 as [|v1 x1]; [congruence|]. destruct x2 as [|v2 x2]; [congruence|].
  rewrite mwu_old_cons. revert He. generalize (ustat_of (v1 :: x1) (v2 :: x2)) as s. intros s He.
  unfold mwu_old_body. rewrite He. destruct (b64_eq (sigma_U s) b64_zero); [tauto|].
  destruct (approx_p erfc s a); split; discriminate.
Qed.

(** the repair changes nothing but the error decision for a single run *)
Theorem mwu_old_agrees x1 x2 a :
  (forall c, us_T (ustat_of x1 x2) <> [c]) -> mwu erfc x1 x2 a = mwu_old erfc x1 x2 a.
Proof.
  destruct x1 as [|v1 x1]; [reflexivity|]. destruct x2 as [|v2 x2]; [reflexivity|].
  rewrite mwu_cons, mwu_old_cons. generalize (ustat_of (v1 :: x1) (v2 :: x2)) as s. intros s Hn.
  unfold mwu_body, mwu_old_body. destruct (us_T s) as [|c [|d T]]; try reflexivity.
  now specialize (Hn c).
Qed.
End Errors.

(** bounded check (NOT the unbounded claim): a single run of N equal values gives
    sigma == 0 exactly, and two runs give sigma > 0, for every N up to 400 *)
Definition sigma_of (n1 n2 : Z) (T : list Z) : b64 := sigma_U (mkUstat n1 n2 T [] true 0).
Example sigma_zero_single_bounded :
  forallb (fun N => b64_eq (sigma_of (N / 2) (N - N / 2) [N]) b64_zero
                    && negb (b64_eq (sigma_of (N / 2) (N - N / 2) [N - 1; 1]) b64_zero)
                    && negb (b64_eq (sigma_of 1 (N - 1) [1; N - 1]) b64_zero))
          (zrange 2 400) = true.
Proof. vm_compute. reflexivity. Qed.

(** ** witnesses against the code before the repairs *)
Theorem k2_base_old_refuted : exists t n1 u, umemo_old t n1 u <> count_le t n1 u.
Proof. exists [2; 1], 1, 0. vm_compute. discriminate. Qed.

Theorem twosided_gt1_old_refuted :
  exists x1 x2, fst (exact_p_old_frac (ustat_of x1 x2) Differs) > snd (exact_p_old_frac (ustat_of x1 x2) Differs).
Proof. exists [1], [0; 0]. vm_compute. reflexivity. Qed.

Theorem greater_ties_old_refuted :
  exists x1 x2,
    let s := ustat_of x1 x2 in
    exact_p_old_frac s Greater <> (count_ge (us_T s) (us_n1 s) (us_twoU1 s), total (us_T s) (us_n1 s)).
Proof. exists [1; 2], [1; 3; 0]. vm_compute. discriminate. Qed.

(** the repaired code on the same witnesses *)
Example witnesses_repaired :
  umemo [2; 1] 1 0 = count_le [2; 1] 1 0 /\
  pexact_frac (exact_p (ustat_of [1] [0; 0]) Differs) = Some (0, 3) /\
  pexact_frac (exact_p (ustat_of [1] [1; 1; 2]) Differs) = Some (4, 4) /\     (* was 6/4 *)
  (let s := ustat_of [1; 2] [1; 3; 0] in
   pexact_frac (exact_p s Greater) = Some (count_ge (us_T s) (us_n1 s) (us_twoU1 s), total (us_T s) (us_n1 s))).
Proof. vm_compute. repeat split. Qed.

(** ** the recorded finding C11_twosided_asymmetric_ties: the (repaired) code's
    two-sided value is not twice the smaller tail when the tie vector is skewed *)
Theorem twosided_asymmetric_refuted :
  exists x1 x2,
    let s := ustat_of x1 x2 in
    pexact_frac (exact_p s Differs)
    <> Some (p_two_num (us_T s) (us_n1 s) (us_twoU1 s), total (us_T s) (us_n1 s)).
Proof. exists [1; 2; 3; 5], [1; 1; 1; 1; 1]. vm_compute. discriminate. Qed.

(** ... and is not invariant under swapping the samples *)
Theorem twosided_swap_refuted :
  exists x1 x2,
    pexact_frac (exact_p (ustat_of x1 x2) Differs) <> pexact_frac (exact_p (ustat_of x2 x1) Differs).
Proof. exists [1; 2; 3; 5], [1; 1; 1; 1; 1]. vm_compute. discriminate. Qed.

(** ** bounded sweeps (labelled) -- ALL FOUR ARE SUPERSEDED by unbounded theorems and are
    kept only as regression checks of the definitions by evaluation:
      pruning_agrees_bounded        <- Proofs/UDistPrune.v  tied_recurrence_correct
                                       (umemo t n u = count_le t n u, every t with K >= 2 positive runs)
      fast_evaluator_agrees_bounded <- Proofs/UDistSpecFull.v  fast_count_le_correct, fast_count_ge_correct
      subsets_agree_bounded         <- Proofs/UDistSpecFull.v  subsets_agree (every predicate P)
      total_is_count_all_bounded    <- Proofs/UDistSum.v  count_all_total (Vandermonde);
                                       Proofs/UDistSpecFull.v  total_is_count_all, total_is_binom *)
Fixpoint comps (fuel : nat) (N : Z) : list (list Z) :=
  match fuel with
  | O => []
  | S f => if N =? 0 then [[]] else flat_map (fun x => map (cons x) (comps f (N - x))) (zrange 1 N)
  end.

Definition sweep (N : Z) (chk : list Z -> Z -> Z -> bool) : bool :=
  forallb (fun t =>
             forallb (fun n1 => forallb (chk t n1) (zrange (-1) (2 * (n1 * (N - n1)) + 1))) (zrange 0 N))
          (comps (S (Z.to_nat N)) N).

(** superseded by tied_recurrence_correct (Proofs/UDistPrune.v) *)
Example pruning_agrees_bounded :
  forallb (fun N => sweep N (fun t n1 u => match t with _ :: _ :: _ => umemo t n1 u =? count_le t n1 u | _ => true end))
          (zrange 2 8) = true.
Proof. vm_compute. reflexivity. Qed.

(** superseded by fast_count_le_correct / fast_count_ge_correct (Proofs/UDistSpecFull.v) *)
Example fast_evaluator_agrees_bounded :
  forallb (fun N => sweep N (fun t n1 u => (fast_count_le t n1 u =? count_le t n1 u)
                                            && (fast_count_ge t n1 u =? count_ge t n1 u)))
          (zrange 1 8) = true.
Proof. vm_compute. reflexivity. Qed.

(** superseded by subsets_agree (Proofs/UDistSpecFull.v) *)
Example subsets_agree_bounded :
  forallb (fun N => sweep N (fun t n1 u => subsets_count_if (fun w => w <=? u) t n1 =? count_le t n1 u))
          (zrange 1 7) = true.
Proof. vm_compute. reflexivity. Qed.

(** superseded by count_all_total (Proofs/UDistSum.v) *)
Example total_is_count_all_bounded :
  forallb (fun N => sweep N (fun t n1 _ => total t n1 =? count_all t n1)) (zrange 1 8) = true.
Proof. vm_compute. reflexivity. Qed.
