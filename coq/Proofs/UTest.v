(** Proofs about Model/UTest.v: the error returns; witnesses against the
    pre-repair code and against the recorded finding; bounded sweeps that are
    labelled as such. *)
From Coq Require Import ZArith List Bool Lia Permutation.
From Perf Require Import Base.B64 Model.UStat Model.UDistSpec Model.UDistImpl Model.UTest.
From Perf Require Import Proofs.UStat Proofs.UDistSpec Proofs.UDistImpl.
Import ListNotations.
Local Open Scope Z_scope.

Section Errors.
Variable erfc : b64 -> option b64.

(** the function on two non-empty samples, with the statistic abstracted *)
Definition mwu_body (s : ustat) (a : alt) : uresult :=
  if use_exact s then
    match us_T s with
    | [_] => RErrSamplesEqual
    | _ => RExact (us_twoU1 s) (exact_p s a)
    end
  else if b64_eq (sigma_U s) b64_zero then RErrSamplesEqual
  else match approx_p erfc s a with
       | Some p => RApprox (us_twoU1 s) p
       | None => ROracleMiss
       end.

Lemma mwu_cons v1 x1 v2 x2 a :
  mwu erfc (v1 :: x1) (v2 :: x2) a = mwu_body (ustat_of (v1 :: x1) (v2 :: x2)) a.
Proof. reflexivity. Qed.

(** an empty sample, and nothing else, is ErrSampleSize *)
Theorem err_sample_size_iff x1 x2 a :
  mwu erfc x1 x2 a = RErrSampleSize <-> (x1 = [] \/ x2 = []).
Proof.
  split.
  - destruct x1 as [|v1 x1]; [now left|]. destruct x2 as [|v2 x2]; [now right|].
    rewrite mwu_cons. generalize (ustat_of (v1 :: x1) (v2 :: x2)) as s. intros s. unfold mwu_body.
    destruct (use_exact s).
    + destruct (us_T s) as [|? [|? ?]]; discriminate.
    + destruct (b64_eq (sigma_U s) b64_zero); [discriminate|]. destruct (approx_p erfc s a); discriminate.
  - intros [-> | ->]; [reflexivity | destruct x1; reflexivity].
Qed.

(** in the exact regime: all pooled values equal, and nothing else, is ErrSamplesEqual *)
Theorem err_samples_equal_iff_exact x1 x2 a :
  x1 <> [] -> x2 <> [] -> use_exact (ustat_of x1 x2) = true ->
  (mwu erfc x1 x2 a = RErrSamplesEqual <-> exists v, Forall (fun x => x = v) (x1 ++ x2)).
Proof.
  intros H1 H2 He.
  destruct x1 as [|v1 x1]; [congruence|]. destruct x2 as [|v2 x2]; [congruence|].
  rewrite mwu_cons.
  pose proof (pool_T_single (v1 :: x1) (v2 :: x2)) as HS. rewrite <- us_T_pool in HS.
  revert He HS. generalize (ustat_of (v1 :: x1) (v2 :: x2)) as s. intros s He HS.
  unfold mwu_body. rewrite He.
  split.
  - intros H. apply HS. destruct (us_T s) as [|c [|? ?]]; try discriminate. now exists c.
  - intros H. assert (Hne : (v1 :: x1) ++ v2 :: x2 <> []) by (cbn [app]; discriminate).
    destruct (proj2 HS (conj Hne H)) as [c Hc]. rewrite Hc. reflexivity.
Qed.

(** in the approximate regime the code tests sigma == 0 in binary64 *)
Theorem err_samples_equal_approx x1 x2 a :
  x1 <> [] -> x2 <> [] -> use_exact (ustat_of x1 x2) = false ->
  (mwu erfc x1 x2 a = RErrSamplesEqual <-> b64_eq (sigma_U (ustat_of x1 x2)) b64_zero = true).
Proof.
  intros H1 H2 He.
  destruct x1 as [|v1 x1]; [congruence|]. destruct x2 as [|v2 x2]; [congruence|].
  rewrite mwu_cons. revert He. generalize (ustat_of (v1 :: x1) (v2 :: x2)) as s. intros s He.
  unfold mwu_body. rewrite He. destruct (b64_eq (sigma_U s) b64_zero); [tauto|].
  destruct (approx_p erfc s a); split; discriminate.
Qed.
End Errors.

(** bounded check (NOT the unbounded claim): a single run of N equal values gives
    sigma == 0 exactly, and two runs give sigma > 0, for every N up to 400 *)
Definition sigma_of (n1 n2 : Z) (T : list Z) : b64 := sigma_U (mkUstat n1 n2 T [] true 0).
Example sigma_zero_single_bounded :
  forallb (fun N => b64_eq (sigma_of (N / 2) (N - N / 2) [N]) b64_zero
                    && negb (b64_eq (sigma_of (N / 2) (N - N / 2) [N - 1; 1]) b64_zero)
                    && negb (b64_eq (sigma_of 1 (N - 1) [1; N - 1]) b64_zero))
          (zrange 2 400) = true.
Proof. vm_compute. reflexivity. Qed.

(** ** witnesses against the code before the repairs *)
Theorem k2_base_old_refuted : exists t n1 u, umemo_old t n1 u <> count_le t n1 u.
Proof. exists [2; 1], 1, 0. vm_compute. discriminate. Qed.

Theorem twosided_gt1_old_refuted :
  exists x1 x2, fst (exact_p_old_frac (ustat_of x1 x2) Differs) > snd (exact_p_old_frac (ustat_of x1 x2) Differs).
Proof. exists [1], [0; 0]. vm_compute. reflexivity. Qed.

Theorem greater_ties_old_refuted :
  exists x1 x2,
    let s := ustat_of x1 x2 in
    exact_p_old_frac s Greater <> (count_ge (us_T s) (us_n1 s) (us_twoU1 s), total (us_T s) (us_n1 s)).
Proof. exists [1; 2], [1; 3; 0]. vm_compute. discriminate. Qed.

(** the repaired code on the same witnesses *)
Example witnesses_repaired :
  umemo [2; 1] 1 0 = count_le [2; 1] 1 0 /\
  pexact_frac (exact_p (ustat_of [1] [0; 0]) Differs) = Some (0, 3) /\
  pexact_frac (exact_p (ustat_of [1] [1; 1; 2]) Differs) = Some (4, 4) /\     (* was 6/4 *)
  (let s := ustat_of [1; 2] [1; 3; 0] in
   pexact_frac (exact_p s Greater) = Some (count_ge (us_T s) (us_n1 s) (us_twoU1 s), total (us_T s) (us_n1 s))).
Proof. vm_compute. repeat split. Qed.

(** ** the recorded finding C11_twosided_asymmetric_ties: the (repaired) code's
    two-sided value is not twice the smaller tail when the tie vector is skewed *)
Theorem twosided_asymmetric_refuted :
  exists x1 x2,
    let s := ustat_of x1 x2 in
    pexact_frac (exact_p s Differs)
    <> Some (p_two_num (us_T s) (us_n1 s) (us_twoU1 s), total (us_T s) (us_n1 s)).
Proof. exists [1; 2; 3; 5], [1; 1; 1; 1; 1]. vm_compute. discriminate. Qed.

(** ... and is not invariant under swapping the samples *)
Theorem twosided_swap_refuted :
  exists x1 x2,
    pexact_frac (exact_p (ustat_of x1 x2) Differs) <> pexact_frac (exact_p (ustat_of x2 x1) Differs).
Proof. exists [1; 2; 3; 5], [1; 1; 1; 1; 1]. vm_compute. discriminate. Qed.

(** ** bounded sweeps (labelled): pruning of table keys does not change the value,
    and the fast evaluator / subset enumeration agree with the specification *)
Fixpoint comps (fuel : nat) (N : Z) : list (list Z) :=
  match fuel with
  | O => []
  | S f => if N =? 0 then [[]] else flat_map (fun x => map (cons x) (comps f (N - x))) (zrange 1 N)
  end.

Definition sweep (N : Z) (chk : list Z -> Z -> Z -> bool) : bool :=
  forallb (fun t =>
             forallb (fun n1 => forallb (chk t n1) (zrange (-1) (2 * (n1 * (N - n1)) + 1))) (zrange 0 N))
          (comps (S (Z.to_nat N)) N).

Example pruning_agrees_bounded :
  forallb (fun N => sweep N (fun t n1 u => match t with _ :: _ :: _ => umemo t n1 u =? count_le t n1 u | _ => true end))
          (zrange 2 8) = true.
Proof. vm_compute. reflexivity. Qed.

Example fast_evaluator_agrees_bounded :
  forallb (fun N => sweep N (fun t n1 u => (fast_count_le t n1 u =? count_le t n1 u)
                                            && (fast_count_ge t n1 u =? count_ge t n1 u)))
          (zrange 1 8) = true.
Proof. vm_compute. reflexivity. Qed.

Example subsets_agree_bounded :
  forallb (fun N => sweep N (fun t n1 u => subsets_count_if (fun w => w <=? u) t n1 =? count_le t n1 u))
          (zrange 1 7) = true.
Proof. vm_compute. reflexivity. Qed.

Example total_is_count_all_bounded :
  forallb (fun N => sweep N (fun t n1 _ => total t n1 =? count_all t n1)) (zrange 1 8) = true.
Proof. vm_compute. reflexivity. Qed.
