(** Placement agreement of the CSV and the text assembly of benchtab.Table:
    for every abstract table both models put, for each (row, logical column),
    the same label / centre / range / delta / p-n piece into the corresponding
    cell: CSV column [csv_start e + k], text column [txt_start e + k'] with the
    delta in the FIRST column after the centre group in both
    ([csv_start e + csv_center], [txt_start e + txt_center]). *)
From Perf Require Import Base.Bytes Model.Runes Model.TextTab Model.KeyHeader Model.Render.
Local Open Scope nat_scope.

Ltac splits := repeat match goal with |- _ /\ _ => split end.

(** ** row buffer *)
Lemma nth_repeat_nil (m j : nat) : nth j (repeat (@nil byte) m) [] = [].
Proof. revert j; induction m as [|m IH]; intros [|j]; cbn [repeat nth]; auto. Qed.

Lemma field_clear_to row k i : field (clear_to row k) i = field row i.
Proof.
  unfold field, clear_to. destruct (Nat.lt_ge_cases i (length row)) as [H|H].
  - apply app_nth1. exact H.
  - rewrite app_nth2 by exact H. rewrite nth_repeat_nil. symmetry. apply nth_overflow. exact H.
Qed.

Lemma clear_to_length row k : length row <= k -> length (clear_to row k) = k.
Proof. intros H. unfold clear_to. rewrite app_length, repeat_length. lia. Qed.

Lemma clear_to_length_ge row k : length row <= length (clear_to row k).
Proof. unfold clear_to. rewrite app_length. lia. Qed.

Lemma field_app_l row x i : i < length row -> field (row ++ x) i = field row i.
Proof. intros H. unfold field. apply app_nth1. exact H. Qed.

Lemma field_app_k row x k j : length row = k -> field (row ++ x) (k + j) = field x j.
Proof. intros <-. unfold field. apply app_nth2_plus. Qed.

Lemma cs_S e : csv_start (S e) = match e with 0 => 3 | S _ => csv_start e + 4 end.
Proof. unfold csv_start, csv_center. destruct e; lia. Qed.
Lemma cs_pos e : 1 <= csv_start e.
Proof. unfold csv_start. destruct e; lia. Qed.
Lemma cs_mono a b : a <= b -> csv_start a <= csv_start b.
Proof. intros H. unfold csv_start, csv_center. destruct a as [|a], b as [|b]; nia. Qed.

(** ** CSV data row *)
Definition st_row {B C} (st : list bytes * B * C) : list bytes := fst (fst st).

Lemma csv_data_step_spec srow row ws exp oc :
  length row <= csv_start exp ->
  let st := csv_data_step srow (row, ws, exp) oc in
  snd st = S exp /\ length row <= length (st_row st) /\ length (st_row st) <= csv_start (S exp) /\
  (forall i, i < length row -> field (st_row st) i = field row i) /\
  (forall c, oc = Some c ->
     csv_start exp + 2 <= length (st_row st) /\
     field (st_row st) (csv_start exp) = rc_csv c /\ field (st_row st) (csv_start exp + 1) = rc_range c /\
     (0 < exp -> forall cm, rc_cmp c = Some cm ->
        csv_start exp + 4 <= length (st_row st) /\
        field (st_row st) (csv_start exp + csv_center) = cm_delta cm /\
        field (st_row st) (csv_start exp + csv_center + 1) = cm_pn cm)).
Proof.
  intros Hlen. pose proof (cs_mono exp (S exp) ltac:(lia)) as Hm. pose proof (cs_S exp) as HS.
  destruct oc as [c|]; cbn [csv_data_step].
  2:{ cbn [snd fst st_row]. splits; try lia; try (intros; reflexivity); intros c H; discriminate. }
  set (row1 := clear_to row (csv_start exp)).
  assert (L1 : length row1 = csv_start exp) by (apply clear_to_length; exact Hlen).
  assert (F1 : forall i, field row1 i = field row i) by (intros; apply field_clear_to).
  destruct (Nat.eqb_spec exp 0) as [E0|E0].
  - (* baseline column: never a comparison *)
    cbn [snd fst st_row]. rewrite app_length, L1. cbn [length].
    splits; try lia.
    + subst exp. rewrite HS. cbn [csv_start]. lia.
    + intros i Hi. rewrite field_app_l by lia. apply F1.
    + intros c' [= <-]. splits; try lia.
      * rewrite <- (Nat.add_0_r (csv_start exp)). rewrite (field_app_k row1 _ (csv_start exp) 0 L1). reflexivity.
      * rewrite (field_app_k row1 _ (csv_start exp) 1 L1). reflexivity.
  - destruct (rc_cmp c) as [cm|] eqn:Ec; cbn [snd fst st_row].
    + rewrite <- app_assoc. cbn [app]. rewrite app_length, L1. cbn [length].
      assert (HS' : csv_start (S exp) = csv_start exp + 4) by (rewrite HS; destruct exp; [lia|reflexivity]).
      splits; try lia.
      * intros i Hi. rewrite field_app_l by lia. apply F1.
      * intros c' [= <-]. splits; try lia.
        -- rewrite <- (Nat.add_0_r (csv_start exp)). rewrite (field_app_k row1 _ (csv_start exp) 0 L1). reflexivity.
        -- rewrite (field_app_k row1 _ (csv_start exp) 1 L1). reflexivity.
        -- intros _ cm' Hc. rewrite Ec in Hc. injection Hc as <-. unfold csv_center. splits; try lia.
           ++ rewrite (field_app_k row1 _ (csv_start exp) 2 L1). reflexivity.
           ++ replace (csv_start exp + 2 + 1) with (csv_start exp + 3) by lia.
              rewrite (field_app_k row1 _ (csv_start exp) 3 L1). reflexivity.
    + rewrite app_length, L1. cbn [length].
      assert (HS' : csv_start (S exp) = csv_start exp + 4) by (rewrite HS; destruct exp; [lia|reflexivity]).
      splits; try lia.
      * intros i Hi. rewrite field_app_l by lia. apply F1.
      * intros c' [= <-]. splits; try lia.
        -- rewrite <- (Nat.add_0_r (csv_start exp)). rewrite (field_app_k row1 _ (csv_start exp) 0 L1). reflexivity.
        -- rewrite (field_app_k row1 _ (csv_start exp) 1 L1). reflexivity.
        -- intros _ cm H. rewrite Ec in H. discriminate.
Qed.

Lemma csv_data_fold srow : forall cells row ws exp,
  length row <= csv_start exp ->
  let st := fold_left (csv_data_step srow) cells (row, ws, exp) in
  length row <= length (st_row st) /\
  (forall i, i < length row -> field (st_row st) i = field row i) /\
  (forall k c, nth_error cells k = Some (Some c) ->
     field (st_row st) (csv_start (exp + k)) = rc_csv c /\
     field (st_row st) (csv_start (exp + k) + 1) = rc_range c /\
     (0 < exp + k -> forall cm, rc_cmp c = Some cm ->
        field (st_row st) (csv_start (exp + k) + csv_center) = cm_delta cm /\
        field (st_row st) (csv_start (exp + k) + csv_center + 1) = cm_pn cm)).
Proof.
  induction cells as [|oc cells IH]; intros row ws exp Hlen; cbn [fold_left].
  - cbn [st_row fst]. splits; try lia; [intros; reflexivity|intros [|k] c H; discriminate].
  - pose proof (csv_data_step_spec srow row ws exp oc Hlen) as S1. cbn zeta in S1.
    destruct (csv_data_step srow (row, ws, exp) oc) as [[row1 ws1] exp1] eqn:E1.
    cbn [snd fst st_row] in S1. destruct S1 as [-> [G1 [G2 [G3 G4]]]].
    specialize (IH row1 ws1 (S exp) G2). cbn zeta in IH. destruct IH as [I1 [I2 I3]].
    splits; try lia.
    + intros i Hi. rewrite I2 by lia. apply G3. exact Hi.
    + intros [|k] c H.
      * cbn [nth_error] in H. injection H as ->. rewrite Nat.add_0_r.
        destruct (G4 c eq_refl) as [B1 [B2 [B3 B4]]].
        rewrite !I2 by lia. splits; try assumption.
        intros Hp cm Hc. destruct (B4 Hp cm Hc) as [C1 [C2 C3]]. unfold csv_center in *.
        rewrite !I2 by lia. split; assumption.
      * cbn [nth_error] in H. replace (exp + S k) with (S exp + k) by lia. apply I3. exact H.
Qed.

(** ** CSV summary row *)
Lemma csv_sum_step_spec srow row ws exp os :
  length row <= csv_start exp ->
  let st := csv_sum_step srow (row, ws, exp) os in
  snd st = S exp /\ length row <= length (st_row st) /\ length (st_row st) <= csv_start (S exp) /\
  (forall i, i < length row -> field (st_row st) i = field row i) /\
  (forall s, os = Some s ->
     (rs_has s = true -> csv_start exp < length (st_row st) /\ field (st_row st) (csv_start exp) = rs_csv s) /\
     (0 < exp -> csv_start exp + csv_center < length (st_row st) /\
                 field (st_row st) (csv_start exp + csv_center) = ratio_text s)).
Proof.
  intros Hlen. pose proof (cs_mono exp (S exp) ltac:(lia)) as Hm. pose proof (cs_S exp) as HS.
  destruct os as [s|]; cbn [csv_sum_step].
  2:{ cbn [snd fst st_row]. splits; try lia; try (intros; reflexivity); intros s H; discriminate. }
  set (row1 := clear_to row (csv_start exp)).
  assert (L1 : length row1 = csv_start exp) by (apply clear_to_length; exact Hlen).
  assert (F1 : forall i, field row1 i = field row i) by (intros; apply field_clear_to).
  set (row2 := if rs_has s then row1 ++ [rs_csv s] else row1).
  assert (L2 : csv_start exp <= length row2 <= csv_start exp + 1).
  { subst row2. destruct (rs_has s); [rewrite app_length; cbn [length]|]; lia. }
  assert (F2 : forall i, i < length row -> field row2 i = field row i).
  { intros i Hi. subst row2. destruct (rs_has s); [rewrite field_app_l by lia|]; apply F1. }
  assert (H2 : rs_has s = true -> csv_start exp < length row2 /\ field row2 (csv_start exp) = rs_csv s).
  { intros Hh. subst row2. rewrite Hh. rewrite app_length. cbn [length]. split; [lia|].
    rewrite <- (Nat.add_0_r (csv_start exp)). rewrite (field_app_k row1 _ (csv_start exp) 0 L1). reflexivity. }
  destruct (Nat.eqb_spec exp 0) as [E0|E0]; cbn [snd fst st_row].
  - splits; try lia.
    + subst exp. rewrite HS. unfold csv_start in *. lia.
    + exact F2.
    + intros s' [= <-]. split; [exact H2|lia].
  - set (row3 := clear_to row2 (csv_start exp + csv_center)).
    assert (L3 : length row3 = csv_start exp + csv_center) by (apply clear_to_length; unfold csv_center; lia).
    assert (HS' : csv_start (S exp) = csv_start exp + 4) by (rewrite HS; destruct exp; [lia|reflexivity]).
    rewrite app_length, L3. cbn [length]. unfold csv_center in *.
    splits; try lia.
    + intros i Hi. rewrite field_app_l by lia. subst row3. rewrite field_clear_to. apply F2. exact Hi.
    + intros s' [= <-]. split.
      * intros Hh. destruct (H2 Hh) as [A1 A2]. split; [lia|].
        rewrite field_app_l by lia. subst row3. rewrite field_clear_to. exact A2.
      * intros _. split; [lia|].
        rewrite <- (Nat.add_0_r (csv_start exp + 2)). rewrite (field_app_k row3 _ (csv_start exp + 2) 0 L3). reflexivity.
Qed.

Lemma csv_sum_fold srow : forall sums row ws exp,
  length row <= csv_start exp ->
  let st := fold_left (csv_sum_step srow) sums (row, ws, exp) in
  length row <= length (st_row st) /\
  (forall i, i < length row -> field (st_row st) i = field row i) /\
  (forall k s, nth_error sums k = Some (Some s) ->
     (rs_has s = true -> field (st_row st) (csv_start (exp + k)) = rs_csv s) /\
     (0 < exp + k -> field (st_row st) (csv_start (exp + k) + csv_center) = ratio_text s)).
Proof.
  induction sums as [|os sums IH]; intros row ws exp Hlen; cbn [fold_left].
  - cbn [st_row fst]. splits; try lia; [intros; reflexivity|intros [|k] s H; discriminate].
  - pose proof (csv_sum_step_spec srow row ws exp os Hlen) as S1. cbn zeta in S1.
    destruct (csv_sum_step srow (row, ws, exp) os) as [[row1 ws1] exp1] eqn:E1.
    cbn [snd fst st_row] in S1. destruct S1 as [-> [G1 [G2 [G3 G4]]]].
    specialize (IH row1 ws1 (S exp) G2). cbn zeta in IH. destruct IH as [I1 [I2 I3]].
    splits; try lia.
    + intros i Hi. rewrite I2 by lia. apply G3. exact Hi.
    + intros [|k] s H; cbn [nth_error] in H.
      * injection H as ->. rewrite Nat.add_0_r. destruct (G4 s eq_refl) as [B1 B2]. split.
        -- intros Hh. destruct (B1 Hh) as [C1 C2]. rewrite I2 by lia. exact C2.
        -- intros Hp. destruct (B2 Hp) as [C1 C2]. rewrite I2 by lia. exact C2.
      * replace (exp + S k) with (S exp + k) by lia. apply I3. exact H.
Qed.

(** ** text: cursor arithmetic *)
Lemma place_app a : forall cur b, place cur (a ++ b) = place cur a ++ place (cur_after cur a) b.
Proof.
  induction a as [|o a IH]; intros cur b; cbn [app place cur_after]; [reflexivity|].
  destruct o; cbn [app]; rewrite ?IH; reflexivity.
Qed.

Lemma place_in_app_l cur a b x : In x (place cur a) -> In x (place cur (a ++ b)).
Proof. intros H. rewrite place_app. apply in_or_app. left. exact H. Qed.

Lemma place_in_app_col cur a c seg x : In x (place c seg) -> In x (place cur (a ++ OCol c :: seg)).
Proof. intros H. rewrite place_app. apply in_or_app. right. cbn [place]. exact H. Qed.

Definition st_ops {A C} (st : A * list op * C) : list op := snd (fst st).

Lemma text_data_step_spec wl ops exp oc :
  let st := text_data_step (wl, ops, exp) oc in
  snd st = S exp /\
  (forall x, In x (place 0 ops) -> In x (place 0 (st_ops st))) /\
  (forall c, oc = Some c ->
     In (txt_start exp, OSpan 1 (rc_txt c) None ARight) (place 0 (st_ops st)) /\
     In (txt_start exp + 1, OSpan 1 (rc_range c) (Some (bs " ± ")) ARight) (place 0 (st_ops st)) /\
     (0 < exp -> forall cm, rc_cmp c = Some cm ->
        In (txt_start exp + txt_center, OSpan 1 (cm_delta cm) None ARight) (place 0 (st_ops st)) /\
        In (txt_start exp + txt_center + 1, OSpan 1 (bs "(" ++ cm_pn cm ++ bs ")") None ALeft) (place 0 (st_ops st)))).
Proof.
  destruct oc as [c|]; cbn [text_data_step].
  2:{ cbn [snd fst st_ops]. splits; auto. intros c H; discriminate. }
  set (f1 := footnote wl (rc_swarn c ++ rc_mwarn c)).
  destruct (Nat.eqb_spec exp 0) as [E0|E0].
  - cbn [snd fst st_ops]. splits; [reflexivity|intros x Hx; apply place_in_app_l; exact Hx|].
    intros c' [= <-]. splits.
    + apply place_in_app_col. cbn [place]. left. reflexivity.
    + apply place_in_app_col. cbn [place]. right. left. reflexivity.
    + lia.
  - destruct (rc_cmp c) as [cm|] eqn:Ec; cbn [snd fst st_ops].
    + rewrite <- app_assoc. cbn [app].
      splits; [reflexivity|intros x Hx; apply place_in_app_l; exact Hx|].
      intros c' [= <-]. splits.
      * apply place_in_app_col. cbn [place]. left. reflexivity.
      * apply place_in_app_col. cbn [place]. right. left. reflexivity.
      * intros _ cm' Hc. rewrite Ec in Hc. injection Hc as <-. split.
        -- apply place_in_app_col. cbn [place]. right. right. right. left. unfold txt_center. f_equal. lia.
        -- apply place_in_app_col. cbn [place]. right. right. right. right. left. unfold txt_center. f_equal. lia.
    + splits; [reflexivity|intros x Hx; apply place_in_app_l; exact Hx|].
      intros c' [= <-]. splits.
      * apply place_in_app_col. cbn [place]. left. reflexivity.
      * apply place_in_app_col. cbn [place]. right. left. reflexivity.
      * intros _ cm' Hc. rewrite Ec in Hc. discriminate.
Qed.

Lemma text_data_fold : forall cells wl ops exp,
  let st := fold_left text_data_step cells (wl, ops, exp) in
  (forall x, In x (place 0 ops) -> In x (place 0 (st_ops st))) /\
  (forall k c, nth_error cells k = Some (Some c) ->
     In (txt_start (exp + k), OSpan 1 (rc_txt c) None ARight) (place 0 (st_ops st)) /\
     In (txt_start (exp + k) + 1, OSpan 1 (rc_range c) (Some (bs " ± ")) ARight) (place 0 (st_ops st)) /\
     (0 < exp + k -> forall cm, rc_cmp c = Some cm ->
        In (txt_start (exp + k) + txt_center, OSpan 1 (cm_delta cm) None ARight) (place 0 (st_ops st)) /\
        In (txt_start (exp + k) + txt_center + 1, OSpan 1 (bs "(" ++ cm_pn cm ++ bs ")") None ALeft)
           (place 0 (st_ops st)))).
Proof.
  induction cells as [|oc cells IH]; intros wl ops exp; cbn [fold_left].
  - cbn [st_ops fst snd]. split; [auto|]. intros [|k] c H; discriminate.
  - pose proof (text_data_step_spec wl ops exp oc) as S1. cbn zeta in S1.
    destruct (text_data_step (wl, ops, exp) oc) as [[wl1 ops1] exp1] eqn:E1.
    cbn [snd fst st_ops] in S1. destruct S1 as [-> [G1 G2]].
    specialize (IH wl1 ops1 (S exp)). cbn zeta in IH. destruct IH as [I1 I2].
    split; [intros x Hx; apply I1, G1, Hx|].
    intros [|k] c H; cbn [nth_error] in H.
    + injection H as ->. rewrite Nat.add_0_r. destruct (G2 c eq_refl) as [B1 [B2 B3]].
      splits; try (apply I1; assumption).
      intros Hp cm Hc. destruct (B3 Hp cm Hc) as [D1 D2]. split; apply I1; assumption.
    + replace (exp + S k) with (S exp + k) by lia. apply I2. exact H.
Qed.

Lemma text_sum_step_spec wl ops exp os :
  let st := text_sum_step (wl, ops, exp) os in
  snd st = S exp /\
  (forall x, In x (place 0 ops) -> In x (place 0 (st_ops st))) /\
  (forall s, os = Some s ->
     (rs_has s = true -> In (txt_start exp, OSpan 1 (rs_txt s) None ARight) (place 0 (st_ops st))) /\
     (0 < exp -> In (txt_start exp + txt_center,
                     OSpan 1 (ratio_text s) None (if rs_hasratio s then ARight else ALeft)) (place 0 (st_ops st)))).
Proof.
  destruct os as [s|]; cbn [text_sum_step].
  2:{ cbn [snd fst st_ops]. splits; auto. intros s H; discriminate. }
  cbn [snd fst st_ops].
  set (ops1 := if rs_has s then ops ++ [OCol (txt_start exp); OSpan 1 (rs_txt s) None ARight] else ops).
  assert (M1 : forall x, In x (place 0 ops) -> In x (place 0 ops1)).
  { intros x Hx. subst ops1. destruct (rs_has s); [apply place_in_app_l|]; exact Hx. }
  assert (A1 : rs_has s = true -> In (txt_start exp, OSpan 1 (rs_txt s) None ARight) (place 0 ops1)).
  { intros Hh. subst ops1. rewrite Hh. apply place_in_app_col. cbn [place]. left. reflexivity. }
  set (ops2 := if exp =? 0 then ops1 else ops1 ++ _).
  assert (M2 : forall x, In x (place 0 ops1) -> In x (place 0 ops2)).
  { intros x Hx. subst ops2. destruct (exp =? 0); [|apply place_in_app_l]; exact Hx. }
  splits; [reflexivity|intros x Hx; apply place_in_app_l, M2, M1, Hx|].
  intros s' [= <-]. split.
  - intros Hh. apply place_in_app_l, M2, A1, Hh.
  - intros Hp. apply place_in_app_l. subst ops2.
    destruct (Nat.eqb_spec exp 0); [lia|]. apply place_in_app_col. cbn [place]. left. reflexivity.
Qed.

Lemma text_sum_fold : forall sums wl ops exp,
  let st := fold_left text_sum_step sums (wl, ops, exp) in
  (forall x, In x (place 0 ops) -> In x (place 0 (st_ops st))) /\
  (forall k s, nth_error sums k = Some (Some s) ->
     (rs_has s = true -> In (txt_start (exp + k), OSpan 1 (rs_txt s) None ARight) (place 0 (st_ops st))) /\
     (0 < exp + k -> In (txt_start (exp + k) + txt_center,
                         OSpan 1 (ratio_text s) None (if rs_hasratio s then ARight else ALeft))
                        (place 0 (st_ops st)))).
Proof.
  induction sums as [|os sums IH]; intros wl ops exp; cbn [fold_left].
  - cbn [st_ops fst snd]. split; [auto|]. intros [|k] s H; discriminate.
  - pose proof (text_sum_step_spec wl ops exp os) as S1. cbn zeta in S1.
    destruct (text_sum_step (wl, ops, exp) os) as [[wl1 ops1] exp1] eqn:E1.
    cbn [snd fst st_ops] in S1. destruct S1 as [-> [G1 G2]].
    specialize (IH wl1 ops1 (S exp)). cbn zeta in IH. destruct IH as [I1 I2].
    split; [intros x Hx; apply I1, G1, Hx|].
    intros [|k] s H; cbn [nth_error] in H.
    + injection H as ->. rewrite Nat.add_0_r. destruct (G2 s eq_refl) as [B1 B2].
      split; intros Hx; apply I1; auto.
    + replace (exp + S k) with (S exp + k) by lia. apply I2. exact H.
Qed.

(** ** text_csv_agree *)

(** data rows: label, centre, range, delta and p/n of logical column [e] *)
Theorem text_csv_agree_data srow wl label cells e c :
  nth_error cells e = Some (Some c) ->
  let crow := fst (csv_data_row srow label cells) in
  let tops := snd (text_data_ops wl label cells) in
  field crow 0 = label /\ In (0, OSpan 1 label None ALeft) (place 0 tops) /\
  field crow (csv_start e) = rc_csv c /\ In (txt_start e, OSpan 1 (rc_txt c) None ARight) (place 0 tops) /\
  field crow (csv_start e + 1) = rc_range c /\
  In (txt_start e + 1, OSpan 1 (rc_range c) (Some (bs " ± ")) ARight) (place 0 tops) /\
  (0 < e -> forall cm, rc_cmp c = Some cm ->
     field crow (csv_start e + csv_center) = cm_delta cm /\
     In (txt_start e + txt_center, OSpan 1 (cm_delta cm) None ARight) (place 0 tops) /\
     field crow (csv_start e + csv_center + 1) = cm_pn cm /\
     In (txt_start e + txt_center + 1, OSpan 1 (bs "(" ++ cm_pn cm ++ bs ")") None ALeft) (place 0 tops)).
Proof.
  intros H. unfold csv_data_row, text_data_ops. cbn [fst snd].
  destruct (csv_data_fold srow cells [label] [] 0 ltac:(cbn; lia)) as [C1 [C2 C3]].
  destruct (text_data_fold cells wl [ORow; OSpan 1 label None ALeft] 0) as [T1 T2].
  specialize (C3 e c H). specialize (T2 e c H). cbn [Nat.add] in C3, T2.
  destruct C3 as [C3a [C3b C3c]]. destruct T2 as [T2a [T2b T2c]].
  fold (@st_row (list wline) nat) in *.
  splits; try assumption.
  - unfold st_row in C2. rewrite (C2 0) by (cbn; lia). reflexivity.
  - apply T1. cbn [place]. left. reflexivity.
  - intros Hp cm Hc. destruct (C3c Hp cm Hc) as [X1 X2]. destruct (T2c Hp cm Hc) as [Y1 Y2].
    splits; assumption.
Qed.

(** summary row: the geomean of column [e] under the centre column, its delta
    (or "?") under the FIRST delta column, for every HasSummary/HasRatio combination *)
Theorem text_csv_agree_summary srow wl label sums e s :
  nth_error sums e = Some (Some s) ->
  let crow := fst (csv_summary_row srow label sums) in
  let tops := snd (text_summary_ops wl label sums) in
  field crow 0 = label /\ In (0, OSpan 1 label None ALeft) (place 0 tops) /\
  (rs_has s = true ->
     field crow (csv_start e) = rs_csv s /\ In (txt_start e, OSpan 1 (rs_txt s) None ARight) (place 0 tops)) /\
  (0 < e ->
     field crow (csv_start e + csv_center) = ratio_text s /\
     In (txt_start e + txt_center, OSpan 1 (ratio_text s) None (if rs_hasratio s then ARight else ALeft))
        (place 0 tops)).
Proof.
  intros H. unfold csv_summary_row, text_summary_ops. cbn [fst snd].
  destruct (csv_sum_fold srow sums [label] [] 0 ltac:(cbn; lia)) as [C1 [C2 C3]].
  destruct (text_sum_fold sums wl [ORow; OSpan 1 label None ALeft] 0) as [T1 T2].
  specialize (C3 e s H). specialize (T2 e s H). cbn [Nat.add] in C3, T2.
  destruct C3 as [C3a C3b]. destruct T2 as [T2a T2b].
  splits; auto.
  - unfold st_row in C2. rewrite (C2 0) by (cbn; lia). reflexivity.
  - apply T1. cbn [place]. left. reflexivity.
Qed.

(** unit row: the unit over the centre group, "vs base" over the first delta column *)
Lemma csv_unit_fold unit : forall n row e0,
  length row <= csv_start e0 ->
  let r := fold_left (csv_unit_step unit) (seq e0 n) row in
  length row <= length r /\ (forall i, i < length row -> field r i = field row i) /\
  (forall e, e0 <= e < e0 + n ->
     field r (csv_start e) = unit /\ field r (csv_start e + 1) = bs "CI" /\
     (0 < e -> field r (csv_start e + csv_center) = bs "vs base" /\ field r (csv_start e + csv_center + 1) = bs "P")).
Proof.
  induction n as [|n IH]; intros row e0 Hlen; cbn [seq fold_left].
  - splits; try lia; intros; reflexivity.
  - set (row1 := clear_to row (csv_start e0)).
    assert (L1 : length row1 = csv_start e0) by (apply clear_to_length; exact Hlen).
    set (r1 := csv_unit_step unit row e0).
    assert (HS := cs_S e0).
    assert (R1 : length row <= length r1 /\ length r1 <= csv_start (S e0) /\
                 (forall i, i < length row -> field r1 i = field row i) /\
                 csv_start e0 + 2 <= length r1 /\
                 field r1 (csv_start e0) = unit /\ field r1 (csv_start e0 + 1) = bs "CI" /\
                 (0 < e0 -> csv_start e0 + 4 <= length r1 /\ field r1 (csv_start e0 + 2) = bs "vs base"
                            /\ field r1 (csv_start e0 + 3) = bs "P")).
    { subst r1. unfold csv_unit_step. fold row1.
      destruct (Nat.eqb_spec e0 0) as [E0|E0]; cbn [app]; rewrite app_length, L1; cbn [length].
      - subst e0. splits; try (rewrite HS; unfold csv_start in *; lia); try lia.
        + intros i Hi. rewrite field_app_l by lia. apply field_clear_to.
        + rewrite <- (Nat.add_0_r (csv_start 0)) at 1. rewrite (field_app_k row1 _ (csv_start 0) 0 L1). reflexivity.
        + rewrite (field_app_k row1 _ (csv_start 0) 1 L1). reflexivity.
      - assert (HS' : csv_start (S e0) = csv_start e0 + 4) by (rewrite HS; destruct e0; [lia|reflexivity]).
        splits; try lia.
        + intros i Hi. rewrite field_app_l by lia. apply field_clear_to.
        + rewrite <- (Nat.add_0_r (csv_start e0)) at 1. rewrite (field_app_k row1 _ (csv_start e0) 0 L1). reflexivity.
        + rewrite (field_app_k row1 _ (csv_start e0) 1 L1). reflexivity.
        + intros _. splits; try lia.
          * rewrite (field_app_k row1 _ (csv_start e0) 2 L1). reflexivity.
          * rewrite (field_app_k row1 _ (csv_start e0) 3 L1). reflexivity. }
    destruct R1 as [A1 [A2 [A3 [A4 [A5 [A6 A7]]]]]].
    destruct (IH r1 (S e0) A2) as [I1 [I2 I3]].
    splits; try lia.
    + intros i Hi. rewrite I2 by lia. apply A3. exact Hi.
    + intros e He. destruct (Nat.eq_dec e e0) as [->|Hn]; [|apply I3; lia].
      splits.
      * rewrite I2 by lia. exact A5.
      * rewrite I2 by lia. exact A6.
      * intros Hp. destruct (A7 Hp) as [B1 [B2 B3]]. unfold csv_center. split.
        -- rewrite I2 by lia. exact B2.
        -- replace (csv_start e0 + 2 + 1) with (csv_start e0 + 3) by lia. rewrite I2 by lia. exact B3.
Qed.

Lemma place_flat_map unit : forall l cur e x,
  In e l -> In x (place 0 (text_unit_seg unit e)) -> In x (place cur (flat_map (text_unit_seg unit) l)).
Proof.
  induction l as [|a l IH]; intros cur e x [] Hx; cbn [flat_map]; rewrite place_app; apply in_or_app.
  - subst a. left. unfold text_unit_seg in *. cbn [app place] in *. exact Hx.
  - right. eapply IH; eassumption.
Qed.

Theorem text_csv_agree_unit unit n redge e :
  e < n ->
  let crow := csv_unit_row unit n in
  let tops := text_unit_ops unit n redge in
  field crow (csv_start e) = unit /\ In (txt_start e, OSpan txt_center unit (Some bar3) ACenter) (place 0 tops) /\
  (0 < e -> field crow (csv_start e + csv_center) = bs "vs base" /\
            In (txt_start e + txt_center, OSpan 3 (bs "vs base") (Some [sp; sp]) ALeft) (place 0 tops)).
Proof.
  intros He. unfold csv_unit_row, text_unit_ops.
  destruct (csv_unit_fold unit n [] 0 ltac:(cbn; lia)) as [_ [_ C]].
  destruct (C e ltac:(lia)) as [C1 [_ C2]].
  assert (Hin : In e (seq 0 n)) by (apply in_seq; lia).
  splits; [exact C1| |].
  - cbn [place]. rewrite place_app. apply in_or_app. left.
    eapply place_flat_map; [exact Hin|]. unfold text_unit_seg. cbn [app place]. left. reflexivity.
  - intros Hp. split; [apply C2; exact Hp|].
    cbn [place]. rewrite place_app. apply in_or_app. left.
    eapply place_flat_map; [exact Hin|]. unfold text_unit_seg.
    destruct (Nat.eqb_spec e 0); [lia|]. cbn [app place]. right. left. reflexivity.
Qed.

(** column-key header rows of the CSV: field [f] of column [e]'s key sits at csv_start e *)
Lemma csv_header_fold f : forall cols row e0,
  length row <= csv_start e0 ->
  let st := fold_left (csv_header_step f) cols (row, e0) in
  length row <= length (fst st) /\ (forall i, i < length row -> field (fst st) i = field row i) /\
  (forall k key, nth_error cols k = Some key -> field (fst st) (csv_start (e0 + k)) = kget f key).
Proof.
  induction cols as [|key cols IH]; intros row e0 Hlen; cbn [fold_left].
  - cbn [fst]. splits; try lia; [intros; reflexivity|intros [|k] key H; discriminate].
  - unfold csv_header_step at 2. cbn [fst snd].
    set (row1 := clear_to row (csv_start e0)).
    assert (L1 : length row1 = csv_start e0) by (apply clear_to_length; exact Hlen).
    assert (L2 : length (row1 ++ [kget f key]) <= csv_start (S e0)).
    { rewrite app_length, L1. cbn [length]. rewrite cs_S. destruct e0; [unfold csv_start; lia|lia]. }
    destruct (IH (row1 ++ [kget f key]) (S e0) L2) as [I1 [I2 I3]].
    rewrite app_length, L1 in I1, I2. cbn [length] in I1, I2.
    splits; try lia.
    + intros i Hi. rewrite I2 by lia. rewrite field_app_l by lia. apply field_clear_to.
    + intros [|k] key' H; cbn [nth_error] in H.
      * injection H as <-. rewrite Nat.add_0_r. rewrite I2 by lia.
        rewrite <- (Nat.add_0_r (csv_start e0)). rewrite (field_app_k row1 _ (csv_start e0) 0 L1). reflexivity.
      * replace (e0 + S k) with (S e0 + k) by lia. apply I3. exact H.
Qed.

Theorem csv_header_at cols f e key :
  nth_error cols e = Some key -> field (csv_header_row cols f) (csv_start e) = kget f key.
Proof.
  intros H. unfold csv_header_row.
  destruct (csv_header_fold f cols [] 0 ltac:(cbn; lia)) as [_ [_ C]]. apply (C e key H).
Qed.

(** ** [place] is the column assignment of the texttab builder *)
Definition op_sig (o : op) : nat * bytes * align :=
  match o with OSpan n v _ a => (n, v, a) | _ => (0, [], ALeft) end.
Definition cell_sig (c : cell) : nat * (nat * bytes * align) := (c_col c, (c_span c, c_val c, c_align c)).

Lemma build_place : forall ops t t',
  build_from t ops = Some t' ->
  map cell_sig (t_cells t') =
  map cell_sig (t_cells t) ++ map (fun x => (fst x, op_sig (snd x))) (place (t_cur t) ops).
Proof.
  induction ops as [|o ops IH]; intros t t' H; cbn [build_from] in H.
  - injection H as <-. cbn [place map]. rewrite app_nil_r. reflexivity.
  - destruct (apply_op t o) as [t1|] eqn:E1; [|discriminate].
    specialize (IH t1 t' H). rewrite IH. clear IH H.
    destruct o as [|c|n v m a|c b]; cbn [apply_op] in E1.
    + injection E1 as <-. cbn [t_cells t_cur place]. reflexivity.
    + destruct (c <? t_cur t); [discriminate|]. injection E1 as <-. cbn [t_cells t_cur place]. reflexivity.
    + injection E1 as <-. cbn [t_cells t_cur place map]. rewrite map_app, <- app_assoc. reflexivity.
    + injection E1 as <-. cbn [t_cells t_cur place]. reflexivity.
Qed.

(** every placement of the call sequence is a cell of the built table, in that column *)
Theorem place_is_build ops t col o :
  build ops = Some t -> In (col, o) (place 0 ops) ->
  exists c, In c (t_cells t) /\ c_col c = col /\ (c_span c, c_val c, c_align c) = op_sig o.
Proof.
  intros Hb Hin. pose proof (build_place ops tab0 t Hb) as E. cbn [tab0 t_cells t_cur map app] in E.
  assert (Hs : In (col, op_sig o) (map cell_sig (t_cells t))).
  { rewrite E. apply (in_map (fun x => (fst x, op_sig (snd x))) _ (col, o)). exact Hin. }
  apply in_map_iff in Hs as [c [Hc Hi]]. exists c. unfold cell_sig in Hc. injection Hc as H1 H2.
  split; [exact Hi|]. split; [exact H1|]. exact H2.
Qed.
