(** C08: projections_plus_residue_lossless.

    Part 1 (this file, up to [project_more]): the "group contents" lemma — every
    non-excluded FILE key of a projected result gets a sub-field in every .config
    group of the projection, sub-fields are never named by an excluded key, and
    the structure of a projection (items, group membership, names and tags of
    existing fields) only grows once parsing is over.
    Part 2: the parse phase (which specific keys the parser records and which
    fields the returned projections carry).
    Part 3: the value of a Key against the FINAL field set of a stream, and the
    losslessness theorem. *)
From Perf Require Import Base.Bytes Model.Name Model.Extract Model.Key Model.Projection
  Proofs.Key Proofs.Extract Proofs.Projection Proofs.Reach Proofs.Exclusion Proofs.KeyGet.

(** ** structure only grows *)
Definition sext (p p' : projection) : Prop :=
  p_items p' = p_items p /\
  (forall g i, In i (gsubs (p_top p) g) -> In i (gsubs (p_top p') g)) /\
  (forall i, i < nfields p ->
     option_map static (nth_error (p_fields p') i) = option_map static (nth_error (p_fields p) i)) /\
  nfields p <= nfields p'.

Lemma sext_refl p : sext p p.
Proof. repeat split; auto. Qed.

Lemma sext_trans a b c : sext a b -> sext b c -> sext a c.
Proof.
  intros [I1 [M1 [F1 G1]]] [I2 [M2 [F2 G2]]]. split; [congruence|]. split; [auto|]. split; [|lia].
  intros i Hi. rewrite F2 by lia. auto.
Qed.

Lemma sext_same p p' :
  p_items p' = p_items p -> p_top p' = p_top p -> p_fields p' = p_fields p -> sext p p'.
Proof. intros Hi Ht Hf. unfold sext, nfields. rewrite Hi, Ht, Hf. repeat split; auto. Qed.

Lemma sext_fname p p' i : sext p p' -> i < nfields p -> fname (p_fields p') i = fname (p_fields p) i.
Proof.
  intros [_ [_ [F _]]] Hi. specialize (F i Hi). unfold fname.
  destruct (nth_error (p_fields p') i), (nth_error (p_fields p) i); cbn in F; try discriminate; auto.
  unfold static in F. now injection F.
Qed.

Lemma sext_field p p' i f :
  sext p p' -> nth_error (p_fields p) i = Some f ->
  exists f', nth_error (p_fields p') i = Some f' /\ fi_name f' = fi_name f /\ fi_src f' = fi_src f.
Proof.
  intros [_ [_ [F _]]] Hf. assert (i < nfields p) as Hi by (unfold nfields; eapply nth_lt; eauto).
  specialize (F i Hi). rewrite Hf in F. destruct (nth_error (p_fields p') i) as [f'|]; [|discriminate].
  cbn in F. unfold static in F. injection F as H1 H2. eauto.
Qed.

Lemma sext_field_back p p' i f' :
  sext p p' -> i < nfields p -> nth_error (p_fields p') i = Some f' ->
  exists f, nth_error (p_fields p) i = Some f /\ fi_name f' = fi_name f /\ fi_src f' = fi_src f.
Proof.
  intros [_ [_ [F _]]] Hi Hf. specialize (F i Hi). rewrite Hf in F.
  destruct (nth_error (p_fields p) i) as [f|]; [|discriminate].
  cbn in F. unfold static in F. injection F as H1 H2. eauto.
Qed.

(** ** sub-fields are never named by an excluded key; non-excluded file keys have one *)
Definition Clean (ck : list bytes) (p : projection) : Prop :=
  forall g i, In i (gsubs (p_top p) g) -> mem (fname (p_fields p) i) ck = false.

Definition Has (ck : list bytes) (r : result) (p : projection) (g : nat) : Prop :=
  forall c, In c (r_cfg r) -> c_file c = true -> mem (c_key c) ck = false ->
    exists i, In i (gsubs (p_top p) g) /\ fname (p_fields p) i = c_key c.

Definition item_has (ck : list bytes) (r : result) (it : pitem) (p : projection) : Prop :=
  match it with PConfig g _ => Has ck r p g | _ => True end.

Lemma Has_sext ck r p p' g : TInv p -> sext p p' -> Has ck r p g -> Has ck r p' g.
Proof.
  intros T S H c Hc Hf Hm. destruct (H c Hc Hf Hm) as [i [Hi Hn]]. exists i. split.
  - now apply S.
  - rewrite (sext_fname p p') by (auto; unfold nfields; eapply sub_lt; eauto). exact Hn.
Qed.

Lemma Clean_same ck p p' :
  p_top p' = p_top p -> (forall i, fname (p_fields p') i = fname (p_fields p) i) -> Clean ck p -> Clean ck p'.
Proof. intros Ht Hf C g i Hi. rewrite Ht in Hi. rewrite Hf. eauto. Qed.

(** *** one step of the .config closure *)
Lemma config_step_sext ck g o p c :
  P p -> In (PConfig g o) (p_items p) -> sext p (config_step ck g o p c).
Proof.
  intros HP Hit. destruct (config_step_facts ck g o p c HP Hit) as [_ S2 S3 _ S5 S6 _].
  split; [exact S2|]. split; [exact S3|]. split; [|exact S6]. intros i Hi. now rewrite S5.
Qed.

Lemma config_step_clean ck g o p c :
  P p -> In (PConfig g o) (p_items p) -> Clean ck p -> Clean ck (config_step ck g o p c).
Proof.
  intros [K [F T]] Hit C.
  assert (G : is_group (p_top p) g) by (destruct F as [_ Fg]; eauto).
  unfold config_step. destruct (negb (c_file c)); auto.
  destruct (find_sub p g (c_key c)); [exact C|].
  destruct (mem (c_key c) ck) eqn:Em; auto.
  intros g' i. cbn [add_sub_field set_row p_top p_fields]. rewrite gsubs_add_sub by auto.
  assert (Hold : forall g0 j, In j (gsubs (p_top p) g0) ->
            mem (fname (p_fields p ++ [mkF (c_key c) o [] SCfg]) j) ck = false).
  { intros g0 j Hj. rewrite fname_app by (eapply sub_lt; eauto). eauto. }
  destruct (Nat.eqb g' g); [|apply Hold].
  intros Hi. apply in_app_or in Hi as [Hi|[<-|[]]]; [eapply Hold; eauto|].
  unfold fname, nfields. rewrite nth_error_app2 by lia. rewrite Nat.sub_diag. exact Em.
Qed.

Lemma config_step_has ck g o p c :
  P p -> In (PConfig g o) (p_items p) -> c_file c = true -> mem (c_key c) ck = false ->
  let p' := config_step ck g o p c in
  exists i, In i (gsubs (p_top p') g) /\ fname (p_fields p') i = c_key c.
Proof.
  intros [K [F T]] Hit Hf Hm. cbv zeta.
  assert (G : is_group (p_top p) g) by (destruct F as [_ Fg]; eauto).
  unfold config_step. rewrite Hf. cbn [negb].
  destruct (find_sub p g (c_key c)) as [idx|] eqn:Efs.
  - destruct (find_sub_some _ _ _ _ Efs). exists idx. auto.
  - rewrite Hm. exists (nfields p). cbn [add_sub_field set_row p_top p_fields]. split.
    + rewrite gsubs_add_sub, Nat.eqb_refl by auto. apply in_or_app. right. now left.
    + unfold fname, nfields. rewrite nth_error_app2 by lia. now rewrite Nat.sub_diag.
Qed.

(** *** the loop over r.Config *)
Lemma config_fold_more ck g o cs : forall p0,
  NoDup (map c_key cs) -> P p0 -> In (PConfig g o) (p_items p0) -> Clean ck p0 ->
  let pF := fold_left (config_step ck g o) cs p0 in
  P pF /\ sext p0 pF /\ Clean ck pF /\
  forall c, In c cs -> c_file c = true -> mem (c_key c) ck = false ->
    exists i, In i (gsubs (p_top pF) g) /\ fname (p_fields pF) i = c_key c.
Proof.
  induction cs as [|c cs IH]; intros p0 Hnd HP Hit HC; cbn [fold_left].
  - cbv zeta. split; [exact HP|]. split; [apply sext_refl|]. split; [exact HC|]. intros c [].
  - inversion Hnd as [|? ? _ Hnd']; subst.
    pose proof (config_step_facts ck g o p0 c HP Hit) as SF.
    pose proof (config_step_sext ck g o p0 c HP Hit) as S1.
    pose proof (config_step_clean ck g o p0 c HP Hit HC) as C1.
    pose proof (config_step_has ck g o p0 c HP Hit) as H1. cbv zeta in H1.
    set (p1 := config_step ck g o p0 c) in *.
    assert (P1 : P p1) by apply SF.
    assert (Hit1 : In (PConfig g o) (p_items p1)) by (destruct S1 as [-> _]; exact Hit).
    specialize (IH p1 Hnd' P1 Hit1 C1). cbv zeta in IH. destruct IH as [PF [SF' [CF HF]]].
    cbv zeta. split; [exact PF|]. split; [eapply sext_trans; eauto|]. split; [exact CF|].
    intros c0 [<-|Hc0] Hf Hm; [|now apply HF].
    destruct (H1 Hf Hm) as [i [Hi Hn]]. exists i. split; [now apply SF'|].
    rewrite (sext_fname p1) by (auto; eapply sub_lt_n; eauto). exact Hn.
Qed.

(** *** one closure, all closures *)
Lemma run_item_cfg r pp p it : pp_cfg (fst (run_item r (pp, p) it)) = pp_cfg pp.
Proof.
  destruct it as [g o|idx|k idx]; cbn; auto.
  unfold full_extract. destruct (pp_fullext pp); reflexivity.
Qed.

Lemma run_item_more r pp p it :
  NoDup (map c_key (r_cfg r)) -> P p -> In it (p_items p) -> Clean (pp_cfg pp) p ->
  let st := run_item r (pp, p) it in
  P (snd st) /\ sext p (snd st) /\ Clean (pp_cfg pp) (snd st) /\ item_has (pp_cfg pp) r it (snd st).
Proof.
  intros Hnd HP Hit HC. cbv zeta.
  destruct (run_item_istep r Hnd (ext_of pp) pp p it HP Hit eq_refl) as [IS _].
  split; [apply IS|].
  destruct it as [g o|idx|k idx]; cbn [run_item fst snd item_has].
  - destruct (config_fold_more (pp_cfg pp) g o (r_cfg r) p Hnd HP Hit HC) as [_ [S [C H]]].
    split; [exact S|]. split; [exact C|]. exact H.
  - destruct (full_extract pp (r_name r)) as [pp' v]. cbn [snd].
    split; [apply sext_same; reflexivity|]. split; [exact HC|exact I].
  - split; [apply sext_same; reflexivity|]. split; [exact HC|exact I].
Qed.

Lemma item_has_sext ck r it p p' : TInv p -> sext p p' -> item_has ck r it p -> item_has ck r it p'.
Proof. destruct it; cbn; auto. apply Has_sext. Qed.

Lemma fold_items_more r items : forall dn pp p,
  NoDup (map c_key (r_cfg r)) -> P p -> (forall it, In it items -> In it (p_items p)) ->
  Clean (pp_cfg pp) p -> (forall it, In it dn -> item_has (pp_cfg pp) r it p) ->
  let st := fold_left (run_item r) items (pp, p) in
  pp_cfg (fst st) = pp_cfg pp /\ P (snd st) /\ sext p (snd st) /\ Clean (pp_cfg pp) (snd st) /\
  forall it, In it (dn ++ items) -> item_has (pp_cfg pp) r it (snd st).
Proof.
  induction items as [|it items IH]; intros dn pp p Hnd HP Hsub HC Hdn; cbn [fold_left].
  - cbv zeta. cbn [fst snd]. rewrite app_nil_r. split; auto. split; auto. split; [apply sext_refl|auto].
  - pose proof (run_item_more r pp p it Hnd HP (Hsub it (or_introl eq_refl)) HC) as M.
    pose proof (run_item_cfg r pp p it) as Hck. cbv zeta in M.
    destruct (run_item r (pp, p) it) as [pp1 p1]. cbn [fst snd] in *.
    destruct M as [P1 [S1 [C1 H1]]].
    assert (T0 : TInv p) by apply HP.
    specialize (IH (dn ++ [it]) pp1 p1 Hnd P1). rewrite Hck in IH.
    assert (Hsub1 : forall it', In it' items -> In it' (p_items p1)).
    { intros it' Hin. destruct S1 as [-> _]. apply Hsub. now right. }
    assert (Hdn1 : forall it', In it' (dn ++ [it]) -> item_has (pp_cfg pp) r it' p1).
    { intros it' Hin. apply in_app_or in Hin as [Hin|[<-|[]]]; auto.
      eapply item_has_sext; eauto. }
    specialize (IH Hsub1 C1 Hdn1). cbv zeta in IH. destruct IH as [I1 [I2 [I3 [I4 I5]]]].
    cbv zeta. split; [exact I1|]. split; [exact I2|]. split; [eapply sext_trans; eauto|].
    split; [exact I4|]. intros it' Hin. apply I5. rewrite <- app_assoc. exact Hin.
Qed.

Lemma P_clear_row p : P p -> P (clear_row p).
Proof.
  intros [K [F T]]. split; [eapply kstep_KInv; [apply kstep_clear_row|auto]|].
  split; [now apply FInv_clear_row|]. eapply TInv_same; [| | |exact T]; reflexivity.
Qed.

Lemma populate_more pp p r :
  NoDup (map c_key (r_cfg r)) -> P p -> Clean (pp_cfg pp) p ->
  let st := populate pp p r in
  pp_cfg (fst st) = pp_cfg pp /\ P (snd st) /\ sext p (snd st) /\ Clean (pp_cfg pp) (snd st) /\
  forall g o, In (PConfig g o) (p_items (snd st)) -> Has (pp_cfg pp) r (snd st) g.
Proof.
  intros Hnd HP HC. unfold populate.
  pose proof (fold_items_more r (p_items p) [] pp (clear_row p) Hnd (P_clear_row p HP)
                (fun it H => H) HC (fun it (H : In it []) => match H with end)) as M.
  cbv zeta in *. destruct M as [M1 [M2 [M3 [M4 M5]]]].
  split; [exact M1|]. split; [exact M2|].
  split; [eapply sext_trans; [|exact M3]; apply sext_same; reflexivity|]. split; [exact M4|].
  intros g o Hin. apply (M5 (PConfig g o)). cbn [app]. destruct M3 as [E _]. rewrite E in Hin. exact Hin.
Qed.

(** *** interning keeps the structure *)
Lemma intern_row_sext p : KInv p -> sext p (fst (intern_row p)).
Proof.
  intros K. pose proof (intern_row_spec p K) as H. pose proof (intern_row_static p) as S.
  destruct (intern_row p) as [p' k]. cbn [fst] in *.
  destruct H as [_ [_ [_ [_ [_ [Ht [Hi [_ Hn]]]]]]]].
  split; [exact Hi|]. split; [now rewrite Ht|]. split; [|lia]. intros i _. apply S.
Qed.

Lemma Clean_sext_same_top ck p p' :
  TInv p -> sext p p' -> p_top p' = p_top p -> Clean ck p -> Clean ck p'.
Proof.
  intros T S Ht C g i Hi. rewrite Ht in Hi.
  rewrite (sext_fname p p') by (auto; unfold nfields; eapply sub_lt; eauto). eauto.
Qed.

Lemma intern_row_clean ck p : P p -> Clean ck p -> Clean ck (fst (intern_row p)).
Proof.
  intros HP C. pose proof (intern_row_sext p (proj1 HP)) as S.
  pose proof (intern_row_spec p (proj1 HP)) as H. destruct (intern_row p) as [p' k]. cbn [fst] in *.
  eapply Clean_sext_same_top; eauto; [apply HP|apply H].
Qed.

Lemma intern_units_more ck u units : forall p,
  P p -> Clean ck p ->
  let p' := fst (intern_units p u units) in P p' /\ sext p p' /\ Clean ck p'.
Proof.
  induction units as [|un units IH]; intros p HP HC; cbn [intern_units].
  - cbn. split; auto. split; auto. apply sext_refl.
  - pose proof (P_set_row p u un HP) as P0.
    assert (C0 : Clean ck (set_row p u un)) by exact HC.
    pose proof (P_intern_row _ P0) as P1. pose proof (intern_row_sext _ (proj1 P0)) as S1.
    pose proof (intern_row_clean ck _ P0 C0) as C1.
    destruct (intern_row (set_row p u un)) as [p1 k]. cbn [fst] in *.
    specialize (IH p1 P1 C1). cbv zeta in IH. destruct (intern_units p1 u units) as [p2 ks]. cbn [fst] in *.
    destruct IH as [I1 [I2 I3]]. split; [exact I1|]. split; [|exact I3].
    eapply sext_trans; [|exact I2]. eapply sext_trans; [|exact S1]. apply sext_same; reflexivity.
Qed.

(** *** Project / ProjectValues *)
Theorem project_more pp p r :
  NoDup (map c_key (r_cfg r)) -> P p -> Clean (pp_cfg pp) p ->
  let '(pp', p', k) := project pp p r in
  pp_cfg pp' = pp_cfg pp /\ sext p p' /\ Clean (pp_cfg pp) p' /\
  forall g o, In (PConfig g o) (p_items p') -> Has (pp_cfg pp) r p' g.
Proof.
  intros Hnd HP HC. unfold project.
  pose proof (populate_more pp p r Hnd HP HC) as M. cbv zeta in M.
  destruct (populate pp p r) as [pp1 p1]. cbn [fst snd] in M. destruct M as [M1 [M2 [M3 [M4 M5]]]].
  pose proof (intern_row_sext p1 (proj1 M2)) as S. pose proof (intern_row_clean _ p1 M2 M4) as C.
  destruct (intern_row p1) as [p2 k]. cbn [fst] in *.
  split; [exact M1|]. split; [eapply sext_trans; eauto|]. split; [exact C|].
  intros g o Hin. eapply Has_sext; [apply M2|exact S|]. apply (M5 g o).
  destruct S as [E _]. now rewrite <- E.
Qed.

Theorem project_values_more pp p r :
  NoDup (map c_key (r_cfg r)) -> P p -> Clean (pp_cfg pp) p ->
  let '(pp', p', ks) := project_values pp p r in
  pp_cfg pp' = pp_cfg pp /\ ext_of pp' = ext_of pp /\ sext p p' /\ Clean (pp_cfg pp) p'.
Proof.
  intros Hnd HP HC. unfold project_values.
  pose proof (populate_more pp p r Hnd HP HC) as M. cbv zeta in M.
  destruct (populate_spec r Hnd (ext_of pp) pp p HP eq_refl) as [_ [E1 _]].
  destruct (populate pp p r) as [pp1 p1]. cbn [fst snd] in *. destruct M as [M1 [M2 [M3 [M4 _]]]].
  destruct (p_unit p1) as [u|].
  - pose proof (intern_units_more (pp_cfg pp) u (r_units r) p1 M2 M4) as H. cbv zeta in H.
    destruct (intern_units p1 u (r_units r)) as [p2 ks]. cbn [fst] in H. destruct H as [_ [S C]].
    split; [exact M1|]. split; [exact E1|]. split; [eapply sext_trans; eauto|exact C].
  - pose proof (intern_row_sext p1 (proj1 M2)) as S. pose proof (intern_row_clean _ p1 M2 M4) as C.
    destruct (intern_row p1) as [p2 k]. cbn [fst] in *.
    split; [exact M1|]. split; [exact E1|]. split; [eapply sext_trans; eauto|exact C].
Qed.

(** ** Part 2: the parse phase *)

(** the specific keys a projection has a field for *)
Definition HasKey (p : projection) (k : bytes) : Prop :=
  exists idx f, nth_error (p_fields p) idx = Some f /\ fi_src f = SKey k.
Definition HasFull (p : projection) : Prop :=
  exists idx f, nth_error (p_fields p) idx = Some f /\ fi_src f = SFull.
Definition HasCfg (p : projection) : Prop := exists g o, In (PConfig g o) (p_items p).
Definition NoSubs (p : projection) : Prop := forall g, gsubs (p_top p) g = [].

Definition skeys (p : projection) : list bytes :=
  flat_map (fun f => match fi_src f with SKey k => [k] | _ => [] end) (p_fields p).

Lemma skeys_HasKey p k : In k (skeys p) <-> HasKey p k.
Proof.
  unfold skeys, HasKey. rewrite in_flat_map. split.
  - intros [f [Hf Hk]]. apply In_nth_error in Hf as [idx Hidx]. exists idx, f. split; auto.
    destruct (fi_src f); try contradiction. destruct Hk as [->|[]]. reflexivity.
  - intros [idx [f [Hf Hs]]]. exists f. split; [eapply nth_error_In; eauto|]. rewrite Hs. now left.
Qed.

(** the specific keys the parser records *)
Definition pkeys (pp : parser) (k : bytes) : Prop := In k (pp_cfg pp) \/ In k (pp_full pp).

Definition spec_keys (s : pspec) : list bytes :=
  match order_of_spec s with
  | None => []
  | Some _ =>
      if beq (ps_key s) key_config || beq (ps_key s) key_fullname || beq (ps_key s) key_unit
      then [] else [ps_key s]
  end.

Lemma mp_parser_keys pp s :
  (forall k, pkeys (mp_parser pp s) k <-> pkeys pp k \/ In k (spec_keys s)) /\
  ((forall k, In k (pp_cfg pp) -> plain_key k) -> forall k, In k (pp_cfg (mp_parser pp s)) -> plain_key k) /\
  (pp_havecfg (mp_parser pp s) = true -> pp_havecfg pp = true \/ beq (ps_key s) key_config = true) /\
  (pp_havefull (mp_parser pp s) = true -> pp_havefull pp = true \/ beq (ps_key s) key_fullname = true) /\
  pp_fullext (mp_parser pp s) = pp_fullext pp.
Proof.
  unfold mp_parser, spec_keys, pkeys.
  destruct (order_of_spec s) as [o|]; [|cbn; intuition].
  destruct (beq (ps_key s) key_config) eqn:E1.
  { destruct (is_fixed o); cbn; intuition. }
  destruct (beq_spec (ps_key s) key_fullname) as [E2|E2]; [cbn; intuition|].
  destruct (beq (ps_key s) key_unit) eqn:E3; [cbn; intuition|].
  cbn [orb]. unfold is_fullname_key.
  destruct (beq_spec (ps_key s) key_name) as [E4|E4]; cbn [orb].
  { cbn. split; [|intuition]. intros k. rewrite in_app_iff. cbn. intuition. }
  destruct (is_subname_key (ps_key s)) eqn:E5.
  { cbn. split; [|intuition]. intros k. rewrite in_app_iff. cbn. intuition. }
  cbn. split; [intros k; intuition|]. split; [|intuition].
  intros H k [<-|Hk]; auto. repeat split; auto.
Qed.

Lemma skeys_snoc p f : flat_map (fun f => match fi_src f with SKey k => [k] | _ => [] end) (p_fields p ++ [f])
  = skeys p ++ match fi_src f with SKey k => [k] | _ => [] end.
Proof. unfold skeys. rewrite flat_map_app. cbn. now rewrite app_nil_r. Qed.

Lemma HasFull_app p p' ext : p_fields p' = p_fields p ++ ext -> HasFull p -> HasFull p'.
Proof. intros E [idx [f [Hf Hs]]]. exists idx, f. rewrite E. split; auto using nth_error_app_old. Qed.

Lemma mp_proj_keys p s p' :
  mp_proj p s = Some p' ->
  skeys p' = skeys p ++ spec_keys s /\ (NoSubs p -> NoSubs p') /\
  (HasCfg p -> HasCfg p') /\ (HasFull p -> HasFull p') /\
  (beq (ps_key s) key_config = true -> HasCfg p') /\
  (beq (ps_key s) key_fullname = true -> HasFull p').
Proof.
  unfold mp_proj, spec_keys. destruct (order_of_spec s) as [o|]; [|discriminate].
  destruct (beq (ps_key s) key_config) eqn:E1.
  { destruct (is_fixed o); [discriminate|]. cbn. intros [= <-]. cbn.
    split; [unfold skeys; cbn; now rewrite app_nil_r|].
    split; [intros N g; cbn; rewrite gsubs_app_group; apply N|].
    split; [intros [g [o' H]]; exists g, o'; cbn; apply in_or_app; auto|].
    split; [intros [i [f [H1 H2]]]; exists i, f; auto|].
    split; [intros _; exists (length (p_top p)), o; cbn; apply in_or_app; right; now left|].
    intros H. apply beq_eq in E1. rewrite E1 in H. vm_compute in H. discriminate H. }
  destruct (beq (ps_key s) key_fullname) eqn:E2.
  { cbn. intros [= <-]. cbn.
    split; [unfold skeys at 1; cbn [p_fields]; rewrite skeys_snoc; reflexivity|].
    split; [intros N g; cbn; rewrite gsubs_app_leaf; apply N|].
    split; [intros [g [o' H]]; exists g, o'; cbn; apply in_or_app; auto|].
    split; [apply (HasFull_app p _ [mkF key_fullname o [] SFull]); reflexivity|].
    split; [discriminate|]. intros _. exists (nfields p), (mkF key_fullname o [] SFull). cbn. split; auto.
    unfold nfields. rewrite nth_error_app2 by lia. now rewrite Nat.sub_diag. }
  destruct (beq (ps_key s) key_unit) eqn:E3; [discriminate|].
  destruct (is_nil (ps_key s)); [discriminate|].
  cbn. intros [= <-]. cbn.
  split; [unfold skeys at 1; cbn [p_fields]; rewrite skeys_snoc; reflexivity|].
  split; [intros N g; cbn; rewrite gsubs_app_leaf; apply N|].
  split; [intros [g [o' H]]; exists g, o'; cbn; apply in_or_app; auto|].
  split; [apply (HasFull_app p _ [mkF (ps_key s) o [] (SKey (ps_key s))]); reflexivity|].
  split; discriminate.
Qed.

Lemma make_all_keys fs : forall pp p pp' p',
  make_all pp p fs = (pp', Some p') ->
  skeys p' = skeys p ++ flat_map spec_keys fs /\
  (forall k, pkeys pp' k <-> pkeys pp k \/ In k (flat_map spec_keys fs)) /\
  ((forall k, In k (pp_cfg pp) -> plain_key k) -> forall k, In k (pp_cfg pp') -> plain_key k) /\
  (NoSubs p -> NoSubs p') /\ (HasCfg p -> HasCfg p') /\ (HasFull p -> HasFull p') /\
  (pp_havecfg pp' = true -> pp_havecfg pp = true \/ HasCfg p') /\
  (pp_havefull pp' = true -> pp_havefull pp = true \/ HasFull p') /\
  pp_fullext pp' = pp_fullext pp.
Proof.
  induction fs as [|s fs IH]; intros pp p pp' p'; cbn [make_all].
  - intros [= <- <-]. cbn. rewrite app_nil_r. intuition.
  - unfold make_projection. destruct (mp_proj p s) as [p1|] eqn:E; [|discriminate]. intros H.
    destruct (IH _ _ _ _ H) as [I1 [I2 [I3 [I4 [I5 [I6 [I7 [I8 I9]]]]]]]].
    destruct (mp_proj_keys p s p1 E) as [J1 [J2 [J3 [J4 [J5 J6]]]]].
    destruct (mp_parser_keys pp s) as [K1 [K2 [K3 [K4 K5]]]].
    split; [rewrite I1, J1; cbn; now rewrite app_assoc|].
    split; [intros k; rewrite I2, K1; cbn; rewrite in_app_iff; tauto|].
    split; [auto|]. split; [auto|]. split; [auto|]. split; [auto|].
    split; [intros Hc; destruct (I7 Hc) as [Hc1|]; auto; destruct (K3 Hc1); auto|].
    split; [intros Hc; destruct (I8 Hc) as [Hc1|]; auto; destruct (K4 Hc1); auto|].
    congruence.
Qed.

(** a Parse / ParseWithUnit call all of whose fields are accepted *)
Definition call_ok (c : call) : Prop := forallb spec_ok (snd c) = true.

Lemma make_all_ok fs : forall pp p,
  forallb spec_ok fs = true -> exists pp' p', make_all pp p fs = (pp', Some p').
Proof.
  induction fs as [|s fs IH]; intros pp p; cbn [make_all forallb]; [eauto|].
  intros H. apply andb_prop in H as [H1 H2]. apply (mp_proj_ok p) in H1 as [p1 Hp1].
  unfold make_projection. rewrite Hp1. auto.
Qed.

Lemma do_call_keys pp c :
  call_ok c ->
  exists pp' p', do_call pp c = (pp', Some p') /\ P p' /\
  (forall k, HasKey p' k <-> In k (flat_map spec_keys (snd c))) /\
  (forall k, pkeys pp' k <-> pkeys pp k \/ In k (flat_map spec_keys (snd c))) /\
  ((forall k, In k (pp_cfg pp) -> plain_key k) -> forall k, In k (pp_cfg pp') -> plain_key k) /\
  NoSubs p' /\
  (pp_havecfg pp' = true -> pp_havecfg pp = true \/ HasCfg p') /\
  (pp_havefull pp' = true -> pp_havefull pp = true \/ HasFull p') /\
  pp_fullext pp' = pp_fullext pp.
Proof.
  intros Hok. destruct c as [wu fs]. unfold call_ok in Hok. cbn [snd] in *.
  destruct (make_all_ok fs pp new_projection Hok) as [pp' [p' Hm]].
  destruct (make_all_keys fs _ _ _ _ Hm) as [I1 [I2 [I3 [I4 [I5 [I6 [I7 [I8 I9]]]]]]]].
  assert (N0 : NoSubs new_projection) by (intros g; destruct g; reflexivity).
  unfold do_call. cbn [fst snd]. destruct wu.
  - unfold parse_with_unit, parse. rewrite Hm. cbn.
    eexists _, _. split; [reflexivity|].
    split.
    { split; [|split].
      - eapply KInv_parse_with_unit. unfold parse_with_unit, parse. rewrite Hm. reflexivity.
      - eapply FInv_parse_with_unit. unfold parse_with_unit, parse. rewrite Hm. reflexivity.
      - eapply TInv_parse_with_unit. unfold parse_with_unit, parse. rewrite Hm. reflexivity. }
    split.
    { intros k. rewrite <- skeys_HasKey. unfold skeys at 1. cbn [p_fields set_unit]. rewrite skeys_snoc. cbn.
      rewrite app_nil_r, I1. cbn. tauto. }
    split; [exact I2|]. split; [exact I3|].
    split; [intros g; cbn; rewrite gsubs_app_leaf; now apply I4|].
    split; [intros Hc; destruct (I7 Hc) as [|[g [o Hg]]]; auto; right; exists g, o; exact Hg|].
    split; [|exact I9].
    intros Hc; destruct (I8 Hc) as [|Hf]; auto. right.
    eapply (HasFull_app p' _ [mkF key_unit OFirst [] SUnit]); [reflexivity|exact Hf].
  - unfold parse. exists pp', p'. split; [exact Hm|].
    split.
    { split; [|split]; [eapply KInv_parse|eapply FInv_parse|eapply TInv_parse]; exact Hm. }
    split; [intros k; rewrite <- skeys_HasKey, I1; cbn; tauto|].
    split; [exact I2|]. split; [exact I3|]. split; [now apply I4|]. split; [exact I7|]. split; [exact I8|exact I9].
Qed.

(** *** the world after the Parse calls *)
Definition parse_ops (calls : list call) : list op := map (fun c => OpParse (fst c) (snd c)) calls.

Lemma run_ops_app a : forall w b,
  run_ops w (a ++ b) =
  let '(w1, x1) := run_ops w a in let '(w2, x2) := run_ops w1 b in (w2, x1 ++ x2).
Proof.
  induction a as [|o a IH]; intros w b; cbn [app run_ops].
  - destruct (run_ops w b). reflexivity.
  - destruct (step w o) as [w1 x]. rewrite IH.
    destruct (run_ops w1 a) as [w2 xs]. destruct (run_ops w2 b) as [w3 ys]. reflexivity.
Qed.

Record PhaseInv (w : world) : Prop := mkPh {
  ph_P : Forall P (w_projs w);
  ph_keys : forall k, pkeys (w_pp w) k <-> exists p, In p (w_projs w) /\ HasKey p k;
  ph_plain : forall k, In k (pp_cfg (w_pp w)) -> plain_key k;
  ph_nosubs : forall p, In p (w_projs w) -> NoSubs p;
  ph_cfg : pp_havecfg (w_pp w) = true -> exists p, In p (w_projs w) /\ HasCfg p;
  ph_full : pp_havefull (w_pp w) = true -> exists p, In p (w_projs w) /\ HasFull p;
  ph_ext : pp_fullext (w_pp w) = None
}.

Lemma PhaseInv_new : PhaseInv new_world.
Proof.
  constructor; cbn; try discriminate; auto.
  - intros k. unfold pkeys. cbn. split; [tauto|]. intros [p [[] _]].
  - tauto.
  - tauto.
Qed.

Lemma parse_phase calls : forall w,
  Forall call_ok calls -> PhaseInv w ->
  let '(w', xs) := run_ops w (parse_ops calls) in
  PhaseInv w' /\ length (w_projs w') = length (w_projs w) + length calls /\
  w_pp w' = fold_left (fun pp c => fst (do_call pp c)) calls (w_pp w).
Proof.
  induction calls as [|c calls IH]; intros w Hok HI; cbn [parse_ops map run_ops].
  - split; auto.
  - inversion Hok as [|? ? Hc Hcs]; subst.
    destruct (do_call_keys (w_pp w) c Hc) as [pp' [p' [Hd [HP [Hk [Hpk [Hpl [Hns [Hhc [Hhf Hfe]]]]]]]]]].
    cbn [step]. fold (do_call (w_pp w) c) in *.
    change ((if fst c then parse_with_unit else parse) (w_pp w) (snd c)) with (do_call (w_pp w) c).
    rewrite Hd.
    set (w1 := mkW pp' (w_projs w ++ [p'])).
    assert (HI1 : PhaseInv w1).
    { destruct HI as [A1 A2 A3 A4 A5 A6 A7]. constructor; cbn [w1 w_pp w_projs].
      - apply Forall_app. split; auto.
      - intros k. rewrite Hpk, A2. split.
        + intros [[p [Hp Hkp]]|Hin].
          * exists p. split; auto. apply in_or_app. auto.
          * exists p'. split; [apply in_or_app; right; now left|]. now apply Hk.
        + intros [p [Hp Hkp]]. apply in_app_or in Hp as [Hp|[<-|[]]]; [left; eauto|right; now apply Hk].
      - auto.
      - intros p Hp. apply in_app_or in Hp as [Hp|[<-|[]]]; auto.
      - intros Hc'. destruct (Hhc Hc') as [H|H].
        + destruct (A5 H) as [p [Hp Hg]]. exists p. split; auto. apply in_or_app. auto.
        + exists p'. split; auto. apply in_or_app. right. now left.
      - intros Hc'. destruct (Hhf Hc') as [H|H].
        + destruct (A6 H) as [p [Hp Hg]]. exists p. split; auto. apply in_or_app. auto.
        + exists p'. split; auto. apply in_or_app. right. now left.
      - congruence. }
    specialize (IH w1 Hcs HI1). fold (parse_ops calls) in *.
    destruct (run_ops w1 (parse_ops calls)) as [w2 xs]. destruct IH as [I1 [I2 I3]].
    split; [exact I1|]. split.
    + rewrite I2. unfold w1. cbn. rewrite app_length. cbn. lia.
    + rewrite I3. cbn. now rewrite Hd.
Qed.

(** ** Part 3: after parsing *)

(** *** Residue *)
Lemma residue_add_config pp p :
  residue_add (pp, p) key_config =
  (pp_set_havecfg pp, add_item (fst (add_group p key_config)) (PConfig (length (p_top p)) OFirst)).
Proof. reflexivity. Qed.

Lemma residue_add_fullname pp p :
  residue_add (pp, p) key_fullname =
  (pp_set_havefull pp, add_item (fst (add_top_field p key_fullname OFirst SFull)) (PFull (nfields p))).
Proof. reflexivity. Qed.

Lemma residue_facts pp :
  let '(pp', p) := residue pp in
  pp_cfg pp' = pp_cfg pp /\ pp_full pp' = pp_full pp /\ pp_fullext pp' = pp_fullext pp /\
  NoSubs p /\ (forall k, ~ HasKey p k) /\
  (pp_havecfg pp = false -> HasCfg p) /\ (pp_havefull pp = false -> HasFull p).
Proof.
  assert (T : forall A B C D E F G : Prop, A -> B -> C -> D -> E -> F -> G ->
                A /\ B /\ C /\ D /\ E /\ F /\ G) by tauto.
  unfold residue. destruct (pp_havecfg pp) eqn:Hc.
  - cbn [fst]. destruct (pp_havefull pp) eqn:Hf.
    + apply T; auto; try discriminate.
      * intros g. destruct g; reflexivity.
      * intros k [idx [f [H _]]]. destruct idx; discriminate.
    + rewrite residue_add_fullname. apply T; auto; try discriminate.
      * intros g. destruct g as [|[|g]]; reflexivity.
      * intros k [idx [f [H Hs]]]. destruct idx as [|[|idx]]; cbn in H; try discriminate.
        injection H as <-. discriminate.
      * intros _. exists 0, (mkF key_fullname OFirst [] SFull). auto.
  - rewrite residue_add_config. cbn [fst pp_set_havecfg pp_havefull]. destruct (pp_havefull pp) eqn:Hf.
    + apply T; auto; try discriminate.
      * intros g. destruct g as [|[|g]]; reflexivity.
      * intros k [idx [f [H _]]]. destruct idx; discriminate.
      * intros _. exists 0, OFirst. now left.
    + rewrite residue_add_fullname. apply T; auto.
      * intros g. destruct g as [|[|[|g]]]; reflexivity.
      * intros k [idx [f [H Hs]]]. destruct idx as [|[|idx]]; cbn in H; try discriminate.
        injection H as <-. discriminate.
      * intros _. exists 0, OFirst. now left.
      * intros _. exists 0, (mkF key_fullname OFirst [] SFull). auto.
Qed.

Lemma NoSubs_Clean ck p : NoSubs p -> Clean ck p.
Proof. intros N g i Hi. rewrite N in Hi. destruct Hi. Qed.

(** *** the invariant of the phase after parsing *)
Record PostInv (C E : list bytes) (w : world) : Prop := mkPo {
  po_P : Forall P (w_projs w);
  po_cfg : pp_cfg (w_pp w) = C;
  po_ext : ext_of (w_pp w) = E;
  po_clean : forall p, In p (w_projs w) -> Clean C p;
  po_keyed : forall p k, In p (w_projs w) -> HasKey p k -> In k C \/ In k E
}.

Definition wsext (w w' : world) : Prop :=
  forall pi p, nth_error (w_projs w) pi = Some p ->
    exists p', nth_error (w_projs w') pi = Some p' /\ sext p p'.

Lemma wsext_refl w : wsext w w.
Proof. intros pi p H. exists p. split; auto. apply sext_refl. Qed.

Lemma wsext_trans a b c : wsext a b -> wsext b c -> wsext a c.
Proof.
  intros H1 H2 pi p Hp. destruct (H1 _ _ Hp) as [p1 [Hp1 E1]].
  destruct (H2 _ _ Hp1) as [p2 [Hp2 E2]]. exists p2. split; auto. eapply sext_trans; eauto.
Qed.

Lemma wsext_set_nth pp pp' projs pi p p' :
  nth_error projs pi = Some p -> sext p p' ->
  wsext (mkW pp projs) (mkW pp' (set_nth pi p' projs)).
Proof.
  intros Hp E qi q Hq; cbn in *. destruct (Nat.eq_dec pi qi) as [<-|Hne].
  - exists p'. split; [eapply nth_error_set_nth_same; eauto|]. congruence.
  - exists q. split; [now rewrite nth_error_set_nth_other|apply sext_refl].
Qed.

Lemma wsext_app pp pp' projs l : wsext (mkW pp projs) (mkW pp' (projs ++ l)).
Proof.
  intros pi p Hp; cbn in *. exists p. split; [|apply sext_refl].
  rewrite nth_error_app1; auto. apply nth_error_Some. congruence.
Qed.

Lemma In_set_nth {A} n (v : A) l x : In x (set_nth n v l) -> x = v \/ In x l.
Proof.
  revert n; induction l as [|y l IH]; intros [|n]; cbn; auto.
  - intros [<-|H]; auto.
  - intros [<-|H]; auto. destruct (IH n H); auto.
Qed.

Lemma HasKey_sext_back p p' k : TInv p -> TInv p' -> sext p p' -> HasKey p' k -> HasKey p k.
Proof.
  intros T T' S [idx [f [Hf Hs]]]. pose proof (cv_key p' T' idx f k Hf Hs) as Hin.
  destruct S as [E _]. rewrite E in Hin. destruct (t_key p T k idx Hin) as [f0 [H0 H1]].
  exists idx, f0. auto.
Qed.

Lemma HasKey_sext p p' k : sext p p' -> HasKey p k -> HasKey p' k.
Proof.
  intros S [idx [f [Hf Hs]]]. destruct (sext_field p p' idx f S Hf) as [f' [Hf' [_ Hs']]].
  exists idx, f'. split; congruence.
Qed.

Lemma HasFull_sext p p' : sext p p' -> HasFull p -> HasFull p'.
Proof.
  intros S [idx [f [Hf Hs]]]. destruct (sext_field p p' idx f S Hf) as [f' [Hf' [_ Hs']]].
  exists idx, f'. split; congruence.
Qed.

Lemma HasCfg_sext p p' : sext p p' -> HasCfg p -> HasCfg p'.
Proof. intros [E _] [g [o H]]. exists g, o. now rewrite E. Qed.

(** *** Project: everything known about the returned Key *)
Lemma project_facts C E pp p r :
  NoDup (map c_key (r_cfg r)) -> P p -> Clean C p -> pp_cfg pp = C -> ext_of pp = E ->
  let '(pp', p', k) := project pp p r in
  P p' /\ pp_cfg pp' = C /\ ext_of pp' = E /\ sext p p' /\ pext p p' /\ Clean C p' /\
  k < length (p_keys p') /\
  (forall idx f, nth_error (p_fields p') idx = Some f -> key_get p' k idx = want E r f) /\
  (forall g o, In (PConfig g o) (p_items p') -> Has C r p' g).
Proof.
  intros Hnd HP HC <- <-.
  pose proof (key_get_extracted pp p r HP Hnd) as H1.
  pose proof (project_more pp p r Hnd HP HC) as H2.
  pose proof (project_spec pp p r (proj1 HP)) as H3.
  destruct (project pp p r) as [[pp' p'] k].
  destruct H1 as [A1 [A2 A3]]. destruct H2 as [B1 [B2 [B3 B4]]]. destruct H3 as [_ [D2 D3]].
  split; [exact A1|]. split; [exact B1|]. split; [exact A2|]. split; [exact B2|]. split; [exact D2|].
  split; [exact B3|]. split; [exact D3|]. split; [exact A3|exact B4].
Qed.

Lemma post_step C E w o :
  no_parse o -> op_wf o -> PostInv C E w ->
  PostInv C E (fst (step w o)) /\ wsext w (fst (step w o)).
Proof.
  intros Hnp Hwf [I1 I2 I3 I4 I5]. destruct w as [pp projs]. cbn [w_pp w_projs] in *.
  destruct o as [wu fs| |pi r|pi r]; [contradiction| | |]; cbn [step w_pp w_projs].
  - (* Residue *)
    pose proof (residue_facts pp) as R. pose proof (KInv_residue pp) as K1.
    pose proof (FInv_residue pp) as F1. pose proof (TInv_residue pp) as T1.
    destruct (residue pp) as [pp' p]. cbn [fst snd] in *.
    destruct R as [R1 [R2 [R3 [R4 [R5 _]]]]].
    split; [|apply wsext_app]. constructor; cbn [w_pp w_projs].
    + apply Forall_app. split; auto. constructor; auto. split; auto.
    + congruence.
    + unfold ext_of in *. rewrite R3, R2. exact I3.
    + intros q Hq. apply in_app_or in Hq as [Hq|[<-|[]]]; auto. now apply NoSubs_Clean.
    + intros q k Hq Hk. apply in_app_or in Hq as [Hq|[<-|[]]]; eauto. exfalso. eapply R5; eauto.
  - (* Project *)
    destruct (nth_error projs pi) as [p|] eqn:Ep; cbn [fst].
    2:{ split; [constructor; auto|apply wsext_refl]. }
    assert (Hin : In p projs) by (eapply nth_error_In; eauto).
    assert (HP : P p) by (rewrite Forall_forall in I1; auto).
    pose proof (project_facts C E pp p r Hwf HP (I4 p Hin) I2 I3) as F.
    destruct (project pp p r) as [[pp' p'] k]. cbn [fst].
    destruct F as [F1 [F2 [F3 [F4 [F5 [F6 _]]]]]].
    split; [|eapply wsext_set_nth; eauto]. constructor; cbn [w_pp w_projs]; auto.
    + apply Forall_set_nth; auto.
    + intros q Hq. apply In_set_nth in Hq as [->|Hq]; auto.
    + intros q k0 Hq Hk. apply In_set_nth in Hq as [->|Hq]; eauto.
      apply (I5 p k0 Hin). eapply HasKey_sext_back; eauto; [apply HP|apply F1].
  - (* ProjectValues *)
    destruct (nth_error projs pi) as [p|] eqn:Ep; cbn [fst].
    2:{ split; [constructor; auto|apply wsext_refl]. }
    assert (Hin : In p projs) by (eapply nth_error_In; eauto).
    assert (HP : P p) by (rewrite Forall_forall in I1; auto).
    pose proof (P_project_values pp p r Hwf HP) as F0.
    pose proof (I4 p Hin) as HC. rewrite <- I2 in HC.
    pose proof (project_values_more pp p r Hwf HP HC) as F.
    destruct (project_values pp p r) as [[pp' p'] ks]. cbn [fst].
    destruct F as [F2 [F3 [F4 F6]]].
    split; [|eapply wsext_set_nth; eauto]. constructor; cbn [w_pp w_projs]; auto.
    + apply Forall_set_nth; auto.
    + congruence.
    + congruence.
    + intros q Hq. apply In_set_nth in Hq as [->|Hq]; auto. now rewrite <- I2.
    + intros q k0 Hq Hk. apply In_set_nth in Hq as [->|Hq]; eauto.
      apply (I5 p k0 Hin). eapply HasKey_sext_back; eauto; [apply HP|apply F0].
Qed.

Lemma PostInv_WInv C E w : PostInv C E w -> WInv w.
Proof. intros [I1 _ _ _ _]. unfold WInv. eapply Forall_impl; [|exact I1]. intros p HP. apply HP. Qed.

Lemma post_run C E ops : forall w,
  Forall no_parse ops -> Forall op_wf ops -> PostInv C E w ->
  PostInv C E (fst (run_ops w ops)) /\ wsext w (fst (run_ops w ops)) /\ wext w (fst (run_ops w ops)).
Proof.
  induction ops as [|o ops IH]; intros w Hnp Hwf HI; cbn [run_ops].
  - cbn. split; auto. split; [apply wsext_refl|apply wext_refl].
  - inversion Hnp as [|? ? Hn1 Hn2]; subst. inversion Hwf as [|? ? Hw1 Hw2]; subst.
    destruct (post_step C E w o Hn1 Hw1 HI) as [I1 S1].
    pose proof (step_spec w o (PostInv_WInv _ _ _ HI)) as SS.
    destruct (step w o) as [w1 x]. cbn [fst] in *. destruct SS as [_ [X1 _]].
    destruct (IH w1 Hn2 Hw2 I1) as [I2 [S2 X2]].
    destruct (run_ops w1 ops) as [w2 xs]. cbn [fst] in *.
    split; [exact I2|]. split; [eapply wsext_trans; eauto|eapply wext_trans; eauto].
Qed.

(** *** a Key against a later field set *)
Lemma nodup_map_inj {A B} (f : A -> B) l a b :
  NoDup (map f l) -> In a l -> In b l -> f a = f b -> a = b.
Proof.
  induction l as [|x l IH]; cbn; [tauto|]. intros Hnd Ha Hb He. inversion Hnd as [|? ? H1 H2]; subst.
  destruct Ha as [->|Ha], Hb as [->|Hb]; auto.
  - exfalso. apply H1. rewrite He. now apply in_map.
  - exfalso. apply H1. rewrite <- He. now apply in_map.
Qed.

Lemma want_static E r f f' : fi_name f' = fi_name f -> fi_src f' = fi_src f -> want E r f' = want E r f.
Proof. intros Hn Hs. unfold want. now rewrite Hn, Hs. Qed.

Lemma key_later C E r p p' k :
  P p -> P p' -> sext p p' -> pext p p' -> Clean C p' ->
  k < length (p_keys p) ->
  (forall idx f, nth_error (p_fields p) idx = Some f -> key_get p k idx = want E r f) ->
  (forall g o, In (PConfig g o) (p_items p) -> Has C r p g) ->
  (forall idx f, nth_error (p_fields p') idx = Some f -> key_get p' k idx = want E r f) /\
  (forall g o, In (PConfig g o) (p_items p') -> Has C r p' g).
Proof.
  intros HP HP' S X HC Hk Hget Hhas.
  assert (T : TInv p) by apply HP. assert (T' : TInv p') by apply HP'.
  assert (Hitems : p_items p' = p_items p) by apply S.
  split.
  2:{ intros g o Hin. apply (Has_sext C r p p' g T S). apply (Hhas g o). now rewrite <- Hitems. }
  assert (Hv : key_vals p' k = key_vals p k).
  { destruct X as [[ext He] _]. unfold key_vals. rewrite He, app_nth1; auto. }
  intros idx f' Hf'. unfold key_get. rewrite Hv. fold (key_get p k idx).
  destruct (Nat.lt_ge_cases idx (nfields p)) as [Hlt|Hge].
  - destruct (sext_field_back p p' idx f' S Hlt Hf') as [f [Hf [Hn Hs]]].
    rewrite (Hget idx f Hf). symmetry. now apply want_static.
  - assert (Hlen : length (key_vals p k) <= nfields p).
    { destruct HP as [[_ [K2 _]] _]. rewrite Forall_forall in K2.
      apply (K2 (key_vals p k)). unfold key_vals. now apply nth_In. }
    unfold key_get, vals_get. rewrite nth_overflow by lia. symmetry.
    assert (Hno : forall f0, nth_error (p_fields p) idx = Some f0 -> False).
    { intros f0 H0. apply nth_lt in H0. unfold nfields in Hge. lia. }
    unfold want. destruct (fi_src f') as [k0| | |] eqn:Es; auto.
    + exfalso. pose proof (cv_key p' T' idx f' k0 Hf' Es) as Hin. rewrite Hitems in Hin.
      destruct (t_key p T k0 idx Hin) as [f0 [H0 _]]. eauto.
    + exfalso. pose proof (cv_full p' T' idx f' Hf' Es) as Hin. rewrite Hitems in Hin.
      destruct (t_full p T idx Hin) as [f0 [H0 _]]. eauto.
    + destruct (cv_cfg p' T' idx f' Hf' Es) as [g [o [Hi Hit]]].
      assert (Hnm : fname (p_fields p') idx = fi_name f') by (unfold fname; now rewrite Hf').
      unfold cfg_file_val. destruct (cfg_lookup (r_cfg r) (fi_name f')) as [x|] eqn:El; auto.
      destruct (c_file x) eqn:Efx; auto. exfalso.
      destruct (cfg_lookup_some _ _ _ El) as [Hx Hkx].
      pose proof (HC g idx Hi) as Hm. rewrite Hnm, <- Hkx in Hm.
      rewrite Hitems in Hit. destruct (Hhas g o Hit x Hx Efx Hm) as [i [Hig Hin]].
      assert (i < nfields p) as Hilt by (unfold nfields; eapply sub_lt; eauto).
      assert (i = idx).
      { apply (nodup_map_inj (fname (p_fields p')) (gsubs (p_top p') g)); auto.
        - apply (t_names p' T').
        - now apply S.
        - rewrite (sext_fname p p') by auto. congruence. }
      lia.
Qed.

(** the Key handed out for [r] at any point of a stream (after parsing), read
    against the FINAL field set: every field holds what its extractor yields on
    [r], and every non-excluded file key of [r] has a sub-field in every .config
    group *)
Lemma key_final C E ops : forall w i pi r k,
  Forall no_parse ops -> Forall op_wf ops -> PostInv C E w ->
  nth_error ops i = Some (OpProject pi r) ->
  nth_error (snd (run_ops w ops)) i = Some (OutKeys [k]) ->
  exists pF, nth_error (w_projs (fst (run_ops w ops))) pi = Some pF /\ P pF /\ Clean C pF /\
    k < length (p_keys pF) /\
    (forall idx f, nth_error (p_fields pF) idx = Some f -> key_get pF k idx = want E r f) /\
    (forall g o, In (PConfig g o) (p_items pF) -> Has C r pF g).
Proof.
  induction ops as [|o ops IH]; intros w i pi r k Hnp Hwf HI Ho Hx; [destruct i; discriminate|].
  inversion Hnp as [|? ? Hn1 Hn2]; subst. inversion Hwf as [|? ? Hw1 Hw2]; subst.
  destruct (post_step C E w o Hn1 Hw1 HI) as [I1 _].
  cbn [run_ops] in *. destruct i as [|i].
  - cbn in Ho. injection Ho as ->. cbn [op_wf] in Hw1.
    destruct HI as [J1 J2 J3 J4 J5]. destruct w as [pp projs]. cbn [w_pp w_projs step] in *.
    destruct (nth_error projs pi) as [p|] eqn:Ep.
    2:{ destruct (run_ops (mkW pp projs) ops); cbn in Hx. discriminate. }
    assert (Hin : In p projs) by (eapply nth_error_In; eauto).
    assert (HP : P p) by (rewrite Forall_forall in J1; auto).
    pose proof (project_facts C E pp p r Hw1 HP (J4 p Hin) J2 J3) as F.
    destruct (project pp p r) as [[pp' p'] k0]. cbn [fst] in I1.
    set (w1 := mkW pp' (set_nth pi p' projs)) in *.
    destruct (post_run C E ops w1 Hn2 Hw2 I1) as [I2 [S2 X2]].
    destruct (run_ops w1 ops) as [w2 xs]. cbn [fst snd] in *. injection Hx as <-.
    destruct F as [F1 [F2 [F3 [F4 [F5 [F6 [F7 [F8 F9]]]]]]]].
    assert (Hp' : nth_error (w_projs w1) pi = Some p') by (cbn; eapply nth_error_set_nth_same; eauto).
    destruct (S2 _ _ Hp') as [pF [HpF SF]]. destruct (X2 _ _ Hp') as [pF' [HpF' XF]].
    assert (pF' = pF) by congruence. subst pF'.
    assert (HinF : In pF (w_projs w2)) by (eapply nth_error_In; eauto).
    assert (PF : P pF) by (destruct I2 as [Q _ _ _ _]; rewrite Forall_forall in Q; auto).
    assert (CF : Clean C pF) by (destruct I2 as [_ _ _ Q _]; auto).
    destruct (key_later C E r p' pF k0 F1 PF SF XF CF F7 F8 F9) as [G1 G2].
    exists pF. split; [exact HpF|]. split; [exact PF|]. split; [exact CF|]. split; [|split; auto].
    destruct XF as [[ext He] _]. rewrite He, app_length. lia.
  - destruct (step w o) as [w1 x]. cbn [fst] in I1.
    specialize (IH w1 i pi r k Hn2 Hw2 I1 Ho).
    destruct (run_ops w1 ops) as [w2 xs]. cbn [fst snd] in *. apply IH. exact Hx.
Qed.

(** ** the theorem *)

(** The four conditions of DESIGN 7.8. [C] = the individually projected
    configuration keys (the parser's configKeys), [E] = the individually projected
    name keys (.name, /k, /gomaxprocs: the parser's fullnameKeys, the exclude list
    of its full-name extractor).
    (i)   every individually projected configuration key looks up (file OR internal
          entry, "" when absent) the same value;
    (ii)  the FILE configurations restricted to the remaining keys are equal as
          maps (a missing key reading as "", as Key.Get does);
    (iii) every individually projected name key extracts the same value;
    (iv)  the names with those parts deleted are equal. *)
Definition same_info (C E : list bytes) (a b : result) : Prop :=
  (forall k, In k C -> extract_config (r_cfg a) k = extract_config (r_cfg b) k) /\
  (forall k, ~ In k C -> cfg_file_val (r_cfg a) k = cfg_file_val (r_cfg b) k) /\
  (forall k, In k E -> extract k (r_name a) (r_cfg a) = extract k (r_name b) (r_cfg b)) /\
  extractor_fullname E (r_name a) = extractor_fullname E (r_name b).

(** *** the state right after the Parse calls and Residue *)
Lemma after_parsing calls :
  Forall call_ok calls ->
  let pa := parser_after calls in
  let w0 := fst (run_ops new_world (parse_ops calls ++ [OpResidue])) in
  PostInv (pp_cfg pa) (pp_full pa) w0 /\ length (w_projs w0) = S (length calls) /\
  (forall k, In k (pp_cfg pa) -> plain_key k) /\
  (forall k, In k (pp_cfg pa) \/ In k (pp_full pa) ->
     exists pi p, nth_error (w_projs w0) pi = Some p /\ HasKey p k) /\
  (exists pi p, nth_error (w_projs w0) pi = Some p /\ HasCfg p) /\
  (exists pi p, nth_error (w_projs w0) pi = Some p /\ HasFull p).
Proof.
  intros Hok. cbv zeta. rewrite run_ops_app.
  pose proof (parse_phase calls new_world Hok PhaseInv_new) as H.
  destruct (run_ops new_world (parse_ops calls)) as [w1 xs1]. destruct H as [Ph [Hlen Hpp]].
  change (fold_left (fun pp c => fst (do_call pp c)) calls (w_pp new_world)) with (parser_after calls) in Hpp.
  cbn [run_ops step]. pose proof (residue_facts (w_pp w1)) as R.
  pose proof (KInv_residue (w_pp w1)) as K1. pose proof (FInv_residue (w_pp w1)) as F1.
  pose proof (TInv_residue (w_pp w1)) as T1.
  destruct (residue (w_pp w1)) as [pp' p]. cbn [fst snd w_projs] in *.
  destruct R as [R1 [R2 [R3 [R4 [R5 [R6 R7]]]]]]. destruct Ph as [A1 A2 A3 A4 A5 A6 A7].
  rewrite Hpp in *.
  assert (Hidx : forall q, In q (w_projs w1) -> exists pi, nth_error (w_projs w1 ++ [p]) pi = Some q).
  { intros q Hq. apply In_nth_error in Hq as [pi Hpi]. exists pi. now apply nth_error_app_old. }
  assert (Hlast : nth_error (w_projs w1 ++ [p]) (length (w_projs w1)) = Some p).
  { rewrite nth_error_app2 by lia. now rewrite Nat.sub_diag. }
  split; [|split; [|split; [|split; [|split]]]].
  - constructor; cbn [w_pp w_projs].
    + apply Forall_app. split; auto. constructor; auto. split; auto.
    + exact R1.
    + unfold ext_of. rewrite R3, A7. exact R2.
    + intros q Hq. apply in_app_or in Hq as [Hq|[<-|[]]]; apply NoSubs_Clean; auto.
    + intros q k Hq Hk. apply in_app_or in Hq as [Hq|[<-|[]]]; [|exfalso; eapply R5; eauto].
      apply (A2 k). eauto.
  - rewrite app_length. cbn in *. lia.
  - exact A3.
  - intros k Hk. apply (A2 k) in Hk as [q [Hq Hkq]]. destruct (Hidx q Hq) as [pi Hpi]. eauto.
  - destruct (pp_havecfg (parser_after calls)) eqn:Ec.
    + destruct (A5 eq_refl) as [q [Hq Hg]]. destruct (Hidx q Hq) as [pi Hpi]. eauto.
    + eauto.
  - destruct (pp_havefull (parser_after calls)) eqn:Ec.
    + destruct (A6 eq_refl) as [q [Hq Hg]]. destruct (Hidx q Hq) as [pi Hpi]. eauto.
    + eauto.
Qed.

(** *** two Keys of one projection, handed out anywhere in the stream *)
Lemma keys_agree_iff C E rest w0 pi a b i j ka kb :
  Forall no_parse rest -> Forall op_wf rest -> PostInv C E w0 ->
  nth_error rest i = Some (OpProject pi a) -> nth_error (snd (run_ops w0 rest)) i = Some (OutKeys [ka]) ->
  nth_error rest j = Some (OpProject pi b) -> nth_error (snd (run_ops w0 rest)) j = Some (OutKeys [kb]) ->
  exists pF, nth_error (w_projs (fst (run_ops w0 rest))) pi = Some pF /\ P pF /\ Clean C pF /\
    (ka = kb <-> forall idx f, nth_error (p_fields pF) idx = Some f -> want E a f = want E b f) /\
    (forall g o, In (PConfig g o) (p_items pF) -> Has C a pF g /\ Has C b pF g).
Proof.
  intros Hnp Hwf HI Ha Hxa Hb Hxb.
  destruct (key_final C E rest w0 i pi a ka Hnp Hwf HI Ha Hxa) as [pF [Hp [PF [CF [La [Ga Ha']]]]]].
  destruct (key_final C E rest w0 j pi b kb Hnp Hwf HI Hb Hxb) as [pF' [Hp' [_ [_ [Lb [Gb Hb']]]]]].
  assert (pF' = pF) by congruence. subst pF'.
  exists pF. split; [exact Hp|]. split; [exact PF|]. split; [exact CF|]. split; [|intros g o Hin; split; eauto].
  rewrite (key_eq_iff_gets pF ka kb (proj1 PF) La Lb). split.
  - intros H idx f Hf. rewrite <- (Ga idx f Hf), <- (Gb idx f Hf). apply H. unfold nfields. eapply nth_lt; eauto.
  - intros H idx Hidx. destruct (nth_error (p_fields pF) idx) as [f|] eqn:Ef.
    + rewrite (Ga idx f Ef), (Gb idx f Ef). eauto.
    + apply nth_error_None in Ef. unfold nfields in Hidx. lia.
Qed.

Lemma want_eq_of_same_info C E w pF a b :
  PostInv C E w -> (forall k, In k C -> plain_key k) -> In pF (w_projs w) -> same_info C E a b ->
  forall idx f, nth_error (p_fields pF) idx = Some f -> want E a f = want E b f.
Proof.
  intros [I1 _ _ I4 I5] Hpl Hin [S1 [S2 [S3 S4]]] idx f Hf.
  assert (T : TInv pF) by (rewrite Forall_forall in I1; apply (I1 pF Hin)).
  unfold want. destruct (fi_src f) as [k| | |] eqn:Es; auto.
  - destruct (I5 pF k Hin) as [Hk|Hk]; [exists idx, f; auto| |auto].
    rewrite !(extract_plain k) by auto. auto.
  - destruct (cv_cfg pF T idx f Hf Es) as [g [o [Hi _]]].
    pose proof (I4 pF Hin g idx Hi) as Hm. unfold fname in Hm. rewrite Hf in Hm.
    apply S2. intros Hc. apply mem_In in Hc. congruence.
Qed.

(** projections_plus_residue_lossless (DESIGN 7.8, precise form).
    [calls]: the Parse / ParseWithUnit calls made on one parser, each returning a
    projection; then Residue; then ANY stream [rest] of Project / ProjectValues
    (and further Residue) calls on results with distinct configuration keys. The
    projections are numbered 0 .. length calls - 1 in call order, the residue is
    number [length calls]. [a] and [b] are projected by every one of them, at
    arbitrary positions [ia pi], [ib pi] of the stream, giving Keys [ka pi] and
    [kb pi]. Then: the Keys agree in every projection and in the residue IFF
    [same_info]. *)
Theorem projections_plus_residue_lossless calls rest a b (ia ib ka kb : nat -> nat) :
  Forall call_ok calls -> Forall no_parse rest -> Forall op_wf rest ->
  let pa := parser_after calls in
  let w0 := fst (run_ops new_world (parse_ops calls ++ [OpResidue])) in
  let xs := snd (run_ops w0 rest) in
  (forall pi, pi <= length calls ->
     nth_error rest (ia pi) = Some (OpProject pi a) /\ nth_error xs (ia pi) = Some (OutKeys [ka pi]) /\
     nth_error rest (ib pi) = Some (OpProject pi b) /\ nth_error xs (ib pi) = Some (OutKeys [kb pi])) ->
  ((forall pi, pi <= length calls -> ka pi = kb pi) <-> same_info (pp_cfg pa) (pp_full pa) a b).
Proof.
  intros Hok Hnp Hwf. cbv zeta. intros Hpos.
  destruct (after_parsing calls Hok) as [I0 [Hlen [Hpl [Hkeys [Hcfg Hfull]]]]]. cbv zeta in *.
  set (C := pp_cfg (parser_after calls)) in *. set (E := pp_full (parser_after calls)) in *.
  set (w0 := fst (run_ops new_world (parse_ops calls ++ [OpResidue]))) in *.
  destruct (post_run C E rest w0 Hnp Hwf I0) as [IF [SF _]].
  assert (Hfin : forall pi, pi <= length calls ->
            exists pF, nth_error (w_projs (fst (run_ops w0 rest))) pi = Some pF /\ P pF /\ Clean C pF /\
              (ka pi = kb pi <-> forall idx f, nth_error (p_fields pF) idx = Some f -> want E a f = want E b f) /\
              (forall g o, In (PConfig g o) (p_items pF) -> Has C a pF g /\ Has C b pF g)).
  { intros pi Hpi. destruct (Hpos pi Hpi) as [H1 [H2 [H3 H4]]].
    eapply keys_agree_iff; eauto. }
  assert (Hrange : forall pi p, nth_error (w_projs w0) pi = Some p -> pi <= length calls).
  { intros pi p Hp. apply nth_lt in Hp. lia. }
  assert (Hnda : NoDup (map c_key (r_cfg a))).
  { destruct (Hpos 0 (Nat.le_0_l _)) as [H1 _]. apply nth_error_In in H1.
    rewrite Forall_forall in Hwf. apply (Hwf _ H1). }
  assert (Hndb : NoDup (map c_key (r_cfg b))).
  { destruct (Hpos 0 (Nat.le_0_l _)) as [_ [_ [H1 _]]]. apply nth_error_In in H1.
    rewrite Forall_forall in Hwf. apply (Hwf _ H1). }
  split.
  - (* agreement -> same information *)
    intros Hag.
    assert (Hall : forall pi p0, nth_error (w_projs w0) pi = Some p0 ->
              exists pF, sext p0 pF /\ P pF /\
                (forall idx f, nth_error (p_fields pF) idx = Some f -> want E a f = want E b f) /\
                (forall g o, In (PConfig g o) (p_items pF) -> Has C a pF g /\ Has C b pF g)).
    { intros pi p0 Hp0. pose proof (Hrange _ _ Hp0) as Hpi.
      destruct (Hfin pi Hpi) as [pF [HpF [PF [_ [Hiff Hhas]]]]].
      destruct (SF _ _ Hp0) as [pF' [HpF' S0]]. assert (pF' = pF) by congruence. subst pF'.
      exists pF. split; [exact S0|]. split; [exact PF|]. split; [|exact Hhas]. apply Hiff. auto. }
    assert (Hkey : forall k, In k C \/ In k E ->
              extract k (r_name a) (r_cfg a) = extract k (r_name b) (r_cfg b)).
    { intros k Hk. destruct (Hkeys k Hk) as [pi [p0 [Hp0 Hk0]]].
      destruct (Hall pi p0 Hp0) as [pF [S0 [_ [Hw _]]]].
      destruct (HasKey_sext p0 pF k S0 Hk0) as [idx [f [Hf Hs]]].
      specialize (Hw idx f Hf). unfold want in Hw. now rewrite Hs in Hw. }
    split; [|split; [|split]].
    + intros k Hk. pose proof (Hkey k (or_introl Hk)) as Hq.
      rewrite !(extract_plain k) in Hq by auto. exact Hq.
    + intros k Hk.
      destruct Hcfg as [pi [p0 [Hp0 Hg0]]]. destruct (Hall pi p0 Hp0) as [pF [S0 [PF [Hw Hhas]]]].
      destruct (HasCfg_sext p0 pF S0 Hg0) as [g [o Hit]]. destruct (Hhas g o Hit) as [Ha Hb].
      assert (TF : TInv pF) by apply PF.
      assert (Hm : mem k C = false).
      { destruct (mem k C) eqn:Em; auto. apply mem_In in Em. contradiction. }
      assert (Hsub : forall i, In i (gsubs (p_top pF) g) -> fname (p_fields pF) i = k ->
                cfg_file_val (r_cfg a) k = cfg_file_val (r_cfg b) k).
      { intros i Hi Hn. destruct (t_sub pF TF g i Hi) as [f [Hf Hs]].
        specialize (Hw i f Hf). unfold want in Hw. rewrite Hs in Hw.
        unfold fname in Hn. rewrite Hf in Hn. now rewrite Hn in Hw. }
      unfold cfg_file_val at 1.
      destruct (cfg_lookup (r_cfg a) k) as [x|] eqn:Ea.
      * destruct (c_file x) eqn:Efx.
        -- destruct (cfg_lookup_some _ _ _ Ea) as [Hx Hkx]. rewrite <- Hkx in Hm.
           destruct (Ha x Hx Efx Hm) as [i [Hi Hn]]. rewrite Hkx in Hn.
           rewrite <- (Hsub i Hi Hn). unfold cfg_file_val. now rewrite Ea, Efx.
        -- unfold cfg_file_val. destruct (cfg_lookup (r_cfg b) k) as [y|] eqn:Eb; auto.
           destruct (c_file y) eqn:Efy; auto.
           destruct (cfg_lookup_some _ _ _ Eb) as [Hy Hky]. rewrite <- Hky in Hm.
           destruct (Hb y Hy Efy Hm) as [i [Hi Hn]]. rewrite Hky in Hn.
           pose proof (Hsub i Hi Hn) as Hq. unfold cfg_file_val in Hq. now rewrite Ea, Efx, Eb, Efy in Hq.
      * unfold cfg_file_val. destruct (cfg_lookup (r_cfg b) k) as [y|] eqn:Eb; auto.
        destruct (c_file y) eqn:Efy; auto.
        destruct (cfg_lookup_some _ _ _ Eb) as [Hy Hky]. rewrite <- Hky in Hm.
        destruct (Hb y Hy Efy Hm) as [i [Hi Hn]]. rewrite Hky in Hn.
        pose proof (Hsub i Hi Hn) as Hq. unfold cfg_file_val in Hq. now rewrite Ea, Eb, Efy in Hq.
    + intros k Hk. apply Hkey. now right.
    + destruct Hfull as [pi [p0 [Hp0 Hf0]]]. destruct (Hall pi p0 Hp0) as [pF [S0 [_ [Hw _]]]].
      destruct (HasFull_sext p0 pF S0 Hf0) as [idx [f [Hf Hs]]].
      specialize (Hw idx f Hf). unfold want in Hw. now rewrite Hs in Hw.
  - (* same information -> agreement *)
    intros Hsame pi Hpi. destruct (Hfin pi Hpi) as [pF [HpF [_ [_ [Hiff _]]]]]. apply Hiff.
    eapply want_eq_of_same_info; eauto. eapply nth_error_In; eauto.
Qed.

(** *** the "group contents" lemma, in readable form: the Key handed out for [r]
    at any point of the stream after parsing, read in the FINAL state. Every
    field holds what its extractor yields on [r] ([want]); every file key of [r]
    that is not individually projected has a sub-field in every .config group of
    the projection, holding that key's value; and no sub-field is named by an
    individually projected key. *)
Theorem group_contents calls rest i pi r k :
  Forall call_ok calls -> Forall no_parse rest -> Forall op_wf rest ->
  let pa := parser_after calls in
  let w0 := fst (run_ops new_world (parse_ops calls ++ [OpResidue])) in
  nth_error rest i = Some (OpProject pi r) ->
  nth_error (snd (run_ops w0 rest)) i = Some (OutKeys [k]) ->
  exists pF, nth_error (w_projs (fst (run_ops w0 rest))) pi = Some pF /\ k < length (p_keys pF) /\
    (forall idx f, nth_error (p_fields pF) idx = Some f -> key_get pF k idx = want (pp_full pa) r f) /\
    (forall g o c, In (PConfig g o) (p_items pF) ->
       In c (r_cfg r) -> c_file c = true -> ~ In (c_key c) (pp_cfg pa) ->
       exists j, In j (group_subs pF g) /\ field_name pF j = c_key c /\ key_get pF k j = c_val c) /\
    (forall g j, In j (group_subs pF g) -> ~ In (field_name pF j) (pp_cfg pa)).
Proof.
  intros Hok Hnp Hwf. cbv zeta. intros Hi Hx.
  destruct (after_parsing calls Hok) as [I0 _]. cbv zeta in I0.
  destruct (key_final _ _ rest _ i pi r k Hnp Hwf I0 Hi Hx) as [pF [Hp [PF [CF [Lk [G H]]]]]].
  assert (Hnd : NoDup (map c_key (r_cfg r))).
  { apply nth_error_In in Hi. rewrite Forall_forall in Hwf. apply (Hwf _ Hi). }
  exists pF. split; [exact Hp|]. split; [exact Lk|]. split; [exact G|]. split.
  - intros g o c Hit Hc Hf Hex.
    assert (Hm : mem (c_key c) (pp_cfg (parser_after calls)) = false).
    { destruct (mem (c_key c) (pp_cfg (parser_after calls))) eqn:Em; auto. apply mem_In in Em. contradiction. }
    destruct (H g o Hit c Hc Hf Hm) as [j [Hj Hn]]. exists j. split; [exact Hj|]. split; [exact Hn|].
    destruct (t_sub pF (proj2 (proj2 PF)) g j Hj) as [f [Hfj Hs]]. rewrite (G j f Hfj).
    unfold want. rewrite Hs. unfold fname in Hn. rewrite Hfj in Hn. rewrite Hn.
    unfold cfg_file_val. now rewrite (cfg_lookup_in _ _ Hnd Hc), Hf.
  - intros g j Hj Hin. apply mem_In in Hin. rewrite group_subs_gsubs in Hj.
    pose proof (CF g j Hj) as Hm. rewrite field_name_fname in Hin. congruence.
Qed.
