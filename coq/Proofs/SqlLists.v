(** List, bag and sorting lemmas used by the relational semantics of the
    generated SQL (Proofs/Sql.v, Proofs/SqlDb.v): selections over key-unique
    lists, permutations under flat_map, GROUP BY counting, and the fact that a
    descending sort is determined by its input as a bag when the sort keys are
    distinct (so "ORDER BY" needs no particular algorithm). *)
From Coq Require Import Permutation Sorted.
From Perf Require Import Base.Bytes Model.Sql.

(** ** generic list facts *)

Lemma flat_map_if_filter' {A B} (f : A -> bool) (g : A -> list B) l :
  flat_map (fun x => if f x then g x else []) l = flat_map g (filter f l).
Proof.
  induction l as [|x l IH]; cbn [flat_map filter]; [reflexivity|].
  destruct (f x); cbn [flat_map app]; rewrite IH; reflexivity.
Qed.

Lemma flat_map_singleton {A B} (f : A -> B) l : flat_map (fun x => [f x]) l = map f l.
Proof. induction l as [|x l IH]; cbn; [reflexivity | rewrite IH; reflexivity]. Qed.

Lemma flat_map_ext_in' {A B} (f g : A -> list B) l :
  (forall x, In x l -> f x = g x) -> flat_map f l = flat_map g l.
Proof.
  induction l as [|x l IH]; intros H; cbn [flat_map]; [reflexivity|].
  rewrite (H x (or_introl eq_refl)), IH; [reflexivity|]. intros y Hy. apply H. right; exact Hy.
Qed.

Lemma filter_filter_and {A} (f g : A -> bool) l :
  filter f (filter g l) = filter (fun x => g x && f x) l.
Proof.
  induction l as [|x l IH]; cbn [filter]; [reflexivity|].
  destruct (g x); cbn [filter andb]; [destruct (f x)|]; rewrite IH; reflexivity.
Qed.

Lemma filter_flat_map {A B} (f : B -> bool) (g : A -> list B) l :
  filter f (flat_map g l) = flat_map (fun x => filter f (g x)) l.
Proof.
  induction l as [|x l IH]; cbn [flat_map]; [reflexivity|]. rewrite filter_app, IH. reflexivity.
Qed.

Lemma filter_map_comm {A B} (f : B -> bool) (g : A -> B) l :
  filter f (map g l) = map g (filter (fun x => f (g x)) l).
Proof.
  induction l as [|x l IH]; cbn [map filter]; [reflexivity|].
  destruct (f (g x)); cbn [map]; rewrite IH; reflexivity.
Qed.

Lemma filter_nil_all {A} (f : A -> bool) l : (forall x, In x l -> f x = false) -> filter f l = [].
Proof.
  induction l as [|x l IH]; intros H; cbn [filter]; [reflexivity|].
  rewrite (H x (or_introl eq_refl)). apply IH. intros y Hy. apply H. right; exact Hy.
Qed.

Lemma NoDup_map_inj_in {A B} (f : A -> B) l x y :
  NoDup (map f l) -> In x l -> In y l -> f x = f y -> x = y.
Proof.
  induction l as [|a l IH]; cbn [map]; intros Hnd Hx Hy E; [destruct Hx|].
  inversion Hnd as [|? ? Hn Hnd']; subst.
  destruct Hx as [->|Hx], Hy as [->|Hy]; [reflexivity | | |exact (IH Hnd' Hx Hy E)]; exfalso; apply Hn.
  - rewrite E. apply in_map. exact Hy.
  - rewrite <- E. apply in_map. exact Hx.
Qed.

(** a selection that makes [f] determine [g]... keeps [g] duplicate-free *)
Lemma NoDup_map_filter {A B C} (f : A -> B) (g : A -> C) (c : A -> bool) l :
  NoDup (map f l) ->
  (forall x y, In x l -> In y l -> c x = true -> c y = true -> g x = g y -> f x = f y) ->
  NoDup (map g (filter c l)).
Proof.
  induction l as [|a l IH]; cbn [map filter]; intros Hnd H; [constructor|].
  inversion Hnd as [|? ? Hn Hnd']; subst.
  assert (IH' : NoDup (map g (filter c l))).
  { apply IH; [exact Hnd'|]. intros x y Hx Hy. apply H; right; assumption. }
  destruct (c a) eqn:Ea; [|exact IH']. cbn [map]. constructor; [|exact IH'].
  intros Hin. apply in_map_iff in Hin as (y & E & Hy). apply filter_In in Hy as [Hy Hcy].
  apply Hn. rewrite (H a y (or_introl eq_refl) (or_intror Hy) Ea Hcy (eq_sym E)). apply in_map. exact Hy.
Qed.

(** ** selections by a key that is unique *)
Section Unique.
Context {A K : Type} (f : A -> K) (eqb : K -> K -> bool).
Hypothesis eqb_spec : forall a b, reflect (a = b) (eqb a b).

Lemma existsb_eqb_In k (l : list K) : existsb (eqb k) l = true <-> In k l.
Proof.
  rewrite existsb_exists. split.
  - intros (x & Hx & E). destruct (eqb_spec k x); [subst; exact Hx | discriminate].
  - intros H. exists k. split; [exact H|]. destruct (eqb_spec k k); [reflexivity | congruence].
Qed.

Lemma filter_unique l x :
  NoDup (map f l) -> In x l -> filter (fun y => eqb (f x) (f y)) l = [x].
Proof.
  induction l as [|a l IH]; cbn [map filter]; intros Hnd Hx; [destruct Hx|].
  inversion Hnd as [|? ? Hn Hnd']; subst. destruct Hx as [->|Hx].
  - destruct (eqb_spec (f x) (f x)); [|congruence]. f_equal. apply filter_nil_all.
    intros y Hy. destruct (eqb_spec (f x) (f y)) as [E|]; [|reflexivity].
    exfalso. apply Hn. rewrite E. apply in_map. exact Hy.
  - destruct (eqb_spec (f x) (f a)) as [E|_]; [|exact (IH Hnd' Hx)].
    exfalso. apply Hn. rewrite <- E. apply in_map. exact Hx.
Qed.

Lemma filter_absent l k : ~ In k (map f l) -> filter (fun y => eqb k (f y)) l = [].
Proof.
  intros H. apply filter_nil_all. intros y Hy. destruct (eqb_spec k (f y)) as [E|]; [|reflexivity].
  exfalso. apply H. rewrite E. apply in_map. exact Hy.
Qed.
End Unique.

(** ** permutations *)

Lemma Permutation_flat_map' {A B} (f : A -> list B) l l' :
  Permutation l l' -> Permutation (flat_map f l) (flat_map f l').
Proof.
  induction 1; cbn [flat_map].
  - constructor.
  - apply Permutation_app_head. assumption.
  - rewrite !app_assoc. apply Permutation_app_tail. apply Permutation_app_comm.
  - etransitivity; eassumption.
Qed.

Lemma Permutation_filter_length {A} (f : A -> bool) l l' :
  Permutation l l' -> length (filter f l) = length (filter f l').
Proof.
  induction 1; cbn [filter].
  - reflexivity.
  - destruct (f x); cbn [length]; congruence.
  - destruct (f x), (f y); reflexivity.
  - congruence.
Qed.

(** ** GROUP BY ... COUNT( * ) *)

Fixpoint gget (k : bytes) (g : list (bytes * N)) : N :=
  match g with
  | [] => 0
  | (k', n) :: g' => if beq k' k then n else gget k g'
  end.

Definition cnt (k : bytes) (ks : list bytes) : nat := length (filter (fun x => beq x k) ks).

Section Group.
Lemma bump_eq : forall k g, bump k g =
  match g with
  | [] => [(k, 1%N)]
  | (k', n) :: g' => if beq k' k then (k', (n + 1)%N) :: g' else (k', n) :: bump k g'
  end.
Proof. intros k [|[k' n] g']; reflexivity. Qed.

Lemma gget_bump k0 k g : gget k (bump k0 g) = if beq k0 k then (gget k g + 1)%N else gget k g.
Proof.
  induction g as [|[k' n] g IH]; rewrite bump_eq.
  - cbn [gget]. destruct (beq k0 k); reflexivity.
  - destruct (beq_spec k' k0) as [->|Hne]; cbn [gget].
    + destruct (beq k0 k); reflexivity.
    + rewrite IH. destruct (beq_spec k' k) as [->|_]; [|reflexivity].
      destruct (beq_spec k0 k) as [->|_]; [congruence | reflexivity].
Qed.

Lemma bump_keys k0 g : forall k, In k (map fst (bump k0 g)) <-> k = k0 \/ In k (map fst g).
Proof.
  induction g as [|[k' n] g IH]; intros k; rewrite bump_eq.
  - cbn. intuition.
  - destruct (beq_spec k' k0) as [->|Hne]; cbn [map fst In].
    + intuition.
    + rewrite IH. intuition.
Qed.

Lemma bump_nodup k0 g : NoDup (map fst g) -> NoDup (map fst (bump k0 g)).
Proof.
  induction g as [|[k' n] g IH]; intros H; rewrite bump_eq.
  - cbn. constructor; [intros [] | constructor].
  - inversion H as [|? ? Hn Hnd]; subst. destruct (beq_spec k' k0) as [->|Hne]; cbn [map fst].
    + constructor; assumption.
    + constructor; [|apply IH; exact Hnd]. rewrite bump_keys. intros [E|Hin]; [congruence | exact (Hn Hin)].
Qed.

Lemma bump_pos k0 g : (forall k n, In (k, n) g -> n <> 0%N) -> forall k n, In (k, n) (bump k0 g) -> n <> 0%N.
Proof.
  induction g as [|[k' m] g IH]; intros H k n; rewrite bump_eq.
  - intros [E|[]]. inversion E. lia.
  - destruct (beq k' k0).
    + intros [E|Hin]; [inversion E; lia | apply (H k n); right; exact Hin].
    + intros [E|Hin]; [apply (H k n); left; exact E|].
      apply (IH (fun a b Hab => H a b (or_intror Hab)) k n Hin).
Qed.

Lemma group_fold ks : forall g,
  NoDup (map fst g) -> (forall k n, In (k, n) g -> n <> 0%N) ->
  let g' := fold_left (fun g k => bump k g) ks g in
  NoDup (map fst g') /\ (forall k n, In (k, n) g' -> n <> 0%N)
  /\ forall k, gget k g' = (gget k g + N.of_nat (cnt k ks))%N.
Proof.
  induction ks as [|k0 ks IH]; intros g Hnd Hpos; cbn [fold_left].
  - repeat split; auto. intros k. cbn. lia.
  - destruct (IH (bump k0 g) (bump_nodup k0 g Hnd) (bump_pos k0 g Hpos)) as (H1 & H2 & H3).
    repeat split; auto. intros k. rewrite H3, gget_bump. unfold cnt. cbn [filter].
    destruct (beq k0 k); cbn [length]; lia.
Qed.
End Group.

Lemma gget_In g : NoDup (map fst g) -> forall k n, In (k, n) g -> gget k g = n.
Proof.
  induction g as [|[k' m] g IH]; intros Hnd k n Hin; [destruct Hin|].
  inversion Hnd as [|? ? Hn Hnd']; subst. cbn [gget]. destruct Hin as [E|Hin].
  - inversion E; subst. rewrite beq_refl. reflexivity.
  - destruct (beq_spec k' k) as [->|_]; [|exact (IH Hnd' k n Hin)].
    exfalso. apply Hn. change k with (fst (k, n)). apply in_map. exact Hin.
Qed.

Lemma gget_nonzero_In g k : gget k g <> 0%N -> In (k, gget k g) g.
Proof.
  induction g as [|[k' m] g IH]; cbn [gget]; [congruence|].
  destruct (beq_spec k' k) as [->|_]; [left; reflexivity | intros H; right; exact (IH H)].
Qed.

Lemma cnt_perm k l l' : Permutation l l' -> cnt k l = cnt k l'.
Proof. apply Permutation_filter_length. Qed.

Lemma cnt_map_filter {A} (f : A -> bytes) (c : A -> bool) k l :
  cnt k (map f (filter c l)) = length (filter (fun x => beq (f x) k && c x) l).
Proof.
  unfold cnt. induction l as [|x l IH]; cbn [filter map]; [reflexivity|].
  destruct (c x); cbn [map filter].
  - rewrite andb_true_r. destruct (beq (f x) k); cbn [length]; rewrite IH; reflexivity.
  - rewrite andb_false_r. exact IH.
Qed.

(** ** comparisons and descending sorts *)

Record okcmp {K} (c : K -> K -> comparison) : Prop := mkOk {
  ok_eq : forall x y, c x y = Eq -> x = y;
  ok_refl : forall x, c x x = Eq;
  ok_anti : forall x y, c y x = CompOpp (c x y);
  ok_trans : forall x y z, c x y = Lt -> c y z = Lt -> c x z = Lt }.

Lemma okcmp_bcmp : okcmp bcmp.
Proof.
  split.
  - intros x y H. apply bcmp_eq. exact H.
  - intros x. apply bcmp_eq. reflexivity.
  - intros x y. apply bcmp_antisym.
  - apply bcmp_trans_lt.
Qed.

Lemma okcmp_N : okcmp N.compare.
Proof.
  split.
  - apply N.compare_eq.
  - apply N.compare_refl.
  - intros x y. apply N.compare_antisym.
  - intros x y z H1 H2. rewrite N.compare_lt_iff in *. lia.
Qed.

Definition lex' (a b : comparison) : comparison := match a with Eq => b | _ => a end.

Lemma okcmp_pair {A B} (ca : A -> A -> comparison) (cb : B -> B -> comparison) :
  okcmp ca -> okcmp cb -> okcmp (fun x y => lex' (ca (fst x) (fst y)) (cb (snd x) (snd y))).
Proof.
  intros [ea ra aa ta] [eb rb ab tb]. split.
  - intros [a1 b1] [a2 b2]; cbn [fst snd]. destruct (ca a1 a2) eqn:E; cbn [lex']; try discriminate.
    intros H. rewrite (ea _ _ E), (eb _ _ H). reflexivity.
  - intros [a b]; cbn [fst snd]. rewrite ra. cbn. apply rb.
  - intros [a1 b1] [a2 b2]; cbn [fst snd]. rewrite (aa a1 a2). destruct (ca a1 a2); cbn; auto.
  - intros [a1 b1] [a2 b2] [a3 b3]; cbn [fst snd].
    destruct (ca a1 a2) eqn:E12; cbn [lex']; try discriminate.
    + apply ea in E12. subst a2. destruct (ca a1 a3); cbn [lex']; try discriminate; auto. apply tb.
    + intros _. destruct (ca a2 a3) eqn:E23; cbn [lex']; try discriminate.
      * apply ea in E23. subst a3. rewrite E12. reflexivity.
      * rewrite (ta _ _ _ E12 E23). reflexivity.
Qed.

(** NULL (None) below every value *)
Definition opt_cmp {A} (c : A -> A -> comparison) (a b : option A) : comparison :=
  match a, b with
  | None, None => Eq
  | None, Some _ => Lt
  | Some _, None => Gt
  | Some x, Some y => c x y
  end.

Lemma okcmp_opt {A} (c : A -> A -> comparison) : okcmp c -> okcmp (opt_cmp c).
Proof.
  intros [e r a t]. split.
  - intros [x|] [y|]; cbn; try discriminate; [intros H; f_equal; auto | reflexivity].
  - intros [x|]; cbn; auto.
  - intros [x|] [y|]; cbn; auto.
  - intros [x|] [y|] [z|]; cbn; try discriminate; auto. apply t.
Qed.

Section Sort.
Context {A K : Type} (c : K -> K -> comparison) (key : A -> K).
Hypothesis Hok : okcmp c.
Notation insert_desc := (Sql.insert_desc (fun a b => c (key a) (key b))).
Lemma insert_eq : forall x l, insert_desc x l =
  match l with
  | [] => [x]
  | y :: l' => match c (key x) (key y) with Lt => y :: insert_desc x l' | _ => x :: l end
  end.
Proof. intros x [|y l']; reflexivity. Qed.

Definition ge (x y : A) : Prop := c (key x) (key y) <> Lt.

Lemma ge_trans x y z : ge x y -> ge y z -> ge x z.
Proof.
  destruct Hok as [e r a t]. unfold ge. intros H1 H2 H3.
  destruct (c (key x) (key y)) eqn:E; [| congruence |].
  - apply e in E. rewrite E in H3. congruence.
  - assert (c (key y) (key x) = Lt) by (rewrite a, E; reflexivity).
    apply H2. eapply t; eassumption.
Qed.

Lemma insert_perm x l : Permutation (insert_desc x l) (x :: l).
Proof.
  induction l as [|y l IH]; rewrite insert_eq; [reflexivity|].
  destruct (c (key x) (key y)); try reflexivity. rewrite IH. apply perm_swap.
Qed.

Lemma insert_sorted x l : StronglySorted ge l -> StronglySorted ge (insert_desc x l).
Proof.
  induction l as [|y l IH]; intros Hs; rewrite insert_eq.
  - constructor; constructor.
  - apply StronglySorted_inv in Hs as [Hs Hy].
    destruct (c (key x) (key y)) eqn:E.
    + constructor; [constructor; assumption|]. constructor; [unfold ge; congruence|].
      rewrite Forall_forall in *. intros z Hz. apply (ge_trans x y z); [unfold ge; congruence | exact (Hy z Hz)].
    + constructor; [exact (IH Hs)|]. rewrite Forall_forall in *. intros z Hz.
      apply (Permutation_in _ (insert_perm x l)) in Hz as [<-|Hz]; [|exact (Hy z Hz)].
      unfold ge. rewrite (ok_anti c Hok), E. discriminate.
    + constructor; [constructor; assumption|]. constructor; [unfold ge; congruence|].
      rewrite Forall_forall in *. intros z Hz. apply (ge_trans x y z); [unfold ge; congruence | exact (Hy z Hz)].
Qed.

Notation sortd := (sort_desc (fun a b => c (key a) (key b))).

Lemma sortd_perm l : Permutation (sortd l) l.
Proof.
  induction l as [|x l IH]; cbn [sort_desc fold_right]; [reflexivity|].
  change (fold_right insert_desc [] l) with (sortd l). rewrite insert_perm. constructor. exact IH.
Qed.

Lemma sortd_sorted l : StronglySorted ge (sortd l).
Proof.
  induction l as [|x l IH]; cbn [sort_desc fold_right]; [constructor | apply insert_sorted; exact IH].
Qed.

(** two descending arrangements of one bag with pairwise distinct sort keys
    are the same list: ORDER BY leaves no freedom *)
Lemma desc_sorted_unique l1 : forall l2,
  StronglySorted ge l1 -> StronglySorted ge l2 -> Permutation l1 l2 ->
  (forall x y, In x l1 -> In y l1 -> key x = key y -> x = y) -> l1 = l2.
Proof.
  induction l1 as [|a l1 IH]; intros l2 S1 S2 P Hk.
  - apply Permutation_nil in P. congruence.
  - destruct l2 as [|b l2]; [apply Permutation_sym, Permutation_nil in P; discriminate|].
    apply StronglySorted_inv in S1 as [S1 Ha]. apply StronglySorted_inv in S2 as [S2 Hb].
    rewrite Forall_forall in Ha, Hb.
    assert (Eab : a = b).
    { assert (Hain : In a (b :: l2)) by (apply (Permutation_in _ P); left; reflexivity).
      assert (Hbin : In b (a :: l1)) by (apply (Permutation_in _ (Permutation_sym P)); left; reflexivity).
      destruct Hain as [E|Hain]; [congruence|]. destruct Hbin as [E|Hbin]; [congruence|].
      pose proof (Ha b Hbin) as G1. pose proof (Hb a Hain) as G2. unfold ge in G1, G2.
      rewrite (ok_anti c Hok) in G2. destruct (c (key a) (key b)) eqn:E; cbn in G2; try congruence.
      apply (ok_eq c Hok) in E. apply Hk; [left; reflexivity | right; exact Hbin | exact E]. }
    subst b. f_equal. apply IH; try assumption.
    + eapply Permutation_cons_inv; exact P.
    + intros x y Hx Hy. apply Hk; right; assumption.
Qed.

(** the sort depends on its input only as a bag *)
Lemma sortd_perm_eq l l' :
  Permutation l l' -> (forall x y, In x l -> In y l -> key x = key y -> x = y) -> sortd l = sortd l'.
Proof.
  intros P Hk. apply desc_sorted_unique; try apply sortd_sorted.
  - eapply Permutation_trans; [apply sortd_perm|]. eapply Permutation_trans; [exact P|].
    apply Permutation_sym, sortd_perm.
  - intros x y Hx Hy. apply Hk; apply (Permutation_in _ (sortd_perm l)); assumption.
Qed.

(** an ascending list with distinct keys sorts to its reverse *)
Lemma sortd_of_ascending l :
  StronglySorted (fun x y => c (key x) (key y) = Lt) l -> sortd l = rev l.
Proof.
  intros Hs.
  assert (Hin : forall l0, StronglySorted (fun x y => c (key x) (key y) = Lt) l0 ->
                StronglySorted ge (rev l0)
                /\ (forall x y, In x l0 -> In y l0 -> key x = key y -> x = y)).
  { induction l0 as [|a l0 IH0]; intros S; [split; [constructor | intros x y []]|].
    apply StronglySorted_inv in S as [S Ha]. destruct (IH0 S) as [R U]. rewrite Forall_forall in Ha. split.
    - cbn [rev].
      assert (G : forall l3 l4, StronglySorted ge l3 -> StronglySorted ge l4 ->
                  (forall x y, In x l3 -> In y l4 -> ge x y) -> StronglySorted ge (l3 ++ l4)).
      { induction l3 as [|z l3 IH3]; intros l4 S3 S4 H34; [exact S4|]. cbn [app].
        apply StronglySorted_inv in S3 as [S3 Hz]. constructor.
        - apply IH3; auto. intros x y Hx Hy. apply H34; [right; exact Hx | exact Hy].
        - apply Forall_app. split; [exact Hz|]. rewrite Forall_forall. intros y Hy.
          apply H34; [left; reflexivity | exact Hy]. }
      apply G; [exact R | constructor; constructor|].
      intros x y Hx [<-|[]]. apply in_rev in Hx. unfold ge. rewrite (ok_anti c Hok), (Ha x Hx). discriminate.
    - intros x y [<-|Hx] [<-|Hy] E; auto.
      + pose proof (Ha y Hy) as L. rewrite E, (ok_refl c Hok) in L. discriminate.
      + pose proof (Ha x Hx) as L. rewrite E, (ok_refl c Hok) in L. discriminate. }
  destruct (Hin l Hs) as [R U].
  apply desc_sorted_unique; [apply sortd_sorted | exact R | |].
  - eapply Permutation_trans; [apply sortd_perm | apply Permutation_rev].
  - intros x y Hx Hy. apply U; apply (Permutation_in _ (sortd_perm l)); assumption.
Qed.

End Sort.
